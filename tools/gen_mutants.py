#!/venv/bin/python
"""Development tool: first-order mutants of the source INSIDE the translated fragments (tools/mutants.py operators) against
the generated-definition tie.  A mutant whose generated text equals the snapshot lies outside every fragment and is skipped;
every other one is compiled against lean/ADGen/Equiv.lean: 'broken' (an equivalence theorem fails, or the fragment is no
longer translatable) or 'still-proved' (to be read: it should be an equivalent mutant).

usage: tools/gen_mutants.py [jobs]      -> mutation/gen_fragments.json
"""
import json
import os
import shutil
import sys
import tempfile
from concurrent.futures import ProcessPoolExecutor

HERE = os.path.dirname(os.path.abspath(__file__))
sys.path.insert(0, os.path.join(HERE, '..', 'harness'))
sys.path.insert(0, HERE)
import genobl      # noqa: E402
import genspec     # noqa: E402
import mutants     # noqa: E402

FILES = sorted(set(fr.file for fr in genspec.FRAGS) | set(c[1] for c in genspec.CONSTS))


def work(args):
    rel, lineno, desc, msrc = args
    tmp = tempfile.mkdtemp(prefix='genmut_', dir='/tmp')
    try:
        shutil.copytree('/repo/astrodendro', os.path.join(tmp, 'astrodendro'))
        open(os.path.join(tmp, rel), 'w').write(msrc)
        text, errs = genspec.generate(tmp)
        if genobl.HEADER + text == open(genobl.SNAP).read() and not errs:
            return (rel, lineno, desc, 'outside', [])
        r = genobl.obligations(None, tmp)
        return (rel, lineno, desc, 'broken' if r['status'] == 'broken' else 'still-proved',
                [t for t, _ in r['broken']][:4] or sorted(r.get('untranslatable', {}))[:3])
    finally:
        shutil.rmtree(tmp, ignore_errors=True)


def main():
    jobs = int(sys.argv[1]) if len(sys.argv) > 1 else 8
    todo = []
    for rel in FILES:
        src = open(os.path.join('/repo', rel)).read()
        for lineno, desc, msrc in mutants.enumerate_mutants(src, rel):
            todo.append((rel, lineno, desc, msrc))
    print('%d mutants of %d files' % (len(todo), len(FILES)))
    out = []
    with ProcessPoolExecutor(jobs) as ex:
        for r in ex.map(work, todo, chunksize=4):
            if r[3] != 'outside':
                out.append(r)
                print('%-13s %s:%d %s %s' % (r[3], r[0], r[1], r[2], r[4]))
    n_b = sum(1 for r in out if r[3] == 'broken')
    print('inside fragments: %d, broken obligations: %d, still proved: %d' % (len(out), n_b, len(out) - n_b))
    os.makedirs(os.path.join(HERE, '..', 'mutation'), exist_ok=True)
    json.dump([{'file': r[0], 'line': r[1], 'mutation': r[2], 'outcome': r[3], 'theorems': r[4]} for r in out],
              open(os.path.join(HERE, '..', 'mutation', 'gen_fragments.json'), 'w'), indent=1)


if __name__ == '__main__':
    main()
