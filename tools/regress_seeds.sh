#!/bin/bash
# usage: tools/regress_seeds.sh [pattern]   -- every kept seed against the check of its property (scratch worktrees, 4 at a time)
cd /verif
pat="${1:-*}"
ls -d seeded/$pat | xargs -P 4 -I{} bash -c 'id=$(basename {} | cut -d- -f1); r=$(JOBS=4 tools/try_wt.sh {} $id 2>&1 | tail -1 | cut -c1-60); echo "$(basename {}): $r"'
