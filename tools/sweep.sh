#!/bin/bash
# usage: tools/sweep.sh "<seeds>" [ids…]   -- run quick checks for several seeds, print anything that is not OK
seeds="$1"; shift
ids="${@:-C01 C02 C03 C04 C05 C06 C07 C08 C09 C10 C11 C12 C13 C14 C15 C16 C17 C18 C19 C20}"
cd /verif
for s in $seeds; do for id in $ids; do
  out=$(VERIF_SEED=$s ./check $id --tier quick 2>&1 | grep -E "^(VIOLATION|FAIL|infra|Traceback)" | head -3)
  [ -n "$out" ] && echo "seed=$s $id: $out"
done; done
echo "sweep done: seeds=$seeds"
