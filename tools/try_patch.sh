#!/bin/bash
# usage: tools/try_patch.sh <patch.diff> <ID> [<ID> ...]   -- apply to /repo, run quick checks, revert
set -u
patch="$1"; shift
cd /repo && git apply "$patch" || { echo "patch does not apply"; exit 3; }
cd /verif
for id in "$@"; do
  ./check "$id" --tier quick ${TRY_N:+--n $TRY_N} 2>&1 | grep -E "^(VIOLATION|KNOWN|OK|FAIL|infra)" | head -8
done
cd /repo && git checkout -- . && git status --short | head -3
