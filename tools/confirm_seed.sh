#!/bin/bash
# usage: tools/confirm_seed.sh <out-dir under /tmp/wt_out> <worktree>   -> writes <out-dir>/confirm.txt
out="$1"; wt="$2"
cd "$wt" || exit 3
git checkout -q -- . ; git clean -fdq
{
echo "== demo without change"; PYTHONPATH="$wt" /venv/bin/python "$out/demo.py" 2>&1 | tail -3; echo "exit=$?"
git apply "$out/patch.diff" || echo "PATCH DOES NOT APPLY"
echo "== demo with change"; PYTHONPATH="$wt" /venv/bin/python "$out/demo.py" 2>&1 | tail -3; echo "exit=${PIPESTATUS[0]}"
echo "== suite with change"; PYTHONPATH="$wt" /venv/bin/python -m pytest -q -p no:cacheprovider astrodendro 2>&1 | tail -3
git checkout -q -- . ; git clean -fdq
} > "$out/confirm.txt" 2>&1
