#!/usr/bin/env python3
"""usage: tools/keep_seed.py <out-dir> <seed-name>  -- copy a confirmed seeded change into /verif/seeded/<seed-name>/"""
import json, os, shutil, sys
out, name = sys.argv[1], sys.argv[2]
dst = os.path.join('/verif/seeded', name)
os.makedirs(dst, exist_ok=True)
shutil.copy(os.path.join(out, 'patch.diff'), dst)
shutil.copy(os.path.join(out, 'demo.py'), dst)
meta = json.load(open(os.path.join(out, 'meta.json')))
conf = open(os.path.join(out, 'confirm.txt')).read()
meta2 = {'property': meta.get('property'), 'summary': meta.get('summary'), 'needs_to_manifest': meta.get('needs_to_manifest'),
         'files': meta.get('files'), 'source': 'independent sub-agent given only the property text and a scratch worktree',
         'confirmed_by_me': {'what_i_ran': 'tools/confirm_seed.sh: demo.py on the clean worktree (PASS, exit 0), git apply patch.diff, demo.py (FAIL, exit 1), full pytest suite with the change, revert',
                             'transcript': conf[-1800:]}}
json.dump(meta2, open(os.path.join(dst, 'meta.json'), 'w'), indent=1)
print('kept', dst)
