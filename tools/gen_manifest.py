#!/usr/bin/env python3
"""Regenerates /verif/MANIFEST.json from the registry (claimed = properties with proved theorems and
a registered evaluator); everything else is listed under not_applicable with the reason."""
import json
import os
import sys
HERE = os.path.dirname(os.path.dirname(os.path.abspath(__file__)))
sys.path.insert(0, os.path.join(HERE, 'harness'))
os.environ.setdefault('VERIF_REPO', '/repo')
import registry  # noqa

ALL = ['C%02d' % i for i in range(1, 21)]
TEXT = getattr(registry, 'LEVEL_TEXT', {})
NOTE = getattr(registry, 'LEVEL_NOTE', {})
PENDING = getattr(registry, 'PENDING_REASON', {})

checks = []
na = []
for pid in ALL:
    p = registry.PROPS.get(pid)
    if p is None or not p.theorems:
        na.append({'property_id': pid, 'reason': PENDING.get(pid, 'check under construction in this round: no Lean theorem registered yet, so nothing is claimed')})
        continue
    checks.append({
        'property_id': pid,
        'quick_cmd': './check %s --tier quick' % pid,
        'thorough_cmd': './check %s --tier thorough' % pid,
        'evidence_file': 'evidence/%s.json' % pid,
        'replay_cmd_template': './check %s --replay {path}' % pid,
        'engine': 'lean-model+correspondence',
        'level_claimed': {'category': 'proof', 'text': TEXT.get(pid, 'Lean 4 theorems about the hand-written model (%s), tied to /repo by a differential correspondence run on every check' % ', '.join(t.rpartition('::')[2] for t in p.theorems)), 'design_ref': 'DESIGN.md §5 ' + pid},
        'level_note': NOTE.get(pid, 'Trusted: Lean kernel; axioms propext, Classical.choice, Quot.sound only; hand-written model lean/ADModel tied to the code (a) by definitions regenerated from the Python source on every run and proved equal to the model (harness/py2lean.py for scalar decision logic, harness/py2heap.py for the object-level statements of the cached queries and of prune; lean/ADGen; atoms and the attribute view trusted) and (b) by sampled correspondence (harness/); hook ASTRODENDRO_VERIF=1; NumPy primitives and IEEE rounding outside the exact dyadic domain are modelled, not verified.'),
        'technique': 'machine-checked proof in Lean 4 about a hand-written model; model tied to the code by a translator (definitions regenerated from the source on every run, equivalence theorems re-checked) and by a differential correspondence check of the model against the implementation',
    })
m = {
    'version': 1,
    'setup_cmd': 'cd lean && lake build',
    'hooks': {
        'guard': 'ASTRODENDRO_VERIF',
        'enable': 'environment variable ASTRODENDRO_VERIF=1 at call time (set by harness/common.py); /repo is imported in-process from its working tree, nothing to build',
        'baseline_off_cmd': 'cd /repo && env -u ASTRODENDRO_VERIF /venv/bin/python -m pytest -ra -q -p no:cacheprovider --timeout=900 --continue-on-collection-errors',
        'source_commits': registry.HOOK_COMMITS,
        'add_only': True,
    },
    'engines': [{'name': 'lean-model+correspondence', 'path': 'check', 'serves_properties': [c['property_id'] for c in checks],
                 'kind_free_text': 'Lean 4 model + theorems (lean/), definitions generated from the Python source by harness/py2lean.py and harness/py2heap.py with equivalence theorems (lean/ADGen), compiled line-protocol driver (lean/Driver.lean), Python harness running the real code in-process (harness/)'}],
    'checks': checks,
    'not_applicable': na,
    'notes': 'See DESIGN.md. Exit 2 = infrastructure error (never a verdict). Known findings and fixed defects: known_findings.json. '
             'Unguarded fix: commits in /repo: 9c15ad3 321e889 a0e5bd8 9cbfefa 0d0b89e 55071d2 c623874 3628b55 3fb6c73 24f7d5b ec38560 7a3fe32 '
             'ca65689 e98c925 a1fa16d acbe797 6922478.',
}
json.dump(m, open(os.path.join(HERE, 'MANIFEST.json'), 'w'), indent=1)
for pid in ALL:
    f = os.path.join(HERE, 'evidence', pid + '.json')
    if pid not in [c['property_id'] for c in checks] and os.path.exists(f):
        os.remove(f)
print('claimed:', [c['property_id'] for c in checks])
