#!/bin/bash
# usage: tools/process_round.sh <outdir> <ids...>   -- for each id with a patch: run the property's quick check with the patch applied
out="$1"; shift
for id in "$@"; do
  [ -f "$out/$id/patch.diff" ] || { echo "$id: no patch yet"; continue; }
  cd /repo && git apply "$out/$id/patch.diff" 2>/dev/null || { echo "$id: patch does not apply"; git checkout -- .; continue; }
  cd /verif
  r=$(./check "$id" --tier quick 2>&1 | grep -E "^(VIOLATION|FAIL|OK)" | grep -v KNOWN | tail -2 | tr '\n' ' ')
  echo "$id: $r"
  cd /repo && git checkout -- .
done
