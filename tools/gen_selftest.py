#!/venv/bin/python
"""Development tool: is the generated-definition tie (harness/py2lean.py + lean/ADGen/Equiv.lean) sensitive to changes
of meaning and insensitive to rewrites that keep the meaning?  Applies textual rewrites to a scratch copy of
/repo/astrodendro and reports, for each, which theorems of Equiv.lean stop checking.

usage: tools/gen_selftest.py            (writes nothing to /repo or /verif except .work/gencache)
"""
import os
import shutil
import sys
import tempfile

sys.path.insert(0, os.path.join(os.path.dirname(os.path.abspath(__file__)), '..', 'harness'))
import genobl  # noqa: E402

P = 'astrodendro/pruning.py'
D = 'astrodendro/dendrogram.py'
S = 'astrodendro/structure.py'
F = 'astrodendro/io/fits.py'
H = 'astrodendro/io/hdf5.py'
X = 'astrodendro/flux.py'
A = 'astrodendro/analysis.py'

# (label, file, old, new, expected: 'broken' | 'ok', a property whose obligations are looked at)
CASES = [
    # ---- changes of meaning
    ('min_delta child strict', P, '_diff(_py(structure.height), _py(structure.parent.height)) >= delta',
     '_diff(_py(structure.height), _py(structure.parent.height)) > delta', 'broken', 'C07'),
    ('min_delta merge uses vmin', P, 'return _diff(_py(structure.vmax), _py(value)) >= delta',
     'return _diff(_py(structure.vmin), _py(value)) >= delta', 'broken', 'C04'),
    ('min_delta orphan swapped', P, 'return _diff(_py(structure.vmax), _py(structure.vmin)) >= delta',
     'return _diff(_py(structure.vmin), _py(structure.vmax)) >= delta', 'broken', 'C05'),
    ('min_delta: equal-values guard returns 1', P, 'return 0 if top == base else top - base', 'return 1 if top == base else top - base', 'broken', 'C05'),
    ('min_npix strict', P, 'return len(structure.values()) >= npix', 'return len(structure.values()) > npix', 'broken', 'C05'),
    ('min_npix off by one', P, 'return len(structure.values()) >= npix', 'return len(structure.values()) + 1 >= npix', 'broken', 'C05'),
    ('min_peak strict', P, 'return structure.vmax >= peak', 'return structure.vmax > peak', 'broken', 'C05'),
    ('min_sum flipped', P, 'return np.nansum(structure.values()) >= sum', 'return np.nansum(structure.values()) <= sum', 'broken', 'C05'),
    ('threshold not strict', D, 'keep = self.data > threshold', 'keep = self.data >= threshold', 'broken', 'C01'),
    ('default min not below', D, 'min_value = int(finite_min) - 1', 'min_value = int(finite_min)', 'broken', 'C01'),
    ('float default: test dropped', D, 'if not min_value < finite_min:', 'if min_value < finite_min:', 'broken', 'C01'),
    ('plateau rule dropped', D, '(structure.vmax == data_value or\n                          not is_independent',
     '(False or\n                          not is_independent', 'broken', 'C04'),
    ('merge only branches', D, 'if structure.is_leaf and\n', 'if not structure.is_leaf and\n', 'broken', 'C04'),
    ('one kept -> branch', D, '                elif len(adjacent) == 1:\n                    # There is one significant',
     '                elif len(adjacent) == 0:\n                    # There is one significant', 'broken', 'C04'),
    ('prune: zero does not inherit', D, 'if min_delta == 0:\n            min_delta = self.params["min_delta"]',
     'if min_delta == 1:\n            min_delta = self.params["min_delta"]', 'broken', 'C07'),
    ('prune: params may decrease', D, 'if min_npix < self.params["min_npix"]:', 'if min_npix > self.params["min_npix"]:', 'broken', 'C07'),
    ('eq: zero check only left', D, 'if self_params[key] == 0 or other_params[key] == 0:', 'if self_params[key] == 0:', 'broken', 'C20'),
    ('eq: min_value ignored', D, "if self.params['min_value'] != other.params['min_value']:\n            return False",
     "if self.params['min_value'] != other.params['min_value']:\n            pass", 'broken', 'C20'),
    ('structure_at: label 0 lost', D, 'if idx > -1:\n            return self._structures_dict[idx]',
     'if idx > 0:\n            return self._structures_dict[idx]', 'broken', 'C06'),
    ('wrap: high end lost', D, 'elif c[a] == shp[a] - 1:', 'elif c[a] > shp[a] - 1:', 'broken', 'C17'),
    ('wrap: low end off by one', D, 'c[a] = shp[a] - 2', 'c[a] = shp[a] - 1', 'broken', 'C17'),
    ('add_pixel: vmin from max', S, 'self._vmin, self._vmax = min(value, self.vmin), max(value, self.vmax)',
     'self._vmin, self._vmax = max(value, self.vmin), max(value, self.vmax)', 'broken', 'C06'),
    ('merge: smallest index kept', S, 'self._smallest_index = min(structure._smallest_index, self._smallest_index)',
     'self._smallest_index = self._smallest_index', 'broken', 'C06'),
    ('tree index: counts swapped', D, 'di = self._npix_subtree[sid] if subtree else self._npix[sid]',
     'di = self._npix[sid] if subtree else self._npix_subtree[sid]', 'broken', 'C06'),
    ('is_fits ignores mode', F, "if mode == 'r' and os.path.exists(filename):", 'if os.path.exists(filename):', 'broken', 'C09'),
    ('fits extension table', F, "('.fits', '.fits.gz', '.fit', '.fit.gz')", "('.fits', '.fits.gz', '.fit')", 'broken', 'C09'),
    ('hdf5 signature', H, "HDF5_SIGNATURE = b'\\x89HDF\\r\\n\\x1a\\n'", "HDF5_SIGNATURE = b'\\x89HDF\\r\\n\\x1a'", 'broken', 'C09'),
    ('flux: wavelength presence check dropped', X, '        if wavelength is None:\n            raise ValueError("wavelength is needed to convert from {0} to Jy".format(input_quantities.unit))\n\n        # Find frequency\n        nu = si.c / wavelength',
     '        nu = si.c / wavelength', 'broken', 'C13'),
    ('flux: output unit check inverted', X, 'if not output_unit.is_equivalent(u.Jy):', 'if output_unit.is_equivalent(u.Jy):', 'broken', 'C13'),
    ('flux: K branch before Jy/beam', X, 'elif input_quantities.unit.is_equivalent(u.Jy / u.beam):', 'elif input_quantities.unit.is_equivalent(u.K) and False:', 'broken', 'C13'),
    ('to_prune: parentless leaves handed over', D, '            parent = struct.parent\n            # deal with trunks later\n            if parent is None:\n                continue\n',
     '            parent = struct.parent\n', 'broken', 'C07'),
    ('two-sibling rule lost', D, 'if len(siblings) == 2:', 'if len(siblings) == 3:', 'broken', 'C08'),
    ('trunk drop inverted', D, 'if not is_independent(leaf):', 'if is_independent(leaf):', 'broken', 'C05'),
    ('wrap: boundary included', A, 'np.where(index_array < shape/2,', 'np.where(index_array <= shape/2,', 'broken', 'C12'),
    ('wrap: taken when not smaller', A, 'if np.ptp(i2) < np.ptp(index_array):', 'if np.ptp(i2) <= np.ptp(index_array):', 'broken', 'C12'),
    ('add_pixel: caches not reset', S, '        self._smallest_index = min(self._smallest_index, index)\n        self._reset_cache()', '        self._smallest_index = min(self._smallest_index, index)', 'broken', 'C06'),
    ('to_prune: scan goes on after a hit', D, '            yield struct\n            break', '            yield struct\n            pass', 'broken', 'C07'),
    ('trunk drop: id table keeps the leaf', D, '            keep_structures.pop(leaf.idx)\n', '', 'broken', 'C07'),
    # ---- object-level fragments (py2heap): changes of meaning
    ('level: walk starts with diff 0', S, '                diff = 1\n', '                diff = 0\n', 'broken', 'C14'),
    ('level: parent cache off by two', S, 'self.parent._level = self._level - 1', 'self.parent._level = self._level - 2', 'broken', 'C14'),
    ('level: trunk level 1', S, '                self._level = 0\n', '                self._level = 1\n', 'broken', 'C02'),
    ('level: parent level not incremented', S, 'self._level = self.parent._level + 1', 'self._level = self.parent._level', 'broken', 'C02'),
    ('ancestor: stops one short', S, '        while self._ancestor.parent:\n            a = self._ancestor', '        while self._ancestor.parent and self._ancestor.parent.parent:\n            a = self._ancestor', 'broken', 'C14'),
    ('ancestor: parentless returns parent', S, '        if self.parent is None:\n            return self\n\n        if not self._ancestor', '        if self.parent is None:\n            return self.parent\n\n        if not self._ancestor', 'broken', 'C02'),
    ('ancestor: cached ancestor of a ignored', S, '            if a._ancestor:\n                self._ancestor = a._ancestor', '            if a._ancestor:\n                self._ancestor = a', 'broken', 'C14'),
    ('descendants: leaves not filtered but branches', S, 'to_add = [b for b in children if not b.is_leaf]', 'to_add = [b for b in children if b.is_leaf]', 'broken', 'C02'),
    ('descendants: self included', S, '            self._descendants = []\n', '            self._descendants = [self]\n', 'broken', 'C02'),
    ('reset_cache: level kept', S, '        self._level = None\n        self._ancestor = None', '        self._ancestor = None', 'broken', 'C14'),
    ('reset_cache: descendants kept', S, '        self._descendants = None\n', '', 'broken', 'C14'),
    ('merge_with_parent: grandchildren keep their parent', D, '        for child in m.children:\n            child.parent = parent', '        for child in m.children:\n            pass', 'broken', 'C07'),
    ('merge_with_parent: children not adopted', D, '        parent.children.extend(m.children)\n', '', 'broken', 'C07'),
    ('merge_with_parent: merged structure stays a child', D, '    parent.children.remove(m)\n', '', 'broken', 'C07'),
    ('merge: pixels not handed over', S, '        self._indices.extend(structure._indices)\n', '', 'broken', 'C07'),
    ('merge: caches of the receiver kept', S, '        self._smallest_index = min(structure._smallest_index, self._smallest_index)\n        self._reset_cache()', '        self._smallest_index = min(structure._smallest_index, self._smallest_index)', 'broken', 'C14'),
    ('prune: merged structure stays in the id table', D, '                del keep_structures[m.idx]\n', '                pass\n', 'broken', 'C07'),
    ('prune: caches of survivors not reset', D, '        for structure in keep_structures.values():\n            structure._reset_cache()', '        for structure in keep_structures.values():\n            pass', 'broken', 'C14'),
    ('make_trunk: level seeded with 1', D, '        structure._level = 0  # See', '        structure._level = 1  # See', 'broken', 'C14'),
    ('make_trunk: trunk = structures WITH a parent', D, 'for structure in keep_structures.values() if structure.parent is None])', 'for structure in keep_structures.values() if structure.parent is not None])', 'broken', 'C02'),
    ('Structure gets __len__', S, '    def _reset_cache(self):', '    def __len__(self):\n        return len(self._indices)\n\n    def _reset_cache(self):', 'broken', 'C14'),
    # ---- rewrites that keep the meaning
    # ---- object-level fragments: rewrites that keep the meaning
    ('level: is None written as not-is-not', S, '        if self._level is None:\n            if not self.parent:', '        if not (self._level is not None):\n            if not self.parent:', 'ok', 'C14'),
    ('level: parent test by is None', S, '            if not self.parent:\n                self._level = 0', '            if self.parent is None:\n                self._level = 0', 'ok', 'C14'),
    ('ancestor: branches swapped', S, '            if a._ancestor:\n                self._ancestor = a._ancestor\n            else:\n                self._ancestor = a.parent', '            if not a._ancestor:\n                self._ancestor = a.parent\n            else:\n                self._ancestor = a._ancestor', 'ok', 'C14'),
    ('ancestor: cache test by is None', S, '        if not self._ancestor:\n            self._ancestor = self.parent', '        if self._ancestor is None:\n            self._ancestor = self.parent', 'ok', 'C14'),
    ('descendants: filter by is_branch', S, 'to_add = [b for b in children if not b.is_leaf]', 'to_add = [b for b in children if b.is_branch]', 'ok', 'C02'),
    ('merge_with_parent: is_branch as not is_leaf', D, '    if m.is_branch:\n        parent.children.extend', '    if not m.is_leaf:\n        parent.children.extend', 'ok', 'C07'),
    ('merge_with_parent: guard by children', D, '    if m.is_branch:\n        parent.children.extend', '    if m.children:\n        parent.children.extend', 'ok', 'C07'),
    ('reset_cache: other order', S, '        self._level = None\n        self._ancestor = None', '        self._ancestor = None\n        self._level = None', 'ok', 'C14'),
    ('wrap: sides flipped', A, 'np.where(index_array < shape/2,', 'np.where(shape/2 > index_array,', 'ok', 'C12'),
    ('two-sibling rule: >= 3', D, 'elif len(siblings) > 2:', 'elif len(siblings) >= 3:', 'ok', 'C08'),
    ('flux: De Morgan', X, 'if wavelength is not None and not wavelength.unit.is_equivalent(u.m):',
     'if not (wavelength is None or wavelength.unit.is_equivalent(u.m)):', 'ok', 'C13'),
    ('min_delta child rearranged', P, '_diff(_py(structure.height), _py(structure.parent.height)) >= delta',
     '_py(structure.height) >= _py(structure.parent.height) + delta', 'ok', 'C07'),
    ('min_delta merge negated', P, 'return _diff(_py(structure.vmax), _py(value)) >= delta',
     'return not (_diff(_py(structure.vmax), _py(value)) < delta)', 'ok', 'C04'),
    ('min_npix flipped sides', P, 'return len(structure.values()) >= npix', 'return npix <= len(structure.values())', 'ok', 'C05'),
    ('threshold flipped sides', D, 'keep = self.data > threshold', 'keep = threshold < self.data', 'ok', 'C01'),
    ('insignificant reordered', D, '(structure.vmax == data_value or\n                          not is_independent(structure, index=coord,\n                                             value=data_value))]',
     '(not is_independent(structure, index=coord,\n                                             value=data_value) or structure.vmax == data_value)]', 'ok', 'C04'),
    ('prune: inherit written with else', D, 'if min_delta == 0:\n            min_delta = self.params["min_delta"]',
     'if min_delta != 0:\n            pass\n        else:\n            min_delta = self.params["min_delta"]', 'ok', 'C07'),
    ('prune: >= instead of not <', D, 'if min_npix < self.params["min_npix"]:\n            warnings.warn("New min_npix (%s) is less than the current min_npix \\\n                           (%s). No leaves can be pruned."\n                          % (min_npix, self.params["min_npix"]))\n        else:  # Updates params\n            self.params["min_npix"] = min_npix',
     'if min_npix >= self.params["min_npix"]:\n            self.params["min_npix"] = min_npix\n        else:\n            warnings.warn("New min_npix is less than the current min_npix")', 'ok', 'C07'),
    ('structure_at: >= 0', D, 'if idx > -1:', 'if idx >= 0:', 'ok', 'C06'),
    ('wrap: == -1 instead of < 0', D, 'if c[a] < 0:', 'if c[a] <= -1:', 'ok', 'C17'),
    ('add_pixel: min argument order', S, 'self._vmin, self._vmax = min(value, self.vmin), max(value, self.vmax)',
     'self._vmin, self._vmax = min(self.vmin, value), max(self.vmax, value)', 'ok', 'C06'),
    ('is_fits: nested ifs', F, "if mode == 'r' and os.path.exists(filename):", "if os.path.exists(filename) and mode == 'r':", 'ok', 'C09'),
]


def main():
    tmp = tempfile.mkdtemp(prefix='gensel_', dir='/tmp')
    bad = 0
    try:
        for label, rel, old, new, expect, pid in CASES:
            dst = os.path.join(tmp, 'r')
            shutil.rmtree(dst, ignore_errors=True)
            shutil.copytree('/repo/astrodendro', os.path.join(dst, 'astrodendro'))
            path = os.path.join(dst, rel)
            src = open(path).read()
            if src.count(old) != 1:
                print('SKIP %-36s pattern found %d times' % (label, src.count(old)))
                bad += 1
                continue
            open(path, 'w').write(src.replace(old, new))
            r = genobl.obligations(pid, dst)
            got = 'broken' if r['status'] == 'broken' else 'ok'
            flag = 'as expected' if got == expect else 'UNEXPECTED'
            bad += got != expect
            print('%-11s %-36s %-7s %s %s' % (flag, label, got, r['status'], [t for t, _ in r['broken']][:3] or r.get('untranslatable') or ''))
    finally:
        shutil.rmtree(tmp, ignore_errors=True)
    print('%d cases, %d unexpected' % (len(CASES), bad))
    return 1 if bad else 0


if __name__ == '__main__':
    sys.exit(main())
