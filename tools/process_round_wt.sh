#!/bin/bash
# usage: tools/process_round_wt.sh <outdir> <wtroot> <ids...>
# like process_round.sh but never touches /repo: each seed is applied in its own scratch worktree
# <wtroot>/<id> (moved to main's HEAD first) and the check runs with VERIF_REPO pointing there.
out="$1"; wt="$2"; shift; shift
for id in "$@"; do
  [ -f "$out/$id/patch.diff" ] || { echo "$id: no patch yet"; continue; }
  [ -d "$wt/$id" ] || git -C /repo worktree add -q --detach "$wt/$id" main
  git -C "$wt/$id" checkout -q -- . ; git -C "$wt/$id" checkout -q --detach main
  git -C "$wt/$id" apply "$out/$id/patch.diff" 2>/dev/null || { echo "$id: patch does not apply"; continue; }
  r=$(cd /verif && VERIF_REPO="$wt/$id" ./check "$id" --tier quick --jobs ${JOBS:-8} 2>&1 | grep -E "^(VIOLATION|FAIL|OK)" | grep -v KNOWN | tail -2 | tr '\n' ' ')
  echo "$id: $r"
  git -C "$wt/$id" checkout -q -- .
done
