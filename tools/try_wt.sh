#!/bin/bash
# usage: tools/try_wt.sh <seed dir (with patch.diff)> <ID> [<ID> ...]  -- apply the patch in a scratch worktree, run quick checks
# with VERIF_REPO pointing there, remove the worktree.  /repo itself is never touched.
set -u
sd="$(cd "$1" && pwd)"; shift
wt=$(mktemp -d /tmp/trywt.XXXXXX); rmdir "$wt"
git -C /repo worktree add -q --detach "$wt" main || exit 3
git -C "$wt" apply "$sd/patch.diff" 2>/dev/null || git -C "$wt" apply -3 "$sd/patch.diff" 2>/dev/null || { echo "patch does not apply"; git -C /repo worktree remove --force "$wt"; exit 3; }
cd /verif
for id in "$@"; do
  VERIF_REPO="$wt" ./check "$id" --tier quick ${TRY_N:+--n $TRY_N} --jobs ${JOBS:-16} 2>&1 | grep -E "^(VIOLATION|OK|FAIL|infra)" | head -6
done
git -C /repo worktree remove --force "$wt"
