#!/bin/bash
# usage: tools/try_wt.sh <seed dir (with patch.diff)> <ID> [<ID> ...]  -- apply the patch in a scratch worktree, run quick checks
# with VERIF_REPO pointing there, remove the worktree.  /repo itself is never touched.  A seed that was written against an
# earlier head (before a later fix: commit touched the same lines) is applied to the newest commit it still applies to.
set -u
sd="$(cd "$1" && pwd)"; shift
wt=$(mktemp -d /tmp/trywt.XXXXXX); rmdir "$wt"
applied=""
for rev in $(git -C /repo rev-list main | head -25); do
  git -C /repo worktree add -q --detach "$wt" "$rev" || exit 3
  if git -C "$wt" apply "$sd/patch.diff" 2>/dev/null || git -C "$wt" apply -3 "$sd/patch.diff" 2>/dev/null; then
    if [ -z "$(git -C "$wt" diff --name-only --diff-filter=U)" ]; then applied="$rev"; break; fi
  fi
  git -C /repo worktree remove --force "$wt"
done
[ -n "$applied" ] || { echo "patch does not apply"; exit 3; }
[ "$applied" = "$(git -C /repo rev-parse main)" ] || echo "(applied at $(git -C /repo rev-parse --short $applied), before a later fix touched the same lines)"
cd /verif
for id in "$@"; do
  VERIF_REPO="$wt" ./check "$id" --tier quick ${TRY_N:+--n $TRY_N} --jobs ${JOBS:-16} 2>&1 | grep -E "^(VIOLATION|OK|FAIL|infra)" | head -6
done
git -C /repo worktree remove --force "$wt"
