#!/venv/bin/python
"""Systematic mutation campaign against the checks (development tool, not part of any registered check).

  tools/mutants.py gen  <outdir>                 enumerate first-order mutants of astrodendro's source (AST level)
  tools/mutants.py test <outdir> <wtroot> [N]    run the pinned test-suite on every mutant in N scratch worktrees
  tools/mutants.py hunt <outdir> <wtroot> [N]    run the relevant checks on the mutants that survived the tests

Nothing is ever written to /repo; <wtroot>/m<i> are `git worktree`s of it (remove them afterwards).
Results: <outdir>/index.json (one record per mutant, updated in place).
"""
import ast
import copy
import json
import os
import subprocess
import sys
import time
from concurrent.futures import ThreadPoolExecutor

REPO = '/repo'
FILES = ['astrodendro/dendrogram.py', 'astrodendro/structure.py', 'astrodendro/pruning.py', 'astrodendro/analysis.py',
         'astrodendro/flux.py', 'astrodendro/plot.py', 'astrodendro/io/util.py', 'astrodendro/io/fits.py',
         'astrodendro/io/hdf5.py', 'astrodendro/io/__init__.py', 'astrodendro/scatter.py', 'astrodendro/viewer.py']
CHECKS = {
    'astrodendro/dendrogram.py': ['C01', 'C04', 'C02', 'C03', 'C05', 'C06', 'C07', 'C08', 'C15', 'C16', 'C17', 'C20', 'C14', 'C09', 'C12', 'C18'],
    'astrodendro/structure.py': ['C06', 'C02', 'C14', 'C07', 'C05', 'C18', 'C04', 'C09', 'C01'],
    'astrodendro/pruning.py': ['C04', 'C05', 'C07', 'C08', 'C01', 'C16'],
    'astrodendro/analysis.py': ['C10', 'C11', 'C12', 'C13', 'C19'],
    'astrodendro/flux.py': ['C13', 'C12'],
    'astrodendro/plot.py': ['C18', 'C14', 'C19'],
    'astrodendro/io/util.py': ['C09', 'C02', 'C14', 'C20', 'C06'],
    'astrodendro/io/fits.py': ['C09', 'C20', 'C14'],
    'astrodendro/io/hdf5.py': ['C09', 'C20', 'C14'],
    'astrodendro/io/__init__.py': ['C09'],
    'astrodendro/scatter.py': ['C19'],
    'astrodendro/viewer.py': ['C19'],
}

CMP = {ast.Lt: [ast.LtE, ast.Gt], ast.LtE: [ast.Lt, ast.GtE], ast.Gt: [ast.GtE, ast.Lt], ast.GtE: [ast.Gt, ast.LtE],
       ast.Eq: [ast.NotEq], ast.NotEq: [ast.Eq], ast.Is: [ast.IsNot], ast.IsNot: [ast.Is], ast.In: [ast.NotIn], ast.NotIn: [ast.In]}
BIN = {ast.Add: [ast.Sub], ast.Sub: [ast.Add], ast.Mult: [ast.FloorDiv], ast.Div: [ast.Mult], ast.FloorDiv: [ast.Mult], ast.Mod: [ast.FloorDiv]}
SWAP_CALLS = {'min': 'max', 'max': 'min', 'any': 'all', 'all': 'any', 'nanmin': 'nanmax', 'nanmax': 'nanmin', 'argmax': 'argmin', 'argmin': 'argmax',
              'extend': 'append', 'floor': 'ceil', 'ceil': 'floor', 'nansum': 'sum'}


class Site(object):
    pass


def enumerate_mutants(src, fname):
    """yields (lineno, description, mutated_source)"""
    tree = ast.parse(src)
    nodes = list(ast.walk(tree))
    # skip docstrings / module-level string constants
    for idx, node in enumerate(nodes):
        muts = []
        if isinstance(node, ast.Compare):
            for j, op in enumerate(node.ops):
                for new in CMP.get(type(op), []):
                    muts.append(('cmp %s->%s' % (type(op).__name__, new.__name__), ('cmp', j, new)))
        elif isinstance(node, ast.BinOp) and type(node.op) in BIN:
            if isinstance(node.left, ast.Constant) and isinstance(node.left.value, str):
                continue
            for new in BIN[type(node.op)]:
                muts.append(('binop %s->%s' % (type(node.op).__name__, new.__name__), ('bin', new)))
        elif isinstance(node, ast.BoolOp):
            new = ast.Or if isinstance(node.op, ast.And) else ast.And
            muts.append(('boolop %s->%s' % (type(node.op).__name__, new.__name__), ('bool', new)))
        elif isinstance(node, ast.UnaryOp) and isinstance(node.op, ast.Not):
            muts.append(('drop not', ('dropnot',)))
        elif isinstance(node, ast.Constant) and isinstance(node.value, bool):
            muts.append(('const %r->%r' % (node.value, not node.value), ('const', not node.value)))
        elif isinstance(node, ast.Constant) and isinstance(node.value, int) and not isinstance(node.value, bool) and -2 <= node.value <= 3:
            for new in (node.value + 1, node.value - 1):
                muts.append(('const %r->%r' % (node.value, new), ('const', new)))
        elif isinstance(node, ast.Call):
            f = node.func
            name = f.id if isinstance(f, ast.Name) else f.attr if isinstance(f, ast.Attribute) else None
            if name in SWAP_CALLS:
                muts.append(('call %s->%s' % (name, SWAP_CALLS[name]), ('call', SWAP_CALLS[name])))
            if name in ('reversed', 'sorted', 'abs', 'copy', 'list', 'set', 'tuple') and isinstance(f, ast.Name) and len(node.args) == 1 and not node.keywords:
                muts.append(('unwrap %s(...)' % name, ('unwrap',)))
        elif isinstance(node, ast.Expr) and isinstance(node.value, ast.Call):
            muts.append(('delete statement', ('delstmt',)))
        elif isinstance(node, (ast.Assign, ast.AugAssign)) and not isinstance(getattr(node, 'value', None), ast.Constant):
            if isinstance(node, ast.AugAssign):
                muts.append(('delete statement', ('delstmt',)))
        elif isinstance(node, ast.If) and not node.orelse:
            muts.append(('if -> if not', ('negif',)))
        elif isinstance(node, ast.Return) and node.value is not None and isinstance(node.value, ast.Compare):
            pass
        elif isinstance(node, (ast.Break, ast.Continue)):
            muts.append(('%s -> pass' % type(node).__name__.lower(), ('topass',)))
        elif isinstance(node, ast.Subscript) and isinstance(node.slice, ast.Slice):
            sl = node.slice
            if sl.step is not None and isinstance(sl.step, ast.UnaryOp):
                muts.append(('drop reversing slice', ('dropstep',)))
        for desc, m in muts:
            t2 = copy.deepcopy(tree)
            n2 = list(ast.walk(t2))[idx]
            kind = m[0]
            try:
                if kind == 'cmp':
                    n2.ops[m[1]] = m[2]()
                elif kind == 'bin':
                    n2.op = m[1]()
                elif kind == 'bool':
                    n2.op = m[1]()
                elif kind == 'const':
                    n2.value = m[1]
                elif kind == 'call':
                    if isinstance(n2.func, ast.Name):
                        n2.func.id = m[1]
                    else:
                        n2.func.attr = m[1]
                elif kind in ('dropnot', 'unwrap', 'delstmt', 'topass', 'negif', 'dropstep'):
                    # structural replacement: find the parent
                    done = False
                    for par in ast.walk(t2):
                        for field, val in ast.iter_fields(par):
                            if isinstance(val, list):
                                for k, x in enumerate(val):
                                    if x is n2:
                                        if kind == 'dropnot':
                                            val[k] = n2.operand
                                        elif kind == 'unwrap':
                                            val[k] = n2.args[0]
                                        elif kind in ('delstmt', 'topass'):
                                            val[k] = ast.Pass()
                                        elif kind == 'negif':
                                            n2.test = ast.UnaryOp(op=ast.Not(), operand=n2.test)
                                        elif kind == 'dropstep':
                                            n2.slice.step = None
                                        done = True
                            elif val is n2:
                                if kind == 'dropnot':
                                    setattr(par, field, n2.operand)
                                elif kind == 'unwrap':
                                    setattr(par, field, n2.args[0])
                                elif kind == 'negif':
                                    n2.test = ast.UnaryOp(op=ast.Not(), operand=n2.test)
                                elif kind == 'dropstep':
                                    n2.slice.step = None
                                else:
                                    continue
                                done = True
                            if done:
                                break
                        if done:
                            break
                    if not done:
                        continue
                ast.fix_missing_locations(t2)
                out = ast.unparse(t2)
                compile(out, fname, 'exec')
            except Exception:
                continue
            yield getattr(node, 'lineno', 0), desc, out


CONFUSE = {'vmin': 'vmax', 'vmax': 'vmin', '_vmin': '_vmax', '_vmax': '_vmin', 'parent': 'ancestor', 'ancestor': 'parent',
           'children': 'descendants', 'descendants': 'children', 'is_leaf': 'is_branch', 'is_branch': 'is_leaf',
           'x_cen': 'y_cen', 'y_cen': 'x_cen', 'major_sigma': 'minor_sigma', 'minor_sigma': 'major_sigma',
           'beam_major': 'beam_minor', 'beam_minor': 'beam_major', '_peak': '_peak_subtree', '_peak_subtree': '_peak',
           'trunk': 'leaves', 'leaves': 'trunk', 'height': 'vmax', 'xdata': 'ydata', 'ydata': 'xdata',
           '_indices': '_values', 'smallest_index': 'idx', 'min_delta': 'min_npix', 'min_npix': 'min_delta',
           'append': 'extend', 'values': 'indices', 'indices': 'values', 'shape': 'size', 'ndim': 'size',
           'hstack': 'vstack', 'vstack': 'hstack', 'nansum': 'nanmax', 'argsort': 'sort', 'where': 'nonzero',
           'selections': 'select_subtree', 'xdata_': 'ydata_'}


def enumerate_mutants2(src, fname):
    """second campaign: confusable attribute / name swaps, argument swaps, subscript end swaps, off-by-one in slices"""
    tree = ast.parse(src)
    nodes = list(ast.walk(tree))
    for idx, node in enumerate(nodes):
        muts = []
        if isinstance(node, ast.Attribute) and node.attr in CONFUSE and isinstance(node.ctx, ast.Load):
            muts.append(('attr %s->%s' % (node.attr, CONFUSE[node.attr]), ('attr', CONFUSE[node.attr])))
        elif isinstance(node, ast.Name) and node.id in CONFUSE and isinstance(node.ctx, ast.Load):
            muts.append(('name %s->%s' % (node.id, CONFUSE[node.id]), ('name', CONFUSE[node.id])))
        elif isinstance(node, ast.Call) and len(node.args) == 2 and not any(isinstance(a, ast.Starred) for a in node.args):
            muts.append(('swap the two arguments', ('swapargs',)))
        elif isinstance(node, ast.Subscript) and isinstance(node.slice, ast.Constant) and node.slice.value in (0, -1) and isinstance(node.ctx, ast.Load):
            muts.append(('subscript [%d]->[%d]' % (node.slice.value, -1 - node.slice.value), ('sub', -1 - node.slice.value)))
        elif isinstance(node, ast.Subscript) and isinstance(node.slice, ast.UnaryOp) and isinstance(node.slice.operand, ast.Constant) and node.slice.operand.value == 1:
            muts.append(('subscript [-1]->[0]', ('sub', 0)))
        elif isinstance(node, ast.Slice) and node.upper is None and node.lower is not None and isinstance(node.lower, ast.Constant) and isinstance(node.lower.value, int):
            muts.append(('slice [%d:]->[%d:]' % (node.lower.value, node.lower.value + 1), ('slicelow', node.lower.value + 1)))
        elif isinstance(node, ast.keyword) and isinstance(node.value, ast.Constant) and isinstance(node.value.value, bool):
            pass
        elif isinstance(node, ast.IfExp):
            muts.append(('swap the branches of a conditional expression', ('swapifexp',)))
        elif isinstance(node, ast.If) and node.orelse and not (len(node.orelse) == 1 and isinstance(node.orelse[0], ast.If)):
            muts.append(('swap if / else bodies', ('swapif',)))
        for desc, m in muts:
            t2 = copy.deepcopy(tree)
            n2 = list(ast.walk(t2))[idx]
            try:
                if m[0] == 'attr':
                    n2.attr = m[1]
                elif m[0] == 'name':
                    n2.id = m[1]
                elif m[0] == 'swapargs':
                    n2.args = [n2.args[1], n2.args[0]]
                elif m[0] == 'sub':
                    n2.slice = ast.Constant(value=m[1])
                elif m[0] == 'slicelow':
                    n2.lower = ast.Constant(value=m[1])
                elif m[0] == 'swapifexp':
                    n2.body, n2.orelse = n2.orelse, n2.body
                elif m[0] == 'swapif':
                    n2.body, n2.orelse = n2.orelse, n2.body
                ast.fix_missing_locations(t2)
                out = ast.unparse(t2)
                compile(out, fname, 'exec')
            except Exception:
                continue
            yield getattr(node, 'lineno', 0), desc, out


def in_docstring_or_trivial(src_line):
    s = src_line.strip()
    return s.startswith(('"""', "'''", '#', 'warnings.warn', 'raise ', 'print(', 'import ', 'from '))


def cmd_gen(outdir, second=False):
    os.makedirs(outdir, exist_ok=True)
    index = []
    global enumerate_mutants
    if second:
        enumerate_mutants = enumerate_mutants2
    for f in FILES:
        src = open(os.path.join(REPO, f)).read()
        lines = src.split('\n')
        base = ast.unparse(ast.parse(src))
        seen = set([base])
        n = 0
        for lineno, desc, out in enumerate_mutants(src, f):
            if out in seen:
                continue
            line = lines[lineno - 1] if 0 < lineno <= len(lines) else ''
            if in_docstring_or_trivial(line) or 'verbose' in line or 'progress' in line or '_verif' in line or 'VERIF' in line:
                continue
            seen.add(out)
            mid = 'm%05d' % len(index)
            open(os.path.join(outdir, mid + '.py'), 'w').write(out)
            index.append({'id': mid, 'file': f, 'line': lineno, 'src': line.strip()[:120], 'op': desc, 'tests': None, 'detected_by': None, 'checks_run': []})
            n += 1
        print(f, n)
    json.dump(index, open(os.path.join(outdir, 'index.json'), 'w'), indent=0)
    print('mutants:', len(index))


def ensure_worktrees(wtroot, n):
    os.makedirs(wtroot, exist_ok=True)
    out = []
    for i in range(n):
        wt = os.path.join(wtroot, 'm%d' % i)
        if not os.path.isdir(wt):
            subprocess.run(['git', '-C', REPO, 'worktree', 'add', '-q', '--detach', wt, 'main'], check=True)
        else:
            subprocess.run(['git', '-C', wt, 'checkout', '-q', '--', '.'])
            subprocess.run(['git', '-C', wt, 'checkout', '-q', '--detach', 'main'])
        out.append(wt)
    return out


def load(outdir):
    return json.load(open(os.path.join(outdir, 'index.json')))


def save(outdir, index):
    tmp = os.path.join(outdir, 'index.json.tmp')
    json.dump(index, open(tmp, 'w'), indent=0)
    os.replace(tmp, os.path.join(outdir, 'index.json'))


def cmd_test(outdir, wtroot, n):
    import queue
    import threading
    index = load(outdir)
    wts = ensure_worktrees(wtroot, n)
    free = queue.Queue()
    for w in wts:
        free.put(w)
    lock = threading.Lock()
    todo = [m for m in index if m['tests'] is None]
    print('to test:', len(todo))
    done = [0]

    def work(m):
        wt = free.get()
        try:
            dst = os.path.join(wt, m['file'])
            orig = open(dst).read()
            open(dst, 'w').write(open(os.path.join(outdir, m['id'] + '.py')).read())
            env = dict(os.environ, PYTHONPATH=wt)
            env.pop('ASTRODENDRO_VERIF', None)
            try:
                r = subprocess.run(['/venv/bin/python', '-m', 'pytest', '-x', '-q', '-p', 'no:cacheprovider', '--timeout=300', 'astrodendro'],
                                   cwd=wt, env=env, stdout=subprocess.PIPE, stderr=subprocess.STDOUT, universal_newlines=True, timeout=900)
                tail = r.stdout.strip().split('\n')[-1]
                m['tests'] = 'pass' if r.returncode == 0 else 'fail'
                m['tests_tail'] = tail[-100:]
            except subprocess.TimeoutExpired:
                m['tests'] = 'timeout'
            open(dst, 'w').write(orig)
        finally:
            free.put(wt)
        with lock:
            done[0] += 1
            if done[0] % 20 == 0:
                save(outdir, index)
                print('tested', done[0], 'survivors so far', sum(1 for x in index if x['tests'] == 'pass'), flush=True)
    with ThreadPoolExecutor(n) as ex:
        list(ex.map(work, todo))
    save(outdir, index)
    print('survivors:', sum(1 for x in index if x['tests'] == 'pass'), 'of', len(index))


def cmd_hunt(outdir, wtroot, n, jobs=5):
    import queue
    import threading
    index = load(outdir)
    wts = ensure_worktrees(wtroot, n)
    free = queue.Queue()
    for w in wts:
        free.put(w)
    lock = threading.Lock()
    def relevant(m):
        # GUI layout / display-range code carries no property of the list
        if m['file'] == 'astrodendro/viewer.py' and (61 <= m['line'] <= 176 or 196 <= m['line'] <= 211):
            return False
        if m['file'] == 'astrodendro/scatter.py' and (77 <= m['line'] <= 86 or m['line'] >= 145):
            return False
        return True
    todo = [m for m in index if m['tests'] == 'pass' and m['detected_by'] is None and not m.get('hunted') and relevant(m)]
    print('to hunt:', len(todo))
    done = [0]

    def work(m):
        wt = free.get()
        try:
            dst = os.path.join(wt, m['file'])
            orig = open(dst).read()
            open(dst, 'w').write(open(os.path.join(outdir, m['id'] + '.py')).read())
            for pid in CHECKS[m['file']]:
                if pid in m['checks_run']:
                    continue
                env = dict(os.environ, VERIF_REPO=wt, VERIF_WORK='/verif/.work/mut_%s' % m['id'])
                try:
                    r = subprocess.run(['./check', pid, '--tier', 'quick', '--jobs', str(jobs)], cwd='/verif', env=env,
                                       stdout=subprocess.PIPE, stderr=subprocess.STDOUT, universal_newlines=True, timeout=1500)
                    out = r.stdout
                except subprocess.TimeoutExpired:
                    out = 'TIMEOUT'
                m['checks_run'].append(pid)
                if 'VIOLATION' in out:
                    m['detected_by'] = pid
                    m['how'] = 'no-failing-input-found' if 'no-failing-input-found' in out and out.count('VIOLATION') == out.count('no-failing-input-found') else 'failing input'
                    break
                if 'TIMEOUT' == out or 'infrastructure' in out:
                    m.setdefault('infra', []).append(pid)
            m['hunted'] = True
            open(dst, 'w').write(orig)
        finally:
            free.put(wt)
        with lock:
            done[0] += 1
            save(outdir, index)
            if done[0] % 5 == 0:
                print('hunted', done[0], 'undetected so far', sum(1 for x in index if x.get('hunted') and x['detected_by'] is None), flush=True)
    with ThreadPoolExecutor(n) as ex:
        list(ex.map(work, todo))
    save(outdir, index)
    und = [x for x in index if x.get('hunted') and x['detected_by'] is None]
    print('undetected:', len(und))
    for x in und:
        print(x['id'], x['file'], x['line'], x['op'], '|', x['src'])


if __name__ == '__main__':
    c = sys.argv[1]
    if c == 'gen':
        cmd_gen(sys.argv[2])
    elif c == 'gen2':
        cmd_gen(sys.argv[2], second=True)
    elif c == 'test':
        cmd_test(sys.argv[2], sys.argv[3], int(sys.argv[4]) if len(sys.argv) > 4 else 12)
    elif c == 'hunt':
        cmd_hunt(sys.argv[2], sys.argv[3], int(sys.argv[4]) if len(sys.argv) > 4 else 3, int(sys.argv[5]) if len(sys.argv) > 5 else 5)
