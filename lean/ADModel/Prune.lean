import ADModel.Criteria
/-!
# ADModel.Prune — `Dendrogram.prune` (dendrogram.py:517-602, 757-859)

`_to_prune` scans `all_structures` (prefix order from the current trunk list) for the first
leaf that has a parent and fails the post-hoc criteria, the caller merges it (or, when the
parent has exactly two children, both of them, in child order) into the parent, and the scan
restarts until nothing is found.  Then the trunk is rebuilt (sorted by idx) and parentless
leaves failing the value-less criteria are dropped.
-/
open Tree

/-- `_merge_with_parent(m)` seen from the parent: own pixels appended, `m` removed from the child
    list, `m`'s children (if any) appended to it -/
def mergeInto (P : Tree) (m : Tree) : Tree :=
  node P.id (P.own ++ m.own) (P.kids.filter (fun c => c.id != m.id) ++ m.kids)

/-- what the caller of `_to_prune` does to the parent `P` of the failing leaf `k` -/
def pruneAt (P : Tree) (k : Tree) : Tree :=
  if P.kids.length == 2 then P.kids.foldl mergeInto P else mergeInto P k

mutual
/-- first failing leaf strictly inside `t` in prefix order, pruned; `none` if there is none -/
def pruneIn (ic : Tree → Tree → Bool) : Tree → Option Tree
  | node i o ks => pruneKids ic (node i o ks) [] ks
/-- scan of the children of `P`: `done` were scanned without finding anything -/
def pruneKids (ic : Tree → Tree → Bool) (P : Tree) (done : List Tree) : List Tree → Option Tree
  | [] => none
  | k :: rest =>
    if k.isLeaf then
      if ic P k then pruneKids ic P (done ++ [k]) rest else some (pruneAt P k)
    else
      match pruneIn ic k with
      | some k' => some (node P.id P.own (done ++ k' :: rest))
      | none => pruneKids ic P (done ++ [k]) rest
end

/-- scan of the trunk list: trunk leaves are "dealt with later" -/
def pruneForest (ic : Tree → Tree → Bool) (done : List Tree) : List Tree → Option (List Tree)
  | [] => none
  | t :: rest =>
    if t.isLeaf then pruneForest ic (done ++ [t]) rest
    else match pruneIn ic t with
      | some t' => some (done ++ t' :: rest)
      | none => pruneForest ic (done ++ [t]) rest

/-- iterate to a fixpoint; every successful step removes at least one structure, so
    `sizeL f` rounds suffice (proved in ADProofs.Prune) -/
def pruneLoop (ic : Tree → Tree → Bool) : Nat → List Tree → List Tree
  | 0, f => f
  | n + 1, f =>
    match pruneForest ic [] f with
    | none => f
    | some f' => pruneLoop ic n f'

/-- `_make_trunk` after pruning -/
def makeTrunkP (io : Tree → Bool) (f : List Tree) : List Tree :=
  (sortById f).filter (fun t => !(t.isLeaf && !io t))

def prune (ic : Tree → Tree → Bool) (io : Tree → Bool) (f : List Tree) : List Tree :=
  makeTrunkP io (pruneLoop ic (sizeL f) f)

/-- parameter bookkeeping of dendrogram.py:542-561: request `0` inherits; the recorded value is
    replaced unless the (effective) request is smaller.  Returns (effective, recorded). -/
def pruneParam (recorded : Int) (req : Int) : Int × Int :=
  let eff := if req == 0 then recorded else req
  (eff, if eff < recorded then recorded else eff)
