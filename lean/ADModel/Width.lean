/-!
# ADModel.Width — fixed-width integer arithmetic (the part of C01 / C15 that is *about* wrap-around)

`wrap bits signed x` is the value a two's-complement / unsigned register of `bits` bits holds after
an operation whose exact result is `x` (NumPy integer scalars wrap silently).

* the code as it was: default `min_value = wrap (min - 1)` and significance `wrap (vmax - v) ≥ d`,
  both in the dtype of the input array;
* the repaired code: both in unbounded integers (`int(finite_min) - 1`, `.item()` differences).
-/

def wrap (bits : Nat) (signed : Bool) (x : Int) : Int :=
  let m : Int := 2 ^ bits
  let r := x % m
  if signed && r ≥ m / 2 then r - m else r

/-- representable range -/
def inRange (bits : Nat) (signed : Bool) (x : Int) : Bool :=
  if signed then decide (-(2 ^ (bits - 1) : Int) ≤ x ∧ x < 2 ^ (bits - 1)) else decide (0 ≤ x ∧ x < 2 ^ bits)

/-- default threshold of the code before the repair -/
def defaultMinOld (bits : Nat) (signed : Bool) (m : Int) : Int := wrap bits signed (m - 1)
/-- default threshold of the repaired code (integer data) -/
def defaultMinNew (m : Int) : Int := m - 1

/-- significance test before the repair: difference taken in the array's dtype -/
def signifOld (bits : Nat) (signed : Bool) (vmax v d : Int) : Bool := decide (d ≤ wrap bits signed (vmax - v))
/-- significance test of the repaired code: exact difference -/
def signifNew (vmax v d : Int) : Bool := decide (d ≤ vmax - v)
