/-!
# ADModel.CachePix — the pixel-count and peak caches of `Structure` on an object heap (C14)

Companion of `ADModel.Cache` (level / ancestor / descendants / Newick) for the remaining cached
observables of structure.py:

* `get_npix(subtree=True)`  caches `_npix_total` (`values(subtree=True).size`);
* `get_peak(subtree=…)`     : when `_peak is None` it walks `reversed(list(prefix_visit(self)))` —
  every structure of the subtree, children before parents — and (re)fills `_peak` (first own
  pixel carrying `vmax`) and `_peak_subtree` (`max` over the children's `_peak_subtree`, then
  `max(that, own peak)`; Python's `max` keeps the FIRST maximal element) of each of them;
* `_merge_with_parent(m)`   : `parent._merge(m)` appends `m`'s own pixels and values to the parent
  and resets the parent's caches; children lists and parent pointers as in `ADModel.Cache`;
* after the merge loop `prune` resets the caches of every surviving structure (the repair).

`spec*` are the same observations computed from the live links and own lists alone.
An own pixel is a pair (flat index, exact value) in `_indices` / `_values` order.
-/

structure PObj where
  id : Nat
  parent : Option Nat := none
  kids : List Nat := []
  own : List (Nat × Int) := []
  npixTot : Option Nat := none            -- `_npix_total`
  peak : Option (Nat × Int) := none       -- `_peak`
  peakSub : Option (Nat × Int) := none    -- `_peak_subtree`
deriving Repr, Inhabited, DecidableEq

structure PHeap where
  objs : List PObj := []
  alive : List Nat := []
deriving Repr, Inhabited

namespace PHeap

def get (h : PHeap) (i : Nat) : Option PObj := h.objs.find? (fun o => o.id == i)

def update (h : PHeap) (i : Nat) (f : PObj → PObj) : PHeap :=
  { h with objs := h.objs.map (fun o => if o.id == i then f o else o) }

def size (h : PHeap) : Nat := h.objs.length + 1

def resetCache (o : PObj) : PObj := { o with npixTot := none, peak := none, peakSub := none }

/-- Python's `max(a, b, key=value)`: the first of the two unless the second is strictly larger -/
def maxFirst (a b : Nat × Int) : Nat × Int := if a.2 < b.2 then b else a

/-- first element of maximal value (`max(xs, key=value)`; for own pixels: `_values.index(vmax)`) -/
def firstMax : List (Nat × Int) → Option (Nat × Int)
  | [] => none
  | x :: xs => some (xs.foldl maxFirst x)

/-! ## specification: from the links and own lists alone -/

/-- number of pixels of `i` and everything below it -/
def specCount (h : PHeap) : Nat → Nat → Nat
  | 0, _ => 0
  | fuel + 1, i =>
    match h.get i with
    | none => 0
    | some o => o.own.length + (o.kids.map (specCount h fuel)).sum

/-- `get_peak(subtree=False)` of a fresh object -/
def specPeak (h : PHeap) (i : Nat) : Option (Nat × Int) := (h.get i).bind fun o => firstMax o.own

/-- `get_peak(subtree=True)` of a fresh object: children's subtree peaks (first maximal one), then
    the own peak unless it is not larger -/
def specPeakSub (h : PHeap) : Nat → Nat → Option (Nat × Int)
  | 0, _ => none
  | fuel + 1, i =>
    match h.get i with
    | none => none
    | some o =>
      let ownPk := firstMax o.own
      match firstMax (o.kids.filterMap (specPeakSub h fuel)) with
      | none => ownPk
      | some c =>
        match ownPk with
        | none => some c
        | some p => some (maxFirst c p)

/-! ## the cached queries -/

/-- `get_npix(subtree=True)` -/
def getNpix (h : PHeap) (fuel : Nat) (i : Nat) : PHeap × Option Nat :=
  match h.get i with
  | none => (h, none)
  | some o =>
    match o.npixTot with
    | some n => (h, some n)
    | none =>
      let n := specCount h fuel i
      (h.update i (fun o => { o with npixTot := some n }), some n)

/-- the body of the loop in `get_peak` for one structure whose children have been filled -/
def fillOne (h : PHeap) (i : Nat) : PHeap :=
  match h.get i with
  | none => h
  | some o =>
    let ownPk := firstMax o.own
    let kidPks := o.kids.filterMap fun c => (h.get c).bind (·.peakSub)
    let sub := match firstMax kidPks with
      | none => ownPk
      | some c => match ownPk with
        | none => some c
        | some p => some (maxFirst c p)
    h.update i (fun o => { o with peak := ownPk, peakSub := sub })

/-- `for s in reversed(list(prefix_visit(self)))`: children (all of them) before the structure -/
def fillPeaks : PHeap → Nat → Nat → PHeap
  | h, 0, _ => h
  | h, fuel + 1, i =>
    match h.get i with
    | none => h
    | some o => fillOne (o.kids.foldl (fun acc c => fillPeaks acc fuel c) h) i

/-- `get_peak(subtree)` -/
def getPeak (h : PHeap) (fuel : Nat) (i : Nat) (subtree : Bool) : PHeap × Option (Nat × Int) :=
  match h.get i with
  | none => (h, none)
  | some o =>
    let h' := if o.peak.isNone then fillPeaks h fuel i else h
    (h', (h'.get i).bind fun o' => if subtree then o'.peakSub else o'.peak)

/-! ## pruning -/

/-- `_merge_with_parent(m)` followed by `del keep_structures[m.idx]` -/
def mergeWithParent (h : PHeap) (m : Nat) : PHeap :=
  match h.get m with
  | none => h
  | some mo =>
    match mo.parent with
    | none => h
    | some p =>
      let h1 := h.update p (fun po => resetCache { po with own := po.own ++ mo.own })
      let h2 := h1.update p (fun po => { po with kids := po.kids.erase m ++ mo.kids })
      let h3 := mo.kids.foldl (fun acc c => acc.update c (fun co => { co with parent := some p })) h2
      { h3 with alive := h3.alive.erase m }

/-- after the merge loop: the caches of every surviving structure are reset -/
def finishPrune (h : PHeap) : PHeap :=
  { h with objs := h.objs.map fun o => if h.alive.contains o.id then resetCache o else o }

/-- `prune` as far as these caches are concerned: the recorded merges, then the reset -/
def prune (h : PHeap) (merges : List Nat) : PHeap := finishPrune (merges.foldl mergeWithParent h)

end PHeap

/-- operations of a history -/
inductive POp where
  | npix (i : Nat)
  | peak (i : Nat) (subtree : Bool)
  | prune (merges : List Nat)
deriving Repr

/-- answers -/
inductive PAns where
  | n (v : Option Nat)
  | p (v : Option (Nat × Int))
  | unit
deriving Repr, DecidableEq

def PHeap.step (h : PHeap) (op : POp) : PHeap × PAns :=
  match op with
  | .npix i => let r := h.getNpix h.size i; (r.1, .n r.2)
  | .peak i s => let r := h.getPeak h.size i s; (r.1, .p r.2)
  | .prune ms => (h.prune ms, .unit)

/-- what a fresh object graph with the same links answers -/
def PHeap.specAns (h : PHeap) (op : POp) : PAns :=
  match op with
  | .npix i => .n (if (h.get i).isSome then some (h.specCount h.size i) else none)
  | .peak i s => .p (if s then h.specPeakSub h.size i else h.specPeak i)
  | .prune _ => .unit
