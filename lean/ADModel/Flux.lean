/-!
# ADModel.Flux — `compute_flux` (flux.py:22-174)

Quantities are (value, scale) pairs: `value * scale` is the magnitude in SI base units of the
quantity's dimension.  Physical constants `c`, `k_B` and the numbers `π`, `ln 2` are parameters
(`Consts`): the algebraic theorems hold for all their values, the driver instantiates them.
The result is in Jy (`1 Jy = jy` SI units) and then re-expressed in the output unit.

The error table is decision logic: which check fires first for which missing / mis-dimensioned
item, in the order of the code.
-/

structure Consts where
  c : Rat      -- speed of light, m/s
  kB : Rat     -- Boltzmann constant, J/K
  pi : Rat
  ln2 : Rat
  jy : Rat     -- 1 Jy in W m^-2 Hz^-1
deriving Repr

inductive Family where
  | fnu        -- flux density per frequency (equivalent to Jy)
  | flambda    -- flux density per wavelength (erg/cm²/s/m)
  | surf       -- surface brightness (MJy/sr)
  | perBeam    -- Jy/beam
  | temp       -- brightness temperature (K)
deriving Repr, DecidableEq, Inhabited

/-- metadata in SI: wavelength (m), pixel scale (rad), beam FWHMs (rad) -/
structure FMeta where
  lam : Rat := 0
  pix : Rat := 0
  bmaj : Rat := 0
  bmin : Rat := 0
deriving Repr

namespace Flux

def sumQ : List Rat → Rat
  | [] => 0
  | x :: xs => x + sumQ xs

/-- Jy per unit of summed SI input, for each family -/
def factor (K : Consts) (m : FMeta) : Family → Rat
  | .fnu => 1 / K.jy
  | .flambda => m.lam * m.lam / K.c / K.jy                                   -- Fν = Fλ λ² / c
  | .surf => m.pix * m.pix / K.jy                                            -- Sν Ω_pix
  | .perBeam => m.pix * m.pix / (m.bmin * m.bmaj * (11331 / 10000 : Rat)) / K.jy   -- S_beam Ω_pix / (1.1331 bmaj bmin)
  | .temp => 2 * K.kB * (K.c / m.lam) * (K.c / m.lam) / (K.c * K.c) * (m.pix * m.pix) / K.jy
      -- (2 k T ν² / c²) Ω_beam per beam, times Ω_pix / Ω_beam beams per pixel: Ω_beam cancels

/-- total flux in Jy of values `vals` given in a unit of `scale` SI units -/
def totalJy (K : Consts) (fam : Family) (m : FMeta) (vals : List Rat) (scale : Rat) : Rat :=
  sumQ (vals.map (· * scale)) * factor K m fam

/-- in the requested output unit (`outScale` Jy per output unit) -/
def total (K : Consts) (fam : Family) (m : FMeta) (vals : List Rat) (scale outScale : Rat) : Rat :=
  totalJy K fam m vals scale / outScale

/-! ## the error table -/

inductive Dim where
  | fnu | flambda | surf | perBeam | temp | angle | length | freq | other
deriving Repr, DecidableEq, Inhabited

inductive Outcome where
  | ok
  | wavelengthDim | wavelengthMissing
  | spatialDim | spatialMissing
  | bmajDim | bmajMissing
  | bminDim | bminMissing
  | unsupported
  | outputUnit
deriving Repr, DecidableEq, Inhabited

structure MetaDims where
  wavelength : Option Dim := none
  spatial : Option Dim := none
  bmaj : Option Dim := none
  bmin : Option Dim := none
deriving Repr

def checkAngle (x : Option Dim) (eDim eMiss : Outcome) : Option Outcome :=
  match x with
  | some .angle => none
  | some _ => some eDim
  | none => some eMiss

/-- first failing check, in the order of flux.py; `temp` accepts a frequency for `wavelength`
    (spectral equivalency), the other families only a length -/
def metaCheck (input : Dim) (m : MetaDims) : Option Outcome :=
  match input with
  | .fnu => none
  | .flambda =>
    match m.wavelength with
    | some .length => none
    | some _ => some .wavelengthDim
    | none => some .wavelengthMissing
  | .surf => checkAngle m.spatial .spatialDim .spatialMissing
  | .perBeam =>
    (checkAngle m.spatial .spatialDim .spatialMissing).orElse fun _ =>
    (checkAngle m.bmaj .bmajDim .bmajMissing).orElse fun _ =>
    checkAngle m.bmin .bminDim .bminMissing
  | .temp =>
    (checkAngle m.spatial .spatialDim .spatialMissing).orElse fun _ =>
    (checkAngle m.bmaj .bmajDim .bmajMissing).orElse fun _ =>
    (checkAngle m.bmin .bminDim .bminMissing).orElse fun _ =>
    match m.wavelength with
    | some .length => none
    | some .freq => none
    | some _ => some .wavelengthDim
    | none => some .wavelengthMissing
  | _ => some .unsupported

def outcome (input : Dim) (m : MetaDims) (output : Dim) : Outcome :=
  match metaCheck input m with
  | some e => e
  | none => if output = .fnu then .ok else .outputUnit

end Flux
