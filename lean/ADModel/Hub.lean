import ADModel.Obs
/-!
# ADModel.Hub — `SelectionHub` and what the viewers derive from it (viewer.py, scatter.py)

State: per selection slot the list of selected structures (identifiers; `none` = "nothing") and
the subtree flag; the log of callback invocations.  Events:
* click on image pixel  → `hub.select(slot, structure_at(pixel))`            (subtree = True)
* pick of dendrogram lines → `hub.select(slot, structure of the picked line with the highest peak)`
* lasso in the scatter plot → `hub.select(slot, [dendrogram[_idx of row] …], subtree=False)`
Derived: highlighted lines, label text, contour mask, highlighted scatter rows.
-/
open Tree

structure Sel where
  ids : List (Option Nat)
  subtree : Bool
deriving Repr, DecidableEq, Inhabited

structure Hub where
  sels : List (Nat × Sel) := []       -- slot ↦ selection (association list, last write wins)
  ncallbacks : Nat := 0
  log : List (Nat × Nat) := []        -- (callback index, slot) in call order
deriving Repr, Inhabited

namespace Hub

def get (h : Hub) (slot : Nat) : Option Sel := (h.sels.find? (fun kv => kv.1 == slot)).map (·.2)

def setSel (sels : List (Nat × Sel)) (slot : Nat) (s : Sel) : List (Nat × Sel) :=
  if sels.any (fun kv => kv.1 == slot) then sels.map (fun kv => if kv.1 == slot then (slot, s) else kv)
  else sels ++ [(slot, s)]

/-- `hub.select(id, structures, subtree)` : store, then call every callback once with the slot -/
def select (h : Hub) (slot : Nat) (ids : List (Option Nat)) (subtree : Bool) : Hub :=
  { h with sels := setSel h.sels slot { ids := ids, subtree := subtree },
           log := h.log ++ (List.range h.ncallbacks).map (fun c => (c, slot)) }

def addCallback (h : Hub) : Hub := { h with ncallbacks := h.ncallbacks + 1 }

/-- click on a pixel whose label is `lab` -/
def click (h : Hub) (slot : Nat) (lab : Option Nat) : Hub := select h slot [lab] true

/-- lasso: catalog rows → structure ids through the `_idx` column; empty ⇒ `[None]` -/
def lasso (h : Hub) (slot : Nat) (rowIds : List Nat) (rows : List Nat) : Hub :=
  let ids := rows.map fun r => some (rowIds.getD r 0)
  select h slot (if ids.isEmpty then [none] else ids) false

/-- descendants of the node with identifier `i`, and the node itself last
    (`structure.descendants + [structure]`) -/
def withDescendants (f : List Tree) (i : Nat) : List Nat :=
  match (nodes f).find? (fun t => t.id == i) with
  | some t => (preL t.kids).map Tree.id ++ [i]
  | none => []

/-- structures whose lines are highlighted for a slot (`_update_lines` → `get_lines`) -/
def highlighted (f : List Tree) (s : Sel) : List Nat :=
  match s.ids with
  | [] => []
  | none :: _ => []
  | some i :: rest =>
    if s.subtree then withDescendants f i
    else (some i :: rest).filterMap id

/-- label text of a slot -/
def labelText (s : Sel) : String :=
  match s.ids with
  | [] => "No structure selected"
  | none :: _ => "No structure selected"
  | some i :: rest =>
    let ids := (some i :: rest).filterMap id
    if ids.length ≤ 1 then s!"Selected structure: {i}"
    else if ids.length ≤ 3 then "Selected structures: " ++ ", ".intercalate (ids.map toString)
    else "Selected structures: " ++ ", ".intercalate ((ids.take 3).map toString) ++ "..."

/-- pixels of the contour mask of a slot: the first structure's region when `subtree`, else the
    union of the regions of all selected structures -/
def maskPixels (f : List Tree) (s : Sel) : List Nat :=
  let region := fun i => match (nodes f).find? (fun t => t.id == i) with
    | some t => t.pixels
    | none => []
  match s.ids with
  | [] => []
  | none :: _ => []
  | some i :: rest =>
    if s.subtree then sortNat (region i)
    else sortNat (((some i :: rest).filterMap id).flatMap region).eraseDups

/-- rows highlighted in a linked scatter plot -/
def scatterRows (f : List Tree) (rowIds : List Nat) (s : Sel) : List Nat :=
  (highlighted f s).filterMap fun i => if rowIds.contains i then some (rowIds.idxOf i) else none

/-- index of the first maximal element (`np.argmax`) -/
def argmaxFirst : List Int → Nat
  | [] => 0
  | x :: xs => if xs.all (fun y => decide (y ≤ x)) then 0 else argmaxFirst xs + 1

/-- `line_picker`: `ind` are the indices of the lines hit, `lineStruct` maps a line index to its
    structure (`event.artist.structures`), `peak` gives the peak value of a structure; the structure
    of the first hit line with the highest peak is selected -/
def pickLine (lineStruct : List Nat) (peak : Nat → Int) (ind : List Nat) : Option Nat :=
  if ind = [] then none
  else some (lineStruct.getD (ind.getD (argmaxFirst (ind.map fun i => peak (lineStruct.getD i 0))) 0) 0)

end Hub
