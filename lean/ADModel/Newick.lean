import ADModel.Basic
/-!
# ADModel.Newick — the text encoding of the tree

* writer: `Structure.newick` (`"%i:%.3f"`, `"(%s)%s:%.3f"`) and `Dendrogram.to_newick` (`"(%s);"`)
* reader: `astrodendro.io.util.parse_newick`, modelled step by step on `List Char`:
  depth scan, per-level collection of parenthesis pairs, right-to-left excision, `find(":", end)`,
  reading of the dict literal, and the final `collect` — plus a recursive-descent reference
  parser `parseDescent`.

Heights are exact dyadic rationals `k / 2^fb`; `fmt3` is C's `%.3f` on such a number (round half
to even on the exact decimal expansion, sign kept for negative numbers that round to zero).
-/

def pad3 (n : Nat) : String :=
  let s := toString n
  if n < 10 then "00" ++ s else if n < 100 then "0" ++ s else s

/-- `"%.3f" % (k / 2^fb)` -/
def fmt3 (k : Int) (fb : Nat) : String :=
  let D := 2 ^ fb
  let q := k.natAbs * 1000
  let n := q / D
  let r := q % D
  let n := if 2 * r > D || (2 * r == D && n % 2 == 1) then n + 1 else n
  (if k < 0 then "-" else "") ++ toString (n / 1000) ++ "." ++ pad3 (n % 1000)

/-- parsed / printable tree: identifier, height text, children -/
inductive NTree where
  | node (id : Nat) (height : String) (kids : List NTree)
deriving Repr, Inhabited

namespace NTree
def id : NTree → Nat | node i _ _ => i
def height : NTree → String | node _ h _ => h
def kids : NTree → List NTree | node _ _ k => k

mutual
def print : NTree → String
  | node i h ks => (if ks.isEmpty then "" else "(" ++ printL ks ++ ")") ++ toString i ++ ":" ++ h
def printL : List NTree → String
  | [] => ""
  | [t] => print t
  | t :: ts => print t ++ "," ++ printL ts
end
end NTree

/-- `Dendrogram.to_newick` -/
def printForest (ts : List NTree) : String := "(" ++ NTree.printL ts ++ ");"

mutual
/-- the printable tree of a structure: heights through `fmt3` -/
def toNTree (val : Nat → Int) (fb : Nat) : Tree → NTree
  | .node i o ks => .node i (fmt3 (Tree.height val (.node i o ks)) fb) (toNTreeL val fb ks)
def toNTreeL (val : Nat → Int) (fb : Nat) : List Tree → List NTree
  | [] => []
  | t :: ts => toNTree val fb t :: toNTreeL val fb ts
end

def toNewick (val : Nat → Int) (fb : Nat) (f : List Tree) : String := printForest (toNTreeL val fb f)

/-! ## `parse_newick`, step by step -/

/-- depth scan: maximum nesting level -/
def maxLevel (s : List Char) : Nat :=
  (s.foldl (fun (st : Nat × Nat) c =>
    let cur := if c = '(' then st.1 + 1 else st.1
    let cur := if c = ')' then cur - 1 else cur
    (cur, max st.2 cur)) (0, 0)).2

structure ScanSt where
  i : Nat := 0
  cur : Nat := 0
  start : Nat := 0
  acc : List (Nat × Nat) := []

/-- pairs `(start, end)` of parentheses at depth `level`, in scan order -/
def pairsAt (s : List Char) (level : Nat) : List (Nat × Nat) :=
  (s.foldl (fun (st : ScanSt) c =>
    let st := if c = '(' then
        { st with cur := st.cur + 1, start := if st.cur + 1 = level then st.i else st.start }
      else st
    let st := if c = ')' then
        { st with acc := if st.cur = level then st.acc ++ [(st.start, st.i)] else st.acc, cur := st.cur - 1 }
      else st
    { st with i := st.i + 1 }) {}).acc

/-- `string.find(c, from)`; `none` is Python's `-1` -/
def findFrom (s : List Char) (c : Char) (from_ : Nat) : Option Nat :=
  ((s.drop from_).idxOf? c).map (· + from_)

/-- `s[a:b]` for `0 ≤ a`, `0 ≤ b` -/
def slice (s : List Char) (a b : Nat) : List Char := (s.take b).drop a

def splitOnChar (c : Char) : List Char → List (List Char)
  | [] => [[]]
  | x :: xs =>
    match splitOnChar c xs with
    | [] => [[]]
    | w :: ws => if x = c then [] :: w :: ws else (x :: w) :: ws

def digitsToNat? (s : List Char) : Option Nat :=
  if s.isEmpty then none
  else s.foldl (fun acc c => acc.bind fun n => if c.isDigit then some (n * 10 + (c.toNat - '0'.toNat)) else none) (some 0)

/-- `eval("{%s}" % text)` for text of the form `k:v,k:v,…` with integer keys and float values;
    the values are kept as text (they are not used after loading).  Later duplicates of a key
    overwrite earlier ones, as in a dict literal. -/
def readDict (s : List Char) : Option (List (Nat × String)) :=
  if s.isEmpty then some [] else
  (splitOnChar ',' s).foldlM (fun (acc : List (Nat × String)) e =>
    match splitOnChar ':' e with
    | [k, v] =>
      if v.isEmpty then none else
      (digitsToNat? k).map fun key =>
        if acc.any (fun kv => kv.1 == key) then
          acc.map (fun kv => if kv.1 == key then (key, String.ofList v) else kv)
        else acc ++ [(key, String.ofList v)]
    | _ => none) []

/-- `items` : branch id (`none` = `'trunk'`) ↦ dict of its children -/
abbrev Items := List (Option Nat × List (Nat × String))

def Items.set (items : Items) (k : Option Nat) (d : List (Nat × String)) : Items :=
  if items.any (fun kv => kv.1 == k) then items.map (fun kv => if kv.1 == k then (k, d) else kv)
  else items ++ [(k, d)]

/-- one iteration of `for level in range(max_level, 0, -1)` -/
def processLevel (st : List Char × Items) (level : Nat) : Option (List Char × Items) :=
  (pairsAt st.1 level).reverse.foldlM (fun (st : List Char × Items) (pr : Nat × Nat) => do
    let s := st.1
    let (start, stop) := pr
    -- `colon = string.find(":", end)`; `string[end+1:colon]` (colon = -1 ⇒ all but the last char)
    let idStr := match findFrom s ':' stop with
      | some c => slice s (stop + 1) c
      | none => slice s (stop + 1) (s.length - 1)
    let key ← if idStr.isEmpty then some none else (digitsToNat? idStr).map some
    let d ← readDict (slice s (start + 1) stop)
    pure (s.take start ++ s.drop (stop + 1), st.2.set key d)) st

/-- `collect` with fuel (the nesting depth bounds the recursion) -/
def collect (items : Items) : Nat → List (Nat × String) → List NTree
  | 0, d => d.map (fun kv => NTree.node kv.1 kv.2 [])
  | fuel + 1, d => d.map (fun kv =>
    match items.find? (fun e => e.1 == some kv.1) with
    | some e => NTree.node kv.1 kv.2 (collect items fuel e.2)
    | none => NTree.node kv.1 kv.2 [])

/-- `parse_newick` -/
def parseImpl (str : String) : Option (List NTree) := do
  let s := str.toList
  let m := maxLevel s
  let st ← (List.range' 1 m).reverse.foldlM processLevel (s, [])
  let e ← st.2.find? (fun e => e.1 == none)
  pure (collect st.2 m e.2)

/-! ## reference: recursive descent on the same grammar -/

def takeWhileC (f : Char → Bool) : List Char → List Char × List Char
  | [] => ([], [])
  | c :: cs => if f c then let r := takeWhileC f cs; (c :: r.1, r.2) else ([], c :: cs)

mutual
/-- parse one structure; `fuel` bounds the nesting -/
def parseNode : Nat → List Char → Option (NTree × List Char)
  | 0, _ => none
  | fuel + 1, s =>
    match s with
    | '(' :: rest => do
      let (ks, rest) ← parseList fuel rest
      match rest with
      | ')' :: rest => parseLabel ks rest
      | _ => none
    | _ => parseLabel [] s
/-- parse `node (, node)*` -/
def parseList : Nat → List Char → Option (List NTree × List Char)
  | 0, _ => none
  | fuel + 1, s => do
    let (t, rest) ← parseNode fuel s
    match rest with
    | ',' :: rest => do
      let (ts, rest) ← parseList fuel rest
      pure (t :: ts, rest)
    | _ => pure ([t], rest)
/-- `id:height` -/
def parseLabel (ks : List NTree) (s : List Char) : Option (NTree × List Char) :=
  let (ds, rest) := takeWhileC Char.isDigit s
  match digitsToNat? ds, rest with
  | some i, ':' :: rest =>
    let (h, rest) := takeWhileC (fun c => c != ',' && c != ')' && c != '(' && c != ';') rest
    if h.isEmpty then none else some (NTree.node i (String.ofList h) ks, rest)
  | _, _ => none
end

def parseDescent (str : String) : Option (List NTree) :=
  match str.toList with
  | '(' :: ')' :: ';' :: [] => some []
  | '(' :: rest =>
    match parseList (2 * rest.length + 2) rest with
    | some (ts, [')', ';']) => some ts
    | _ => none
  | _ => none
