import ADModel.Prune
/-!
# ADModel.PruneOrig — the post-hoc `min_delta` rule with the *original merge level*

`prune` tests a leaf with `height - parent.height` (pruning.py:85-89).  The compute-time test is
`vmax - value of the joining pixel`.  `ruleOrig` is the post-hoc rule that uses, for every
structure, the value of the pixel that first gave it a parent (its original merge level, which is
invariant under adoption by a grandparent).  It is the arbiter for classifying disagreements
between "prune afterwards" and "compute with stricter parameters" (C08 / known finding K1).
-/
open Tree

/-- creating pixel of a branch = first own pixel (`node p [p] keep`; later pixels are appended) -/
def creator (t : Tree) : Nat := t.own.headD 0

mutual
/-- (child id, value of the parent's creating pixel) for every parent/child link -/
def origLevelsT (val : Nat → Int) : Tree → List (Nat × Int)
  | node _ o ks => ks.map (fun c => (c.id, val (o.headD 0))) ++ origLevelsL val ks
def origLevelsL (val : Nat → Int) : List Tree → List (Nat × Int)
  | [] => []
  | t :: ts => origLevelsT val t ++ origLevelsL val ts
end

def lookupLevel (tbl : List (Nat × Int)) (i : Nat) : Option Int :=
  (tbl.find? (fun kv => kv.1 == i)).map (·.2)

/-- post-hoc criteria with `min_delta` measured from the original merge level -/
def Crit.childOrig (val : Nat → Int) (tbl : List (Nat × Int)) (c : Crit) (parent t : Tree) : Bool :=
  match c with
  | .minDelta d =>
    match lookupLevel tbl t.id with
    | some lv => decide (d ≤ t.vmax val - lv)
    | none => c.child val parent t
  | _ => c.child val parent t

def allChildOrig (val : Nat → Int) (tbl : List (Nat × Int)) (cs : List Crit) (parent t : Tree) : Bool :=
  cs.all (fun c => c.childOrig val tbl parent t)
