import ADModel.Obs
/-!
# ADModel.IO — what a save / load cycle does to the forest, and small state machines around it

* `regroupL` : `parse_dendrogram` rebuilds every structure's own pixel list from the saved label
  map (`_slow_reader`: pixels in C order), the tree shape and identifiers come from the Newick
  text (proved to round-trip in `ADProofs/NewickProofs.lean`).
* `Catalog.make` : `_make_catalog` — one row per structure, sorted by identifier.
* `Memo` : the `memoize` decorator of analysis.py as a state machine.
-/
open Tree

mutual
def regroupT (lm : List (Option Nat)) : Tree → Tree
  | node i _ ks => node i (binOf lm i) (regroupL lm ks)
def regroupL (lm : List (Option Nat)) : List Tree → List Tree
  | [] => []
  | t :: ts => regroupT lm t :: regroupL lm ts
end

/-- the forest after `load_from(save_to(d))` -/
def reload (f : List Tree) (n : Nat) : List Tree := regroupL (labelMap f n) f

namespace CatalogRows

def insertRow (r : Nat × α) : List (Nat × α) → List (Nat × α)
  | [] => [r]
  | x :: xs => if r.1 ≤ x.1 then r :: x :: xs else x :: insertRow r xs
def sortRows : List (Nat × α) → List (Nat × α)
  | [] => []
  | r :: rs => insertRow r (sortRows rs)

/-- `_make_catalog(structures, …)`: `stat` is evaluated on each structure alone; rows sorted by `_idx` -/
def make (stat : Tree → α) (structures : List Tree) : List (Nat × α) :=
  sortRows (structures.map fun s => (s.id, stat s))

end CatalogRows

/-- `memoize`: cache keyed by (method, instance, arguments) -/
structure Memo (κ ν : Type) where
  cache : List (κ × ν) := []

namespace Memo
variable {κ ν : Type} [DecidableEq κ]

/-- one memoised call: returns the cached value if present, else computes and stores -/
def call (m : Memo κ ν) (f : κ → ν) (k : κ) : Memo κ ν × ν :=
  match m.cache.find? (fun kv => kv.1 = k) with
  | some kv => (m, kv.2)
  | none => ({ cache := m.cache ++ [(k, f k)] }, f k)

/-- a history of calls; returns all results -/
def run (f : κ → ν) : Memo κ ν → List κ → List ν
  | _, [] => []
  | m, k :: ks => let r := m.call f k; r.2 :: run f r.1 ks

end Memo
