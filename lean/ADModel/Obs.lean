import ADModel.Prune
import ADModel.Newick
/-!
# ADModel.Obs — what the accessors of a dendrogram report, as functions of the current forest

`level`, `ancestor`, `descendants`, `parent`, pixel counts, peaks, the label map and the tree
index (`TreeIndex`: prefix-order concatenation of per-structure pixel lists, offsets, subtree
counts).  These are the *specification* side of C02 / C06 / C14: the cached, iterative
computations of structure.py are modelled separately in `ADModel.Cache`.
-/
open Tree

/-- one row per structure: everything that is a function of the forest -/
structure Row where
  id : Nat
  parent : Option Nat
  kids : List Nat
  own : List Nat
  level : Nat
  ancestor : Nat
  desc : List Nat          -- ids of all descendants, prefix order
  pixelsSub : List Nat     -- own ++ descendants' pixels
deriving Repr, Inhabited

mutual
def rowsT (parent : Option Nat) (level : Nat) (anc : Option Nat) : Tree → List Row
  | node i o ks =>
    let a := anc.getD i
    { id := i, parent := parent, kids := ks.map Tree.id, own := o, level := level, ancestor := a,
      desc := (preL ks).map Tree.id, pixelsSub := o ++ pixelsL ks } :: rowsL (some i) (level + 1) (some a) ks
def rowsL (parent : Option Nat) (level : Nat) (anc : Option Nat) : List Tree → List Row
  | [] => []
  | t :: ts => rowsT parent level anc t ++ rowsL parent level anc ts
end

/-- rows of a forest in prefix order -/
def rows (f : List Tree) : List Row := rowsL none 0 none f

/-- `get_peak(subtree=False)`: first own pixel (insertion order) carrying `vmax` -/
def peakOwn (val : Nat → Int) (own : List Nat) : Nat × Int :=
  let m := maxL 0 (own.map val)
  ((own.find? (fun p => val p == m)).getD 0, m)

/-- Python's `max(iterable, key=…)` returns the first maximal element -/
def firstMaxBy (key : α → Int) : List α → Option α
  | [] => none
  | x :: xs => some (xs.foldl (fun b y => if key y > key b then y else b) x)

mutual
/-- `get_peak(subtree=True)`: `max(max(children peaks, key), own peak, key)` -/
def peakSub (val : Nat → Int) : Tree → Nat × Int
  | node _ o ks =>
    let own := peakOwn val o
    match firstMaxBy (fun (pr : Nat × Int) => pr.2) (peakSubL val ks) with
    | none => own
    | some c => if own.2 > c.2 then own else c
def peakSubL (val : Nat → Int) : List Tree → List (Nat × Int)
  | [] => []
  | t :: ts => peakSub val t :: peakSubL val ts
end

/-- label map over `n` pixels: `some id` of the owner, `none` for unassigned -/
def labelMap (f : List Tree) (n : Nat) : List (Option Nat) :=
  (List.range n).map (labelOf f)

/-! ## TreeIndex -/

def insertNat (x : Nat) : List Nat → List Nat
  | [] => [x]
  | y :: ys => if x ≤ y then x :: y :: ys else y :: insertNat x ys
def sortNat : List Nat → List Nat
  | [] => []
  | x :: xs => insertNat x (sortNat xs)

/-- pixels carrying label `i` in the label map, ascending (one bin of `argsort(bins)`) -/
def binOf (lm : List (Option Nat)) (i : Nat) : List Nat :=
  (List.range lm.length).filter (fun p => lm.getD p none == some i)

/-- the 1-D index array: bins of the structures in prefix order, concatenated -/
def tiIndex (lm : List (Option Nat)) (f : List Tree) : List Nat :=
  (nodes f).flatMap (fun t => binOf lm t.id)

/-- `offset[sid]` : sum of the bin sizes of the structures before `i` in prefix order -/
def tiOffset (lm : List (Option Nat)) (f : List Tree) (i : Nat) : Nat :=
  (((nodes f).takeWhile (fun t => t.id != i)).map (fun t => (binOf lm t.id).length)).foldl (· + ·) 0

mutual
/-- `idx_sub_ct` : own bin size plus the children's, bottom-up -/
def tiSubCt (lm : List (Option Nat)) : Tree → Nat
  | node i _ ks => (binOf lm i).length + tiSubCtL lm ks
def tiSubCtL (lm : List (Option Nat)) : List Tree → Nat
  | [] => 0
  | t :: ts => tiSubCt lm t + tiSubCtL lm ts
end

/-- `TreeIndex.indices(sid, subtree)` as a list of flat indices -/
def tiIndices (lm : List (Option Nat)) (f : List Tree) (t : Tree) (subtree : Bool) : List Nat :=
  let off := tiOffset lm f t.id
  let n := if subtree then tiSubCt lm t else (binOf lm t.id).length
  ((tiIndex lm f).drop off).take n
