/-!
# ADModel.Eq — `Dendrogram.__eq__` (dendrogram.py:468-499)

`eqD` is the operator as implemented: same type, element-wise equal data (NaNs in the same places,
shapes equal — the repaired part), equal `min_value`, `min_delta` / `min_npix` equal unless one of
them is 0, and a comparison of the first-occurrence fingerprint of the label map **of `self` with
itself** (always true).  `eqSpec` is what the property asks for: the same, plus "the two label
maps partition the pixels in the same way" (`canon`).  `eqIntended` is what the code would
compute with `other.index_map` in the second fingerprint.
-/

structure DView where
  shape : List Nat
  data : List (Option Int)      -- `none` = NaN
  minv : Int × Nat              -- min_value as a fraction
  mind : Int
  minn : Int
  lmap : List (Option Nat)      -- `none` = -1
deriving Repr, DecidableEq, Inhabited

namespace DView

def compat (a b : Int) : Bool := a == 0 || b == 0 || a == b

/-- positions of the first occurrence of every distinct label (`np.unique(…, return_index=True)`),
    ascending — the code sorts them -/
def firstOcc (lm : List (Option Nat)) : List Nat :=
  (List.range lm.length).filter fun i => !((lm.take i).contains (lm.getD i none))

/-- rename labels by order of first occurrence (`none` stays `none`): equal iff same partition -/
def canon (lm : List (Option Nat)) : List (Option Nat) :=
  let firsts := (firstOcc lm).filter fun i => (lm.getD i none).isSome
  lm.map fun l =>
    match l with
    | none => none
    | some v => some ((firsts.map fun i => lm.getD i none).idxOf (some v))

def sameData (a b : DView) : Bool := a.shape == b.shape && a.data == b.data
def sameParams (a b : DView) : Bool :=
  a.minv.1 * (b.minv.2 : Int) == b.minv.1 * (a.minv.2 : Int) && compat a.mind b.mind && compat a.minn b.minn

/-- `__eq__` as implemented -/
def eqD (a b : DView) : Bool := sameData a b && sameParams a b && (firstOcc a.lmap == firstOcc a.lmap)
/-- with `other.index_map` in the second fingerprint -/
def eqIntended (a b : DView) : Bool := sameData a b && sameParams a b && (firstOcc a.lmap == firstOcc b.lmap)
/-- the property -/
def eqSpec (a b : DView) : Bool := sameData a b && sameParams a b && (canon a.lmap == canon b.lmap)

end DView
