import ADModel.Cache
/-!
# ADModel.HeapPrim — field reads and writes on the object heap

The target vocabulary of the object-level translator (`harness/py2heap.py`): a Python attribute read `x.parent`
becomes `h.fParent x`, an assignment `x.parent = e` becomes `h.setParent x e`.  Reading a field of an identifier
that names no object gives the field's empty value (`none` / `[]`); writing to it changes nothing — exactly what
`Heap.get` / `Heap.update` do.  Nothing here is specific to a fragment.
-/

namespace Heap

def fParent (h : Heap) (i : Nat) : Option Nat := (h.get i).bind (·.parent)
def fKids (h : Heap) (i : Nat) : List Nat := ((h.get i).map (·.kids)).getD []
def fOwn (h : Heap) (i : Nat) : List Nat := ((h.get i).map (·.own)).getD []
def fLvl (h : Heap) (i : Nat) : Option Nat := (h.get i).bind (·.lvl)
def fAnc (h : Heap) (i : Nat) : Option Nat := (h.get i).bind (·.anc)
def fDesc (h : Heap) (i : Nat) : Option (List Nat) := (h.get i).bind (·.desc)
def fNw (h : Heap) (i : Nat) : Option String := (h.get i).bind (·.nw)

def setParent (h : Heap) (i : Nat) (v : Option Nat) : Heap := h.update i (fun o => { o with parent := v })
def setKids (h : Heap) (i : Nat) (v : List Nat) : Heap := h.update i (fun o => { o with kids := v })
def setOwn (h : Heap) (i : Nat) (v : List Nat) : Heap := h.update i (fun o => { o with own := v })
def setLvl (h : Heap) (i : Nat) (v : Option Nat) : Heap := h.update i (fun o => { o with lvl := v })
def setAnc (h : Heap) (i : Nat) (v : Option Nat) : Heap := h.update i (fun o => { o with anc := v })
def setDesc (h : Heap) (i : Nat) (v : Option (List Nat)) : Heap := h.update i (fun o => { o with desc := v })
def setNw (h : Heap) (i : Nat) (v : Option String) : Heap := h.update i (fun o => { o with nw := v })

/-- `del keep_structures[i]` -/
def delAlive (h : Heap) (i : Nat) : Heap := { h with alive := h.alive.erase i }

end Heap
