/-!
# ADModel.Basic — structures as an inductive tree

Model of `astrodendro.structure.Structure` as far as it is a function of the *current* forest:
a structure has an identifier, its own pixels (`_indices`, in insertion order; pixels are flat
C-order indices) and its children (`children`, in list order).  A forest that is not a forest
(two parents, a child missing from its parent's list) is unrepresentable here; the
correspondence check observes both `parent` pointers and `children` lists of the real objects
and fails if they are not two views of one forest.
-/

inductive Tree where
  | node (id : Nat) (own : List Nat) (kids : List Tree)
deriving Repr, Inhabited

namespace Tree

def id : Tree → Nat | node i _ _ => i
def own : Tree → List Nat | node _ o _ => o
def kids : Tree → List Tree | node _ _ k => k

/-- `is_leaf` : `not self.children` -/
def isLeaf (t : Tree) : Bool := t.kids.isEmpty

mutual
/-- pixels of the structure with all its substructures (`indices(subtree=True)` as a list) -/
def pixels : Tree → List Nat
  | node _ o ks => o ++ pixelsL ks
def pixelsL : List Tree → List Nat
  | [] => []
  | t :: ts => pixels t ++ pixelsL ts
end

mutual
/-- number of structures -/
def size : Tree → Nat
  | node _ _ ks => 1 + sizeL ks
def sizeL : List Tree → Nat
  | [] => 0
  | t :: ts => size t + sizeL ts
end

mutual
/-- prefix-order listing (`Dendrogram.all_structures`, `prefix_visit`) -/
def pre : Tree → List Tree
  | node i o ks => node i o ks :: preL ks
def preL : List Tree → List Tree
  | [] => []
  | t :: ts => pre t ++ preL ts
end

mutual
/-- depth of the deepest node (0 for a leaf) -/
def depth : Tree → Nat
  | node _ _ ks => depthL ks
def depthL : List Tree → Nat
  | [] => 0
  | t :: ts => max (depth t + 1) (depthL ts)
end

/-- `_add_pixel` : append to the own list -/
def addPixel (t : Tree) (p : Nat) : Tree := node t.id (t.own ++ [p]) t.kids

/-- `_merge` : append the merged structure's own pixels (its children are dealt with by the caller) -/
def absorb (t : Tree) (m : Tree) : Tree := node t.id (t.own ++ m.own) t.kids

end Tree

/-- all structures of a forest, prefix order -/
abbrev nodes (f : List Tree) : List Tree := Tree.preL f

/-- the implementation's loop: `st = todo.pop(0); yield st; todo = st.children + todo` -/
def allStructures (todo : List Tree) : List Tree :=
  match todo with
  | [] => []
  | .node i o ks :: rest => .node i o ks :: allStructures (ks ++ rest)
termination_by Tree.sizeL todo
decreasing_by
  have happ : ∀ a b : List Tree, Tree.sizeL (a ++ b) = Tree.sizeL a + Tree.sizeL b := by
    intro a b
    induction a with
    | nil => simp [Tree.sizeL]
    | cons t ts ih => simp [Tree.sizeL, ih]; omega
  simp [Tree.sizeL, Tree.size, happ]

/-- minimum / maximum of a non-empty list of integers folded the way `_add_pixel` does it -/
def minL (d : Int) : List Int → Int
  | [] => d
  | x :: xs => xs.foldl min x
def maxL (d : Int) : List Int → Int
  | [] => d
  | x :: xs => xs.foldl max x

def minNatL (d : Nat) : List Nat → Nat
  | [] => d
  | x :: xs => xs.foldl min x

namespace Tree
/-- `vmax` : maximum over own pixels -/
def vmax (val : Nat → Int) (t : Tree) : Int := maxL 0 (t.own.map val)
/-- `vmin` : minimum over own pixels (excluding substructures) -/
def vmin (val : Nat → Int) (t : Tree) : Int := minL 0 (t.own.map val)
/-- `height` : `min(c.vmin for c in children)` for a branch, `vmax` for a leaf -/
def height (val : Nat → Int) (t : Tree) : Int :=
  if t.kids.isEmpty then t.vmax val else minL 0 (t.kids.map (Tree.vmin val))
/-- `smallest_index` -/
def smallest (t : Tree) : Nat := minNatL 0 t.own
end Tree
