import ADModel.Compute
/-!
# ADModel.LabelMap — the pixel loop of `Dendrogram.compute` with the imperative label map

`ADModel.Compute.step` finds the structures adjacent to a pixel by *pixel membership*
(`touches`).  The implementation (dendrogram.py:203-320) does it through `index_map`:

* `self.index_map = -np.ones(...)`                                  → `LState.init` (`lmap = fun _ => none`)
* `adjacent = [index_map[c] for c in neighbours if index_map[c] > -1]` → `labelsAt`
* `adjacent = [structures[a].ancestor for a in adjacent]`            → `rootOfLabel`
* `adjacent = _sorted_by_idx(set(adjacent))`                         → `dedupById`, `sortById`
* the three-way case analysis (no / one / several adjacent structures) → `joinAdj` (shared with `step`)
* `self.index_map[coord] = idx | adjacent[0].idx | belongs_to.idx`   → `setLabel … p (joinAdj …).id`
* `for m in merge: … m._fill_footprint(self.index_map, belongs_to.idx)` → `fillFootprint` over `mergedOf`

`none` stands for `-1`.  A structure object is identified with its (temporary) identifier, so
`set(...)` removes elements with an identifier already seen.  `_fill_footprint` is only ever
applied to leaves here (`merge` contains leaves only), for which it rewrites exactly the own pixels.

`ADProofs.LabelMapProofs` proves that this loop computes the same forest as `run` and that the label
map it maintains is `labelOf` of that forest.
-/
open Tree

/-- state of the loop: `index_map` and the parentless structures -/
structure LState where
  /-- `index_map` : pixel ↦ identifier of the structure whose own list contains it; `none` = `-1` -/
  lmap  : Nat → Option Nat
  /-- the structures without parent, each with its substructures -/
  roots : List Tree

/-- before the loop: `index_map` is `-1` everywhere, no structures -/
def LState.init : LState := ⟨fun _ => none, []⟩

/-- the structure `t` or one of its substructures carries identifier `l` -/
def hasId (l : Nat) (t : Tree) : Bool := (pre t).any (fun s => s.id == l)

/-- `structures[l].ancestor` : the parentless structure that contains the structure with identifier
`l` (`none` would be a `KeyError`; `LabelMapProofs.labels_resolve` shows it does not happen) -/
def rootOfLabel (roots : List Tree) (l : Nat) : Option Tree := roots.find? (hasId l)

/-- `set(...)` on structure objects: keep one element per identifier -/
def dedupById : List Tree → List Tree
  | [] => []
  | t :: ts => t :: (dedupById ts).filter (fun u => u.id != t.id)

/-- `[index_map[c] for c in indices_adjacent if index_map[c] > -1]` -/
def labelsAt (E : Env) (lmap : Nat → Option Nat) (p : Nat) : List Nat := (E.nbrs p).filterMap lmap

/-- dendrogram.py:240-248 : labels of the neighbours, replaced by their ancestors, duplicates
removed, sorted by identifier -/
def adjacentL (E : Env) (s : LState) (p : Nat) : List Tree :=
  sortById (dedupById ((labelsAt E s.lmap p).filterMap (rootOfLabel s.roots)))

/-- the list `merge` when the loop `for m in merge` starts: the insignificant adjacent leaves,
without the last one if it was taken out to receive the pixel (`belongs_to = merge.pop()`) -/
def mergedOf (E : Env) (p : Nat) (adj : List Tree) : List Tree :=
  match adj with
  | []  => []
  | [_] => []
  | _   =>
    match adj.filter (fun t => !insig E p t) with
    | [] => (adj.filter (insig E p)).dropLast
    | _  => adj.filter (insig E p)

/-- `index_map[coord] = idx` -/
def setLabel (lmap : Nat → Option Nat) (p idx : Nat) : Nat → Option Nat :=
  fun q => if q = p then some idx else lmap q

/-- `m._fill_footprint(index_map, idx)` for a leaf `m` : `index_map[m.indices(subtree=False)] = idx` -/
def fillFootprint (lmap : Nat → Option Nat) (m : Tree) (idx : Nat) : Nat → Option Nat :=
  fun q => if m.own.contains q then some idx else lmap q

/-- one iteration of the loop -/
def stepL (E : Env) (s : LState) (p : Nat) : LState :=
  let adj := adjacentL E s p
  let r   := joinAdj E p adj          -- the structure that received `p` (new leaf / `adjacent[0]` / `belongs_to`)
  { lmap  := (mergedOf E p adj).foldl (fun lm m => fillFootprint lm m r.id) (setLabel s.lmap p r.id)
    roots := s.roots.filter (fun t => !adj.any (fun a => a.id == t.id)) ++ [r] }

/-- all pixels processed -/
def runL (E : Env) (order : List Nat) : LState := order.foldl (stepL E) LState.init
