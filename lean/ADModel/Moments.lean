/-!
# ADModel.Moments — `ScalarStatistic` (analysis.py:62-190) over exact rationals

A point carries integer (or, after a WCS-free translation, rational) coordinates and a weight;
a NaN value has weight 0 (`nansum`).  `mom2Along` is the exact value of "normalise the
direction, then take the quadratic form": `(w M wᵀ)/(w·w)` — no square root is needed.
Eigen-decomposition is outside the model (LAPACK); what is handed to the solver and what is done
with its result is modelled (`sub2`, trace / determinant invariants in `ADModel.PPV`).
-/

structure Pt where
  pos : List Rat
  w : Rat
deriving Repr, Inhabited

namespace Mom

def sumBy (f : Pt → Rat) : List Pt → Rat
  | [] => 0
  | p :: ps => f p + sumBy f ps

def coord (p : Pt) (i : Nat) : Rat := p.pos.getD i 0

/-- `mom0` : sum of the values -/
def mom0 (ps : List Pt) : Rat := sumBy (fun p => p.w) ps

/-- `mom1` component `i` : intensity-weighted mean position -/
def mom1 (ps : List Pt) (i : Nat) : Rat := sumBy (fun p => coord p i * p.w) ps / mom0 ps

/-- `mom2` entry `(i, j)` : intensity-weighted covariance -/
def mom2 (ps : List Pt) (i j : Nat) : Rat :=
  sumBy (fun p => (p.w / mom0 ps) * (coord p i - mom1 ps i) * (coord p j - mom1 ps j)) ps

def dot (a b : List Rat) : Rat :=
  match a, b with
  | x :: xs, y :: ys => x * y + dot xs ys
  | _, _ => 0

/-- quadratic form `w M wᵀ` for `nd` dimensions -/
def quad (ps : List Pt) (nd : Nat) (w : List Rat) : Rat :=
  ((List.range nd).map fun i => ((List.range nd).map fun j => w.getD i 0 * mom2 ps i j * w.getD j 0).foldr (· + ·) 0).foldr (· + ·) 0

/-- `mom2_along(direction)` for a single direction (need not be normalised) -/
def mom2Along (ps : List Pt) (nd : Nat) (w : List Rat) : Rat := quad ps nd w / dot w w

/-- translate all positions by `t` -/
def translate (t : List Rat) (ps : List Pt) : List Pt :=
  ps.map fun p => { p with pos := (List.range p.pos.length).map fun i => p.pos.getD i 0 + t.getD i 0 }

/-- `count` -/
def count (ps : List Pt) : Nat := ps.length

end Mom
