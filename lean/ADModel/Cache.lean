/-!
# ADModel.Cache — the per-object caches of `Structure` on an object heap (C14)

Staleness is a pointer-level phenomenon: `_reset_cache` touches one object only, a removed
`Structure` stays reachable through other objects' caches, `prune` re-parents grandchildren by
assignment.  So this model is a heap of objects (identifier ↦ fields) whose operations mirror
structure.py:242-358 and dendrogram.py:572-602, 799-859 assignment by assignment:

* queries with caches: `level` (the iterative loop that also fills the parent's cache),
  `ancestor` (path-compressing loop), `descendants` (level-by-level), `newick` (recursive, memoised);
* `mergeWithParent m` = `_merge_with_parent(m)`; `del keep_structures[m.idx]`;
* `finishPrune` = reset of all surviving structures' caches (the repair), trunk rebuilt with
  `_level = 0`;  `finishPruneOld` = the code before the repair (no reset).

`spec*` are the same observations computed from the live parent / children links alone.
-/

structure Obj where
  id : Nat
  parent : Option Nat := none
  kids : List Nat := []
  own : List Nat := []
  lvl : Option Nat := none          -- `_level`
  anc : Option Nat := none          -- `_ancestor`
  desc : Option (List Nat) := none  -- `_descendants`
  nw : Option String := none        -- `_newick` (ids only: heights do not matter for staleness)
deriving Repr, Inhabited, DecidableEq

structure Heap where
  objs : List Obj := []
  alive : List Nat := []            -- keys of `_structures_dict` / `keep_structures`
deriving Repr, Inhabited

namespace Heap

def get (h : Heap) (i : Nat) : Option Obj := h.objs.find? (fun o => o.id == i)

def update (h : Heap) (i : Nat) (f : Obj → Obj) : Heap :=
  { h with objs := h.objs.map (fun o => if o.id == i then f o else o) }

def resetCache (o : Obj) : Obj := { o with lvl := none, anc := none, desc := none, nw := none }

/-! ## specification: from the links alone -/

/-- number of parent links up to a parentless object (`fuel` bounds the walk) -/
def specLevel (h : Heap) : Nat → Nat → Option Nat
  | 0, _ => none
  | fuel + 1, i =>
    match h.get i with
    | none => none
    | some o =>
      match o.parent with
      | none => some 0
      | some p => (specLevel h fuel p).map (· + 1)

def specRoot (h : Heap) : Nat → Nat → Option Nat
  | 0, _ => none
  | fuel + 1, i =>
    match h.get i with
    | none => none
    | some o =>
      match o.parent with
      | none => some i
      | some p => specRoot h fuel p

/-- all descendants, level by level (children first, then grandchildren, …) -/
def specDesc (h : Heap) : Nat → List Nat → List Nat
  | 0, _ => []
  | fuel + 1, frontier =>
    let children := frontier.flatMap fun i => ((h.get i).map (·.kids)).getD []
    if children.isEmpty then [] else children ++ specDesc h fuel children

def specNewick (h : Heap) : Nat → Nat → String
  | 0, i => toString i
  | fuel + 1, i =>
    match h.get i with
    | none => toString i
    | some o =>
      if o.kids.isEmpty then toString i
      else "(" ++ ",".intercalate (o.kids.map (specNewick h fuel)) ++ ")" ++ toString i

/-! ## the cached queries -/

/-- the `while obj._level is None: obj = obj.parent; diff += 1` walk; returns (level found, diff) -/
def walkLevel (h : Heap) : Nat → Nat → Nat → Option (Nat × Nat)
  | 0, _, _ => none
  | fuel + 1, i, diff =>
    match h.get i with
    | none => none
    | some o =>
      match o.lvl with
      | some l => some (l, diff)
      | none =>
        match o.parent with
        | none => none                      -- `None._level` : AttributeError in the real code
        | some p => walkLevel h fuel p (diff + 1)

/-- `Structure.level` : returns the new heap and the answer -/
def level (h : Heap) (fuel : Nat) (i : Nat) : Heap × Option Nat :=
  match h.get i with
  | none => (h, none)
  | some o =>
    match o.lvl with
    | some l => (h, some l)
    | none =>
      match o.parent with
      | none => (h.update i (fun o => { o with lvl := some 0 }), some 0)
      | some p =>
        match (h.get p).bind (·.lvl) with
        | some pl => (h.update i (fun o => { o with lvl := some (pl + 1) }), some (pl + 1))
        | none =>
          match walkLevel h fuel p 1 with
          | none => (h, none)
          | some (l, diff) =>
            let me := l + diff
            ((h.update i (fun o => { o with lvl := some me })).update p (fun o => { o with lvl := some (me - 1) }), some me)

/-- the `while self._ancestor.parent:` loop on the cached ancestor `a` of object `i` -/
def walkAnc (h : Heap) : Nat → Nat → Option Nat
  | 0, _ => none
  | fuel + 1, a =>
    match h.get a with
    | none => none
    | some ao =>
      match ao.parent with
      | none => some a
      | some ap =>
        match ao.anc with
        | some aa => walkAnc h fuel aa       -- `self._ancestor = a._ancestor`
        | none => walkAnc h fuel ap          -- `self._ancestor = a.parent`

/-- `Structure.ancestor` -/
def ancestor (h : Heap) (fuel : Nat) (i : Nat) : Heap × Option Nat :=
  match h.get i with
  | none => (h, none)
  | some o =>
    match o.parent with
    | none => (h, some i)
    | some p =>
      let start := o.anc.getD p
      match walkAnc h fuel start with
      | none => (h, none)
      | some r => (h.update i (fun o => { o with anc := some r }), some r)

/-- `Structure.descendants` -/
def descendants (h : Heap) (fuel : Nat) (i : Nat) : Heap × Option (List Nat) :=
  match h.get i with
  | none => (h, none)
  | some o =>
    match o.desc with
    | some d => (h, some d)
    | none =>
      let d := specDesc h fuel [i]
      (h.update i (fun o => { o with desc := some d }), some d)

/-- `Structure.newick` : children first (each memoised), then the own string -/
def newick : Heap → Nat → Nat → Heap × String
  | h, 0, i => (h, toString i)
  | h, fuel + 1, i =>
    match h.get i with
    | none => (h, toString i)
    | some o =>
      match o.nw with
      | some s => (h, s)
      | none =>
        let (h', strs) := o.kids.foldl (fun (acc : Heap × List String) c =>
          let (h2, s) := newick acc.1 fuel c
          (h2, acc.2 ++ [s])) (h, [])
        let s := if o.kids.isEmpty then toString i else "(" ++ ",".intercalate strs ++ ")" ++ toString i
        (h'.update i (fun o => { o with nw := some s }), s)

/-! ## pruning -/

/-- `_merge_with_parent(m)` followed by `del keep_structures[m.idx]` -/
def mergeWithParent (h : Heap) (m : Nat) : Heap :=
  match h.get m with
  | none => h
  | some mo =>
    match mo.parent with
    | none => h
    | some p =>
      -- parent._merge(m): own pixels appended, parent's caches reset
      let h1 := h.update p (fun po => resetCache { po with own := po.own ++ mo.own })
      -- parent.children.remove(m); parent.children.extend(m.children)
      let h2 := h1.update p (fun po => { po with kids := po.kids.erase m ++ mo.kids })
      -- for child in m.children: child.parent = parent
      let h3 := mo.kids.foldl (fun acc c => acc.update c (fun co => { co with parent := some p })) h2
      { h3 with alive := h3.alive.erase m }

/-- after the loop, as repaired: every surviving structure's caches are reset; `_make_trunk` then
    seeds `_level = 0` on parentless survivors (orphan removal does not touch caches of others) -/
def finishPrune (h : Heap) : Heap :=
  { h with objs := h.objs.map fun o =>
      if h.alive.contains o.id then
        let o' := resetCache o
        if o'.parent.isNone then { o' with lvl := some 0 } else o'
      else o }

/-- before the repair: no reset, only the trunk seeding -/
def finishPruneOld (h : Heap) : Heap :=
  { h with objs := h.objs.map fun o =>
      if h.alive.contains o.id && o.parent.isNone then { o with lvl := some 0 } else o }

def prune (h : Heap) (merges : List Nat) : Heap := finishPrune (merges.foldl mergeWithParent h)
def pruneOld (h : Heap) (merges : List Nat) : Heap := finishPruneOld (merges.foldl mergeWithParent h)

end Heap

/-- operations of a history -/
inductive COp where
  | qLevel (i : Nat) | qAnc (i : Nat) | qDesc (i : Nat) | qNewick (i : Nat)
  | prune (merges : List Nat)
deriving Repr, Inhabited

/-- observation produced by an operation -/
inductive CObs where
  | nat (n : Option Nat) | list (l : Option (List Nat)) | str (s : String) | unit
deriving Repr, Inhabited, DecidableEq

namespace Heap

def size (h : Heap) : Nat := h.objs.length + 1

/-- one operation with the caches (repaired code) -/
def stepC (h : Heap) : COp → Heap × CObs
  | .qLevel i => let r := h.level h.size i; (r.1, .nat r.2)
  | .qAnc i => let r := h.ancestor h.size i; (r.1, .nat r.2)
  | .qDesc i => let r := h.descendants h.size i; (r.1, .list r.2)
  | .qNewick i => let r := h.newick h.size i; (r.1, .str r.2)
  | .prune ms => (h.prune ms, .unit)

/-- the same with the code before the repair -/
def stepOld (h : Heap) : COp → Heap × CObs
  | .prune ms => (h.pruneOld ms, .unit)
  | op => stepC h op

/-- the observation a freshly constructed dendrogram with the same links would give -/
def specObs (h : Heap) : COp → CObs
  | .qLevel i => .nat (if (h.get i).isSome then h.specLevel h.size i else none)
  | .qAnc i => .nat (if (h.get i).isSome then h.specRoot h.size i else none)
  | .qDesc i => .list (if (h.get i).isSome then some (h.specDesc h.size [i]) else none)
  | .qNewick i => .str (h.specNewick h.size i)
  | .prune _ => .unit

/-- run a history, collecting (observed, specified-at-that-moment) pairs -/
def runHistory (step : Heap → COp → Heap × CObs) : Heap → List COp → List (CObs × CObs)
  | _, [] => []
  | h, op :: ops =>
    let r := step h op
    (r.2, specObs h op) :: runHistory step r.1 ops

end Heap
