/-!
# ADModel.Identify — choosing the file format (io/__init__.py, io/fits.py:19-27, io/hdf5.py:13-21)

Writing: by extension, case-insensitively.  Reading an existing file: by signature (first 30
resp. 8 bytes); reading a non-existing name falls back to the extension rule.  Handlers are tried
in the order of the `IO_FORMATS` dict (`fits`, then `hdf5`).
-/

inductive Fmt where
  | fits | hdf5
deriving Repr, DecidableEq, Inhabited

namespace Identify

def lowerC (c : Char) : Char := if 'A' ≤ c ∧ c ≤ 'Z' then Char.ofNat (c.toNat + 32) else c
def lower (s : List Char) : List Char := s.map lowerC

def endsWith (s suf : List Char) : Bool := suf.length ≤ s.length && s.drop (s.length - suf.length) == suf

def fitsExts : List (List Char) := [".fits".toList, ".fits.gz".toList, ".fit".toList, ".fit.gz".toList]
def hdf5Exts : List (List Char) := [".hdf5".toList, ".h5".toList]

/-- `SIMPLE  =                    T` -/
def fitsSig : List Nat := [0x53, 0x49, 0x4d, 0x50, 0x4c, 0x45, 0x20, 0x20, 0x3d] ++ List.replicate 20 0x20 ++ [0x54]
/-- `\x89HDF\r\n\x1a\n` -/
def hdf5Sig : List Nat := [0x89, 0x48, 0x44, 0x46, 0x0d, 0x0a, 0x1a, 0x0a]

/-- `is_fits(filename, mode)` : `head` = the first bytes of the file when it exists -/
def isFits (name : List Char) (read : Bool) (head : Option (List Nat)) : Bool :=
  match read, head with
  | true, some h => h.take 30 == fitsSig
  | _, _ => fitsExts.any (endsWith (lower name))

def isHdf5 (name : List Char) (read : Bool) (head : Option (List Nat)) : Bool :=
  match read, head with
  | true, some h => h.take 8 == hdf5Sig
  | _, _ => hdf5Exts.any (endsWith (lower name))

/-- automatic identification; `none` ⇒ `IOError` -/
def identify (name : List Char) (read : Bool) (head : Option (List Nat)) : Option Fmt :=
  if isFits name read head then some .fits else if isHdf5 name read head then some .hdf5 else none

/-- `load_dendrogram` / `save_dendrogram` : explicit format wins -/
def choose (explicit : Option Fmt) (name : List Char) (read : Bool) (head : Option (List Nat)) : Option Fmt :=
  match explicit with
  | some f => some f
  | none => identify name read head

end Identify
