import ADModel.Moments
/-!
# ADModel.PPV — `PPStatistic` / `PPVStatistic` axis logic (analysis.py:289-566) and the catalog
wrap heuristic (analysis.py:635-643)

Square roots and the eigen-solver are outside the model; sigmas are represented by their squares
through the solver-free invariants of a symmetric 2×2 matrix `[[a, b], [b, c]]` with eigenvalues
`λ₁ ≥ λ₂`:  `λ₁ + λ₂ = a + c`,  `λ₁ λ₂ = a c − b²`.
-/
open Mom

namespace PPV

/-- the two sky axes for a velocity axis `vaxis ∈ {0,1,2}` (`ax.pop(vaxis)`) -/
def skyAxes (vaxis : Nat) : Nat × Nat :=
  match vaxis with
  | 0 => (1, 2)
  | 1 => (0, 2)
  | _ => (0, 1)

/-- re-embedding of a sky-plane vector `(a0, a1)` into 3-D: a zero at position `vaxis`
    (`a.insert(vaxis, 0)`, the repaired code) -/
def embed (vaxis : Nat) (a : Rat × Rat) : List Rat :=
  match vaxis with
  | 0 => [0, a.1, a.2]
  | 1 => [a.1, 0, a.2]
  | _ => [a.1, a.2, 0]

/-- what the code did before the repair: `a.insert(0, vaxis)` -/
def embedOld (vaxis : Nat) (a : Rat × Rat) : List Rat := [(vaxis : Rat), a.1, a.2]

/-- sky-plane covariance block `[[a, b], [b, c]]` -/
def skyBlock (ps : List Pt) (vaxis : Nat) : Rat × Rat × Rat :=
  let (i, j) := skyAxes vaxis
  (mom2 ps i i, mom2 ps i j, mom2 ps j j)

/-- `major_sigma² + minor_sigma²` in units of `dx²` -/
def sigmaSqSum (ps : List Pt) (vaxis : Nat) : Rat := let (a, _, c) := skyBlock ps vaxis; a + c
/-- `major_sigma² · minor_sigma²` in units of `dx⁴` (= `radius⁴`) -/
def sigmaSqProd (ps : List Pt) (vaxis : Nat) : Rat := let (a, b, c) := skyBlock ps vaxis; a * c - b * b
/-- `v_rms²` in units of `dv²` -/
def vrmsSq (ps : List Pt) (vaxis : Nat) : Rat := mom2 ps vaxis vaxis

/-- centroids in pixel coordinates: `x_cen`, `y_cen`, `v_cen` as selected by `vaxis` -/
def xCen (ps : List Pt) (vaxis : Nat) : Rat := if vaxis != 2 then mom1 ps 2 else mom1 ps 1
def yCen (ps : List Pt) (vaxis : Nat) : Rat := if vaxis == 0 then mom1 ps 1 else mom1 ps 0
def vCen (ps : List Pt) (vaxis : Nat) : Rat := mom1 ps vaxis

def dedup : List (Rat × Rat) → List (Rat × Rat)
  | [] => []
  | x :: xs => if xs.contains x then dedup xs else x :: dedup xs

/-- `area_exact` in units of `dx²`: number of distinct sky positions -/
def areaExact (ps : List Pt) (vaxis : Nat) : Nat :=
  let (i, j) := skyAxes vaxis
  (dedup (ps.map fun p => (coord p i, coord p j))).length

/-- move the velocity axis of every point from position `vaxis` to position 0
    (the data "transposed accordingly") -/
def toV0 (vaxis : Nat) (ps : List Pt) : List Pt :=
  ps.map fun p =>
    let c := fun i => p.pos.getD i 0
    { p with pos := match vaxis with
      | 0 => [c 0, c 1, c 2]
      | 1 => [c 1, c 0, c 2]
      | _ => [c 2, c 0, c 1] }

/-! ## 2-D (PP) -/
def ppSigmaSqSum (ps : List Pt) : Rat := mom2 ps 0 0 + mom2 ps 1 1
def ppSigmaSqProd (ps : List Pt) : Rat := mom2 ps 0 0 * mom2 ps 1 1 - mom2 ps 0 1 * mom2 ps 0 1

end PPV

namespace Catalog

def maxQ : List Rat → Rat
  | [] => 0
  | x :: xs => xs.foldl max x
def minQ : List Rat → Rat
  | [] => 0
  | x :: xs => xs.foldl min x
def ptp (xs : List Rat) : Rat := maxQ xs - minQ xs

/-- the edge-wrap heuristic on one index array of an axis of length `n`:
    `i2 = where(i < n/2, i + n, i)`; used iff `ptp(i2) < ptp(i)` -/
def wrapAxis (n : Nat) (xs : List Rat) : List Rat :=
  let i2 := xs.map fun x => if 2 * x < (n : Rat) then x + n else x
  if ptp i2 < ptp xs then i2 else xs

end Catalog
