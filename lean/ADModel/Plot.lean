import ADModel.Basic
/-!
# ADModel.Plot — `DendrogramPlotter.sort` / `get_lines` (plot.py:35-76, 162-218) and
`Structure.sorted_leaves` / `prefix_visit` (structure.py:17-25, 427-458)

The sort key is a function of the structure's identifier (the default key is the peak value of
the structure with its substructures).  Python's `sorted` is stable; with `reverse=True` equal
elements keep their original order too.
-/
open Tree

namespace Plot

/-- stable ascending sort (`sorted(l, key=key)`): equal keys keep their order.
    built by folding from the right, inserting before the first element with a key ≥ own key -/
def sortAsc (key : Nat → Int) : List Tree → List Tree
  | [] => []
  | t :: ts => insertByKey' key t (sortAsc key ts)
where
  insertByKey' (key : Nat → Int) (t : Tree) : List Tree → List Tree
    | [] => [t]
    | u :: us => if key t.id ≤ key u.id then t :: u :: us else u :: insertByKey' key t us

/-- `sorted(l, key=key, reverse=rev)` (stable in both directions) -/
def sortedPy (key : Nat → Int) (rev : Bool) (l : List Tree) : List Tree :=
  if rev then (sortAsc key l.reverse).reverse else sortAsc key l

mutual
/-- the tree with every child list sorted: `prefix_visit(s, key, reverse)` is its prefix listing -/
def sortTree (key : Nat → Int) (rev : Bool) : Tree → Tree
  | node i o ks => node i o (sortedPy key rev (sortTreeL key rev ks))
def sortTreeL (key : Nat → Int) (rev : Bool) : List Tree → List Tree
  | [] => []
  | t :: ts => sortTree key rev t :: sortTreeL key rev ts
end

/-- `structure.sorted_leaves(sort_key, reverse=rev, subtree=True)` as identifiers -/
def sortedLeaves (key : Nat → Int) (rev : Bool) (t : Tree) : List Nat :=
  if t.isLeaf then [t.id]
  else (((pre (sortTree key (!rev) t)).reverse).filter Tree.isLeaf).map Tree.id

/-- leaves of the whole plot from left to right -/
def leafOrder (key : Nat → Int) (rev : Bool) (trunk : List Tree) : List Nat :=
  (sortedPy key rev trunk).flatMap (sortedLeaves key rev)

def idxOfNat (l : List Nat) (x : Nat) : Nat := l.idxOf x

def meanQ (l : List Rat) : Rat := if l.isEmpty then 0 else l.foldl (· + ·) 0 / (l.length : Rat)

mutual
/-- x-position: leaves at their index in `leafOrder`, branches at the mean of their children -/
def pos (order : List Nat) : Tree → Rat
  | node i _ ks => if ks.isEmpty then (idxOfNat order i : Rat) else meanQ (posL order ks)
def posL (order : List Nat) : List Tree → List Rat
  | [] => []
  | t :: ts => pos order t :: posL order ts
end

/-- one line segment: ((x0, y0), (x1, y1)) and the structure it is mapped to -/
structure Seg where
  x0 : Rat
  y0 : Int
  x1 : Rat
  y1 : Int
  sid : Nat
deriving Repr, Inhabited

def minQ' : List Rat → Rat
  | [] => 0
  | x :: xs => xs.foldl min x
def maxQ' : List Rat → Rat
  | [] => 0
  | x :: xs => xs.foldl max x

mutual
/-- `get_lines` for a structure and all its descendants, prefix order; `bot` = parent's height
    (own minimum for trunk structures) -/
def lines (val : Nat → Int) (order : List Nat) (parentH : Option Int) : Tree → List Seg
  | node i o ks =>
    let t := node i o ks
    let x := pos order t
    let top := t.height val
    let bot := parentH.getD (t.vmin val)
    let vert : Seg := { x0 := x, y0 := bot, x1 := x, y1 := top, sid := i }
    let horiz : List Seg := if ks.isEmpty then [] else
      [{ x0 := minQ' (posL order ks), y0 := top, x1 := maxQ' (posL order ks), y1 := top, sid := i }]
    vert :: horiz ++ linesL val order (some top) ks
def linesL (val : Nat → Int) (order : List Nat) (parentH : Option Int) : List Tree → List Seg
  | [] => []
  | t :: ts => lines val order parentH t ++ linesL val order parentH ts
end

end Plot
