import ADModel.Obs
import ADModel.IO
/-!
# ADModel.Fast — efficient implementations of the observation functions for the compiled driver

Nothing here changes a model definition.  Every `…Fast` function comes with a proved `@[csimp]`
equation `@f = @fFast`, so that code compiled *after* this file (the driver) runs the fast version,
while the logical definitions the theorems of `ADProofs` / `ADProps` talk about stay what they are.

* `binOf` indexed a `List` inside a filter over `List.range lm.length` (quadratic in the number of
  pixels); `binOfFast` is one pass with a running index.
* `labelMap` recomputed `nodes f` for every pixel; `labelMapFast` computes it once.
* `tiIndices` evaluated `binOf` (a pass over all pixels) about `3 · #structures` times per call, and
  the driver calls it twice per structure; `tiIndicesFast` makes ONE pass over the label map
  (`assigned`: the assigned pixels with their labels, ascending) and reads every bin from that short
  list (`binOfS`).  `reload` likewise.
* the compiled code of `tiIndex` / `tiOffset` / `tiSubCt` / `regroupT` (compiled in `Obs` / `IO`,
  before the `csimp` equations exist) calls the slow `binOf`, so each gets a copy that is compiled
  here, after `binOf_eq_fast`.
-/
open Tree

/-! ## `binOf` -/

/-- one pass over the label map: `p` is the flat index of the head of the remaining list -/
def binOfGo (i : Nat) : List (Option Nat) → Nat → Array Nat → Array Nat
  | [], _, acc => acc
  | none :: os, p, acc => binOfGo i os (p + 1) acc
  | some j :: os, p, acc => binOfGo i os (p + 1) (if j == i then acc.push p else acc)

def binOfFast (lm : List (Option Nat)) (i : Nat) : List Nat := (binOfGo i lm 0 #[]).toList

theorem binOfGo_spec (i : Nat) (l : List (Option Nat)) :
    ∀ (pre : List (Option Nat)) (acc : Array Nat),
      (binOfGo i l pre.length acc).toList
        = acc.toList ++ (List.range' pre.length l.length).filter
            (fun p => (pre ++ l).getD p none == some i) := by
  induction l with
  | nil => intro pre acc; simp [binOfGo]
  | cons o os ih =>
    intro pre acc
    have hk : (pre ++ o :: os).getD pre.length none = o := by
      simp [List.getD_eq_getElem?_getD]
    cases o with
    | none =>
      have h := ih (pre ++ [none]) acc
      simp only [List.length_append, List.length_cons, List.length_nil, Nat.zero_add,
        List.append_assoc, List.cons_append, List.nil_append] at h
      simp only [binOfGo, h, List.length_cons, List.range'_succ, List.filter_cons, hk]
      simp
    | some j =>
      have h := ih (pre ++ [some j]) (if j == i then acc.push pre.length else acc)
      simp only [List.length_append, List.length_cons, List.length_nil, Nat.zero_add,
        List.append_assoc, List.cons_append, List.nil_append] at h
      simp only [binOfGo, h, List.length_cons, List.range'_succ, List.filter_cons, hk]
      by_cases hj : j = i
      · simp [hj]
      · simp [hj]

@[csimp] theorem binOf_eq_fast : @binOf = @binOfFast := by
  funext lm i
  have h := binOfGo_spec i lm [] #[]
  simp only [List.length_nil, List.nil_append] at h
  simp [binOf, binOfFast, h, List.range_eq_range']

/-! ## `labelMap` -/

def labelMapFast (f : List Tree) (n : Nat) : List (Option Nat) :=
  let ns := nodes f
  (List.range n).map (fun p => (ns.find? (fun t => t.own.contains p)).map Tree.id)

@[csimp] theorem labelMap_eq_fast : @labelMap = @labelMapFast := by
  funext f n; rfl

/-! ## the assigned pixels of a label map, and bins read from them -/

/-- `(p, label)` for every assigned pixel `p`, ascending: one pass over the label map -/
def assignedGo : List (Option Nat) → Nat → Array (Nat × Nat) → Array (Nat × Nat)
  | [], _, acc => acc
  | none :: os, p, acc => assignedGo os (p + 1) acc
  | some j :: os, p, acc => assignedGo os (p + 1) (acc.push (p, j))

def assigned (lm : List (Option Nat)) : List (Nat × Nat) := (assignedGo lm 0 #[]).toList

/-- the bin of label `i`, read from the list of assigned pixels -/
def binOfS (s : List (Nat × Nat)) (i : Nat) : List Nat :=
  s.filterMap (fun pl => if pl.2 == i then some pl.1 else none)

theorem assignedGo_spec (l : List (Option Nat)) :
    ∀ (pre : List (Option Nat)) (acc : Array (Nat × Nat)),
      (assignedGo l pre.length acc).toList
        = acc.toList ++ (List.range' pre.length l.length).filterMap
            (fun p => ((pre ++ l).getD p none).map (fun j => (p, j))) := by
  induction l with
  | nil => intro pre acc; simp [assignedGo]
  | cons o os ih =>
    intro pre acc
    have hk : (pre ++ o :: os).getD pre.length none = o := by
      simp [List.getD_eq_getElem?_getD]
    cases o with
    | none =>
      have h := ih (pre ++ [none]) acc
      simp only [List.length_append, List.length_cons, List.length_nil, Nat.zero_add,
        List.append_assoc, List.cons_append, List.nil_append] at h
      simp only [assignedGo, h, List.length_cons, List.range'_succ, List.filterMap_cons, hk]
      simp
    | some j =>
      have h := ih (pre ++ [some j]) (acc.push (pre.length, j))
      simp only [List.length_append, List.length_cons, List.length_nil, Nat.zero_add,
        List.append_assoc, List.cons_append, List.nil_append] at h
      simp only [assignedGo, h, List.length_cons, List.range'_succ, List.filterMap_cons, hk]
      simp

theorem binOfS_aux (p i : Nat) (o : Option Nat) :
    ((o.map (fun j => (p, j))).bind fun pl => if (pl.snd == i) = true then some pl.fst else none)
      = if (o == some i) = true then some p else none := by
  cases o with
  | none => simp
  | some j =>
    by_cases hj : j = i
    · simp [hj]
    · simp [hj]

theorem binOfS_assigned (lm : List (Option Nat)) (i : Nat) : binOfS (assigned lm) i = binOf lm i := by
  have h := assignedGo_spec lm [] #[]
  simp only [List.length_nil, List.nil_append] at h
  unfold binOfS assigned binOf
  rw [h, List.range_eq_range']
  simp only [List.filterMap_filterMap, ← List.filterMap_eq_filter]
  congr 1
  funext p
  simp only [Option.guard]
  exact binOfS_aux p i _

/-! ## the tree index -/

def tiIndexFast (lm : List (Option Nat)) (f : List Tree) : List Nat :=
  (nodes f).flatMap (fun t => binOf lm t.id)

@[csimp] theorem tiIndex_eq_fast : @tiIndex = @tiIndexFast := by
  funext lm f; rfl

def tiOffsetFast (lm : List (Option Nat)) (f : List Tree) (i : Nat) : Nat :=
  (((nodes f).takeWhile (fun t => t.id != i)).map (fun t => (binOf lm t.id).length)).foldl (· + ·) 0

@[csimp] theorem tiOffset_eq_fast : @tiOffset = @tiOffsetFast := by
  funext lm f i; rfl

mutual
def tiSubCtFast (lm : List (Option Nat)) : Tree → Nat
  | node i _ ks => (binOf lm i).length + tiSubCtLFast lm ks
def tiSubCtLFast (lm : List (Option Nat)) : List Tree → Nat
  | [] => 0
  | t :: ts => tiSubCtFast lm t + tiSubCtLFast lm ts
end

mutual
theorem tiSubCt_eq (lm : List (Option Nat)) : ∀ t : Tree, tiSubCt lm t = tiSubCtFast lm t
  | node i o ks => by simp only [tiSubCt, tiSubCtFast, tiSubCtL_eq lm ks]
theorem tiSubCtL_eq (lm : List (Option Nat)) : ∀ l : List Tree, tiSubCtL lm l = tiSubCtLFast lm l
  | [] => by simp only [tiSubCtL, tiSubCtLFast]
  | t :: ts => by simp only [tiSubCtL, tiSubCtLFast, tiSubCt_eq lm t, tiSubCtL_eq lm ts]
end

@[csimp] theorem tiSubCt_eq_fast : @tiSubCt = @tiSubCtFast := by
  funext lm t; exact tiSubCt_eq lm t

@[csimp] theorem tiSubCtL_eq_fast : @tiSubCtL = @tiSubCtLFast := by
  funext lm l; exact tiSubCtL_eq lm l

/-! ### `tiIndices` over the assigned pixels: one pass over the label map per call -/

mutual
def tiSubCtS (s : List (Nat × Nat)) : Tree → Nat
  | node i _ ks => (binOfS s i).length + tiSubCtLS s ks
def tiSubCtLS (s : List (Nat × Nat)) : List Tree → Nat
  | [] => 0
  | t :: ts => tiSubCtS s t + tiSubCtLS s ts
end

mutual
theorem tiSubCtS_eq (lm : List (Option Nat)) : ∀ t : Tree, tiSubCtS (assigned lm) t = tiSubCt lm t
  | node i o ks => by simp only [tiSubCt, tiSubCtS, tiSubCtLS_eq lm ks, binOfS_assigned]
theorem tiSubCtLS_eq (lm : List (Option Nat)) : ∀ l : List Tree, tiSubCtLS (assigned lm) l = tiSubCtL lm l
  | [] => by simp only [tiSubCtL, tiSubCtLS]
  | t :: ts => by simp only [tiSubCtL, tiSubCtLS, tiSubCtS_eq lm t, tiSubCtLS_eq lm ts]
end

def tiIndicesFast (lm : List (Option Nat)) (f : List Tree) (t : Tree) (subtree : Bool) : List Nat :=
  let s := assigned lm
  let ns := nodes f
  let off := ((ns.takeWhile (fun u => u.id != t.id)).map (fun u => (binOfS s u.id).length)).foldl (· + ·) 0
  let n := if subtree then tiSubCtS s t else (binOfS s t.id).length
  ((ns.flatMap (fun u => binOfS s u.id)).drop off).take n

@[csimp] theorem tiIndices_eq_fast : @tiIndices = @tiIndicesFast := by
  funext lm f t subtree
  simp only [tiIndices, tiIndicesFast, tiOffset, tiIndex, binOfS_assigned, tiSubCtS_eq]

/-! ## save / load -/

mutual
def regroupTFast (lm : List (Option Nat)) : Tree → Tree
  | node i _ ks => node i (binOf lm i) (regroupLFast lm ks)
def regroupLFast (lm : List (Option Nat)) : List Tree → List Tree
  | [] => []
  | t :: ts => regroupTFast lm t :: regroupLFast lm ts
end

mutual
theorem regroupT_eq (lm : List (Option Nat)) : ∀ t : Tree, regroupT lm t = regroupTFast lm t
  | node i o ks => by simp only [regroupT, regroupTFast, regroupL_eq lm ks]
theorem regroupL_eq (lm : List (Option Nat)) : ∀ l : List Tree, regroupL lm l = regroupLFast lm l
  | [] => by simp only [regroupL, regroupLFast]
  | t :: ts => by simp only [regroupL, regroupLFast, regroupT_eq lm t, regroupL_eq lm ts]
end

@[csimp] theorem regroupT_eq_fast : @regroupT = @regroupTFast := by
  funext lm t; exact regroupT_eq lm t

@[csimp] theorem regroupL_eq_fast : @regroupL = @regroupLFast := by
  funext lm l; exact regroupL_eq lm l

mutual
def regroupTS (s : List (Nat × Nat)) : Tree → Tree
  | node i _ ks => node i (binOfS s i) (regroupLS s ks)
def regroupLS (s : List (Nat × Nat)) : List Tree → List Tree
  | [] => []
  | t :: ts => regroupTS s t :: regroupLS s ts
end

mutual
theorem regroupTS_eq (lm : List (Option Nat)) : ∀ t : Tree, regroupTS (assigned lm) t = regroupT lm t
  | node i o ks => by simp only [regroupT, regroupTS, regroupLS_eq lm ks, binOfS_assigned]
theorem regroupLS_eq (lm : List (Option Nat)) : ∀ l : List Tree, regroupLS (assigned lm) l = regroupL lm l
  | [] => by simp only [regroupL, regroupLS]
  | t :: ts => by simp only [regroupL, regroupLS, regroupTS_eq lm t, regroupLS_eq lm ts]
end

def reloadFast (f : List Tree) (n : Nat) : List Tree := regroupLS (assigned (labelMap f n)) f

@[csimp] theorem reload_eq_fast : @reload = @reloadFast := by
  funext f n
  simp only [reload, reloadFast, regroupLS_eq]
