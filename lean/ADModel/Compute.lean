import ADModel.Basic
/-!
# ADModel.Compute — the pixel loop of `Dendrogram.compute` (dendrogram.py:195-330)

Clause table (docs/algorithm.rst, docs/using.rst → model):
* "start with the brightest pixel … a pixel with no assigned neighbour starts a leaf" → `joinAdj … []`
* "with one (adjacent structure) it joins it"                                        → `joinAdj … [t]`
* "where several regions meet" : leaves that are not independent (`vmax == value`, or the
  criteria fail at the meeting value) are absorbed (`mrg`); 0 kept ⇒ the last of them
  (`merge.pop()`) receives the pixel and absorbs the others; 1 kept ⇒ it receives pixel and
  leaves; ≥ 2 kept ⇒ a new branch with exactly the kept ones as children.
* `_make_trunk`: parentless structures sorted by idx; parentless leaves failing the value-less
  criteria are dropped.
* final identifiers `0 … N-1` by smallest own pixel.

Identifiers during the loop: the implementation uses `i + 1` with `i` the rank of the creating
pixel among kept pixels in C order; the model uses the creating pixel's flat index, which orders
structures identically.
-/
open Tree

structure Env where
  /-- exact (scaled) pixel value -/
  val   : Nat → Int
  /-- adjacency in use (grid / periodic / user supplied) -/
  nbrs  : Nat → List Nat
  /-- criteria at merge time: `is_independent(leaf, index=p, value=v)` -/
  indep : Tree → Nat → Int → Bool
  /-- criteria for a parentless leaf: `is_independent(leaf)` -/
  indepOrphan : Tree → Bool

def insertById (t : Tree) : List Tree → List Tree
  | [] => [t]
  | u :: us => if t.id ≤ u.id then t :: u :: us else u :: insertById t us
/-- `_sorted_by_idx` -/
def sortById : List Tree → List Tree
  | [] => []
  | t :: ts => insertById t (sortById ts)

/-- root `t` contains a neighbour of `p`  (`structures[index_map[c]].ancestor is t` for some `c`) -/
def touches (E : Env) (p : Nat) (t : Tree) : Bool := (E.nbrs p).any (fun q => q ∈ t.pixels)

/-- the `merge` list comprehension of dendrogram.py:264-268 -/
def insig (E : Env) (p : Nat) (t : Tree) : Bool :=
  t.isLeaf && (t.vmax E.val == E.val p || !E.indep t p (E.val p))

/-- the structure that receives pixel `p`, given the adjacent roots sorted by identifier -/
def joinAdj (E : Env) (p : Nat) (adj : List Tree) : Tree :=
  match adj with
  | []  => node p [p] []
  | [t] => t.addPixel p
  | _   =>
    let mrg  := adj.filter (insig E p)
    let keep := adj.filter (fun t => !insig E p t)
    match keep with
    | [] =>
      match mrg.reverse with
      | [] => node p [p] []   -- unreachable: `adj` has ≥ 2 elements and none is kept
      | b :: others => others.reverse.foldl Tree.absorb (b.addPixel p)   -- `merge.pop()`
    | [t] => mrg.foldl Tree.absorb (t.addPixel p)
    | _   => mrg.foldl Tree.absorb (node p [p] keep)

def step (E : Env) (roots : List Tree) (p : Nat) : List Tree :=
  roots.filter (fun t => !touches E p t) ++ [joinAdj E p (sortById (roots.filter (touches E p)))]

/-- all pixels processed -/
def run (E : Env) (order : List Nat) : List Tree := order.foldl (step E) []

/-- `_make_trunk` on the result of the loop -/
def makeTrunk (E : Env) (roots : List Tree) : List Tree :=
  (sortById roots).filter (fun t => !(t.isLeaf && !E.indepOrphan t))

/-- roots dropped by `_make_trunk` (their pixels become unassigned) -/
def droppedOrphans (E : Env) (roots : List Tree) : List Tree :=
  (sortById roots).filter (fun t => t.isLeaf && !E.indepOrphan t)

/-! ## final identifiers -/

def insertBySmallest (t : Tree) : List Tree → List Tree
  | [] => [t]
  | u :: us => if t.smallest ≤ u.smallest then t :: u :: us else u :: insertBySmallest t us
def sortBySmallest : List Tree → List Tree
  | [] => []
  | t :: ts => insertBySmallest t (sortBySmallest ts)

/-- position of the first element satisfying `f` -/
def findIdx (f : α → Bool) : List α → Nat
  | [] => 0
  | x :: xs => if f x then 0 else findIdx f xs + 1

/-- rank of the node with temporary id `i` among all nodes ordered by smallest own pixel -/
def finalId (f : List Tree) (i : Nat) : Nat :=
  findIdx (fun t => t.id == i) (sortBySmallest (nodes f))

mutual
def mapIds (g : Nat → Nat) : Tree → Tree
  | node i o ks => node (g i) o (mapIdsL g ks)
def mapIdsL (g : Nat → Nat) : List Tree → List Tree
  | [] => []
  | t :: ts => mapIds g t :: mapIdsL g ts
end

/-- `s.idx = idx` for `idx, s in enumerate(sorted(self, key=smallest_index))`; list orders are kept -/
def relabel (f : List Tree) : List Tree := mapIdsL (finalId f) f

/-- the whole of `Dendrogram.compute` as far as the forest is concerned -/
def compute (E : Env) (order : List Nat) : List Tree := relabel (makeTrunk E (run E order))

/-- label of pixel `p` in a forest: id of the node owning it -/
def labelOf (f : List Tree) (p : Nat) : Option Nat :=
  ((nodes f).find? (fun t => t.own.contains p)).map Tree.id

/-! ## hypotheses about the processing order (facts about `argsort`, checked on every trace) -/

def sortedDesc (val : Nat → Int) : List Nat → Bool
  | [] => true
  | [_] => true
  | a :: b :: rest => decide (val b ≤ val a) && sortedDesc val (b :: rest)

def nodupB : List Nat → Bool
  | [] => true
  | a :: rest => !rest.contains a && nodupB rest
