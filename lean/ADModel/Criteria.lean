import ADModel.Compute
/-!
# ADModel.Criteria — `astrodendro.pruning` : min_delta, min_npix, min_peak, min_sum,
contains_seeds, all_true, in the three calling modes of pruning.py:84-91

* merge time  : `f(structure, index=p, value=v)`
* orphan      : `f(structure)` with `structure.parent is None`
* child       : `f(structure)` with a parent (post-hoc, used by `prune`)

Thresholds are scaled like the data (exact integers).  `contains_seeds` ravels the structure's
pixels in *clip* mode into a box one larger than the largest seed coordinate, so a pixel
outside the box can never collide with a seed: membership of the pixel in the seed list is what
is computed (seeds are given as flat indices of the data array).
-/
open Tree

inductive Crit where
  | minDelta (d : Int)
  | minNpix (n : Nat)
  | minPeak (v : Int)
  | minSum (s : Int)
  | seeds (ps : List Nat)
deriving Repr, Inhabited

def sumVals (val : Nat → Int) (ps : List Nat) : Int := (ps.map val).foldl (· + ·) 0

namespace Crit

def atMerge (val : Nat → Int) (c : Crit) (t : Tree) (v : Int) : Bool :=
  match c with
  | minDelta d => decide (d ≤ t.vmax val - v)
  | minNpix n  => decide (n ≤ t.pixels.length)
  | minPeak x  => decide (x ≤ t.vmax val)
  | minSum s   => decide (s ≤ sumVals val t.pixels)
  | seeds ps   => t.pixels.any (fun p => ps.contains p)

def orphan (val : Nat → Int) (c : Crit) (t : Tree) : Bool :=
  match c with
  | minDelta d => decide (d ≤ t.vmax val - t.vmin val)
  | minNpix n  => decide (n ≤ t.pixels.length)
  | minPeak x  => decide (x ≤ t.vmax val)
  | minSum s   => decide (s ≤ sumVals val t.pixels)
  | seeds ps   => t.pixels.any (fun p => ps.contains p)

def child (val : Nat → Int) (c : Crit) (parent t : Tree) : Bool :=
  match c with
  | minDelta d => decide (d ≤ t.height val - parent.height val)
  | minNpix n  => decide (n ≤ t.pixels.length)
  | minPeak x  => decide (x ≤ t.vmax val)
  | minSum s   => decide (s ≤ sumVals val t.pixels)
  | seeds ps   => t.pixels.any (fun p => ps.contains p)

end Crit

/-- `all_true` -/
def allMerge (val : Nat → Int) (cs : List Crit) (t : Tree) (_p : Nat) (v : Int) : Bool :=
  cs.all (fun c => c.atMerge val t v)
def allOrphan (val : Nat → Int) (cs : List Crit) (t : Tree) : Bool := cs.all (fun c => c.orphan val t)
def allChild (val : Nat → Int) (cs : List Crit) (parent t : Tree) : Bool :=
  cs.all (fun c => c.child val parent t)

/-- the environment `compute(data, min_delta, min_npix, is_independent=cs)` builds -/
def envOf (val : Nat → Int) (nbrs : Nat → List Nat) (cs : List Crit) : Env :=
  { val := val, nbrs := nbrs, indep := allMerge val cs, indepOrphan := allOrphan val cs }
