/-!
# ADModel.Grid — flat C-order indices and the face adjacency of `Dendrogram.neighbours` /
`periodic_neighbours`

The implementation pads the label map by one cell per axis: coordinate `n` (and `-1`, which NumPy
reads as the last cell) land on a cell that is never written and therefore always reads "no
structure".  In the model an out-of-range neighbour is simply absent, unless the axis is declared
periodic, in which case `-1 ↦ n-1` and `n ↦ 0` (`_wrap`).
-/

namespace Grid

/-- coordinates of flat C-order index `p` in `shape` -/
def unravel : List Nat → Nat → List Nat
  | [], _ => []
  | _ :: rest, p =>
    let stride := rest.foldl (· * ·) 1
    (p / stride) :: unravel rest (p % stride)

/-- flat C-order index of coordinates `c` in `shape` -/
def ravel : List Nat → List Nat → Nat
  | [], _ => 0
  | _, [] => 0
  | _ :: rest, c :: cs => c * rest.foldl (· * ·) 1 + ravel rest cs

def size (shape : List Nat) : Nat := shape.foldl (· * ·) 1

/-- neighbours of one coordinate along one axis of length `n`: `c+1`, `c-1`,
    wrapped if `periodic`, dropped if out of range -/
def axisNbrs (n : Nat) (periodic : Bool) (c : Nat) : List Nat :=
  let up := if c + 1 < n then [c + 1] else if periodic then [0] else []
  let dn := if 0 < c then [c - 1] else if periodic && 0 < n then [n - 1] else []
  up ++ dn

/-- replace element `i` of a list -/
def setAt (l : List Nat) (i : Nat) (v : Nat) : List Nat := l.set i v

/-- neighbours in coordinates: one axis moved by ±1 -/
def nbrsC (shape : List Nat) (periodic : List Nat) (c : List Nat) : List (List Nat) :=
  (List.range shape.length).flatMap fun a =>
    (axisNbrs (shape.getD a 0) (periodic.contains a) (c.getD a 0)).map (setAt c a)

/-- neighbours of flat index `p` -/
def nbrs (shape : List Nat) (periodic : List Nat) (p : Nat) : List Nat :=
  (nbrsC shape periodic (unravel shape p)).map (ravel shape)

end Grid
