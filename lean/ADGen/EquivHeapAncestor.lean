import ADProofs
import ADGen.Gen
/-!
# ADGen.EquivHeapAncestor — the generated `Structure.ancestor` equals the model's `Heap.ancestor`

`Gen.h_ancestor` (+ its loop `Gen.h_ancestor.loop1`) versus `Heap.ancestor` / `Heap.walkAnc`.

The Python loop overwrites `self._ancestor` in every iteration; the model's `walkAnc` walks on the unmodified heap
and writes once at the end.  They agree when the walk never comes back to `self` and stays on existing objects
(`Anc.Avoids`), which holds in every well-formed heap with sound caches (`Anc.avoids_of_rank`).

One more difference: when `self._ancestor` is already cached and parentless, the Python code writes nothing, while the
model re-writes the cache (`h.update i …`, which touches *every* object of `objs` carrying the identifier `i`).  These
are the same heap exactly when all objects named `i` are the one `Heap.get` finds (`Anc.OneObj h i`, implied by
duplicate-free identifiers).  `P17.WF` only speaks through `Heap.get`, so this is an explicit hypothesis;
`Anc.cex_total` shows it cannot be dropped.  `h_ancestor_eq'` is the statement without that hypothesis.
-/

namespace GenEq.Anc
open Heap

/-! ## `setAnc` and the getters -/

theorem get_setAnc (h : Heap) (i : Nat) (v : Option Nat) (j : Nat) :
    (h.setAnc i v).get j = if j = i then (h.get i).map (fun o => { o with anc := v }) else h.get j :=
  P17.get_update h i (fun o => { o with anc := v }) (fun _ => rfl) j

/-- two assignments to the same field of the same object: the last one wins -/
theorem setAnc_setAnc (h : Heap) (i : Nat) (v w : Option Nat) : (h.setAnc i v).setAnc i w = h.setAnc i w := by
  unfold Heap.setAnc Heap.update
  simp only [List.map_map, Heap.mk.injEq, and_true]
  apply List.map_congr_left
  intro o _
  simp only [Function.comp]
  by_cases hi : o.id == i <;> simp [hi]

theorem fAnc_setAnc_self (h : Heap) (i : Nat) (v : Option Nat) (hi : (h.get i).isSome) :
    (h.setAnc i v).fAnc i = v := by
  obtain ⟨o, hg⟩ := Option.isSome_iff_exists.1 hi
  simp [Heap.fAnc, get_setAnc, hg]

theorem get_isSome_of_fAnc {h : Heap} {i a : Nat} (ha : h.fAnc i = some a) : (h.get i).isSome := by
  unfold Heap.fAnc at ha
  cases hg : h.get i with
  | none => simp [hg] at ha
  | some o => rfl

/-- identifier `i` names one object: every object of `objs` carrying it is the one `get` finds -/
def OneObj (h : Heap) (i : Nat) : Prop := ∀ o ∈ h.objs, o.id = i → h.get i = some o

theorem oneObj_of_nodup {h : Heap} (hu : (h.objs.map (·.id)).Nodup) (i : Nat) : OneObj h i := by
  intro o ho hid
  unfold Heap.get
  generalize h.objs = l at hu ho
  induction l with
  | nil => simp at ho
  | cons a l ih =>
    simp only [List.map_cons, List.nodup_cons] at hu
    simp only [List.find?_cons]
    by_cases hai : a.id = i
    · rcases List.mem_cons.1 ho with rfl | ho'
      · simp [hid]
      · exact absurd (List.mem_map.2 ⟨o, ho', by rw [hid, hai]⟩) hu.1
    · rcases List.mem_cons.1 ho with rfl | ho'
      · exact absurd hid hai
      · simp only [show (a.id == i) = false from by simpa using hai]
        exact ih hu.2 ho'

/-- updating with a function that fixes every object named `i` changes nothing -/
theorem update_self (h : Heap) (i : Nat) (f : Obj → Obj) (hf : ∀ o ∈ h.objs, o.id = i → f o = o) :
    h.update i f = h := by
  unfold Heap.update
  cases h with | mk objs alive =>
  simp only [Heap.mk.injEq, and_true]
  conv => rhs; rw [← List.map_id objs]
  apply List.map_congr_left
  intro o ho
  by_cases hi : o.id = i
  · simp [hi, hf o ho hi]
  · simp [hi]

/-! ## the walk -/

/-- the walk of `walkAnc` from `a` (cached ancestor if present, else parent) stays on existing objects, ends, and
    never visits `i` -/
inductive Avoids (h : Heap) (i : Nat) : Nat → Prop
  | root {a ao} : a ≠ i → h.get a = some ao → ao.parent = none → Avoids h i a
  | step {a ao ap} : a ≠ i → h.get a = some ao → ao.parent = some ap → Avoids h i (ao.anc.getD ap) → Avoids h i a

/-- what `walkAnc` returns is an existing parentless object -/
theorem walkAnc_root {h : Heap} {fuel a r : Nat} (hr : h.walkAnc fuel a = some r) :
    ∃ ro, h.get r = some ro ∧ ro.parent = none := by
  induction fuel generalizing a with
  | zero => simp [Heap.walkAnc] at hr
  | succ fuel ih =>
    unfold Heap.walkAnc at hr
    cases hg : h.get a with
    | none => simp [hg] at hr
    | some ao =>
      simp only [hg] at hr
      cases hp : ao.parent with
      | none =>
        simp only [hp, Option.some.injEq] at hr
        subst hr
        exact ⟨ao, hg, hp⟩
      | some ap =>
        simp only [hp] at hr
        cases hc : ao.anc with
        | none => simp only [hc] at hr; exact ih hr
        | some aa => simp only [hc] at hr; exact ih hr

/-- `walkAnc` follows `anc.getD parent` -/
theorem walkAnc_step {h : Heap} {a ap : Nat} {ao : Obj} (hg : h.get a = some ao) (hp : ao.parent = some ap)
    (fuel : Nat) : h.walkAnc (fuel + 1) a = h.walkAnc fuel (ao.anc.getD ap) := by
  rw [Heap.walkAnc]
  simp only [hg, hp]
  cases ao.anc <;> rfl

theorem walkAnc_stop {h : Heap} {a : Nat} {ao : Obj} (hg : h.get a = some ao) (hp : ao.parent = none)
    (fuel : Nat) : h.walkAnc (fuel + 1) a = some a := by
  rw [Heap.walkAnc]
  simp only [hg, hp]

/-- the generated loop, started on any heap `h'` that is `h` up to the `_ancestor` of `i` (currently `a`), returns
    `h'` itself if it does not iterate and otherwise `h` with the cache of `i` set to what `walkAnc` finds -/
theorem loop_eq (h : Heap) (i : Nat) {a : Nat} (hw : Avoids h i a) :
    ∀ (fuel : Nat) (h' : Heap), (∀ j, j ≠ i → h'.get j = h.get j) → h'.fAnc i = some a →
      (∀ v, h'.setAnc i v = h.setAnc i v) →
      Gen.h_ancestor.loop1 fuel h' i =
        (h.walkAnc fuel a).map (fun r => if r = a then h' else h.setAnc i (some r)) := by
  induction hw with
  | @root a ao hne hg hp =>
    intro fuel h' hj ha hv
    cases fuel with
    | zero => simp [Gen.h_ancestor.loop1, Heap.walkAnc]
    | succ fuel =>
      have hpa : h'.fParent a = none := by simp [Heap.fParent, hj _ hne, hg, hp]
      rw [walkAnc_stop hg hp, Gen.h_ancestor.loop1]
      simp [ha, hpa]
  | @step a ao ap hne hg hp _ ih =>
    intro fuel h' hj ha hv
    cases fuel with
    | zero => simp [Gen.h_ancestor.loop1, Heap.walkAnc]
    | succ fuel =>
      have hpa : h'.fParent a = some ap := by simp [Heap.fParent, hj _ hne, hg, hp]
      have haa : h'.fAnc a = ao.anc := by simp [Heap.fAnc, hj _ hne, hg]
      have hi' : (h'.get i).isSome := get_isSome_of_fAnc ha
      -- one iteration: the cache of `i` becomes `ao.anc.getD ap`
      have hstep : Gen.h_ancestor.loop1 (fuel + 1) h' i =
          Gen.h_ancestor.loop1 fuel (h'.setAnc i (some (ao.anc.getD ap))) i := by
        rw [Gen.h_ancestor.loop1]
        simp only [ha, hpa, haa, Option.isSome_some, if_true]
        cases hc : ao.anc <;> simp
      rw [hstep, walkAnc_step hg hp]
      rw [ih fuel (h'.setAnc i (some (ao.anc.getD ap)))
        (fun j hji => by rw [get_setAnc, if_neg hji]; exact hj j hji)
        (fAnc_setAnc_self _ _ _ hi')
        (fun v => by rw [setAnc_setAnc]; exact hv v)]
      cases hwk : h.walkAnc fuel (ao.anc.getD ap) with
      | none => rfl
      | some r =>
        obtain ⟨ro, hgr, hpr⟩ := walkAnc_root hwk
        have hra : r ≠ a := by
          intro e; subst e; rw [hg] at hgr; cases hgr; rw [hp] at hpr; cases hpr
        simp only [Option.map_some, if_neg hra, Option.some.injEq]
        split
        · rename_i e; rw [hv, e]
        · rfl

/-! ## the query -/

/-- the generated query without any assumption on duplicate identifiers: the cache is written unless it already held
    a parentless object -/
theorem h_ancestor_eq' (h : Heap) (fuel i : Nat) (o : Obj) (hg : h.get i = some o)
    (hw : ∀ p, o.parent = some p → Avoids h i (o.anc.getD p)) :
    Gen.h_ancestor h fuel i =
      match o.parent with
      | none => some (h, some i)
      | some p => (h.walkAnc fuel (o.anc.getD p)).map fun r =>
          (if o.anc = some r then h else h.update i (fun o => { o with anc := some r }), some r) := by
  have hfp : h.fParent i = o.parent := by simp [Heap.fParent, hg]
  have hfa : h.fAnc i = o.anc := by simp [Heap.fAnc, hg]
  have hi : (h.get i).isSome := by simp [hg]
  unfold Gen.h_ancestor
  cases hp : o.parent with
  | none => simp [hfp, hp]
  | some p =>
    have hav := hw p hp
    simp only [hfp, hp, hfa]
    cases hc : o.anc with
    | none =>
      rw [hc] at hav
      simp only [Option.getD_none] at hav ⊢
      have := loop_eq h i hav fuel (h.setAnc i (some p))
        (fun j hji => by rw [get_setAnc, if_neg hji])
        (fAnc_setAnc_self _ _ _ hi)
        (fun v => setAnc_setAnc _ _ _ _)
      simp only [Option.isSome_none, Option.isNone_none, Bool.not_false, Option.isNone_some, Bool.false_eq_true, if_false, if_true]
      rw [this]
      cases hwk : h.walkAnc fuel p with
      | none => rfl
      | some r =>
        have e : (if r = p then h.setAnc i (some p) else h.setAnc i (some r)) = h.setAnc i (some r) := by
          split
          · rename_i e; rw [e]
          · rfl
        simp only [Option.map_some, e, fAnc_setAnc_self _ _ _ hi, reduceCtorEq, if_false]
        rfl
    | some a =>
      rw [hc] at hav
      simp only [Option.getD_some] at hav ⊢
      have := loop_eq h i hav fuel h (fun _ _ => rfl) (by rw [hfa, hc]) (fun _ => rfl)
      simp only [Option.isSome_some, Bool.not_true, Option.isNone_some, Bool.false_eq_true, if_false]
      rw [this]
      cases hwk : h.walkAnc fuel a with
      | none => rfl
      | some r =>
        simp only [Option.map_some, Option.some.injEq]
        by_cases e : r = a
        · subst e; simp [hfa, hc]
        · have e' : ¬ a = r := fun x => e x.symm
          simp only [if_neg e, if_neg e', fAnc_setAnc_self _ _ _ hi]
          rfl

/-- in a well-formed heap with sound caches every object of smaller rank than `i` starts a walk that avoids `i` -/
theorem avoids_of_rank {h : Heap} (w : P17.WF h) (hs : P17.Sound h) {rk} (hr : P17.RankOK h rk) (i : Nat) :
    ∀ (n a : Nat), a ∈ h.alive → rk a < n → rk a < rk i → Avoids h i a := by
  intro n
  induction n with
  | zero => intro a _ hn; omega
  | succ n ih =>
    intro a ha hn hai
    obtain ⟨ao, hg⟩ := w.alive_get a ha
    have hne : a ≠ i := by intro e; subst e; omega
    cases hp : ao.parent with
    | none => exact .root hne hg hp
    | some ap =>
      have t : P17.Reach h a (ao.anc.getD ap) := by
        cases hc : ao.anc with
        | none => exact .one hg hp
        | some aa => have := (hs a ha ao hg).anc aa hc; rw [P17.get_id hg] at this; simpa using this
      have := t.alive_rank w hr ha
      exact .step hne hg hp (ih _ this.1 (by omega) (by omega))

/-- in a well-formed heap with sound caches the walk of an alive `i` avoids `i` -/
theorem avoids_start {h : Heap} (w : P17.WF h) (hs : P17.Sound h) {i : Nat} (hi : i ∈ h.alive) {o : Obj}
    (hg : h.get i = some o) : ∀ p, o.parent = some p → Avoids h i (o.anc.getD p) := by
  intro p hp
  obtain ⟨rk, hr⟩ := w.rank
  have t : P17.Reach h i (o.anc.getD p) := by
    cases hc : o.anc with
    | none => exact .one hg hp
    | some a => have := (hs i hi o hg).anc a hc; rw [P17.get_id hg] at this; simpa using this
  have := t.alive_rank w hr hi
  exact avoids_of_rank w hs hr i _ _ this.1 (Nat.lt_succ_self _) this.2

/-- without any assumption on duplicate identifiers: in every well-formed heap with sound caches the generated query
    succeeds with the model's answer and a heap that `get` cannot tell from the model's (same `objs` length, same
    `alive`) -/
theorem h_ancestor_total_get (h : Heap) (i : Nat) (hwf : P17.WF h) (hs : P17.Sound h) (hi : i ∈ h.alive) :
    ∃ h', Gen.h_ancestor h h.size i = some (h', (Heap.ancestor h h.size i).2) ∧
      (∀ j, h'.get j = (Heap.ancestor h h.size i).1.get j) ∧ h'.alive = (Heap.ancestor h h.size i).1.alive ∧
      h'.size = (Heap.ancestor h h.size i).1.size := by
  obtain ⟨o, hg⟩ := hwf.alive_get i hi
  obtain ⟨rk, hr⟩ := hwf.rank
  rw [h_ancestor_eq' h h.size i o hg (avoids_start hwf hs hi hg)]
  unfold Heap.ancestor
  simp only [hg]
  cases hp : o.parent with
  | none => exact ⟨h, rfl, fun _ => rfl, rfl, rfl⟩
  | some p =>
    simp only []
    have t : P17.Reach h i (o.anc.getD p) := by
      cases hc : o.anc with
      | none => exact .one hg hp
      | some a => have := (hs i hi o hg).anc a hc; rw [P17.get_id hg] at this; simpa using this
    have har := t.alive_rank hwf hr hi
    obtain ⟨r, h1, _⟩ := P17.walkAnc_spec hwf hs hr h.size _ har.1 (by have := (hr i hi o hg).1; omega)
    simp only [h1, Option.map_some]
    refine ⟨_, rfl, ?_, ?_, ?_⟩
    · intro j
      split
      · rename_i hc
        show _ = (h.setAnc i (some r)).get j
        rw [get_setAnc]
        split
        · rename_i e
          subst e
          rw [hg]
          cases o
          simp only at hc
          simp [hc]
        · rfl
      · rfl
    · split <;> rfl
    · split
      · simp
      · rfl

/-- a well-formed sound heap with a duplicated identifier on which the generated query and the model differ as
    heaps (the model re-writes the shadowed duplicate's cache, the Python code writes nothing) -/
def cexHeap : Heap :=
  { objs := [ { id := 0, kids := [1], lvl := some 0 }, { id := 1, parent := some 0, anc := some 0 },
              { id := 1, parent := some 0 } ],
    alive := [0, 1] }

theorem cexHeap_wf : P17.WF cexHeap := by
  have k : ∀ i ∈ cexHeap.alive, (cexHeap.get i).isSome = true := by decide
  refine ⟨by decide, fun i hi => Option.isSome_iff_exists.1 (k i hi), by decide, by decide, by decide, ⟨id, ?_⟩⟩
  unfold P17.RankOK; decide

theorem cexHeap_sound : P17.Sound cexHeap := by
  have key : ∀ i ∈ cexHeap.alive, ∀ o, cexHeap.get i = some o → (∀ a, o.anc = some a → o.id = 1 ∧ a = 0) ∧
      o.desc = none ∧ o.nw = none ∧ (o.parent = none → o.lvl = some 0) ∧
      (∀ l, o.lvl = some l → cexHeap.specLevel cexHeap.size o.id = some l) := by
    decide
  intro i hi o hg
  obtain ⟨k1, k2, k3, k4, k5⟩ := key i hi o hg
  refine ⟨k5, ?_, by simp [k2], by simp [k3], k4⟩
  intro a ha
  obtain ⟨e1, e2⟩ := k1 a ha
  rw [e1, e2]
  exact .one (i := 1) (o := { id := 1, parent := some 0, anc := some 0 }) (by decide) rfl

theorem cex_total : P17.WF cexHeap ∧ P17.Sound cexHeap ∧ 1 ∈ cexHeap.alive ∧
    (Gen.h_ancestor cexHeap cexHeap.size 1).map (fun r => (r.1.objs, r.2)) ≠
      some ((Heap.ancestor cexHeap cexHeap.size 1).1.objs, (Heap.ancestor cexHeap cexHeap.size 1).2) :=
  ⟨cexHeap_wf, cexHeap_sound, by decide, by decide⟩

end GenEq.Anc

namespace GenEq
open Heap

/-- fuel-generic: if `i` exists and names one object, and the walk from its start object (cached ancestor, else
    parent) stays on existing objects and never visits `i`, the generated query is the model's (failing exactly
    when the model's walk runs out of fuel) -/
theorem h_ancestor_eq (h : Heap) (fuel i : Nat) (hi : (h.get i).isSome)
    (hw : ∀ p, h.fParent i = some p → Anc.Avoids h i ((h.fAnc i).getD p))
    (hu : Anc.OneObj h i) :
    Gen.h_ancestor h fuel i =
      match Heap.ancestor h fuel i with
      | (h', some r) => some (h', some r)
      | (_, none) => none := by
  obtain ⟨o, hg⟩ := Option.isSome_iff_exists.1 hi
  have hfp : h.fParent i = o.parent := by simp [Heap.fParent, hg]
  have hfa : h.fAnc i = o.anc := by simp [Heap.fAnc, hg]
  rw [hfp, hfa] at hw
  rw [Anc.h_ancestor_eq' h fuel i o hg hw]
  unfold Heap.ancestor
  simp only [hg]
  cases hp : o.parent with
  | none => rfl
  | some p =>
    simp only []
    cases hwk : h.walkAnc fuel (o.anc.getD p) with
    | none => rfl
    | some r =>
      simp only [Option.map_some]
      split
      · rename_i hc
        rw [Anc.update_self]
        intro o' ho' hid
        have := hu o' ho' hid
        rw [hg] at this
        cases this
        cases o
        simp only at hc
        simp [hc]
      · rfl

/-- in every well-formed heap with sound caches (whose identifiers name one object each: see `Anc.cex_total`) the
    ancestor query generated from `Structure.ancestor`, run with the fuel the history machine uses, succeeds and is
    exactly the model's step (same new heap, same answer) -/
theorem h_ancestor_total (h : Heap) (i : Nat) (hwf : P17.WF h) (hs : P17.Sound h) (hi : i ∈ h.alive)
    (hu : (h.objs.map (·.id)).Nodup) :
    Gen.h_ancestor h h.size i = some (Heap.ancestor h h.size i) := by
  obtain ⟨o, hg⟩ := hwf.alive_get i hi
  obtain ⟨rk, hr⟩ := hwf.rank
  have hw : ∀ p, h.fParent i = some p → Anc.Avoids h i ((h.fAnc i).getD p) := by
    intro p hp
    have hfp : h.fParent i = o.parent := by simp [Heap.fParent, hg]
    have hfa : h.fAnc i = o.anc := by simp [Heap.fAnc, hg]
    rw [hfp] at hp
    rw [hfa]
    exact Anc.avoids_start hwf hs hi hg p hp
  rw [h_ancestor_eq h h.size i (by simp [hg]) hw (Anc.oneObj_of_nodup hu i)]
  have h1 := (P17.ancestor_sound h i hwf hs hi).1
  obtain ⟨r, h2⟩ := P17.specRoot_isSome hwf hr h.size i hi (hr i hi o hg).1
  rw [h2] at h1
  generalize Heap.ancestor h h.size i = res at h1
  obtain ⟨h', x⟩ := res
  simp only at h1
  subst h1
  rfl

end GenEq

#print axioms GenEq.h_ancestor_eq
#print axioms GenEq.h_ancestor_total
#print axioms GenEq.Anc.h_ancestor_eq'
#print axioms GenEq.Anc.h_ancestor_total_get
#print axioms GenEq.Anc.cex_total
