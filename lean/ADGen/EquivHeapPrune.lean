import ADProofs
import ADGen.Gen
/-!
# ADGen.EquivHeapPrune — the generated object-heap pieces of `prune` equal the model's `Heap.prune`

`Gen.h_reset_cache`, `Gen.h_prune_merge` (+ callees), `Gen.h_prune_reset`, `Gen.h_make_trunk` versus
`Heap.resetCache`, `Heap.mergeWithParent`, `Heap.finishPrune`, `Heap.prune`.

The generated code reads a field of *the* object named by an identifier (`Heap.get` = the first object of `objs`
with that identifier) and writes it to *every* object with that identifier (`Heap.update`); the model computes
the new field from each object separately.  The two agree as heaps exactly when identifiers name one object:
`UniqIds h`.  This is not part of `P17.WF` (which only speaks through `Heap.get`), so it is an explicit
hypothesis of the theorems that need it; `cex_merge`, `cex_finish` below show that it cannot be dropped.
-/

namespace GenEq
open Heap

/-! ## identifiers, extensionality -/

/-- identifiers of the objects, in heap order -/
def ids (h : Heap) : List Nat := h.objs.map (·.id)

/-- every identifier names at most one object of the heap -/
def UniqIds (h : Heap) : Prop := (ids h).Nodup

theorem objs_ext : ∀ (l1 l2 : List Obj), (l1.map (·.id)).Nodup → l1.map (·.id) = l2.map (·.id) →
    (∀ x, l1.find? (fun o => o.id == x) = l2.find? (fun o => o.id == x)) → l1 = l2
  | [], [], _, _, _ => rfl
  | [], _ :: _, _, h, _ => by simp at h
  | _ :: _, [], _, h, _ => by simp at h
  | a :: t1, b :: t2, hnd, hid, hf => by
    simp only [List.map_cons, List.cons.injEq] at hid
    simp only [List.map_cons, List.nodup_cons] at hnd
    have hab : a = b := by
      have := hf a.id
      simp only [List.find?_cons, beq_self_eq_true, ← hid.1] at this
      exact Option.some.inj this
    subst hab
    have ht : t1 = t2 := by
      refine objs_ext t1 t2 hnd.2 hid.2 (fun x => ?_)
      by_cases hx : a.id = x
      · subst hx
        have h1 : t1.find? (fun o => o.id == a.id) = none := by
          rw [List.find?_eq_none]
          intro o ho hc
          exact hnd.1 (List.mem_map.2 ⟨o, ho, by simpa using hc⟩)
        have h2 : t2.find? (fun o => o.id == a.id) = none := by
          rw [List.find?_eq_none]
          intro o ho hc
          refine hnd.1 ?_
          rw [hid.2]
          exact List.mem_map.2 ⟨o, ho, by simpa using hc⟩
        rw [h1, h2]
      · have := hf x
        simpa only [List.find?_cons, show (a.id == x) = false from by simpa using hx] using this
    rw [ht]

/-- heaps whose identifiers name one object each are determined by `get`, the order of identifiers, and `alive` -/
theorem heap_ext {h1 h2 : Heap} (hu : UniqIds h1) (hi : ids h1 = ids h2) (ha : h1.alive = h2.alive)
    (hg : ∀ x, h1.get x = h2.get x) : h1 = h2 := by
  cases h1 with | mk o1 a1 =>
  cases h2 with | mk o2 a2 =>
  simp only at ha
  subst ha
  have : o1 = o2 := objs_ext o1 o2 hu hi hg
  rw [this]

/-! ## `update`, getters, setters -/

theorem ids_update (h : Heap) (i : Nat) (f : Obj → Obj) (hf : ∀ o, (f o).id = o.id) :
    ids (h.update i f) = ids h := by
  unfold ids Heap.update
  simp only [List.map_map]
  apply List.map_congr_left
  intro o _
  simp only [Function.comp]
  split <;> simp [hf]

theorem update_update (h : Heap) (i : Nat) (f g : Obj → Obj) (hf : ∀ o, (f o).id = o.id) :
    (h.update i f).update i g = h.update i (g ∘ f) := by
  unfold Heap.update
  simp only [List.map_map, Heap.mk.injEq, and_true]
  apply List.map_congr_left
  intro o _
  simp only [Function.comp]
  by_cases hi : o.id == i <;> simp [hi, hf]

theorem update_congr (h : Heap) (i : Nat) (f g : Obj → Obj) (hfg : ∀ o, f o = g o) :
    h.update i f = h.update i g := by
  have : f = g := funext hfg
  rw [this]

/-- the four cache assignments of `_reset_cache` (in any of its generated copies) -/
theorem reset_eq (h : Heap) (i : Nat) :
    (((h.setLvl i none).setAnc i none).setDesc i none).setNw i none = h.update i Heap.resetCache := by
  simp only [Heap.setLvl, Heap.setAnc, Heap.setDesc, Heap.setNw]
  rw [update_update, update_update, update_update]
  · rfl
  all_goals intro _; rfl

theorem get_setParent (h : Heap) (i : Nat) v (j : Nat) :
    (h.setParent i v).get j = if j = i then (h.get i).map (fun o => { o with parent := v }) else h.get j :=
  by apply P17.get_update; intro _; rfl
theorem ids_setParent (h : Heap) (i : Nat) v : ids (h.setParent i v) = ids h := by
  apply ids_update; intro _; rfl
theorem alive_setParent (h : Heap) (i : Nat) v : (h.setParent i v).alive = h.alive := rfl
theorem get_setKids (h : Heap) (i : Nat) v (j : Nat) :
    (h.setKids i v).get j = if j = i then (h.get i).map (fun o => { o with kids := v }) else h.get j :=
  by apply P17.get_update; intro _; rfl
theorem ids_setKids (h : Heap) (i : Nat) v : ids (h.setKids i v) = ids h := by
  apply ids_update; intro _; rfl
theorem alive_setKids (h : Heap) (i : Nat) v : (h.setKids i v).alive = h.alive := rfl
theorem get_setOwn (h : Heap) (i : Nat) v (j : Nat) :
    (h.setOwn i v).get j = if j = i then (h.get i).map (fun o => { o with own := v }) else h.get j :=
  by apply P17.get_update; intro _; rfl
theorem ids_setOwn (h : Heap) (i : Nat) v : ids (h.setOwn i v) = ids h := by
  apply ids_update; intro _; rfl
theorem alive_setOwn (h : Heap) (i : Nat) v : (h.setOwn i v).alive = h.alive := rfl
theorem get_setLvl (h : Heap) (i : Nat) v (j : Nat) :
    (h.setLvl i v).get j = if j = i then (h.get i).map (fun o => { o with lvl := v }) else h.get j :=
  by apply P17.get_update; intro _; rfl
theorem ids_setLvl (h : Heap) (i : Nat) v : ids (h.setLvl i v) = ids h := by
  apply ids_update; intro _; rfl
theorem alive_setLvl (h : Heap) (i : Nat) v : (h.setLvl i v).alive = h.alive := rfl
theorem get_setAnc (h : Heap) (i : Nat) v (j : Nat) :
    (h.setAnc i v).get j = if j = i then (h.get i).map (fun o => { o with anc := v }) else h.get j :=
  by apply P17.get_update; intro _; rfl
theorem ids_setAnc (h : Heap) (i : Nat) v : ids (h.setAnc i v) = ids h := by
  apply ids_update; intro _; rfl
theorem alive_setAnc (h : Heap) (i : Nat) v : (h.setAnc i v).alive = h.alive := rfl
theorem get_setDesc (h : Heap) (i : Nat) v (j : Nat) :
    (h.setDesc i v).get j = if j = i then (h.get i).map (fun o => { o with desc := v }) else h.get j :=
  by apply P17.get_update; intro _; rfl
theorem ids_setDesc (h : Heap) (i : Nat) v : ids (h.setDesc i v) = ids h := by
  apply ids_update; intro _; rfl
theorem alive_setDesc (h : Heap) (i : Nat) v : (h.setDesc i v).alive = h.alive := rfl
theorem get_setNw (h : Heap) (i : Nat) v (j : Nat) :
    (h.setNw i v).get j = if j = i then (h.get i).map (fun o => { o with nw := v }) else h.get j :=
  by apply P17.get_update; intro _; rfl
theorem ids_setNw (h : Heap) (i : Nat) v : ids (h.setNw i v) = ids h := by
  apply ids_update; intro _; rfl
theorem alive_setNw (h : Heap) (i : Nat) v : (h.setNw i v).alive = h.alive := rfl
theorem get_delAlive (h : Heap) (i j : Nat) : (h.delAlive i).get j = h.get j := rfl
theorem ids_delAlive (h : Heap) (i : Nat) : ids (h.delAlive i) = ids h := rfl
theorem alive_delAlive (h : Heap) (i : Nat) : (h.delAlive i).alive = h.alive.erase i := rfl

theorem get_update_reset (h : Heap) (i j : Nat) :
    (h.update i Heap.resetCache).get j = if j = i then (h.get i).map Heap.resetCache else h.get j := by
  apply P17.get_update; intro _; rfl
theorem ids_update_reset (h : Heap) (i : Nat) : ids (h.update i Heap.resetCache) = ids h := by
  apply ids_update; intro _; rfl

@[simp] theorem resetCache_id (o : Obj) : (Heap.resetCache o).id = o.id := rfl
@[simp] theorem resetCache_parent (o : Obj) : (Heap.resetCache o).parent = o.parent := rfl
@[simp] theorem resetCache_kids (o : Obj) : (Heap.resetCache o).kids = o.kids := rfl
@[simp] theorem resetCache_own (o : Obj) : (Heap.resetCache o).own = o.own := rfl

/-- a loop of single-object updates by an idempotent function -/
theorem get_foldl_upd (g : Heap → Nat → Heap) (f : Obj → Obj)
    (hg : ∀ h i x, (g h i).get x = if x = i then (h.get i).map f else h.get x)
    (hf : ∀ o, f (f o) = f o) (l : List Nat) (h : Heap) (x : Nat) :
    (l.foldl g h).get x = if x ∈ l then (h.get x).map f else h.get x := by
  induction l generalizing h with
  | nil => simp
  | cons c l ih =>
    simp only [List.foldl_cons, ih, hg, List.mem_cons]
    by_cases hxc : x = c
    · subst hxc
      by_cases hl : x ∈ l
      · cases h.get x <;> simp [hl, hf]
      · simp [hl]
    · simp [hxc]

theorem foldl_inv {α : Type} (P : Heap → α) (g : Heap → Nat → Heap) (hg : ∀ h i, P (g h i) = P h)
    (l : List Nat) (h : Heap) : P (l.foldl g h) = P h := by
  induction l generalizing h with
  | nil => rfl
  | cons c l ih => simp only [List.foldl_cons, ih, hg]

theorem heap_ext' {a b : Heap} (h : Heap) (hu : UniqIds h) (hia : ids a = ids h) (hib : ids b = ids h)
    (hal : a.alive = b.alive) (hg : ∀ x, a.get x = b.get x) : a = b :=
  heap_ext (by unfold UniqIds; rw [hia]; exact hu) (hia.trans hib.symm) hal hg

theorem get_foldl_setParent (p : Nat) (ks : List Nat) (h : Heap) (x : Nat) :
    (ks.foldl (fun h c => h.setParent c (some p)) h).get x =
      if x ∈ ks then (h.get x).map (fun co => { co with parent := some p }) else h.get x :=
  get_foldl_upd _ _ (fun h i x => get_setParent h i (some p) x) (fun _ => rfl) ks h x

theorem ids_foldl_setParent (p : Nat) (ks : List Nat) (h : Heap) :
    ids (ks.foldl (fun h c => h.setParent c (some p)) h) = ids h :=
  foldl_inv ids _ (fun h i => ids_setParent h i (some p)) ks h

theorem alive_foldl_setParent (p : Nat) (ks : List Nat) (h : Heap) :
    (ks.foldl (fun h c => h.setParent c (some p)) h).alive = h.alive :=
  by
  induction ks generalizing h with
  | nil => rfl
  | cons c ks ih => simp only [List.foldl_cons, ih, alive_setParent]

theorem ids_mergeWithParent (h : Heap) (m : Nat) : ids (h.mergeWithParent m) = ids h := by
  unfold Heap.mergeWithParent
  split
  · rfl
  · split
    · rfl
    · rename_i mo _ _ p _
      have hf : ∀ (l : List Nat) (h' : Heap),
          ids (l.foldl (fun acc c => acc.update c (fun co => { co with parent := some p })) h') = ids h' := by
        intro l
        induction l with
        | nil => intro _; rfl
        | cons c l ih =>
          intro h'
          rw [List.foldl_cons, ih]
          apply ids_update; intro _; rfl
      show ids (List.foldl _ _ _) = _
      rw [hf, ids_update, ids_update] <;> (intro _; rfl)

theorem fKids_setOwn (h : Heap) (i : Nat) (v : List Nat) (j : Nat) : (h.setOwn i v).fKids j = h.fKids j := by
  simp only [Heap.fKids, get_setOwn]
  split
  · subst j; cases h.get i <;> rfl
  · rfl

theorem fKids_update_reset (h : Heap) (i j : Nat) : (h.update i Heap.resetCache).fKids j = h.fKids j := by
  simp only [Heap.fKids, get_update_reset]
  split
  · subst j; cases h.get i <;> rfl
  · rfl

/-! ## main theorems -/

/-- the cache assignments of `_reset_cache`, in whatever order the source makes them -/
macro "reset_tac" : tactic =>
  `(tactic| (simp only [Heap.setLvl, Heap.setAnc, Heap.setDesc, Heap.setNw]
             rw [update_update, update_update, update_update]
             · first
               | rfl
               | (apply update_congr; intro o; cases o; rfl)
             all_goals (intro _; rfl)))

/-- `Structure._reset_cache` -/
theorem h_reset_cache_eq (h : Heap) (i : Nat) : Gen.h_reset_cache h i = h.update i Heap.resetCache := by
  unfold Gen.h_reset_cache
  first
    | exact reset_eq h i
    | reset_tac

theorem merge_reset_eq (h : Heap) (i : Nat) :
    Gen.h_prune_merge__merge_with_parent__merge__reset_cache h i = h.update i Heap.resetCache := by
  unfold Gen.h_prune_merge__merge_with_parent__merge__reset_cache
  first
    | exact reset_eq h i
    | reset_tac

theorem prune_reset_eq (h : Heap) (i : Nat) :
    Gen.h_prune_reset__reset_cache h i = h.update i Heap.resetCache := by
  unfold Gen.h_prune_reset__reset_cache
  first
    | exact reset_eq h i
    | reset_tac

theorem fParent_some {h : Heap} {m p : Nat} (hp : h.fParent m = some p) :
    ∃ mo, h.get m = some mo ∧ mo.parent = some p := by
  unfold Heap.fParent at hp
  cases hg : h.get m with
  | none => simp [hg] at hp
  | some mo => exact ⟨mo, rfl, by simpa [hg] using hp⟩

theorem fKids_mem {h : Heap} {m p : Nat} (hk : m ∈ h.fKids p) :
    ∃ po, h.get p = some po ∧ m ∈ po.kids := by
  unfold Heap.fKids at hk
  cases hg : h.get p with
  | none => simp [hg] at hk
  | some po => exact ⟨po, rfl, by simpa [hg] using hk⟩

theorem h_prune_merge_eq (h : Heap) (m p : Nat) (hu : UniqIds h) (hp : h.fParent m = some p) (hne : p ≠ m)
    (hk : m ∈ h.fKids p) : Gen.h_prune_merge h m = some (h.mergeWithParent m) := by
  obtain ⟨mo, hgm, hmp⟩ := fParent_some hp
  obtain ⟨po, hgp, hmk⟩ := fKids_mem hk
  have hne' : m ≠ p := fun e => hne e.symm
  unfold Gen.h_prune_merge Gen.h_prune_merge__merge_with_parent Gen.h_prune_merge__merge_with_parent__merge
  simp only [hp, merge_reset_eq]
  simp only [Heap.fKids, Heap.fOwn, get_setOwn, get_setKids, get_update_reset, hgm, hgp, hne', if_true, if_false,
    Option.map_some, Option.getD_some, resetCache_kids, List.contains_iff_mem, hmk]
  have hget := fun x => P17.merge_get hgm hmp x
  have hal := P17.merge_alive hgm hmp
  have hids := ids_mergeWithParent h m
  by_cases hemp : mo.kids = []
  · simp only [hemp, List.isEmpty_nil, Bool.not_true, Bool.false_eq_true, if_false, Option.some.injEq]
    refine heap_ext' h hu ?_ hids ?_ (fun x => ?_)
    · simp only [ids_delAlive, ids_setKids, ids_update_reset, ids_setOwn]
    · rw [hal]; rfl
    · rw [hget]
      simp only [get_delAlive, get_setKids, get_update_reset, get_setOwn]
      by_cases hxp : x = p
      · subst hxp
        simp [hgp, P17.mergeF, hemp, Heap.resetCache]
      · cases h.get x <;> simp [hxp, P17.mergeF, hemp]
  · have hemp' : mo.kids.isEmpty = false := by simpa using hemp
    simp only [hemp', Bool.not_false, if_true, Option.some.injEq]
    refine heap_ext' h hu ?_ hids ?_ (fun x => ?_)
    · simp only [ids_delAlive, ids_foldl_setParent, ids_setKids, ids_update_reset, ids_setOwn]
    · rw [hal]; simp only [alive_delAlive, alive_foldl_setParent, alive_setKids, alive_setOwn, P17.update_alive]
    · rw [hget]
      simp only [get_delAlive, get_foldl_setParent, get_setKids, get_update_reset, get_setOwn]
      by_cases hxp : x = p
      · subst hxp
        by_cases hxk : x ∈ mo.kids <;> simp [hgp, P17.mergeF, hxk, Heap.resetCache]
      · cases h.get x <;> by_cases hxk : x ∈ mo.kids <;> simp [hxp, P17.mergeF, hxk]

/-- the Python raises (attribute of `None`, `list.remove` of an absent element) exactly when those conditions fail -/
theorem h_prune_merge_none (h : Heap) (m : Nat)
    (hbad : h.fParent m = none ∨ ∃ p, h.fParent m = some p ∧ m ∉ h.fKids p) :
    Gen.h_prune_merge h m = none := by
  unfold Gen.h_prune_merge Gen.h_prune_merge__merge_with_parent Gen.h_prune_merge__merge_with_parent__merge
  rcases hbad with hp | ⟨p, hp, hk⟩
  · simp only [hp]
  · simp only [hp, merge_reset_eq]
    simp only [fKids_update_reset, fKids_setOwn, List.contains_iff_mem, hk, if_false]

theorem get_prune_reset (h : Heap) (x : Nat) :
    (Gen.h_prune_reset h).get x = if x ∈ h.alive then (h.get x).map Heap.resetCache else h.get x := by
  unfold Gen.h_prune_reset
  exact get_foldl_upd (f := Heap.resetCache) _
    (fun h i x => by simp only [prune_reset_eq]; exact get_update_reset h i x) (fun _ => rfl) _ _ _

theorem ids_prune_reset (h : Heap) : ids (Gen.h_prune_reset h) = ids h := by
  unfold Gen.h_prune_reset
  exact foldl_inv ids _ (fun h i => by simp only [prune_reset_eq]; exact ids_update_reset h i) _ _

theorem alive_prune_reset (h : Heap) : (Gen.h_prune_reset h).alive = h.alive := by
  unfold Gen.h_prune_reset
  exact foldl_inv Heap.alive _ (fun h i => by simp only [prune_reset_eq]; rfl) _ _

theorem get_make_trunk (h : Heap) (x : Nat) :
    (Gen.h_make_trunk h).get x =
      if x ∈ h.alive ∧ (h.fParent x).isNone then (h.get x).map (fun o => { o with lvl := some 0 }) else h.get x := by
  unfold Gen.h_make_trunk
  have := get_foldl_upd (fun h i => h.setLvl i (some 0)) (fun o => { o with lvl := some 0 }) (fun h i x => get_setLvl h i (some 0) x) (fun _ => rfl)
    (h.alive.filter (fun s => (h.fParent s).isNone)) h x
  simpa only [List.mem_filter] using this

theorem ids_make_trunk (h : Heap) : ids (Gen.h_make_trunk h) = ids h := by
  unfold Gen.h_make_trunk
  exact foldl_inv ids _ (fun h i => ids_setLvl h i (some 0)) _ _

theorem alive_make_trunk (h : Heap) : (Gen.h_make_trunk h).alive = h.alive := by
  unfold Gen.h_make_trunk
  exact foldl_inv Heap.alive _ (fun h i => alive_setLvl h i (some 0)) _ _

theorem ids_finishPrune (h : Heap) : ids h.finishPrune = ids h := by
  unfold ids Heap.finishPrune
  simp only [List.map_map]
  apply List.map_congr_left
  intro o _
  exact P17.finishF_id h o

/-- the cache reset of all survivors followed by the trunk seeding of `_make_trunk` is the model's `finishPrune`
    (no hypothesis on `alive` is needed: both loops are idempotent) -/
theorem h_prune_finish_eq' (h : Heap) (hu : UniqIds h) :
    Gen.h_make_trunk (Gen.h_prune_reset h) = h.finishPrune := by
  refine heap_ext' h hu ?_ (ids_finishPrune h) ?_ (fun x => ?_)
  · rw [ids_make_trunk, ids_prune_reset]
  · rw [alive_make_trunk, alive_prune_reset]; rfl
  · rw [P17.finishPrune_get, get_make_trunk]
    simp only [alive_prune_reset, Heap.fParent, get_prune_reset]
    cases hg : h.get x with
    | none => simp
    | some o =>
      have hid := P17.get_id hg
      by_cases hx : x ∈ h.alive
      · have hx' : o.id ∈ h.alive := by rw [hid]; exact hx
        cases hpar : o.parent <;> simp [hx, P17.finishF, hx', hpar, Heap.resetCache]
      · have hx' : ¬ o.id ∈ h.alive := by rw [hid]; exact hx
        simp [hx, P17.finishF, hx']

theorem h_prune_finish_eq (h : Heap) (hu : UniqIds h) (hnd : h.alive.Nodup) :
    Gen.h_make_trunk (Gen.h_prune_reset h) = h.finishPrune := h_prune_finish_eq' h hu

theorem uniqIds_mergeWithParent {h : Heap} (hu : UniqIds h) (m : Nat) : UniqIds (h.mergeWithParent m) := by
  unfold UniqIds; rw [ids_mergeWithParent]; exact hu

theorem uniqIds_foldl_merge {h : Heap} (hu : UniqIds h) (ms : List Nat) :
    UniqIds (ms.foldl Heap.mergeWithParent h) := by
  induction ms generalizing h with
  | nil => exact hu
  | cons m ms ih => exact ih (uniqIds_mergeWithParent hu m)

/-- one legal merge of a well-formed heap: the generated code does not raise and performs the model's merge -/
theorem h_prune_merge_legal (h : Heap) (m : Nat) (hu : UniqIds h) (hwf : P17.WF h) (hm : m ∈ h.alive)
    (hp : (h.get m).bind (·.parent) ≠ none) : Gen.h_prune_merge h m = some (h.mergeWithParent m) := by
  obtain ⟨mo, hgm⟩ := hwf.alive_get m hm
  rw [hgm] at hp
  obtain ⟨p, hmp⟩ := Option.ne_none_iff_exists'.mp hp
  simp only [Option.bind_some] at hmp
  obtain ⟨hpa, po, hgp, hmk⟩ := hwf.parent_ok m hm mo hgm p hmp
  obtain ⟨rk, hr⟩ := hwf.rank
  have hrm := (hr m hm mo hgm).2 p hmp
  have hne : p ≠ m := by intro e; rw [e] at hrm; omega
  refine h_prune_merge_eq h m p hu ?_ hne ?_
  · simp [Heap.fParent, hgm, hmp]
  · simp [Heap.fKids, hgp, hmk]

/-- the whole of `prune` on the object heap, as the generated pieces perform it on a legal merge list, is the model's `Heap.prune` -/
def genPrune (h : Heap) (ms : List Nat) : Option Heap :=
  (ms.foldlM (fun h m => Gen.h_prune_merge h m) h).map (fun h => Gen.h_make_trunk (Gen.h_prune_reset h))

theorem foldlM_merge {h : Heap} {ms : List Nat} (hu : UniqIds h) (hwf : P17.WF h) (hl : P17.Legal h ms) :
    ms.foldlM (fun h m => Gen.h_prune_merge h m) h = some (ms.foldl Heap.mergeWithParent h) := by
  induction hl with
  | nil h => rfl
  | cons hm hp _ ih =>
    rw [List.foldlM_cons, h_prune_merge_legal _ _ hu hwf hm hp]
    exact ih (uniqIds_mergeWithParent hu _) (P17.mergeWithParent_wf _ _ hwf hm hp)

theorem h_prune_eq (h : Heap) (ms : List Nat) (hu : UniqIds h) (hwf : P17.WF h) (hl : P17.Legal h ms) :
    genPrune h ms = some (h.prune ms) := by
  unfold genPrune Heap.prune
  rw [foldlM_merge hu hwf hl, Option.map_some]
  rw [h_prune_finish_eq _ (uniqIds_foldl_merge hu ms) (P17.foldl_merge_wf hwf hl).alive_nodup]

/-! ## `UniqIds` cannot be dropped; it is satisfiable together with `WF ∧ Sound` -/

/-- a well-formed, sound heap in which the identifier `0` names a second (shadowed, unreachable through `get`) object -/
def cex : Heap :=
  { objs := [ { id := 0, kids := [1], own := [5], lvl := some 0 }, { id := 1, parent := some 0 },
              { id := 0, parent := some 7, own := [6] } ], alive := [0, 1] }

theorem cex_wf : P17.WF cex := by
  have k : ∀ i ∈ cex.alive, (cex.get i).isSome = true := by decide
  refine ⟨by decide, fun i hi => Option.isSome_iff_exists.1 (k i hi), by decide, by decide, by decide,
    ⟨fun i => i, ?_⟩⟩
  unfold P17.RankOK; decide

theorem cex_sound : P17.Sound cex := by
  have key : ∀ i ∈ cex.alive, ∀ o, cex.get i = some o → o.anc = none ∧ o.desc = none ∧ o.nw = none ∧
      (o.parent = none → o.lvl = some 0) ∧ (∀ l, o.lvl = some l → cex.specLevel cex.size o.id = some l) := by
    decide
  intro i hi o hg
  obtain ⟨k1, k2, k3, k4, k5⟩ := key i hi o hg
  exact ⟨k5, by simp [k1], by simp [k2], by simp [k3], k4⟩

/-- `h_prune_merge_eq` without `UniqIds`: all its other hypotheses hold, the heaps differ (the shadowed object gets the
    `_values` of the first one in the generated code, its own extended in the model) -/
theorem cex_merge : cex.fParent 1 = some 0 ∧ 0 ≠ 1 ∧ 1 ∈ cex.fKids 0 ∧
    (Gen.h_prune_merge cex 1).map (·.objs) ≠ some (cex.mergeWithParent 1).objs := by decide

/-- `h_prune_finish_eq` without `UniqIds` (the shadowed object has a parent, the first one has none) -/
theorem cex_finish : cex.alive.Nodup ∧
    (Gen.h_make_trunk (Gen.h_prune_reset cex)).objs ≠ cex.finishPrune.objs := by decide

/-- `h_prune_eq` without `UniqIds` -/
theorem cex_prune : P17.Legal cex [1] ∧ (genPrune cex [1]).map (·.objs) ≠ some (cex.prune [1]).objs :=
  ⟨.cons (by decide) (by decide) (.nil _), by decide⟩

/-- non-vacuity: the witness heap of `CacheProofs` has unique identifiers -/
example : UniqIds P17.h0 ∧ P17.WF P17.h0 ∧ P17.Sound P17.h0 := ⟨by unfold UniqIds ids; decide, P17.h0_wf, P17.h0_sound⟩

end GenEq

#print axioms GenEq.h_reset_cache_eq
#print axioms GenEq.h_prune_merge_eq
#print axioms GenEq.h_prune_merge_none
#print axioms GenEq.h_prune_finish_eq
#print axioms GenEq.h_prune_eq
