import ADProofs
import ADGen.Gen
/-!
# ADGen.Equiv — the generated definitions (`ADGen/Gen.lean`, translated from astrodendro's Python source by
`harness/py2lean.py` on every run) equal the hand-written model, for all inputs

Every theorem here is re-checked against the *regenerated* `Gen.lean` whenever the source of a fragment changes.
Proofs are by automation over linear integer arithmetic and Booleans wherever possible, so that a rewrite of the
Python that keeps the meaning (`a - b >= d` ↦ `a >= b + d`, swapped branches, `not (x < y)` ↦ `x >= y`) still checks,
while a change of meaning does not.
-/
open Tree

namespace GenEq

/-- closes the Boolean / linear-arithmetic goal left after unfolding a generated definition and its model
counterpart, whatever (equivalent) shape the comparison has in the source -/
macro "gen_arith" : tactic =>
  `(tactic| first
    | rfl
    | (simp; done)
    | (simp <;> omega)
    | grind
    | (simp <;> grind))

/-- `_py` (the `.item()` unwrapping of NumPy scalars) is the identity on numbers -/
@[simp] theorem py_id (b : Bool) (x : Int) : Gen.min_delta___py b x = x := by
  unfold Gen.min_delta___py; split <;> rfl

/-- `_diff` (equal values are zero apart — the guard for two infinities) is the difference on numbers -/
@[simp] theorem diff_id (b : Bool) (x y : Int) : Gen.min_delta___diff b x y = x - y := by
  unfold Gen.min_delta___diff
  split <;> simp_all <;> omega

/-! ## pruning.py -/

/-- `min_delta` called at merge time (`value` given) is the model's compute-time test -/
theorem min_delta_merge (val : Nat → Int) (d : Int) (t : Tree) (v sh ph : Int) (hp b : Bool) :
    Gen.min_delta d (t.vmax val) (t.vmin val) sh hp ph true v b = Crit.atMerge val (.minDelta d) t v := by
  simp only [Gen.min_delta, Crit.atMerge, py_id, diff_id]
  gen_arith

/-- `min_delta` called without a value on a parentless structure -/
theorem min_delta_orphan (val : Nat → Int) (d : Int) (t : Tree) (v ph : Int) (b : Bool) :
    Gen.min_delta d (t.vmax val) (t.vmin val) (t.height val) false ph false v b = Crit.orphan val (.minDelta d) t := by
  simp only [Gen.min_delta, Crit.orphan, py_id, diff_id]
  gen_arith

/-- `min_delta` called without a value on a structure that has a parent (what `prune` does) -/
theorem min_delta_child (val : Nat → Int) (d : Int) (parent t : Tree) (v : Int) (b : Bool) :
    Gen.min_delta d (t.vmax val) (t.vmin val) (t.height val) true (parent.height val) false v b
      = Crit.child val (.minDelta d) parent t := by
  simp only [Gen.min_delta, Crit.child, py_id, diff_id]
  gen_arith

theorem min_npix_eq (val : Nat → Int) (n : Nat) (parent t : Tree) (v : Int) :
    Gen.min_npix n t.pixels.length = Crit.atMerge val (.minNpix n) t v ∧
    Gen.min_npix n t.pixels.length = Crit.orphan val (.minNpix n) t ∧
    Gen.min_npix n t.pixels.length = Crit.child val (.minNpix n) parent t := by
  simp only [Gen.min_npix, Crit.atMerge, Crit.orphan, Crit.child]
  gen_arith

theorem min_peak_eq (val : Nat → Int) (x : Int) (parent t : Tree) (v : Int) :
    Gen.min_peak x (t.vmax val) = Crit.atMerge val (.minPeak x) t v ∧
    Gen.min_peak x (t.vmax val) = Crit.orphan val (.minPeak x) t ∧
    Gen.min_peak x (t.vmax val) = Crit.child val (.minPeak x) parent t := by
  simp only [Gen.min_peak, Crit.atMerge, Crit.orphan, Crit.child]
  gen_arith

theorem min_sum_eq (val : Nat → Int) (s : Int) (parent t : Tree) (v : Int) :
    Gen.min_sum s (sumVals val t.pixels) = Crit.atMerge val (.minSum s) t v ∧
    Gen.min_sum s (sumVals val t.pixels) = Crit.orphan val (.minSum s) t ∧
    Gen.min_sum s (sumVals val t.pixels) = Crit.child val (.minSum s) parent t := by
  simp only [Gen.min_sum, Crit.atMerge, Crit.orphan, Crit.child]
  gen_arith

/-! ## Dendrogram.compute -/

/-- a pixel is processed iff its value is *strictly* above the threshold -/
theorem keep_pixel_strict (x thr : Int) (isFloat : Bool) : Gen.keep_pixel x thr isFloat = true ↔ thr < x := by
  simp only [Gen.keep_pixel]
  gen_arith

/-- default threshold on integer data: the model's `defaultMinNew`, strictly below the minimum; an explicit
threshold is left alone -/
theorem default_min_int_eq (m mv : Int) :
    Gen.default_min_int true mv m = defaultMinNew m ∧ Gen.default_min_int true mv m < m ∧
    Gen.default_min_int false mv m = mv := by
  simp [Gen.default_min_int, defaultMinNew]; omega

/-- default threshold on floating-point data lies strictly below the minimum whatever the rounded subtraction
returns, provided `nextafter(x, -inf) < x` -/
theorem default_min_float_lt (m mv : Int) (fsub1 nextDown : Int → Int) (h : ∀ x, nextDown x < x) :
    Gen.default_min_float true mv m fsub1 nextDown < m ∧ Gen.default_min_float false mv m fsub1 nextDown = mv := by
  have := h m
  simp only [Gen.default_min_float]
  constructor
  · by_cases hlt : fsub1 m < m <;> simp [hlt, this]
  · simp

/-- the `merge` comprehension is the model's `insig` -/
theorem insignificant_eq (E : Env) (p : Nat) (t : Tree) :
    Gen.insignificant t.isLeaf (t.vmax E.val) (E.val p) (E.indep t p (E.val p)) = insig E p t := by
  unfold Gen.insignificant insig
  generalize t.isLeaf = a
  generalize E.indep t p (E.val p) = b
  cases a <;> cases b <;> gen_arith

/-- the action blocks of the case analysis, by number (what the model's `joinAdj` does in each case) -/
def action (E : Env) (p : Nat) (adj : List Tree) (k : Int) : Tree :=
  let mrg := adj.filter (insig E p)
  let keep := adj.filter (fun t => !insig E p t)
  if k = 0 then node p [p] []
  else if k = 1 then (match adj with | t :: _ => t.addPixel p | [] => node p [p] [])
  else if k = 2 then (match mrg.reverse with
    | [] => node p [p] []
    | b :: others => others.reverse.foldl Tree.absorb (b.addPixel p))
  else if k = 3 then (match keep with | t :: _ => mrg.foldl Tree.absorb (t.addPixel p) | [] => node p [p] [])
  else mrg.foldl Tree.absorb (node p [p] keep)

/-- the skeleton of the case analysis in the source (number of adjacent structures, then number of those that are
kept) selects the same action as the model's `joinAdj` -/
theorem meeting_case_joinAdj (E : Env) (p : Nat) (adj : List Tree) :
    joinAdj E p adj
      = action E p adj (Gen.meeting_case adj.length (adj.filter (fun t => !insig E p t)).length) := by
  have mc (a b : Nat) : Gen.meeting_case (a : Int) (b : Int) =
      if a = 0 then 0 else if a = 1 then 1 else if b = 0 then 2 else if b = 1 then 3 else 4 := by
    simp only [Gen.meeting_case]
    repeat' split
    all_goals simp_all
    all_goals omega
  rw [mc]
  match adj with
  | [] => simp [joinAdj, action]
  | [t] => simp [joinAdj, action]
  | a :: b :: rest =>
    generalize hk : (a :: b :: rest).filter (fun t => !insig E p t) = keep
    unfold joinAdj
    simp only [hk]
    match keep with
    | [] =>
      simp only [action, hk]
      simp
      cases (List.filter (insig E p) (a :: b :: rest)).reverse <;> rfl
    | [t] => simp only [action, hk]; simp
    | x :: y :: zs => simp only [action, hk]; simp

/-! ## prune, `__eq__`, `structure_at` -/

/-- `prune`'s parameter bookkeeping is the model's `pruneParam`, per parameter -/
theorem prune_params_eq (d n rd rn : Int) :
    Gen.prune_params d n rd rn
      = ((pruneParam rd d).1, (pruneParam rn n).1, (pruneParam rd d).2, (pruneParam rn n).2) := by
  simp only [Gen.prune_params, pruneParam]
  by_cases h1 : d = 0 <;> by_cases h2 : n = 0 <;> simp [h1, h2] <;>
    (repeat' split) <;> simp_all <;> omega

/-- recorded parameters never decrease, and a zero request inherits the recorded value -/
theorem prune_params_monotone (d n rd rn : Int) :
    rd ≤ (Gen.prune_params d n rd rn).2.2.1 ∧ rn ≤ (Gen.prune_params d n rd rn).2.2.2 ∧
    (d = 0 → (Gen.prune_params d n rd rn).1 = rd) ∧ (n = 0 → (Gen.prune_params d n rd rn).2.1 = rn) := by
  rw [prune_params_eq]
  simp only [pruneParam]
  refine ⟨?_, ?_, ?_, ?_⟩ <;> (repeat' split) <;> simp_all <;> omega

/-- the parameter part of `__eq__` is the model's `compat` on both parameters -/
theorem eq_params_eq (smv : Bool) (an bn ad bd : Int) :
    Gen.eq_params smv an bn ad bd = (smv && DView.compat ad bd && DView.compat an bn) := by
  simp only [Gen.eq_params, DView.compat]
  cases smv <;> by_cases h1 : an = 0 <;> by_cases h2 : bn = 0 <;> by_cases h3 : ad = 0 <;> by_cases h4 : bd = 0 <;>
    by_cases h5 : an = bn <;> by_cases h6 : ad = bd <;> simp_all

/-- `structure_at` returns a structure exactly for non-negative labels (−1 = unassigned) -/
theorem structure_at_hit_iff (idx : Int) : Gen.structure_at_hit idx = true ↔ 0 ≤ idx := by
  simp only [Gen.structure_at_hit]
  gen_arith

/-! ## periodic_neighbours -/

/-- On an axis of length `n` (padded length `n + 1`) the neighbours of coordinate `c` are the candidates `c ± 1`,
passed through `_wrap` when the axis is periodic, that land on a real cell `0 … n-1`; a candidate `-1` that is not
wrapped reads the padding cell (NumPy's index −1 is the last one), a candidate `n` is the padding cell. This is the
model's `axisNbrs`. -/
theorem wrap_axis_nbrs (n c : Nat) (hc : c < n) (per : Bool) (d : Nat) :
    d ∈ Grid.axisNbrs n per c ↔
      ∃ x : Int, (x = (c : Int) + 1 ∨ x = (c : Int) - 1) ∧
        (if per then Gen.wrap_axis x ((n : Int) + 1) else x) = (d : Int) ∧ d < n := by
  rw [axisNbrs_mem n per c d hc]
  have hw : ∀ x L : Int, Gen.wrap_axis x L = if x < 0 then L - 2 else if x = L - 1 then 0 else x := by
    intro x L
    simp only [Gen.wrap_axis]
    repeat' split
    all_goals first | rfl | omega | (simp_all; done) | (simp_all; omega)
  have hex : ∀ P : Int → Prop, (∃ x : Int, (x = (c : Int) + 1 ∨ x = (c : Int) - 1) ∧ P x) ↔
      (P ((c : Int) + 1) ∨ P ((c : Int) - 1)) := by
    intro P
    constructor
    · rintro ⟨x, hx | hx, h⟩ <;> subst hx <;> simp [h]
    · rintro (h | h)
      · exact ⟨_, Or.inl rfl, h⟩
      · exact ⟨_, Or.inr rfl, h⟩
  rw [hex]
  simp only [hw]
  cases per <;> simp <;> grind

/-! ## structure.py -/

theorem smallest_addPixel (t : Tree) (p : Nat) (h : t.own ≠ []) :
    (t.addPixel p).smallest = min t.smallest p := by
  unfold Tree.smallest
  rw [own_addPixel]
  match ho : t.own with
  | [] => exact absurd ho h
  | x :: xs => simp [minNatL, List.foldl_append]

theorem foldl_min_nat (ys : List Nat) (a y : Nat) : ys.foldl min (min a y) = min a (ys.foldl min y) := by
  induction ys generalizing a y with
  | nil => rfl
  | cons z zs ih => simp only [List.foldl_cons]; rw [Nat.min_assoc, ih]

theorem smallest_absorb (t m : Tree) (ht : t.own ≠ []) (hm : m.own ≠ []) :
    (t.absorb m).smallest = min t.smallest m.smallest := by
  unfold Tree.smallest
  have : (t.absorb m).own = t.own ++ m.own := by cases t; rfl
  rw [this]
  match ho : t.own, hmo : m.own with
  | [], _ => exact absurd ho ht
  | _, [] => exact absurd hmo hm
  | x :: xs, y :: ys =>
    simp only [minNatL, List.cons_append, List.foldl_append, List.foldl_cons]
    exact foldl_min_nat ys _ y

/-- `_add_pixel` maintains minimum, maximum and smallest pixel as the model derives them from the pixel list -/
theorem add_pixel_eq (val : Nat → Int) (t : Tree) (p : Nat) (h : t.own ≠ []) :
    Gen.add_pixel (val p) (p : Int) (t.vmin val) (t.vmax val) (t.smallest : Int)
      = ((t.addPixel p).vmin val, (t.addPixel p).vmax val, ((t.addPixel p).smallest : Int)) := by
  rw [P8.vmin_addPixel val t p h, P8.vmax_addPixel val t p h, smallest_addPixel t p h]
  simp only [Gen.add_pixel, Prod.mk.injEq]
  refine ⟨?_, ?_, ?_⟩ <;> first | rfl | omega | grind

/-- `_merge` likewise -/
theorem merge_summaries_eq (val : Nat → Int) (t m : Tree) (ht : t.own ≠ []) (hm : m.own ≠ []) :
    Gen.merge_summaries (m.vmin val) (m.vmax val) (m.smallest : Int) (t.vmin val) (t.vmax val) (t.smallest : Int)
      = ((t.absorb m).vmin val, (t.absorb m).vmax val, ((t.absorb m).smallest : Int)) := by
  rw [P8.vmin_absorb val t m ht hm, P8.vmax_absorb val t m ht hm, smallest_absorb t m ht hm]
  simp only [Gen.merge_summaries, Prod.mk.injEq]
  refine ⟨?_, ?_, ?_⟩ <;> first | rfl | omega | grind

/-- `TreeIndex.indices` hands out the subtree count with `subtree=True` and the own count otherwise -/
theorem tree_index_count_eq (nSub nOwn : Int) :
    Gen.tree_index_count nSub nOwn true = nSub ∧ Gen.tree_index_count nSub nOwn false = nOwn := by
  simp [Gen.tree_index_count]

/-! ## io -/

/-- `is_fits` is the model's `isFits`: signature for an existing file opened for reading, extension otherwise -/
theorem is_fits_eq (name : List Char) (read : Bool) (head : Option (List Nat)) :
    Gen.is_fits read head.isSome ((head.getD []).take 30 == Identify.fitsSig)
        (Identify.fitsExts.any (Identify.endsWith (Identify.lower name)))
      = Identify.isFits name read head := by
  unfold Identify.isFits Gen.is_fits
  generalize Identify.fitsExts.any _ = e
  cases read <;> cases head <;> simp

theorem is_hdf5_eq (name : List Char) (read : Bool) (head : Option (List Nat)) :
    Gen.is_hdf5 read head.isSome ((head.getD []).take 8 == Identify.hdf5Sig)
        (Identify.hdf5Exts.any (Identify.endsWith (Identify.lower name)))
      = Identify.isHdf5 name read head := by
  unfold Identify.isHdf5 Gen.is_hdf5
  generalize Identify.hdf5Exts.any _ = e
  cases read <;> cases head <;> simp

/-- the literal tables in the source are the model's tables -/
theorem io_tables :
    Gen.fits_signature = Identify.fitsSig ∧ Gen.hdf5_signature = Identify.hdf5Sig ∧
    Gen.fits_extensions.map String.toList = Identify.fitsExts ∧
    Gen.hdf5_extensions.map String.toList = Identify.hdf5Exts ∧
    Gen.io_formats = ["fits", "hdf5"] := by
  decide

end GenEq

/-! ## prune loop, `_make_trunk`, catalog edge-wrap heuristic -/

namespace GenEq

/-- `_to_prune` hands a structure to the caller exactly when it is a leaf, still present, fails the criteria and has a
parent — the test of the model's scan (`pruneKids`: `k.isLeaf`, `ic P k` false, inside a parent `P`) -/
theorem to_prune_yields_iff (isLeaf alive indep hasParent : Bool) :
    Gen.to_prune_yields isLeaf alive indep hasParent = (isLeaf && alive && !indep && hasParent) := by
  unfold Gen.to_prune_yields
  cases isLeaf <;> cases alive <;> cases indep <;> cases hasParent <;> gen_arith

/-- the two-sibling rule: with exactly two children both are merged, with more only the failing leaf — the model's
`pruneAt` (branches have ≥ 2 children: `C02_arity`, `C07_arity_preserved`) -/
theorem prune_merge_mode_eq (P k : Tree) (h2 : 2 ≤ P.kids.length) :
    pruneAt P k = (if Gen.prune_merge_mode P.kids.length = 2 then P.kids.foldl mergeInto P else mergeInto P k) ∧
    Gen.prune_merge_mode P.kids.length ≠ 0 := by
  have hm : ∀ n : Nat, 2 ≤ n → Gen.prune_merge_mode (n : Int) = if n = 2 then 2 else 1 := by
    intro n hn
    simp only [Gen.prune_merge_mode]
    repeat' split
    all_goals first | rfl | omega | (simp_all; done) | (simp_all; omega)
  rw [hm _ h2]
  unfold pruneAt
  by_cases h : P.kids.length = 2 <;> simp [h]

/-- `_make_trunk` removes a parentless leaf exactly when it fails the value-less criteria (the model's `makeTrunk`
filter `!(t.isLeaf && !E.indepOrphan t)` keeps the others) -/
theorem trunk_drop_iff (E : Env) (t : Tree) (hl : t.isLeaf = true) :
    Gen.trunk_drop (E.indepOrphan t) = (t.isLeaf && !E.indepOrphan t) := by
  unfold Gen.trunk_drop
  rw [hl]
  cases E.indepOrphan t <;> gen_arith

/-- the edge-wrap heuristic, element by element and its acceptance test, are the formulas of `Catalog.wrapAxis`
(`i2 = x + n` where `2x < n`, taken iff the spread gets strictly smaller) -/
theorem wrap_heuristic_eq (x n a b : Int) :
    Gen.wrap_elem x n = (if 2 * x < n then x + n else x) ∧ Gen.wrap_use a b = decide (a < b) := by
  constructor
  · simp only [Gen.wrap_elem]
    repeat' split
    all_goals first | rfl | omega | (simp_all; done) | (simp_all; omega)
  · simp only [Gen.wrap_use]
    repeat' split
    all_goals first | rfl | (simp_all; done) | (simp_all; omega)

end GenEq

/-! ## flux.py -/

namespace GenEq

def outcomeCode : Flux.Outcome → Int
  | .ok => 0 | .wavelengthDim => 1 | .wavelengthMissing => 2 | .spatialDim => 3 | .spatialMissing => 4
  | .bmajDim => 5 | .bmajMissing => 6 | .bminDim => 7 | .bminMissing => 8 | .unsupported => 9 | .outputUnit => 10

def familyCode : Flux.Dim → Int
  | .fnu => 101 | .flambda => 102 | .surf => 103 | .perBeam => 104 | .temp => 105 | _ => 0

/-- `compute_flux`, as far as its control flow goes, is the model's error table `Flux.outcome`: the same check fires
first for every combination of input family, present / absent / mis-dimensioned metadata items and output unit, and
when none fires the conversion of the input's own family is the one that produces the result -/
theorem flux_table_eq (input output : Flux.Dim) (m : Flux.MetaDims) :
    Gen.flux_table (input == .fnu) (input == .flambda) (input == .surf) (input == .perBeam) (input == .temp)
        m.wavelength.isSome (m.wavelength == some .length)
        (m.wavelength == some .length || m.wavelength == some .freq)
        m.spatial.isSome (m.spatial == some .angle) m.bmaj.isSome (m.bmaj == some .angle)
        m.bmin.isSome (m.bmin == some .angle) (output == .fnu)
      = (if Flux.outcome input m output = .ok then familyCode input
         else outcomeCode (Flux.outcome input m output)) := by
  obtain ⟨w, s, a, b⟩ := m
  have hchk : ∀ (x : Option Flux.Dim) (e1 e2 : Flux.Outcome),
      Flux.checkAngle x e1 e2 = if x.isSome && !(x == some .angle) then some e1 else if !x.isSome then some e2 else none := by
    intro x e1 e2
    rcases x with _ | d
    · rfl
    · cases d <;> rfl
  have hw : w = none ∨ ∃ d, w = some d := by cases w <;> simp
  rcases hw with rfl | ⟨d, rfl⟩ <;> (try cases d) <;> cases input <;> by_cases ho : output = Flux.Dim.fnu <;>
    simp [Gen.flux_table, Flux.outcome, Flux.metaCheck, hchk, familyCode, outcomeCode, ho, Option.orElse] <;>
    (try generalize s.isSome = s1) <;> (try generalize (s == some Flux.Dim.angle) = s2) <;>
    (try generalize a.isSome = a1) <;> (try generalize (a == some Flux.Dim.angle) = a2) <;>
    (try generalize b.isSome = b1) <;> (try generalize (b == some Flux.Dim.angle) = b2) <;>
    grind

end GenEq
