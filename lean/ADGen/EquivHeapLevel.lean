import ADProofs
import ADGen.Gen

/-!
# The level query generated from `Structure.level` equals the model's `Heap.level`
-/

namespace GenEq
open Heap

/-- the generated `while obj._level is None` loop is the model's `walkLevel`: it leaves the heap unchanged and stops at
    an object whose cached level is the one `walkLevel` returns, with the same `diff` -/
theorem h_level_loop1_spec (h : Heap) (fuel self obj diff : Nat) :
    match Gen.h_level.loop1 fuel h self obj diff with
    | none => Heap.walkLevel h fuel obj diff = none
    | some (h', obj', d') =>
        h' = h ∧ ∃ l, h.fLvl obj' = some l ∧ Heap.walkLevel h fuel obj diff = some (l, d') := by
  induction fuel generalizing obj diff with
  | zero => simp [Gen.h_level.loop1, Heap.walkLevel]
  | succ fuel ih =>
    unfold Gen.h_level.loop1 Heap.walkLevel
    cases hg : h.get obj with
    | none => simp [Heap.fLvl, Heap.fParent, hg]
    | some o =>
      cases hl : o.lvl with
      | some l => simp [Heap.fLvl, hg, hl]
      | none =>
        cases hp : o.parent with
        | none => simp [Heap.fLvl, Heap.fParent, hg, hl, hp]
        | some p =>
          simp only [Heap.fLvl, Heap.fParent, hg, hl, hp, Option.bind_some, Option.isNone_none, if_true]
          exact ih p (diff + 1)

theorem fLvl_setLvl (h : Heap) (i j : Nat) (v : Option Nat) :
    (h.setLvl i v).fLvl j = if j = i then (h.get i).bind (fun _ => v) else h.fLvl j := by
  unfold Heap.fLvl Heap.setLvl
  rw [P17.get_update h i (fun o => { o with lvl := v }) (fun _ => rfl) j]
  split
  · cases h.get i <;> simp
  · rfl

theorem fParent_setLvl (h : Heap) (i j : Nat) (v : Option Nat) :
    (h.setLvl i v).fParent j = h.fParent j := by
  unfold Heap.fParent Heap.setLvl
  rw [P17.get_update h i (fun o => { o with lvl := v }) (fun _ => rfl) j]
  split
  · subst j; cases h.get i <;> simp
  · rfl

/-- the level query generated from `Structure.level` is the model's `Heap.level` (error / out of fuel ↦ the model's `none` answer) -/
theorem h_level_eq (h : Heap) (fuel i : Nat) (hi : (h.get i).isSome) (hself : h.fParent i ≠ some i) :
    Gen.h_level h fuel i =
      (match Heap.level h fuel i with
       | (h', some r) => some (h', some r)
       | (_, none) => none) := by
  obtain ⟨o, hg⟩ := Option.isSome_iff_exists.mp hi
  unfold Gen.h_level Heap.level
  have hfl : h.fLvl i = o.lvl := by simp [Heap.fLvl, hg]
  have hfp : h.fParent i = o.parent := by simp [Heap.fParent, hg]
  rw [hfp] at hself
  simp only [hg, hfl, hfp, fLvl_setLvl, fParent_setLvl, if_true, Option.bind_some]
  cases hl : o.lvl with
  | some l => simp
  | none =>
    cases hp : o.parent with
    | none => simp [Heap.setLvl]
    | some p =>
      have hpi : p ≠ i := by
        intro e; apply hself; rw [hp, e]
      have hip : i ≠ p := fun e => hpi e.symm
      have hflp : h.fLvl p = (h.get p).bind (·.lvl) := rfl
      simp only [← hflp]
      cases hpl : h.fLvl p with
      | some pl => simp [Heap.setLvl]
      | none =>
        have hloop := h_level_loop1_spec h fuel i p 1
        cases hlp : Gen.h_level.loop1 fuel h i p 1 with
        | none =>
          rw [hlp] at hloop
          simp [hloop]
        | some r =>
          obtain ⟨h', obj', d'⟩ := r
          rw [hlp] at hloop
          obtain ⟨rfl, l, hlo, hw⟩ := hloop
          simp [hw, hlo, hg, hfp, hp, hip, Heap.setLvl]

/-- in every well-formed heap with sound caches the generated query, run with the fuel the history machine uses, succeeds and
    is exactly the model's step -/
theorem h_level_total (h : Heap) (i : Nat) (hwf : P17.WF h) (hs : P17.Sound h) (hi : i ∈ h.alive) :
    Gen.h_level h h.size i = some (Heap.level h h.size i) := by
  obtain ⟨o, hg⟩ := hwf.alive_get i hi
  obtain ⟨rk, hr⟩ := hwf.rank
  have hself : h.fParent i ≠ some i := by
    intro e
    have hp : o.parent = some i := by simpa [Heap.fParent, hg] using e
    have := (hr i hi o hg).2 i hp
    omega
  rw [h_level_eq h h.size i (by simp [hg]) hself]
  have h1 := (P17.level_sound h i hwf hs hi).1
  obtain ⟨l, hl⟩ := P17.specLevel_isSome hwf hr h.size i hi (hr i hi o hg).1
  rw [hl] at h1
  generalize Heap.level h h.size i = r at h1
  obtain ⟨h', a⟩ := r
  simp only at h1
  subst h1
  rfl

end GenEq

#print axioms GenEq.h_level_eq
#print axioms GenEq.h_level_total
