import ADProofs
import ADGen.Gen
import ADGen.EquivHeapLevel
import ADGen.EquivHeapAncestor
import ADGen.EquivHeapDesc
import ADGen.EquivHeapPrune
/-!
# ADGen.EquivHeapHistory — whole histories run by the generated code

The four per-operation equivalences (`h_level_total`, `h_ancestor_total`, `h_descendants_total`, `h_prune_eq`) are
lifted to histories: on a legal history from a well-formed heap with sound caches and unique identifiers, the code
generated from the Python source never raises and is, step by step, the model's `Heap.stepC`; hence
`P17.history_sound` transfers to it.
-/

namespace GenEq
open Heap

/-! ## identifiers are preserved by every model step -/

theorem ids_level (h : Heap) (fuel i : Nat) : ids (h.level fuel i).1 = ids h := by
  unfold Heap.level
  simp only []
  repeat' split
  all_goals first
    | rfl
    | simp (disch := intro _; rfl) only [ids_update]

theorem ids_ancestor (h : Heap) (fuel i : Nat) : ids (h.ancestor fuel i).1 = ids h := by
  unfold Heap.ancestor
  simp only []
  repeat' split
  all_goals first
    | rfl
    | simp (disch := intro _; rfl) only [ids_update]

theorem ids_descendants (h : Heap) (fuel i : Nat) : ids (h.descendants fuel i).1 = ids h := by
  unfold Heap.descendants
  simp only []
  repeat' split
  all_goals first
    | rfl
    | simp (disch := intro _; rfl) only [ids_update]

/-- a fold whose step preserves identifiers preserves identifiers -/
theorem ids_foldl_pair {β : Type} (g : Heap × β → Nat → Heap × β) (hg : ∀ acc c, ids (g acc c).1 = ids acc.1)
    (l : List Nat) (init : Heap × β) : ids (l.foldl g init).1 = ids init.1 := by
  induction l generalizing init with
  | nil => rfl
  | cons c l ih => rw [List.foldl_cons, ih, hg]

theorem ids_newick (fuel : Nat) : ∀ (h : Heap) (i : Nat), ids (h.newick fuel i).1 = ids h := by
  induction fuel with
  | zero => intro h i; rfl
  | succ fuel ih =>
    intro h i
    unfold Heap.newick
    split
    · rfl
    · split
      · rfl
      · simp only []
        rw [ids_update _ _ _ (by intro _; rfl)]
        rw [ids_foldl_pair]
        intro acc c
        exact ih acc.1 c

/-- identifiers are never created or destroyed by a step -/
theorem ids_stepC (h : Heap) (op : COp) : ids (h.stepC op).1 = ids h := by
  cases op with
  | qLevel i => exact ids_level h h.size i
  | qAnc i => exact ids_ancestor h h.size i
  | qDesc i => exact ids_descendants h h.size i
  | qNewick i => exact ids_newick h.size h i
  | prune ms =>
    show ids (h.prune ms) = ids h
    unfold Heap.prune
    rw [ids_finishPrune]
    induction ms generalizing h with
    | nil => rfl
    | cons m ms ih => rw [List.foldl_cons, ih, ids_mergeWithParent]

/-! ## one step -/

/-- one operation of a history as the generated code performs it (the Newick export is the model's: the recursive property is
    not translated) -/
def genStep (h : Heap) : COp → Option (Heap × CObs)
  | .qLevel i => (Gen.h_level h h.size i).map fun r => (r.1, CObs.nat r.2)
  | .qAnc i => (Gen.h_ancestor h h.size i).map fun r => (r.1, CObs.nat r.2)
  | .qDesc i => (Gen.h_descendants h h.size i).map fun r => (r.1, CObs.list r.2)
  | .qNewick i => some (let r := h.newick h.size i; (r.1, CObs.str r.2))
  | .prune ms => (genPrune h ms).map fun h' => (h', CObs.unit)

/-- on a well-formed heap with sound caches and unique identifiers the generated step is the model's step -/
theorem genStep_eq (h : Heap) (op : COp) (hu : UniqIds h) (hwf : P17.WF h) (hs : P17.Sound h) (hl : P17.LegalOp h op) :
    genStep h op = some (h.stepC op) := by
  cases op with
  | qLevel i => simp only [genStep, h_level_total h i hwf hs hl, Option.map_some, Heap.stepC]
  | qAnc i => simp only [genStep, h_ancestor_total h i hwf hs hl hu, Option.map_some, Heap.stepC]
  | qDesc i => simp only [genStep, h_descendants_total h i hwf hs hl, Option.map_some, Heap.stepC]
  | qNewick i => rfl
  | prune ms => simp only [genStep, h_prune_eq h ms hu hwf hl, Option.map_some, Heap.stepC]

/-- identifiers are never created or destroyed by a step -/
theorem uniqIds_stepC (h : Heap) (op : COp) (hu : UniqIds h) : UniqIds (h.stepC op).1 := by
  unfold UniqIds; rw [ids_stepC]; exact hu

/-! ## histories -/

/-- a whole history run by the generated code: (observed, specified-at-that-moment) pairs; `none` = some step raised -/
def genRun : Heap → List COp → Option (List (CObs × CObs))
  | _, [] => some []
  | h, op :: ops =>
    match genStep h op with
    | none => none
    | some r => (genRun r.1 ops).map fun l => (r.2, h.specObs op) :: l

theorem genRun_eq (h : Heap) (ops : List COp) (hu : UniqIds h) (hwf : P17.WF h) (hs : P17.Sound h)
    (hlegal : P17.LegalHist h ops) : genRun h ops = some (Heap.runHistory Heap.stepC h ops) := by
  induction ops generalizing h with
  | nil => rfl
  | cons op ops ih =>
    obtain ⟨_, h2, h3⟩ := P17.stepC_sound h op hwf hs hlegal.1
    simp only [genRun, genStep_eq h op hu hwf hs hlegal.1, Heap.runHistory,
      ih _ (uniqIds_stepC h op hu) h2 h3 hlegal.2, Option.map_some]

/-- **the code generated from the Python source never raises on a legal history and every answer is the one a freshly
    constructed dendrogram with the same links would give** -/
theorem gen_history_sound (h : Heap) (ops : List COp) (hu : UniqIds h) (hwf : P17.WF h) (hs : P17.Sound h)
    (hlegal : P17.LegalHist h ops) : ∃ l, genRun h ops = some l ∧ ∀ pr ∈ l, pr.1 = pr.2 :=
  ⟨_, genRun_eq h ops hu hwf hs hlegal, P17.history_sound h ops hwf hs hlegal⟩

/-! ## non-vacuity -/

/-- the witness heap of `CacheProofs` and its repaired-witness history (queries, a prune of a legal merge list, queries
    again) satisfy all the hypotheses of `gen_history_sound` -/
example : UniqIds P17.h0 ∧ P17.WF P17.h0 ∧ P17.Sound P17.h0 ∧
    P17.LegalHist P17.h0 [.qLevel 4, .qDesc 0, .qNewick 0, .prune [2, 3], .qLevel 4, .qDesc 0, .qNewick 0, .qAnc 5] := by
  refine ⟨by unfold UniqIds ids; decide, P17.h0_wf, P17.h0_sound, ?_⟩
  have mem : ∀ {h : Heap} {i : Nat}, i ∈ h.alive → i ∈ h.alive := id
  refine ⟨mem (by decide), mem (by decide), mem (by decide), ?_, ?_⟩
  · exact .cons (by decide) (by decide) (.cons (by decide) (by decide) (.nil _))
  · exact ⟨mem (by decide), mem (by decide), mem (by decide), mem (by decide), trivial⟩

/-- and on it the generated code indeed runs to the end, eight answers, none stale -/
example : ∃ l, genRun P17.h0 [.qLevel 4, .qDesc 0, .qNewick 0, .prune [2, 3], .qLevel 4, .qDesc 0, .qNewick 0, .qAnc 5]
    = some l ∧ l.length = 8 ∧ ∀ pr ∈ l, pr.1 = pr.2 := by
  have hleg : P17.LegalHist P17.h0
      [.qLevel 4, .qDesc 0, .qNewick 0, .prune [2, 3], .qLevel 4, .qDesc 0, .qNewick 0, .qAnc 5] := by
    have mem : ∀ {h : Heap} {i : Nat}, i ∈ h.alive → i ∈ h.alive := id
    refine ⟨mem (by decide), mem (by decide), mem (by decide), ?_, ?_⟩
    · exact .cons (by decide) (by decide) (.cons (by decide) (by decide) (.nil _))
    · exact ⟨mem (by decide), mem (by decide), mem (by decide), mem (by decide), trivial⟩
  refine ⟨_, genRun_eq _ _ (by unfold UniqIds ids; decide) P17.h0_wf P17.h0_sound hleg, ?_,
    P17.history_sound _ _ P17.h0_wf P17.h0_sound hleg⟩
  simp [Heap.runHistory]

end GenEq

#print axioms GenEq.genStep_eq
#print axioms GenEq.uniqIds_stepC
#print axioms GenEq.genRun_eq
#print axioms GenEq.gen_history_sound
