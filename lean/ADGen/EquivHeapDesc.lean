import ADProofs
import ADGen.Gen
/-!
# EquivHeapDesc — the generated `Structure.descendants` (`Gen.h_descendants`) is the model's `Heap.descendants`

The generated loop appends level after level to the `desc` field of `self` and keeps only the branches in the next
frontier; `Heap.specDesc` recurses on all children.  Leaves have no kids, so both frontiers have the same children.
-/

namespace GenEq
open Heap

/-- the heap in which the `desc` field of `i` holds `l` -/
def withDesc (h : Heap) (i : Nat) (l : List Nat) : Heap := h.update i (fun o => { o with desc := some l })

theorem setDesc_eq (h : Heap) (i : Nat) (l : List Nat) : h.setDesc i (some l) = withDesc h i l := rfl

theorem withDesc_withDesc (h : Heap) (i : Nat) (l1 l2 : List Nat) :
    withDesc (withDesc h i l1) i l2 = withDesc h i l2 := by
  unfold withDesc Heap.update
  simp only [List.map_map, Heap.mk.injEq, and_true]
  apply List.map_congr_left
  intro o _
  simp only [Function.comp]
  by_cases ho : o.id = i <;> simp [ho]

theorem setDesc_withDesc (h : Heap) (i : Nat) (l1 l2 : List Nat) :
    (withDesc h i l1).setDesc i (some l2) = withDesc h i l2 := by
  rw [setDesc_eq, withDesc_withDesc]

theorem get_withDesc (h : Heap) (i : Nat) (l : List Nat) (j : Nat) :
    (withDesc h i l).get j = if j = i then (h.get i).map (fun o => { o with desc := some l }) else h.get j :=
  P17.get_update h i (fun o => { o with desc := some l }) (fun _ => rfl) j

theorem fKids_withDesc (h : Heap) (i : Nat) (l : List Nat) (b : Nat) :
    (withDesc h i l).fKids b = h.fKids b := by
  unfold Heap.fKids
  rw [get_withDesc]
  split
  · subst b; cases h.get i <;> rfl
  · rfl

theorem fDesc_withDesc (h : Heap) (i : Nat) (l : List Nat) :
    (withDesc h i l).fDesc i = if (h.get i).isSome then some l else none := by
  unfold Heap.fDesc
  rw [get_withDesc]
  cases h.get i <;> simp

/-- the model's "kids of a frontier" in the getter vocabulary -/
theorem specDesc_succ (h : Heap) (n : Nat) (fr : List Nat) :
    h.specDesc (n + 1) fr =
      if (fr.flatMap h.fKids).isEmpty then [] else fr.flatMap h.fKids ++ h.specDesc n (fr.flatMap h.fKids) := by
  rw [Heap.specDesc]
  rfl

theorem flatMap_filter_branches (h : Heap) (l : List Nat) :
    (l.filter (fun b => !(h.fKids b).isEmpty)).flatMap h.fKids = l.flatMap h.fKids := by
  induction l with
  | nil => rfl
  | cons a l ih =>
    by_cases ha : (h.fKids a).isEmpty
    · have : h.fKids a = [] := by simpa using ha
      simp [ih, this]
    · simp [ha, ih]

/-- a frontier of leaves has no descendants -/
theorem specDesc_leaves (h : Heap) (n : Nat) (fr : List Nat)
    (hl : (fr.filter (fun b => !(h.fKids b).isEmpty)) = []) : h.specDesc n fr = [] := by
  cases n with
  | zero => rfl
  | succ n =>
    rw [specDesc_succ, ← flatMap_filter_branches, hl]
    rfl

/-- the loop, started on a frontier with the same children as the model's, writes the model's list -/
theorem loop_eq (h : Heap) (i : Nat) (fuel : Nat) :
    ∀ (l1 to_add fr : List Nat) (r : Heap × List Nat),
      to_add.flatMap h.fKids = fr.flatMap h.fKids →
      Gen.h_descendants.loop1 fuel (withDesc h i l1) i to_add = some r →
      r.1 = withDesc h i (l1 ++ h.specDesc fuel fr) := by
  induction fuel with
  | zero => intro l1 to_add fr r _ hrun; simp [Gen.h_descendants.loop1] at hrun
  | succ n ih =>
    intro l1 to_add fr r hfr hrun
    unfold Gen.h_descendants.loop1 at hrun
    simp only [List.nil_append, ← List.flatMap_def, fDesc_withDesc] at hrun
    cases hg : (h.get i).isSome with
    | false => simp [hg] at hrun
    | true =>
      simp only [hg, if_true, setDesc_withDesc, fKids_withDesc] at hrun
      have hk : List.flatMap (fun branch => h.fKids branch) to_add = fr.flatMap h.fKids := hfr
      rw [hk] at hrun
      rw [specDesc_succ]
      split at hrun
      · rename_i he
        have he' : (fr.flatMap h.fKids).filter (fun b => !(h.fKids b).isEmpty) = [] := by
          simpa using he
        have hr : r.1 = withDesc h i (l1 ++ fr.flatMap h.fKids) := by
          have := Option.some.inj hrun
          rw [← this]
        rw [hr, specDesc_leaves h n _ he']
        split
        · rename_i hc
          have : fr.flatMap h.fKids = [] := by simpa using hc
          rw [this]
        · simp
      · rename_i he
        have hne : ¬ (fr.flatMap h.fKids).isEmpty = true := by
          intro hc
          have : fr.flatMap h.fKids = [] := by simpa using hc
          rw [this] at he
          simp at he
        have := ih (l1 ++ fr.flatMap h.fKids) _ (fr.flatMap h.fKids) r
          (flatMap_filter_branches h (fr.flatMap h.fKids)) hrun
        rw [this, if_neg hne, List.append_assoc]

theorem h_descendants_eq' (h : Heap) (fuel i : Nat) (r : Heap × Option (List Nat))
    (hrun : Gen.h_descendants h fuel i = some r) : Heap.descendants h fuel i = r := by
  unfold Gen.h_descendants at hrun
  unfold Heap.descendants
  cases hg : h.get i with
  | none =>
    have hd : h.fDesc i = none := by simp [Heap.fDesc, hg]
    have hd' : (withDesc h i []).fDesc i = none := by rw [fDesc_withDesc]; simp [hg]
    simp only [hd, Option.isNone_none, if_true, setDesc_eq] at hrun
    cases fuel with
    | zero => simp [Gen.h_descendants.loop1] at hrun
    | succ n =>
      unfold Gen.h_descendants.loop1 at hrun
      simp [hd'] at hrun
  | some o =>
    have hd : h.fDesc i = o.desc := by simp [Heap.fDesc, hg]
    simp only [hd, setDesc_eq] at hrun
    cases hdo : o.desc with
    | some d =>
      simp only [hdo, Option.isNone_some, Bool.false_eq_true, if_false] at hrun
      simp only [hdo]
      exact Option.some.inj hrun
    | none =>
      simp only [hdo, Option.isNone_none, if_true] at hrun
      simp only [hdo]
      cases hl : Gen.h_descendants.loop1 fuel (withDesc h i []) i [i] with
      | none => simp [hl] at hrun
      | some r' =>
        have h1 := loop_eq h i fuel [] [i] [i] r' rfl hl
        simp only [hl, List.nil_append] at hrun h1
        have := Option.some.inj hrun
        rw [← this, h1, fDesc_withDesc]
        simp [hg, withDesc]

/-- the loop terminates within the rank budget -/
theorem loop_total (h : Heap) (i : Nat) (hwf : P17.WF h) (rk : Nat → Nat) (hr : P17.RankOK h rk)
    (hgi : (h.get i).isSome) (fuel : Nat) :
    ∀ (l1 to_add : List Nat), 1 ≤ fuel → (∀ b ∈ to_add, b ∈ h.alive ∧ h.size ≤ rk b + fuel) →
      ∃ r, Gen.h_descendants.loop1 fuel (withDesc h i l1) i to_add = some r := by
  induction fuel with
  | zero => intro _ _ h1; omega
  | succ n ih =>
    intro l1 to_add _ hb
    unfold Gen.h_descendants.loop1
    simp only [List.nil_append, ← List.flatMap_def, fDesc_withDesc, hgi, if_true, setDesc_withDesc, fKids_withDesc]
    have hk : List.flatMap (fun branch => h.fKids branch) to_add = to_add.flatMap h.fKids := rfl
    rw [hk]
    split
    · exact ⟨_, rfl⟩
    · rename_i he
      have hkids : ∀ c ∈ to_add.flatMap h.fKids, c ∈ h.alive ∧ h.size ≤ rk c + n := by
        intro c hc
        obtain ⟨b, hbt, hcb⟩ := List.mem_flatMap.1 hc
        obtain ⟨hba, hbs⟩ := hb b hbt
        obtain ⟨bo, hgb⟩ := hwf.alive_get b hba
        have hcb' : c ∈ bo.kids := by simpa [Heap.fKids, hgb] using hcb
        obtain ⟨hca, co, hgc, hcp⟩ := hwf.kids_ok b hba bo hgb c hcb'
        have := (hr c hca co hgc).2 b hcp
        exact ⟨hca, by omega⟩
      have hn : 1 ≤ n := by
        cases hf : (to_add.flatMap h.fKids).filter (fun b => !(h.fKids b).isEmpty) with
        | nil => rw [hf] at he; simp at he
        | cons c t =>
          have hc : c ∈ (to_add.flatMap h.fKids).filter (fun b => !(h.fKids b).isEmpty) := by
            rw [hf]; exact List.mem_cons_self
          have hc' := (List.mem_filter.1 hc).1
          obtain ⟨hca, hcs⟩ := hkids c hc'
          obtain ⟨co, hgc⟩ := hwf.alive_get c hca
          have := (hr c hca co hgc).1
          omega
      apply ih _ _ hn
      intro b hbm
      exact hkids b (List.mem_filter.1 hbm).1

/-- whenever the generated query succeeds it is the model's step -/
theorem h_descendants_eq (h : Heap) (fuel i : Nat) (hi : (h.get i).isSome) (r : Heap × Option (List Nat))
    (hrun : Gen.h_descendants h fuel i = some r) (hnoself : ∀ n, i ∉ h.specDesc n [i]) :
    Heap.descendants h fuel i = r :=
  h_descendants_eq' h fuel i r hrun

/-- in every well-formed heap with sound caches it succeeds with the fuel the history machine uses -/
theorem h_descendants_total (h : Heap) (i : Nat) (hwf : P17.WF h) (hs : P17.Sound h) (hi : i ∈ h.alive) :
    Gen.h_descendants h h.size i = some (Heap.descendants h h.size i) := by
  obtain ⟨rk, hr⟩ := hwf.rank
  obtain ⟨o, hg⟩ := hwf.alive_get i hi
  have hgi : (h.get i).isSome := by simp [hg]
  suffices hsuff : ∃ r, Gen.h_descendants h h.size i = some r by
    obtain ⟨r, hrun⟩ := hsuff
    rw [hrun, h_descendants_eq' h h.size i r hrun]
  unfold Gen.h_descendants
  split
  · obtain ⟨r, hl⟩ := loop_total h i hwf rk hr hgi h.size [] [i] (by simp [Heap.size])
      (by intro b hb; simp at hb; subst hb; exact ⟨hi, by omega⟩)
    simp only [setDesc_eq, hl]
    exact ⟨_, rfl⟩
  · exact ⟨_, rfl⟩

end GenEq

#print axioms GenEq.h_descendants_eq
#print axioms GenEq.h_descendants_total
