import ADModel.PPV
import ADModel.Flux
import Mathlib.Tactic.Ring
import Mathlib.Tactic.FieldSimp
import Mathlib.Tactic.Linarith
import Mathlib.Algebra.Order.Field.Rat
/-!
# ADProofs.AnalysisProofs — PP/PPV axis conventions (C11), catalog wrap heuristic (C12),
flux conversion (C13)

All declarations live in namespace `P13`.
-/
open Mom

namespace P13

/-! ## C. Flux (C13) -/

theorem sumQ_append (xs ys : List Rat) : Flux.sumQ (xs ++ ys) = Flux.sumQ xs + Flux.sumQ ys := by
  induction xs with
  | nil => simp [Flux.sumQ]
  | cons x xs ih => simp [Flux.sumQ, ih, add_assoc]

theorem sumQ_map_mul_right (xs : List Rat) (s : Rat) :
    Flux.sumQ (xs.map (· * s)) = Flux.sumQ xs * s := by
  induction xs with
  | nil => simp [Flux.sumQ]
  | cons x xs ih => simp [Flux.sumQ, ih, add_mul]

theorem sumQ_map_mul_left (a : Rat) (xs : List Rat) :
    Flux.sumQ (xs.map (a * ·)) = a * Flux.sumQ xs := by
  induction xs with
  | nil => simp [Flux.sumQ]
  | cons x xs ih => simp [Flux.sumQ, ih, mul_add]

theorem sumQ_map_div (xs : List Rat) (k : Rat) :
    Flux.sumQ (xs.map (· / k)) = Flux.sumQ xs / k := by
  induction xs with
  | nil => simp [Flux.sumQ]
  | cons x xs ih => simp [Flux.sumQ, ih, add_div]

/-- closed form of the model's `total` -/
theorem total_eq (K : Consts) (fam : Family) (m : FMeta) (xs : List Rat) (scale outScale : Rat) :
    Flux.total K fam m xs scale outScale
      = Flux.sumQ xs * scale * Flux.factor K m fam / outScale := by
  simp [Flux.total, Flux.totalJy, sumQ_map_mul_right]

/-- C1: the flux of a union of disjoint pixel sets is the sum of the fluxes -/
theorem flux_additive (K : Consts) (fam : Family) (m : FMeta) (xs ys : List Rat)
    (scale outScale : Rat) :
    Flux.total K fam m (xs ++ ys) scale outScale
      = Flux.total K fam m xs scale outScale + Flux.total K fam m ys scale outScale := by
  simp only [total_eq, sumQ_append]
  ring

/-- C2: linearity in the data values -/
theorem flux_linear (K : Consts) (fam : Family) (m : FMeta) (a : Rat) (xs : List Rat)
    (scale outScale : Rat) :
    Flux.total K fam m (xs.map (a * ·)) scale outScale
      = a * Flux.total K fam m xs scale outScale := by
  simp only [total_eq, sumQ_map_mul_left]
  ring

/-- C3: the same physical inputs expressed in a unit `k` times larger -/
theorem flux_unit_invariant (K : Consts) (fam : Family) (m : FMeta) (k : Rat) (hk : k ≠ 0)
    (xs : List Rat) (scale outScale : Rat) :
    Flux.total K fam m (xs.map (· / k)) (scale * k) outScale
      = Flux.total K fam m xs scale outScale := by
  simp only [total_eq, sumQ_map_div]
  have : Flux.sumQ xs / k * (scale * k) = Flux.sumQ xs * scale := by
    field_simp
  rw [this]

/-- C3: output unit `k` times larger gives a number `k` times smaller
    (the hypotheses `ho`, `hk` are not needed by the proof: division by 0 is 0 on both sides) -/
theorem flux_output_unit (K : Consts) (fam : Family) (m : FMeta) (xs : List Rat) (scale : Rat)
    (o k : Rat) (_ho : o ≠ 0) (_hk : k ≠ 0) :
    Flux.total K fam m xs scale (o * k) = Flux.total K fam m xs scale o / k := by
  simp only [Flux.total]
  rw [div_mul_eq_div_div]

/-- C4: the `.temp` factor does not depend on the beam -/
theorem temp_beam_cancels (K : Consts) :
    ∀ m m' : FMeta, m.lam = m'.lam → m.pix = m'.pix →
      Flux.factor K m .temp = Flux.factor K m' .temp := by
  intro m m' h1 h2
  simp [Flux.factor, h1, h2]

/-- C4: Rayleigh–Jeans, `2 k T / λ²` per steradian -/
theorem temp_factor_eq (K : Consts) (m : FMeta) (hc : K.c ≠ 0) (hl : m.lam ≠ 0) :
    Flux.factor K m .temp = 2 * K.kB / (m.lam * m.lam) * (m.pix * m.pix) / K.jy := by
  simp only [Flux.factor]
  congr 2
  field_simp

/-! ### C5: error table -/

theorem checkAngle_eq_none (x : Option Flux.Dim) (e1 e2 : Flux.Outcome) :
    Flux.checkAngle x e1 e2 = none ↔ x = some .angle := by
  cases x with
  | none => simp [Flux.checkAngle]
  | some d => cases d <;> simp [Flux.checkAngle]

theorem orElse_eq_none {α : Type} (a : Option α) (b : Unit → Option α) :
    a.orElse b = none ↔ a = none ∧ b () = none := by
  cases a <;> simp [Option.orElse]

theorem orElse_eq_some {α : Type} (a : Option α) (b : Unit → Option α) (e : α) :
    a.orElse b = some e ↔ a = some e ∨ (a = none ∧ b () = some e) := by
  cases a <;> simp [Option.orElse]

theorem checkAngle_ne_ok (x : Option Flux.Dim) (e1 e2 : Flux.Outcome)
    (h1 : e1 ≠ .ok) (h2 : e2 ≠ .ok) : Flux.checkAngle x e1 e2 ≠ some .ok := by
  cases x with
  | none => simpa [Flux.checkAngle] using h2
  | some d => cases d <;> simp [Flux.checkAngle, h1]

/-- no metadata check ever returns `.ok` as an error -/
theorem metaCheck_ne_ok (input : Flux.Dim) (md : Flux.MetaDims) :
    Flux.metaCheck input md ≠ some .ok := by
  have ca := fun x e1 e2 h1 h2 => checkAngle_ne_ok x e1 e2 h1 h2
  cases input <;> simp only [Flux.metaCheck, ne_eq, orElse_eq_some, not_or, not_and] <;>
    (try (cases md.wavelength with
          | none => simp [ca]
          | some d => cases d <;> simp [ca]))

/-- which inputs pass all metadata checks -/
theorem metaCheck_eq_none (input : Flux.Dim) (md : Flux.MetaDims) :
    Flux.metaCheck input md = none ↔
      ( input = .fnu
      ∨ (input = .flambda ∧ md.wavelength = some .length)
      ∨ (input = .surf ∧ md.spatial = some .angle)
      ∨ (input = .perBeam ∧ md.spatial = some .angle ∧ md.bmaj = some .angle
            ∧ md.bmin = some .angle)
      ∨ (input = .temp ∧ md.spatial = some .angle ∧ md.bmaj = some .angle
            ∧ md.bmin = some .angle
            ∧ (md.wavelength = some .length ∨ md.wavelength = some .freq)) ) := by
  cases input <;>
    simp only [Flux.metaCheck, orElse_eq_none, checkAngle_eq_none] <;>
    (try (cases md.wavelength with
          | none => simp
          | some d => cases d <;> simp))

theorem outcome_ok_iff (input : Flux.Dim) (md : Flux.MetaDims) (output : Flux.Dim) :
    Flux.outcome input md output = .ok ↔
      output = .fnu ∧
      ( input = .fnu
      ∨ (input = .flambda ∧ md.wavelength = some .length)
      ∨ (input = .surf ∧ md.spatial = some .angle)
      ∨ (input = .perBeam ∧ md.spatial = some .angle ∧ md.bmaj = some .angle
            ∧ md.bmin = some .angle)
      ∨ (input = .temp ∧ md.spatial = some .angle ∧ md.bmaj = some .angle
            ∧ md.bmin = some .angle
            ∧ (md.wavelength = some .length ∨ md.wavelength = some .freq)) ) := by
  rw [← metaCheck_eq_none]
  unfold Flux.outcome
  cases hmc : Flux.metaCheck input md with
  | none =>
    by_cases ho : output = .fnu <;> simp [ho]
  | some e =>
    simp only [reduceCtorEq, and_false, iff_false]
    intro he
    subst he
    exact metaCheck_ne_ok input md hmc

theorem outcome_unsupported (input : Flux.Dim) (md : Flux.MetaDims) (output : Flux.Dim)
    (h : input ≠ .fnu ∧ input ≠ .flambda ∧ input ≠ .surf ∧ input ≠ .perBeam ∧ input ≠ .temp) :
    Flux.outcome input md output = .unsupported := by
  obtain ⟨h1, h2, h3, h4, h5⟩ := h
  cases input <;> first | contradiction | rfl

theorem outcome_missing_spatial (md : Flux.MetaDims) (output : Flux.Dim)
    (h : md.spatial = none) :
    Flux.outcome .surf md output = .spatialMissing
      ∧ Flux.outcome .perBeam md output = .spatialMissing
      ∧ Flux.outcome .temp md output = .spatialMissing := by
  simp [Flux.outcome, Flux.metaCheck, Flux.checkAngle, h, Option.orElse]

/-! ## A. PPV (C11) -/

/-- the transposition of one point performed by `PPV.toV0` -/
def T (vaxis : Nat) (p : Pt) : Pt :=
  let c := fun i => p.pos.getD i 0
  { p with pos := match vaxis with
    | 0 => [c 0, c 1, c 2]
    | 1 => [c 1, c 0, c 2]
    | _ => [c 2, c 0, c 1] }

/-- the index permutation: coordinate `k` of the transposed point is coordinate `σ vaxis k`
    of the original one -/
def σ (vaxis k : Nat) : Nat :=
  match vaxis, k with
  | 0, k => k
  | 1, 0 => 1
  | 1, 1 => 0
  | 1, k => k
  | _, 0 => 2
  | _, 1 => 0
  | _, _ => 1

theorem toV0_eq (vaxis : Nat) (ps : List Pt) : PPV.toV0 vaxis ps = ps.map (T vaxis) := rfl

theorem T_w (vaxis : Nat) (p : Pt) : (T vaxis p).w = p.w := rfl

theorem coord_T (vaxis : Nat) (hv : vaxis ≤ 2) (k : Nat) (hk : k ≤ 2) (p : Pt) :
    coord (T vaxis p) k = coord p (σ vaxis k) := by
  have hv' : vaxis = 0 ∨ vaxis = 1 ∨ vaxis = 2 := by omega
  have hk' : k = 0 ∨ k = 1 ∨ k = 2 := by omega
  rcases hv' with rfl | rfl | rfl <;> rcases hk' with rfl | rfl | rfl <;> rfl

theorem sumBy_map (f : Pt → Rat) (g : Pt → Pt) (ps : List Pt) :
    sumBy f (ps.map g) = sumBy (fun p => f (g p)) ps := by
  induction ps with
  | nil => rfl
  | cons p ps ih => simp [sumBy, ih]

theorem sumBy_congr (f g : Pt → Rat) (ps : List Pt) (h : ∀ p ∈ ps, f p = g p) :
    sumBy f ps = sumBy g ps := by
  induction ps with
  | nil => rfl
  | cons p ps ih =>
    simp only [sumBy]
    rw [h p (by simp), ih (fun q hq => h q (by simp [hq]))]

theorem mom0_toV0 (vaxis : Nat) (ps : List Pt) : mom0 (PPV.toV0 vaxis ps) = mom0 ps := by
  simp only [mom0, toV0_eq, sumBy_map, T_w]

theorem mom1_toV0 (vaxis : Nat) (hv : vaxis ≤ 2) (k : Nat) (hk : k ≤ 2) (ps : List Pt) :
    mom1 (PPV.toV0 vaxis ps) k = mom1 ps (σ vaxis k) := by
  unfold mom1
  rw [mom0_toV0, toV0_eq, sumBy_map]
  simp only [T_w, coord_T vaxis hv k hk]

theorem mom2_toV0 (vaxis : Nat) (hv : vaxis ≤ 2) (k l : Nat) (hk : k ≤ 2) (hl : l ≤ 2)
    (ps : List Pt) :
    mom2 (PPV.toV0 vaxis ps) k l = mom2 ps (σ vaxis k) (σ vaxis l) := by
  unfold mom2
  rw [mom0_toV0, mom1_toV0 vaxis hv k hk, mom1_toV0 vaxis hv l hl, toV0_eq, sumBy_map]
  simp only [T_w, coord_T vaxis hv k hk, coord_T vaxis hv l hl]

theorem skyPairs_toV0 (vaxis : Nat) (hv : vaxis ≤ 2) (k l : Nat) (hk : k ≤ 2) (hl : l ≤ 2)
    (ps : List Pt) :
    (PPV.toV0 vaxis ps).map (fun p => (coord p k, coord p l))
      = ps.map (fun p => (coord p (σ vaxis k), coord p (σ vaxis l))) := by
  rw [toV0_eq, List.map_map]
  apply List.map_congr_left
  intro p _
  simp only [Function.comp, coord_T vaxis hv k hk, coord_T vaxis hv l hl]

/-- A1: declaring another axis the velocity axis and transposing the data accordingly gives the
    same statistics.  (The hypothesis `h3` is not needed by the proof: `toV0` reads coordinates
    with `getD`, so the statement holds for points of any dimension.) -/
theorem vaxis_invariant (ps : List Pt) (vaxis : Nat) (hv : vaxis ≤ 2)
    (_h3 : ∀ p ∈ ps, p.pos.length = 3) :
    PPV.sigmaSqSum ps vaxis = PPV.sigmaSqSum (PPV.toV0 vaxis ps) 0 ∧
    PPV.sigmaSqProd ps vaxis = PPV.sigmaSqProd (PPV.toV0 vaxis ps) 0 ∧
    PPV.vrmsSq ps vaxis = PPV.vrmsSq (PPV.toV0 vaxis ps) 0 ∧
    PPV.xCen ps vaxis = PPV.xCen (PPV.toV0 vaxis ps) 0 ∧
    PPV.yCen ps vaxis = PPV.yCen (PPV.toV0 vaxis ps) 0 ∧
    PPV.vCen ps vaxis = PPV.vCen (PPV.toV0 vaxis ps) 0 ∧
    PPV.areaExact ps vaxis = PPV.areaExact (PPV.toV0 vaxis ps) 0 := by
  have m1 := fun k hk => mom1_toV0 vaxis hv k hk ps
  have m2 := fun k l hk hl => mom2_toV0 vaxis hv k l hk hl ps
  have sp := fun k l hk hl => skyPairs_toV0 vaxis hv k l hk hl ps
  have hv' : vaxis = 0 ∨ vaxis = 1 ∨ vaxis = 2 := by omega
  rcases hv' with rfl | rfl | rfl <;>
    simp [PPV.sigmaSqSum, PPV.sigmaSqProd, PPV.vrmsSq, PPV.xCen, PPV.yCen, PPV.vCen,
      PPV.areaExact, PPV.skyBlock, PPV.skyAxes, m1, m2, sp, σ]

/-- A2: the repaired embedding puts the zero at the velocity axis and keeps the sky components
    in order -/
theorem embed_zero_at_vaxis (vaxis : Nat) (hv : vaxis ≤ 2) (a : Rat × Rat) :
    (PPV.embed vaxis a).getD vaxis 1 = 0 ∧ (PPV.embed vaxis a).length = 3
      ∧ (PPV.embed vaxis a).eraseIdx vaxis = [a.1, a.2] := by
  have hv' : vaxis = 0 ∨ vaxis = 1 ∨ vaxis = 2 := by omega
  rcases hv' with rfl | rfl | rfl <;> simp [PPV.embed]

/-- A2: the defect that was repaired (witness) -/
theorem embedOld_wrong : ∃ a : Rat × Rat, PPV.embedOld 1 a ≠ PPV.embed 1 a := by
  refine ⟨(0, 0), ?_⟩
  simp [PPV.embedOld, PPV.embed]

theorem embedOld_ok_vaxis0 (a : Rat × Rat) : PPV.embedOld 0 a = PPV.embed 0 a := by
  simp [PPV.embedOld, PPV.embed]

/-! ### A3: positive semi-definiteness -/

theorem disc_nonneg (a b c : Rat) : 0 ≤ (a + c)^2 - 4 * (a*c - b*b) := by
  have : (a + c)^2 - 4 * (a*c - b*b) = (a - c)^2 + 4 * (b * b) := by ring
  rw [this]
  have h1 := sq_nonneg (a - c)
  have h2 := mul_self_nonneg b
  linarith

theorem scale_linear (dx c s : Rat) : (c * dx)^2 * s = c^2 * (dx^2 * s) := by ring

/-- a PSD 2×2 matrix `[[A, B], [B, C]]` has a non-negative quadratic form -/
theorem psd_form (A B C x y : Rat) (hA : 0 ≤ A) (hC : 0 ≤ C) (hdet : B * B ≤ A * C) :
    0 ≤ A * (y * y) - 2 * B * (x * y) + C * (x * x) := by
  rcases hA.lt_or_eq with hpos | hzero
  · have key : A * (A * (y * y) - 2 * B * (x * y) + C * (x * x))
        = (A * y - B * x) * (A * y - B * x) + (A * C - B * B) * (x * x) := by ring
    have h1 := mul_self_nonneg (A * y - B * x)
    have h2 : 0 ≤ (A * C - B * B) * (x * x) :=
      mul_nonneg (by linarith) (mul_self_nonneg x)
    have h3 : 0 ≤ A * (A * (y * y) - 2 * B * (x * y) + C * (x * x)) := by
      rw [key]; linarith
    exact nonneg_of_mul_nonneg_right h3 hpos
  · subst hzero
    have hB : B = 0 := by
      have h1 := mul_self_nonneg B
      have : B * B = 0 := by linarith
      exact mul_self_eq_zero.mp this
    subst hB
    have := mul_nonneg hC (mul_self_nonneg x)
    linarith

/-- one step of the weighted Cauchy–Schwarz induction -/
theorem cs_step (A B C u x y : Rat) (hA : 0 ≤ A) (hC : 0 ≤ C) (hdet : B * B ≤ A * C)
    (hu : 0 ≤ u) :
    (u * x * y + B) * (u * x * y + B) ≤ (u * x * x + A) * (u * y * y + C) := by
  have h := mul_nonneg hu (psd_form A B C x y hA hC hdet)
  have key : (u * x * x + A) * (u * y * y + C) - (u * x * y + B) * (u * x * y + B)
      = (A * C - B * B) + u * (A * (y * y) - 2 * B * (x * y) + C * (x * x)) := by ring
  linarith

/-- weighted Cauchy–Schwarz for `sumBy` -/
theorem cauchy_schwarz (u f g : Pt → Rat) (ps : List Pt) (hu : ∀ p ∈ ps, 0 ≤ u p) :
    0 ≤ sumBy (fun p => u p * f p * f p) ps ∧ 0 ≤ sumBy (fun p => u p * g p * g p) ps ∧
    sumBy (fun p => u p * f p * g p) ps * sumBy (fun p => u p * f p * g p) ps
      ≤ sumBy (fun p => u p * f p * f p) ps * sumBy (fun p => u p * g p * g p) ps := by
  induction ps with
  | nil => simp [sumBy]
  | cons p ps ih =>
    obtain ⟨hA, hC, hdet⟩ := ih (fun q hq => hu q (by simp [hq]))
    have hup := hu p (by simp)
    simp only [sumBy]
    refine ⟨?_, ?_, cs_step _ _ _ _ _ _ hA hC hdet hup⟩
    · have := mul_nonneg hup (mul_self_nonneg (f p))
      rw [mul_assoc]; linarith
    · have := mul_nonneg hup (mul_self_nonneg (g p))
      rw [mul_assoc]; linarith

/-- the covariance matrix is positive semi-definite on every pair of axes -/
theorem mom2_psd (ps : List Pt) (hw : ∀ p ∈ ps, 0 ≤ p.w) (hpos : 0 < mom0 ps) (i j : Nat) :
    0 ≤ mom2 ps i i ∧ 0 ≤ mom2 ps j j ∧ mom2 ps i j * mom2 ps i j ≤ mom2 ps i i * mom2 ps j j := by
  exact cauchy_schwarz (fun p => p.w / mom0 ps) (fun p => coord p i - mom1 ps i)
    (fun p => coord p j - mom1 ps j) ps (fun p hp => div_nonneg (hw p hp) hpos.le)

/-- A3: trace ≥ 0, determinant ≥ 0 (Cauchy–Schwarz), `v_rms² ≥ 0`: together with `disc_nonneg`
    both eigenvalues of the sky block are real and non-negative. -/
theorem sigmaSq_nonneg (ps : List Pt) (vaxis : Nat) (hw : ∀ p ∈ ps, 0 ≤ p.w)
    (hpos : 0 < Mom.mom0 ps) :
    0 ≤ PPV.sigmaSqSum ps vaxis ∧ 0 ≤ PPV.sigmaSqProd ps vaxis ∧ 0 ≤ PPV.vrmsSq ps vaxis := by
  obtain ⟨hA, hC, hdet⟩ := mom2_psd ps hw hpos (PPV.skyAxes vaxis).1 (PPV.skyAxes vaxis).2
  refine ⟨?_, ?_, (mom2_psd ps hw hpos vaxis vaxis).1⟩
  · simp only [PPV.sigmaSqSum, PPV.skyBlock]
    linarith
  · simp only [PPV.sigmaSqProd, PPV.skyBlock]
    linarith

/-! ## B. Catalog wrap heuristic (C12) -/

open Catalog

/-- the candidate re-indexing `where(i < n/2, i + n, i)` -/
def wrapF (n : Nat) (x : Rat) : Rat := if 2 * x < (n : Rat) then x + n else x

theorem wrapAxis_def (n : Nat) (xs : List Rat) :
    wrapAxis n xs = if ptp (xs.map (wrapF n)) < ptp xs then xs.map (wrapF n) else xs := rfl

theorem foldl_max_ge_init (xs : List Rat) (a : Rat) : a ≤ xs.foldl max a := by
  induction xs generalizing a with
  | nil => simp
  | cons x xs ih => exact le_trans (le_max_left a x) (ih (max a x))

theorem foldl_max_ge_mem (xs : List Rat) (a x : Rat) (hx : x ∈ xs) : x ≤ xs.foldl max a := by
  induction xs generalizing a with
  | nil => simp at hx
  | cons y ys ih =>
    rcases List.mem_cons.mp hx with rfl | h
    · exact le_trans (le_max_right a x) (foldl_max_ge_init ys (max a x))
    · exact ih (max a y) h

theorem foldl_min_le_init (xs : List Rat) (a : Rat) : xs.foldl min a ≤ a := by
  induction xs generalizing a with
  | nil => simp
  | cons x xs ih => exact le_trans (ih (min a x)) (min_le_left a x)

theorem foldl_min_le_mem (xs : List Rat) (a x : Rat) (hx : x ∈ xs) : xs.foldl min a ≤ x := by
  induction xs generalizing a with
  | nil => simp at hx
  | cons y ys ih =>
    rcases List.mem_cons.mp hx with rfl | h
    · exact le_trans (foldl_min_le_init ys (min a x)) (min_le_right a x)
    · exact ih (min a y) h

/-- `maxQ` bounds every element -/
theorem le_maxQ (xs : List Rat) (x : Rat) (hx : x ∈ xs) : x ≤ maxQ xs := by
  cases xs with
  | nil => simp at hx
  | cons a as =>
    rcases List.mem_cons.mp hx with rfl | h
    · exact foldl_max_ge_init as x
    · exact foldl_max_ge_mem as a x h

/-- `minQ` bounds every element -/
theorem minQ_le (xs : List Rat) (x : Rat) (hx : x ∈ xs) : minQ xs ≤ x := by
  cases xs with
  | nil => simp at hx
  | cons a as =>
    rcases List.mem_cons.mp hx with rfl | h
    · exact foldl_min_le_init as x
    · exact foldl_min_le_mem as a x h

theorem foldl_max_mem (xs : List Rat) (a : Rat) : xs.foldl max a ∈ a :: xs := by
  induction xs generalizing a with
  | nil => simp
  | cons x xs ih =>
    have h := ih (max a x)
    simp only [List.foldl_cons]
    rcases List.mem_cons.mp h with h | h
    · rw [h]
      rcases max_choice a x with h' | h' <;> simp [h']
    · simp [h]

theorem foldl_min_mem (xs : List Rat) (a : Rat) : xs.foldl min a ∈ a :: xs := by
  induction xs generalizing a with
  | nil => simp
  | cons x xs ih =>
    have h := ih (min a x)
    simp only [List.foldl_cons]
    rcases List.mem_cons.mp h with h | h
    · rw [h]
      rcases min_choice a x with h' | h' <;> simp [h']
    · simp [h]

/-- the maximum is attained -/
theorem maxQ_mem (xs : List Rat) (hne : xs ≠ []) : maxQ xs ∈ xs := by
  cases xs with
  | nil => exact absurd rfl hne
  | cons a as => exact foldl_max_mem as a

/-- the minimum is attained -/
theorem minQ_mem (xs : List Rat) (hne : xs ≠ []) : minQ xs ∈ xs := by
  cases xs with
  | nil => exact absurd rfl hne
  | cons a as => exact foldl_min_mem as a

theorem minQ_le_maxQ (xs : List Rat) : minQ xs ≤ maxQ xs := by
  cases xs with
  | nil => simp [minQ, maxQ]
  | cons a as => exact le_trans (minQ_le _ a (by simp)) (le_maxQ _ a (by simp))

theorem ptp_nonneg (xs : List Rat) : 0 ≤ ptp xs := by
  have := minQ_le_maxQ xs
  unfold ptp; linarith

/-- `maxQ`/`minQ` commute with monotone maps -/
theorem foldl_max_map_mono (f : Rat → Rat) (hf : ∀ a b, a ≤ b → f a ≤ f b) (xs : List Rat)
    (a : Rat) : (xs.map f).foldl max (f a) = f (xs.foldl max a) := by
  induction xs generalizing a with
  | nil => rfl
  | cons x xs ih =>
    simp only [List.map_cons, List.foldl_cons]
    have : max (f a) (f x) = f (max a x) := by
      rcases le_total a x with h | h
      · rw [max_eq_right h, max_eq_right (hf _ _ h)]
      · rw [max_eq_left h, max_eq_left (hf _ _ h)]
    rw [this, ih]

theorem foldl_min_map_mono (f : Rat → Rat) (hf : ∀ a b, a ≤ b → f a ≤ f b) (xs : List Rat)
    (a : Rat) : (xs.map f).foldl min (f a) = f (xs.foldl min a) := by
  induction xs generalizing a with
  | nil => rfl
  | cons x xs ih =>
    simp only [List.map_cons, List.foldl_cons]
    have : min (f a) (f x) = f (min a x) := by
      rcases le_total a x with h | h
      · rw [min_eq_left h, min_eq_left (hf _ _ h)]
      · rw [min_eq_right h, min_eq_right (hf _ _ h)]
    rw [this, ih]

theorem maxQ_map_mono (f : Rat → Rat) (hf : ∀ a b, a ≤ b → f a ≤ f b) (xs : List Rat)
    (hne : xs ≠ []) : maxQ (xs.map f) = f (maxQ xs) := by
  cases xs with
  | nil => exact absurd rfl hne
  | cons a as => exact foldl_max_map_mono f hf as a

theorem minQ_map_mono (f : Rat → Rat) (hf : ∀ a b, a ≤ b → f a ≤ f b) (xs : List Rat)
    (hne : xs ≠ []) : minQ (xs.map f) = f (minQ xs) := by
  cases xs with
  | nil => exact absurd rfl hne
  | cons a as => exact foldl_min_map_mono f hf as a

/-- peak-to-peak width is translation invariant -/
theorem ptp_map_add (c : Rat) (xs : List Rat) : ptp (xs.map (· + c)) = ptp xs := by
  by_cases hne : xs = []
  · subst hne; rfl
  · have hf : ∀ a b : Rat, a ≤ b → a + c ≤ b + c := fun a b h => by linarith
    unfold ptp
    rw [maxQ_map_mono (· + c) hf xs hne, minQ_map_mono (· + c) hf xs hne]
    ring

/-- B1: the heuristic returns either the input or the candidate re-indexing -/
theorem wrapAxis_cases (n : Nat) (xs : List Rat) :
    Catalog.wrapAxis n xs = xs ∨
    Catalog.wrapAxis n xs = xs.map (fun x => if 2 * x < (n:Rat) then x + n else x) := by
  unfold Catalog.wrapAxis
  simp only
  split
  · exact Or.inr rfl
  · exact Or.inl rfl

/-- B1: the heuristic never makes a structure wider -/
theorem wrapAxis_ptp_le (n : Nat) (xs : List Rat) :
    Catalog.ptp (Catalog.wrapAxis n xs) ≤ Catalog.ptp xs := by
  rw [wrapAxis_def]
  split
  · next h => exact le_of_lt h
  · exact le_refl _

/-- B2: all coordinates in the lower half: the candidate is a translate, nothing changes.
    (`hne` is not needed by the proof.) -/
theorem wrapAxis_noop_low (n : Nat) (xs : List Rat) (_hne : xs ≠ [])
    (h : ∀ x ∈ xs, 2 * x < (n:Rat)) : Catalog.wrapAxis n xs = xs := by
  have hmap : xs.map (wrapF n) = xs.map (· + (n : Rat)) := by
    apply List.map_congr_left
    intro x hx
    simp [wrapF, h x hx]
  rw [wrapAxis_def, hmap, ptp_map_add]
  simp

/-- B2: all coordinates in the upper half: the candidate is the input, nothing changes -/
theorem wrapAxis_noop_high (n : Nat) (xs : List Rat) (h : ∀ x ∈ xs, ¬ 2 * x < (n:Rat)) :
    Catalog.wrapAxis n xs = xs := by
  have hmap : xs.map (wrapF n) = xs := by
    conv => rhs; rw [← List.map_id xs]
    apply List.map_congr_left
    intro x hx
    simp [wrapF, h x hx]
  rw [wrapAxis_def, hmap]
  simp

/-- B1 (general form): a structure narrower than half the axis is never re-indexed -/
theorem wrapAxis_noop_of_narrow' (n : Nat) (xs : List Rat)
    (hint : Catalog.ptp xs < (n:Rat) / 2) : Catalog.wrapAxis n xs = xs := by
  by_cases hlow : ∀ x ∈ xs, 2 * x < (n:Rat)
  · by_cases hne : xs = []
    · subst hne; simp [wrapAxis_def]
    · exact wrapAxis_noop_low n xs hne hlow
  by_cases hhigh : ∀ x ∈ xs, ¬ 2 * x < (n:Rat)
  · exact wrapAxis_noop_high n xs hhigh
  -- straddling the middle: some `l` low, some `u` high
  simp only [not_forall] at hlow hhigh
  obtain ⟨u, hu, hu'⟩ := hlow
  obtain ⟨l, hl, hl'⟩ := hhigh
  have hl'' : 2 * l < (n:Rat) := not_not.mp hl'
  rw [wrapAxis_def]
  have h1 : l + n ≤ maxQ (xs.map (wrapF n)) := by
    apply le_maxQ
    exact List.mem_map.mpr ⟨l, hl, by simp [wrapF, hl'']⟩
  have h2 : minQ (xs.map (wrapF n)) ≤ u := by
    apply minQ_le
    exact List.mem_map.mpr ⟨u, hu, by simp [wrapF, hu']⟩
  have h3 : u ≤ maxQ xs := le_maxQ xs u hu
  have h4 : minQ xs ≤ l := minQ_le xs l hl
  have hnot : ¬ ptp (xs.map (wrapF n)) < ptp xs := by
    unfold ptp at hint ⊢
    intro hlt
    linarith
  simp [hnot]

/-- B1: coordinates inside the axis and narrower than half the axis: nothing changes
    (the range hypothesis `h` is not needed, see `wrapAxis_noop_of_narrow'`) -/
theorem wrapAxis_noop_of_narrow (n : Nat) (xs : List Rat) (_h : ∀ x ∈ xs, 0 ≤ x ∧ x < n)
    (hint : Catalog.ptp xs < (n:Rat) / 2) : Catalog.wrapAxis n xs = xs :=
  wrapAxis_noop_of_narrow' n xs hint

/-- B3: if the candidate is strictly more compact it is used -/
theorem wrapAxis_unwraps (n : Nat) (xs : List Rat)
    (h : Catalog.ptp (xs.map (fun x => if 2 * x < (n:Rat) then x + n else x)) < Catalog.ptp xs) :
    Catalog.wrapAxis n xs = xs.map (fun x => if 2 * x < (n:Rat) then x + n else x) := by
  unfold Catalog.wrapAxis
  simp only
  rw [if_pos h]

/-- B3: every coordinate moves by 0 or exactly one period -/
theorem wrapped_congruent (n : Nat) (x : Rat) :
    (if 2 * x < (n:Rat) then x + n else x) - x = 0 ∨
    (if 2 * x < (n:Rat) then x + n else x) - x = n := by
  split
  · right; ring
  · left; ring

/-- B3 (explicit form): a structure straddling the edge is unwrapped when wrapping is more
    compact.  Coordinates in `[0, n)`, low part `L` and high part `H` both non-empty; then the
    candidate's width is `(max L + n) − min H`, and if that is smaller than the width of `xs` the
    candidate is returned. -/
theorem wrapAxis_unwraps_straddle (n : Nat) (xs : List Rat)
    (hr : ∀ x ∈ xs, 0 ≤ x ∧ x < n)
    (hL : xs.filter (fun x => decide (2 * x < (n:Rat))) ≠ [])
    (hH : xs.filter (fun x => decide (¬ 2 * x < (n:Rat))) ≠ [])
    (hc : (maxQ (xs.filter (fun x => decide (2 * x < (n:Rat)))) + n)
            - minQ (xs.filter (fun x => decide (¬ 2 * x < (n:Rat)))) < ptp xs) :
    Catalog.wrapAxis n xs = xs.map (fun x => if 2 * x < (n:Rat) then x + n else x) := by
  apply wrapAxis_unwraps
  refine lt_of_le_of_lt ?_ hc
  have hne : xs ≠ [] := by
    intro h; subst h; simp at hL
  have hne' : xs.map (wrapF n) ≠ [] := by simpa using hne
  -- the maximum of the candidate is `l + n` for a low `l`, the minimum is a high `u`
  have hMl := maxQ_mem _ hL
  have hmH := minQ_mem _ hH
  simp only [List.mem_filter, decide_eq_true_eq] at hMl hmH
  change ptp (xs.map (wrapF n)) ≤ _
  unfold ptp
  have hmax : maxQ (xs.map (wrapF n))
      ≤ maxQ (xs.filter (fun x => decide (2 * x < (n:Rat)))) + n := by
    obtain ⟨y, hy, hye⟩ := List.mem_map.mp (maxQ_mem _ hne')
    rw [← hye]
    by_cases hy2 : 2 * y < (n:Rat)
    · have : y ≤ maxQ (xs.filter (fun x => decide (2 * x < (n:Rat)))) :=
        le_maxQ _ y (by simp [List.mem_filter, hy, hy2])
      simp only [wrapF, hy2, if_true]; linarith
    · have h1 := (hr y hy).2
      have h2 := (hr _ hMl.1).1
      simp only [wrapF, hy2, if_false]; linarith
  have hmin : minQ (xs.filter (fun x => decide (¬ 2 * x < (n:Rat))))
      ≤ minQ (xs.map (wrapF n)) := by
    obtain ⟨y, hy, hye⟩ := List.mem_map.mp (minQ_mem _ hne')
    rw [← hye]
    by_cases hy2 : 2 * y < (n:Rat)
    · have h1 := (hr _ hmH.1).2
      have h2 := (hr y hy).1
      simp only [wrapF, hy2, if_true]; linarith
    · have : minQ (xs.filter (fun x => decide (¬ 2 * x < (n:Rat)))) ≤ y :=
        minQ_le _ y (by simp [List.mem_filter, hy, not_lt.mp hy2])
      simp only [wrapF, hy2, if_false]; exact this
  linarith

end P13
