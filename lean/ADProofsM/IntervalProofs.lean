import ADModel.PPV
import ADProofsM.AnalysisProofs
import Mathlib.Tactic.Linarith
import Mathlib.Tactic.Ring
import Mathlib.Algebra.Order.Field.Rat
/-!
# ADProofsM.IntervalProofs — the edge-wrap heuristic never alters a structure whose occupied
coordinates along an axis form an interval of `[0, n)` (property C12, non-periodic data)

All declarations live in namespace `P29`.
-/

namespace P29

open Catalog

/-- the occupied coordinates along one axis form an interval -/
def IsInterval (xs : List Nat) : Prop := ∀ a ∈ xs, ∀ b ∈ xs, ∀ c, a ≤ c → c ≤ b → c ∈ xs

/-- A2: "whenever `a` and a larger `b` are present, `a + 1` is present" (the projection of a
    connected pixel set on a non-periodic axis moves by at most one per step) implies that the
    occupied coordinates form an interval. -/
theorem isInterval_of_succ_closed (xs : List Nat)
    (h : ∀ a ∈ xs, ∀ b ∈ xs, a < b → a + 1 ∈ xs) : IsInterval xs := by
  intro a ha b hb c hac hcb
  -- induction on `c - a`
  obtain ⟨d, rfl⟩ : ∃ d, c = a + d := ⟨c - a, by omega⟩
  clear hac
  induction d with
  | zero => simpa using ha
  | succ d ih =>
    have hd : a + d ∈ xs := ih (by omega)
    have := h (a + d) hd b hb (by omega)
    simpa [Nat.add_assoc] using this

/-- the converse of A2: an interval is closed under "successor below a present element" -/
theorem succ_closed_of_isInterval (xs : List Nat) (hi : IsInterval xs) :
    ∀ a ∈ xs, ∀ b ∈ xs, a < b → a + 1 ∈ xs :=
  fun a ha b hb hab => hi a ha b hb (a + 1) (by omega) (by omega)

theorem isInterval_iff_succ_closed (xs : List Nat) :
    IsInterval xs ↔ ∀ a ∈ xs, ∀ b ∈ xs, a < b → a + 1 ∈ xs :=
  ⟨succ_closed_of_isInterval xs, isInterval_of_succ_closed xs⟩

/-- the discrete crossing point: between a "low" `a` (`2a < n`) and a "high" `b` (`n ≤ 2b`)
    there is a largest low coordinate `m`, with `m + 1` high -/
theorem crossing (n a b : Nat) (ha : 2 * a < n) (hb : ¬ 2 * b < n) :
    ∃ m, a ≤ m ∧ m + 1 ≤ b ∧ 2 * m < n ∧ ¬ 2 * (m + 1) < n :=
  ⟨(n - 1) / 2, by omega, by omega, by omega, by omega⟩

/-- width of an in-range list: `ptp ≤ n − 1` -/
theorem ptp_le_of_range (n : Nat) (xs : List Nat) (hne : xs ≠ []) (hr : ∀ x ∈ xs, x < n) :
    ptp (xs.map (fun (x : Nat) => (x : Rat))) ≤ (n : Rat) - 1 := by
  have hne' : xs.map (fun (x : Nat) => (x : Rat)) ≠ [] := by simpa using hne
  obtain ⟨M, hM, hMe⟩ := List.mem_map.mp (P13.maxQ_mem _ hne')
  obtain ⟨m, _, hme⟩ := List.mem_map.mp (P13.minQ_mem _ hne')
  have h1 : (M : Rat) + 1 ≤ (n : Rat) := by exact_mod_cast hr M hM
  have h2 : (0 : Rat) ≤ (m : Rat) := by exact_mod_cast Nat.zero_le m
  unfold ptp
  rw [← hMe, ← hme]
  linarith

/-- A1: if the occupied coordinates form an interval of `[0, n)` the edge-wrap heuristic changes
    nothing.  (The binder of the cast is annotated `(x : Nat)`: without the annotation Lean
    elaborates `fun x => (x : Rat)` with `x : Rat` and then tries to coerce the list `xs`.) -/
theorem wrap_noop_of_interval (n : Nat) (xs : List Nat) (hne : xs ≠ []) (hr : ∀ x ∈ xs, x < n)
    (hi : IsInterval xs) :
    Catalog.wrapAxis n (xs.map (fun (x : Nat) => (x : Rat))) = xs.map (fun (x : Nat) => (x : Rat)) := by
  have hne' : xs.map (fun (x : Nat) => (x : Rat)) ≠ [] := by simpa using hne
  by_cases hlow : ∀ x ∈ xs, 2 * x < n
  · apply P13.wrapAxis_noop_low n _ hne'
    intro y hy
    obtain ⟨x, hx, rfl⟩ := List.mem_map.mp hy
    exact_mod_cast hlow x hx
  by_cases hhigh : ∀ x ∈ xs, ¬ 2 * x < n
  · apply P13.wrapAxis_noop_high n _
    intro y hy
    obtain ⟨x, hx, rfl⟩ := List.mem_map.mp hy
    have := hhigh x hx
    exact_mod_cast this
  -- straddling the middle
  simp only [not_forall] at hlow hhigh
  obtain ⟨b, hb, hb'⟩ := hlow
  obtain ⟨a, ha, ha'⟩ := hhigh
  have ha'' : 2 * a < n := not_not.mp ha'
  obtain ⟨m, ham, hmb, hm, hm'⟩ := crossing n a b ha'' hb'
  have hmx : m ∈ xs := hi a ha b hb m ham (by omega)
  have hmx' : m + 1 ∈ xs := hi a ha b hb (m + 1) (by omega) hmb
  have hmQ : 2 * (m : Rat) < (n : Rat) := by exact_mod_cast hm
  have hmQ' : ¬ 2 * (((m + 1 : Nat)) : Rat) < (n : Rat) := by exact_mod_cast hm'
  rw [P13.wrapAxis_def]
  have h1 : (m : Rat) + n ≤ maxQ ((xs.map (fun (x : Nat) => (x : Rat))).map (P13.wrapF n)) := by
    apply P13.le_maxQ
    exact List.mem_map.mpr ⟨(m : Rat), List.mem_map.mpr ⟨m, hmx, rfl⟩, by simp [P13.wrapF, hmQ]⟩
  have h2 : minQ ((xs.map (fun (x : Nat) => (x : Rat))).map (P13.wrapF n)) ≤ ((m + 1 : Nat) : Rat) := by
    apply P13.minQ_le
    exact List.mem_map.mpr ⟨((m + 1 : Nat) : Rat), List.mem_map.mpr ⟨m + 1, hmx', rfl⟩,
      by simp only [P13.wrapF, hmQ', if_false]⟩
  have h3 := ptp_le_of_range n xs hne hr
  have hnot : ¬ ptp ((xs.map (fun (x : Nat) => (x : Rat))).map (P13.wrapF n))
      < ptp (xs.map (fun (x : Nat) => (x : Rat))) := by
    intro hlt
    have h4 : ((m + 1 : Nat) : Rat) = (m : Rat) + 1 := by push_cast; ring
    unfold ptp at hlt h3
    linarith
  rw [if_neg hnot]

end P29
