import ADModel.Moments
import Mathlib.Tactic.Ring
import Mathlib.Tactic.FieldSimp
import Mathlib.Tactic.Linarith
import Mathlib.Tactic.Positivity
import Mathlib.Algebra.Order.Field.Rat

/-!
# P11 — intensity-weighted moments are the mathematical moments (property C10)

All statements are about the fixed model `ADModel/Moments.lean` over exact rationals.
-/

namespace P11

open Mom

/-! ## 1. `sumBy` is a linear functional -/

@[simp] theorem sumBy_nil (f : Pt → Rat) : sumBy f [] = 0 := rfl

@[simp] theorem sumBy_cons (f : Pt → Rat) (p : Pt) (ps : List Pt) :
    sumBy f (p :: ps) = f p + sumBy f ps := rfl

theorem sumBy_congr {f g : Pt → Rat} {ps : List Pt} (h : ∀ p ∈ ps, f p = g p) :
    sumBy f ps = sumBy g ps := by
  induction ps with
  | nil => rfl
  | cons p ps ih =>
    simp only [sumBy_cons]
    rw [h p (by simp), ih (fun q hq => h q (by simp [hq]))]

theorem sumBy_zero (ps : List Pt) : sumBy (fun _ => 0) ps = 0 := by
  induction ps with
  | nil => rfl
  | cons p ps ih => simp [ih]

theorem sumBy_add (f g : Pt → Rat) (ps : List Pt) :
    sumBy (fun p => f p + g p) ps = sumBy f ps + sumBy g ps := by
  induction ps with
  | nil => simp
  | cons p ps ih => simp only [sumBy_cons, ih]; ring

theorem sumBy_sub (f g : Pt → Rat) (ps : List Pt) :
    sumBy (fun p => f p - g p) ps = sumBy f ps - sumBy g ps := by
  induction ps with
  | nil => simp
  | cons p ps ih => simp only [sumBy_cons, ih]; ring

theorem sumBy_mul_left (c : Rat) (f : Pt → Rat) (ps : List Pt) :
    sumBy (fun p => c * f p) ps = c * sumBy f ps := by
  induction ps with
  | nil => simp
  | cons p ps ih => simp only [sumBy_cons, ih]; ring

theorem sumBy_mul_right (c : Rat) (f : Pt → Rat) (ps : List Pt) :
    sumBy (fun p => f p * c) ps = sumBy f ps * c := by
  induction ps with
  | nil => simp
  | cons p ps ih => simp only [sumBy_cons, ih]; ring

theorem sumBy_div_right (c : Rat) (f : Pt → Rat) (ps : List Pt) :
    sumBy (fun p => f p / c) ps = sumBy f ps / c := by
  simp only [div_eq_mul_inv]; exact sumBy_mul_right _ _ _

theorem sumBy_append (f : Pt → Rat) (a b : List Pt) :
    sumBy f (a ++ b) = sumBy f a + sumBy f b := by
  induction a with
  | nil => simp
  | cons p ps ih => simp only [List.cons_append, sumBy_cons, ih]; ring

/-- constant function: `Σ c = count * c` -/
theorem sumBy_const (c : Rat) (ps : List Pt) :
    sumBy (fun _ => c) ps = (count ps : Rat) * c := by
  induction ps with
  | nil => simp [count]
  | cons p ps ih =>
    simp only [sumBy_cons, ih, count, List.length_cons, Nat.cast_succ]; ring

/-- constant times the weight: `Σ c * w = c * mom0` -/
theorem sumBy_const_mul_w (c : Rat) (ps : List Pt) :
    sumBy (fun p => c * p.w) ps = c * mom0 ps := sumBy_mul_left c _ ps

theorem sumBy_map (f : Pt → Rat) (h : Pt → Pt) (ps : List Pt) :
    sumBy f (ps.map h) = sumBy (fun p => f (h p)) ps := by
  induction ps with
  | nil => rfl
  | cons p ps ih => simp [ih]

theorem sumBy_nonneg {f : Pt → Rat} {ps : List Pt} (h : ∀ p ∈ ps, 0 ≤ f p) :
    0 ≤ sumBy f ps := by
  induction ps with
  | nil => simp
  | cons p ps ih =>
    simp only [sumBy_cons]
    have h1 := h p (by simp)
    have h2 := ih (fun q hq => h q (by simp [hq]))
    linarith

/-- `sumBy` is the `List.sum` of the mapped list. -/
theorem sumBy_eq_sum (f : Pt → Rat) (ps : List Pt) : sumBy f ps = (ps.map f).sum := by
  induction ps with
  | nil => rfl
  | cons p ps ih => simp [ih]

/-! ## 2. `mom0` over a split -/

theorem mom0_append (a b : List Pt) : Mom.mom0 (a ++ b) = Mom.mom0 a + Mom.mom0 b :=
  sumBy_append _ a b

/-! ## 3. `mom1` is the weighted mean -/

theorem mom1_weighted_mean (ps : List Pt) (i : Nat) (h0 : Mom.mom0 ps ≠ 0) :
    Mom.mom1 ps i * Mom.mom0 ps = Mom.sumBy (fun p => Mom.coord p i * p.w) ps := by
  unfold mom1
  exact div_mul_cancel₀ _ h0

/-! ## 4. `mom2` is symmetric -/

theorem mom2_symm (ps : List Pt) (i j : Nat) : Mom.mom2 ps i j = Mom.mom2 ps j i := by
  unfold mom2
  apply sumBy_congr
  intro p _
  ring

/-! ## 5. `mom2` is the covariance `E[xy] − E[x]E[y]` -/

theorem mom2_is_covariance (ps : List Pt) (i j : Nat) (h0 : Mom.mom0 ps ≠ 0) :
    Mom.mom2 ps i j =
      Mom.sumBy (fun p => p.w * Mom.coord p i * Mom.coord p j) ps / Mom.mom0 ps
        - Mom.mom1 ps i * Mom.mom1 ps j := by
  have hi := mom1_weighted_mean ps i h0
  have hj := mom1_weighted_mean ps j h0
  unfold mom2
  have e : ∀ p : Pt,
      p.w / mom0 ps * (coord p i - mom1 ps i) * (coord p j - mom1 ps j)
        = (1 / mom0 ps) * (p.w * coord p i * coord p j)
          - (mom1 ps j / mom0 ps) * (coord p i * p.w)
          - (mom1 ps i / mom0 ps) * (coord p j * p.w)
          + (mom1 ps i * mom1 ps j / mom0 ps) * p.w := by
    intro p; ring
  rw [sumBy_congr (fun p _ => e p), sumBy_add, sumBy_sub, sumBy_sub,
    sumBy_mul_left, sumBy_mul_left, sumBy_mul_left, sumBy_mul_left, ← hi, ← hj]
  change _ = _ / mom0 ps - _
  have hm : sumBy (fun p => p.w) ps = mom0 ps := rfl
  rw [hm]
  field_simp
  ring

/-! ## 6. translation -/

theorem coord_translate (t : List Rat) (p : Pt) (i : Nat) (hi : i < p.pos.length) :
    coord { p with pos := (List.range p.pos.length).map fun i => p.pos.getD i 0 + t.getD i 0 } i
      = coord p i + t.getD i 0 := by
  simp [coord, List.getD_eq_getElem?_getD, List.getElem?_map, List.getElem?_range hi]

theorem mom0_translate (t : List Rat) (ps : List Pt) :
    Mom.mom0 (Mom.translate t ps) = Mom.mom0 ps := by
  unfold mom0 translate
  rw [sumBy_map]

theorem sumBy_translate (t : List Rat) (ps : List Pt) (nd : Nat)
    (hlen : ∀ p ∈ ps, p.pos.length = nd) (F : Pt → Rat) (G : Pt → Rat)
    (hFG : ∀ p : Pt, p.pos.length = nd →
      F { p with pos := (List.range p.pos.length).map fun i => p.pos.getD i 0 + t.getD i 0 } = G p) :
    sumBy F (translate t ps) = sumBy G ps := by
  unfold translate
  rw [sumBy_map]
  exact sumBy_congr (fun p hp => hFG p (hlen p hp))

theorem mom1_translate (t : List Rat) (ps : List Pt) (nd i : Nat)
    (hlen : ∀ p ∈ ps, p.pos.length = nd) (hi : i < nd) (h0 : Mom.mom0 ps ≠ 0) :
    Mom.mom1 (Mom.translate t ps) i = Mom.mom1 ps i + t.getD i 0 := by
  unfold mom1
  rw [mom0_translate]
  rw [sumBy_translate t ps nd hlen _ (fun p => coord p i * p.w + t.getD i 0 * p.w)]
  · rw [sumBy_add, sumBy_mul_left]
    have hm : sumBy (fun p => p.w) ps = mom0 ps := rfl
    rw [hm]
    field_simp
  · intro p hp
    rw [coord_translate t p i (by omega)]
    ring

theorem mom2_translate_invariant (t : List Rat) (ps : List Pt) (nd i j : Nat)
    (hlen : ∀ p ∈ ps, p.pos.length = nd) (hi : i < nd) (hj : j < nd) (h0 : Mom.mom0 ps ≠ 0) :
    Mom.mom2 (Mom.translate t ps) i j = Mom.mom2 ps i j := by
  unfold mom2
  rw [mom0_translate, mom1_translate t ps nd i hlen hi h0, mom1_translate t ps nd j hlen hj h0]
  apply sumBy_translate t ps nd hlen
  intro p hp
  rw [coord_translate t p i (by omega), coord_translate t p j (by omega)]
  ring

/-! ## 7. positive semi-definiteness -/

theorem foldr_add_eq_sum (l : List Rat) : l.foldr (· + ·) 0 = l.sum := rfl

theorem sum_map_mul_left' {α : Type} (L : List α) (c : Rat) (f : α → Rat) :
    (L.map fun a => c * f a).sum = c * (L.map f).sum := by
  induction L with
  | nil => simp
  | cons a L ih => simp only [List.map_cons, List.sum_cons, ih]; ring

theorem sum_map_mul_right' {α : Type} (L : List α) (c : Rat) (f : α → Rat) :
    (L.map fun a => f a * c).sum = (L.map f).sum * c := by
  induction L with
  | nil => simp
  | cons a L ih => simp only [List.map_cons, List.sum_cons, ih]; ring

theorem sum_map_congr' {α : Type} (L : List α) (f g : α → Rat) (h : ∀ a ∈ L, f a = g a) :
    (L.map f).sum = (L.map g).sum := by
  induction L with
  | nil => rfl
  | cons a L ih =>
    simp only [List.map_cons, List.sum_cons]
    rw [h a (by simp), ih (fun b hb => h b (by simp [hb]))]

/-- exchange a finite index sum with `sumBy` -/
theorem sum_sumBy_exchange {α : Type} (L : List α) (F : α → Pt → Rat) (ps : List Pt) :
    (L.map fun a => sumBy (F a) ps).sum = sumBy (fun p => (L.map fun a => F a p).sum) ps := by
  induction L with
  | nil => simp [sumBy_zero]
  | cons a L ih => simp only [List.map_cons, List.sum_cons, ih, sumBy_add]

/-- general bilinear form of the second moment: `u M vᵀ` as a weighted sum of products -/
theorem bilin_eq_sum (ps : List Pt) (L1 L2 : List Nat) (u v : Nat → Rat) :
    (L1.map fun i => (L2.map fun j => u i * mom2 ps i j * v j).sum).sum
      = sumBy (fun p => (p.w / mom0 ps)
          * ((L1.map fun i => u i * (coord p i - mom1 ps i)).sum
              * (L2.map fun j => v j * (coord p j - mom1 ps j)).sum)) ps := by
  have inner : ∀ i, (L2.map fun j => u i * mom2 ps i j * v j).sum
      = sumBy (fun p => (p.w / mom0 ps) * (u i * (coord p i - mom1 ps i)
          * (L2.map fun j => v j * (coord p j - mom1 ps j)).sum)) ps := by
    intro i
    have e : ∀ j, u i * mom2 ps i j * v j
        = sumBy (fun p => (p.w / mom0 ps) * (u i * (coord p i - mom1 ps i))
            * (v j * (coord p j - mom1 ps j))) ps := by
      intro j
      unfold mom2
      rw [← sumBy_mul_left, ← sumBy_mul_right]
      apply sumBy_congr; intro p _; ring
    rw [sum_map_congr' L2 _ _ (fun j _ => e j), sum_sumBy_exchange]
    apply sumBy_congr; intro p _
    rw [sum_map_mul_left']; ring
  rw [sum_map_congr' L1 _ _ (fun i _ => inner i), sum_sumBy_exchange]
  apply sumBy_congr; intro p _
  rw [← sum_map_mul_right', sum_map_mul_left']

theorem quad_eq_sum_sq (ps : List Pt) (nd : Nat) (w : List Rat) :
    Mom.quad ps nd w = Mom.sumBy (fun p => (p.w / Mom.mom0 ps)
      * (((List.range nd).map fun i => w.getD i 0 * (Mom.coord p i - Mom.mom1 ps i)).foldr (· + ·) 0) ^ 2) ps := by
  unfold quad
  simp only [foldr_add_eq_sum]
  rw [bilin_eq_sum ps (List.range nd) (List.range nd) (fun i => w.getD i 0) (fun j => w.getD j 0)]
  apply sumBy_congr; intro p _
  ring

theorem mom2_psd (ps : List Pt) (nd : Nat) (w : List Rat)
    (hw : ∀ p ∈ ps, 0 ≤ p.w) (hpos : 0 < Mom.mom0 ps) : 0 ≤ Mom.quad ps nd w := by
  rw [quad_eq_sum_sq]
  apply sumBy_nonneg
  intro p hp
  have h1 : 0 ≤ p.w / mom0 ps := div_nonneg (hw p hp) (le_of_lt hpos)
  exact mul_nonneg h1 (sq_nonneg _)

theorem mom2_diag_nonneg (ps : List Pt) (i : Nat)
    (hw : ∀ p ∈ ps, 0 ≤ p.w) (hpos : 0 < Mom.mom0 ps) : 0 ≤ Mom.mom2 ps i i := by
  unfold mom2
  apply sumBy_nonneg
  intro p hp
  have h1 : 0 ≤ p.w / mom0 ps := div_nonneg (hw p hp) (le_of_lt hpos)
  rw [mul_assoc]
  exact mul_nonneg h1 (mul_self_nonneg _)

/-! ## 8. `mom2Along` depends only on the direction's line -/

theorem dot_map_mul (c : Rat) (a b : List Rat) :
    dot (a.map (c * ·)) (b.map (c * ·)) = c * c * dot a b := by
  induction a generalizing b with
  | nil => simp [dot]
  | cons x xs ih =>
    cases b with
    | nil => simp [dot]
    | cons y ys => simp only [List.map_cons, dot, ih]; ring

theorem getD_map_mul (c : Rat) (w : List Rat) (i : Nat) :
    (w.map (c * ·)).getD i 0 = c * w.getD i 0 := by
  simp only [List.getD_eq_getElem?_getD, List.getElem?_map]
  cases w[i]? <;> simp

theorem quad_map_mul (ps : List Pt) (nd : Nat) (w : List Rat) (c : Rat) :
    quad ps nd (w.map (c * ·)) = c * c * quad ps nd w := by
  unfold quad
  simp only [foldr_add_eq_sum, getD_map_mul]
  rw [← sum_map_mul_left']
  apply sum_map_congr'; intro i _
  rw [← sum_map_mul_left']
  apply sum_map_congr'; intro j _
  ring

/-- Stronger form: only `c ≠ 0` is needed (division by zero is zero on both sides). -/
theorem mom2Along_scale_invariant' (ps : List Pt) (nd : Nat) (w : List Rat) (c : Rat)
    (hc : c ≠ 0) :
    Mom.mom2Along ps nd (w.map (c * ·)) = Mom.mom2Along ps nd w := by
  unfold mom2Along
  rw [quad_map_mul, dot_map_mul]
  have hcc : c * c ≠ 0 := mul_ne_zero hc hc
  exact mul_div_mul_left _ _ hcc

theorem mom2Along_scale_invariant (ps : List Pt) (nd : Nat) (w : List Rat) (c : Rat)
    (hc : c ≠ 0) (_hw : Mom.dot w w ≠ 0) (_hlen : w.length = nd) :
    Mom.mom2Along ps nd (w.map (c * ·)) = Mom.mom2Along ps nd w :=
  mom2Along_scale_invariant' ps nd w c hc

/-- sign independence, as a special case -/
theorem mom2Along_neg (ps : List Pt) (nd : Nat) (w : List Rat) :
    Mom.mom2Along ps nd (w.map ((-1 : Rat) * ·)) = Mom.mom2Along ps nd w :=
  mom2Along_scale_invariant' ps nd w (-1) (by decide)

theorem dot_map_map (L : List Nat) (f g : Nat → Rat) :
    dot (L.map f) (L.map g) = (L.map fun a => f a * g a).sum := by
  induction L with
  | nil => simp [dot]
  | cons a L ih => simp only [List.map_cons, dot, ih, List.sum_cons]

theorem sum_range_ite (n i : Nat) (h : Nat → Rat) :
    ((List.range n).map fun a => if a = i then h a else 0).sum = if i < n then h i else 0 := by
  induction n with
  | zero => simp
  | succ n ih =>
    rw [List.range_succ, List.map_append, List.sum_append, ih]
    by_cases h1 : i < n
    · have : n ≠ i := by omega
      simp [h1, this, Nat.lt_succ_of_lt h1]
    · by_cases h2 : n = i
      · subst h2; simp
      · have : ¬ i < n + 1 := by omega
        simp [h1, h2, this]

theorem basis_getD (nd i a : Nat) (hi : i < nd) :
    ((List.range nd).map fun j => if j = i then (1 : Rat) else 0).getD a 0
      = if a = i then 1 else 0 := by
  simp only [List.getD_eq_getElem?_getD, List.getElem?_map]
  by_cases ha : a < nd
  · simp [List.getElem?_range ha]
  · have h1 : (List.range nd)[a]? = none := by
      simp; omega
    have h2 : a ≠ i := by omega
    simp [h1, h2]

theorem mom2Along_basis (ps : List Pt) (nd : Nat) (i : Nat) (hi : i < nd) :
    Mom.mom2Along ps nd ((List.range nd).map fun j => if j = i then (1 : Rat) else 0)
      = Mom.mom2 ps i i := by
  unfold mom2Along
  have hd : dot ((List.range nd).map fun j => if j = i then (1 : Rat) else 0)
      ((List.range nd).map fun j => if j = i then (1 : Rat) else 0) = 1 := by
    rw [dot_map_map]
    have e : ∀ a : Nat, (if a = i then (1 : Rat) else 0) * (if a = i then (1 : Rat) else 0)
        = if a = i then (fun _ => (1 : Rat)) a else 0 := by
      intro a; by_cases h : a = i <;> simp [h]
    rw [sum_map_congr' _ _ _ (fun a _ => e a), sum_range_ite]
    simp [hi]
  rw [hd, div_one]
  unfold quad
  simp only [foldr_add_eq_sum, basis_getD nd i _ hi]
  have inner : ∀ a : Nat,
      ((List.range nd).map fun b =>
        (if a = i then (1 : Rat) else 0) * mom2 ps a b * (if b = i then (1 : Rat) else 0)).sum
      = if a = i then (fun a => mom2 ps a i) a else 0 := by
    intro a
    have e : ∀ b : Nat,
        (if a = i then (1 : Rat) else 0) * mom2 ps a b * (if b = i then (1 : Rat) else 0)
          = if b = i then (fun b => (if a = i then (1 : Rat) else 0) * mom2 ps a b) b else 0 := by
      intro b; by_cases h : b = i <;> simp [h]
    rw [sum_map_congr' _ _ _ (fun b _ => e b), sum_range_ite]
    by_cases h : a = i <;> simp [h, hi]
  rw [sum_map_congr' _ _ _ (fun a _ => inner a), sum_range_ite]
  simp [hi]

/-! ## 9. eigenvalue bookkeeping: sort descending -/

/-- insert into a descending list -/
def insertDesc (x : Rat) : List Rat → List Rat
  | [] => [x]
  | y :: ys => if x ≥ y then x :: y :: ys else y :: insertDesc x ys

/-- insertion sort, descending -/
def sortDesc : List Rat → List Rat
  | [] => []
  | x :: xs => insertDesc x (sortDesc xs)

theorem insertDesc_perm (x : Rat) (l : List Rat) : (insertDesc x l).Perm (x :: l) := by
  induction l with
  | nil => exact List.Perm.refl _
  | cons y ys ih =>
    unfold insertDesc
    split
    · exact List.Perm.refl _
    · exact ((List.Perm.cons y ih).trans (List.Perm.swap x y ys))

theorem sortDesc_perm (l : List Rat) : (sortDesc l).Perm l := by
  induction l with
  | nil => exact List.Perm.refl _
  | cons x xs ih =>
    unfold sortDesc
    exact (insertDesc_perm x _).trans (List.Perm.cons x ih)

theorem insertDesc_sorted (x : Rat) (l : List Rat) (h : l.Pairwise (· ≥ ·)) :
    (insertDesc x l).Pairwise (· ≥ ·) := by
  induction l with
  | nil => simp [insertDesc]
  | cons y ys ih =>
    unfold insertDesc
    rw [List.pairwise_cons] at h
    split
    · next hxy =>
      rw [List.pairwise_cons]
      refine ⟨?_, List.pairwise_cons.mpr h⟩
      intro z hz
      rcases List.mem_cons.mp hz with rfl | hz
      · exact hxy
      · exact le_trans (h.1 z hz) hxy
    · next hxy =>
      rw [List.pairwise_cons]
      refine ⟨?_, ih h.2⟩
      intro z hz
      have hz' := (insertDesc_perm x ys).mem_iff.mp hz
      rcases List.mem_cons.mp hz' with rfl | hz'
      · exact le_of_lt (not_le.mp hxy)
      · exact h.1 z hz'

theorem sortDesc_sorted (l : List Rat) : (sortDesc l).Pairwise (· ≥ ·) := by
  induction l with
  | nil => simp [sortDesc]
  | cons x xs ih =>
    unfold sortDesc
    exact insertDesc_sorted x _ ih

theorem sortDesc_length (l : List Rat) : (sortDesc l).length = l.length :=
  (sortDesc_perm l).length_eq

end P11
