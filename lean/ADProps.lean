import ADProps.C01
import ADProps.C03
