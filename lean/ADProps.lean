import ADProps.C01
import ADProps.C02
import ADProps.C03
import ADProps.C04
import ADProps.C05
import ADProps.C17
