import ADProofsM.AnalysisProofs
/-!
# C13 — flux conversion is linear, unit-consistent and physically correct

`K : Consts` (speed of light, Boltzmann constant, π, ln 2, the Jansky) and the metadata `m` are
arbitrary: the algebraic laws hold for all their values.
-/

/-- **C13 (additive over any split of the pixels).** -/
theorem C13_additive (K : Consts) (fam : Family) (m : FMeta) (xs ys : List Rat) (scale outScale : Rat) :
    Flux.total K fam m (xs ++ ys) scale outScale = Flux.total K fam m xs scale outScale + Flux.total K fam m ys scale outScale :=
  P13.flux_additive K fam m xs ys scale outScale

/-- **C13 (proportional to the input values).** -/
theorem C13_linear (K : Consts) (fam : Family) (m : FMeta) (a : Rat) (xs : List Rat) (scale outScale : Rat) :
    Flux.total K fam m (xs.map (a * ·)) scale outScale = a * Flux.total K fam m xs scale outScale :=
  P13.flux_linear K fam m a xs scale outScale

/-- **C13 (independent of the unit in which equal physical inputs are expressed).** -/
theorem C13_unit_invariant (K : Consts) (fam : Family) (m : FMeta) (k : Rat) (hk : k ≠ 0) (xs : List Rat)
    (scale outScale : Rat) :
    Flux.total K fam m (xs.map (· / k)) (scale * k) outScale = Flux.total K fam m xs scale outScale :=
  P13.flux_unit_invariant K fam m k hk xs scale outScale

/-- **C13 (expressed in the requested output unit).** -/
theorem C13_output_unit (K : Consts) (fam : Family) (m : FMeta) (xs : List Rat) (scale o k : Rat) (ho : o ≠ 0) (hk : k ≠ 0) :
    Flux.total K fam m xs scale (o * k) = Flux.total K fam m xs scale o / k :=
  P13.flux_output_unit K fam m xs scale o k ho hk

/-- **C13 (brightness temperature: Rayleigh–Jeans, the beam cancels).** -/
theorem C13_temp_factor (K : Consts) (m : FMeta) (hc : K.c ≠ 0) (hl : m.lam ≠ 0) :
    Flux.factor K m .temp = 2 * K.kB / (m.lam * m.lam) * (m.pix * m.pix) / K.jy := P13.temp_factor_eq K m hc hl

/-- **C13 (error table).** A number is produced iff the input family is supported, every item it
requires is present with the right dimension, and the output unit is a flux density. -/
theorem C13_ok_iff (input : Flux.Dim) (md : Flux.MetaDims) (output : Flux.Dim) :
    Flux.outcome input md output = .ok ↔
      output = .fnu ∧
      ( input = .fnu
      ∨ (input = .flambda ∧ md.wavelength = some .length)
      ∨ (input = .surf ∧ md.spatial = some .angle)
      ∨ (input = .perBeam ∧ md.spatial = some .angle ∧ md.bmaj = some .angle ∧ md.bmin = some .angle)
      ∨ (input = .temp ∧ md.spatial = some .angle ∧ md.bmaj = some .angle ∧ md.bmin = some .angle ∧
          (md.wavelength = some .length ∨ md.wavelength = some .freq)) ) := P13.outcome_ok_iff input md output
theorem C13_unsupported (input : Flux.Dim) (md : Flux.MetaDims) (output : Flux.Dim)
    (h : input ≠ .fnu ∧ input ≠ .flambda ∧ input ≠ .surf ∧ input ≠ .perBeam ∧ input ≠ .temp) :
    Flux.outcome input md output = .unsupported := P13.outcome_unsupported input md output h
