import ADProofsM.MomentProofs
/-!
# C10 — intensity-weighted moments are the mathematical moments

`ps : List Pt` is any finite set of pixels in any number of dimensions (positions rational, so
integer pixel coordinates and translated copies are covered); a NaN value is a pixel of weight 0.
The principal-axes part that lives in LAPACK (realness, orthonormality of eigenvectors) is a
contract checked numerically on every run; what is handed to the solver is proved symmetric and
positive semi-definite here, and the `argsort … [::-1]` bookkeeping is proved to order the
eigenvalues by decreasing variance.
-/
open Mom

/-- **C10 (zeroth moment is additive = it is the sum).** -/
theorem C10_mom0_sum (a b : List Pt) : mom0 (a ++ b) = mom0 a + mom0 b := P11.mom0_append a b

/-- **C10 (first moment is the value-weighted mean).** -/
theorem C10_mom1_weighted_mean (ps : List Pt) (i : Nat) (h0 : mom0 ps ≠ 0) :
    mom1 ps i * mom0 ps = sumBy (fun p => coord p i * p.w) ps := P11.mom1_weighted_mean ps i h0

/-- **C10 (second moment is the value-weighted covariance, symmetric).** -/
theorem C10_mom2_covariance (ps : List Pt) (i j : Nat) (h0 : mom0 ps ≠ 0) :
    mom2 ps i j = sumBy (fun p => p.w * coord p i * coord p j) ps / mom0 ps - mom1 ps i * mom1 ps j :=
  P11.mom2_is_covariance ps i j h0
theorem C10_mom2_symm (ps : List Pt) (i j : Nat) : mom2 ps i j = mom2 ps j i := P11.mom2_symm ps i j

/-- **C10 (positive semi-definite).** For non-negative weights the quadratic form of the second
moment is non-negative in every direction: eigenvalues are ≥ 0, variances are ≥ 0. -/
theorem C10_mom2_psd (ps : List Pt) (nd : Nat) (w : List Rat) (hw : ∀ p ∈ ps, 0 ≤ p.w) (hpos : 0 < mom0 ps) :
    0 ≤ quad ps nd w := P11.mom2_psd ps nd w hw hpos

/-- **C10 (direction: independent of length and sign).** -/
theorem C10_along_scale_invariant (ps : List Pt) (nd : Nat) (w : List Rat) (c : Rat) (hc : c ≠ 0) :
    mom2Along ps nd (w.map (c * ·)) = mom2Along ps nd w := P11.mom2Along_scale_invariant' ps nd w c hc

/-- **C10 (direction along an axis = diagonal entry).** -/
theorem C10_along_basis (ps : List Pt) (nd i : Nat) (hi : i < nd) :
    mom2Along ps nd ((List.range nd).map fun j => if j = i then (1 : Rat) else 0) = mom2 ps i i :=
  P11.mom2Along_basis ps nd i hi

/-- **C10 (translation).** Translating all positions shifts the first moment by the same vector
and leaves zeroth and second moments unchanged. -/
theorem C10_translate_mom0 (t : List Rat) (ps : List Pt) : mom0 (translate t ps) = mom0 ps := P11.mom0_translate t ps
theorem C10_translate_mom1 (t : List Rat) (ps : List Pt) (nd i : Nat) (hlen : ∀ p ∈ ps, p.pos.length = nd)
    (hi : i < nd) (h0 : mom0 ps ≠ 0) : mom1 (translate t ps) i = mom1 ps i + t.getD i 0 :=
  P11.mom1_translate t ps nd i hlen hi h0
theorem C10_translate_mom2 (t : List Rat) (ps : List Pt) (nd i j : Nat) (hlen : ∀ p ∈ ps, p.pos.length = nd)
    (hi : i < nd) (hj : j < nd) (h0 : mom0 ps ≠ 0) : mom2 (translate t ps) i j = mom2 ps i j :=
  P11.mom2_translate_invariant t ps nd i j hlen hi hj h0

/-- **C10 (eigenvalue bookkeeping).** Sorting by decreasing value yields a non-increasing
permutation of the eigenvalues. -/
theorem C10_order_desc (l : List Rat) : (P11.sortDesc l).Pairwise (· ≥ ·) ∧ (P11.sortDesc l).Perm l :=
  ⟨P11.sortDesc_sorted l, P11.sortDesc_perm l⟩

-- non-vacuity: three weighted pixels with positive total weight
example : mom0 [⟨[0, 0], 1⟩, ⟨[0, 1], 2⟩, ⟨[1, 1], 1⟩] ≠ 0 := by
  simp [mom0, sumBy]; norm_num
