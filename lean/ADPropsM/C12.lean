import ADProofsM.AnalysisProofs
import ADProofsM.IntervalProofs
/-!
# C12 — catalogs: the edge-wrap heuristic (analysis.py:635-643)

Row assembly (one row per structure, sorted by `_idx`, each field the statistic of that structure
alone) is checked by the correspondence run on the implementation; the part of the property
that is logic — when index arrays are re-indexed across the array edge — is proved here.
-/

/-- **C12 (a structure narrower than half the axis that does not straddle the edge is left
alone).** -/
theorem C12_wrap_noop_narrow (n : Nat) (xs : List Rat) (h : Catalog.ptp xs < (n : Rat) / 2) :
    Catalog.wrapAxis n xs = xs := P13.wrapAxis_noop_of_narrow' n xs h

/-- **C12 (the heuristic only ever re-indexes by whole periods and never widens a structure).** -/
theorem C12_wrap_cases (n : Nat) (xs : List Rat) :
    Catalog.wrapAxis n xs = xs ∨ Catalog.wrapAxis n xs = xs.map (fun x => if 2 * x < (n : Rat) then x + n else x) :=
  P13.wrapAxis_cases n xs
theorem C12_wrap_period (n : Nat) (x : Rat) :
    (if 2 * x < (n : Rat) then x + n else x) - x = 0 ∨ (if 2 * x < (n : Rat) then x + n else x) - x = n :=
  P13.wrapped_congruent n x
theorem C12_wrap_never_wider (n : Nat) (xs : List Rat) : Catalog.ptp (Catalog.wrapAxis n xs) ≤ Catalog.ptp xs :=
  P13.wrapAxis_ptp_le n xs

/-- **C12 (a structure straddling the edge whose wrapped extent is smaller is unwrapped).** With
C10's translation theorems the shape statistics then equal those of the un-wrapped structure and
the centroid moves by the same whole period. -/
theorem C12_wrap_unwraps (n : Nat) (xs : List Rat) (hr : ∀ x ∈ xs, 0 ≤ x ∧ x < n)
    (hL : xs.filter (fun x => decide (2 * x < (n : Rat))) ≠ [])
    (hH : xs.filter (fun x => decide (¬ 2 * x < (n : Rat))) ≠ [])
    (hc : (Catalog.maxQ (xs.filter (fun x => decide (2 * x < (n : Rat)))) + n)
            - Catalog.minQ (xs.filter (fun x => decide (¬ 2 * x < (n : Rat)))) < Catalog.ptp xs) :
    Catalog.wrapAxis n xs = xs.map (fun x => if 2 * x < (n : Rat) then x + n else x) :=
  P13.wrapAxis_unwraps_straddle n xs hr hL hH hc

/-- one-sided structures are never touched -/
theorem C12_wrap_noop_one_side (n : Nat) (xs : List Rat) (hne : xs ≠ []) :
    ((∀ x ∈ xs, 2 * x < (n : Rat)) → Catalog.wrapAxis n xs = xs) ∧
    ((∀ x ∈ xs, ¬ 2 * x < (n : Rat)) → Catalog.wrapAxis n xs = xs) :=
  ⟨fun h => P13.wrapAxis_noop_low n xs hne h, fun h => P13.wrapAxis_noop_high n xs h⟩

/-- **C12 (data without wrap-around are never altered).** If the coordinates a structure occupies
along an axis form an interval of `[0, n)` — which is the case for the projection of a connected
structure on a non-periodic axis, where every step changes a coordinate by at most one
(`C12_interval_of_unit_steps`) — the heuristic leaves the index array as it is. -/
theorem C12_wrap_noop_of_interval (n : Nat) (xs : List Nat) (hne : xs ≠ []) (hr : ∀ x ∈ xs, x < n)
    (hi : P29.IsInterval xs) :
    Catalog.wrapAxis n (xs.map (fun (x : Nat) => (x : Rat))) = xs.map (fun (x : Nat) => (x : Rat)) :=
  P29.wrap_noop_of_interval n xs hne hr hi
theorem C12_interval_of_unit_steps (xs : List Nat) (h : ∀ a ∈ xs, ∀ b ∈ xs, a < b → a + 1 ∈ xs) :
    P29.IsInterval xs := P29.isInterval_of_succ_closed xs h
