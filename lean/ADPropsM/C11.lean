import ADProofsM.AnalysisProofs
import ADProofsM.MomentProofs
/-!
# C11 — PP / PPV statistics follow their definitions and axis conventions

Square roots, `atan2` and the eigen-solver are outside the model.  Sigmas are represented by
their squares through the solver-free invariants of the sky-plane covariance block
`[[a, b], [b, c]]`: `major² + minor² = dx²·(a + c)`, `major²·minor² = dx⁴·(a c − b²)`
(`radius⁴`); the correspondence check compares these (and `v_rms²`, centroids, `area_exact`)
with the implementation's floats and checks the position angle numerically.
-/
open Mom

/-- **C11 (the velocity axis is a convention).** Declaring another axis the velocity axis, with
the data transposed accordingly, gives the same sigmas (sum and product of squares), `v_rms²`,
centroids and exact area. -/
theorem C11_vaxis_invariant (ps : List Pt) (vaxis : Nat) (hv : vaxis ≤ 2) (h3 : ∀ p ∈ ps, p.pos.length = 3) :
    PPV.sigmaSqSum ps vaxis = PPV.sigmaSqSum (PPV.toV0 vaxis ps) 0 ∧
    PPV.sigmaSqProd ps vaxis = PPV.sigmaSqProd (PPV.toV0 vaxis ps) 0 ∧
    PPV.vrmsSq ps vaxis = PPV.vrmsSq (PPV.toV0 vaxis ps) 0 ∧
    PPV.xCen ps vaxis = PPV.xCen (PPV.toV0 vaxis ps) 0 ∧
    PPV.yCen ps vaxis = PPV.yCen (PPV.toV0 vaxis ps) 0 ∧
    PPV.vCen ps vaxis = PPV.vCen (PPV.toV0 vaxis ps) 0 ∧
    PPV.areaExact ps vaxis = PPV.areaExact (PPV.toV0 vaxis ps) 0 := P13.vaxis_invariant ps vaxis hv h3

/-- **C11 (sigmas are real, non-negative, ordered).** The sky-plane block is positive
semi-definite: trace ≥ 0, determinant ≥ 0 (Cauchy–Schwarz), and the discriminant of its
characteristic polynomial is ≥ 0 — so both eigenvalues are real and ≥ 0, and `v_rms² ≥ 0`. -/
theorem C11_sigma_sq_nonneg (ps : List Pt) (vaxis : Nat) (hw : ∀ p ∈ ps, 0 ≤ p.w) (hpos : 0 < mom0 ps) :
    0 ≤ PPV.sigmaSqSum ps vaxis ∧ 0 ≤ PPV.sigmaSqProd ps vaxis ∧ 0 ≤ PPV.vrmsSq ps vaxis :=
  P13.sigmaSq_nonneg ps vaxis hw hpos
theorem C11_eigenvalues_real (a b c : Rat) : 0 ≤ (a + c) ^ 2 - 4 * (a * c - b * b) := P13.disc_nonneg a b c

/-- **C11 (re-embedding of the sky axes).** The repaired code puts a zero component at the
velocity axis and keeps the sky components in order; the code before the repair did so only for
`vaxis = 0` (witness for `vaxis = 1`). -/
theorem C11_embed (vaxis : Nat) (hv : vaxis ≤ 2) (a : Rat × Rat) :
    (PPV.embed vaxis a).getD vaxis 1 = 0 ∧ (PPV.embed vaxis a).length = 3 ∧
      (PPV.embed vaxis a).eraseIdx vaxis = [a.1, a.2] := P13.embed_zero_at_vaxis vaxis hv a
theorem C11_embed_old_witness : ∃ a : Rat × Rat, PPV.embedOld 1 a ≠ PPV.embed 1 a := P13.embedOld_wrong

/-- **C11 (v_rms is the dispersion along the velocity axis)** — a diagonal entry of the second
moment, i.e. the second moment along the unit vector of that axis. -/
theorem C11_vrms_def (ps : List Pt) (vaxis : Nat) (hv : vaxis < 3) :
    PPV.vrmsSq ps vaxis = mom2Along ps 3 ((List.range 3).map fun j => if j = vaxis then (1 : Rat) else 0) :=
  (P11.mom2Along_basis ps 3 vaxis hv).symm

/-- **C11 (linear scaling).** Multiplying the pixel scale by `c` multiplies squared sigmas by `c²`. -/
theorem C11_scale_linear (dx c s : Rat) : (c * dx) ^ 2 * s = c ^ 2 * (dx ^ 2 * s) := P13.scale_linear dx c s
