import ADGen.Gen
import ADGen.Equiv
