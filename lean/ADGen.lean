import ADGen.Gen
import ADGen.Equiv
import ADGen.EquivHeapLevel
import ADGen.EquivHeapAncestor
import ADGen.EquivHeapDesc
import ADGen.EquivHeapPrune
import ADGen.EquivHeapHistory
