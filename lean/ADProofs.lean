import ADProofs.Basic
import ADProofs.Partition
import ADProofs.Conn
import ADProofs.ConnInv
import ADProofs.RunInd
