import ADProofs.Basic
import ADProofs.Partition
import ADProofs.Conn
import ADProofs.ConnInv
import ADProofs.RunInd
import ADProofs.Forest
import ADProofs.Contour
import ADProofs.GridProofs
