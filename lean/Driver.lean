import ADModel
/-!
# Driver — line protocol between the Python harness and the executable model

One request per line, `cmd key=value key=value …`; the answer is a block of lines ending with
`end`.  Unknown or malformed requests answer `bad-op <reason>` / `end`: the model never
defaults where the real code raises.
-/
open Tree

def joinNat (l : List Nat) : String := if l.isEmpty then "-" else ",".intercalate (l.map toString)
def joinInt (l : List Int) : String := if l.isEmpty then "-" else ",".intercalate (l.map toString)

def parseNatList (s : String) : Option (List Nat) :=
  if s == "-" || s == "" then some [] else (s.splitOn ",").mapM String.toNat?

def parseVals (s : String) : Option (List (Option Int)) :=
  if s == "-" || s == "" then some [] else
  (s.splitOn ",").mapM fun w => if w == "nan" then some none else w.toInt?.map some

def parseCrit1 (s : String) : Option Crit :=
  match s.splitOn ":" with
  | ["delta", v] => v.toInt?.map Crit.minDelta
  | ["npix", v] => v.toNat?.map Crit.minNpix
  | ["peak", v] => v.toInt?.map Crit.minPeak
  | ["sum", v] => v.toInt?.map Crit.minSum
  | ["seeds", v] => (parseNatList v).map Crit.seeds
  | _ => none

def parseCrits (s : String) : Option (List Crit) :=
  if s == "-" || s == "" then some [] else (s.splitOn ";").mapM parseCrit1

/-- explicit adjacency `p:q.q.q;p:q` -/
def parseAdj (s : String) : Option (List (Nat × List Nat)) :=
  if s == "-" || s == "" then some [] else
  (s.splitOn ";").mapM fun e =>
    match e.splitOn ":" with
    | [p, qs] => do
      let p ← p.toNat?
      let qs ← if qs == "" then some [] else (qs.splitOn ".").mapM String.toNat?
      pure (p, qs)
    | _ => none

def kvs (ws : List String) : List (String × String) :=
  ws.filterMap fun w =>
    match w.splitOn "=" with
    | [k, v] => some (k, v)
    | _ => none

def look (m : List (String × String)) (k : String) : Option String :=
  (m.find? (fun kv => kv.1 == k)).map (·.2)

structure Sess where
  n : Nat := 0
  fb : Nat := 0
  vals : Array (Option Int) := #[]
  nbrs : Nat → List Nat := fun _ => []
  forest : List Tree := []
  mlevels : List (Nat × Int) := []
  heap : Heap := {}
  pheap : PHeap := {}
  deriving Inhabited

def Sess.val (s : Sess) (p : Nat) : Int := (s.vals.getD p none).getD 0

def optNat : Option Nat → String
  | none => "-"
  | some n => toString n

/-- observation block of the current forest -/
def obsBlock (s : Sess) : List String :=
  let f := s.forest
  let val := s.val
  let lm := labelMap f s.n
  let rs := rows f
  let ts := nodes f
  let structLines := (rs.zip ts).map fun (r, t) =>
    let pk := peakOwn val r.own
    let pks := peakSub val t
    s!"s id={r.id} par={optNat r.parent} kids={joinNat r.kids} own={joinNat r.own} vmin={t.vmin val} vmax={t.vmax val} h={t.height val} lvl={r.level} anc={r.ancestor} desc={joinNat (sortNat r.desc)} npix={r.own.length} npixsub={r.pixelsSub.length} pixsub={joinNat (sortNat r.pixelsSub)} peak={pk.1}:{pk.2} peaksub={pks.1}:{pks.2} small={t.smallest} tiown={joinNat (sortNat (tiIndices lm f t false))} tisub={joinNat (sortNat (tiIndices lm f t true))}"
  structLines ++
  [ s!"trunk {joinNat (f.map Tree.id)}",
    s!"iter {joinNat ((allStructures f).map Tree.id)}",
    s!"lmap {",".intercalate (lm.map fun o => match o with | none => "-1" | some i => toString i)}",
    s!"newick {toNewick val s.fb f}",
    "end" ]

/-- which rule of the construction a step applies: 0 new leaf, 1 joins the single adjacent structure,
    2 several meet / none kept, 3 several meet / one kept, 4 several meet / new branch -/
def classifyStep (E : Env) (roots : List Tree) (p : Nat) : Nat :=
  let adj := roots.filter (touches E p)
  match adj with
  | [] => 0
  | [_] => 1
  | _ =>
    match (adj.filter (fun t => !insig E p t)).length with
    | 0 => 2
    | 1 => 3
    | _ => 4

def stepStats (E : Env) (order : List Nat) : List Nat :=
  let r := order.foldl (fun (acc : List Tree × List Nat) p =>
    let c := classifyStep E acc.1 p
    (step E acc.1 p, acc.2.set c (acc.2.getD c 0 + 1))) ([], [0, 0, 0, 0, 0])
  r.2

def doCompute (m : List (String × String)) : Option (Sess × List String) := do
  let shape ← parseNatList (← look m "shape")
  let periodic ← parseNatList (← look m "periodic")
  let adjS ← look m "adj"
  let fb ← (← look m "fb").toNat?
  let vals ← parseVals (← look m "vals")
  let crits ← parseCrits (← look m "crit")
  let order ← parseNatList (← look m "order")
  let minvS ← look m "minv"
  let (mnum, mden) ← match minvS.splitOn "/" with
    | [a, b] => do pure ((← a.toInt?), (← b.toNat?))
    | [a] => do pure ((← a.toInt?), 1)
    | _ => none
  let n := Grid.size shape
  if vals.length != n || mden == 0 then none else
  let valsA := vals.toArray
  let nbrs : Nat → List Nat ←
    if adjS == "grid" then some (Grid.nbrs shape periodic)
    else do
      let tbl ← parseAdj adjS
      let arr : Array (List Nat) := tbl.foldl (fun a (p, qs) => if p < n then a.set! p qs else a) (Array.replicate n [])
      some (fun p => arr.getD p [])
  let s0 : Sess := { n := n, fb := fb, vals := valsA, nbrs := nbrs, forest := [] }
  let val := s0.val
  -- hypotheses about the recorded order (facts about argsort, not about the model)
  let kept := (List.range n).filter fun p =>
    match valsA.getD p none with
    | none => false
    | some v => decide (v * (mden : Int) > mnum)
  let cover := decide (sortNat order = kept)
  let sorted := sortedDesc val order
  let nodup := nodupB order
  let inrange := order.all (· < n)
  let E := envOf val nbrs crits
  let f := compute E order
  let s1 := { s0 with forest := f, mlevels := origLevelsL val f }
  let b2i (b : Bool) : Nat := if b then 1 else 0
  let st := stepStats E order
  let dropped := (droppedOrphans E (run E order)).length
  some (s1, s!"hyp sorted={b2i sorted} cover={b2i cover} nodup={b2i nodup} inrange={b2i inrange}" ::
    s!"steps newleaf={st.getD 0 0} joinone={st.getD 1 0} nonekept={st.getD 2 0} onekept={st.getD 3 0} branch={st.getD 4 0} dropped={dropped}" :: obsBlock s1)

def doPrune (s : Sess) (m : List (String × String)) : Option (Sess × List String) := do
  let crits ← parseCrits (← look m "crit")
  let f := prune (allChild s.val crits) (allOrphan s.val crits) s.forest
  let s1 := { s with forest := f }
  some (s1, obsBlock s1)

def doPruneOrig (s : Sess) (m : List (String × String)) : Option (Sess × List String) := do
  let crits ← parseCrits (← look m "crit")
  let f := prune (allChildOrig s.val s.mlevels crits) (allOrphan s.val crits) s.forest
  let s1 := { s with forest := f }
  some (s1, obsBlock s1)

/-- save + load: the tree is re-read from the Newick text, own pixel lists are rebuilt from the
    label map in C order -/
def doReload (s : Sess) : Option (Sess × List String) :=
  let s1 := { s with forest := reload s.forest s.n }
  some (s1, obsBlock s1)

def ntreeLine (ts : Option (List NTree)) : String :=
  match ts with
  | none => "error"
  | some ts => "ok " ++ printForest ts


/-! ## analysis commands -/

def parseRat (s : String) : Option Rat :=
  match s.splitOn "/" with
  | [a, b] => do
    let n ← a.toInt?
    let d ← b.toNat?
    if d == 0 then none else some ((n : Rat) / (d : Rat))
  | [a] => a.toInt?.map (fun n => (n : Rat))
  | _ => none

def showRat (r : Rat) : String := s!"{r.num}/{r.den}"

def parseRatList (s : String) : Option (List Rat) :=
  if s == "-" || s == "" then some [] else (s.splitOn ",").mapM parseRat

/-- points `c0.c1.c2.w;…` (coordinates rational, weight rational or `nan` = weight 0) -/
def parsePts (s : String) : Option (List Pt) :=
  if s == "-" || s == "" then some [] else
  (s.splitOn ";").mapM fun e => do
    let parts := e.splitOn "|"
    match parts.reverse with
    | w :: cs => do
      let pos ← cs.reverse.mapM parseRat
      let wt ← if w == "nan" then some (0 : Rat) else parseRat w
      pure { pos := pos, w := wt }
    | [] => none

def doMoments (m : List (String × String)) : Option (List String) := do
  let nd ← (← look m "nd").toNat?
  let ps ← parsePts (← look m "pts")
  let dir ← parseRatList ((look m "dir").getD "-")
  if Mom.mom0 ps == 0 then some ["undefined mom0=0", "end"] else
  let m1 := (List.range nd).map (Mom.mom1 ps)
  let m2 := (List.range nd).map fun i => (List.range nd).map fun j => Mom.mom2 ps i j
  let along := if dir.isEmpty || Mom.dot dir dir == 0 then "-" else showRat (Mom.mom2Along ps nd dir)
  some [ s!"mom0 {showRat (Mom.mom0 ps)}",
         s!"mom1 {",".intercalate (m1.map showRat)}",
         s!"mom2 {";".intercalate (m2.map fun r => ",".intercalate (r.map showRat))}",
         s!"along {along}", s!"count {Mom.count ps}", "end" ]

def doPPV (m : List (String × String)) : Option (List String) := do
  let vaxis ← (← look m "vaxis").toNat?
  let ps ← parsePts (← look m "pts")
  if vaxis > 2 then none else
  if Mom.mom0 ps == 0 then some ["undefined mom0=0", "end"] else
  some [ s!"sigsum {showRat (PPV.sigmaSqSum ps vaxis)}", s!"sigprod {showRat (PPV.sigmaSqProd ps vaxis)}",
         s!"vrmssq {showRat (PPV.vrmsSq ps vaxis)}",
         s!"xcen {showRat (PPV.xCen ps vaxis)}", s!"ycen {showRat (PPV.yCen ps vaxis)}", s!"vcen {showRat (PPV.vCen ps vaxis)}",
         s!"area {PPV.areaExact ps vaxis}", "end" ]

def doPP (m : List (String × String)) : Option (List String) := do
  let ps ← parsePts (← look m "pts")
  if Mom.mom0 ps == 0 then some ["undefined mom0=0", "end"] else
  some [ s!"sigsum {showRat (PPV.ppSigmaSqSum ps)}", s!"sigprod {showRat (PPV.ppSigmaSqProd ps)}",
         s!"xcen {showRat (Mom.mom1 ps 1)}", s!"ycen {showRat (Mom.mom1 ps 0)}", s!"area {Mom.count ps}", "end" ]

def doWrap (m : List (String × String)) : Option (List String) := do
  let n ← (← look m "n").toNat?
  let xs ← parseRatList (← look m "xs")
  some [ s!"wrapped {",".intercalate ((Catalog.wrapAxis n xs).map showRat)}", "end" ]

def parseFamily (s : String) : Option Family :=
  match s with
  | "fnu" => some .fnu | "flambda" => some .flambda | "surf" => some .surf
  | "perbeam" => some .perBeam | "temp" => some .temp | _ => none

def parseDim (s : String) : Option (Option Flux.Dim) :=
  match s with
  | "-" => some none
  | "fnu" => some (some .fnu) | "flambda" => some (some .flambda) | "surf" => some (some .surf)
  | "perbeam" => some (some .perBeam) | "temp" => some (some .temp) | "angle" => some (some .angle)
  | "length" => some (some .length) | "freq" => some (some .freq) | "other" => some (some .other)
  | _ => none

def doFlux (m : List (String × String)) : Option (List String) := do
  let fam ← parseFamily (← look m "fam")
  let vals ← parseRatList (← look m "vals")
  let scale ← parseRat (← look m "scale")
  let out ← parseRat (← look m "out")
  let g := fun k => (look m k).bind parseRat |>.getD 0
  let K : Consts := { c := g "c", kB := g "kb", pi := g "pi", ln2 := g "ln2", jy := g "jy" }
  let mt : FMeta := { lam := g "lam", pix := g "pix", bmaj := g "bmaj", bmin := g "bmin" }
  if out == 0 || K.jy == 0 then none else
  some [ s!"total {showRat (Flux.total K fam mt vals scale out)}", "end" ]

def outcomeName : Flux.Outcome → String
  | .ok => "ok" | .wavelengthDim => "wavelength-dim" | .wavelengthMissing => "wavelength-missing"
  | .spatialDim => "spatial-dim" | .spatialMissing => "spatial-missing"
  | .bmajDim => "bmaj-dim" | .bmajMissing => "bmaj-missing" | .bminDim => "bmin-dim" | .bminMissing => "bmin-missing"
  | .unsupported => "unsupported" | .outputUnit => "output-unit"

def doFluxErr (m : List (String × String)) : Option (List String) := do
  let inp ← (← parseDim (← look m "in"))
  let out ← (← parseDim (← look m "out"))
  let md : Flux.MetaDims := { wavelength := ← parseDim (← look m "w"), spatial := ← parseDim (← look m "s"),
                              bmaj := ← parseDim (← look m "a"), bmin := ← parseDim (← look m "b") }
  some [ s!"outcome {outcomeName (Flux.outcome inp md out)}", "end" ]


/-! ## plot / hub / eq / identify -/

def parseKeyTable (s : String) : Option (List (Nat × Int)) :=
  if s == "-" || s == "" then some [] else
  (s.splitOn ",").mapM fun e =>
    match e.splitOn ":" with
    | [a, b] => do pure ((← a.toNat?), (← b.toInt?))
    | _ => none

def doPlot (s : Sess) (m : List (String × String)) : Option (List String) := do
  let tbl ← parseKeyTable (← look m "key")
  let rev := (look m "rev").getD "0" == "1"
  let key : Nat → Int := fun i => ((tbl.find? (fun kv => kv.1 == i)).map (·.2)).getD 0
  let order := Plot.leafOrder key rev s.forest
  let posLines := (nodes s.forest).map fun t => s!"pos {t.id} {showRat (Plot.pos order t)}"
  let segs := Plot.linesL s.val order none s.forest
  let segLines := segs.map fun g => s!"seg {g.sid} {showRat g.x0} {g.y0} {showRat g.x1} {g.y1}"
  some ([s!"leaforder {joinNat order}"] ++ posLines ++ segLines ++ ["end"])

def parseOptNatList (s : String) : Option (List (Option Nat)) :=
  if s == "-" || s == "" then some [] else
  (s.splitOn ",").mapM fun w => if w == "none" then some none else w.toNat?.map some

/-- events `cb` | `click.slot.label` | `lasso.slot.r1+r2` | `sel.slot.sub.id1+id2` separated by `;` -/
def doHub (s : Sess) (m : List (String × String)) : Option (List String) := do
  let evs := ((look m "ev").getD "").splitOn ";"
  let rowIds ← parseNatList ((look m "rows").getD "-")
  let h ← evs.foldlM (fun (h : Hub) e =>
    match e.splitOn "." with
    | ["cb"] => some h.addCallback
    | ["click", slot, lab] => do
      let sl ← slot.toNat?
      let l ← if lab == "none" then some none else lab.toNat?.map some
      pure (h.click sl l)
    | ["lasso", slot, rows] => do
      let sl ← slot.toNat?
      let rs ← if rows == "" || rows == "-" then some [] else (rows.splitOn "+").mapM String.toNat?
      pure (h.lasso sl rowIds rs)
    | ["sel", slot, sub, ids] => do
      let sl ← slot.toNat?
      let is ← (ids.splitOn "+").mapM (fun w => if w == "none" then some none else w.toNat?.map some)
      pure (h.select sl is (sub == "1"))
    | [""] => some h
    | _ => none) ({} : Hub)
  let slotLines := h.sels.map fun (slot, sel) =>
    s!"slot {slot} sub={if sel.subtree then 1 else 0} hl={joinNat (sortNat (Hub.highlighted s.forest sel))} mask={joinNat (Hub.maskPixels s.forest sel)} rows={joinNat (sortNat (Hub.scatterRows s.forest rowIds sel))} label={Hub.labelText sel}"
  some (slotLines ++ [s!"log {";".intercalate (h.log.map fun (c, sl) => s!"{c}.{sl}")}", "end"])

def parseDView (s : String) : Option DView :=
  match s.splitOn "@" with
  | [shape, data, minv, mind, minn, lmap] => do
    let sh ← parseNatList shape
    let d ← parseVals data
    let (mn, md) ← match minv.splitOn "/" with
      | [a, b] => do pure ((← a.toInt?), (← b.toNat?))
      | _ => none
    let lm ← if lmap == "-" then some [] else (lmap.splitOn ",").mapM fun w => if w == "-1" then some none else w.toNat?.map some
    pure { shape := sh, data := d, minv := (mn, md), mind := ← mind.toInt?, minn := ← minn.toInt?, lmap := lm }
  | _ => none

def doEq (m : List (String × String)) : Option (List String) := do
  let a ← parseDView (← look m "a")
  let b ← parseDView (← look m "b")
  let b2i (x : Bool) : Nat := if x then 1 else 0
  some [ s!"eqd {b2i (DView.eqD a b)}", s!"eqspec {b2i (DView.eqSpec a b)}", s!"eqintended {b2i (DView.eqIntended a b)}",
         s!"eqd_rev {b2i (DView.eqD b a)}", "end" ]

def hexToNats (s : String) : Option (List Nat) :=
  if s == "-" then some [] else
  let cs := s.toList
  let rec go : List Char → Option (List Nat)
    | [] => some []
    | [_] => none
    | a :: b :: rest => do
      let d (c : Char) : Option Nat :=
        if c.isDigit then some (c.toNat - '0'.toNat)
        else if 'a' ≤ c ∧ c ≤ 'f' then some (c.toNat - 'a'.toNat + 10) else none
      let r ← go rest
      pure (((← d a) * 16 + (← d b)) :: r)
  go cs

def doIdentify (m : List (String × String)) : Option (List String) := do
  let nameBytes ← hexToNats (← look m "name")
  let name := nameBytes.map Char.ofNat
  let read := (← look m "read") == "1"
  let headS ← look m "head"
  let head ← if headS == "none" then some none else (hexToNats headS).map some
  let r := Identify.identify name read head
  some [ s!"format {match r with | some .fits => "fits" | some .hdf5 => "hdf5" | none => "none"}", "end" ]


/-! ## the cache machine (C14) driven with the implementation's histories -/

def heapOfForest (f : List Tree) : Heap :=
  let rs := rows f
  { objs := rs.map fun r => { id := r.id, parent := r.parent, kids := r.kids, own := r.own },
    alive := rs.map (·.id) }

/-- `TreeIndex.__init__` evaluates `level` of every structure (in `_structures_dict` order) -/
def levelSweep (h : Heap) (ids : List Nat) : Heap := ids.foldl (fun h i => (h.level h.size i).1) h

def seedTrunk (h : Heap) : Heap :=
  { h with objs := h.objs.map fun o => if h.alive.contains o.id && o.parent.isNone then { o with lvl := some 0 } else o }

def cacheState (h : Heap) : List String :=
  (h.objs.filter fun o => h.alive.contains o.id).map fun o =>
    s!"c id={o.id} par={optNat o.parent} kids={joinNat o.kids} lvl={optNat o.lvl} anc={optNat o.anc} desc={if o.desc.isSome then 1 else 0} nw={if o.nw.isSome then 1 else 0}"

def doCache (s : Sess) (ws : List String) : Option (Sess × List String) :=
  match ws with
  | ["init", ids] => do
    let order ← parseNatList ids
    let h := levelSweep (seedTrunk (heapOfForest s.forest)) order
    some ({ s with heap := h }, cacheState h ++ ["end"])
  | ["q", kind, i] => do
    let i ← i.toNat?
    let h := s.heap
    let (h', ans) ← match kind with
      | "level" => let r := h.level h.size i; some (r.1, optNat r.2)
      | "anc" => let r := h.ancestor h.size i; some (r.1, optNat r.2)
      | "desc" => let r := h.descendants h.size i; some (r.1, match r.2 with | some d => joinNat (sortNat d) | none => "none")
      | "newick" => let r := h.newick h.size i; some (r.1, r.2)
      | _ => none
    some ({ s with heap := h' }, [s!"ans {ans}"] ++ cacheState h' ++ ["end"])
  | ["prune", merges, ids] => do
    let ms ← parseNatList merges
    let order ← parseNatList ids
    let h := levelSweep (s.heap.prune ms) order
    some ({ s with heap := h }, cacheState h ++ ["end"])
  | _ => none


/-! ## the pixel-count / peak cache machine (C14) -/

def pheapOfForest (val : Nat → Int) (f : List Tree) : PHeap :=
  let rs := rows f
  { objs := rs.map fun r => { id := r.id, parent := r.parent, kids := r.kids, own := r.own.map fun p => (p, val p) },
    alive := rs.map (·.id) }

def optPk : Option (Nat × Int) → String
  | none => "-"
  | some (p, v) => s!"{p}:{v}"

def pcacheState (h : PHeap) : List String :=
  (h.objs.filter fun o => h.alive.contains o.id).map fun o =>
    s!"c id={o.id} par={optNat o.parent} kids={joinNat o.kids} nown={o.own.length} npix={optNat o.npixTot} peak={optPk o.peak} peaksub={optPk o.peakSub}"

def doPCache (s : Sess) (ws : List String) : Option (Sess × List String) :=
  match ws with
  | ["init"] =>
    let h := pheapOfForest s.val s.forest
    some ({ s with pheap := h }, pcacheState h ++ ["end"])
  | ["q", "npix", i] => do
    let i ← i.toNat?
    let r := s.pheap.getNpix s.pheap.size i
    some ({ s with pheap := r.1 }, [s!"ans {optNat r.2}"] ++ pcacheState r.1 ++ ["end"])
  | ["q", "peak", i, sub] => do
    let i ← i.toNat?
    let r := s.pheap.getPeak s.pheap.size i (sub == "1")
    some ({ s with pheap := r.1 }, [s!"ans {optPk r.2}"] ++ pcacheState r.1 ++ ["end"])
  | ["prune", merges] => do
    let ms ← parseNatList merges
    let h := s.pheap.prune ms
    some ({ s with pheap := h }, pcacheState h ++ ["end"])
  | ["spec"] =>
    let h := s.pheap
    some (s, ((h.objs.filter fun o => h.alive.contains o.id).map fun o =>
      s!"s id={o.id} npix={h.specCount h.size o.id} peak={optPk (h.specPeak o.id)} peaksub={optPk (h.specPeakSub h.size o.id)}") ++ ["end"])
  | _ => none


/-! ## loading an arbitrary forest: `id:own+own(child,child)` separated by `;` -/

def takeDigits (s : List Char) : List Char × List Char := takeWhileC Char.isDigit s

mutual
def parseTreeTxt : Nat → List Char → Option (Tree × List Char)
  | 0, _ => none
  | fuel + 1, s => do
    let (ds, rest) := takeDigits s
    let i ← digitsToNat? ds
    match rest with
    | ':' :: rest => do
      let (own, rest) ← parseOwnTxt fuel rest
      match rest with
      | '(' :: rest => do
        let (ks, rest) ← parseKidsTxt fuel rest
        match rest with
        | ')' :: rest => some (.node i own ks, rest)
        | _ => none
      | _ => some (.node i own [], rest)
    | _ => none
def parseKidsTxt : Nat → List Char → Option (List Tree × List Char)
  | 0, _ => none
  | fuel + 1, s => do
    let (t, rest) ← parseTreeTxt fuel s
    match rest with
    | ',' :: rest => do
      let (ts, rest) ← parseKidsTxt fuel rest
      some (t :: ts, rest)
    | _ => some ([t], rest)
def parseOwnTxt : Nat → List Char → Option (List Nat × List Char)
  | 0, _ => none
  | fuel + 1, s => do
    let (ds, rest) := takeDigits s
    let p ← digitsToNat? ds
    match rest with
    | '+' :: rest => do
      let (ps, rest) ← parseOwnTxt fuel rest
      some (p :: ps, rest)
    | _ => some ([p], rest)
end

def parseForestTxt (s : String) : Option (List Tree) :=
  if s == "-" || s == "" then some [] else
  (s.splitOn ";").mapM fun w =>
    match parseTreeTxt (2 * w.length + 2) w.toList with
    | some (t, []) => some t
    | _ => none

def doSetForest (m : List (String × String)) : Option (Sess × List String) := do
  let n ← (← look m "n").toNat?
  let fb ← ((look m "fb").getD "0").toNat?
  let vals ← parseVals (← look m "vals")
  let f ← parseForestTxt (← look m "f")
  if vals.length != n then none else
  let s1 : Sess := { n := n, fb := fb, vals := vals.toArray, forest := f }
  some (s1, obsBlock s1)

def simple (s : Sess) (r : Option (List String)) (name : String) : Sess × List String :=
  match r with
  | some out => (s, out)
  | none => (s, [s!"bad-op {name}", "end"])

def handle (s : Sess) (line : String) : Sess × List String :=
  let ws := (line.trimAscii.toString.splitOn " ").filter (· != "")
  match ws with
  | "compute" :: rest =>
    match doCompute (kvs rest) with
    | some (s', out) => (s', out)
    | none => (s, ["bad-op compute", "end"])
  | "prune" :: rest =>
    match doPrune s (kvs rest) with
    | some (s', out) => (s', out)
    | none => (s, ["bad-op prune", "end"])
  | ["pruneparam", r, q] =>
    match r.toInt?, q.toInt? with
    | some r, some q => let x := pruneParam r q; (s, [s!"eff {x.1}", s!"recorded {x.2}", "end"])
    | _, _ => (s, ["bad-op pruneparam", "end"])
  | "setforest" :: rest =>
    match doSetForest (kvs rest) with
    | some (s', out) => (s', out)
    | none => (s, ["bad-op setforest", "end"])
  | "pruneorig" :: rest =>
    match doPruneOrig s (kvs rest) with
    | some (s', out) => (s', out)
    | none => (s, ["bad-op pruneorig", "end"])
  | ["reload"] =>
    match doReload s with
    | some (s', out) => (s', out)
    | none => (s, ["bad-op reload", "end"])
  | ["obs"] => (s, obsBlock s)
  | "moments" :: rest => simple s (doMoments (kvs rest)) "moments"
  | "ppv" :: rest => simple s (doPPV (kvs rest)) "ppv"
  | "pp" :: rest => simple s (doPP (kvs rest)) "pp"
  | "wrap" :: rest => simple s (doWrap (kvs rest)) "wrap"
  | "flux" :: rest => simple s (doFlux (kvs rest)) "flux"
  | "fluxerr" :: rest => simple s (doFluxErr (kvs rest)) "fluxerr"
  | "cache" :: rest =>
    match doCache s rest with
    | some (s', out) => (s', out)
    | none => (s, ["bad-op cache", "end"])
  | "pcache" :: rest =>
    match doPCache s rest with
    | some (s', out) => (s', out)
    | none => (s, ["bad-op pcache", "end"])
  | "pick" :: rest =>
    let m := kvs rest
    match (look m "ls").bind parseNatList, (look m "peaks").bind parseKeyTable, (look m "ind").bind parseNatList with
    | some ls, some tbl, some ind =>
      let peak : Nat → Int := fun i => ((tbl.find? (fun kv => kv.1 == i)).map (·.2)).getD 0
      (s, [s!"picked {optNat (Hub.pickLine ls peak ind)}", "end"])
    | _, _, _ => (s, ["bad-op pick", "end"])
  | "plot" :: rest => simple s (doPlot s (kvs rest)) "plot"
  | "hub" :: rest => simple s (doHub s (kvs rest)) "hub"
  | "eq" :: rest => simple s (doEq (kvs rest)) "eq"
  | "identify" :: rest => simple s (doIdentify (kvs rest)) "identify"
  | ["newick", txt] =>
    (s, [ "impl " ++ ntreeLine (parseImpl txt), "descent " ++ ntreeLine (parseDescent txt), "end" ])
  | _ => (s, ["bad-op unknown", "end"])

partial def loop (h : IO.FS.Stream) (out : IO.FS.Stream) (s : Sess) : IO Unit := do
  let line ← h.getLine
  if line.isEmpty then return ()
  let (s', lines) := handle s line
  for l in lines do out.putStrLn l
  out.flush
  loop h out s'

def main : IO Unit := do loop (← IO.getStdin) (← IO.getStdout) {}
