import ADProofs
/-!
# C01 — every above-threshold pixel is labelled exactly once; nothing else is labelled

Property theorems only (helper lemmas live in `ADProofs`).  Each implication is followed by an
`example` showing that a concrete non-trivial state meets its hypotheses.
-/
open Tree

/-- **C01 (partition, whole run).**  For every environment (any values, ties included, any
adjacency, any criteria) and every duplicate-free processing order, after the pixel loop the
pixels of all structures are exactly the processed pixels, and no pixel occurs twice (neither in
two structures nor twice in one). -/
theorem C01_run_partition (E : Env) (order : List Nat) (hnd : order.Nodup) :
    (pixelsL (run E order)).Nodup ∧ ∀ p, p ∈ pixelsL (run E order) ↔ p ∈ order := by
  have h := run_pixels E order
  constructor
  · exact h.nodup_iff.mpr ((List.reverse_perm order).nodup_iff.mpr hnd)
  · intro p; rw [h.mem_iff]; simp

/-- **C01 (one step).**  Processing pixel `p` adds exactly `p` to the assigned pixels. -/
theorem C01_step_adds_exactly (E : Env) (roots : List Tree) (p : Nat) :
    (pixelsL (step E roots p)).Perm (p :: pixelsL roots) := step_pixels E roots p

/-- **C01 (assigned iff above threshold, modulo dropped parentless leaves).** After the whole of
`compute` (loop, `_make_trunk`, re-labelling) a pixel belongs to some structure iff it was
processed (= is a number above the threshold, hypothesis checked per run on the recorded order)
and does not lie in a parentless leaf failing the value-less criteria; … -/
theorem C01_assigned_iff (E : Env) (order : List Nat) (hnd : order.Nodup) (p : Nat) :
    p ∈ pixelsL (compute E order) ↔ (p ∈ order ∧ ¬ ∃ t ∈ droppedOrphans E (run E order), p ∈ t.pixels) :=
  P9.compute_assigned_iff E order hnd p

/-- … such a leaf is dropped as a whole, and it is a root (an isolated region), a leaf, and fails
the criteria; … -/
theorem C01_dropped_whole (E : Env) (order : List Nat) :
    ∀ t ∈ droppedOrphans E (run E order), t ∈ run E order ∧ t.kids = [] ∧ E.indepOrphan t = false :=
  P9.dropped_is_whole_leaf E order

/-- … and every assigned pixel belongs to exactly one structure's own pixels. -/
theorem C01_assigned_once (E : Env) (order : List Nat) (hnd : order.Nodup) :
    (pixelsL (compute E order)).Nodup := P9.compute_pixels_nodup E order hnd

/-- **C01 (default threshold, integer data).** The repaired default `int(min) - 1` lies strictly
below the minimum for every integer; the old default (computed in the array's dtype) did so
exactly when `min - 1` was representable, and wrapped at the minimum of the dtype. -/
theorem C01_default_min_lt (m : Int) : defaultMinNew m < m := P9.defaultMinNew_lt m
theorem C01_default_min_old_iff (bits : Nat) (signed : Bool) (m : Int) (hb : 0 < bits)
    (hm : inRange bits signed m = true) :
    defaultMinOld bits signed m < m ↔ inRange bits signed (m - 1) = true :=
  P9.defaultMinOld_ok_iff bits signed m hb hm
theorem C01_default_min_old_witness : ¬ (defaultMinOld 8 false 0 < 0) ∧ ¬ (defaultMinOld 8 true (-128) < -128) :=
  ⟨P9.defaultMinOld_wraps_uint8, P9.defaultMinOld_wraps_int8⟩

-- non-vacuity: a 6-pixel row with a three-level tree; the order is duplicate-free
example : let E := envOf (fun p => [1, 10, 5, 9, 2, 8][p]!) (Grid.nbrs [6] []) []
    [1, 3, 5, 2, 4, 0].Nodup ∧ (pixelsL (run E [1, 3, 5, 2, 4, 0])).length = 6 := by decide

/-! ## the label map as the code maintains it -/

/-- **C01 (label map, imperative mechanism).** `Dendrogram.compute` does not search pixel lists: it keeps a label
map (`index_map[coord] = idx`, `_fill_footprint` when leaves are absorbed) and finds adjacent structures by reading
labels and following them to their root. `runL` (`ADModel/LabelMap.lean`) models exactly that; for every environment
and duplicate-free order the label map it maintains names, for every pixel, the structure whose own list contains it
(`none` = −1 for everything else) — the label map and the structures are two views of the same assignment. -/
theorem C01_label_map_refines (E : Env) (order : List Nat) (hnd : order.Nodup) (q : Nat) :
    (runL E order).lmap q = labelOf (run E order) q := P36.runL_lmap_run E order hnd q

/-- a pixel is labelled iff it was processed -/
theorem C01_label_map_domain (E : Env) (order : List Nat) (hnd : order.Nodup) (q : Nat) :
    (q ∉ order → (runL E order).lmap q = none) ∧ (q ∈ order → ((runL E order).lmap q).isSome = true) :=
  ⟨P36.runL_lmap_unprocessed E order hnd q, P36.runL_lmap_processed E order hnd q⟩

example : (runL P36.rowEnv P36.rowOrder).roots = run P36.rowEnv P36.rowOrder := by rfl

/-- **C01 (the label map `compute` returns).** After the loop the code clears the footprints of the parentless leaves
`_make_trunk` drops, re-numbers the structures by smallest pixel and writes every structure's final identifier over its
own pixels (`_fill_footprint(…, recursive=False)`). `P40.finalLmap` models those writes in the order the code performs
them; the resulting map is, for every pixel, the identifier of the structure of the returned dendrogram that owns it —
`none` (−1) exactly for unprocessed pixels and pixels of dropped leaves; the identifiers are `0 … N−1`, all used, and two
pixels carry the same label only if the same structure owns them. -/
theorem C01_final_label_map (E : Env) (order : List Nat) (hnd : order.Nodup) (q : Nat) :
    finalLmap E order q = labelOf (compute E order) q := P40.finalLmap_eq E order hnd q
theorem C01_final_label_none_iff (E : Env) (order : List Nat) (hnd : order.Nodup) (q : Nat) :
    finalLmap E order q = none ↔ (q ∉ order ∨ ∃ t ∈ droppedOrphans E (run E order), q ∈ t.pixels) :=
  P40.finalLmap_none_iff E order hnd q
theorem C01_final_labels_are_ids (E : Env) (order : List Nat) (hnd : order.Nodup) :
    (∀ q i, finalLmap E order q = some i → i < (preL (compute E order)).length) ∧
    (∀ i, i < (preL (compute E order)).length → ∃ q, finalLmap E order q = some i) :=
  ⟨fun q i h => P40.finalLmap_lt E order hnd q i h, fun i hi => P40.finalLmap_surj E order hnd i hi⟩
