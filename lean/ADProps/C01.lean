import ADProofs
/-!
# C01 — every above-threshold pixel is labelled exactly once; nothing else is labelled

Property theorems only (helper lemmas live in `ADProofs`).  Each implication is followed by an
`example` showing that a concrete non-trivial state meets its hypotheses.
-/
open Tree

/-- **C01 (partition, whole run).**  For every environment (any values, ties included, any
adjacency, any criteria) and every duplicate-free processing order, after the pixel loop the
pixels of all structures are exactly the processed pixels, and no pixel occurs twice (neither in
two structures nor twice in one). -/
theorem C01_run_partition (E : Env) (order : List Nat) (hnd : order.Nodup) :
    (pixelsL (run E order)).Nodup ∧ ∀ p, p ∈ pixelsL (run E order) ↔ p ∈ order := by
  have h := run_pixels E order
  constructor
  · exact h.nodup_iff.mpr ((List.reverse_perm order).nodup_iff.mpr hnd)
  · intro p; rw [h.mem_iff]; simp

/-- **C01 (one step).**  Processing pixel `p` adds exactly `p` to the assigned pixels. -/
theorem C01_step_adds_exactly (E : Env) (roots : List Tree) (p : Nat) :
    (pixelsL (step E roots p)).Perm (p :: pixelsL roots) := step_pixels E roots p

-- non-vacuity: a 6-pixel row with a three-level tree; the order is duplicate-free
example : let E := envOf (fun p => [1, 10, 5, 9, 2, 8][p]!) (Grid.nbrs [6] []) []
    [1, 3, 5, 2, 4, 0].Nodup ∧ (pixelsL (run E [1, 3, 5, 2, 4, 0])).length = 6 := by decide
