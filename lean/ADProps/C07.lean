import ADProofs
/-!
# C07 — pruning coarsens the tree to a fixpoint and keeps it consistent

`ic` (post-hoc criteria for a leaf with a parent) and `io` (criteria for a parentless leaf) are
ARBITRARY functions in every theorem: the statements cover min_delta / min_npix / any user
criteria.  `IdsNodup f` (identifiers pairwise distinct) is provided by C02.
-/
open Tree

/-- **C07 (fixpoint).** After pruning no leaf that has a parent fails the requested criteria, and
no parentless leaf fails the value-less ones. -/
theorem C07_every_leaf_passes (ic : Tree → Tree → Bool) (io : Tree → Bool) (f : List Tree) (hids : IdsNodup f) :
    (∀ P ∈ preL (pruneLoop ic (sizeL f) f), ∀ L ∈ P.kids, L.kids = [] → ic P L = true) ∧
    (∀ t ∈ prune ic io f, t.kids = [] → io t = true) :=
  ⟨(pruneForest_none_iff ic _).mp (pruneLoop_fixpoint ic f hids), makeTrunkP_leaves_pass io _⟩

/-- **C07 (regions and identifiers).** Every structure surviving the loop carries the identifier
of a former structure and has exactly the same region (with substructures). -/
theorem C07_regions_preserved (ic : Tree → Tree → Bool) (n : Nat) (f : List Tree) (hids : IdsNodup f) :
    ∀ s' ∈ preL (pruneLoop ic n f), ∃ s ∈ preL f, s.id = s'.id ∧ s'.pixels.Perm s.pixels :=
  pruneLoop_regions ic n f hids

/-- **C07 (pixels).** The merge loop keeps every assigned pixel assigned exactly once (only the
final trunk step can drop whole parentless leaves). -/
theorem C07_pixels_preserved (ic : Tree → Tree → Bool) (n : Nat) (f : List Tree) (hids : IdsNodup f) :
    (pixelsL (pruneLoop ic n f)).Perm (pixelsL f) := pruneLoop_pixels ic n f hids

/-- **C07 (only whole parentless leaves are dropped).** What `_make_trunk` removes after the loop
are parentless structures (members of the trunk list), and every one kept that is a leaf passes. -/
theorem C07_trunk_step (io : Tree → Bool) (f : List Tree) :
    (∀ t ∈ makeTrunkP io f, t ∈ f) ∧ (∀ t ∈ makeTrunkP io f, t.kids = [] → io t = true) :=
  ⟨makeTrunkP_sub io f, makeTrunkP_leaves_pass io f⟩

/-- **C07 (well-formedness is preserved).** Branches keep ≥ 2 children, identifiers stay distinct. -/
theorem C07_arity_preserved (ic : Tree → Tree → Bool) (n : Nat) (f : List Tree) (hids : IdsNodup f)
    (ha : ∀ s ∈ preL f, PArity s) : ∀ s ∈ preL (pruneLoop ic n f), PArity s := pruneLoop_arity ic n f hids ha
theorem C07_ids_preserved (ic : Tree → Tree → Bool) (n : Nat) (f : List Tree) (hids : IdsNodup f) :
    IdsNodup (pruneLoop ic n f) := pruneLoop_idsNodup ic n f hids

/-- **C07 (the parent of a surviving structure is its nearest surviving former ancestor).**
`P21.ancestors f i` lists the identifiers of the proper ancestors of structure `i`, nearest first;
pruning only deletes identifiers from every ancestor chain. -/
theorem C07_nearest_surviving_ancestor (ic : Tree → Tree → Bool) (n : Nat) (f : List Tree) (hids : IdsNodup f) :
    ∀ s' ∈ preL (pruneLoop ic n f), P21.ancestors (pruneLoop ic n f) s'.id =
      (P21.ancestors f s'.id).filter (fun a => a ∈ (preL (pruneLoop ic n f)).map Tree.id) :=
  P21.pruneLoop_ancestors ic n f hids

/-- **C07 (pixels of removed structures pass to that ancestor).** The own pixels of a surviving
structure are its former own pixels plus the own pixels of exactly those removed structures whose
nearest surviving former ancestor it is. -/
theorem C07_own_transfer (ic : Tree → Tree → Bool) (n : Nat) (f : List Tree) (hids : IdsNodup f) :
    ∀ s' ∈ preL (pruneLoop ic n f), ∃ s ∈ preL f, s.id = s'.id ∧
      s'.own.Perm (s.own ++ ((preL f).filter (fun r => r.id ∉ (preL (pruneLoop ic n f)).map Tree.id ∧
        (P21.ancestors f r.id).find? (fun a => a ∈ (preL (pruneLoop ic n f)).map Tree.id) = some s.id)).flatMap Tree.own) :=
  P21.pruneLoop_own_transfer ic n f hids

/-- **C07 (idempotence).** Pruning again with the same criteria changes nothing. -/
theorem C07_idempotent (ic : Tree → Tree → Bool) (io : Tree → Bool) (f : List Tree) :
    prune ic io (prune ic io f) = prune ic io f := prune_idempotent' ic io f

/-- **C07 (no-op).** Pruning with criteria every leaf already meets changes nothing (up to the
trunk list being sorted by identifier). -/
theorem C07_noop (ic : Tree → Tree → Bool) (io : Tree → Bool) (f : List Tree)
    (hfix : pruneForest ic [] f = none) (hio : ∀ t ∈ f, t.kids = [] → io t = true) :
    prune ic io f = sortById f := prune_noop ic io f hfix hio

/-- **C07 (recorded parameters never decrease; 0 inherits).** -/
theorem C07_params_monotone (recorded req : Int) : recorded ≤ (pruneParam recorded req).2 :=
  pruneParam_monotone recorded req
theorem C07_params_zero_inherits (recorded : Int) : pruneParam recorded 0 = (recorded, recorded) :=
  pruneParam_zero_inherits recorded

-- non-vacuity: a 3-level tree with distinct ids on which a prune step does something
example : IdsNodup [node 0 [4, 0] [node 2 [2] [node 1 [1] [], node 3 [3] []], node 4 [5] []]] := by
  unfold IdsNodup; decide

/-! ## the loop as the code runs it, on objects -/

/-- **C07 (the prune loop on the object heap is the prune of the tree model).** `P41.loopRun` models the code's loop on
the object heap: scan `all_structures` in prefix order for the first leaf that is still present, has a parent and fails
the criteria *evaluated on the heap as it is now* (`_to_prune`), apply the two-sibling rule, merge with
`_merge_with_parent`, rescan. Read as a forest of the tree model, its result is `pruneLoop` — for every well-formed heap,
every criterion and every number of rounds; the merges the loop performs are legal, so after the cache reset and trunk
seeding (`Heap.prune`) the heap is well formed with sound caches. The fixpoint, region, identifier and arity theorems of
this file are therefore theorems about what the object-level code computes. -/
theorem C07_heap_loop_refines {h : Heap} (w : P17.WF h) (icT : Tree → Tree → Bool) (n : Nat) :
    P17.Legal h (P41.loopMerges n h (P41.icOf icT)) ∧
    P35.absF (h.prune (P41.loopMerges n h (P41.icOf icT))) (h.prune (P41.loopMerges n h (P41.icOf icT))).size
        (P35.rootsOf (h.prune (P41.loopMerges n h (P41.icOf icT)))) =
      pruneLoop icT n (P35.absF h h.size (P35.rootsOf h)) ∧
    P17.WF (h.prune (P41.loopMerges n h (P41.icOf icT))) ∧ P17.Sound (h.prune (P41.loopMerges n h (P41.icOf icT))) :=
  P41.heap_prune_refines w icT n

/-- the whole of `prune` (loop to the fixpoint, then `_make_trunk`) -/
theorem C07_heap_prune_is_prune {h : Heap} (w : P17.WF h) (icT : Tree → Tree → Bool) (io : Tree → Bool) :
    prune icT io (P35.absF h h.size (P35.rootsOf h)) =
      makeTrunkP io
        (P35.absF (P41.loopRun (sizeL (P35.absF h h.size (P35.rootsOf h))) h (P41.icOf icT))
          (P41.loopRun (sizeL (P35.absF h h.size (P35.rootsOf h))) h (P41.icOf icT)).size
          (P35.rootsOf (P41.loopRun (sizeL (P35.absF h h.size (P35.rootsOf h))) h (P41.icOf icT)))) :=
  P41.prune_eq_loopRun w icT io
