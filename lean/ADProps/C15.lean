import ADProofs
/-!
# C15 — compute is a pure, deterministic function of values and parameters

In the model this is definitional: `compute E order` is a function of the environment (shape,
values, adjacency, criteria) and the order.  That the implementation depends on nothing else is
what the correspondence check establishes (dtype / layout / verbose / history variants must all
produce the model's answer).  One piece of arithmetic *is* logic: the significance test must not
depend on the width of the input dtype.
-/

/-- **C15 (the significance test is width-free).** The repaired test uses the exact difference. -/
theorem C15_signif_width_free (vmax v d : Int) : signifNew vmax v d = true ↔ d ≤ vmax - v :=
  P9.signifNew_width_free vmax v d

/-- **C15 (old code).** Taking the difference in the array's dtype gives the same decision exactly
when the difference is representable … -/
theorem C15_signif_old_eq_of_inRange (bits : Nat) (signed : Bool) (vmax v d : Int) (hb : 0 < bits)
    (h : inRange bits signed (vmax - v) = true) : signifOld bits signed vmax v d = signifNew vmax v d :=
  P9.signifOld_eq_of_inRange bits signed vmax v d hb h

/-- … and differs otherwise: `int8` `100 − (−120)` wraps to `−36` (witness of the repaired defect). -/
theorem C15_signif_old_witness : signifOld 8 true 100 (-120) 150 ≠ signifNew 100 (-120) 150 :=
  P9.signifOld_wraps_int8

/-- **C15 (determinism).** Two runs on the same environment and order give the same forest, and
for distinct values the order itself is determined by the values (C04). -/
theorem C15_deterministic (E : Env) (o1 o2 : List Nat)
    (h1 : o1.Pairwise (fun a b => E.val b < E.val a)) (h2 : o2.Pairwise (fun a b => E.val b < E.val a))
    (hperm : o1.Perm o2) : compute E o1 = compute E o2 := by
  unfold compute; rw [run_unique_of_distinct E o1 o2 h1 h2 hperm]
