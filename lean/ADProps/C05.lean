import ADProofs
import ADProps.C03
/-!
# C05 — leaves are exactly the independent local maxima
-/
open Tree

/-- **C05 (leaves with a parent are significant).** Every child `L` of every branch `P` passed the
significance test at the creating pixel `P.id` of its parent (temporary identifiers are creating
pixels); for a leaf this means: its peak differs from the meeting value and every criterion
holds at the meeting value. -/
theorem C05_parented_leaf_significant (E : Env) (order : List Nat) :
    ∀ P ∈ preL (run E order), ∀ L ∈ P.kids, L.kids = [] →
      L.vmax E.val ≠ E.val P.id ∧ E.indep L P.id (E.val P.id) = true :=
  ContourP.run_leaf_kids_significant E order

/-- **C05 (the meeting value is the brightest outside neighbour).** The creating pixel of the
parent is adjacent to the child from outside, and is no brighter than any pixel of the child;
by `C03_contour` no other above-threshold outside neighbour is brighter than it … -/
theorem C05_meeting_pixel (E : Env) (hsym : SymmAdj E) (order : List Nat) (hnd : order.Nodup)
    (hsorted : SortedDesc E order) :
    ∀ P ∈ preL (run E order), ∀ L ∈ P.kids,
      (∃ a ∈ L.pixels, P.id ∈ E.nbrs a ∨ a ∈ E.nbrs P.id) ∧ P.id ∉ L.pixels ∧ P.id ∈ order ∧
      (∀ x ∈ L.pixels, E.val P.id ≤ E.val x) :=
  ContourP.run_parent_is_brightest_outside E hsym order hnd hsorted

/-- **C05 (built-in criteria, unfolded).** With `min_delta = d` and `min_npix = n` among the
criteria, every leaf with a parent peaks at least `d` above the meeting value and has at least
`n` pixels. -/
theorem C05_builtin (val : Nat → Int) (nbrs : Nat → List Nat) (d : Int) (n : Nat) (cs : List Crit)
    (order : List Nat) :
    let E := envOf val nbrs (Crit.minDelta d :: Crit.minNpix n :: cs)
    ∀ P ∈ preL (run E order), ∀ L ∈ P.kids, L.kids = [] →
      d ≤ L.vmax val - val P.id ∧ n ≤ L.pixels.length := by
  intro E P hP L hL hleaf
  have h := (ContourP.run_leaf_kids_significant E order P hP L hL hleaf).2
  simp [E, envOf, allMerge, Crit.atMerge] at h
  exact ⟨h.1, h.2.1⟩

/-- **C05 (parentless leaves).** Every parentless leaf kept by `_make_trunk` satisfies the
value-less criteria; a root that is dropped is a leaf failing them. -/
theorem C05_orphan_leaf (E : Env) (roots : List Tree) :
    (∀ t ∈ makeTrunk E roots, t.kids = [] → E.indepOrphan t = true) ∧
    (∀ t ∈ roots, t ∉ makeTrunk E roots → t.kids = [] ∧ E.indepOrphan t = false) :=
  ⟨ContourP.makeTrunk_leaves_pass E roots, ContourP.makeTrunk_dropped E roots⟩

/-! ## without pruning: exactly one leaf per plateau-aware regional maximum

`P20.SamePlateau E order p q`: `q` is reachable from `p` through above-threshold pixels that all
carry the value of `p`.  `P20.RegMax E order p`: `p` is above threshold and no pixel of its
plateau has a brighter above-threshold neighbour.  Hypotheses: symmetric adjacency, duplicate-free
non-increasing order (ties allowed), no pruning (`E.indep` constantly true). -/

/-- **C05 (each leaf's peak lies in a regional maximum, and its peak pixels are one plateau).** -/
theorem C05_leaf_peak_regmax (E : Env) (hsym : SymmAdj E) (order : List Nat) (hnd : order.Nodup)
    (hsorted : SortedDesc E order) (hno : ∀ t p v, E.indep t p v = true) :
    (∀ t ∈ preL (run E order), t.kids = [] → ∀ p ∈ t.own, E.val p = t.vmax E.val → P20.RegMax E order p) ∧
    (∀ t ∈ preL (run E order), t.kids = [] → ∀ p ∈ t.own, ∀ q ∈ t.own, E.val p = t.vmax E.val →
        E.val q = t.vmax E.val → P20.SamePlateau E order p q) :=
  ⟨P20.leaf_peak_regmax E hsym order hnd hsorted hno, P20.leaf_peak_one_plateau E hsym order hnd hsorted hno⟩

/-- **C05 (distinct leaves peak in distinct regional maxima).** -/
theorem C05_leaves_distinct_maxima (E : Env) (hsym : SymmAdj E) (order : List Nat) (hnd : order.Nodup)
    (hsorted : SortedDesc E order) (hno : ∀ t p v, E.indep t p v = true) :
    ∀ t ∈ preL (run E order), ∀ t' ∈ preL (run E order), t.kids = [] → t'.kids = [] → t ≠ t' →
      ∀ p ∈ t.own, ∀ q ∈ t'.own, E.val p = t.vmax E.val → E.val q = t'.vmax E.val → ¬ P20.SamePlateau E order p q :=
  P20.leaves_distinct_maxima E hsym order hnd hsorted hno

/-- **C05 (every regional maximum has its leaf).** Together with the two theorems above: the map
leaf ↦ plateau of its peak is a bijection between leaves and regional maxima. -/
theorem C05_regmax_has_leaf (E : Env) (hsym : SymmAdj E) (order : List Nat) (hnd : order.Nodup)
    (hsorted : SortedDesc E order) (hno : ∀ t p v, E.indep t p v = true) :
    ∀ p, P20.RegMax E order p → ∃ t ∈ preL (run E order), t.kids = [] ∧ p ∈ t.own ∧ E.val p = t.vmax E.val :=
  P20.regmax_has_leaf E hsym order hnd hsorted hno
