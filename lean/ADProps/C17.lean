import ADProofs
/-!
# C17 — periodic axes wrap, and only they do
-/

/-- **C17 (characterisation on one axis).** On an axis of length `n`, `d` is a neighbour of `c`
iff they differ by one, or the axis is declared periodic and they are its two ends (this
includes `n = 1`, where a pixel is its own neighbour, and `n = 2`). -/
theorem C17_axis (n : Nat) (per : Bool) (c d : Nat) (hc : c < n) :
    d ∈ Grid.axisNbrs n per c ↔
      d < n ∧ ((d = c + 1) ∨ (c = d + 1) ∨ (per = true ∧ c + 1 = n ∧ d = 0) ∨ (per = true ∧ c = 0 ∧ d + 1 = n)) :=
  axisNbrs_mem n per c d hc

/-- **C17 (neighbours differ along exactly one axis, wrapping only where declared).** -/
theorem C17_neighbours (shape periodic c d : List Nat) (hc : InRange shape c) :
    d ∈ Grid.nbrsC shape periodic c ↔
      ∃ a, a < shape.length ∧ d = c.set a (d.getD a 0) ∧
        d.getD a 0 ∈ Grid.axisNbrs (shape.getD a 0) (periodic.contains a) (c.getD a 0) :=
  nbrsC_mem shape periodic c d hc

/-- **C17 (every grid adjacency is symmetric)** — for all dimensions, shapes and sets of periodic
axes; hence all hierarchy guarantees (C01–C05) hold with wrap-around adjacency. -/
theorem C17_grid_symmetric (shape periodic : List Nat) (p q : Nat) (hp : p < Grid.size shape)
    (hq : q ∈ Grid.nbrs shape periodic p) : q < Grid.size shape ∧ p ∈ Grid.nbrs shape periodic q :=
  grid_nbrs_symm shape periodic p q hp hq

/-- **C17 (a cyclic shift along a periodic axis is an automorphism of the adjacency).** -/
theorem C17_shift_automorphism (shape periodic : List Nat) (a k : Nat) (ha : periodic.contains a = true)
    (c d : List Nat) (hc : InRange shape c) (hd : InRange shape d) :
    d ∈ Grid.nbrsC shape periodic c ↔ shiftC shape a k d ∈ Grid.nbrsC shape periodic (shiftC shape a k c) :=
  shift_adj shape periodic a k ha c d hc hd

/-- **C17 (shift invariance of the whole computation).** Cyclically shifting the data by any
amount `k` along a declared periodic axis `a` yields the same hierarchy on the shifted pixels:
the run on the shifted values (`val'`), processing the shifted order, is similar (same regions,
same parent relation) to the original run — for every shape (axes of length 1 and 2 included),
every set of periodic axes, every value assignment and all built-in criteria (seeds are shifted
with the data).  For distinct values the shifted order is the only admissible one (C04). -/
theorem C17_shift_invariance (shape periodic : List Nat) (a k : Nat) (ha : periodic.contains a = true)
    (val : Nat → Int) (order : List Nat) (cs : List Crit)
    (horder : ∀ p ∈ order, p < Grid.size shape)
    (hseeds : ∀ c ∈ cs, ∀ s ∈ P10.seedsOf c, s < Grid.size shape)
    (val' : Nat → Int)
    (hval : ∀ p ∈ order, val' (P19.liftC shape shape (shiftC shape a k) p) = val p) :
    P10.SimL (P19.liftC shape shape (shiftC shape a k))
      (run (envOf val (Grid.nbrs shape periodic) cs) order)
      (run (envOf val' (Grid.nbrs shape periodic)
        (cs.map (P10.critRename (P19.liftC shape shape (shiftC shape a k)))))
        (order.map (P19.liftC shape shape (shiftC shape a k)))) :=
  P19.shift_invariance shape periodic a k ha val order cs horder hseeds val' hval
