import ADProofs
/-!
# C17 — periodic axes wrap, and only they do
-/

/-- **C17 (characterisation on one axis).** On an axis of length `n`, `d` is a neighbour of `c`
iff they differ by one, or the axis is declared periodic and they are its two ends (this
includes `n = 1`, where a pixel is its own neighbour, and `n = 2`). -/
theorem C17_axis (n : Nat) (per : Bool) (c d : Nat) (hc : c < n) :
    d ∈ Grid.axisNbrs n per c ↔
      d < n ∧ ((d = c + 1) ∨ (c = d + 1) ∨ (per = true ∧ c + 1 = n ∧ d = 0) ∨ (per = true ∧ c = 0 ∧ d + 1 = n)) :=
  axisNbrs_mem n per c d hc

/-- **C17 (neighbours differ along exactly one axis, wrapping only where declared).** -/
theorem C17_neighbours (shape periodic c d : List Nat) (hc : InRange shape c) :
    d ∈ Grid.nbrsC shape periodic c ↔
      ∃ a, a < shape.length ∧ d = c.set a (d.getD a 0) ∧
        d.getD a 0 ∈ Grid.axisNbrs (shape.getD a 0) (periodic.contains a) (c.getD a 0) :=
  nbrsC_mem shape periodic c d hc

/-- **C17 (every grid adjacency is symmetric)** — for all dimensions, shapes and sets of periodic
axes; hence all hierarchy guarantees (C01–C05) hold with wrap-around adjacency. -/
theorem C17_grid_symmetric (shape periodic : List Nat) (p q : Nat) (hp : p < Grid.size shape)
    (hq : q ∈ Grid.nbrs shape periodic p) : q < Grid.size shape ∧ p ∈ Grid.nbrs shape periodic q :=
  grid_nbrs_symm shape periodic p q hp hq

/-- **C17 (a cyclic shift along a periodic axis is an automorphism of the adjacency).** -/
theorem C17_shift_automorphism (shape periodic : List Nat) (a k : Nat) (ha : periodic.contains a = true)
    (c d : List Nat) (hc : InRange shape c) (hd : InRange shape d) :
    d ∈ Grid.nbrsC shape periodic c ↔ shiftC shape a k d ∈ Grid.nbrsC shape periodic (shiftC shape a k c) :=
  shift_adj shape periodic a k ha c d hc hd

/-- **C17 (shift invariance of the whole computation).** Cyclically shifting the data by any
amount `k` along a declared periodic axis `a` yields the same hierarchy on the shifted pixels:
the run on the shifted values (`val'`), processing the shifted order, is similar (same regions,
same parent relation) to the original run — for every shape (axes of length 1 and 2 included),
every set of periodic axes, every value assignment and all built-in criteria (seeds are shifted
with the data).  For distinct values the shifted order is the only admissible one (C04). -/
theorem C17_shift_invariance (shape periodic : List Nat) (a k : Nat) (ha : periodic.contains a = true)
    (val : Nat → Int) (order : List Nat) (cs : List Crit)
    (horder : ∀ p ∈ order, p < Grid.size shape)
    (hseeds : ∀ c ∈ cs, ∀ s ∈ P10.seedsOf c, s < Grid.size shape)
    (val' : Nat → Int)
    (hval : ∀ p ∈ order, val' (P19.liftC shape shape (shiftC shape a k) p) = val p) :
    P10.SimL (P19.liftC shape shape (shiftC shape a k))
      (run (envOf val (Grid.nbrs shape periodic) cs) order)
      (run (envOf val' (Grid.nbrs shape periodic)
        (cs.map (P10.critRename (P19.liftC shape shape (shiftC shape a k)))))
        (order.map (P19.liftC shape shape (shiftC shape a k)))) :=
  P19.shift_invariance shape periodic a k ha val order cs horder hseeds val' hval

section Ties
open Tree
/-! ## Ties: what does not depend on the order in which equal values are processed

With ties the forest depends on the (unspecified) order `np.argsort` leaves equal values in, and
that order is not equivariant under a cyclic shift.  What the property promises "in general" is
order-independent for criteria that can only turn true as a structure grows. -/

/-- **C17 / C16 (ties: assigned pixels).** For `min_delta`, `min_npix`, `min_peak`, `contains_seeds`
and `min_sum` on non-negative data (`P32.MonoCrit`), any symmetric adjacency, and any two
permutations `o₁`, `o₂` of the same duplicate-free set of above-threshold pixels (in particular the
two non-increasing orders of the original and of the shifted / relabelled run, mapped back): the
sets of pixels that `compute` assigns are the same. -/
theorem C17_assigned_order_independent (val : Nat → Int) (nbrs : Nat → List Nat) (cs : List Crit)
    (o₁ o₂ : List Nat) (hsym : ∀ x y, y ∈ nbrs x → x ∈ nbrs y) (hperm : o₁.Perm o₂) (hnd : o₁.Nodup)
    (hm : ∀ c ∈ cs, P32.MonoCrit val (fun x => x ∈ o₁) c) :
    ∀ p, p ∈ pixelsL (makeTrunk (envOf val nbrs cs) (run (envOf val nbrs cs) o₁)) ↔
      p ∈ pixelsL (makeTrunk (envOf val nbrs cs) (run (envOf val nbrs cs) o₂)) :=
  P32.assigned_order_independent' val nbrs cs o₁ o₂ hsym hperm hnd hm

/-- **C17 / C16 (ties: trunk regions).** Under the same hypotheses every surviving parentless
structure of one run has the same pixel set as a surviving parentless structure of the other. -/
theorem C17_trunk_regions_order_independent (val : Nat → Int) (nbrs : Nat → List Nat) (cs : List Crit)
    (o₁ o₂ : List Nat) (hsym : ∀ x y, y ∈ nbrs x → x ∈ nbrs y) (hperm : o₁.Perm o₂) (hnd : o₁.Nodup)
    (hm : ∀ c ∈ cs, P32.MonoCrit val (fun x => x ∈ o₁) c) :
    ∀ t₁ ∈ makeTrunk (envOf val nbrs cs) (run (envOf val nbrs cs) o₁),
      ∃ t₂ ∈ makeTrunk (envOf val nbrs cs) (run (envOf val nbrs cs) o₂), t₁.pixels.Perm t₂.pixels :=
  P32.trunk_regions_order_independent' val nbrs cs o₁ o₂ hsym hperm hnd hm

/-- **C17 (what decides survival).** A parentless structure survives the trunk step iff the
criteria hold for its region taken as one leaf — a function of the pixel set alone. -/
theorem C17_root_survives_iff (val : Nat → Int) (nbrs : Nat → List Nat) (cs : List Crit) (order : List Nat)
    (hnd : order.Nodup) (hsorted : order.Pairwise (fun a b => val b ≤ val a))
    (hm : ∀ c ∈ cs, P32.MonoCrit val (fun x => x ∈ order) c) :
    ∀ t ∈ run (envOf val nbrs cs) order,
      (t ∈ makeTrunk (envOf val nbrs cs) (run (envOf val nbrs cs) order) ↔ P32.regionOK val cs t.pixels = true) :=
  P32.root_survives_iff val nbrs cs order hnd hsorted hm

/-- **C17 (known finding K5, the hypothesis cannot be dropped).** `min_sum(-2)` on the periodic row
`-3 -2 -3 -2 -3`: the two admissible orders `[1,3,2,0,4]` and `[1,3,0,2,4]` assign different sets
of pixels (all five / none). The implementation shows both behaviours on the array and on the
array rolled by one (replayed by the check, corpus `C17/k5_min_sum_ties.json`). -/
theorem C17_K5_witness :
    P32.Ex.oB₁.Perm P32.Ex.oB₂ ∧ sortedDesc P32.Ex.vB P32.Ex.oB₁ = true ∧ sortedDesc P32.Ex.vB P32.Ex.oB₂ = true ∧
    pixelsL (makeTrunk P32.Ex.EB (run P32.Ex.EB P32.Ex.oB₁)) = [2, 0, 4, 1, 3] ∧
    pixelsL (makeTrunk P32.Ex.EB (run P32.Ex.EB P32.Ex.oB₂)) = [] := by decide

/-- **C17 / C16 (ties: number of leaves without pruning).** Without pruning the number of leaves is
the same for any two admissible orders (it is the number of plateau-aware regional maxima). -/
theorem C17_leaf_count_order_independent (E : Env) (hsym : ∀ x y, y ∈ E.nbrs x → x ∈ E.nbrs y)
    (hno : ∀ t p v, E.indep t p v = true) (o₁ o₂ : List Nat) (hperm : o₁.Perm o₂) (hnd : o₁.Nodup)
    (hs₁ : o₁.Pairwise (fun a b => E.val b ≤ E.val a)) (hs₂ : o₂.Pairwise (fun a b => E.val b ≤ E.val a)) :
    (P34.leavesOf (run E o₁)).length = (P34.leavesOf (run E o₂)).length :=
  P34.leaf_count_order_independent E hsym hno o₁ o₂ hperm hnd hs₁ hs₂
end Ties

/-! ## the padding cell -/

/-- **C17 / C03 (the padded border is inert).** Neighbour coordinates −1 and `n` on a non-periodic axis land on the
extra cell that `compute` allocates and never writes. In the model: neighbours that are never processed contribute
nothing — the run with them in the adjacency lists equals the run with them removed, for every environment and order. -/
theorem C17_padding_cells_inert (E : Env) (pad : Nat → Bool) (order : List Nat) (hnd : order.Nodup)
    (hpad : ∀ q, pad q = true → q ∉ order) : run (P36.dropCells E pad) order = run E order :=
  P36.run_dropCells E pad order hnd hpad
