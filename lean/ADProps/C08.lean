import ADProofs
/-!
# C08 — pruning afterwards equals computing with the stricter parameters

This property is **false of the code as it is** for `min_delta` (known finding K1): the post-hoc
test compares a leaf's height with its parent's height, the compute-time test compares its peak
with the value of the joining pixel.  The negation is proved here by concrete witnesses (replayed
on the implementation by the check); what *is* true is stated as far as it is proved:
* the compute-time test is literally `ruleOrig` (the post-hoc rule with the original merge level);
* for `min_npix` the two phases apply the same test.
* **for `min_npix` (with `min_delta = 0` throughout) the property holds of the code as it is, for
  every input — `C08_npix`**: pruning afterwards with a stricter `min_npix` yields the same
  hierarchy as computing with it directly.
* **`C08_full`**: with the post-hoc rule that uses every structure's *original merge level*
  (`ruleOrig`, the one-line idea of a repair) pruning afterwards equals computing with the
  stricter parameters for `min_delta` and `min_npix` together, for every input.  The check uses
  exactly this rule as arbiter when it classifies a disagreement of the real code as K1.
-/
open Tree

/-- hierarchy abstraction: (region, parent's region) for every structure, regions sorted -/
def hierOf (f : List Tree) : List (List Nat × Option (List Nat)) :=
  (rows f).map fun r =>
    (sortNat r.pixelsSub, r.parent.bind fun p => ((rows f).find? (fun q => q.id == p)).map (fun q => sortNat q.pixelsSub))

/-- values `3 1 2` on a row of three pixels, face adjacency -/
def w1Val : Nat → Int := fun p => [3, 1, 2].getD p 0
def w1Env (d : Int) : Env := envOf w1Val (Grid.nbrs [3] []) [Crit.minDelta d, Crit.minNpix 0]

/-- **C08 (counterexample: criterion).** `compute(min_delta=0)` then `prune(min_delta=1)` gives one
leaf; `compute(min_delta=1)` gives a branch with two leaves. -/
theorem C08_counterexample_criterion :
    let loose := compute (w1Env 0) [0, 2, 1]
    let pruned := prune (allChild w1Val [Crit.minDelta 1, Crit.minNpix 0]) (allOrphan w1Val [Crit.minDelta 1, Crit.minNpix 0]) loose
    let strict := compute (w1Env 1) [0, 2, 1]
    (nodes pruned).length = 1 ∧ (nodes strict).length = 3 := by decide

/-- with the original merge level the same prune keeps the branch (agrees with direct compute) -/
theorem C08_ruleOrig_agrees_on_witness :
    let loose := compute (w1Env 0) [0, 2, 1]
    let tbl := origLevelsL w1Val loose
    let pruned := prune (allChildOrig w1Val tbl [Crit.minDelta 1, Crit.minNpix 0]) (allOrphan w1Val [Crit.minDelta 1, Crit.minNpix 0]) loose
    (nodes pruned).length = 3 := by decide

/-- **C08 (the compute-time test is the post-hoc test at the original merge level).** For a leaf
`t` whose original merge level `lv` is recorded in the table, `ruleOrig` is `min_delta ≤ vmax − lv`,
which is exactly `Crit.atMerge` at the joining value `lv`. -/
theorem C08_ruleOrig_eq_computeTime (val : Nat → Int) (tbl : List (Nat × Int)) (d : Int) (parent t : Tree) (lv : Int)
    (h : lookupLevel tbl t.id = some lv) :
    (Crit.minDelta d).childOrig val tbl parent t = (Crit.minDelta d).atMerge val t lv := by
  simp [Crit.childOrig, Crit.atMerge, h]

/-- **C08 (holds for `min_npix`).** For every value assignment (ties allowed), every adjacency, every
non-increasing duplicate-free processing order and all `n0 ≤ n1`: computing with `min_npix = n0`
and then pruning with `min_npix = n1` gives the same hierarchy (same regions, same parent
relation; `P10.SimL id` ignores identifiers, child order and own-pixel order) as computing with
`min_npix = n1` directly, `min_delta` being 0 throughout. -/
theorem C08_npix (val : Nat → Int) (nbrs : Nat → List Nat) (order : List Nat) (n0 n1 : Nat)
    (hnd : order.Nodup) (hsorted : order.Pairwise (fun a b => val b ≤ val a)) (h01 : n0 ≤ n1) :
    P10.SimL (fun p => p)
      (prune (allChild val [Crit.minDelta 0, Crit.minNpix n1]) (allOrphan val [Crit.minDelta 0, Crit.minNpix n1])
        (makeTrunk (envOf val nbrs [Crit.minDelta 0, Crit.minNpix n0]) (run (envOf val nbrs [Crit.minDelta 0, Crit.minNpix n0]) order)))
      (makeTrunk (envOf val nbrs [Crit.minDelta 0, Crit.minNpix n1]) (run (envOf val nbrs [Crit.minDelta 0, Crit.minNpix n1]) order)) :=
  P18.prune_eq_compute_npix val nbrs order n0 n1 hnd hsorted h01

/-- **C08 (full statement, for the corrected post-hoc rule).** For all values (ties allowed), any
adjacency, any non-increasing duplicate-free order, all `d0 ≤ d1`, `n0 ≤ n1`: computing with
`(d0, n0)` and pruning with `(d1, n1)` under the original-merge-level rule yields the same
hierarchy as computing with `(d1, n1)`. -/
theorem C08_full (val : Nat → Int) (nbrs : Nat → List Nat) (order : List Nat) (d0 d1 : Int) (n0 n1 : Nat)
    (hnd : order.Nodup) (hsorted : order.Pairwise (fun a b => val b ≤ val a)) (hd : d0 ≤ d1) (hn : n0 ≤ n1) :
    P10.SimL (fun p => p)
      (prune (allChildOrig val (origLevelsL val (makeTrunk (envOf val nbrs [Crit.minDelta d0, Crit.minNpix n0])
                (run (envOf val nbrs [Crit.minDelta d0, Crit.minNpix n0]) order))) [Crit.minDelta d1, Crit.minNpix n1])
             (allOrphan val [Crit.minDelta d1, Crit.minNpix n1])
             (makeTrunk (envOf val nbrs [Crit.minDelta d0, Crit.minNpix n0]) (run (envOf val nbrs [Crit.minDelta d0, Crit.minNpix n0]) order)))
      (makeTrunk (envOf val nbrs [Crit.minDelta d1, Crit.minNpix n1]) (run (envOf val nbrs [Crit.minDelta d1, Crit.minNpix n1]) order)) :=
  P28.pruneOrig_eq_compute val nbrs order d0 d1 n0 n1 hnd hsorted hd hn

/-- **C08 (`min_npix` is the same test in both phases).** -/
theorem C08_npix_same_test (val : Nat → Int) (n : Nat) (parent t : Tree) (v : Int) :
    (Crit.minNpix n).child val parent t = (Crit.minNpix n).atMerge val t v := by
  simp [Crit.child, Crit.atMerge]

/-- **C08 (prune inherits the compute-time parameters when given 0).** -/
theorem C08_zero_inherits (recorded : Int) : pruneParam recorded 0 = (recorded, recorded) :=
  pruneParam_zero_inherits recorded
