import ADProofs
/-!
# C14 — no answer depends on what was asked before (no stale derived state)

The per-object caches of `Structure` are modelled on an object heap (`ADModel/Cache.lean`), the
operations mirror the code assignment by assignment.  `P17.WF` is well-formedness of the links
(two views of one acyclic forest), `P17.Sound` says every filled cache entry equals what the live
links give (and parentless structures carry `_level = 0`, as `_make_trunk` ensures),
`P17.LegalHist` says queries address live structures and prunes merge structures that have a
parent.
-/

/-- **C14 (main).** For every history of cached queries (`level`, `ancestor`, `descendants`,
`newick` — each of which also *fills* caches) and prunes (any list of merges followed by the
repaired cache reset), starting from any well-formed heap with sound caches, every observation
equals the observation computed from the live links alone at that moment — what a freshly
constructed dendrogram with the same structures would report. -/
theorem C14_history_sound (h : Heap) (ops : List COp) (hwf : P17.WF h) (hs : P17.Sound h)
    (hlegal : P17.LegalHist h ops) :
    ∀ pr ∈ Heap.runHistory Heap.stepC h ops, pr.1 = pr.2 := P17.history_sound h ops hwf hs hlegal

/-- **C14 (each query is right and leaves the links alone).** -/
theorem C14_level (h : Heap) (i : Nat) (hwf : P17.WF h) (hs : P17.Sound h) (hi : i ∈ h.alive) :
    (h.level h.size i).2 = h.specLevel h.size i ∧ P17.WF (h.level h.size i).1 ∧ P17.Sound (h.level h.size i).1 ∧
      P17.SameLinks h (h.level h.size i).1 := P17.level_sound h i hwf hs hi
theorem C14_descendants (h : Heap) (i : Nat) (hwf : P17.WF h) (hs : P17.Sound h) (hi : i ∈ h.alive) :
    (h.descendants h.size i).2 = some (h.specDesc h.size [i]) ∧ P17.WF (h.descendants h.size i).1 ∧
      P17.Sound (h.descendants h.size i).1 ∧ P17.SameLinks h (h.descendants h.size i).1 :=
  P17.descendants_sound h i hwf hs hi

/-- **C14 (pruning re-establishes soundness).** -/
theorem C14_prune_sound (h : Heap) (ms : List Nat) (hwf : P17.WF h) (hms : P17.Legal h ms) :
    P17.WF (h.prune ms) ∧ P17.Sound (h.prune ms) := P17.prune_sound h ms hwf hms

/-- **C14 (the code before the repair violated the property)** — witnesses on a 7-structure tree:
query, prune, query again. -/
theorem C14_old_stale_level :
    ∃ pr ∈ Heap.runHistory Heap.stepOld P17.h0 [.qLevel 4, .prune [2, 3], .qLevel 4], pr.1 ≠ pr.2 := P17.stale_level_witness
theorem C14_old_stale_descendants :
    ∃ pr ∈ Heap.runHistory Heap.stepOld P17.h0 [.qDesc 0, .prune [2, 3], .qDesc 0], pr.1 ≠ pr.2 := P17.stale_descendants_witness
theorem C14_old_stale_newick :
    ∃ pr ∈ Heap.runHistory Heap.stepOld P17.h0 [.qNewick 0, .prune [2, 3], .qNewick 0], pr.1 ≠ pr.2 := P17.stale_newick_witness

/-- **C14 (pruning leaves no cache behind).** After `prune` every surviving structure has empty
descendant / Newick / ancestor caches and at most the trunk seeding `_level = 0` — for every heap,
without hypotheses. -/
theorem C14_prune_resets_all (h : Heap) (ms : List Nat) :
    ∀ o ∈ (h.prune ms).objs, o.id ∈ (h.prune ms).alive →
      o.desc = none ∧ o.nw = none ∧ o.anc = none ∧ (o.lvl = none ∨ (o.parent = none ∧ o.lvl = some 0)) :=
  P29c.prune_resets_all h ms

/-- **C14 (descendants are listed once).** -/
theorem C14_descendants_nodup (h : Heap) (hwf : P17.WF h) (i : Nat) (hi : i ∈ h.alive) :
    (∀ x ∈ h.specDesc h.size [i], x ∈ h.alive) ∧ (h.specDesc h.size [i]).Nodup := P29c.descendants_count h hwf i hi

-- non-vacuity: the witness heap satisfies the hypotheses of the main theorem
example : P17.WF P17.h0 ∧ P17.Sound P17.h0 := ⟨P17.h0_wf, P17.h0_sound⟩

/-! ## pixel counts and peaks (`_npix_total`, `_peak`, `_peak_subtree`) — ADModel.CachePix -/

/-- **C14 (pixel counts and peaks, every history).** Starting from any well-formed object graph whose
pixel caches are sound (in particular: empty, as after `compute` or a load), every answer of every
history of `get_npix(subtree=True)`, `get_peak(subtree=…)` queries and prunes equals what a freshly
constructed dendrogram with the same links and own pixels answers at that moment. -/
theorem C14_pix_history_sound (h : PHeap) (ops : List POp) (hwf : P33.WF h) (hs : P33.Sound h)
    (hleg : P33.LegalOps h ops) : ∀ pr ∈ P33.run h ops, pr.1 = pr.2 :=
  P33.history_sound h ops hwf hs hleg

/-- one query: the answer, and the links are untouched -/
theorem C14_get_peak (h : PHeap) (hwf : P33.WF h) (hs : P33.Sound h) (i : Nat) (hi : i ∈ h.alive) (sub : Bool) :
    let r := h.getPeak h.size i sub
    r.2 = (if sub then h.specPeakSub h.size i else h.specPeak i) ∧ P33.WF r.1 ∧ P33.Sound r.1 ∧
      ((∀ j, (r.1.get j).map (fun o => (o.parent, o.kids, o.own)) =
          (h.get j).map (fun o => (o.parent, o.kids, o.own))) ∧ r.1.alive = h.alive) :=
  P33.getPeak_sound h hwf hs i hi sub

theorem C14_get_npix (h : PHeap) (hwf : P33.WF h) (hs : P33.Sound h) (i : Nat) (hi : i ∈ h.alive) :
    let r := h.getNpix h.size i
    r.2 = some (h.specCount h.size i) ∧ P33.WF r.1 ∧ P33.Sound r.1 ∧
      ((∀ j, (r.1.get j).map (fun o => (o.parent, o.kids, o.own)) =
          (h.get j).map (fun o => (o.parent, o.kids, o.own))) ∧ r.1.alive = h.alive) :=
  P33.getNpix_sound h hwf hs i hi

/-- after `prune` nothing of the pixel caches survives on any structure that is still alive -/
theorem C14_pix_prune_resets_all (h : PHeap) (ms : List Nat) :
    ∀ o ∈ (h.prune ms).objs, o.id ∈ (h.prune ms).alive → o.npixTot = none ∧ o.peak = none ∧ o.peakSub = none :=
  P33.prune_resets_all h ms

/-- the count cache would stay right even without that reset: a merge moves pixels inside a subtree -/
theorem C14_merge_keeps_count (h : PHeap) (hwf : P33.WF h) (m : Nat) (hm : m ∈ h.alive)
    (hp : (h.get m).bind (·.parent) ≠ none) :
    ∀ j ∈ (h.mergeWithParent m).alive,
      (h.mergeWithParent m).specCount (h.mergeWithParent m).size j = h.specCount h.size j :=
  P33.merge_keeps_count h hwf m hm hp

/-! ## the object heap and the tree model are the same forest -/

/-- **C14 / C07 (the heap-level prune refines the tree-level prune).** `P35.absF h h.size (P35.rootsOf h)` reads the
live part of the object heap as a forest of the tree model (`ADModel/Basic.lean`). Pruning on the heap — the merges
assignment by assignment (`_merge_with_parent`), then the cache reset and trunk seeding — commutes with that reading:
the result is the forest obtained by applying the tree-level `mergeInto` at the parent of each merged structure. So the
theorems about caches (this file) and the theorems about the pruned forest (C07) speak about the same objects. -/
theorem C14_heap_prune_refines {h : Heap} {ms : List Nat} (w : P17.WF h) (hl : P17.Legal h ms) :
    P35.absF (h.prune ms) (h.prune ms).size (P35.rootsOf (h.prune ms)) =
      ms.foldl (fun f m => P35.mergeIdL m f) (P35.absF h h.size (P35.rootsOf h)) := P35.prune_refines w hl

/-- one step of the caller of `_to_prune` (two-sibling rule included) is the tree model's `pruneAt` -/
theorem C14_heap_pruneAt_refines {h : Heap} (w : P17.WF h) {k p : Nat} {po : Obj} (hk : k ∈ h.alive)
    (hp : (h.get k).bind (·.parent) = some p) (hgp : h.get p = some po) :
    P35.absT ((if po.kids.length = 2 then po.kids else [k]).foldl Heap.mergeWithParent h) h.size p =
      pruneAt (P35.absT h h.size p) (P35.absT h h.size k) := P35.pruneAt_refines w hk hp hgp

/-- **C14 (heap specification = tree observables).** What the cache theorems compare answers with (`specLevel`,
`specRoot`, `specDesc`, computed from the live links) is what the tree model reports for the same structure (`rows`:
level, ancestor, descendants — the latter up to order: the code lists descendants level by level, the tree model in
prefix order, `P35` has the witness that they differ as lists). -/
theorem C14_heap_spec_is_tree_obs {h : Heap} (w : P17.WF h) (i : Nat) (hi : i ∈ h.alive) :
    (∃ row ∈ rows (P35.absF h h.size (P35.rootsOf h)), row.id = i) ∧
    ∀ row ∈ rows (P35.absF h h.size (P35.rootsOf h)), row.id = i →
      h.specLevel h.size i = some row.level ∧ h.specRoot h.size i = some row.ancestor ∧
        (h.specDesc h.size [i]).Perm row.desc ∧ row.desc = P35.descIds (P35.absT h h.size i) :=
  P35.spec_eq_rows w i hi

/-- **C14 (compute hands over sound caches).** After any compute-time history (see `C04_ancestor_is_root`) and the
trunk seeding of `_make_trunk`, the heap is well formed and its caches are sound — the hypotheses of
`C14_history_sound` hold for every freshly computed dendrogram. -/
theorem C14_compute_establishes_sound (ops : List P37.GOp) (hl : P37.LegalGrow {} ops) :
    P17.WF (ops.foldl P37.stepG {}).finishPruneOld ∧ P17.Sound (ops.foldl P37.stepG {}).finishPruneOld :=
  P37.grow_seed_sound ops hl

example : P17.WF P35.h1 := P35.h1_wf
