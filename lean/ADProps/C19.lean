import ADProofs
/-!
# C19 — viewer selections always denote the structure that was picked

The hub and what the viewers derive from it are modelled as a state machine (`ADModel/Hub.lean`);
rendering and GUI event delivery are Matplotlib's (claimed as partial).
-/
open Tree

/-- **C19 (click).** Clicking a pixel selects exactly the structure owning it (or clears the
selection when it has no owner), with its whole subtree. -/
theorem C19_click (h : Hub) (slot : Nat) (lab : Option Nat) :
    (h.click slot lab).get slot = some { ids := [lab], subtree := true } := P16.click_selects h slot lab
theorem C19_cleared (f : List Tree) (sub : Bool) (rest : List (Option Nat)) :
    Hub.highlighted f { ids := none :: rest, subtree := sub } = [] ∧
    Hub.maskPixels f { ids := none :: rest, subtree := sub } = [] ∧
    Hub.labelText { ids := none :: rest, subtree := sub } = "No structure selected" := P16.highlighted_none f sub rest

/-- **C19 (slots are independent).** -/
theorem C19_slots_independent (h : Hub) (slot slot' : Nat) (hne : slot' ≠ slot) (ids : List (Option Nat)) (sub : Bool) :
    (h.select slot ids sub).get slot' = h.get slot' ∧
    (h.select slot ids sub).get slot = some { ids := ids, subtree := sub } :=
  ⟨P16.get_select_other h slot slot' hne ids sub, P16.get_select_same h slot ids sub⟩

/-- **C19 (every registered view is notified exactly once per change, with the slot).** -/
theorem C19_notify_once (h : Hub) (slot : Nat) (ids : List (Option Nat)) (sub : Bool) :
    (∀ c, c < h.ncallbacks → ((h.select slot ids sub).log.drop h.log.length).count (c, slot) = 1) ∧
    (∀ e ∈ (h.select slot ids sub).log.drop h.log.length, e.1 < h.ncallbacks ∧ e.2 = slot) :=
  ⟨fun c hc => P16.notify_once h slot ids sub c hc, P16.notify_only_registered h slot ids sub⟩

/-- **C19 (subtree selection highlights the structure and all its descendants; the contour mask
is its region).** -/
theorem C19_highlight_subtree (f : List Tree) (t : Tree) (ht : t ∈ preL f) (hids : ((preL f).map Tree.id).Nodup)
    (rest : List (Option Nat)) :
    Hub.highlighted f { ids := some t.id :: rest, subtree := true } = (preL t.kids).map Tree.id ++ [t.id] ∧
    (Hub.maskPixels f { ids := some t.id :: rest, subtree := true }).Perm t.pixels :=
  ⟨P16.highlighted_subtree f t ht hids rest, P16.mask_subtree f t ht hids rest⟩

/-- **C19 (lasso).** A lasso selects the structures of the catalog rows inside it through the
`_idx` column (identifiers need not be contiguous), without subtree; the scatter points
highlighted for that selection are exactly the lassoed rows; an empty lasso clears. -/
theorem C19_lasso (h : Hub) (slot : Nat) (rowIds rows : List Nat) (hne : rows ≠ []) :
    (h.lasso slot rowIds rows).get slot = some { ids := rows.map (fun r => some (rowIds.getD r 0)), subtree := false } :=
  P16.lasso_selects h slot rowIds rows hne
theorem C19_lasso_rows (f : List Tree) (rowIds : List Nat) (hnd : rowIds.Nodup) (rows : List Nat)
    (hr : ∀ r ∈ rows, r < rowIds.length) (hne : rows ≠ []) :
    Hub.scatterRows f rowIds { ids := rows.map (fun r => some (rowIds.getD r 0)), subtree := false } = rows :=
  P16.scatterRows_roundtrip f rowIds hnd rows hr hne
theorem C19_lasso_empty (h : Hub) (slot : Nat) (rowIds : List Nat) :
    (h.lasso slot rowIds []).get slot = some { ids := [none], subtree := false } := P16.lasso_empty_clears h slot rowIds

/-- **C19 (picking a dendrogram line selects a structure that line was drawn for).** `ls` maps
line indices to structures (the `structures` list of the collection), `ind` are the picked
lines; the handler takes the first picked line whose structure has the highest peak. -/
theorem C19_pick (ls : List Nat) (peak : Nat → Int) (ind : List Nat) (s : Nat)
    (h : Hub.pickLine ls peak ind = some s) :
    (∃ i ∈ ind, s = ls.getD i 0) ∧ (∀ i ∈ ind, peak (ls.getD i 0) ≤ peak s) := by
  have hag : ∀ l, Hub.argmaxFirst l = P29b.argmaxFirst l := by
    intro l; induction l with
    | nil => rfl
    | cons x xs ih => simp [Hub.argmaxFirst, P29b.argmaxFirst, ih]
  have h' : P29b.pickLine ls peak ind = some s := by
    simpa [Hub.pickLine, P29b.pickLine, hag] using h
  exact ⟨P29b.pick_is_picked h', P29b.pick_has_max_peak h'⟩
