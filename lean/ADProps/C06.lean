import ADProofs
/-!
# C06 — structure accessors agree with the data and the label map

`P8.WF f n`: identifiers pairwise distinct, every pixel in exactly one own list, all pixels `< n`
(provided by C01 / C02 for computed, pruned and loaded forests).
-/
open Tree

/-- **C06 (label map / structure_at).** The label of a pixel is the identifier of the unique
structure owning it; a pixel is unlabelled iff it belongs to no structure. -/
theorem C06_label_iff (f : List Tree) (n : Nat) (h : P8.WF f n) (p i : Nat) :
    labelOf f p = some i ↔ ∃ t ∈ preL f, t.id = i ∧ p ∈ t.own := P8.labelOf_iff f n h p i
theorem C06_unlabelled_iff (f : List Tree) (p : Nat) : labelOf f p = none ↔ p ∉ pixelsL f :=
  P8.labelOf_none_iff f p

/-- **C06 (indices, both subtree modes).** The slice of the tree index for a structure holds
exactly the pixels labelled with it (`subtree=False`) / with it or a descendant (`subtree=True`). -/
theorem C06_indices_own (f : List Tree) (n : Nat) (h : P8.WF f n) (t : Tree) (ht : t ∈ preL f) :
    (tiIndices (labelMap f n) f t false).Perm t.own := P8.tiIndices_own f n h t ht
theorem C06_indices_subtree (f : List Tree) (n : Nat) (h : P8.WF f n) (t : Tree) (ht : t ∈ preL f) :
    (tiIndices (labelMap f n) f t true).Perm t.pixels := P8.tiIndices_sub f n h t ht

/-- **C06 (pixel counts).** The bottom-up accumulated subtree count is the size of the region. -/
theorem C06_npix_subtree (f : List Tree) (n : Nat) (h : P8.WF f n) (t : Tree) (ht : t ∈ preL f) :
    tiSubCt (labelMap f n) t = t.pixels.length := P8.tiSubCt_eq f n h t ht

/-- **C06 (incremental minimum / maximum).** What `_add_pixel` and `_merge` maintain
incrementally equals the minimum / maximum over the own pixels. -/
theorem C06_vmax_add (val : Nat → Int) (t : Tree) (p : Nat) (h : t.own ≠ []) :
    (t.addPixel p).vmax val = max (t.vmax val) (val p) := P8.vmax_addPixel val t p h
theorem C06_vmin_add (val : Nat → Int) (t : Tree) (p : Nat) (h : t.own ≠ []) :
    (t.addPixel p).vmin val = min (t.vmin val) (val p) := P8.vmin_addPixel val t p h
theorem C06_vmax_merge (val : Nat → Int) (t m : Tree) (ht : t.own ≠ []) (hm : m.own ≠ []) :
    (t.absorb m).vmax val = max (t.vmax val) (m.vmax val) := P8.vmax_absorb val t m ht hm
theorem C06_vmin_merge (val : Nat → Int) (t m : Tree) (ht : t.own ≠ []) (hm : m.own ≠ []) :
    (t.absorb m).vmin val = min (t.vmin val) (m.vmin val) := P8.vmin_absorb val t m ht hm
theorem C06_vmax_is_max (val : Nat → Int) (t : Tree) (h : t.own ≠ []) :
    (∀ p ∈ t.own, val p ≤ t.vmax val) ∧ (∃ p ∈ t.own, val p = t.vmax val) := P8.vmax_spec val t h
theorem C06_vmin_is_min (val : Nat → Int) (t : Tree) (h : t.own ≠ []) :
    (∀ p ∈ t.own, t.vmin val ≤ val p) ∧ (∃ p ∈ t.own, val p = t.vmin val) := P8.vmin_spec val t h

/-- **C06 (peak).** `get_peak` returns a pixel of the region that carries the region's maximum,
without (`peakOwn`) and with (`peakSub`) substructures. -/
theorem C06_peak_own (val : Nat → Int) (own : List Nat) (h : own ≠ []) :
    (peakOwn val own).1 ∈ own ∧ val (peakOwn val own).1 = (peakOwn val own).2 ∧
      ∀ p ∈ own, val p ≤ (peakOwn val own).2 := P8.peakOwn_spec val own h
theorem C06_peak_subtree (val : Nat → Int) (t : Tree) (h : P8.AllOwnNonempty t) :
    (peakSub val t).1 ∈ t.pixels ∧ val (peakSub val t).1 = (peakSub val t).2 ∧
      ∀ p ∈ t.pixels, val p ≤ (peakSub val t).2 := P8.peakSub_spec val t h

/-- **C06 (the hypotheses hold for every real dendrogram).** The forest returned by `compute` over
an array of `n` pixels is well formed; so is everything reachable from it by prunes and loads
(`C02_reachable_wellformed`). -/
theorem C06_compute_wf (E : Env) (order : List Nat) (hnd : order.Nodup) (n : Nat) (hn : ∀ p ∈ order, p < n) :
    P8.WF (compute E order) n := P30.compute_wf E order hnd n hn
theorem C06_prune_wf (ic : Tree → Tree → Bool) (io : Tree → Bool) (f : List Tree) (n : Nat) (h : P8.WF f n) :
    P8.WF (prune ic io f) n := P30.prune_wf ic io f n h

-- non-vacuity: a three-level forest over 6 pixels is well-formed
example : P8.WF [node 0 [4, 0] [node 2 [2] [node 1 [1] [], node 3 [3] []], node 4 [5] []]] 6 := by
  refine ⟨by decide, by decide, by decide⟩
