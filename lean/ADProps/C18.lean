import ADProofs
/-!
# C18 — the plotted tree is planar and drawn at the right heights

`key : Nat → Int` maps structure identifiers to the requested sort key, `rev` is `reverse`.
-/
open Tree

/-- **C18 (siblings and trunk structures are ordered by the requested key, reversed on request).** -/
theorem C18_sorted_by_key (key : Nat → Int) (l : List Tree) :
    (Plot.sortedPy key false l).Pairwise (fun a b => key a.id ≤ key b.id) ∧
    (Plot.sortedPy key true l).Pairwise (fun a b => key a.id ≥ key b.id) ∧
    (∀ rev, (Plot.sortedPy key rev l).Perm l) :=
  ⟨P15.sortedPy_sorted key l, P15.sortedPy_sorted_rev key l, fun rev => P15.sortedPy_perm key rev l⟩

/-- **C18 (leaves sit at distinct consecutive integer positions).** The leaf order is a
permutation of the leaves; with distinct identifiers every leaf has its own position, below the
number of leaves. -/
theorem C18_leaf_positions (key : Nat → Int) (rev : Bool) (f : List Tree) (hids : ((preL f).map Tree.id).Nodup) :
    (Plot.leafOrder key rev f).Perm (P15.leafIdsL f) ∧ (Plot.leafOrder key rev f).Nodup ∧
    ∀ t ∈ preL f, t.isLeaf = true → Plot.idxOfNat (Plot.leafOrder key rev f) t.id < (P15.leafIdsL f).length :=
  ⟨P15.leafOrder_perm key rev f, P15.leaf_positions_distinct key rev f hids,
   fun t ht hl => P15.leaf_position_lt key rev f hids t ht hl⟩

/-- **C18 (every structure's leaves occupy a contiguous interval)** — hence no lines cross. -/
theorem C18_subtree_contiguous (key : Nat → Int) (rev : Bool) (f : List Tree) (hids : ((preL f).map Tree.id).Nodup)
    (t : Tree) (ht : t ∈ preL f) :
    ∃ l1 l2 mid, Plot.leafOrder key rev f = l1 ++ mid ++ l2 ∧ mid.Perm (P15.leafIds t) :=
  P15.subtree_leaves_contiguous key rev f hids t ht

/-- **C18 (a branch sits at the mean of its children, between the outermost ones).** -/
theorem C18_branch_between (ps : List Rat) (h : ps ≠ []) :
    Plot.minQ' ps ≤ Plot.meanQ ps ∧ Plot.meanQ ps ≤ Plot.maxQ' ps := P15.mean_between ps h

/-- **C18 (line geometry).** The first segment of a structure is the vertical from its parent's
height (own minimum for trunk structures) to its own height, mapped to the structure; every
segment is mapped to a structure of the plotted subtree; there is one vertical per structure and
one horizontal per branch. -/
theorem C18_lines_vertical (val : Nat → Int) (order : List Nat) (parentH : Option Int) (i : Nat) (o : List Nat) (ks : List Tree) :
    (Plot.lines val order parentH (node i o ks)).head? =
      some { x0 := Plot.pos order (node i o ks), y0 := parentH.getD ((node i o ks).vmin val),
             x1 := Plot.pos order (node i o ks), y1 := (node i o ks).height val, sid := i } :=
  P15.lines_head val order parentH i o ks
theorem C18_lines_mapping (val : Nat → Int) (order : List Nat) (parentH : Option Int) (t : Tree) :
    ∀ g ∈ Plot.lines val order parentH t, ∃ s ∈ pre t, g.sid = s.id := P15.lines_sids val order parentH t
theorem C18_lines_count (val : Nat → Int) (order : List Nat) (parentH : Option Int) (t : Tree) :
    (Plot.lines val order parentH t).length = (pre t).length + ((pre t).filter (fun s => !s.isLeaf)).length :=
  P15.lines_count val order parentH t

/-- **C18 (no lines cross).** Structures that are not in ancestor relation have disjoint leaf sets —
with contiguity and distinct leaf positions their leaf intervals are disjoint — and a child's
vertical line lies within its parent's horizontal span. -/
theorem C18_disjoint_subtrees (f : List Tree) (hids : ((preL f).map Tree.id).Nodup) (t t' : Tree)
    (ht : t ∈ preL f) (ht' : t' ∈ preL f) (hdis : t ∉ pre t' ∧ t' ∉ pre t) :
    ∀ x ∈ P15.leafIds t, x ∉ P15.leafIds t' :=
  P31.disjoint_subtrees_disjoint_leaves (fun _ => 0) false f hids t t' ht ht' hdis
theorem C18_child_within_span (order : List Nat) (ks : List Tree) (c : Tree) (hc : c ∈ ks) :
    Plot.minQ' (Plot.posL order ks) ≤ Plot.pos order c ∧ Plot.pos order c ≤ Plot.maxQ' (Plot.posL order ks) :=
  P31.child_within_span order 0 [] ks c hc
