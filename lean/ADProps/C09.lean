import ADProofs
/-!
# C09 — save / load round trip: the textual tree encoding and the regrouping of pixels

The container libraries (astropy.io.fits, h5py) are trusted to store and return arrays, strings
and scalars (trusted base); what astrodendro itself does — writing the tree as text, parsing it
back (`parse_newick`, modelled step by step as `parseImpl`), regrouping own pixels from the
label map — is proved here.
-/
open Tree

/-- **C09 (reference parser inverts the writer)** for every forest: any shape, any identifiers
(multi-digit, even duplicates), any well-formed height texts (incl. negative). -/
theorem C09_parseDescent_print (ts : List NTree) (h : GoodL ts) : parseDescent (printForest ts) = some ts :=
  parseDescent_print ts h

/-- **C09 (the implementation's level-by-level parser inverts the writer)** for every forest with
pairwise distinct identifiers (C02) whose height texts contain no colon (`%.3f` output). -/
theorem C09_parseImpl_print (ts : List NTree) (h : GoodL ts)
    (hids : ((NewickPf.nodesL ts).map NTree.id).Nodup)
    (hcolon : ∀ n ∈ NewickPf.nodesL ts, ∀ c ∈ n.height.toList, c ≠ ':') :
    parseImpl (printForest ts) = some ts := parseImpl_print ts h hids hcolon

/-- **C09 (on what `to_newick` produces both parsers return the tree it was written from).** -/
theorem C09_newick_roundtrip (val : Nat → Int) (fb : Nat) (f : List Tree)
    (hids : ((nodes f).map Tree.id).Nodup) :
    parseImpl (toNewick val fb f) = some (toNTreeL val fb f) ∧
    parseDescent (toNewick val fb f) = some (toNTreeL val fb f) :=
  ⟨parseImpl_toNewick val fb f hids, parseDescent_toNewick val fb f⟩

/-- **C09 (the encoding is injective).** Different trees are never written as the same text. -/
theorem C09_print_injective (a b : List NTree) (ha : GoodL a) (hb : GoodL b)
    (h : printForest a = printForest b) : a = b := printForest_injective a b ha hb h

/-- **C09 (identifiers survive decimal printing).** -/
theorem C09_id_roundtrip (n : Nat) : digitsToNat? (toString n).toList = some n := digits_roundtrip n

/-- **C09 (`%.3f` output is a well-formed height text, without colon).** -/
theorem C09_fmt3_good (k : Int) (fb : Nat) : GoodH (fmt3 k fb) ∧ ∀ c ∈ (fmt3 k fb).toList, c ≠ ':' :=
  ⟨fmt3_good k fb, fmt3_no_colon k fb⟩

/-- **C09 (per-structure pixel lists rebuilt from the label map).** For every structure the pixels
carrying its label in the saved label map are exactly its own pixels. -/
theorem C09_regroup_correct (f : List Tree) (n : Nat) (h : P8.WF f n) (t : Tree) (ht : t ∈ preL f) :
    (binOf (labelMap f n) t.id).Perm t.own := P8.binOf_perm f n h t ht

/-- **C09 (what a save / load cycle does to the forest).** `reload f n` re-reads the tree from the
text (round trip proved above) and rebuilds own pixel lists from the label map: identifiers,
children *and their order*, iteration order are preserved exactly; every structure owns the same
pixels (as a set); the label map is unchanged; the hierarchy is the same; loading twice changes
nothing more. -/
theorem C09_reload_shape (f : List Tree) (n : Nat) :
    (preL (reload f n)).map (fun t => (t.id, t.kids.map Tree.id)) = (preL f).map (fun t => (t.id, t.kids.map Tree.id)) :=
  P21.reload_shape f n
theorem C09_reload_own (f : List Tree) (n : Nat) (h : P8.WF f n) :
    ∀ k, k < (preL f).length → ((preL (reload f n)).getD k default).own.Perm ((preL f).getD k default).own :=
  P21.reload_own f n h
theorem C09_reload_labelMap (f : List Tree) (n : Nat) (h : P8.WF f n) : labelMap (reload f n) n = labelMap f n :=
  P21.reload_labelMap f n h
theorem C09_reload_same_hierarchy (f : List Tree) (n : Nat) (h : P8.WF f n) : P10.SimL (fun p => p) f (reload f n) :=
  P21.reload_sim f n h
theorem C09_reload_idempotent (f : List Tree) (n : Nat) (h : P8.WF f n) : reload (reload f n) n = reload f n :=
  P21.reload_idem f n h

/-- **C09 (format identification).** When writing, the extension decides (case-insensitively) and
the two extension sets are disjoint, so the order of the handler table is irrelevant; an
existing file is recognised from its signature whatever its name, and the two signatures are
disjoint; an explicit format always wins; no match ⇒ `none` (the caller raises `IOError`). -/
theorem C09_identify_write (name : List Char) :
    (Identify.identify name false none = some .fits ↔ Identify.fitsExts.any (Identify.endsWith (Identify.lower name)) = true) ∧
    (Identify.identify name false none = some .hdf5 ↔ Identify.hdf5Exts.any (Identify.endsWith (Identify.lower name)) = true) ∧
    (Identify.identify name false none = none ↔
      (Identify.fitsExts.any (Identify.endsWith (Identify.lower name)) = false ∧
       Identify.hdf5Exts.any (Identify.endsWith (Identify.lower name)) = false)) := P14.identify_write_iff name
theorem C09_identify_read (name : List Char) (h : List Nat) :
    (Identify.identify name true (some h) = some .fits ↔ h.take 30 = Identify.fitsSig) ∧
    (Identify.identify name true (some h) = some .hdf5 ↔ h.take 8 = Identify.hdf5Sig) := P14.identify_read_by_signature name h
theorem C09_identify_unique (name : List Char) (read : Bool) (head : Option (List Nat)) :
    ¬ (Identify.isFits name read head = true ∧ Identify.isHdf5 name read head = true) := P14.identify_unique name read head
theorem C09_identify_explicit (f : Fmt) (name : List Char) (read : Bool) (head : Option (List Nat)) :
    Identify.choose (some f) name read head = some f := P14.choose_explicit f name read head

-- non-vacuity: a printed forest with multi-digit ids and a negative height is well formed
example : GoodL [.node 12 "-3.500" [.node 7 "1.000" [], .node 105 "0.062" []]] := by
  simp [GoodL, GoodT, GoodH]
