import ADProofs
/-!
# C10 (part in the core library) — memoisation is transparent

The `memoize` decorator caches results per (method, instance, arguments).  `κ` is that key type,
`f` the un-memoised computation.  The algebraic part of C10 is in `ADPropsM/C10.lean`.
-/

/-- **C10 (results never depend on which other statistic objects or arguments were evaluated
before).** For every history of memoised calls, starting from any cache whose entries are right
(in particular the empty one), every call returns what the un-memoised function returns. -/
theorem C10_memo_transparent {κ ν : Type} [DecidableEq κ] (f : κ → ν) (m : Memo κ ν)
    (hm : ∀ kv ∈ m.cache, kv.2 = f kv.1) (ks : List κ) : Memo.run f m ks = ks.map f :=
  P21.memo_transparent f m hm ks
theorem C10_memo_transparent_empty {κ ν : Type} [DecidableEq κ] (f : κ → ν) (ks : List κ) :
    Memo.run f {} ks = ks.map f := P21.memo_transparent_empty f ks
