import ADProofs
/-!
# C12 (part in the core library) — catalogs have one faithful row per structure

`CatalogRows.make stat structures` is `_make_catalog`: the statistic is evaluated on each
structure alone, rows are sorted by identifier.  The wrap heuristic is in `ADPropsM/C12.lean`.
-/
open Tree

/-- **C12 (one row per structure, ordered by identifier, naming the structure).** -/
theorem C12_rows_ids {α : Type} (stat : Tree → α) (l : List Tree) :
    ((CatalogRows.make stat l).map (·.1)).Perm (l.map Tree.id) ∧
    ((CatalogRows.make stat l).map (·.1)).Pairwise (· ≤ ·) ∧
    (CatalogRows.make stat l).length = l.length :=
  ⟨(P21.make_ids stat l).1, (P21.make_ids stat l).2, P21.make_length stat l⟩

/-- **C12 (every field is the statistic computed for that structure alone).** -/
theorem C12_rows_faithful {α : Type} (stat : Tree → α) (l : List Tree) :
    (∀ r ∈ CatalogRows.make stat l, ∃ s ∈ l, r = (s.id, stat s)) ∧
    (∀ s ∈ l, (s.id, stat s) ∈ CatalogRows.make stat l) :=
  ⟨P21.make_rows stat l, P21.make_rows_conv stat l⟩
