import ADProofs
/-!
# C03 — each structure is a connected component of a superlevel set
-/
open Tree

/-- symmetric adjacency (hypothesis; proved for the grid adjacencies in `ADProofs.Grid`) -/
def SymmAdj (E : Env) : Prop := ∀ x y, y ∈ E.nbrs x → x ∈ E.nbrs y

/-- **C03 (roots are connected).** After processing any sequence of pixels with any criteria,
every parentless structure, together with its substructures, is connected under the adjacency. -/
theorem C03_roots_connected (E : Env) (hsym : SymmAdj E) (order : List Nat) :
    ∀ t ∈ run E order, PixConn E t :=
  run_induction E (fun roots => ∀ t ∈ roots, PixConn E t) (by simp)
    (fun roots p h => step_roots_conn E hsym roots p h) order

/-- **C03 (roots are closed).** No pixel of one parentless structure is adjacent to a pixel of
another: together with connectedness and C01's partition, the parentless structures are exactly
the connected components of the processed set. -/
theorem C03_roots_closed (E : Env) (hsym : SymmAdj E) (order : List Nat) : Closed E (run E order) :=
  run_induction E (Closed E) (by intro t ht; simp at ht)
    (fun roots p h => step_closed E hsym roots p h) order
