import ADProofs
/-!
# C03 — each structure is a connected component of a superlevel set
-/
open Tree

/-- symmetric adjacency (hypothesis; proved for every grid adjacency in `C17_grid_symmetric`) -/
def SymmAdj (E : Env) : Prop := ∀ x y, y ∈ E.nbrs x → x ∈ E.nbrs y

/-- non-increasing processing order (checked on every implementation trace) -/
def SortedDesc (E : Env) (order : List Nat) : Prop := order.Pairwise (fun a b => E.val b ≤ E.val a)

/-- **C03 (every structure is connected).** After processing any sequence of pixels with any
criteria (ties allowed), every structure — root or not — together with its substructures is
connected under the adjacency in use. -/
theorem C03_all_connected (E : Env) (hsym : SymmAdj E) (order : List Nat) :
    ∀ t ∈ preL (run E order), PixConn E t := ContourP.run_all_connected E hsym order

/-- **C03 (roots are closed).** No pixel of one parentless structure is adjacent to a pixel of
another: with connectedness and C01's partition, the parentless structures are exactly the
connected components of the processed (above-threshold) set. -/
theorem C03_roots_closed (E : Env) (hsym : SymmAdj E) (order : List Nat) : Closed E (run E order) :=
  run_induction E (Closed E) (by intro t ht; simp at ht)
    (fun roots p h => step_closed E hsym roots p h) order

/-- **C03 (contour).** For every structure that has a parent, every above-threshold (= processed)
pixel adjacent to its region from outside is no brighter than every pixel of the region. -/
theorem C03_contour (E : Env) (hsym : SymmAdj E) (order : List Nat) (hnd : order.Nodup)
    (hsorted : SortedDesc E order) :
    ∀ r ∈ run E order, ∀ s ∈ preL r.kids, ∀ a ∈ s.pixels, ∀ b ∈ E.nbrs a, b ∈ order → b ∉ s.pixels →
      ∀ x ∈ s.pixels, E.val b ≤ E.val x := ContourP.run_frozen_contour E hsym order hnd hsorted

/-- **C03 (no pruning ⇒ branch pixels lie below the substructures).** -/
theorem C03_branch_own_le_sub (E : Env) (order : List Nat) (hnd : order.Nodup) (hsorted : SortedDesc E order)
    (hnoprune : ∀ t p v, E.indep t p v = true) :
    ∀ t ∈ preL (run E order), ∀ a ∈ t.own, ∀ b ∈ pixelsL t.kids, E.val a ≤ E.val b :=
  ContourP.run_branch_own_le_sub E order hnd hsorted hnoprune

/-- **C03 (trunk structures are exactly the connected components).** Two above-threshold pixels lie
in the same parentless structure iff they are connected through above-threshold pixels. -/
theorem C03_trunk_eq_components (E : Env) (hsym : SymmAdj E) (order : List Nat) (hnd : order.Nodup)
    (p q : Nat) (hp : p ∈ order) (hq : q ∈ order) :
    (∃ t ∈ run E order, p ∈ t.pixels ∧ q ∈ t.pixels) ↔ Conn E.nbrs (fun x => x ∈ order) p q :=
  P21.trunk_eq_components E hsym order hnd p q hp hq

/-- **C03 (for the dendrogram that `compute` returns)**: re-labelling and the trunk step do not
change regions, so every structure of the result is connected. -/
theorem C03_compute_all_connected (E : Env) (hsym : SymmAdj E) (order : List Nat) :
    ∀ t ∈ preL (compute E order), PixConn E t := P30.compute_all_connected E hsym order

-- non-vacuity: the 6-pixel row is sorted, duplicate-free, and its adjacency is symmetric
example : let E := envOf (fun p => [1, 10, 5, 9, 2, 8][p]!) (Grid.nbrs [6] []) []
    [1, 3, 5, 2, 4, 0].Nodup ∧ sortedDesc E.val [1, 3, 5, 2, 4, 0] = true := by decide
