import ADProofs
/-!
# C16 — the hierarchy is invariant under renaming of pixels and order-preserving value maps

`P10.SimL σ f f'`: the forests `f` and `f'` are the same hierarchy up to the pixel renaming `σ`,
ignoring identifiers, the order of children and the order of own pixels.  Run 1 processes `order`
in `E`; run 2 processes `order.map σ` in `E'`.  Axis permutations, flips, padding, inserting a
unit axis and cyclic shifts are renamings `σ` under which the grid adjacency corresponds
(`hadj`); `v ↦ a·v + b` (`a > 0`) and strictly increasing maps preserve the order of values
(`hmono`).  For distinct values the transformed run *is* the run on the mapped order (C04
uniqueness), which gives the stated invariance; for ties the theorem still applies to the two
recorded orders whenever one is the image of the other.
-/
open Tree

/-- **C16 (equivariance of the whole pixel loop).** -/
theorem C16_run_equivariant (E E' : Env) (σ : Nat → Nat) (order : List Nat)
    (hadj : ∀ p ∈ order, ∀ q ∈ order, (q ∈ E.nbrs p ↔ σ q ∈ E'.nbrs (σ p)))
    (hmono : ∀ p ∈ order, ∀ q ∈ order, (E.val p ≤ E.val q ↔ E'.val (σ p) ≤ E'.val (σ q)))
    (hindep : ∀ t t', P10.Sim σ t t' → t.kids = [] → t.own ≠ [] → (∀ x ∈ t.pixels, x ∈ order) →
      ∀ p ∈ order, E.indep t p (E.val p) = E'.indep t' (σ p) (E'.val (σ p))) :
    P10.SimL σ (run E order) (run E' (order.map σ)) :=
  P10.run_sim_of_hyp ⟨hadj, hmono, hindep⟩

/-- **C16 (what similarity means).** Regions correspond in both directions, the parent relation
corresponds in both directions, the numbers of structures and of leaves agree, and parentless
structures correspond to parentless structures (trunk regions; hence also the assigned pixels). -/
theorem C16_similarity_regions {σ : Nat → Nat} {f f' : List Tree} (h : P10.SimL σ f f') :
    (∀ t ∈ preL f, ∃ t' ∈ preL f', t'.pixels.Perm (t.pixels.map σ)) ∧
    (∀ t' ∈ preL f', ∃ t ∈ preL f, t'.pixels.Perm (t.pixels.map σ)) := P10.sim_regions h
theorem C16_similarity_parent {σ : Nat → Nat} {f f' : List Tree} (h : P10.SimL σ f f') :
    (∀ P ∈ preL f, ∀ c ∈ P.kids, ∃ P' ∈ preL f', ∃ c' ∈ P'.kids,
      P'.pixels.Perm (P.pixels.map σ) ∧ c'.pixels.Perm (c.pixels.map σ)) ∧
    (∀ P' ∈ preL f', ∀ c' ∈ P'.kids, ∃ P ∈ preL f, ∃ c ∈ P.kids,
      P'.pixels.Perm (P.pixels.map σ) ∧ c'.pixels.Perm (c.pixels.map σ)) :=
  ⟨P10.sim_parent h, P10.sim_parent_conv h⟩
theorem C16_similarity_counts {σ : Nat → Nat} {f f' : List Tree} (h : P10.SimL σ f f') :
    (preL f).length = (preL f').length ∧
    ((preL f).filter Tree.isLeaf).length = ((preL f').filter Tree.isLeaf).length := P10.sim_counts h
theorem C16_similarity_trunk {σ : Nat → Nat} {f f' : List Tree} (h : P10.SimL σ f f') :
    (∀ t ∈ f, ∃ t' ∈ f', t'.pixels.Perm (t.pixels.map σ)) ∧
    (∀ t' ∈ f', ∃ t ∈ f, t'.pixels.Perm (t.pixels.map σ)) := P10.sim_roots h

/-- **C16 (affine value maps with the built-in criteria).** `v ↦ a·v + b`, `a > 0`, with
`min_delta ↦ a·min_delta`, `min_npix` kept, `min_peak` mapped like a value and seeds renamed. -/
theorem C16_affine_builtin (val val' : Nat → Int) (nbrs nbrs' : Nat → List Nat) (σ : Nat → Nat)
    (order : List Nat) (a b : Int) (ha : 0 < a)
    (hval : ∀ p ∈ order, val' (σ p) = a * val p + b)
    (hadj : ∀ p ∈ order, ∀ q ∈ order, (q ∈ nbrs p ↔ σ q ∈ nbrs' (σ p)))
    (cs : List Crit) (hns : ∀ c ∈ cs, ∀ s, c ≠ Crit.minSum s)
    (hseed : ∀ c ∈ cs, ∀ s ∈ P10.seedsOf c, ∀ x ∈ order, σ x = σ s → x = s) :
    P10.SimL σ (run (envOf val nbrs cs) order)
      (run (envOf val' nbrs' (cs.map (P10.critAffine σ a b))) (order.map σ)) :=
  P10.run_sim_builtin_affine val val' nbrs nbrs' σ order a b ha hval hadj cs hns hseed

/-- **C16 (pure renamings with all built-in criteria)**: axis permutations, flips, pads, unit
axes, cyclic shifts. -/
theorem C16_rename_builtin (val val' : Nat → Int) (nbrs nbrs' : Nat → List Nat) (σ : Nat → Nat)
    (order : List Nat) (hval : ∀ p ∈ order, val' (σ p) = val p)
    (hadj : ∀ p ∈ order, ∀ q ∈ order, (q ∈ nbrs p ↔ σ q ∈ nbrs' (σ p)))
    (cs : List Crit)
    (hseed : ∀ c ∈ cs, ∀ s ∈ P10.seedsOf c, ∀ x ∈ order, σ x = σ s → x = s) :
    P10.SimL σ (run (envOf val nbrs cs) order)
      (run (envOf val' nbrs' (cs.map (P10.critRename σ))) (order.map σ)) :=
  P10.run_sim_builtin_rename val val' nbrs nbrs' σ order hval hadj cs hseed

-- non-vacuity: values `3 1 3 1 2` flipped and mapped by `v ↦ 2v + 7` (identifiers and child order
-- differ between the two runs; see the witness at the end of ADProofs/SimProofs.lean)
example : (0 : Int) < 2 ∧ [0, 2, 4, 1, 3].map (fun p => 4 - p) = [4, 2, 0, 3, 1] := by decide
