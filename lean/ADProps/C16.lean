import ADProofs
/-!
# C16 — the hierarchy is invariant under renaming of pixels and order-preserving value maps

`P10.SimL σ f f'`: the forests `f` and `f'` are the same hierarchy up to the pixel renaming `σ`,
ignoring identifiers, the order of children and the order of own pixels.  Run 1 processes `order`
in `E`; run 2 processes `order.map σ` in `E'`.  Axis permutations, flips, padding, inserting a
unit axis and cyclic shifts are renamings `σ` under which the grid adjacency corresponds
(`hadj`); `v ↦ a·v + b` (`a > 0`) and strictly increasing maps preserve the order of values
(`hmono`).  For distinct values the transformed run *is* the run on the mapped order (C04
uniqueness), which gives the stated invariance; for ties the theorem still applies to the two
recorded orders whenever one is the image of the other.
-/
open Tree

/-- **C16 (equivariance of the whole pixel loop).** -/
theorem C16_run_equivariant (E E' : Env) (σ : Nat → Nat) (order : List Nat)
    (hadj : ∀ p ∈ order, ∀ q ∈ order, (q ∈ E.nbrs p ↔ σ q ∈ E'.nbrs (σ p)))
    (hmono : ∀ p ∈ order, ∀ q ∈ order, (E.val p ≤ E.val q ↔ E'.val (σ p) ≤ E'.val (σ q)))
    (hindep : ∀ t t', P10.Sim σ t t' → t.kids = [] → t.own ≠ [] → (∀ x ∈ t.pixels, x ∈ order) →
      ∀ p ∈ order, E.indep t p (E.val p) = E'.indep t' (σ p) (E'.val (σ p))) :
    P10.SimL σ (run E order) (run E' (order.map σ)) :=
  P10.run_sim_of_hyp ⟨hadj, hmono, hindep⟩

/-- **C16 (what similarity means).** Regions correspond in both directions, the parent relation
corresponds in both directions, the numbers of structures and of leaves agree, and parentless
structures correspond to parentless structures (trunk regions; hence also the assigned pixels). -/
theorem C16_similarity_regions {σ : Nat → Nat} {f f' : List Tree} (h : P10.SimL σ f f') :
    (∀ t ∈ preL f, ∃ t' ∈ preL f', t'.pixels.Perm (t.pixels.map σ)) ∧
    (∀ t' ∈ preL f', ∃ t ∈ preL f, t'.pixels.Perm (t.pixels.map σ)) := P10.sim_regions h
theorem C16_similarity_parent {σ : Nat → Nat} {f f' : List Tree} (h : P10.SimL σ f f') :
    (∀ P ∈ preL f, ∀ c ∈ P.kids, ∃ P' ∈ preL f', ∃ c' ∈ P'.kids,
      P'.pixels.Perm (P.pixels.map σ) ∧ c'.pixels.Perm (c.pixels.map σ)) ∧
    (∀ P' ∈ preL f', ∀ c' ∈ P'.kids, ∃ P ∈ preL f, ∃ c ∈ P.kids,
      P'.pixels.Perm (P.pixels.map σ) ∧ c'.pixels.Perm (c.pixels.map σ)) :=
  ⟨P10.sim_parent h, P10.sim_parent_conv h⟩
theorem C16_similarity_counts {σ : Nat → Nat} {f f' : List Tree} (h : P10.SimL σ f f') :
    (preL f).length = (preL f').length ∧
    ((preL f).filter Tree.isLeaf).length = ((preL f').filter Tree.isLeaf).length := P10.sim_counts h
theorem C16_similarity_trunk {σ : Nat → Nat} {f f' : List Tree} (h : P10.SimL σ f f') :
    (∀ t ∈ f, ∃ t' ∈ f', t'.pixels.Perm (t.pixels.map σ)) ∧
    (∀ t' ∈ f', ∃ t ∈ f, t'.pixels.Perm (t.pixels.map σ)) := P10.sim_roots h

/-- **C16 (affine value maps with the built-in criteria).** `v ↦ a·v + b`, `a > 0`, with
`min_delta ↦ a·min_delta`, `min_npix` kept, `min_peak` mapped like a value and seeds renamed. -/
theorem C16_affine_builtin (val val' : Nat → Int) (nbrs nbrs' : Nat → List Nat) (σ : Nat → Nat)
    (order : List Nat) (a b : Int) (ha : 0 < a)
    (hval : ∀ p ∈ order, val' (σ p) = a * val p + b)
    (hadj : ∀ p ∈ order, ∀ q ∈ order, (q ∈ nbrs p ↔ σ q ∈ nbrs' (σ p)))
    (cs : List Crit) (hns : ∀ c ∈ cs, ∀ s, c ≠ Crit.minSum s)
    (hseed : ∀ c ∈ cs, ∀ s ∈ P10.seedsOf c, ∀ x ∈ order, σ x = σ s → x = s) :
    P10.SimL σ (run (envOf val nbrs cs) order)
      (run (envOf val' nbrs' (cs.map (P10.critAffine σ a b))) (order.map σ)) :=
  P10.run_sim_builtin_affine val val' nbrs nbrs' σ order a b ha hval hadj cs hns hseed

/-- **C16 (pure renamings with all built-in criteria)**: axis permutations, flips, pads, unit
axes, cyclic shifts. -/
theorem C16_rename_builtin (val val' : Nat → Int) (nbrs nbrs' : Nat → List Nat) (σ : Nat → Nat)
    (order : List Nat) (hval : ∀ p ∈ order, val' (σ p) = val p)
    (hadj : ∀ p ∈ order, ∀ q ∈ order, (q ∈ nbrs p ↔ σ q ∈ nbrs' (σ p)))
    (cs : List Crit)
    (hseed : ∀ c ∈ cs, ∀ s ∈ P10.seedsOf c, ∀ x ∈ order, σ x = σ s → x = s) :
    P10.SimL σ (run (envOf val nbrs cs) order)
      (run (envOf val' nbrs' (cs.map (P10.critRename σ))) (order.map σ)) :=
  P10.run_sim_builtin_rename val val' nbrs nbrs' σ order hval hadj cs hseed

/-- **C16 (axis permutations).** For any permutation `τ` of the axes (with inverse `τ'`), the
run on the transposed array is similar to the original run; periodic axes are carried along. -/
theorem C16_axis_permutation (shape periodic : List Nat) (τ τ' : Nat → Nat)
    (h1 : ∀ i, τ (τ' i) = i) (h2 : ∀ i, τ' (τ i) = i)
    (hτ : ∀ i, i < shape.length → τ i < shape.length) (hτ' : ∀ i, i < shape.length → τ' i < shape.length)
    (val : Nat → Int) (order : List Nat) (cs : List Crit)
    (horder : ∀ p ∈ order, p < Grid.size shape)
    (hseeds : ∀ c ∈ cs, ∀ s ∈ P10.seedsOf c, s < Grid.size shape)
    (val' : Nat → Int)
    (hval : ∀ p ∈ order, val' (P19.liftC shape (P19.permC τ shape) (P19.permC τ) p) = val p) :
    P10.SimL (P19.liftC shape (P19.permC τ shape) (P19.permC τ))
      (run (envOf val (Grid.nbrs shape periodic) cs) order)
      (run (envOf val' (Grid.nbrs (P19.permC τ shape) (periodic.map τ'))
          (cs.map (P10.critRename (P19.liftC shape (P19.permC τ shape) (P19.permC τ)))))
        (order.map (P19.liftC shape (P19.permC τ shape) (P19.permC τ)))) :=
  P19.perm_invariance shape periodic τ τ' h1 h2 hτ hτ' val order cs horder hseeds val' hval

/-- **C16 (flips).** -/
theorem C16_flip (shape periodic : List Nat) (a : Nat)
    (val : Nat → Int) (order : List Nat) (cs : List Crit)
    (horder : ∀ p ∈ order, p < Grid.size shape)
    (hseeds : ∀ c ∈ cs, ∀ s ∈ P10.seedsOf c, s < Grid.size shape)
    (val' : Nat → Int)
    (hval : ∀ p ∈ order, val' (P19.liftC shape shape (P19.flipC shape a) p) = val p) :
    P10.SimL (P19.liftC shape shape (P19.flipC shape a))
      (run (envOf val (Grid.nbrs shape periodic) cs) order)
      (run (envOf val' (Grid.nbrs shape periodic)
        (cs.map (P10.critRename (P19.liftC shape shape (P19.flipC shape a)))))
        (order.map (P19.liftC shape shape (P19.flipC shape a)))) :=
  P19.flip_invariance shape periodic a val order cs horder hseeds val' hval

/-- **C16 (inserting a length-one axis).** -/
theorem C16_unit_axis (shape periodic : List Nat) (j : Nat) (hj : j ≤ shape.length)
    (val : Nat → Int) (order : List Nat) (cs : List Crit)
    (horder : ∀ p ∈ order, p < Grid.size shape)
    (hseeds : ∀ c ∈ cs, ∀ s ∈ P10.seedsOf c, s < Grid.size shape)
    (val' : Nat → Int)
    (hval : ∀ p ∈ order, val' (P19.liftC shape (P19.insShape j shape) (P19.insC j) p) = val p) :
    P10.SimL (P19.liftC shape (P19.insShape j shape) (P19.insC j))
      (run (envOf val (Grid.nbrs shape periodic) cs) order)
      (run (envOf val' (Grid.nbrs (P19.insShape j shape) (periodic.map (fun x => if x ≥ j then x + 1 else x)))
          (cs.map (P10.critRename (P19.liftC shape (P19.insShape j shape) (P19.insC j)))))
        (order.map (P19.liftC shape (P19.insShape j shape) (P19.insC j)))) :=
  P19.unit_axis_invariance shape periodic j hj val order cs horder hseeds val' hval

/-- **C16 (padding with borders that are not processed — below threshold or NaN).** -/
theorem C16_pad (shape lo hi : List Nat) (hlo : lo.length = shape.length) (hhi : hi.length = shape.length)
    (val : Nat → Int) (order : List Nat) (cs : List Crit)
    (horder : ∀ p ∈ order, p < Grid.size shape)
    (hseeds : ∀ c ∈ cs, ∀ s ∈ P10.seedsOf c, s < Grid.size shape)
    (val' : Nat → Int)
    (hval : ∀ p ∈ order, val' (P19.liftC shape (P19.padShape shape lo hi) (P19.padC lo) p) = val p) :
    P10.SimL (P19.liftC shape (P19.padShape shape lo hi) (P19.padC lo))
      (run (envOf val (Grid.nbrs shape []) cs) order)
      (run (envOf val' (Grid.nbrs (P19.padShape shape lo hi) [])
          (cs.map (P10.critRename (P19.liftC shape (P19.padShape shape lo hi) (P19.padC lo)))))
        (order.map (P19.liftC shape (P19.padShape shape lo hi) (P19.padC lo)))) :=
  P19.pad_invariance shape lo hi hlo hhi val order cs horder hseeds val' hval

/-- **C16 (raising the threshold only restricts the structures).** With pairwise distinct values and
no pruning, the dendrogram computed on the pixels above a higher level `thr` is the original one
with every structure's own pixels restricted to those pixels and emptied structures dropped
(identical identifiers, own lists and children, up to the order of the root list). -/
theorem C16_threshold_restriction (E : Env) (order : List Nat) (thr : Int)
    (hstrict : order.Pairwise (fun a b => E.val b < E.val a)) (hno : ∀ t p v, E.indep t p v = true) :
    (P26.restrictL (fun x => decide (thr < E.val x)) (run E order)).Perm
      (run E (order.filter (fun x => decide (thr < E.val x)))) :=
  P26.threshold_restriction_level E order thr hstrict hno

-- non-vacuity: values `3 1 3 1 2` flipped and mapped by `v ↦ 2v + 7` (identifiers and child order
-- differ between the two runs; see the witness at the end of ADProofs/SimProofs.lean)
example : (0 : Int) < 2 ∧ [0, 2, 4, 1, 3].map (fun p => 4 - p) = [4, 2, 0, 3, 1] := by decide

/-! ## Ties clause -/

/-- **C16 (ties: number of leaves).** `E'` is `E` with pixels renamed by `σ` (adjacency corresponds,
the order of values is preserved: any axis permutation, flip, padding, unit axis, `a·v+b` with
`a > 0`, any strictly increasing map), neither run prunes, and `order'` is ANY admissible order
of the renamed pixels (ties may be broken differently): the two runs have the same number of
leaves. -/
theorem C16_leaf_count_invariant (E E' : Env) (σ : Nat → Nat) (order order' : List Nat)
    (hsym' : ∀ x y, y ∈ E'.nbrs x → x ∈ E'.nbrs y)
    (hno : ∀ t p v, E.indep t p v = true) (hno' : ∀ t p v, E'.indep t p v = true)
    (hadj : ∀ p ∈ order, ∀ q ∈ order, (q ∈ E.nbrs p ↔ σ q ∈ E'.nbrs (σ p)))
    (hmono : ∀ p ∈ order, ∀ q ∈ order, (E.val p ≤ E.val q ↔ E'.val (σ p) ≤ E'.val (σ q)))
    (hperm' : order'.Perm (order.map σ)) (hnd' : order'.Nodup)
    (hs' : order'.Pairwise (fun a b => E'.val b ≤ E'.val a))
    (hs : order.Pairwise (fun a b => E.val b ≤ E.val a)) :
    (P34.leavesOf (run E order)).length = (P34.leavesOf (run E' order')).length :=
  P34.leaf_count_transform E E' σ order order' hsym' hno hno' hadj hmono hperm' hnd' hs' hs

/-- **C16 (ties: assigned pixels and trunk regions)** are order-independent for criteria that can
only turn true as a structure grows: see `C17_assigned_order_independent`,
`C17_trunk_regions_order_independent` (stated for any adjacency); for `min_sum` on negative data
they are not (`C17_K5_witness`; known findings K5 / K6). Here: the flipped row of K6. -/
theorem C16_K6_witness :
    let val : Nat → Int := fun p => [-3, -2, -3, -2].getD p 0
    let nb : Nat → List Nat := Grid.nbrs [4] []
    let E := envOf val nb [Crit.minSum (-2)]
    -- the order the implementation uses on the array, and the image of the order it uses on the flipped array
    sortedDesc val [3, 1, 2, 0] = true ∧ sortedDesc val [1, 3, 0, 2] = true ∧
    (pixelsL (makeTrunk E (run E [3, 1, 2, 0]))).length ≠ (pixelsL (makeTrunk E (run E [1, 3, 0, 2]))).length := by decide
