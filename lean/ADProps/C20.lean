import ADProofs
/-!
# C20 — dendrogram equality

`DView.eqSpec` is the relation the property describes; `DView.eqD` is the operator as
implemented (known finding D10: it never looks at the other label map); `DView.eqIntended` is
what the code would compute with the obvious one-word correction.
-/

/-- **C20 (the specified relation, stated outright).** -/
theorem C20_spec_iff (a b : DView) : DView.eqSpec a b = true ↔
    a.shape = b.shape ∧ a.data = b.data ∧ a.minv.1 * (b.minv.2 : Int) = b.minv.1 * (a.minv.2 : Int) ∧
    (a.mind = 0 ∨ b.mind = 0 ∨ a.mind = b.mind) ∧ (a.minn = 0 ∨ b.minn = 0 ∨ a.minn = b.minn) ∧
    DView.canon a.lmap = DView.canon b.lmap := P14.eqSpec_iff a b

/-- **C20 ("same structures" means "same partition of the pixels", identifiers being naming).** -/
theorem C20_canon_iff_same_partition (l m : List (Option Nat)) :
    DView.canon l = DView.canon m ↔ P14.SamePartition l m := P14.canon_eq_iff_same_partition l m

/-- **C20 (symmetric and reflexive)** — both the specified relation and the operator as implemented
(so a dendrogram equals itself and, with C09, its saved-and-loaded copy). -/
theorem C20_symm (a b : DView) : DView.eqSpec a b = DView.eqSpec b a ∧ DView.eqD a b = DView.eqD b a :=
  ⟨P14.eqSpec_symm a b, P14.eqD_symm a b⟩
theorem C20_refl (a : DView) : DView.eqSpec a a = true ∧ DView.eqD a a = true := ⟨P14.eqSpec_refl a, P14.eqD_refl a⟩

/-- **C20 (the operator as implemented compares everything but the structures).** -/
theorem C20_impl_iff (a b : DView) : DView.eqD a b = true ↔
    a.shape = b.shape ∧ a.data = b.data ∧ a.minv.1 * (b.minv.2 : Int) = b.minv.1 * (a.minv.2 : Int) ∧
    (a.mind = 0 ∨ b.mind = 0 ∨ a.mind = b.mind) ∧ (a.minn = 0 ∨ b.minn = 0 ∨ a.minn = b.minn) := P14.eqD_iff a b
theorem C20_spec_implies_impl (a b : DView) : DView.eqSpec a b = true → DView.eqD a b = true := P14.eqSpec_implies_eqD a b

/-- **C20 (negation for the code as it is — known finding D10).** There are dendrograms that
partition the pixels differently and compare equal; and even the intended first-occurrence
fingerprint is weaker than partition equality. -/
theorem C20_impl_ignores_structures : ∃ a b : DView, DView.eqD a b = true ∧ DView.canon a.lmap ≠ DView.canon b.lmap :=
  P14.eq_ignores_other
theorem C20_fingerprint_weaker : ∃ l m : List (Option Nat), DView.firstOcc l = DView.firstOcc m ∧ DView.canon l ≠ DView.canon m :=
  P14.fingerprint_weaker_than_partition
