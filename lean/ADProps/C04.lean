import ADProofs
/-!
# C04 — the hierarchy equals the documented brightest-to-faintest construction

The executable specification is `step` itself (clause table in `ADModel/Compute.lean`); the
theorems below state its rules outright, so that the model can be read against
docs/algorithm.rst, and prove that for distinct values the result is a function of data and
parameters alone.  The tie to the code is the correspondence check on own pixels and parent
relation under the recorded order.
-/
open Tree

/-- **C04 (no assigned neighbour ⇒ new leaf).** -/
theorem C04_new_leaf (E : Env) (roots : List Tree) (p : Nat) (h : ∀ t ∈ roots, touches E p t = false) :
    step E roots p = roots ++ [node p [p] []] := step_none h

/-- **C04 (one adjacent structure ⇒ it gains the pixel).** -/
theorem C04_join_one (E : Env) (roots : List Tree) (p : Nat) (t : Tree) (h : roots.filter (touches E p) = [t]) :
    step E roots p = roots.filter (fun t => !touches E p t) ++ [t.addPixel p] := step_one t h

/-- **C04 (which structures are absorbed).** A structure is absorbed at a meeting iff it is a leaf
whose peak equals the meeting value or which fails the criteria at that value. -/
theorem C04_insignificant_iff (E : Env) (p : Nat) (t : Tree) :
    insig E p t = true ↔ t.kids = [] ∧ (t.vmax E.val = E.val p ∨ E.indep t p (E.val p) = false) := insig_iff E p t

/-- **C04 (several meet, ≥ 2 remain ⇒ new branch with exactly the remaining ones as children,
absorbing the others).** -/
theorem C04_branch (E : Env) (p : Nat) (a b : Tree) (rest : List Tree) (k1 k2 : Tree) (ks : List Tree)
    (hk : (a :: b :: rest).filter (fun t => !insig E p t) = k1 :: k2 :: ks) :
    joinAdj E p (a :: b :: rest) = ((a :: b :: rest).filter (insig E p)).foldl Tree.absorb (node p [p] (k1 :: k2 :: ks)) :=
  joinAdj_many_branch a b rest k1 k2 ks hk

/-- **C04 (several meet, one remains ⇒ it absorbs pixel and leaves).** -/
theorem C04_one_remains (E : Env) (p : Nat) (a b : Tree) (rest : List Tree) (t : Tree)
    (hk : (a :: b :: rest).filter (fun t => !insig E p t) = [t]) :
    joinAdj E p (a :: b :: rest) = ((a :: b :: rest).filter (insig E p)).foldl Tree.absorb (t.addPixel p) :=
  joinAdj_many_one_kept a b rest t hk

/-- **C04 (several meet, none remains ⇒ the last one receives the pixel and absorbs the others).** -/
theorem C04_none_remains (E : Env) (p : Nat) (a b : Tree) (rest : List Tree)
    (hk : (a :: b :: rest).filter (fun t => !insig E p t) = []) :
    ∃ last others, (a :: b :: rest) = others ++ [last] ∧
      joinAdj E p (a :: b :: rest) = others.foldl Tree.absorb (last.addPixel p) :=
  joinAdj_many_none_kept a b rest hk

/-- **C04 (uniqueness).** Where no two processed values are equal, two admissible orders of the
same pixels coincide, hence the hierarchy is determined by data and parameters. -/
theorem C04_unique_of_distinct (E : Env) (o1 o2 : List Nat)
    (h1 : o1.Pairwise (fun a b => E.val b < E.val a)) (h2 : o2.Pairwise (fun a b => E.val b < E.val a))
    (hperm : o1.Perm o2) : run E o1 = run E o2 := run_unique_of_distinct E o1 o2 h1 h2 hperm

/-- criteria semantics, stated outright -/
theorem C04_minDelta_merge (val : Nat → Int) (d : Int) (t : Tree) (v : Int) :
    (Crit.minDelta d).atMerge val t v = true ↔ d ≤ t.vmax val - v := by simp [Crit.atMerge]
theorem C04_minNpix (val : Nat → Int) (n : Nat) (t : Tree) (v : Int) :
    (Crit.minNpix n).atMerge val t v = true ↔ n ≤ t.pixels.length := by simp [Crit.atMerge]
theorem C04_allTrue (val : Nat → Int) (cs : List Crit) (t : Tree) (p : Nat) (v : Int) :
    allMerge val cs t p v = true ↔ ∀ c ∈ cs, c.atMerge val t v = true := by simp [allMerge]
theorem C04_seeds_exact (val : Nat → Int) (ps : List Nat) (t : Tree) (v : Int) :
    (Crit.seeds ps).atMerge val t v = true ↔ ∃ p ∈ t.pixels, p ∈ ps := by simp [Crit.atMerge]

/-! ## the order hypotheses are what the driver checks on every implementation trace

The theorems of C01–C05 assume `order.Nodup`, `order.Pairwise (val b ≤ val a)` and that the
processed pixels are the pixels above the threshold.  The model driver evaluates the boolean
functions `nodupB`, `sortedDesc` and `sortNat order = kept` on the order recorded by the hook for
every case; these theorems say the boolean checks mean exactly the hypotheses. -/

theorem C04_sorted_check_sound (val : Nat → Int) (l : List Nat) :
    sortedDesc val l = true ↔ l.Pairwise (fun a b => val b ≤ val a) := P31.sortedDesc_iff val l
theorem C04_nodup_check_sound (l : List Nat) : nodupB l = true ↔ l.Nodup := P31.nodupB_iff l
theorem C04_cover_check_sound (order kept : List Nat) (hk : kept.Pairwise (· < ·)) (hnd : order.Nodup) :
    sortNat order = kept ↔ (∀ p, p ∈ order ↔ p ∈ kept) := P31.cover_iff order kept hk hnd
/-- non-increasing + pairwise distinct values ⇒ strictly decreasing: the hypothesis of `C04_unique_of_distinct` -/
theorem C04_strict_of_distinct (val : Nat → Int) (l : List Nat) (h : l.Pairwise (fun a b => val b ≤ val a))
    (hd : ∀ a ∈ l, ∀ b ∈ l, val a = val b → a = b) (hnd : l.Nodup) : l.Pairwise (fun a b => val b < val a) :=
  P31.strict_of_sorted_distinct val l h hd hnd

/-! ## the mechanisms the code uses to find the adjacent structures -/

/-- **C04 (label mechanism = construction).** The forest produced through the label map (labels of the neighbours →
roots via `ancestor` → duplicates removed → sorted by idx → three-way case analysis) is the forest of the documented
construction `run`, step by step: `adjacentL` finds exactly the roots `touches` finds, in the same order. -/
theorem C04_label_mechanism_refines (E : Env) (order : List Nat) (hnd : order.Nodup) :
    (runL E order).roots = run E order := P36.runL_roots E order hnd
theorem C04_adjacent_by_labels (E : Env) (pre : List Nat) (hnd : pre.Nodup) (p : Nat) :
    adjacentL E (runL E pre) p = sortById ((run E pre).filter (touches E p)) := P36.adjacentL_run E pre hnd p

/-- **C04 (`structures[a].ancestor` is the current root).** During `compute` the path-compressing, cached
`Structure.ancestor` is asked on every step while new branches are created above current roots and absorbed leaves are
dropped. For every such history (fresh leaves, branches over parentless live structures, removal of parentless childless
structures, ancestor queries in any interleaving) every answer is the root by the live links — the cache is never stale,
because a structure that has a parent keeps it (`P37.illegal_attach_stale_witness`: re-parenting after a query does
make it stale, which is what `prune` has to repair by resetting caches). -/
theorem C04_ancestor_is_root (ops : List P37.GOp) (hl : P37.LegalGrow {} ops) :
    (∀ pr ∈ P37.runGrow {} ops, pr.1 = pr.2 ∧ ∃ r, pr.1 = some r) ∧
    (∀ t ∈ P37.traceGrow {} ops, t.2.1 = t.2.2 ∧
      ∃ r ro, t.2.1 = some r ∧ r ∈ t.1.alive ∧ t.1.get r = some ro ∧ ro.parent = none) :=
  P37.grow_history_sound ops hl

example : P37.LegalGrow {} P37.exHist := by decide

/-- **C04 (the objects `compute` builds are the forest of the construction).** `P42.runObj` performs, pixel by pixel,
the object operations of the loop (`Structure(coord, value)`, `_add_pixel`, `_merge` + `structures.pop`, `Structure(…,
children=adjacent)`) on the object heap of `ADModel/Cache.lean`. For every environment and duplicate-free order the
heap is well formed, cached ancestors stay proper ancestors, and its parentless live objects, read as trees, are exactly
`run E order`. -/
theorem C04_objects_refine_construction (E : Env) (order : List Nat) (hnd : order.Nodup) :
    P17.WF (P42.runObj E order) ∧ P37.AncSound (P42.runObj E order) ∧
    P35.absF (P42.runObj E order) (P42.runObj E order).size (P42.runO E order).roots = run E order ∧
    (P42.runO E order).roots.Nodup ∧ ∀ r, r ∈ (P42.runO E order).roots ↔ r ∈ P35.rootsOf (P42.runObj E order) :=
  P42.runObj_refines E order hnd

/-- … and at every point of that real object history the cached `Structure.ancestor` of any live structure is the
current root (the abstract statement is `C04_ancestor_is_root`) -/
theorem C04_ancestor_sound_in_compute (E : Env) (order pre : List Nat) (hnd : order.Nodup) (hpre : pre <+: order)
    (i : Nat) (hi : i ∈ (P42.runObj E pre).alive) :
    ((P42.runObj E pre).ancestor (P42.runObj E pre).size i).2 = (P42.runObj E pre).specRoot (P42.runObj E pre).size i ∧
    P37.IsRootOf (P42.runObj E pre) ((P42.runObj E pre).ancestor (P42.runObj E pre).size i).2 :=
  P42.runObj_ancestor_sound E order pre hnd hpre i hi
