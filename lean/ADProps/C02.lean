import ADProofs
/-!
# C02 — structures form a well-formed forest with consistent navigation

"One parent, listed once in that parent's child list" holds by construction of the inductive
`Tree` (the correspondence check verifies on the real objects that `parent` pointers and
`children` lists are two views of one forest).  Everything else is proved here.
-/
open Tree

/-- **C02 (branches have ≥ 2 children).** For every environment and order, every structure built
by the pixel loop and kept by `_make_trunk` is a leaf or has at least two children. -/
theorem C02_arity (E : Env) (order : List Nat) :
    ∀ t ∈ preL (makeTrunk E (run E order)), Arity t := compute_arity_pre E order

/-- **C02 (iteration).** The implementation's `pop(0)` / `children + todo` loop visits the forest
in prefix order, i.e. every structure exactly once … -/
theorem C02_iteration_is_prefix_order (f : List Tree) : allStructures f = preL f := allStructures_eq f

/-- … and parents before their children. -/
theorem C02_parent_before_child (f : List Tree) (t c : Tree) (ht : t ∈ preL f) (hc : c ∈ t.kids) :
    ∃ l1 l2 l3, allStructures f = l1 ++ t :: l2 ++ c :: l3 := by
  rw [allStructures_eq]; exact pre_parent_before_child f t c ht hc

/-- **C02 (identifiers are unique during the loop).** Temporary identifiers (creating pixels) are
pairwise distinct for a duplicate-free order. -/
theorem C02_temp_ids_unique (E : Env) (order : List Nat) (hnd : order.Nodup) :
    ((preL (run E order)).map Tree.id).Nodup := run_ids_nodup E order hnd

/-- **C02 (final identifiers are 0 … N-1).** After re-labelling a forest with distinct temporary
identifiers, the identifiers are exactly `0, …, N-1`, each carried by one structure. -/
theorem C02_final_ids (f : List Tree) (h : GoodForest f) :
    ((preL (relabel f)).map Tree.id).Perm (List.range (preL f).length) := relabel_ids_perm f h

/-- **C02 (for the dendrogram that `compute` returns).** Identifiers are exactly `0 … N-1`, every
branch has ≥ 2 children, no structure is empty. -/
theorem C02_compute_ids (E : Env) (order : List Nat) (hnd : order.Nodup) :
    ((preL (compute E order)).map Tree.id).Perm (List.range (preL (compute E order)).length) :=
  P30.compute_ids E order hnd
theorem C02_compute_arity (E : Env) (order : List Nat) :
    (∀ t ∈ preL (compute E order), PArity t) ∧ (∀ t ∈ preL (compute E order), t.own ≠ []) :=
  ⟨P30.compute_arity E order, P30.compute_own_nonempty E order⟩

/-- **C02 (for every dendrogram obtained by compute, prune and load).** `P30.Reach E order n f`:
`f` is obtained from `compute E order` by any sequence of prunes (arbitrary criteria) and
save/load cycles.  Every such forest is well formed (distinct identifiers, every pixel owned
once, in range), has branches with ≥ 2 children and no empty structure — so the accessor theorems
of C06 apply to it. -/
theorem C02_reachable_wellformed (E : Env) (order : List Nat) (hnd : order.Nodup) (n : Nat)
    (hn : ∀ p ∈ order, p < n) :
    ∀ f, P30.Reach E order n f →
      P8.WF f n ∧ IdsNodup f ∧ (∀ s ∈ preL f, PArity s) ∧ (∀ s ∈ preL f, s.own ≠ []) :=
  P30.reach_wf E order hnd n hn

-- non-vacuity: a forest with a branch satisfying `GoodForest`
example : GoodForest [node 7 [3, 0] [node 2 [1] [], node 9 [4] []], node 5 [6] []] := by
  refine ⟨by decide, ?_, by decide⟩
  intro t ht; simp [preL, pre] at ht; rcases ht with rfl | rfl | rfl | rfl <;> simp [Tree.own]
