import ADPropsM.C10
