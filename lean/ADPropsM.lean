import ADPropsM.C10
import ADPropsM.C11
import ADPropsM.C12
import ADPropsM.C13
