import ADModel
import ADProofs.Forest
import ADProofs.PlotProofs
/-!
# ADProofs.HypProofs — glue results (P31)

Part A: the run-time hypothesis checks of the model driver (`sortedDesc`, `nodupB`,
`sortNat order = kept`) are sound and complete for the hypotheses the theorems assume.

* `sortedDesc_iff`, `nodupB_iff`
* `sortNat_perm`, `sortNat_sorted`, `cover_iff`
* `strict_of_sorted_distinct`

Part B: planarity of the plot (C18).

* `nested_or_disjoint` (nodes of a forest with distinct ids are nested or have id-disjoint subtrees),
  `disjoint_subtrees_disjoint_leaves`
* `pos_leaf`, `pos_branch`, `child_within_span`

Core Lean only.
-/
open Tree

namespace P31

/-! ## A1. `sortedDesc` -/

theorem sortedDesc_cons_iff (val : Nat → Int) (a : Nat) (l : List Nat) :
    sortedDesc val (a :: l) = true ↔
      (∀ b ∈ l, val b ≤ val a) ∧ l.Pairwise (fun a b => val b ≤ val a) := by
  induction l generalizing a with
  | nil => simp [sortedDesc]
  | cons b rest ih =>
    simp only [sortedDesc, Bool.and_eq_true, decide_eq_true_eq, ih b, List.pairwise_cons,
      List.mem_cons, forall_eq_or_imp]
    constructor
    · rintro ⟨hba, hb, hp⟩
      exact ⟨⟨hba, fun c hc => Int.le_trans (hb c hc) hba⟩, hb, hp⟩
    · rintro ⟨⟨hba, _⟩, hb, hp⟩
      exact ⟨hba, hb, hp⟩

/-- the adjacent-comparison check decides "non-increasing" (≤ is transitive) -/
theorem sortedDesc_iff (val : Nat → Int) (l : List Nat) :
    sortedDesc val l = true ↔ l.Pairwise (fun a b => val b ≤ val a) := by
  cases l with
  | nil => simp [sortedDesc]
  | cons a l => rw [sortedDesc_cons_iff, List.pairwise_cons]

/-! ## A2. `nodupB` -/

/-- the duplicate check decides `Nodup` -/
theorem nodupB_iff (l : List Nat) : nodupB l = true ↔ l.Nodup := by
  induction l with
  | nil => simp [nodupB]
  | cons a rest ih => simp [nodupB, ih]

/-! ## A3. `sortNat` and the cover check -/

theorem insertNat_perm (x : Nat) (l : List Nat) : (insertNat x l).Perm (x :: l) := by
  induction l with
  | nil => simp [insertNat]
  | cons y ys ih =>
    simp only [insertNat]; split
    · exact List.Perm.refl _
    · exact (ih.cons y).trans (List.Perm.swap x y ys)

theorem sortNat_perm (l : List Nat) : (sortNat l).Perm l := by
  induction l with
  | nil => simp [sortNat]
  | cons x xs ih => exact (insertNat_perm x _).trans (ih.cons x)

theorem insertNat_sorted (x : Nat) (l : List Nat) (h : l.Pairwise (· ≤ ·)) :
    (insertNat x l).Pairwise (· ≤ ·) := by
  induction l with
  | nil => simp [insertNat]
  | cons y ys ih =>
    rw [List.pairwise_cons] at h
    simp only [insertNat]; split
    · rename_i hle
      refine List.pairwise_cons.mpr ⟨?_, List.pairwise_cons.mpr h⟩
      intro z hz
      rcases List.mem_cons.mp hz with hz | hz
      · subst hz; exact hle
      · exact Nat.le_trans hle (h.1 z hz)
    · rename_i hle
      refine List.pairwise_cons.mpr ⟨?_, ih h.2⟩
      intro z hz
      rcases List.mem_cons.mp ((insertNat_perm x ys).mem_iff.mp hz) with hz | hz
      · subst hz; omega
      · exact h.1 z hz

theorem sortNat_sorted (l : List Nat) : (sortNat l).Pairwise (· ≤ ·) := by
  induction l with
  | nil => simp [sortNat]
  | cons x xs ih => exact insertNat_sorted x _ ih

/-- two strictly ascending lists with the same members are equal -/
theorem eq_of_strict_of_mem_iff (l1 l2 : List Nat) (h1 : l1.Pairwise (· < ·))
    (h2 : l2.Pairwise (· < ·)) (hm : ∀ p, p ∈ l1 ↔ p ∈ l2) : l1 = l2 := by
  induction l1 generalizing l2 with
  | nil =>
    cases l2 with
    | nil => rfl
    | cons b l2 => exact absurd ((hm b).mpr List.mem_cons_self) (by simp)
  | cons a l1 ih =>
    cases l2 with
    | nil => exact absurd ((hm a).mp List.mem_cons_self) (by simp)
    | cons b l2 =>
      rw [List.pairwise_cons] at h1 h2
      have hab : a = b := by
        rcases List.mem_cons.mp ((hm a).mp List.mem_cons_self) with h | h
        · exact h
        · rcases List.mem_cons.mp ((hm b).mpr List.mem_cons_self) with h' | h'
          · exact h'.symm
          · have := h1.1 b h'; have := h2.1 a h; omega
      subst hab
      congr 1
      apply ih l2 h1.2 h2.2
      intro p
      constructor
      · intro hp
        rcases List.mem_cons.mp ((hm p).mp (List.mem_cons_of_mem _ hp)) with h | h
        · subst h; have := h1.1 p hp; omega
        · exact h
      · intro hp
        rcases List.mem_cons.mp ((hm p).mpr (List.mem_cons_of_mem _ hp)) with h | h
        · subst h; have := h2.1 p hp; omega
        · exact h

theorem strict_of_sorted_nodup (l : List Nat) (h : l.Pairwise (· ≤ ·)) (hnd : l.Nodup) :
    l.Pairwise (· < ·) := by
  induction l with
  | nil => simp
  | cons a l ih =>
    rw [List.pairwise_cons] at h
    rw [List.nodup_cons] at hnd
    refine List.pairwise_cons.mpr ⟨?_, ih h.2 hnd.2⟩
    intro b hb
    have := h.1 b hb
    have : a ≠ b := fun e => hnd.1 (e ▸ hb)
    omega

/-- with a duplicate-free order, "sorted order equals the strictly ascending list of kept pixels"
    is exactly "the processed pixels are the kept pixels" -/
theorem cover_iff (order kept : List Nat) (hk : kept.Pairwise (· < ·)) (hnd : order.Nodup) :
    sortNat order = kept ↔ (∀ p, p ∈ order ↔ p ∈ kept) := by
  constructor
  · intro h p
    rw [← h]; exact ((sortNat_perm order).mem_iff).symm
  · intro h
    apply eq_of_strict_of_mem_iff _ _ _ hk
    · intro p; rw [(sortNat_perm order).mem_iff]; exact h p
    · exact strict_of_sorted_nodup _ (sortNat_sorted order)
        ((sortNat_perm order).nodup_iff.mpr hnd)

/-! ## A4. strictness -/

/-- non-increasing + pairwise distinct values ⇒ strictly decreasing -/
theorem strict_of_sorted_distinct (val : Nat → Int) (l : List Nat)
    (h : l.Pairwise (fun a b => val b ≤ val a))
    (hd : ∀ a ∈ l, ∀ b ∈ l, val a = val b → a = b) (hnd : l.Nodup) :
    l.Pairwise (fun a b => val b < val a) := by
  induction l with
  | nil => simp
  | cons a l ih =>
    rw [List.pairwise_cons] at h
    rw [List.nodup_cons] at hnd
    refine List.pairwise_cons.mpr ⟨?_, ih h.2 (fun x hx y hy => hd x (List.mem_cons_of_mem _ hx)
      y (List.mem_cons_of_mem _ hy)) hnd.2⟩
    intro b hb
    have hle := h.1 b hb
    have hne : val a ≠ val b := fun e =>
      hnd.1 (hd a List.mem_cons_self b (List.mem_cons_of_mem _ hb) e ▸ hb)
    omega

/-! ## B2. positions -/

theorem pos_leaf (order : List Nat) (i : Nat) (o : List Nat) :
    Plot.pos order (.node i o []) = (Plot.idxOfNat order i : Rat) := by
  simp [Plot.pos]

theorem pos_branch (order : List Nat) (i : Nat) (o : List Nat) (k : Tree) (ks : List Tree) :
    Plot.pos order (.node i o (k :: ks)) = Plot.meanQ (Plot.posL order (k :: ks)) := by
  simp [Plot.pos]

theorem posL_eq_map (order : List Nat) (ks : List Tree) :
    Plot.posL order ks = ks.map (Plot.pos order) := by
  induction ks with
  | nil => simp [Plot.posL]
  | cons t ts ih => simp [Plot.posL, ih]

/-- a child's vertical line lies within its parent's horizontal span -/
theorem child_within_span (order : List Nat) (_i : Nat) (_o : List Nat) (ks : List Tree) (c : Tree)
    (hc : c ∈ ks) :
    Plot.minQ' (Plot.posL order ks) ≤ Plot.pos order c ∧
      Plot.pos order c ≤ Plot.maxQ' (Plot.posL order ks) := by
  have hm : Plot.pos order c ∈ Plot.posL order ks := by
    rw [posL_eq_map]; exact List.mem_map_of_mem hc
  exact ⟨P15.minQ'_le _ _ hm, P15.le_maxQ' _ _ hm⟩

/-! ## B1. nested or disjoint -/

theorem pre_subset_pre {t u : Tree} (h : t ∈ pre u) : ∀ x ∈ pre t, x ∈ pre u := by
  obtain ⟨l1, l3, e⟩ := pre_block.1 u t h
  intro x hx; rw [e]; simp [hx]

theorem pre_subset_preL {t : Tree} {f : List Tree} (h : t ∈ preL f) : ∀ x ∈ pre t, x ∈ preL f := by
  obtain ⟨l1, l3, e⟩ := pre_block.2 f t h
  intro x hx; rw [e]; simp [hx]

/-- In a forest with distinct identifiers, two nodes of the prefix listing are nested (one in
    `pre` of the other) or their subtrees have no identifier in common. -/
theorem nested_or_disjoint_both :
    (∀ u : Tree, ((pre u).map Tree.id).Nodup → ∀ t ∈ pre u, ∀ t' ∈ pre u,
      t ∈ pre t' ∨ t' ∈ pre t ∨ ∀ x ∈ pre t, ∀ y ∈ pre t', x.id ≠ y.id) ∧
    (∀ f : List Tree, ((preL f).map Tree.id).Nodup → ∀ t ∈ preL f, ∀ t' ∈ preL f,
      t ∈ pre t' ∨ t' ∈ pre t ∨ ∀ x ∈ pre t, ∀ y ∈ pre t', x.id ≠ y.id) := by
  apply Tree.forest_induction
  · intro i o ks ih hnd t ht t' ht'
    simp only [pre, List.map_cons, List.nodup_cons] at hnd
    rcases List.mem_cons.mp (by simpa only [pre] using ht) with e | ht
    · subst e; exact Or.inr (Or.inl ht')
    · rcases List.mem_cons.mp (by simpa only [pre] using ht') with e | ht'
      · subst e; exact Or.inl (by simp only [pre]; exact List.mem_cons_of_mem _ ht)
      · exact ih hnd.2 t ht t' ht'
  · intro _ t ht; simp [preL] at ht
  · intro u us ihu ihus hnd t ht t' ht'
    simp only [preL, List.map_append] at hnd
    have hdis := (List.nodup_append.mp hnd).2.2
    have hu := (List.nodup_append.mp hnd).1
    have hus := (List.nodup_append.mp hnd).2.1
    simp only [preL] at ht ht'
    rcases List.mem_append.mp ht with ht | ht <;> rcases List.mem_append.mp ht' with ht' | ht'
    · exact ihu hu t ht t' ht'
    · refine Or.inr (Or.inr ?_)
      intro x hx y hy
      exact hdis x.id (List.mem_map_of_mem (pre_subset_pre ht x hx)) y.id
        (List.mem_map_of_mem (pre_subset_preL ht' y hy))
    · refine Or.inr (Or.inr ?_)
      intro x hx y hy e
      exact hdis y.id (List.mem_map_of_mem (pre_subset_pre ht' y hy)) x.id
        (List.mem_map_of_mem (pre_subset_preL ht x hx)) e.symm
    · exact ihus hus t ht t' ht'

theorem nested_or_disjoint (f : List Tree) (hids : ((preL f).map Tree.id).Nodup) (t t' : Tree)
    (ht : t ∈ preL f) (ht' : t' ∈ preL f) :
    t ∈ pre t' ∨ t' ∈ pre t ∨ ∀ x ∈ pre t, ∀ y ∈ pre t', x.id ≠ y.id :=
  nested_or_disjoint_both.2 f hids t ht t' ht'

/-- structures not in ancestor relation have disjoint leaf sets (hence, with contiguity and
    distinct positions, disjoint intervals: no lines cross) -/
theorem disjoint_subtrees_disjoint_leaves (_key : Nat → Int) (_rev : Bool) (f : List Tree)
    (hids : ((Tree.preL f).map Tree.id).Nodup) (t t' : Tree) (ht : t ∈ Tree.preL f)
    (ht' : t' ∈ Tree.preL f) (hdis : t ∉ Tree.pre t' ∧ t' ∉ Tree.pre t) :
    ∀ x ∈ P15.leafIds t, x ∉ P15.leafIds t' := by
  intro x hx hx'
  rcases nested_or_disjoint f hids t t' ht ht' with h | h | h
  · exact hdis.1 h
  · exact hdis.2 h
  · unfold P15.leafIds at hx hx'
    obtain ⟨a, ha, hax⟩ := List.mem_map.mp hx
    obtain ⟨b, hb, hbx⟩ := List.mem_map.mp hx'
    exact h a (List.mem_filter.mp ha).1 b (List.mem_filter.mp hb).1 (hax.trans hbx.symm)

end P31
