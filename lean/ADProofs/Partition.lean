import ADProofs.Basic
/-! C01 core: the pixel loop assigns every processed pixel to exactly one structure -/
open Tree

theorem insig_leaf (E : Env) (p : Nat) (t : Tree) (h : insig E p t = true) : t.isLeaf = true := by
  simp [insig] at h; exact h.1

/-- the receiving structure holds exactly `p` plus everything the adjacent roots held -/
theorem joinAdj_pixels (E : Env) (p : Nat) (adj : List Tree) :
    (joinAdj E p adj).pixels.Perm (p :: pixelsL adj) := by
  unfold joinAdj
  match adj with
  | [] => simp [pixels, pixelsL]
  | [t] => simpa [pixelsL] using pixels_addPixel t p
  | a :: b :: adj' =>
    simp only
    generalize hA : (a :: b :: adj') = A
    have hs2 := pixelsL_perm (filter_partition_perm A (insig E p))
    rw [pixelsL_append] at hs2
    have hml : ∀ m ∈ A.filter (insig E p), m.isLeaf := by
      intro m hm; exact insig_leaf E p m (List.mem_filter.mp hm).2
    generalize hmrg : A.filter (insig E p) = mrg at *
    generalize hkeep : A.filter (fun t => !insig E p t) = keep at *
    match keep, hkeep with
    | [], hkeep =>
      simp only [pixelsL, List.append_nil] at hs2
      rcases hr : mrg.reverse with _ | ⟨bt, others⟩
      · simp at hr; subst hr
        have : a ∈ A := by rw [← hA]; simp
        have h1 : insig E p a = false := by
          cases hc : insig E p a with
          | false => rfl
          | true =>
            have h' : a ∈ A.filter (insig E p) := List.mem_filter.mpr ⟨this, hc⟩
            rw [hmrg] at h'; simp at h'
        have : a ∈ A.filter (fun t => !insig E p t) := List.mem_filter.mpr ⟨this, by simp [h1]⟩
        rw [hkeep] at this; simp at this
      · simp only
        have hm' : mrg = others.reverse ++ [bt] := by
          have := congrArg List.reverse hr; simpa using this
        have hol : ∀ m ∈ others.reverse, m.isLeaf := by
          intro m hm; exact hml m (by rw [hm']; simp at hm ⊢; exact Or.inl hm)
        refine (foldl_absorb_pixels _ hol _).trans ?_
        rw [hm', pixelsL_append] at hs2
        simp only [pixelsL, List.append_nil] at hs2
        refine ((pixels_addPixel bt p).append_right _).trans ?_
        simp only [List.cons_append]
        exact (List.perm_append_comm.trans hs2.symm).cons p
    | [t], _ =>
      simp only
      refine (foldl_absorb_pixels _ hml _).trans ?_
      simp only [pixelsL, List.append_nil] at hs2
      refine ((pixels_addPixel t p).append_right _).trans ?_
      simp only [List.cons_append]
      exact (List.perm_append_comm.trans hs2.symm).cons p
    | k1 :: k2 :: ks, _ =>
      simp only
      refine (foldl_absorb_pixels _ hml _).trans ?_
      simp only [pixels, List.cons_append, List.nil_append]
      exact (List.perm_append_comm.trans hs2.symm).cons p

theorem step_pixels (E : Env) (roots : List Tree) (p : Nat) :
    (pixelsL (step E roots p)).Perm (p :: pixelsL roots) := by
  have hpx := pixelsL_perm (filter_partition_perm roots (touches E p))
  rw [pixelsL_append] at hpx
  unfold step
  rw [pixelsL_append]
  simp only [pixelsL, List.append_nil]
  have h := (joinAdj_pixels E p (sortById (roots.filter (touches E p)))).trans
    ((pixelsL_perm (sortById_perm _)).cons p)
  refine (List.Perm.append_left _ h).trans ?_
  refine List.perm_middle.trans ?_
  exact (List.perm_append_comm.trans hpx.symm).cons p

theorem foldl_step_pixels (E : Env) (order : List Nat) (roots : List Tree) :
    (pixelsL (order.foldl (step E) roots)).Perm (order.reverse ++ pixelsL roots) := by
  induction order generalizing roots with
  | nil => simp
  | cons p ps ih =>
    simp only [List.foldl_cons, List.reverse_cons, List.append_assoc]
    exact (ih _).trans (List.Perm.append_left _ (by simpa using step_pixels E roots p))

/-- after the whole loop the pixels of all structures are exactly the processed pixels, each once -/
theorem run_pixels (E : Env) (order : List Nat) : (pixelsL (run E order)).Perm order.reverse := by
  simpa [run, pixelsL] using foldl_step_pixels E order []
