import ADModel
/-!
# ADProofs.NewickProofs — the textual tree encoding round-trips (property C09)

Main results (root namespace; all auxiliary material lives in `namespace NewickPf`):

* `digits_roundtrip`, `toString_nat_digits` : decimal identifiers read back
* `parseDescent_print` : the reference recursive-descent parser inverts `printForest` on every
  forest whose height texts are well formed (`GoodL`)
* `printForest_injective` : the writer is injective on such forests
* `fmt3_good`, `fmt3_no_colon` : `%.3f` texts are well formed; hence `parseDescent_toNewick`
* `parseImpl_print` : the step-by-step model of `parse_newick` (depth scan, per-level collection of
  parenthesis pairs, right-to-left excision, dict literal, `collect`) also inverts `printForest`
  when, in addition, all identifiers are pairwise distinct and no height text contains `':'`;
  hence `parseImpl_toNewick`, and the two readers agree on everything the writer produces
-/

/-! ## well-formed height texts -/

def GoodH (h : String) : Prop :=
  h.toList ≠ [] ∧ ∀ c ∈ h.toList, c ≠ ',' ∧ c ≠ ')' ∧ c ≠ '(' ∧ c ≠ ';'
mutual
def GoodT : NTree → Prop
  | .node _ h ks => GoodH h ∧ GoodL ks
def GoodL : List NTree → Prop
  | [] => True
  | t :: ts => GoodT t ∧ GoodL ts
end


namespace NewickPf

/-! ## 1. decimal identifiers -/

theorem digitsFold_of_digits (l : List Char) (hl : ∀ c ∈ l, c.isDigit = true) (init : Nat) :
    l.foldl (fun (acc : Option Nat) c => acc.bind fun n => if c.isDigit then some (n * 10 + (c.toNat - '0'.toNat)) else none) (some init)
      = some (Nat.ofDigitChars 10 l init) := by
  induction l generalizing init with
  | nil => simp
  | cons c cs ih =>
    have hc := hl c (by simp)
    simp only [List.foldl_cons, Option.bind_some, hc, if_true]
    rw [ih (fun c h => hl c (by simp [h])), Nat.ofDigitChars_cons, Nat.mul_comm]

theorem toString_nat_toList (n : Nat) : (toString n).toList = Nat.toDigits 10 n := by
  simp

theorem _root_.toString_nat_digits (n : Nat) :
    (∀ c ∈ (toString n).toList, c.isDigit = true) ∧ (toString n).toList ≠ [] := by
  rw [toString_nat_toList]
  exact ⟨fun c hc => Nat.isDigit_of_mem_toDigits (by decide) (by decide) hc, Nat.toDigits_ne_nil⟩

theorem _root_.digits_roundtrip (n : Nat) : digitsToNat? (toString n).toList = some n := by
  have h := toString_nat_digits n
  unfold digitsToNat?
  rw [if_neg (by simp), digitsFold_of_digits _ h.1, toString_nat_toList,
    Nat.ofDigitChars_ten_toDigits]

/-! ## 2. the recursive-descent parser inverts the writer -/

/-- the rest of the input does not continue a token recognised by `f` -/
def StopAt (f : Char → Bool) (rest : List Char) : Prop := ∀ c cs, rest = c :: cs → f c = false

theorem takeWhileC_append (f : Char → Bool) (l rest : List Char) (hl : ∀ c ∈ l, f c = true)
    (hr : StopAt f rest) : takeWhileC f (l ++ rest) = (l, rest) := by
  induction l with
  | nil =>
    cases rest with
    | nil => rfl
    | cons c cs => simp [takeWhileC, hr c cs rfl]
  | cons c cs ih =>
    have hc := hl c (by simp)
    simp [takeWhileC, hc, ih (fun c h => hl c (by simp [h]))]

def hstop (c : Char) : Bool := c != ',' && c != ')' && c != '(' && c != ';'

theorem parseLabel_print (ks : List NTree) (i : Nat) (h : String) (rest : List Char)
    (hh : GoodH h) (hr : StopAt hstop rest) :
    parseLabel ks ((toString i).toList ++ ':' :: (h.toList ++ rest))
      = some (NTree.node i h ks, rest) := by
  have hd := toString_nat_digits i
  have h1 : takeWhileC Char.isDigit ((toString i).toList ++ ':' :: (h.toList ++ rest))
      = ((toString i).toList, ':' :: (h.toList ++ rest)) :=
    takeWhileC_append _ _ _ hd.1 (by intro c cs e; cases e; decide)
  have h2 : takeWhileC hstop (h.toList ++ rest) = (h.toList, rest) :=
    takeWhileC_append _ _ _ (by intro c hc; have := hh.2 c hc; simp [hstop, this]) hr
  unfold hstop at h2
  simp only [parseLabel, h1, digits_roundtrip, h2]
  simp [hh.1]

theorem print_toList (i : Nat) (h : String) (ks : List NTree) :
    (NTree.print (.node i h ks)).toList =
      (if ks.isEmpty then [] else '(' :: ((NTree.printL ks).toList ++ [')']))
        ++ ((toString i).toList ++ ':' :: h.toList) := by
  rw [NTree.print]
  split <;> simp [String.toList_append]


theorem parseNode_leaf (fuel : Nat) (s : List Char) (h : ∀ cs, s ≠ '(' :: cs) :
    parseNode (fuel + 1) s = parseLabel [] s := by
  rw [parseNode]
  intro rest e
  exact h _ e

theorem printL_cons2 (t u : NTree) (ts : List NTree) :
    (NTree.printL (t :: u :: ts)).toList
      = (NTree.print t).toList ++ ',' :: (NTree.printL (u :: ts)).toList := by
  simp [NTree.printL, String.toList_append]

theorem print_length_pos (t : NTree) : 0 < (NTree.print t).toList.length := by
  cases t with
  | node i h ks =>
    rw [print_toList]
    have := (toString_nat_digits i).2
    have : 0 < (toString i).toList.length := List.length_pos_iff.mpr this
    simp only [List.length_append, List.length_cons]
    omega

mutual
theorem parseNode_print (t : NTree) (ht : GoodT t) (fuel : Nat) (rest : List Char)
    (hr : StopAt hstop rest) (hf : (NTree.print t).toList.length ≤ fuel) :
    parseNode fuel ((NTree.print t).toList ++ rest) = some (t, rest) := by
  match t, ht with
  | .node i h ks, ht =>
    rw [GoodT] at ht
    obtain ⟨hh, hks⟩ := ht
    rw [print_toList] at hf ⊢
    match fuel, hf with
    | 0, hf =>
      have := (toString_nat_digits i).2
      have : 0 < (toString i).toList.length := List.length_pos_iff.mpr this
      simp only [List.length_append, List.length_cons] at hf
      omega
    | fuel + 1, hf =>
      match ks, hks with
      | [], _ =>
        simp only [List.isEmpty_nil, if_true, List.nil_append, List.append_assoc, List.cons_append]
        rw [parseNode_leaf, parseLabel_print _ _ _ _ hh hr]
        intro cs e
        have hd := toString_nat_digits i
        cases hl : (toString i).toList with
        | nil => exact hd.2 hl
        | cons d ds =>
          rw [hl] at e
          have := hd.1 d (by rw [hl]; exact List.mem_cons_self)
          simp only [List.cons_append, List.cons.injEq] at e
          rw [e.1] at this
          revert this; decide
      | k :: ks', hks =>
        have hl := parseList_print (k :: ks') (by simp) hks fuel
          ((toString i).toList ++ ':' :: (h.toList ++ rest))
          (by simp only [List.isEmpty_cons, Bool.false_eq_true, if_false, List.length_append,
                List.length_cons] at hf; omega)
        simp only [List.isEmpty_cons, Bool.false_eq_true, if_false, List.cons_append,
          List.append_assoc, List.nil_append]
        rw [parseNode, hl]
        simp only [Option.bind_eq_bind, Option.bind_some]
        exact parseLabel_print _ _ _ _ hh hr
theorem parseList_print (ts : List NTree) (hne : ts ≠ []) (hts : GoodL ts) (fuel : Nat)
    (rest : List Char) (hf : (NTree.printL ts).toList.length + 1 ≤ fuel) :
    parseList fuel ((NTree.printL ts).toList ++ ')' :: rest) = some (ts, ')' :: rest) := by
  match fuel, hf with
  | fuel + 1, hf =>
    match ts, hne, hts with
    | [t], _, hts =>
      rw [GoodL] at hts
      rw [NTree.printL] at hf ⊢
      rw [parseList, parseNode_print t hts.1 fuel _ (by intro c cs e; cases e; decide) (by omega)]
      simp
    | t :: u :: ts', _, hts =>
      rw [GoodL] at hts
      rw [printL_cons2] at hf ⊢
      simp only [List.length_append, List.length_cons, List.append_assoc] at hf ⊢
      rw [parseList, parseNode_print t hts.1 fuel _ (by intro c cs e; cases e; decide) (by omega)]
      simp only [Option.bind_eq_bind, Option.bind_some, List.cons_append]
      rw [parseList_print (u :: ts') (by simp) hts.2 fuel rest (by simp at hf; omega)]
      simp
end

theorem printForest_toList (ts : List NTree) :
    (printForest ts).toList = '(' :: ((NTree.printL ts).toList ++ [')', ';']) := by
  simp [printForest, String.toList_append]

theorem printL_length_pos (t : NTree) (ts : List NTree) :
    0 < (NTree.printL (t :: ts)).toList.length := by
  cases ts with
  | nil => rw [NTree.printL]; exact print_length_pos t
  | cons u ts => rw [printL_cons2]; simp only [List.length_append, List.length_cons]; omega

theorem _root_.parseDescent_print (ts : List NTree) (h : GoodL ts) :
    parseDescent (printForest ts) = some ts := by
  unfold parseDescent
  rw [printForest_toList]
  cases ts with
  | nil => simp [NTree.printL]
  | cons t ts =>
    have hpos := printL_length_pos t ts
    have hp := parseList_print (t :: ts) (by simp) h
      (2 * ((NTree.printL (t :: ts)).toList ++ [')', ';']).length + 2) [';']
      (by simp only [List.length_append]; omega)
    split
    · rename_i heq
      have := congrArg List.length heq
      simp only [List.length_cons, List.length_append, List.length_nil] at this
      omega
    · rename_i rest _ heq
      cases heq
      rw [hp]
      rfl
    · rename_i hno
      exact (hno _ rfl).elim

theorem _root_.printForest_injective (a b : List NTree) (ha : GoodL a) (hb : GoodL b)
    (h : printForest a = printForest b) : a = b := by
  have h1 := parseDescent_print a ha
  rw [h, parseDescent_print b hb] at h1
  exact (Option.some.inj h1).symm

/-! ## 4. `%.3f` texts are well formed -/

/-- characters produced by `%.3f` -/
def FmtChar (c : Char) : Prop := c.isDigit = true ∨ c = '-' ∨ c = '.'

theorem pad3_chars (n : Nat) : ∀ c ∈ (pad3 n).toList, FmtChar c := by
  have hd := (toString_nat_digits n).1
  have h0 : ("00" : String).toList = ['0', '0'] := rfl
  have h1 : ("0" : String).toList = ['0'] := rfl
  intro c hc
  unfold pad3 at hc
  simp only at hc
  split at hc
  · rw [String.toList_append, h0] at hc
    simp only [List.mem_append, List.mem_cons, List.not_mem_nil, or_false] at hc
    rcases hc with (rfl | rfl) | hc
    · left; decide
    · left; decide
    · exact Or.inl (hd c hc)
  · split at hc
    · rw [String.toList_append, h1] at hc
      simp only [List.mem_append, List.mem_cons, List.not_mem_nil, or_false] at hc
      rcases hc with rfl | hc
      · left; decide
      · exact Or.inl (hd c hc)
    · exact Or.inl (hd c hc)

theorem fmt3_chars (k : Int) (fb : Nat) :
    (fmt3 k fb).toList ≠ [] ∧ ∀ c ∈ (fmt3 k fb).toList, FmtChar c := by
  unfold fmt3
  simp only [String.toList_append]
  have hdot : (".":String).toList = ['.'] := rfl
  have hm : ("-":String).toList = ['-'] := rfl
  have he : ("":String).toList = [] := rfl
  rw [hdot]
  constructor
  · simp
  · intro c hc
    simp only [List.mem_append, List.mem_cons, List.not_mem_nil, or_false] at hc
    rcases hc with ((hc | hc) | rfl) | hc
    · split at hc
      · rw [hm] at hc; simp at hc; exact Or.inr (Or.inl hc)
      · rw [he] at hc; simp at hc
    · exact Or.inl ((toString_nat_digits _).1 c hc)
    · exact Or.inr (Or.inr rfl)
    · exact pad3_chars _ c hc

theorem FmtChar.ne {c : Char} (h : FmtChar c) :
    c ≠ ',' ∧ c ≠ ')' ∧ c ≠ '(' ∧ c ≠ ';' ∧ c ≠ ':' := by
  rcases h with h | rfl | rfl
  · refine ⟨?_, ?_, ?_, ?_, ?_⟩ <;> (rintro rfl; revert h; decide)
  · decide
  · decide

theorem _root_.fmt3_good (k : Int) (fb : Nat) : GoodH (fmt3 k fb) := by
  have h := fmt3_chars k fb
  refine ⟨h.1, fun c hc => ?_⟩
  have := (h.2 c hc).ne
  exact ⟨this.1, this.2.1, this.2.2.1, this.2.2.2.1⟩

theorem _root_.fmt3_no_colon (k : Int) (fb : Nat) : ∀ c ∈ (fmt3 k fb).toList, c ≠ ':' :=
  fun c hc => ((fmt3_chars k fb).2 c hc).ne.2.2.2.2

mutual
theorem toNTree_good (val : Nat → Int) (fb : Nat) : (t : Tree) → GoodT (toNTree val fb t)
  | .node i o ks => by
    rw [toNTree, GoodT]
    exact ⟨fmt3_good _ _, toNTreeL_good val fb ks⟩
theorem toNTreeL_good (val : Nat → Int) (fb : Nat) : (ts : List Tree) → GoodL (toNTreeL val fb ts)
  | [] => by rw [toNTreeL, GoodL]; trivial
  | t :: ts => by
    rw [toNTreeL, GoodL]
    exact ⟨toNTree_good val fb t, toNTreeL_good val fb ts⟩
end

/-- the text written for any forest of structures reads back as the same printable forest -/
theorem _root_.parseDescent_toNewick (val : Nat → Int) (fb : Nat) (f : List Tree) :
    parseDescent (toNewick val fb f) = some (toNTreeL val fb f) :=
  parseDescent_print _ (toNTreeL_good val fb f)

/-! # 5. the step-by-step model of `parse_newick` -/

/-! ## printing on `List Char` -/

/-- comma-separated concatenation -/
def joinC : List (List Char) → List Char
  | [] => []
  | [x] => x
  | x :: y :: r => x ++ ',' :: joinC (y :: r)

/-- `id:height` -/
def lab (i : Nat) (h : String) : List Char := (toString i).toList ++ ':' :: h.toList

/-- the characters of `print t` -/
def P (t : NTree) : List Char := (NTree.print t).toList

theorem printL_toList (ts : List NTree) : (NTree.printL ts).toList = joinC (ts.map P) := by
  induction ts with
  | nil => simp [NTree.printL, joinC]
  | cons t ts ih =>
    cases ts with
    | nil => simp [NTree.printL, joinC, P]
    | cons u ts => rw [printL_cons2, ih]; simp [joinC, P]

theorem P_node (i : Nat) (h : String) (ks : List NTree) :
    P (.node i h ks) = (if ks = [] then [] else '(' :: (joinC (ks.map P) ++ [')'])) ++ lab i h := by
  rw [P, print_toList, printL_toList]
  cases ks <;> simp [lab]

theorem P_leaf (i : Nat) (h : String) : P (.node i h []) = lab i h := by
  simp [P_node]

theorem P_kids (i : Nat) (h : String) (ks : List NTree) (hk : ks ≠ []) :
    P (.node i h ks) = '(' :: (joinC (ks.map P) ++ ')' :: lab i h) := by
  simp [P_node, hk]

theorem printForest_eq (ts : List NTree) :
    (printForest ts).toList = '(' :: (joinC (ts.map P) ++ [')', ';']) := by
  rw [printForest_toList, printL_toList]

theorem joinC_cons2 (x y : List Char) (r : List (List Char)) :
    joinC (x :: y :: r) = x ++ ',' :: joinC (y :: r) := rfl

theorem joinC_cons_ne (x : List Char) (r : List (List Char)) (h : r ≠ []) :
    joinC (x :: r) = x ++ ',' :: joinC r := by
  cases r with
  | nil => exact absurd rfl h
  | cons y r => rfl

/-! ## truncation -/

/-- keep `d` levels of children -/
def cut : Nat → NTree → NTree
  | 0, .node i h _ => .node i h []
  | d + 1, .node i h ks => .node i h (ks.map (cut d))

/-- the children dict of a branch -/
def dictOf (ks : List NTree) : List (Nat × String) := ks.map fun k => (k.id, k.height)

theorem cut_id (d : Nat) (t : NTree) : (cut d t).id = t.id := by
  cases t; cases d <;> rfl
theorem cut_height (d : Nat) (t : NTree) : (cut d t).height = t.height := by
  cases t; cases d <;> rfl

theorem dictOf_cut (d : Nat) (ks : List NTree) : dictOf (ks.map (cut d)) = dictOf ks := by
  simp [dictOf, cut_id, cut_height]

theorem P_cut0 (t : NTree) : P (cut 0 t) = lab t.id t.height := by
  cases t; simp [cut, P_leaf, NTree.id, NTree.height]

/-! ## predicates on all nodes -/
mutual
def AllT (p : NTree → Prop) : NTree → Prop
  | .node i h ks => p (.node i h ks) ∧ AllL p ks
def AllL (p : NTree → Prop) : List NTree → Prop
  | [] => True
  | t :: ts => AllT p t ∧ AllL p ts
end

theorem AllL_iff (p : NTree → Prop) (ks : List NTree) : AllL p ks ↔ ∀ k ∈ ks, AllT p k := by
  induction ks with
  | nil => simp [AllL]
  | cons t ts ih => simp [AllL, ih]

theorem AllT_node (p : NTree → Prop) (i : Nat) (h : String) (ks : List NTree) :
    AllT p (.node i h ks) ↔ p (.node i h ks) ∧ ∀ k ∈ ks, AllT p k := by
  rw [AllT, AllL_iff]

theorem AllT_self (p : NTree → Prop) (t : NTree) (h : AllT p t) : p t := by
  cases t; exact ((AllT_node ..).1 h).1

/-- node-local well-formedness used by the level-by-level reader -/
def WFn (n : NTree) : Prop :=
  GoodH n.height ∧ (∀ c ∈ n.height.toList, c ≠ ':') ∧ (n.kids.map NTree.id).Nodup

/-! ## flat text -/

def Flat (s : List Char) : Prop := ∀ c ∈ s, c ≠ '(' ∧ c ≠ ')'

theorem Flat_append {a b : List Char} : Flat (a ++ b) ↔ Flat a ∧ Flat b := by
  simp only [Flat, List.mem_append]
  constructor
  · intro h; exact ⟨fun c hc => h c (Or.inl hc), fun c hc => h c (Or.inr hc)⟩
  · rintro ⟨h1, h2⟩ c (hc | hc); exact h1 c hc; exact h2 c hc

theorem Flat_cons {a : Char} {b : List Char} : Flat (a :: b) ↔ (a ≠ '(' ∧ a ≠ ')') ∧ Flat b := by
  simp [Flat]

theorem Flat_digits (i : Nat) : Flat (toString i).toList := by
  intro c hc
  have := (toString_nat_digits i).1 c hc
  constructor <;> (rintro rfl; revert this; decide)

theorem Flat_lab (i : Nat) (h : String) (hh : GoodH h) : Flat (lab i h) := by
  rw [lab, Flat_append, Flat_cons]
  refine ⟨Flat_digits i, by decide, fun c hc => ?_⟩
  have := hh.2 c hc
  exact ⟨this.2.2.1, this.2.1⟩

theorem Flat_joinC (xs : List (List Char)) (h : ∀ x ∈ xs, Flat x) : Flat (joinC xs) := by
  induction xs with
  | nil => intro c hc; simp [joinC] at hc
  | cons x r ih =>
    cases r with
    | nil => simpa [joinC] using h x (by simp)
    | cons y r =>
      rw [joinC_cons2, Flat_append, Flat_cons]
      exact ⟨h x (by simp), by decide, ih (fun z hz => h z (by simp [hz]))⟩

/-! ## the depth scan for pairs -/

def scanStep (level : Nat) (st : ScanSt) (c : Char) : ScanSt :=
  let st := if c = '(' then
      { st with cur := st.cur + 1, start := if st.cur + 1 = level then st.i else st.start }
    else st
  let st := if c = ')' then
      { st with acc := if st.cur = level then st.acc ++ [(st.start, st.i)] else st.acc, cur := st.cur - 1 }
    else st
  { st with i := st.i + 1 }

def scan (level : Nat) (st : ScanSt) (s : List Char) : ScanSt := s.foldl (scanStep level) st

theorem pairsAt_eq (s : List Char) (level : Nat) : pairsAt s level = (scan level {} s).acc := rfl

theorem scan_append (level : Nat) (st : ScanSt) (a b : List Char) :
    scan level st (a ++ b) = scan level (scan level st a) b := by
  simp [scan]

theorem scan_cons (level : Nat) (st : ScanSt) (a : Char) (b : List Char) :
    scan level st (a :: b) = scan level (scanStep level st a) b := rfl

theorem scan_nil (level : Nat) (st : ScanSt) : scan level st [] = st := rfl

theorem scan_flat (level : Nat) (s : List Char) (hs : Flat s) (i c st : Nat) (acc : List (Nat × Nat)) :
    scan level ⟨i, c, st, acc⟩ s = ⟨i + s.length, c, st, acc⟩ := by
  induction s generalizing i with
  | nil => rfl
  | cons x xs ih =>
    have hx := (Flat_cons.1 hs).1
    rw [scan_cons]
    have : scanStep level ⟨i, c, st, acc⟩ x = ⟨i + 1, c, st, acc⟩ := by
      simp [scanStep, hx.1, hx.2]
    rw [this, ih (Flat_cons.1 hs).2]
    simp only [List.length_cons]
    congr 1; omega

theorem scan_open (level : Nat) (i c st : Nat) (acc : List (Nat × Nat)) :
    scanStep level ⟨i, c, st, acc⟩ '(' = ⟨i + 1, c + 1, if c + 1 = level then i else st, acc⟩ := by
  simp [scanStep]

theorem scan_close (level : Nat) (i c st : Nat) (acc : List (Nat × Nat)) :
    scanStep level ⟨i, c, st, acc⟩ ')' =
      ⟨i + 1, c - 1, st, if c = level then acc ++ [(st, i)] else acc⟩ := by
  simp [scanStep]

/-! ## positions of the parenthesis pairs at a given level -/

def pairsL (f : Nat → NTree → List (Nat × Nat)) (w : NTree → Nat) : Nat → List NTree → List (Nat × Nat)
  | _, [] => []
  | off, t :: ts => f off t ++ pairsL f w (off + w t + 1) ts

/-- pairs contributed by `P (cut (d+1) t)` placed at offset `off`, for the level that is `d+1` above
    the level outside `t` -/
def pairsT : Nat → Nat → NTree → List (Nat × Nat)
  | 0, off, .node _ _ ks =>
    if ks = [] then [] else [(off, off + 1 + (joinC (ks.map fun k => P (cut 0 k))).length)]
  | d + 1, off, .node _ _ ks =>
    if ks = [] then [] else pairsL (pairsT d) (fun k => (P (cut (d + 1) k)).length) (off + 1) ks

theorem scan_list (level c : Nat) (f : Nat → NTree → List (Nat × Nat)) (g : NTree → List Char)
    (ks : List NTree)
    (hk : ∀ k ∈ ks, ∀ i st acc, ∃ st', scan level ⟨i, c, st, acc⟩ (g k)
        = ⟨i + (g k).length, c, st', acc ++ f i k⟩) :
    ∀ i st acc, ∃ st', scan level ⟨i, c, st, acc⟩ (joinC (ks.map g))
        = ⟨i + (joinC (ks.map g)).length, c, st', acc ++ pairsL f (fun k => (g k).length) i ks⟩ := by
  induction ks with
  | nil => intro i st acc; exact ⟨st, by simp [joinC, scan_nil, pairsL]⟩
  | cons t ts ih =>
    intro i st acc
    obtain ⟨st1, h1⟩ := hk t (by simp) i st acc
    cases ts with
    | nil =>
      refine ⟨st1, ?_⟩
      simp only [List.map_cons, List.map_nil, joinC, pairsL, List.append_nil]
      exact h1
    | cons u ts =>
      obtain ⟨st2, h2⟩ := ih (fun k hk' => hk k (by simp [hk'])) (i + (g t).length + 1) st1 (acc ++ f i t)
      refine ⟨st2, ?_⟩
      simp only [List.map_cons, joinC_cons2] at h2 ⊢
      rw [scan_append, h1, scan_cons]
      have : scanStep level ⟨i + (g t).length, c, st1, acc ++ f i t⟩ ','
          = ⟨i + (g t).length + 1, c, st1, acc ++ f i t⟩ := by
        simp [scanStep]
      rw [this, h2]
      simp only [pairsL, List.length_append, List.length_cons, List.append_assoc]
      congr 1; omega

theorem scan_tree (d : Nat) : ∀ (t : NTree), AllT WFn t → ∀ (level c : Nat), level = c + d + 1 →
    ∀ i st acc, ∃ st', scan level ⟨i, c, st, acc⟩ (P (cut (d + 1) t))
        = ⟨i + (P (cut (d + 1) t)).length, c, st', acc ++ pairsT d i t⟩ := by
  induction d with
  | zero =>
    intro t ht level c hl i st acc
    match t, ht with
    | .node id h ks, ht =>
      rw [AllT_node] at ht
      have hlab := Flat_lab id h ht.1.1
      by_cases hks : ks = []
      · subst hks
        refine ⟨st, ?_⟩
        simp only [cut, List.map_nil, P_leaf, pairsT, if_true, List.append_nil]
        exact scan_flat _ _ hlab ..
      · have hks' : ks.map (cut 0) ≠ [] := by simpa using hks
        have hB : Flat (joinC ((ks.map (cut 0)).map P)) := by
          apply Flat_joinC
          intro x hx
          simp only [List.map_map, List.mem_map, Function.comp] at hx
          obtain ⟨k, hk, rfl⟩ := hx
          rw [P_cut0]
          have := AllT_self _ _ (ht.2 k hk)
          exact Flat_lab _ _ this.1
        refine ⟨i, ?_⟩
        simp only [cut, pairsT, if_neg hks, P_kids _ _ _ hks']
        rw [scan_cons, scan_open, scan_append, if_pos (by omega), scan_flat _ _ hB, scan_cons,
          scan_close, if_pos (by omega), scan_flat _ _ hlab]
        simp only [List.length_cons, List.length_append, List.map_map, Function.comp_def]
        congr 1 <;> omega
  | succ d ih =>
    intro t ht level c hl i st acc
    match t, ht with
    | .node id h ks, ht =>
      rw [AllT_node] at ht
      have hlab := Flat_lab id h ht.1.1
      by_cases hks : ks = []
      · subst hks
        refine ⟨st, ?_⟩
        simp only [cut, List.map_nil, P_leaf, pairsT, if_true, List.append_nil]
        exact scan_flat _ _ hlab ..
      · have hks' : ks.map (cut (d + 1)) ≠ [] := by simpa using hks
        obtain ⟨st', hs⟩ := scan_list level (c + 1) (pairsT d) (fun k => P (cut (d + 1) k)) ks
          (fun k hk => ih k (ht.2 k hk) level (c + 1) (by omega)) (i + 1) st acc
        refine ⟨st', ?_⟩
        rw [cut, P_kids _ _ _ hks']
        simp only [pairsT, if_neg hks, List.map_map, Function.comp_def]
        rw [scan_cons, scan_open, scan_append, if_neg (by omega), hs, scan_cons,
          scan_close, if_neg (by omega), scan_flat _ _ hlab]
        simp only [List.length_cons, List.length_append]
        congr 1 <;> omega

/-- the text after all levels deeper than `k + 1` have been excised -/
def F (k : Nat) (ts : List NTree) : List Char :=
  '(' :: (joinC (ts.map fun t => P (cut k t)) ++ [')', ';'])

theorem Flat_joinC_cut0 (ts : List NTree) (h : ∀ k ∈ ts, AllT WFn k) :
    Flat (joinC (ts.map fun t => P (cut 0 t))) := by
  apply Flat_joinC
  intro x hx
  simp only [List.mem_map] at hx
  obtain ⟨k, hk, rfl⟩ := hx
  rw [P_cut0]
  exact Flat_lab _ _ (AllT_self _ _ (h k hk)).1

theorem pairsAt_forest (d : Nat) (ts : List NTree) (h : ∀ k ∈ ts, AllT WFn k) :
    pairsAt (F (d + 1) ts) (d + 2)
      = pairsL (pairsT d) (fun k => (P (cut (d + 1) k)).length) 1 ts := by
  obtain ⟨st', hs⟩ := scan_list (d + 2) 1 (pairsT d) (fun k => P (cut (d + 1) k)) ts
    (fun k hk => scan_tree d k (h k hk) (d + 2) 1 (by omega)) 1 0 []
  rw [pairsAt_eq, F]
  show (scan (d + 2) ⟨0, 0, 0, []⟩ _).acc = _
  rw [scan_cons, scan_open, scan_append, if_neg (by omega), hs, scan_cons, scan_close,
    if_neg (by omega), scan_flat _ _ (by simp [Flat])]
  simp

theorem pairsAt_forest0 (ts : List NTree) (h : ∀ k ∈ ts, AllT WFn k) :
    pairsAt (F 0 ts) 1 = [(0, 1 + (joinC (ts.map fun t => P (cut 0 t))).length)] := by
  rw [pairsAt_eq, F]
  show (scan 1 ⟨0, 0, 0, []⟩ _).acc = _
  rw [scan_cons, scan_open, scan_append, if_pos (by omega), scan_flat _ _ (Flat_joinC_cut0 ts h),
    scan_cons, scan_close, if_pos (by omega), scan_flat _ _ (by simp [Flat])]
  simp

/-! ## splitting and the dict literal -/

theorem splitOnChar_ne_nil (c : Char) (s : List Char) : splitOnChar c s ≠ [] := by
  cases s with
  | nil => simp [splitOnChar]
  | cons x xs =>
    rw [splitOnChar]
    split
    · simp
    · split <;> simp

theorem splitOnChar_none (c : Char) (l : List Char) (hl : ∀ x ∈ l, x ≠ c) :
    splitOnChar c l = [l] := by
  induction l with
  | nil => rfl
  | cons x xs ih =>
    rw [splitOnChar, ih (fun y hy => hl y (by simp [hy]))]
    simp [hl x (by simp)]

theorem splitOnChar_append (c : Char) (l r : List Char) (hl : ∀ x ∈ l, x ≠ c) :
    splitOnChar c (l ++ c :: r) = l :: splitOnChar c r := by
  induction l with
  | nil =>
    rw [List.nil_append, splitOnChar]
    cases h : splitOnChar c r with
    | nil => exact absurd h (splitOnChar_ne_nil c r)
    | cons w ws => simp
  | cons x xs ih =>
    rw [List.cons_append, splitOnChar, ih (fun y hy => hl y (by simp [hy]))]
    simp [hl x (by simp)]

theorem splitOnChar_joinC (xs : List (List Char)) (hne : xs ≠ [])
    (h : ∀ x ∈ xs, ∀ c ∈ x, c ≠ ',') : splitOnChar ',' (joinC xs) = xs := by
  induction xs with
  | nil => exact absurd rfl hne
  | cons x r ih =>
    cases r with
    | nil => simpa [joinC] using splitOnChar_none ',' x (h x (by simp))
    | cons y r =>
      rw [joinC_cons2, splitOnChar_append _ _ _ (h x (by simp)),
        ih (by simp) (fun z hz => h z (by simp [hz]))]

theorem digits_ne_colon (i : Nat) : ∀ c ∈ (toString i).toList, c ≠ ':' := by
  intro c hc
  have := (toString_nat_digits i).1 c hc
  rintro rfl; revert this; decide

theorem digits_ne_comma (i : Nat) : ∀ c ∈ (toString i).toList, c ≠ ',' := by
  intro c hc
  have := (toString_nat_digits i).1 c hc
  rintro rfl; revert this; decide

theorem splitOnChar_lab (i : Nat) (h : String) (hc : ∀ c ∈ h.toList, c ≠ ':') :
    splitOnChar ':' (lab i h) = [(toString i).toList, h.toList] := by
  rw [lab, splitOnChar_append _ _ _ (digits_ne_colon i), splitOnChar_none _ _ hc]

/-- one entry of the dict literal -/
def dictStep (acc : List (Nat × String)) (e : List Char) : Option (List (Nat × String)) :=
  match splitOnChar ':' e with
  | [k, v] =>
    if v.isEmpty then none else
    (digitsToNat? k).map fun key =>
      if acc.any (fun kv => kv.1 == key) then
        acc.map (fun kv => if kv.1 == key then (key, String.ofList v) else kv)
      else acc ++ [(key, String.ofList v)]
  | _ => none

theorem readDict_eq (s : List Char) :
    readDict s = if s.isEmpty then some [] else (splitOnChar ',' s).foldlM dictStep [] := rfl

theorem dictStep_lab (acc : List (Nat × String)) (k : NTree) (hk : WFn k)
    (hacc : ∀ kv ∈ acc, kv.1 ≠ k.id) :
    dictStep acc (lab k.id k.height) = some (acc ++ [(k.id, k.height)]) := by
  have hany : acc.any (fun kv => kv.1 == k.id) = false := by
    rw [List.any_eq_false]
    intro kv hkv
    simpa using hacc kv hkv
  have hne : k.height.toList.isEmpty = false := by
    have := hk.1.1
    cases h : k.height.toList with
    | nil => exact absurd h this
    | cons _ _ => rfl
  simp only [dictStep, splitOnChar_lab _ _ hk.2.1, hne, digits_roundtrip, Option.map_some, hany,
    String.ofList_toList]
  simp

theorem dict_fold (ks : List NTree) (hks : ∀ k ∈ ks, WFn k) (hnd : (ks.map NTree.id).Nodup)
    (acc : List (Nat × String)) (hacc : ∀ kv ∈ acc, ∀ k ∈ ks, kv.1 ≠ k.id) :
    (ks.map fun k => lab k.id k.height).foldlM dictStep acc = some (acc ++ dictOf ks) := by
  induction ks generalizing acc with
  | nil => simp [dictOf]
  | cons k ks ih =>
    rw [List.map_cons, List.nodup_cons] at hnd
    rw [List.map_cons, List.foldlM_cons, dictStep_lab acc k (hks k (by simp))
      (fun kv hkv => hacc kv hkv k (by simp))]
    simp only [Option.bind_eq_bind, Option.bind_some]
    rw [ih (fun k' hk' => hks k' (by simp [hk'])) hnd.2]
    · simp [dictOf]
    · intro kv hkv k' hk'
      rw [List.mem_append] at hkv
      rcases hkv with hkv | hkv
      · exact hacc kv hkv k' (by simp [hk'])
      · simp only [List.mem_singleton] at hkv
        subst hkv
        intro e
        exact hnd.1 (by simp only [List.mem_map]; exact ⟨k', hk', e.symm⟩)

theorem lab_ne_nil (i : Nat) (h : String) : lab i h ≠ [] := by simp [lab]

theorem joinC_ne_nil (xs : List (List Char)) (hne : xs ≠ []) (h : ∀ x ∈ xs, x ≠ []) :
    joinC xs ≠ [] := by
  match xs, hne with
  | [x], _ => simpa [joinC] using h x (by simp)
  | x :: y :: r, _ => simp [joinC_cons2]

theorem readDict_leaves (ks : List NTree) (hks : ∀ k ∈ ks, WFn k) (hnd : (ks.map NTree.id).Nodup) :
    readDict (joinC (ks.map fun k => P (cut 0 k))) = some (dictOf ks) := by
  have e : (ks.map fun k => P (cut 0 k)) = ks.map fun k => lab k.id k.height := by
    simp [P_cut0]
  rw [e, readDict_eq]
  by_cases hne : ks = []
  · subst hne; simp [joinC, dictOf]
  · have h1 : (joinC (ks.map fun k => lab k.id k.height)).isEmpty = false := by
      have := joinC_ne_nil (ks.map fun k => lab k.id k.height) (by simpa using hne)
        (by intro x hx; simp only [List.mem_map] at hx; obtain ⟨k, _, rfl⟩ := hx; exact lab_ne_nil _ _)
      cases h : joinC (ks.map fun k => lab k.id k.height) with
      | nil => exact absurd h this
      | cons _ _ => rfl
    rw [h1, splitOnChar_joinC _ (by simpa using hne)]
    · simpa using dict_fold ks hks hnd [] (by simp)
    · intro x hx c hc
      simp only [List.mem_map] at hx
      obtain ⟨k, hk, rfl⟩ := hx
      rw [lab, List.mem_append, List.mem_cons] at hc
      rcases hc with hc | rfl | hc
      · exact digits_ne_comma _ c hc
      · decide
      · exact ((hks k hk).1.2 c hc).1

/-! ## one excision -/

def pstep (st : List Char × Items) (pr : Nat × Nat) : Option (List Char × Items) := do
    let s := st.1
    let (start, stop) := pr
    let idStr := match findFrom s ':' stop with
      | some c => slice s (stop + 1) c
      | none => slice s (stop + 1) (s.length - 1)
    let key ← if idStr.isEmpty then some none else (digitsToNat? idStr).map some
    let d ← readDict (slice s (start + 1) stop)
    pure (s.take start ++ s.drop (stop + 1), st.2.set key d)

theorem processLevel_eq (st : List Char × Items) (level : Nat) :
    processLevel st level = (pairsAt st.1 level).reverse.foldlM pstep st := rfl

theorem idxOf?_append_self (D post : List Char) (c : Char) (hD : ∀ x ∈ D, x ≠ c) :
    (D ++ c :: post).idxOf? c = some D.length := by
  induction D with
  | nil => simp [List.idxOf?_cons]
  | cons x xs ih =>
    rw [List.cons_append, List.idxOf?_cons, ih (fun y hy => hD y (by simp [hy]))]
    simp [hD x (by simp)]

theorem pstep_group (pre B post : List Char) (i : Nat) (dict : List (Nat × String)) (items : Items)
    (hB : readDict B = some dict) :
    pstep (pre ++ '(' :: (B ++ ')' :: ((toString i).toList ++ ':' :: post)), items)
        (pre.length, pre.length + 1 + B.length)
      = some (pre ++ ((toString i).toList ++ ':' :: post), items.set (some i) dict) := by
  generalize hD : (toString i).toList = D
  have hDne : D ≠ [] := hD ▸ (toString_nat_digits i).2
  have hDc : ∀ x ∈ D, x ≠ ':' := hD ▸ digits_ne_colon i
  have hDn : digitsToNat? D = some i := hD ▸ digits_roundtrip i
  have e1 : pre ++ '(' :: (B ++ ')' :: (D ++ ':' :: post))
      = (pre ++ '(' :: B) ++ ((')' :: D) ++ ':' :: post) := by simp
  have e2 : pre ++ '(' :: (B ++ ')' :: (D ++ ':' :: post))
      = ((pre ++ '(' :: B ++ [')']) ++ D) ++ (':' :: post) := by simp
  have e3 : pre ++ '(' :: (B ++ ')' :: (D ++ ':' :: post))
      = (pre ++ '(' :: B ++ [')']) ++ (D ++ ':' :: post) := by simp
  have e4 : pre ++ '(' :: (B ++ ')' :: (D ++ ':' :: post))
      = (pre ++ ['(']) ++ (B ++ ')' :: (D ++ ':' :: post)) := by simp
  have hfind : findFrom (pre ++ '(' :: (B ++ ')' :: (D ++ ':' :: post))) ':' (pre.length + 1 + B.length)
      = some (pre.length + 1 + B.length + 1 + D.length) := by
    rw [findFrom, e1, List.drop_left' (by simp; omega),
      idxOf?_append_self _ _ _ (by
        intro x hx; rw [List.mem_cons] at hx
        rcases hx with rfl | hx
        · decide
        · exact hDc x hx)]
    simp; omega
  have hid : slice (pre ++ '(' :: (B ++ ')' :: (D ++ ':' :: post))) (pre.length + 1 + B.length + 1)
      (pre.length + 1 + B.length + 1 + D.length) = D := by
    rw [slice, e2, List.take_left' (by simp; omega), List.drop_left' (by simp; omega)]
  have hdict : slice (pre ++ '(' :: (B ++ ')' :: (D ++ ':' :: post))) (pre.length + 1)
      (pre.length + 1 + B.length) = B := by
    rw [slice, e1, List.take_left' (by simp; omega)]
    have : pre ++ '(' :: B = (pre ++ ['(']) ++ B := by simp
    rw [this, List.drop_left' (by simp)]
  have htake : (pre ++ '(' :: (B ++ ')' :: (D ++ ':' :: post))).take pre.length = pre :=
    List.take_left' rfl
  have hdrop : (pre ++ '(' :: (B ++ ')' :: (D ++ ':' :: post))).drop (pre.length + 1 + B.length + 1)
      = D ++ ':' :: post := by
    rw [e3, List.drop_left' (by simp; omega)]
  have hDe : D.isEmpty = false := by
    cases D with
    | nil => exact absurd rfl hDne
    | cons _ _ => rfl
  simp only [pstep, hfind, hid, hdict, htake, hdrop, hDe, hDn, hB]
  rfl

theorem pstep_top (B : List Char) (dict : List (Nat × String)) (items : Items)
    (hB : readDict B = some dict) :
    pstep ('(' :: (B ++ [')', ';']), items) (0, 1 + B.length)
      = some ([';'], items.set none dict) := by
  have e1 : '(' :: (B ++ [')', ';']) = ('(' :: B) ++ [')', ';'] := by simp
  have e2 : '(' :: (B ++ [')', ';']) = ('(' :: B ++ [')']) ++ [';'] := by simp
  have hfind : findFrom ('(' :: (B ++ [')', ';'])) ':' (1 + B.length) = none := by
    rw [findFrom, e1, List.drop_left' (by simp; omega)]
    simp [List.idxOf?_cons]
  have hlen : ('(' :: (B ++ [')', ';'])).length - 1 = 1 + B.length + 1 := by simp; omega
  have hid : slice ('(' :: (B ++ [')', ';'])) (1 + B.length + 1) (1 + B.length + 1) = [] := by
    rw [slice, e2, List.take_left' (by simp; omega), List.drop_eq_nil_iff]
    simp; omega
  have hdict : slice ('(' :: (B ++ [')', ';'])) (0 + 1) (1 + B.length) = B := by
    rw [slice, e1, List.take_left' (by simp; omega)]
    simp
  have hdrop : ('(' :: (B ++ [')', ';'])).drop (1 + B.length + 1) = [';'] := by
    rw [e2, List.drop_left' (by simp; omega)]
  simp only [pstep, hfind, hlen, hid, hdict, hdrop, hB]
  rfl

/-! ## processing all pairs of one level -/

def setAll (es : List (Nat × List (Nat × String))) (items : Items) : Items :=
  es.foldl (fun it e => it.set (some e.1) e.2) items

theorem setAll_append (a b : List (Nat × List (Nat × String))) (items : Items) :
    setAll (a ++ b) items = setAll b (setAll a items) := by
  simp [setAll]

/-- branches whose children sit `d + 1` levels below the outside of `t`, in processing order -/
def entriesT : Nat → NTree → List (Nat × List (Nat × String))
  | 0, .node i _ ks => if ks = [] then [] else [(i, dictOf ks)]
  | d + 1, .node _ _ ks => ks.reverse.flatMap (entriesT d)

theorem proc_list (f : Nat → NTree → List (Nat × Nat)) (g g' : NTree → List Char)
    (e : NTree → List (Nat × List (Nat × String))) (ks : List NTree)
    (hk : ∀ k ∈ ks, ∀ pre post items,
      (f pre.length k).reverse.foldlM pstep (pre ++ (g k ++ post), items)
        = some (pre ++ (g' k ++ post), setAll (e k) items)) :
    ∀ pre post items,
      (pairsL f (fun k => (g k).length) pre.length ks).reverse.foldlM pstep
          (pre ++ (joinC (ks.map g) ++ post), items)
        = some (pre ++ (joinC (ks.map g') ++ post), setAll (ks.reverse.flatMap e) items) := by
  induction ks with
  | nil => intro pre post items; simp [pairsL, joinC, setAll]
  | cons t ts ih =>
    intro pre post items
    cases ts with
    | nil =>
      have := hk t (by simp) pre post items
      simpa [pairsL, joinC] using this
    | cons u ts =>
      have hlen : pre.length + (g t).length + 1 = (pre ++ (g t ++ [','])).length := by
        simp; omega
      have ih' := ih (fun k hk' => hk k (by simp [hk'])) (pre ++ (g t ++ [','])) post items
      have ht := hk t (by simp) pre (',' :: (joinC ((u :: ts).map g') ++ post))
        (setAll ((u :: ts).reverse.flatMap e) items)
      rw [pairsL, List.reverse_append, List.foldlM_append]
      simp only [List.map_cons, joinC_cons2] at ih' ⊢
      rw [hlen]
      have e1 : pre ++ (g t ++ ',' :: joinC (g u :: ts.map g) ++ post)
          = pre ++ (g t ++ [',']) ++ (joinC (g u :: ts.map g) ++ post) := by simp
      rw [e1, ih']
      simp only [Option.bind_eq_bind, Option.bind_some]
      have e2 : pre ++ (g t ++ [',']) ++ (joinC (g' u :: ts.map g') ++ post)
          = pre ++ (g t ++ ',' :: (joinC (g' u :: ts.map g') ++ post)) := by simp
      rw [e2]
      simp only [List.map_cons] at ht
      rw [ht]
      simp only [List.reverse_cons, List.flatMap_append, List.flatMap_cons, List.flatMap_nil,
        List.append_nil, setAll_append, List.append_assoc, List.cons_append]
      rfl

theorem proc_tree (d : Nat) : ∀ (t : NTree), AllT WFn t → ∀ pre post items,
    (pairsT d pre.length t).reverse.foldlM pstep (pre ++ (P (cut (d + 1) t) ++ post), items)
      = some (pre ++ (P (cut d t) ++ post), setAll (entriesT d t) items) := by
  induction d with
  | zero =>
    intro t ht pre post items
    match t, ht with
    | .node id h ks, ht =>
      rw [AllT_node] at ht
      by_cases hks : ks = []
      · subst hks
        simp [pairsT, cut, entriesT, setAll]
      · have hks' : ks.map (cut 0) ≠ [] := by simpa using hks
        have hrd := readDict_leaves ks (fun k hk => AllT_self _ _ (ht.2 k hk)) ht.1.2.2
        have := pstep_group pre (joinC (ks.map fun k => P (cut 0 k))) (h.toList ++ post) id
          (dictOf ks) items hrd
        simp only [pairsT, if_neg hks, cut, P_kids _ _ _ hks', P_leaf, entriesT, List.map_map,
          Function.comp_def, List.reverse_cons, List.reverse_nil, List.nil_append,
          List.foldlM_cons, List.foldlM_nil, lab, List.append_assoc, List.cons_append]
        rw [this]
        rfl
  | succ d ih =>
    intro t ht pre post items
    match t, ht with
    | .node id h ks, ht =>
      rw [AllT_node] at ht
      by_cases hks : ks = []
      · subst hks
        simp [pairsT, cut, entriesT, setAll]
      · have hks1 : ks.map (cut (d + 1)) ≠ [] := by simpa using hks
        have hks2 : ks.map (cut d) ≠ [] := by simpa using hks
        have := proc_list (pairsT d) (fun k => P (cut (d + 1) k)) (fun k => P (cut d k))
          (entriesT d) ks (fun k hk => ih k (ht.2 k hk)) (pre ++ ['(']) (')' :: (lab id h ++ post))
          items
        rw [cut, cut, P_kids _ _ _ hks1, P_kids _ _ _ hks2]
        simp only [pairsT, if_neg hks, entriesT, List.map_map, Function.comp_def]
        simp only [List.length_append, List.length_cons, List.length_nil, List.append_assoc,
          List.cons_append, List.nil_append] at this ⊢
        exact this

theorem processLevel_forest (d : Nat) (ts : List NTree) (h : ∀ k ∈ ts, AllT WFn k) (items : Items) :
    processLevel (F (d + 1) ts, items) (d + 2)
      = some (F d ts, setAll (ts.reverse.flatMap (entriesT d)) items) := by
  rw [processLevel_eq]
  simp only []
  rw [pairsAt_forest d ts h]
  have := proc_list (pairsT d) (fun k => P (cut (d + 1) k)) (fun k => P (cut d k))
    (entriesT d) ts (fun k hk => proc_tree d k (h k hk)) ['('] [')', ';'] items
  simpa [F] using this

theorem processLevel_forest0 (ts : List NTree) (h : ∀ k ∈ ts, AllT WFn k)
    (hnd : (ts.map NTree.id).Nodup) (items : Items) :
    processLevel (F 0 ts, items) 1 = some ([';'], items.set none (dictOf ts)) := by
  rw [processLevel_eq]
  simp only []
  rw [pairsAt_forest0 ts h]
  have hrd := readDict_leaves ts (fun k hk => AllT_self _ _ (h k hk)) hnd
  have := pstep_top _ _ items hrd
  simp only [List.reverse_cons, List.reverse_nil, List.nil_append, List.foldlM_cons,
    List.foldlM_nil, F]
  rw [this]
  rfl

/-- all branch entries of levels `n + 1, …, 2`, in processing order -/
def allE : Nat → List NTree → List (Nat × List (Nat × String))
  | 0, _ => []
  | n + 1, ts => ts.reverse.flatMap (entriesT n) ++ allE n ts

theorem levels_fold (ts : List NTree) (h : ∀ k ∈ ts, AllT WFn k) (hnd : (ts.map NTree.id).Nodup)
    (n : Nat) : ∀ items,
    (List.range' 1 (n + 1)).reverse.foldlM processLevel (F n ts, items)
      = some ([';'], (setAll (allE n ts) items).set none (dictOf ts)) := by
  induction n with
  | zero =>
    intro items
    simp only [Nat.zero_add, List.range'_one, List.reverse_cons, List.reverse_nil, List.nil_append,
      List.foldlM_cons, List.foldlM_nil]
    rw [processLevel_forest0 ts h hnd]
    rfl
  | succ n ih =>
    intro items
    rw [List.range'_concat, List.reverse_append]
    simp only [List.reverse_cons, List.reverse_nil, List.nil_append, List.cons_append,
      List.foldlM_cons]
    rw [show 1 + 1 * (n + 1) = n + 2 by omega, processLevel_forest n ts h]
    simp only [Option.bind_eq_bind, Option.bind_some]
    rw [ih, allE, setAll_append]

/-! ## nesting depth -/

mutual
def depthT : NTree → Nat
  | .node _ _ ks => depthL ks
def depthL : List NTree → Nat
  | [] => 0
  | t :: ts => max (depthT t + 1) (depthL ts)
end

theorem depthL_pos (ks : List NTree) (h : ks ≠ []) : 1 ≤ depthL ks := by
  cases ks with
  | nil => exact absurd rfl h
  | cons t ts => rw [depthL]; omega

def mstep (st : Nat × Nat) (c : Char) : Nat × Nat :=
  let cur := if c = '(' then st.1 + 1 else st.1
  let cur := if c = ')' then cur - 1 else cur
  (cur, max st.2 cur)

theorem maxLevel_eq (s : List Char) : maxLevel s = (s.foldl mstep (0, 0)).2 := rfl

theorem mscan_flat (s : List Char) (hs : Flat s) (c mx : Nat) (h : c ≤ mx) :
    s.foldl mstep (c, mx) = (c, mx) := by
  induction s with
  | nil => rfl
  | cons x xs ih =>
    have hx := (Flat_cons.1 hs).1
    rw [List.foldl_cons]
    have : mstep (c, mx) x = (c, mx) := by
      simp only [mstep, hx.1, hx.2, if_false]
      congr 1; omega
    rw [this, ih (Flat_cons.1 hs).2]

theorem mstep_open (c mx : Nat) : mstep (c, mx) '(' = (c + 1, max mx (c + 1)) := by
  simp [mstep]

theorem mstep_close (c mx : Nat) : mstep (c, mx) ')' = (c - 1, max mx (c - 1)) := by
  simp [mstep]

mutual
theorem mscanT (t : NTree) (ht : AllT WFn t) (c mx : Nat) (h : c ≤ mx) :
    (P t).foldl mstep (c, mx) = (c, max mx (c + depthT t)) := by
  match t, ht with
  | .node i hh ks, ht =>
    rw [AllT] at ht
    have hlab := Flat_lab i hh ht.1.1
    match ks, ht with
    | [], _ =>
      rw [P_leaf, mscan_flat _ hlab _ _ h, depthT, depthL]
      congr 1; omega
    | k :: ks', ht =>
      have := mscanL (k :: ks') ht.2 c (max mx (c + 1)) (by omega)
      have hp := depthL_pos (k :: ks') (by simp)
      rw [P_kids _ _ _ (by simp), List.foldl_cons, mstep_open, List.foldl_append, this,
        List.foldl_cons, mstep_close, mscan_flat _ hlab _ _ (by omega), depthT]
      congr 1; omega
theorem mscanL (ts : List NTree) (hts : AllL WFn ts) (c mx : Nat) (h : c + 1 ≤ mx) :
    (joinC (ts.map P)).foldl mstep (c + 1, mx) = (c + 1, max mx (c + depthL ts)) := by
  match ts, hts with
  | [], _ =>
    simp only [List.map_nil, joinC, List.foldl_nil, depthL]
    congr 1; omega
  | [t], hts =>
    rw [AllL] at hts
    simp only [List.map_cons, List.map_nil, joinC]
    rw [mscanT t hts.1 _ _ h, depthL, depthL]
    congr 1; omega
  | t :: u :: ts', hts =>
    rw [AllL] at hts
    rw [List.map_cons, List.map_cons, joinC_cons2, List.foldl_append, mscanT t hts.1 _ _ h,
      List.foldl_cons]
    have : mstep (c + 1, max mx (c + 1 + depthT t)) ',' = (c + 1, max mx (c + 1 + depthT t)) := by
      simp only [mstep]
      simp only [show (',' = '(') = False by decide, show (',' = ')') = False by decide, if_false]
      congr 1; omega
    rw [this]
    have ih := mscanL (u :: ts') hts.2 c (max mx (c + 1 + depthT t)) (by omega)
    rw [List.map_cons] at ih
    rw [ih, show depthL (t :: u :: ts') = max (depthT t + 1) (depthL (u :: ts')) by rw [depthL]]
    congr 1; omega
end

theorem maxLevel_printForest (ts : List NTree) (hts : AllL WFn ts) :
    maxLevel (printForest ts).toList = max 1 (depthL ts) := by
  rw [maxLevel_eq, printForest_eq, List.foldl_cons, mstep_open, List.foldl_append,
    mscanL ts hts 0 _ (by omega), List.foldl_cons, mstep_close,
    mscan_flat _ (by simp [Flat]) _ _ (by omega)]
  simp only; omega

mutual
theorem cutT_id (t : NTree) (k : Nat) (h : depthT t ≤ k) : cut k t = t := by
  match t, k, h with
  | .node i hh ks, 0, h =>
    rw [depthT] at h
    cases ks with
    | nil => rfl
    | cons a b => have := depthL_pos (a :: b) (by simp); omega
  | .node i hh ks, k + 1, h =>
    rw [depthT] at h
    rw [cut, cutL_id ks k h]
theorem cutL_id (ts : List NTree) (k : Nat) (h : depthL ts ≤ k + 1) : ts.map (cut k) = ts := by
  match ts, h with
  | [], _ => rfl
  | t :: ts', h =>
    rw [depthL] at h
    rw [List.map_cons, cutT_id t k (by omega), cutL_id ts' k (by omega)]
end

/-! ## the branch table -/

def lookup (items : Items) (k : Option Nat) : Option (Option Nat × List (Nat × String)) :=
  items.find? (fun e => e.1 == k)

theorem find?_map_set (items : Items) (k k' : Option Nat) (d : List (Nat × String)) :
    (items.map (fun kv => if kv.1 == k then (k, d) else kv)).find? (fun e => e.1 == k')
      = if k = k' then (items.find? (fun e => e.1 == k)).map (fun _ => (k, d))
        else items.find? (fun e => e.1 == k') := by
  induction items with
  | nil => simp
  | cons e es ih =>
    have bf : ∀ {a b : Option Nat}, ¬ a = b → (a == b) = false := fun h => by simpa using h
    rw [List.map_cons, List.find?_cons, ih]
    by_cases he : e.1 = k
    · by_cases hk : k = k'
      · subst hk; simp [he]
      · simp [he, hk, bf hk]
    · by_cases hk : k = k'
      · subst hk; simp [bf he]
      · by_cases hek : e.1 = k'
        · have : ¬ k' = k := fun h => hk h.symm
          simp [hk, hek, this]
        · simp [hk, bf he, bf hek]

theorem lookup_set (items : Items) (k k' : Option Nat) (d : List (Nat × String)) :
    lookup (items.set k d) k' = if k = k' then some (k, d) else lookup items k' := by
  unfold Items.set lookup
  by_cases hany : items.any (fun kv => kv.1 == k) = true
  · rw [if_pos hany, find?_map_set]
    by_cases hk : k = k'
    · subst hk
      rw [if_pos rfl, if_pos rfl]
      obtain ⟨e, he, hek⟩ := List.any_eq_true.1 hany
      cases hf : items.find? (fun e => e.1 == k) with
      | none =>
        rw [List.find?_eq_none] at hf
        exact absurd hek (hf e he)
      | some x => rfl
    · rw [if_neg hk, if_neg hk]
  · rw [if_neg hany, List.find?_append]
    have hnone : ∀ e ∈ items, e.1 ≠ k := by
      intro e he hk
      exact hany (List.any_eq_true.2 ⟨e, he, by simpa using hk⟩)
    by_cases hk : k = k'
    · subst hk
      have : items.find? (fun e => e.1 == k) = none := by
        rw [List.find?_eq_none]; intro e he; simpa using hnone e he
      simp [this]
    · simp [hk]

theorem lookup_setAll_cases (es : List (Nat × List (Nat × String))) (k : Nat) : ∀ (items : Items),
    (∃ d', (k, d') ∈ es ∧ lookup (setAll es items) (some k) = some (some k, d')) ∨
    ((∀ e ∈ es, e.1 ≠ k) ∧ lookup (setAll es items) (some k) = lookup items (some k)) := by
  induction es with
  | nil => intro items; right; exact ⟨by simp, rfl⟩
  | cons e es ih =>
    intro items
    have hs : setAll (e :: es) items = setAll es (items.set (some e.1) e.2) := rfl
    rw [hs]
    rcases ih (items.set (some e.1) e.2) with ⟨d', hm, hl⟩ | ⟨hn, hl⟩
    · left; exact ⟨d', by simp [hm], hl⟩
    · rw [lookup_set] at hl
      by_cases hk : e.1 = k
      · left
        refine ⟨e.2, ?_, ?_⟩
        · rw [← hk]; simp
        · rw [hl, if_pos (by rw [hk]), hk]
      · right
        refine ⟨?_, ?_⟩
        · intro e' he'
          rw [List.mem_cons] at he'
          rcases he' with rfl | he'
          · exact hk
          · exact hn e' he'
        · rw [hl, if_neg (by simpa using hk)]

/-! ## all nodes -/

mutual
def nodesT : NTree → List NTree
  | .node i h ks => .node i h ks :: nodesL ks
def nodesL : List NTree → List NTree
  | [] => []
  | t :: ts => nodesT t ++ nodesL ts
end

theorem nodesT_eq (t : NTree) : nodesT t = t :: nodesL t.kids := by
  cases t; rw [nodesT]; rfl

theorem mem_nodesL_of_mem (ks : List NTree) (k : NTree) (hk : k ∈ ks) (n : NTree)
    (hn : n ∈ nodesT k) : n ∈ nodesL ks := by
  induction ks with
  | nil => simp at hk
  | cons t ts ih =>
    rw [nodesL, List.mem_append]
    rw [List.mem_cons] at hk
    rcases hk with rfl | hk
    · exact Or.inl hn
    · exact Or.inr (ih hk)

theorem mem_nodesL (ks : List NTree) (n : NTree) : n ∈ nodesL ks ↔ ∃ k ∈ ks, n ∈ nodesT k := by
  induction ks with
  | nil => simp [nodesL]
  | cons t ts ih => simp [nodesL, ih]

mutual
theorem ntree_indT {motive : NTree → Prop}
    (hstep : ∀ i h ks, (∀ k ∈ ks, motive k) → motive (.node i h ks)) : (t : NTree) → motive t
  | .node i h ks => hstep i h ks (ntree_indL hstep ks)
theorem ntree_indL {motive : NTree → Prop}
    (hstep : ∀ i h ks, (∀ k ∈ ks, motive k) → motive (.node i h ks)) :
    (ks : List NTree) → ∀ k ∈ ks, motive k
  | [] => by simp
  | t :: ts => by
    intro k hk
    rw [List.mem_cons] at hk
    rcases hk with rfl | hk
    · exact ntree_indT hstep k
    · exact ntree_indL hstep ts k hk
end

/-- induction on printable trees with the hypothesis for all children -/
theorem ntree_ind {motive : NTree → Prop}
    (hstep : ∀ i h ks, (∀ k ∈ ks, motive k) → motive (.node i h ks)) (t : NTree) : motive t :=
  ntree_indT hstep t

theorem depthT_lt_depthL (l : List NTree) (k : NTree) (hl : k ∈ l) : depthT k + 1 ≤ depthL l := by
  induction l with
  | nil => simp at hl
  | cons a b ihb =>
    rw [depthL]
    rw [List.mem_cons] at hl
    rcases hl with rfl | hl
    · omega
    · have := ihb hl; omega

theorem AllT_of_nodes (p : NTree → Prop) (t : NTree) : (∀ n ∈ nodesT t, p n) → AllT p t := by
  induction t using ntree_ind with
  | hstep i h ks ih =>
    intro hn
    rw [AllT_node]
    refine ⟨hn _ (by simp [nodesT]), fun k hk => ih k hk (fun n hnk => hn n ?_)⟩
    rw [nodesT, List.mem_cons]
    exact Or.inr (mem_nodesL_of_mem ks k hk n hnk)

theorem kids_sublist (ks : List NTree) : List.Sublist ks (nodesL ks) := by
  induction ks with
  | nil => exact List.Sublist.slnil
  | cons t ts ih =>
    rw [nodesL, nodesT_eq, List.cons_append]
    exact List.Sublist.cons_cons _ (List.sublist_append_of_sublist_right ih)

theorem nodesT_sublist (ks : List NTree) (k : NTree) (hk : k ∈ ks) :
    List.Sublist (nodesT k) (nodesL ks) := by
  induction ks with
  | nil => simp at hk
  | cons t ts ih =>
    rw [nodesL]
    rw [List.mem_cons] at hk
    rcases hk with rfl | hk
    · exact List.sublist_append_left _ _
    · exact List.sublist_append_of_sublist_right (ih hk)

theorem kids_nodup (t : NTree) : ((nodesT t).map NTree.id).Nodup →
    ∀ n ∈ nodesT t, (n.kids.map NTree.id).Nodup := by
  induction t using ntree_ind with
  | hstep i h ks ih =>
    intro hnd n hn
    rw [nodesT, List.map_cons, List.nodup_cons] at hnd
    rw [nodesT, List.mem_cons] at hn
    rcases hn with rfl | hn
    · exact List.Nodup.sublist ((kids_sublist ks).map _) hnd.2
    · obtain ⟨k, hk, hnk⟩ := (mem_nodesL ks n).1 hn
      exact ih k hk (List.Nodup.sublist ((nodesT_sublist ks k hk).map _) hnd.2) n hnk

theorem GoodL_iff (ks : List NTree) : GoodL ks ↔ ∀ k ∈ ks, GoodT k := by
  induction ks with
  | nil => simp [GoodL]
  | cons t ts ih => simp [GoodL, ih]

theorem good_nodes (t : NTree) : GoodT t → ∀ n ∈ nodesT t, GoodH n.height := by
  induction t using ntree_ind with
  | hstep i h ks ih =>
    intro hg n hn
    rw [GoodT, GoodL_iff] at hg
    rw [nodesT, List.mem_cons] at hn
    rcases hn with rfl | hn
    · exact hg.1
    · obtain ⟨k, hk, hnk⟩ := (mem_nodesL ks n).1 hn
      exact ih k hk (hg.2 k hk) n hnk

/-- soundness of the branch entries -/
theorem entriesT_sound (d : Nat) : ∀ (t : NTree) e, e ∈ entriesT d t →
    ∃ n ∈ nodesT t, n.kids ≠ [] ∧ e = (n.id, dictOf n.kids) := by
  induction d with
  | zero =>
    intro t e he
    match t, he with
    | .node i h ks, he =>
      rw [entriesT] at he
      split at he
      · simp at he
      · rename_i hks
        rw [List.mem_singleton] at he
        exact ⟨.node i h ks, by simp [nodesT], hks, he⟩
  | succ d ih =>
    intro t e he
    match t, he with
    | .node i h ks, he =>
      rw [entriesT, List.mem_flatMap] at he
      obtain ⟨k, hk, hek⟩ := he
      rw [List.mem_reverse] at hk
      obtain ⟨n, hn, hne, rfl⟩ := ih k e hek
      refine ⟨n, ?_, hne, rfl⟩
      rw [nodesT, List.mem_cons]
      exact Or.inr (mem_nodesL_of_mem ks k hk n hn)

/-- completeness of the branch entries -/
theorem entriesT_complete (t : NTree) : ∀ n ∈ nodesT t, n.kids ≠ [] →
    ∃ d, d + 1 ≤ depthT t ∧ (n.id, dictOf n.kids) ∈ entriesT d t := by
  induction t using ntree_ind with
  | hstep i h ks ih =>
    intro n hn hne
    rw [nodesT, List.mem_cons] at hn
    rcases hn with rfl | hn
    · refine ⟨0, ?_, ?_⟩
      · rw [depthT]; exact depthL_pos ks hne
      · have hne' : ks ≠ [] := hne
        rw [entriesT, if_neg hne']; simp [NTree.id, NTree.kids]
    · obtain ⟨k, hk, hnk⟩ := (mem_nodesL ks n).1 hn
      obtain ⟨d, hd, hm⟩ := ih k hk n hnk hne
      refine ⟨d + 1, ?_, ?_⟩
      · rw [depthT]; have := depthT_lt_depthL ks k hk; omega
      · rw [entriesT, List.mem_flatMap]
        exact ⟨k, List.mem_reverse.2 hk, hm⟩

theorem mem_allE (n d : Nat) (ts : List NTree) (hd : d < n) (e : Nat × List (Nat × String))
    (he : e ∈ ts.reverse.flatMap (entriesT d)) : e ∈ allE n ts := by
  induction n with
  | zero => omega
  | succ n ih =>
    rw [allE, List.mem_append]
    by_cases h : d = n
    · subst h; exact Or.inl he
    · exact Or.inr (ih (by omega))

theorem allE_sound (n : Nat) (ts : List NTree) (e : Nat × List (Nat × String)) (he : e ∈ allE n ts) :
    ∃ m ∈ nodesL ts, m.kids ≠ [] ∧ e = (m.id, dictOf m.kids) := by
  induction n with
  | zero => simp [allE] at he
  | succ n ih =>
    rw [allE, List.mem_append] at he
    rcases he with he | he
    · rw [List.mem_flatMap] at he
      obtain ⟨k, hk, hek⟩ := he
      rw [List.mem_reverse] at hk
      obtain ⟨m, hm, hne, rfl⟩ := entriesT_sound n k e hek
      exact ⟨m, mem_nodesL_of_mem ts k hk m hm, hne, rfl⟩
    · exact ih he

theorem allE_complete (ts : List NTree) (m : NTree) (hm : m ∈ nodesL ts) (hne : m.kids ≠ []) (n : Nat)
    (hn : depthL ts ≤ n + 1) : (m.id, dictOf m.kids) ∈ allE n ts := by
  obtain ⟨k, hk, hmk⟩ := (mem_nodesL ts m).1 hm
  obtain ⟨d, hd, he⟩ := entriesT_complete k m hmk hne
  have := depthT_lt_depthL ts k hk
  apply mem_allE n d ts (by omega)
  rw [List.mem_flatMap]
  exact ⟨k, List.mem_reverse.2 hk, he⟩

theorem eq_of_nodup_map_id (l : List NTree) (h : (l.map NTree.id).Nodup) (a b : NTree)
    (ha : a ∈ l) (hb : b ∈ l) (e : a.id = b.id) : a = b := by
  induction l with
  | nil => simp at ha
  | cons x xs ih =>
    rw [List.map_cons, List.nodup_cons] at h
    rw [List.mem_cons] at ha hb
    rcases ha with rfl | ha <;> rcases hb with rfl | hb
    · rfl
    · exact absurd (List.mem_map.2 ⟨b, hb, e.symm⟩) h.1
    · exact absurd (List.mem_map.2 ⟨a, ha, e⟩) h.1
    · exact ih h.2 ha hb

/-- what the table must say about a node for `collect` to rebuild it -/
def Spec (items : Items) (n : NTree) : Prop :=
  lookup items (some n.id) = if n.kids = [] then none else some (some n.id, dictOf n.kids)

theorem spec_final (ts : List NTree) (hids : ((nodesL ts).map NTree.id).Nodup) (n : Nat)
    (hn : depthL ts ≤ n + 1) (m : NTree) (hm : m ∈ nodesL ts) :
    Spec ((setAll (allE n ts) []).set none (dictOf ts)) m := by
  unfold Spec
  rw [lookup_set, if_neg (by simp)]
  rcases lookup_setAll_cases (allE n ts) m.id [] with ⟨d', hmem, hl⟩ | ⟨hno, hl⟩
  · obtain ⟨m', hm', hne, he⟩ := allE_sound n ts _ hmem
    simp only [Prod.mk.injEq] at he
    have : m = m' := eq_of_nodup_map_id _ hids m m' hm hm' he.1
    subst this
    rw [hl, if_neg hne, he.2]
  · by_cases hk : m.kids = []
    · rw [hl, if_pos hk]; rfl
    · exact absurd rfl (hno _ (allE_complete ts m hm hk n hn))

theorem cut0_eq (t : NTree) : cut 0 t = .node t.id t.height [] := by
  cases t; rfl

theorem collect_eq (items : Items) (fuel : Nat) : ∀ (ts : List NTree),
    (∀ t ∈ ts, AllT (Spec items) t) → collect items fuel (dictOf ts) = ts.map (cut fuel) := by
  induction fuel with
  | zero =>
    intro ts _
    simp [collect, dictOf, cut0_eq]
  | succ fuel ih =>
    intro ts hts
    rw [collect, dictOf, List.map_map]
    apply List.map_congr_left
    intro t ht
    match t, hts t ht with
    | .node i h ks, hs =>
      rw [AllT_node] at hs
      have h1 : lookup items (some i) = if ks = [] then none else some (some i, dictOf ks) := hs.1
      simp only [Function.comp, NTree.id, NTree.height]
      show (match lookup items (some i) with
        | some e => NTree.node i h (collect items fuel e.2)
        | none => NTree.node i h []) = _
      rw [h1]
      by_cases hk : ks = []
      · subst hk; simp [cut]
      · simp only [if_neg hk]
        rw [ih ks hs.2, cut]

/-- 5. the step-by-step model of `parse_newick` reads back every printed forest whose identifiers are
    pairwise distinct and whose height texts are well formed and contain no `':'` -/
theorem _root_.parseImpl_print (ts : List NTree) (h : GoodL ts)
    (hids : ((nodesL ts).map NTree.id).Nodup)
    (hcolon : ∀ n ∈ nodesL ts, ∀ c ∈ n.height.toList, c ≠ ':') :
    parseImpl (printForest ts) = some ts := by
  have hW : ∀ n ∈ nodesL ts, WFn n := by
    intro n hn
    obtain ⟨k, hk, hnk⟩ := (mem_nodesL ts n).1 hn
    refine ⟨good_nodes k ((GoodL_iff ts).1 h k hk) n hnk, hcolon n hn, ?_⟩
    exact kids_nodup k (List.Nodup.sublist ((nodesT_sublist ts k hk).map _) hids) n hnk
  have hA : ∀ k ∈ ts, AllT WFn k := fun k hk =>
    AllT_of_nodes _ k (fun n hn => hW n (mem_nodesL_of_mem ts k hk n hn))
  have hAL : AllL WFn ts := (AllL_iff _ _).2 hA
  have hroot : (ts.map NTree.id).Nodup := List.Nodup.sublist ((kids_sublist ts).map _) hids
  obtain ⟨n, hn⟩ : ∃ n, max 1 (depthL ts) = n + 1 := ⟨max 1 (depthL ts) - 1, by omega⟩
  have hF : (printForest ts).toList = F n ts := by
    rw [printForest_eq, F]
    have : (ts.map fun t => P (cut n t)) = (ts.map (cut n)).map P := by simp
    rw [this, cutL_id ts n (by omega)]
  have hS : ∀ t ∈ ts, AllT (Spec ((setAll (allE n ts) []).set none (dictOf ts))) t := fun t ht =>
    AllT_of_nodes _ t (fun m hm =>
      spec_final ts hids n (by omega) m (mem_nodesL_of_mem ts t ht m hm))
  unfold parseImpl
  simp only []
  rw [maxLevel_printForest ts hAL, hn, hF, levels_fold ts hA hroot n []]
  simp only [Option.bind_eq_bind, Option.bind_some]
  have hfind : ((setAll (allE n ts) []).set none (dictOf ts)).find? (fun e => e.1 == none)
      = some (none, dictOf ts) := by
    have := lookup_set (setAll (allE n ts) []) none none (dictOf ts)
    rwa [if_pos rfl] at this
  rw [hfind]
  simp only [Option.bind_some]
  rw [collect_eq _ _ ts hS, cutL_id ts (n + 1) (by omega)]
  rfl

mutual
theorem toNTree_nodes_ids (val : Nat → Int) (fb : Nat) : (t : Tree) →
    (nodesT (toNTree val fb t)).map NTree.id = (Tree.pre t).map Tree.id
  | .node i o ks => by
    rw [toNTree, nodesT, Tree.pre, List.map_cons, List.map_cons, toNTreeL_nodes_ids val fb ks]
    rfl
theorem toNTreeL_nodes_ids (val : Nat → Int) (fb : Nat) : (ts : List Tree) →
    (nodesL (toNTreeL val fb ts)).map NTree.id = (Tree.preL ts).map Tree.id
  | [] => by rw [toNTreeL, nodesL, Tree.preL]; rfl
  | t :: ts => by
    rw [toNTreeL, nodesL, Tree.preL, List.map_append, List.map_append,
      toNTree_nodes_ids val fb t, toNTreeL_nodes_ids val fb ts]
end

mutual
theorem toNTree_nodes_heights (val : Nat → Int) (fb : Nat) : (t : Tree) →
    ∀ n ∈ nodesT (toNTree val fb t), ∃ k, n.height = fmt3 k fb
  | .node i o ks => by
    intro n hn
    rw [toNTree, nodesT, List.mem_cons] at hn
    rcases hn with rfl | hn
    · exact ⟨_, rfl⟩
    · exact toNTreeL_nodes_heights val fb ks n hn
theorem toNTreeL_nodes_heights (val : Nat → Int) (fb : Nat) : (ts : List Tree) →
    ∀ n ∈ nodesL (toNTreeL val fb ts), ∃ k, n.height = fmt3 k fb
  | [] => by intro n hn; rw [toNTreeL, nodesL] at hn; simp at hn
  | t :: ts => by
    intro n hn
    rw [toNTreeL, nodesL, List.mem_append] at hn
    rcases hn with hn | hn
    · exact toNTree_nodes_heights val fb t n hn
    · exact toNTreeL_nodes_heights val fb ts n hn
end

/-- on the text written for a forest of structures with pairwise distinct identifiers, the
    step-by-step model of `parse_newick` returns the printable forest (and so agrees with
    `parseDescent`, see `parseDescent_toNewick`) -/
theorem _root_.parseImpl_toNewick (val : Nat → Int) (fb : Nat) (f : List Tree)
    (hids : ((nodes f).map Tree.id).Nodup) :
    parseImpl (toNewick val fb f) = some (toNTreeL val fb f) := by
  apply parseImpl_print _ (toNTreeL_good val fb f)
  · rw [toNTreeL_nodes_ids]; exact hids
  · intro n hn c hc
    obtain ⟨k, hk⟩ := toNTreeL_nodes_heights val fb f n hn
    rw [hk] at hc
    exact fmt3_no_colon k fb c hc

end NewickPf
