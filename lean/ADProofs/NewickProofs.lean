import ADModel
/-!
# ADProofs.NewickProofs — the textual tree encoding round-trips (property C09)

* `digits_roundtrip`, `toString_nat_digits` : decimal identifiers read back
* `parseDescent_print` : the reference recursive-descent parser inverts `printForest` on every
  forest whose height texts are well formed (`GoodL`)
* `printForest_injective` : the writer is injective on such forests
* `fmt3_good` : `%.3f` texts are well formed, hence `parseDescent_toNewick`
-/

/-! ## well-formed height texts -/

def GoodH (h : String) : Prop :=
  h.toList ≠ [] ∧ ∀ c ∈ h.toList, c ≠ ',' ∧ c ≠ ')' ∧ c ≠ '(' ∧ c ≠ ';'
mutual
def GoodT : NTree → Prop
  | .node _ h ks => GoodH h ∧ GoodL ks
def GoodL : List NTree → Prop
  | [] => True
  | t :: ts => GoodT t ∧ GoodL ts
end


/-! ## 1. decimal identifiers -/

theorem digitsFold_of_digits (l : List Char) (hl : ∀ c ∈ l, c.isDigit = true) (init : Nat) :
    l.foldl (fun (acc : Option Nat) c => acc.bind fun n => if c.isDigit then some (n * 10 + (c.toNat - '0'.toNat)) else none) (some init)
      = some (Nat.ofDigitChars 10 l init) := by
  induction l generalizing init with
  | nil => simp
  | cons c cs ih =>
    have hc := hl c (by simp)
    simp only [List.foldl_cons, Option.bind_some, hc, if_true]
    rw [ih (fun c h => hl c (by simp [h])), Nat.ofDigitChars_cons, Nat.mul_comm]

theorem toString_nat_toList (n : Nat) : (toString n).toList = Nat.toDigits 10 n := by
  simp

theorem toString_nat_digits (n : Nat) :
    (∀ c ∈ (toString n).toList, c.isDigit = true) ∧ (toString n).toList ≠ [] := by
  rw [toString_nat_toList]
  exact ⟨fun c hc => Nat.isDigit_of_mem_toDigits (by decide) (by decide) hc, Nat.toDigits_ne_nil⟩

theorem digits_roundtrip (n : Nat) : digitsToNat? (toString n).toList = some n := by
  have h := toString_nat_digits n
  unfold digitsToNat?
  rw [if_neg (by simp), digitsFold_of_digits _ h.1, toString_nat_toList,
    Nat.ofDigitChars_ten_toDigits]

/-! ## 2. the recursive-descent parser inverts the writer -/

/-- the rest of the input does not continue a token recognised by `f` -/
def StopAt (f : Char → Bool) (rest : List Char) : Prop := ∀ c cs, rest = c :: cs → f c = false

theorem takeWhileC_append (f : Char → Bool) (l rest : List Char) (hl : ∀ c ∈ l, f c = true)
    (hr : StopAt f rest) : takeWhileC f (l ++ rest) = (l, rest) := by
  induction l with
  | nil =>
    cases rest with
    | nil => rfl
    | cons c cs => simp [takeWhileC, hr c cs rfl]
  | cons c cs ih =>
    have hc := hl c (by simp)
    simp [takeWhileC, hc, ih (fun c h => hl c (by simp [h]))]

def hstop (c : Char) : Bool := c != ',' && c != ')' && c != '(' && c != ';'

theorem parseLabel_print (ks : List NTree) (i : Nat) (h : String) (rest : List Char)
    (hh : GoodH h) (hr : StopAt hstop rest) :
    parseLabel ks ((toString i).toList ++ ':' :: (h.toList ++ rest))
      = some (NTree.node i h ks, rest) := by
  have hd := toString_nat_digits i
  have h1 : takeWhileC Char.isDigit ((toString i).toList ++ ':' :: (h.toList ++ rest))
      = ((toString i).toList, ':' :: (h.toList ++ rest)) :=
    takeWhileC_append _ _ _ hd.1 (by intro c cs e; cases e; decide)
  have h2 : takeWhileC hstop (h.toList ++ rest) = (h.toList, rest) :=
    takeWhileC_append _ _ _ (by intro c hc; have := hh.2 c hc; simp [hstop, this]) hr
  unfold hstop at h2
  simp only [parseLabel, h1, digits_roundtrip, h2]
  simp [hh.1]

theorem print_toList (i : Nat) (h : String) (ks : List NTree) :
    (NTree.print (.node i h ks)).toList =
      (if ks.isEmpty then [] else '(' :: ((NTree.printL ks).toList ++ [')']))
        ++ ((toString i).toList ++ ':' :: h.toList) := by
  rw [NTree.print]
  split <;> simp [String.toList_append]


theorem parseNode_leaf (fuel : Nat) (s : List Char) (h : ∀ cs, s ≠ '(' :: cs) :
    parseNode (fuel + 1) s = parseLabel [] s := by
  rw [parseNode]
  intro rest e
  exact h _ e

theorem printL_cons2 (t u : NTree) (ts : List NTree) :
    (NTree.printL (t :: u :: ts)).toList
      = (NTree.print t).toList ++ ',' :: (NTree.printL (u :: ts)).toList := by
  simp [NTree.printL, String.toList_append]

theorem print_length_pos (t : NTree) : 0 < (NTree.print t).toList.length := by
  cases t with
  | node i h ks =>
    rw [print_toList]
    have := (toString_nat_digits i).2
    have : 0 < (toString i).toList.length := List.length_pos_iff.mpr this
    simp only [List.length_append, List.length_cons]
    omega

mutual
theorem parseNode_print (t : NTree) (ht : GoodT t) (fuel : Nat) (rest : List Char)
    (hr : StopAt hstop rest) (hf : (NTree.print t).toList.length ≤ fuel) :
    parseNode fuel ((NTree.print t).toList ++ rest) = some (t, rest) := by
  match t, ht with
  | .node i h ks, ht =>
    rw [GoodT] at ht
    obtain ⟨hh, hks⟩ := ht
    rw [print_toList] at hf ⊢
    match fuel, hf with
    | 0, hf =>
      have := (toString_nat_digits i).2
      have : 0 < (toString i).toList.length := List.length_pos_iff.mpr this
      simp only [List.length_append, List.length_cons] at hf
      omega
    | fuel + 1, hf =>
      match ks, hks with
      | [], _ =>
        simp only [List.isEmpty_nil, if_true, List.nil_append, List.append_assoc, List.cons_append]
        rw [parseNode_leaf, parseLabel_print _ _ _ _ hh hr]
        intro cs e
        have hd := toString_nat_digits i
        cases hl : (toString i).toList with
        | nil => exact hd.2 hl
        | cons d ds =>
          rw [hl] at e
          have := hd.1 d (by rw [hl]; exact List.mem_cons_self)
          simp only [List.cons_append, List.cons.injEq] at e
          rw [e.1] at this
          revert this; decide
      | k :: ks', hks =>
        have hl := parseList_print (k :: ks') (by simp) hks fuel
          ((toString i).toList ++ ':' :: (h.toList ++ rest))
          (by simp only [List.isEmpty_cons, Bool.false_eq_true, if_false, List.length_append,
                List.length_cons] at hf; omega)
        simp only [List.isEmpty_cons, Bool.false_eq_true, if_false, List.cons_append,
          List.append_assoc, List.nil_append]
        rw [parseNode, hl]
        simp only [Option.bind_eq_bind, Option.bind_some]
        exact parseLabel_print _ _ _ _ hh hr
theorem parseList_print (ts : List NTree) (hne : ts ≠ []) (hts : GoodL ts) (fuel : Nat)
    (rest : List Char) (hf : (NTree.printL ts).toList.length + 1 ≤ fuel) :
    parseList fuel ((NTree.printL ts).toList ++ ')' :: rest) = some (ts, ')' :: rest) := by
  match fuel, hf with
  | fuel + 1, hf =>
    match ts, hne, hts with
    | [t], _, hts =>
      rw [GoodL] at hts
      rw [NTree.printL] at hf ⊢
      rw [parseList, parseNode_print t hts.1 fuel _ (by intro c cs e; cases e; decide) (by omega)]
      simp
    | t :: u :: ts', _, hts =>
      rw [GoodL] at hts
      rw [printL_cons2] at hf ⊢
      simp only [List.length_append, List.length_cons, List.append_assoc] at hf ⊢
      rw [parseList, parseNode_print t hts.1 fuel _ (by intro c cs e; cases e; decide) (by omega)]
      simp only [Option.bind_eq_bind, Option.bind_some, List.cons_append]
      rw [parseList_print (u :: ts') (by simp) hts.2 fuel rest (by simp at hf; omega)]
      simp
end

theorem printForest_toList (ts : List NTree) :
    (printForest ts).toList = '(' :: ((NTree.printL ts).toList ++ [')', ';']) := by
  simp [printForest, String.toList_append]

theorem printL_length_pos (t : NTree) (ts : List NTree) :
    0 < (NTree.printL (t :: ts)).toList.length := by
  cases ts with
  | nil => rw [NTree.printL]; exact print_length_pos t
  | cons u ts => rw [printL_cons2]; simp only [List.length_append, List.length_cons]; omega

theorem parseDescent_print (ts : List NTree) (h : GoodL ts) :
    parseDescent (printForest ts) = some ts := by
  unfold parseDescent
  rw [printForest_toList]
  cases ts with
  | nil => simp [NTree.printL]
  | cons t ts =>
    have hpos := printL_length_pos t ts
    have hp := parseList_print (t :: ts) (by simp) h
      (2 * ((NTree.printL (t :: ts)).toList ++ [')', ';']).length + 2) [';']
      (by simp only [List.length_append]; omega)
    split
    · rename_i heq
      have := congrArg List.length heq
      simp only [List.length_cons, List.length_append, List.length_nil] at this
      omega
    · rename_i rest _ heq
      cases heq
      rw [hp]
      rfl
    · rename_i hno
      exact (hno _ rfl).elim

theorem printForest_injective (a b : List NTree) (ha : GoodL a) (hb : GoodL b)
    (h : printForest a = printForest b) : a = b := by
  have h1 := parseDescent_print a ha
  rw [h, parseDescent_print b hb] at h1
  exact (Option.some.inj h1).symm

/-! ## 4. `%.3f` texts are well formed -/

/-- characters produced by `%.3f` -/
def FmtChar (c : Char) : Prop := c.isDigit = true ∨ c = '-' ∨ c = '.'

theorem pad3_chars (n : Nat) : ∀ c ∈ (pad3 n).toList, FmtChar c := by
  have hd := (toString_nat_digits n).1
  have h0 : ("00" : String).toList = ['0', '0'] := rfl
  have h1 : ("0" : String).toList = ['0'] := rfl
  intro c hc
  unfold pad3 at hc
  simp only at hc
  split at hc
  · rw [String.toList_append, h0] at hc
    simp only [List.mem_append, List.mem_cons, List.not_mem_nil, or_false] at hc
    rcases hc with (rfl | rfl) | hc
    · left; decide
    · left; decide
    · exact Or.inl (hd c hc)
  · split at hc
    · rw [String.toList_append, h1] at hc
      simp only [List.mem_append, List.mem_cons, List.not_mem_nil, or_false] at hc
      rcases hc with rfl | hc
      · left; decide
      · exact Or.inl (hd c hc)
    · exact Or.inl (hd c hc)

theorem fmt3_chars (k : Int) (fb : Nat) :
    (fmt3 k fb).toList ≠ [] ∧ ∀ c ∈ (fmt3 k fb).toList, FmtChar c := by
  unfold fmt3
  simp only [String.toList_append]
  have hdot : (".":String).toList = ['.'] := rfl
  have hm : ("-":String).toList = ['-'] := rfl
  have he : ("":String).toList = [] := rfl
  rw [hdot]
  constructor
  · simp
  · intro c hc
    simp only [List.mem_append, List.mem_cons, List.not_mem_nil, or_false] at hc
    rcases hc with ((hc | hc) | rfl) | hc
    · split at hc
      · rw [hm] at hc; simp at hc; exact Or.inr (Or.inl hc)
      · rw [he] at hc; simp at hc
    · exact Or.inl ((toString_nat_digits _).1 c hc)
    · exact Or.inr (Or.inr rfl)
    · exact pad3_chars _ c hc

theorem FmtChar.ne {c : Char} (h : FmtChar c) :
    c ≠ ',' ∧ c ≠ ')' ∧ c ≠ '(' ∧ c ≠ ';' ∧ c ≠ ':' := by
  rcases h with h | rfl | rfl
  · refine ⟨?_, ?_, ?_, ?_, ?_⟩ <;> (rintro rfl; revert h; decide)
  · decide
  · decide

theorem fmt3_good (k : Int) (fb : Nat) : GoodH (fmt3 k fb) := by
  have h := fmt3_chars k fb
  refine ⟨h.1, fun c hc => ?_⟩
  have := (h.2 c hc).ne
  exact ⟨this.1, this.2.1, this.2.2.1, this.2.2.2.1⟩

theorem fmt3_no_colon (k : Int) (fb : Nat) : ∀ c ∈ (fmt3 k fb).toList, c ≠ ':' :=
  fun c hc => ((fmt3_chars k fb).2 c hc).ne.2.2.2.2

mutual
theorem toNTree_good (val : Nat → Int) (fb : Nat) : (t : Tree) → GoodT (toNTree val fb t)
  | .node i o ks => by
    rw [toNTree, GoodT]
    exact ⟨fmt3_good _ _, toNTreeL_good val fb ks⟩
theorem toNTreeL_good (val : Nat → Int) (fb : Nat) : (ts : List Tree) → GoodL (toNTreeL val fb ts)
  | [] => by rw [toNTreeL, GoodL]; trivial
  | t :: ts => by
    rw [toNTreeL, GoodL]
    exact ⟨toNTree_good val fb t, toNTreeL_good val fb ts⟩
end

/-- the text written for any forest of structures reads back as the same printable forest -/
theorem parseDescent_toNewick (val : Nat → Int) (fb : Nat) (f : List Tree) :
    parseDescent (toNewick val fb f) = some (toNTreeL val fb f) :=
  parseDescent_print _ (toNTreeL_good val fb f)
