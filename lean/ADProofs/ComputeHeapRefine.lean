import ADProofs.GrowProofs
import ADProofs.HeapRefine
import ADProofs.LabelMapProofs

/-!
# ComputeHeapRefine (P42): the OBJECT operations of one step of `Dendrogram.compute` refine `step`

`ADModel/Compute.lean` (`joinAdj`, `step`, `run` on root `Tree`s) against the object heap of
`ADModel/Cache.lean` with the compute-time mutations of `ADProofs/GrowProofs.lean` (P37), seen through the
abstraction `P35.absT` / `P35.absF` of `ADProofs/HeapRefine.lean`.

Definitions (executable, core Lean only):
* `Heap.newLeafP`, `Heap.addPixelP`, `Heap.mergeP`, `Heap.attachP` : the object operations of the loop
  *with* their own-pixel lists (P37's `newLeaf` / `attach` / `dropLeaf` do not touch `own`);
* `joinObj E h p adj` (with `joinObjMK` for the `else: # Merge leaves` branch) : the three-way case analysis
  of dendrogram.py:252-323 on objects, returning the new heap and the identifier of the object that
  received the pixel; `adjOf` : the adjacent roots as the functional model computes them (that the label map
  delivers exactly these is `P36.adjacentL_eq`);
* FORMULATION OF THE ROOT LIST.  `P35.rootsOf h` lists the parentless alive objects in the order of the
  `alive` list (new keys in front), `step` puts the receiving structure at the end and removes the touched
  ones, so `absF h _ (rootsOf h) = run …` is false as an equality of lists (see the `example` on `[4, 0]` in the last
  section; the real `structures` is a dict, and `_make_trunk` sorts).  The root order is therefore
  carried as explicit state: `OState` (heap + root list), `stepO`, `runO`; the new root list mirrors `step`
  (`stepO_roots`).  `stepObj`, `runObj` : the same on the bare heap, adjacent roots from `rootsOf`
  (`stepObj_eq`, `runObj_eq` : same heap); `queryAll`, `stepOQ`, `runOQ`, `LegalOQ`, `traceOQ` : the loop
  together with the cached `ancestor` queries of every iteration.

Theorems:
* `attachP_inv`, `newLeafP_inv`, `addPixelP_inv`, `mergeP_inv` : each object operation is a legal P37 grow
  operation up to own-pixel lists / emptied caches (`inv_transfer`, `update_inv`), hence keeps `P17.WF` and
  `P37.AncSound` (via `P37.stepG_inv`);
* `absT_frame`, `absT_recv` : what does not change / what the receiving object abstracts to;
  `mergeChain`, `addChain`, `attachChain` : `_add_pixel` resp. `Structure(children=…)` followed by the merges;
* `joinObj_spec` : ALL FIVE cases of `joinAdj` at once (`Spec`);
* `stepO_refines` (MAIN 1), `stepO_inv` (2), `stepObj_refines`, `stepObj_inv` (the same on the bare heap);
* `runO_spec`, `runO_prefix_spec`, `runObj_refines` (3), `runOQ_spec` (3 with the queries interleaved: every
  cached `ancestor` answer along the real object history equals `specRoot`), `runObj_ancestor_sound`.

Hypotheses.  `Inv s` : `P17.WF s.h`, `P37.AncSound s.h`, `s.roots` is a duplicate-free enumeration of
`rootsOf s.h`.  Freshness: `s.h.get p = none` (`p` is not yet an object identifier; necessary - see the last
`example`).  NOT needed: "`p` is in no own list", and "identifiers of objects = identifiers in the forest"
(`P35.absT_id` gives it).  For the whole loop: `order.Nodup` only.
-/

namespace Heap

/-- own pixels of object `i` (`[]` if there is no such object) -/
def ownOf (h : Heap) (i : Nat) : List Nat := ((h.get i).map (·.own)).getD []

/-- children of object `i` (`[]` if there is no such object) -/
def kidsOf (h : Heap) (i : Nat) : List Nat := ((h.get i).map (·.kids)).getD []

/-- `Structure(coord, value, idx=i)` ; `structures[i] = leaf` : a fresh parentless object with the one
    pixel `p`, all caches empty (precondition: `i` is not yet an object) -/
def newLeafP (h : Heap) (i p : Nat) : Heap :=
  { objs := { id := i, own := [p] } :: h.objs, alive := i :: h.alive }

/-- `structures[i]._add_pixel(coord, value)` : the pixel is appended, the caches of `i` are reset -/
def addPixelP (h : Heap) (i p : Nat) : Heap :=
  h.update i (fun o => resetCache { o with own := o.own ++ [p] })

/-- `structures.pop(m.idx)` ; `belongs_to._merge(m)` with `belongs_to = structures[i]` : the own pixels of
    `m` are appended to those of `i`, the caches of `i` are reset, the key `m` is removed (the object `m`
    itself stays reachable).  Meant for a parentless childless `m ≠ i`. -/
def mergeP (h : Heap) (i m : Nat) : Heap :=
  let h1 := h.update i (fun o => resetCache { o with own := o.own ++ h.ownOf m })
  { h1 with alive := h1.alive.erase m }

/-- `Structure(coord, value, children=ks, idx=b)` ; `structures[b] = branch` : `child.parent = self` for
    every child and nothing else on the children; the new object has the one pixel `p`, `kids := ks` and
    empty caches -/
def attachP (h : Heap) (b p : Nat) (ks : List Nat) : Heap :=
  let h1 := ks.foldl (fun acc c => acc.update c (fun co => { co with parent := some b })) h
  { objs := { id := b, kids := ks, own := [p] } :: h1.objs, alive := b :: h1.alive }

end Heap

namespace P42
open Heap Tree P17 P35 P37

/-- the `else:  # Merge leaves` branch of the loop body (dendrogram.py:274-323) on objects, given the merged
    (`mrg`, the list `merge`) and the kept (`keep`, what is left of `adjacent`) adjacent roots: the new heap
    and the identifier of `belongs_to` -/
def joinObjMK (h : Heap) (p : Nat) (mrg keep : List Tree) : Heap × Nat :=
  match keep with
  | [] =>
    match mrg.reverse with
    | [] => (h.newLeafP p p, p)   -- unreachable
    | b :: others =>              -- `belongs_to = merge.pop()` ; `_add_pixel` ; `for m in merge: ...`
      (others.reverse.foldl (fun acc m => acc.mergeP b.id m.id) (h.addPixelP b.id p), b.id)
  | [t] => (mrg.foldl (fun acc m => acc.mergeP t.id m.id) (h.addPixelP t.id p), t.id)
  | _   => (mrg.foldl (fun acc m => acc.mergeP p m.id) (h.attachP p p (keep.map Tree.id)), p)

/-- one iteration of the pixel loop on objects, given the adjacent roots `adj` (sorted by identifier):
    the new heap and the identifier of the object the pixel now belongs to.  The case analysis is that of
    `joinAdj`, the objects are addressed by the identifiers of the adjacent roots, new objects get the
    identifier `p`. -/
def joinObj (E : Env) (h : Heap) (p : Nat) (adj : List Tree) : Heap × Nat :=
  match adj with
  | []  => (h.newLeafP p p, p)
  | [t] => (h.addPixelP t.id p, t.id)
  | _   => joinObjMK h p (adj.filter (insig E p)) (adj.filter (fun t => !insig E p t))

/-- the corresponding part of `joinAdj` -/
def joinAdjMK (p : Nat) (mrg keep : List Tree) : Tree :=
  match keep with
  | [] =>
    match mrg.reverse with
    | [] => node p [p] []
    | b :: others => others.reverse.foldl Tree.absorb (b.addPixel p)
  | [t] => mrg.foldl Tree.absorb (t.addPixel p)
  | _   => mrg.foldl Tree.absorb (node p [p] keep)

theorem joinAdj_multi (E : Env) (p : Nat) (a b : Tree) (l : List Tree) :
    joinAdj E p (a :: b :: l) =
      joinAdjMK p ((a :: b :: l).filter (insig E p)) ((a :: b :: l).filter (fun t => !insig E p t)) := rfl

/-- the adjacent roots as the functional model sees them -/
def adjOf (E : Env) (h : Heap) (roots : List Nat) (p : Nat) : List Tree :=
  sortById ((absF h h.size roots).filter (touches E p))

/-- the heap together with the root list in the order of the functional model -/
structure OState where
  h : Heap := {}
  roots : List Nat := []
deriving Repr, Inhabited

/-- one iteration of the loop; the root list mirrors `step`: untouched roots, then the receiving object -/
def stepO (E : Env) (s : OState) (p : Nat) : OState :=
  let r := joinObj E s.h p (adjOf E s.h s.roots p)
  { h := r.1, roots := s.roots.filter (fun i => !touches E p (absT s.h s.h.size i)) ++ [r.2] }

def runO (E : Env) (order : List Nat) : OState := order.foldl (stepO E) {}

/-- one iteration of the loop on the bare heap: the roots are the parentless alive objects -/
def stepObj (E : Env) (h : Heap) (p : Nat) : Heap := (joinObj E h p (adjOf E h (rootsOf h) p)).1

def runObj (E : Env) (order : List Nat) : Heap := order.foldl (stepObj E) {}

/-! ## `get`, `alive`, `size` through the operations -/

/-- own pixels and children of an object: all that `absT` looks at -/
def vw (h : Heap) (i : Nat) : Option (List Nat × List Nat) := (h.get i).map (fun o => (o.own, o.kids))

theorem get_mk_cons (o : Obj) (objs : List Obj) (al al' : List Nat) (x : Nat) :
    ({ objs := o :: objs, alive := al } : Heap).get x =
      if x = o.id then some o else ({ objs := objs, alive := al' } : Heap).get x := by
  unfold Heap.get
  simp only [List.find?_cons]
  by_cases hx : x = o.id
  · subst hx; simp
  · have : (o.id == x) = false := by simp; exact fun e => hx e.symm
    simp [this, hx]

theorem get_newLeafP (h : Heap) (i p x : Nat) :
    (h.newLeafP i p).get x = if x = i then some { id := i, own := [p] } else h.get x :=
  get_mk_cons _ _ _ h.alive x

theorem get_attachP (h : Heap) (b p : Nat) (ks : List Nat) (x : Nat) :
    (h.attachP b p ks).get x =
      if x = b then some { id := b, kids := ks, own := [p] }
      else if x ∈ ks then (h.get x).map (fun co => { co with parent := some b }) else h.get x := by
  have key := get_foldl_setParent b ks h x
  unfold Heap.attachP
  rw [get_mk_cons _ _ _ (ks.foldl (fun acc c => acc.update c (fun co => { co with parent := some b })) h).alive x]
  by_cases hxb : x = b
  · simp [hxb]
  · simp only [hxb, if_false]
    exact key

theorem get_addPixelP (h : Heap) (i p x : Nat) :
    (h.addPixelP i p).get x =
      if x = i then (h.get i).map (fun o => resetCache { o with own := o.own ++ [p] }) else h.get x :=
  get_update h i (fun o => resetCache { o with own := o.own ++ [p] }) (fun _ => rfl) x

theorem get_mergeP (h : Heap) (i m x : Nat) :
    (h.mergeP i m).get x =
      if x = i then (h.get i).map (fun o => resetCache { o with own := o.own ++ h.ownOf m }) else h.get x :=
  get_update h i (fun o => resetCache { o with own := o.own ++ h.ownOf m }) (fun _ => rfl) x

theorem alive_mergeP (h : Heap) (i m : Nat) : (h.mergeP i m).alive = h.alive.erase m := rfl
theorem alive_addPixelP (h : Heap) (i p : Nat) : (h.addPixelP i p).alive = h.alive := rfl
theorem alive_attachP (h : Heap) (b p : Nat) (ks : List Nat) : (h.attachP b p ks).alive = b :: h.alive := by
  unfold Heap.attachP
  simp only [foldl_setParent_alive]

theorem size_addPixelP (h : Heap) (i p : Nat) : (h.addPixelP i p).size = h.size := update_size _ _ _
theorem size_mergeP (h : Heap) (i m : Nat) : (h.mergeP i m).size = h.size := by
  simp [Heap.mergeP, Heap.update, Heap.size]
theorem size_attachP (h : Heap) (b p : Nat) (ks : List Nat) : (h.attachP b p ks).size = h.size + 1 := by
  have := foldl_setParent_size b ks h
  unfold Heap.size at this ⊢
  unfold Heap.attachP
  simp only [List.length_cons]
  omega

theorem newLeafP_eq_attachP (h : Heap) (i p : Nat) : h.newLeafP i p = h.attachP i p [] := rfl


/-! ## `WF` and `AncSound` do not look at own-pixel lists -/

/-- same links, and every cached `_ancestor` of `h'` is one of `h`: the invariants carry over -/
theorem inv_transfer {h h' : Heap} (s : SameLinks h h')
    (hc : ∀ i o', h'.get i = some o' → ∀ a, o'.anc = some a → ∃ o, h.get i = some o ∧ o.anc = some a)
    (w : WF h) (hs : AncSound h) : WF h' ∧ AncSound h' := by
  refine ⟨w.same s, ?_⟩
  intro i hi o' hg' a ha
  rw [s.alive] at hi
  obtain ⟨o, hg, hoa⟩ := hc i o' hg' a ha
  exact (hs i hi o hg a hoa).same s

/-- an update of one object that keeps the links and does not invent a cached ancestor (for instance:
    any change of the own-pixel list, with or without `_reset_cache`) preserves `WF` and `AncSound` -/
theorem update_inv {h : Heap} (i : Nat) (f : Obj → Obj) (hid : ∀ o, (f o).id = o.id)
    (hp : ∀ o, (f o).parent = o.parent) (hk : ∀ o, (f o).kids = o.kids)
    (ha : ∀ o a, (f o).anc = some a → o.anc = some a) (w : WF h) (hs : AncSound h) :
    WF (h.update i f) ∧ AncSound (h.update i f) := by
  refine inv_transfer (sameLinks_update h i f hid hp hk) ?_ w hs
  intro j o' hg' a hoa
  rw [get_update h i f hid] at hg'
  by_cases hji : j = i
  · rw [if_pos hji] at hg'
    subst hji
    cases hg : h.get j with
    | none => simp [hg] at hg'
    | some o =>
      simp only [hg, Option.map_some, Option.some.injEq] at hg'
      subst hg'
      exact ⟨o, rfl, ha o a hoa⟩
  · rw [if_neg hji] at hg'
    exact ⟨o', hg', hoa⟩

theorem parent_same {h h' : Heap} (s : SameLinks h h') (i : Nat) :
    (h'.get i).bind (·.parent) = (h.get i).bind (·.parent) := by
  cases hg : h.get i with
  | none => rw [s.get_none hg]
  | some o =>
    obtain ⟨o', hg', hp, _⟩ := s.get_some hg
    rw [hg']; simp [hp]

theorem kidsOf_same {h h' : Heap} (s : SameLinks h h') (i : Nat) : h'.kidsOf i = h.kidsOf i := kids_same s i

/-- `newLeafP` / `attachP` are P37's `newLeaf` / `attach` up to the own-pixel list of the new object -/
theorem attachP_inv {h : Heap} {b p : Nat} {ks : List Nat} (w : WF h) (hs : AncSound h)
    (hl : LegalG h (.attach b ks)) : WF (h.attachP b p ks) ∧ AncSound (h.attachP b p ks) := by
  obtain ⟨w1, hs1⟩ := stepG_inv h (.attach b ks) w hs hl
  refine inv_transfer (h := h.attach b ks) ⟨rfl, rfl, ?_⟩ ?_ w1 hs1
  · intro i
    rw [get_attachP, get_attach]
    by_cases hib : i = b
    · simp [hib]
    · simp only [hib, if_false]
  · intro i o' hg' a hoa
    rw [get_attachP] at hg'
    by_cases hib : i = b
    · rw [if_pos hib] at hg'
      cases hg'
      simp at hoa
    · rw [if_neg hib] at hg'
      exact ⟨o', by rw [get_attach, if_neg hib]; exact hg', hoa⟩

theorem newLeafP_inv {h : Heap} {i p : Nat} (w : WF h) (hs : AncSound h) (hl : LegalG h (.newLeaf i)) :
    WF (h.newLeafP i p) ∧ AncSound (h.newLeafP i p) := by
  rw [newLeafP_eq_attachP]
  exact attachP_inv w hs ⟨hl, List.nodup_nil, fun k hk => by cases hk⟩

theorem addPixelP_same (h : Heap) (i p : Nat) : SameLinks h (h.addPixelP i p) :=
  sameLinks_update h i _ (fun _ => rfl) (fun _ => rfl) (fun _ => rfl)

/-- `_add_pixel` is invisible to `WF` / `AncSound` (it only empties a cache) -/
theorem addPixelP_inv {h : Heap} {i p : Nat} (w : WF h) (hs : AncSound h) :
    WF (h.addPixelP i p) ∧ AncSound (h.addPixelP i p) :=
  update_inv i _ (fun _ => rfl) (fun _ => rfl) (fun _ => rfl)
    (fun o a ha => by simp [Heap.resetCache] at ha) w hs

theorem mergeP_eq_dropLeaf (h : Heap) (i m : Nat) :
    h.mergeP i m = (h.update i (fun o => resetCache { o with own := o.own ++ h.ownOf m })).dropLeaf m := rfl

/-- `structures.pop(m.idx)` ; `_merge(m)` is P37's `dropLeaf m` up to the own-pixel list of `i` -/
theorem mergeP_inv {h : Heap} {i m : Nat} (w : WF h) (hs : AncSound h) (hl : LegalG h (.dropLeaf m)) :
    WF (h.mergeP i m) ∧ AncSound (h.mergeP i m) := by
  have s := sameLinks_update h i (fun o => resetCache { o with own := o.own ++ h.ownOf m })
    (fun _ => rfl) (fun _ => rfl) (fun _ => rfl)
  obtain ⟨w1, hs1⟩ := update_inv (h := h) i (fun o => resetCache { o with own := o.own ++ h.ownOf m })
    (fun _ => rfl) (fun _ => rfl) (fun _ => rfl) (fun o a ha => by simp [Heap.resetCache] at ha) w hs
  rw [mergeP_eq_dropLeaf]
  exact stepG_inv _ (.dropLeaf m) w1 hs1
    ⟨by rw [s.alive]; exact hl.1, by rw [parent_same s]; exact hl.2.1, by rw [kids_same s]; exact hl.2.2⟩


/-! ## the view (own pixels, children) through the operations -/

theorem ownOf_eq_vw (h : Heap) (i : Nat) : h.ownOf i = ((vw h i).map (·.1)).getD [] := by
  unfold Heap.ownOf vw; cases h.get i <;> rfl

theorem kidsOf_eq_vw (h : Heap) (i : Nat) : h.kidsOf i = ((vw h i).map (·.2)).getD [] := by
  unfold Heap.kidsOf vw; cases h.get i <;> rfl

theorem isSome_vw (h : Heap) (i : Nat) : (vw h i).isSome = (h.get i).isSome := by
  unfold vw; cases h.get i <;> rfl

theorem vw_update (h : Heap) (i : Nat) (f : Obj → Obj) (hid : ∀ o, (f o).id = o.id)
    (hk : ∀ o, (f o).kids = o.kids) (g : List Nat → List Nat) (ho : ∀ o, (f o).own = g o.own) (x : Nat) :
    vw (h.update i f) x = if x = i then (vw h i).map (fun v => (g v.1, v.2)) else vw h x := by
  unfold vw
  rw [get_update h i f hid]
  by_cases hx : x = i
  · rw [if_pos hx, if_pos hx]
    cases h.get i <;> simp [ho, hk]
  · rw [if_neg hx, if_neg hx]

theorem vw_addPixelP (h : Heap) (i p x : Nat) :
    vw (h.addPixelP i p) x = if x = i then (vw h i).map (fun v => (v.1 ++ [p], v.2)) else vw h x :=
  vw_update h i (fun o => resetCache { o with own := o.own ++ [p] }) (fun _ => rfl) (fun _ => rfl)
    (fun l => l ++ [p]) (fun _ => rfl) x

theorem vw_mergeP (h : Heap) (i m x : Nat) :
    vw (h.mergeP i m) x = if x = i then (vw h i).map (fun v => (v.1 ++ h.ownOf m, v.2)) else vw h x :=
  vw_update h i (fun o => resetCache { o with own := o.own ++ h.ownOf m }) (fun _ => rfl) (fun _ => rfl)
    (fun l => l ++ h.ownOf m) (fun _ => rfl) x

theorem vw_attachP (h : Heap) (b p : Nat) (ks : List Nat) (x : Nat) :
    vw (h.attachP b p ks) x = if x = b then some ([p], ks) else vw h x := by
  unfold vw
  rw [get_attachP]
  by_cases hx : x = b
  · rw [if_pos hx, if_pos hx]; rfl
  · rw [if_neg hx, if_neg hx]
    split
    · cases h.get x <;> rfl
    · rfl

theorem parent_mergeP (h : Heap) (i m x : Nat) :
    ((h.mergeP i m).get x).bind (·.parent) = (h.get x).bind (·.parent) := by
  rw [get_mergeP]
  split
  · rename_i hx; subst hx; cases h.get x <;> rfl
  · rfl

theorem parent_addPixelP (h : Heap) (i p x : Nat) :
    ((h.addPixelP i p).get x).bind (·.parent) = (h.get x).bind (·.parent) :=
  parent_same (addPixelP_same h i p) x

theorem parent_attachP (h : Heap) (b p : Nat) (ks : List Nat) (x : Nat) :
    ((h.attachP b p ks).get x).bind (·.parent) =
      if x = b then none else if x ∈ ks then (h.get x).map (fun _ => b) else (h.get x).bind (·.parent) := by
  rw [get_attachP]
  by_cases hx : x = b
  · rw [if_pos hx, if_pos hx]; rfl
  · rw [if_neg hx, if_neg hx]
    split
    · cases h.get x <;> rfl
    · rfl

/-! ## the frame lemma -/

/-- if the view changes only at identifiers in `S`, none of which has a parent in `h`, then the tree below
    every alive object outside `S` is unchanged (any fuel) -/
theorem absT_frame {h h' : Heap} (w : WF h) (S : List Nat)
    (hS : ∀ i ∈ S, (h.get i).bind (·.parent) = none)
    (hsame : ∀ i, i ∉ S → vw h' i = vw h i)
    (n x : Nat) (hx : x ∈ h.alive) (hxS : x ∉ S) : absT h' n x = absT h n x := by
  induction n generalizing x with
  | zero => rfl
  | succ n ih =>
    obtain ⟨o, hg⟩ := w.alive_get x hx
    have hv := hsame x hxS
    unfold vw at hv
    rw [hg] at hv
    cases hg' : h'.get x with
    | none => simp [hg'] at hv
    | some o' =>
      simp only [hg', Option.map_some, Option.some.injEq, Prod.mk.injEq] at hv
      rw [absT_succ_some n hg, absT_succ_some n hg', hv.1, hv.2]
      congr 1
      apply List.map_congr_left
      intro c hc
      obtain ⟨hca, co, hgc, hcp⟩ := w.kids_ok x hx o hg c hc
      refine ih c hca fun hcS => ?_
      have := hS c hcS
      rw [hgc] at this
      simp [hcp] at this

theorem absT_own (h : Heap) (n i : Nat) : (absT h (n + 1) i).own = h.ownOf i := by
  unfold Heap.ownOf
  cases hg : h.get i with
  | none => rw [absT_succ_none n hg]; rfl
  | some o => rw [absT_succ_some n hg]; rfl

theorem absT_kids_nil (h : Heap) (n i : Nat) : (absT h (n + 1) i).kids = [] ↔ h.kidsOf i = [] := by
  unfold Heap.kidsOf
  cases hg : h.get i with
  | none => rw [absT_succ_none n hg]; simp [Tree.kids]
  | some o => rw [absT_succ_some n hg]; simp [Tree.kids]

theorem foldl_absorb_node (ms : List Tree) (i : Nat) (o : List Nat) (ks : List Tree) :
    ms.foldl Tree.absorb (.node i o ks) = .node i (o ++ ms.flatMap Tree.own) ks := by
  induction ms generalizing o with
  | nil => simp
  | cons m ms ih =>
    simp only [List.foldl_cons, Tree.absorb, Tree.id, Tree.own, Tree.kids, ih, List.flatMap_cons,
      List.append_assoc]

theorem flatMap_congr' {α β} {f g : α → List β} {l : List α} (hfg : ∀ a ∈ l, f a = g a) :
    l.flatMap f = l.flatMap g := by
  induction l with
  | nil => rfl
  | cons a l ih =>
    simp only [List.flatMap_cons]
    rw [hfg a List.mem_cons_self, ih fun b hb => hfg b (List.mem_cons_of_mem _ hb)]

/-- the receiving object, from its view: `r` has no parent in `h` (or is not an object of `h`), its new
    children are alive objects of `h` other than `r`, nothing else changed -/
theorem absT_recv {h h' : Heap} (w : WF h) {r : Nat} {own' ks' : List Nat}
    (hr : (h.get r).bind (·.parent) = none)
    (hsame : ∀ i, i ≠ r → vw h' i = vw h i) (hv : vw h' r = some (own', ks'))
    (hks : ∀ k ∈ ks', k ∈ h.alive ∧ k ≠ r) (n : Nat) :
    absT h' (n + 1) r = .node r own' (ks'.map (absT h n)) ∧
    ∀ m x, x ∈ h.alive → x ≠ r → absT h' m x = absT h m x := by
  have fr : ∀ m x, x ∈ h.alive → x ≠ r → absT h' m x = absT h m x := fun m x hx hxr =>
    absT_frame w [r] (fun i hi => by rw [List.mem_singleton.1 hi]; exact hr)
      (fun i hi => hsame i (fun e => hi (List.mem_singleton.2 e))) m x hx
      (fun hi => hxr (List.mem_singleton.1 hi))
  refine ⟨?_, fr⟩
  unfold vw at hv
  cases hg' : h'.get r with
  | none => simp [hg'] at hv
  | some o' =>
    simp only [hg', Option.map_some, Option.some.injEq, Prod.mk.injEq] at hv
    rw [absT_succ_some n hg', hv.1, hv.2]
    congr 1
    apply List.map_congr_left
    intro k hk
    exact fr n k (hks k hk).1 (hks k hk).2


/-! ## a chain of `mergeP` into one receiving root -/

structure ChainSpec (g : Heap) (r : Nat) (ms : List Nat) (g' : Heap) : Prop where
  wf : WF g'
  anc : AncSound g'
  size : g'.size = g.size
  view : ∀ x, vw g' x = if x = r then (vw g r).map (fun v => (v.1 ++ ms.flatMap g.ownOf, v.2)) else vw g x
  parent : ∀ x, (g'.get x).bind (·.parent) = (g.get x).bind (·.parent)
  alive : ∀ x, x ∈ g'.alive ↔ x ∈ g.alive ∧ x ∉ ms

theorem mergeChain (ms : List Nat) {g : Heap} {r : Nat} (w : WF g) (hs : AncSound g)
    (hr : r ∈ rootsOf g) (hnd : ms.Nodup) (hrm : r ∉ ms)
    (hms : ∀ m ∈ ms, m ∈ rootsOf g ∧ g.kidsOf m = []) :
    ChainSpec g r ms (ms.foldl (fun acc m => acc.mergeP r m) g) := by
  induction ms generalizing g with
  | nil =>
    refine ⟨w, hs, rfl, ?_, fun _ => rfl, fun x => by simp⟩
    intro x
    show vw g x = _
    split
    · rename_i hx; subst hx; cases vw g x <;> simp
    · rfl
  | cons m ms ih =>
    have hm := hms m List.mem_cons_self
    have hmr := mem_rootsOf.1 hm.1
    have hnd' := List.nodup_cons.1 hnd
    obtain ⟨w1, hs1⟩ := mergeP_inv (i := r) w hs ⟨hmr.1, hmr.2, hm.2⟩
    have hal : ∀ x, x ∈ (g.mergeP r m).alive ↔ x ≠ m ∧ x ∈ g.alive := fun x => by
      rw [alive_mergeP]; exact w.alive_nodup.mem_erase_iff
    have hroot : ∀ x, x ≠ m → x ∈ rootsOf g → x ∈ rootsOf (g.mergeP r m) := fun x hxm hx => by
      have := mem_rootsOf.1 hx
      exact mem_rootsOf.2 ⟨(hal x).2 ⟨hxm, this.1⟩, by rw [parent_mergeP]; exact this.2⟩
    have hkids : ∀ x, (g.mergeP r m).kidsOf x = g.kidsOf x := fun x => by
      rw [kidsOf_eq_vw, kidsOf_eq_vw, vw_mergeP]
      split
      · rename_i hx; subst hx; cases vw g x <;> rfl
      · rfl
    have hown : ∀ x, x ≠ r → (g.mergeP r m).ownOf x = g.ownOf x := fun x hx => by
      rw [ownOf_eq_vw, ownOf_eq_vw, vw_mergeP, if_neg hx]
    have hrm' : r ≠ m := fun e => hrm (e ▸ List.mem_cons_self)
    have c := ih w1 hs1 (hroot r hrm' hr) hnd'.2 (fun h => hrm (List.mem_cons_of_mem _ h))
      (fun m' hm' => ⟨hroot m' (fun e => hnd'.1 (e ▸ hm')) (hms m' (List.mem_cons_of_mem _ hm')).1,
        by rw [hkids]; exact (hms m' (List.mem_cons_of_mem _ hm')).2⟩)
    simp only [List.foldl_cons]
    refine ⟨c.wf, c.anc, c.size.trans (size_mergeP g r m), ?_,
      fun x => (c.parent x).trans (parent_mergeP g r m x), ?_⟩
    · intro x
      rw [c.view x]
      by_cases hx : x = r
      · rw [if_pos hx, if_pos hx, vw_mergeP, if_pos rfl]
        have : ms.flatMap (g.mergeP r m).ownOf = ms.flatMap g.ownOf :=
          flatMap_congr' fun y hy => hown y (fun e => hrm (e ▸ List.mem_cons_of_mem _ hy))
        rw [this]
        cases vw g r <;> simp [List.flatMap_cons, List.append_assoc]
      · rw [if_neg hx, if_neg hx, vw_mergeP, if_neg hx]
    · intro x
      rw [c.alive x, hal x, List.mem_cons]
      constructor
      · rintro ⟨⟨h1, h2⟩, h3⟩; exact ⟨h2, fun h => h.elim h1 h3⟩
      · rintro ⟨h1, h2⟩; exact ⟨⟨fun e => h2 (.inl e), h1⟩, fun h => h2 (.inr h)⟩


/-! ## what one iteration has to deliver -/

/-- `h'`, `r` is the result of one iteration on `h` for pixel `p`, where `ids` are the identifiers of the
    adjacent roots and `T` is the tree the functional model builds -/
structure Spec (h : Heap) (p : Nat) (ids : List Nat) (T : Tree) (h' : Heap) (r : Nat) : Prop where
  wf : WF h'
  anc : AncSound h'
  /-- the receiving object abstracts to `T` -/
  recv : absT h' h'.size r = T
  /-- the trees below all other objects are unchanged -/
  frame : ∀ x ∈ h.alive, x ∉ ids → absT h' h'.size x = absT h h.size x
  /-- the parentless alive objects afterwards: the receiving one and the old ones not adjacent -/
  roots : ∀ x, x ∈ rootsOf h' ↔ x = r ∨ (x ∈ rootsOf h ∧ x ∉ ids)
  /-- the only identifier that may be new is `p` -/
  dom : ∀ x, (h'.get x).isSome → x = p ∨ (h.get x).isSome
  rid : r = p ∨ r ∈ ids

theorem Spec.congr {h : Heap} {p : Nat} {ids ids' : List Nat} {T T' : Tree} {h' : Heap} {r : Nat}
    (c : Spec h p ids T h' r) (hi : ∀ x, x ∈ ids ↔ x ∈ ids') (hT : T = T') : Spec h p ids' T' h' r :=
  ⟨c.wf, c.anc, hT ▸ c.recv, fun x hx hxi => c.frame x hx (fun h => hxi ((hi x).1 h)),
    fun x => by rw [c.roots x, hi x], c.dom, by rw [← hi r]; exact c.rid⟩

theorem flatMap_own_map_absT (h : Heap) (n : Nat) (ms : List Nat) :
    (ms.map (absT h (n + 1))).flatMap Tree.own = ms.flatMap h.ownOf := by
  induction ms with
  | nil => rfl
  | cons m ms ih => simp only [List.map_cons, List.flatMap_cons, ih, absT_own]

/-- cases `[t]`, "none kept", "one kept": `_add_pixel` on the root `r`, then the leaves `ms` merged -/
theorem addChain {h : Heap} {r : Nat} (p : Nat) (ms : List Nat) (w : WF h) (hs : AncSound h)
    (hr : r ∈ rootsOf h) (hnd : ms.Nodup) (hrm : r ∉ ms)
    (hms : ∀ m ∈ ms, m ∈ rootsOf h ∧ h.kidsOf m = []) :
    Spec h p (r :: ms)
      ((ms.map (absT h h.size)).foldl Tree.absorb ((absT h h.size r).addPixel p))
      (ms.foldl (fun acc m => acc.mergeP r m) (h.addPixelP r p)) r := by
  obtain ⟨w1, hs1⟩ := addPixelP_inv (i := r) (p := p) w hs
  have hroot : ∀ x, x ∈ rootsOf (h.addPixelP r p) ↔ x ∈ rootsOf h := fun x => by
    rw [mem_rootsOf, mem_rootsOf, alive_addPixelP, parent_addPixelP]
  have hkids : ∀ x, (h.addPixelP r p).kidsOf x = h.kidsOf x := kidsOf_same (addPixelP_same h r p)
  have hown : ∀ x, x ≠ r → (h.addPixelP r p).ownOf x = h.ownOf x := fun x hx => by
    rw [ownOf_eq_vw, ownOf_eq_vw, vw_addPixelP, if_neg hx]
  have c := mergeChain ms w1 hs1 ((hroot r).2 hr) hnd hrm
    (fun m hm => ⟨(hroot m).2 (hms m hm).1, by rw [hkids]; exact (hms m hm).2⟩)
  have hra := mem_rootsOf.1 hr
  obtain ⟨o, hg⟩ := w.alive_get r hra.1
  have hop : o.parent = none := by simpa [hg] using hra.2
  have hflat : ms.flatMap (h.addPixelP r p).ownOf = ms.flatMap h.ownOf :=
    flatMap_congr' fun y hy => hown y (fun e => hrm (e ▸ hy))
  have hvr : vw (ms.foldl (fun acc m => acc.mergeP r m) (h.addPixelP r p)) r =
      some (o.own ++ [p] ++ ms.flatMap h.ownOf, o.kids) := by
    rw [c.view r, if_pos rfl, vw_addPixelP, if_pos rfl, hflat]
    simp [vw, hg]
  have hsame : ∀ i, i ≠ r → vw (ms.foldl (fun acc m => acc.mergeP r m) (h.addPixelP r p)) i = vw h i :=
    fun i hi => by rw [c.view i, if_neg hi, vw_addPixelP, if_neg hi]
  have hsz : (ms.foldl (fun acc m => acc.mergeP r m) (h.addPixelP r p)).size = h.objs.length + 1 := by
    rw [c.size, size_addPixelP, size_eq]
  obtain ⟨hrecv, hfr⟩ := absT_recv w hra.2 hsame hvr (fun k hk => by
    obtain ⟨hka, ko, hgk, hkp⟩ := w.kids_ok r hra.1 o hg k hk
    refine ⟨hka, fun e => ?_⟩
    subst e
    rw [hg] at hgk; cases hgk
    rw [hop] at hkp; cases hkp) h.objs.length
  refine ⟨c.wf, c.anc, ?_, ?_, ?_, ?_, .inr List.mem_cons_self⟩
  · rw [hsz, hrecv, size_eq, absT_succ_some _ hg]
    simp only [Tree.addPixel, Tree.id, Tree.own, Tree.kids, foldl_absorb_node, flatMap_own_map_absT]
  · intro x hx hxi
    rw [c.size, size_addPixelP]
    exact hfr _ x hx (fun e => hxi (e ▸ List.mem_cons_self))
  · intro x
    rw [mem_rootsOf, c.alive x, c.parent x, alive_addPixelP, parent_addPixelP, mem_rootsOf, List.mem_cons]
    constructor
    · rintro ⟨⟨h1, h2⟩, h3⟩
      by_cases hx : x = r
      · exact .inl hx
      · exact .inr ⟨⟨h1, h3⟩, fun h => h.elim hx h2⟩
    · rintro (hx | ⟨⟨h1, h3⟩, h2⟩)
      · subst hx; exact ⟨⟨hra.1, hrm⟩, hra.2⟩
      · exact ⟨⟨h1, fun h => h2 (.inr h)⟩, h3⟩
  · intro x hx
    right
    rw [← isSome_vw] at hx ⊢
    by_cases hxr : x = r
    · subst hxr; simp [vw, hg]
    · rwa [hsame x hxr] at hx


/-- cases "no adjacent structure" (`ks = ms = []`) and "several kept": a new object `p` over the roots
    `ks`, then the leaves `ms` merged into it -/
theorem attachChain {h : Heap} (p : Nat) (ks ms : List Nat) (w : WF h) (hs : AncSound h)
    (hp : h.get p = none) (hkn : ks.Nodup) (hks : ∀ k ∈ ks, k ∈ rootsOf h) (hnd : ms.Nodup)
    (hms : ∀ m ∈ ms, m ∈ rootsOf h ∧ h.kidsOf m = [] ∧ m ∉ ks) :
    Spec h p (ks ++ ms)
      ((ms.map (absT h h.size)).foldl Tree.absorb (.node p [p] (ks.map (absT h h.size))))
      (ms.foldl (fun acc m => acc.mergeP p m) (h.attachP p p ks)) p := by
  have hpa : ∀ x, x ∈ h.alive → x ≠ p := fun x hx e => by
    obtain ⟨o, hg⟩ := w.alive_get x hx
    rw [e, hp] at hg; cases hg
  obtain ⟨w1, hs1⟩ := attachP_inv (p := p) w hs (b := p) (ks := ks)
    ⟨hp, hkn, fun k hk => mem_rootsOf.1 (hks k hk)⟩
  have hpr : p ∈ rootsOf (h.attachP p p ks) :=
    mem_rootsOf.2 ⟨by rw [alive_attachP]; exact List.mem_cons_self, by rw [parent_attachP, if_pos rfl]⟩
  have hpm : p ∉ ms := fun hm => hpa p (mem_rootsOf.1 (hms p hm).1).1 rfl
  have hown : ∀ x, x ≠ p → (h.attachP p p ks).ownOf x = h.ownOf x := fun x hx => by
    rw [ownOf_eq_vw, ownOf_eq_vw, vw_attachP, if_neg hx]
  have c := mergeChain ms w1 hs1 hpr hnd hpm (fun m hm => by
    obtain ⟨h1, h2, h3⟩ := hms m hm
    have hma := mem_rootsOf.1 h1
    have hmp := hpa m hma.1
    refine ⟨mem_rootsOf.2 ⟨by rw [alive_attachP]; exact List.mem_cons_of_mem _ hma.1, ?_⟩, ?_⟩
    · rw [parent_attachP, if_neg hmp, if_neg h3]; exact hma.2
    · rw [kidsOf_eq_vw, vw_attachP, if_neg hmp, ← kidsOf_eq_vw]; exact h2)
  have hflat : ms.flatMap (h.attachP p p ks).ownOf = ms.flatMap h.ownOf :=
    flatMap_congr' fun y hy => hown y (fun e => hpm (e ▸ hy))
  have hvr : vw (ms.foldl (fun acc m => acc.mergeP p m) (h.attachP p p ks)) p =
      some ([p] ++ ms.flatMap h.ownOf, ks) := by
    rw [c.view p, if_pos rfl, vw_attachP, if_pos rfl, hflat]; rfl
  have hsame : ∀ i, i ≠ p → vw (ms.foldl (fun acc m => acc.mergeP p m) (h.attachP p p ks)) i = vw h i :=
    fun i hi => by rw [c.view i, if_neg hi, vw_attachP, if_neg hi]
  have hsz : (ms.foldl (fun acc m => acc.mergeP p m) (h.attachP p p ks)).size = h.size + 1 := by
    rw [c.size, size_attachP]
  obtain ⟨hrecv, hfr⟩ := absT_recv w (by rw [hp]; rfl) hsame hvr
    (fun k hk => ⟨(mem_rootsOf.1 (hks k hk)).1, hpa k (mem_rootsOf.1 (hks k hk)).1⟩) h.size
  refine ⟨c.wf, c.anc, ?_, ?_, ?_, ?_, .inl rfl⟩
  · rw [hsz, hrecv, foldl_absorb_node]
    conv => rhs; rw [size_eq, flatMap_own_map_absT]
    rfl
  · intro x hx _
    rw [hsz, hfr _ x hx (hpa x hx)]
    exact absT_stable_size w 1 x hx
  · intro x
    rw [mem_rootsOf, c.alive x, c.parent x, alive_attachP, parent_attachP, mem_rootsOf, List.mem_cons,
      List.mem_append]
    by_cases hx : x = p
    · subst hx
      simp [hpm]
    · simp only [hx, false_or, if_false]
      by_cases hxk : x ∈ ks
      · simp only [hxk, if_true, true_or, not_true, and_false, iff_false]
        rintro ⟨⟨h1, _⟩, h3⟩
        obtain ⟨o, hg⟩ := w.alive_get x h1
        simp [hg] at h3
      · simp only [hxk, if_false, false_or]
        constructor
        · rintro ⟨⟨h1, h2⟩, h3⟩; exact ⟨⟨h1, h3⟩, h2⟩
        · rintro ⟨⟨h1, h3⟩, h2⟩; exact ⟨⟨h1, h2⟩, h3⟩
  · intro x hx
    by_cases hxp : x = p
    · exact .inl hxp
    · right
      rw [← isSome_vw] at hx ⊢
      rwa [hsame x hxp] at hx


/-! ## the case analysis -/

theorem map_absT_ids {h : Heap} {n : Nat} {l : List Tree} (hl : ∀ t ∈ l, t = absT h n t.id) :
    (l.map Tree.id).map (absT h n) = l := by
  induction l with
  | nil => rfl
  | cons t l ih =>
    simp only [List.map_cons]
    rw [ih fun u hu => hl u (List.mem_cons_of_mem _ hu), ← hl t List.mem_cons_self]

theorem nodup_reverse' {α} (l : List α) : l.reverse.Nodup ↔ l.Nodup := (List.reverse_perm l).nodup_iff

theorem foldl_mergeP_ids (g : Heap) (r : Nat) (l : List Tree) :
    l.foldl (fun acc m => acc.mergeP r m.id) g = (l.map Tree.id).foldl (fun acc m => acc.mergeP r m) g := by
  rw [List.foldl_map]

/-- the three sub-cases of "several adjacent structures" -/
theorem joinObjMK_spec {h : Heap} (p : Nat) (mrg keep : List Tree) (w : WF h) (hs : AncSound h)
    (hp : h.get p = none)
    (hmrg : ∀ t ∈ mrg, t.id ∈ rootsOf h ∧ t = absT h h.size t.id ∧ h.kidsOf t.id = [])
    (hkeep : ∀ t ∈ keep, t.id ∈ rootsOf h ∧ t = absT h h.size t.id)
    (hmn : (mrg.map Tree.id).Nodup) (hkn : (keep.map Tree.id).Nodup)
    (hdis : ∀ x ∈ mrg.map Tree.id, x ∉ keep.map Tree.id) :
    Spec h p (mrg.map Tree.id ++ keep.map Tree.id) (joinAdjMK p mrg keep)
      (joinObjMK h p mrg keep).1 (joinObjMK h p mrg keep).2 := by
  have hmsOf : ∀ l : List Tree, (∀ t ∈ l, t ∈ mrg) →
      ∀ m ∈ l.map Tree.id, m ∈ rootsOf h ∧ h.kidsOf m = [] := by
    intro l hl m hm
    obtain ⟨t, ht, rfl⟩ := List.mem_map.1 hm
    exact ⟨(hmrg t (hl t ht)).1, (hmrg t (hl t ht)).2.2⟩
  cases keep with
  | nil =>
    have hrr : mrg = mrg.reverse.reverse := (List.reverse_reverse _).symm
    unfold joinObjMK joinAdjMK
    simp only []
    generalize mrg.reverse = rv at hrr ⊢
    subst hrr
    cases rv with
    | nil => exact attachChain p [] [] w hs hp List.nodup_nil (by simp) List.nodup_nil (by simp)
    | cons b others =>
      simp only []
      have hb : b ∈ (b :: others).reverse := by simp
      have hsub : ∀ t ∈ others.reverse, t ∈ (b :: others).reverse := by
        intro t ht; simp at ht ⊢; exact .inl ht
      simp only [List.map_reverse, nodup_reverse', List.map_cons, List.nodup_cons] at hmn
      have c := addChain (r := b.id) p (others.reverse.map Tree.id) w hs (hmrg b hb).1
        (by simp only [List.map_reverse, nodup_reverse']; exact hmn.2)
        (by simp only [List.map_reverse, List.mem_reverse]; exact hmn.1)
        (hmsOf _ hsub)
      rw [foldl_mergeP_ids]
      refine c.congr (fun x => by simp [or_comm]) ?_
      rw [map_absT_ids fun t ht => (hmrg t (hsub t ht)).2.1, ← (hmrg b hb).2.1]
  | cons t ks =>
    cases ks with
    | nil =>
      unfold joinObjMK joinAdjMK
      simp only []
      have ht := hkeep t List.mem_cons_self
      have c := addChain (r := t.id) p (mrg.map Tree.id) w hs ht.1 hmn
        (fun hm => hdis _ hm (by simp)) (hmsOf mrg fun _ h => h)
      rw [foldl_mergeP_ids]
      refine c.congr (fun x => by simp [or_comm]) ?_
      rw [map_absT_ids fun u hu => (hmrg u hu).2.1, ← ht.2]
    | cons t2 ks2 =>
      unfold joinObjMK joinAdjMK
      simp only []
      have c := attachChain p ((t :: t2 :: ks2).map Tree.id) (mrg.map Tree.id) w hs hp hkn
        (fun k hk => by
          obtain ⟨u, hu, rfl⟩ := List.mem_map.1 hk
          exact (hkeep u hu).1) hmn
        (fun m hm => ⟨(hmsOf mrg (fun _ h => h) m hm).1, (hmsOf mrg (fun _ h => h) m hm).2, hdis m hm⟩)
      rw [foldl_mergeP_ids]
      refine c.congr (fun x => by simp only [List.mem_append]; exact or_comm) ?_
      rw [map_absT_ids fun u hu => (hmrg u hu).2.1, map_absT_ids fun u hu => (hkeep u hu).2]


theorem insig_leaf {E : Env} {p : Nat} {t : Tree} (hi : insig E p t = true) : t.kids = [] := by
  unfold insig at hi
  rw [Bool.and_eq_true] at hi
  exact List.isEmpty_iff.1 hi.1

/-- ALL FIVE CASES of `joinAdj`: for adjacent roots `adj` that are (abstractions of) distinct parentless
    alive objects of a well-formed heap and a fresh identifier `p`, the object operations of the loop body
    produce a heap in which the receiving object abstracts to `joinAdj E p adj`, every other tree is
    unchanged, the parentless alive objects are the receiving one and the old non-adjacent ones, and
    `WF` / `AncSound` still hold -/
theorem joinObj_spec (E : Env) {h : Heap} (p : Nat) (adj : List Tree) (w : WF h) (hs : AncSound h)
    (hp : h.get p = none) (hadj : ∀ t ∈ adj, t.id ∈ rootsOf h ∧ t = absT h h.size t.id)
    (hnd : (adj.map Tree.id).Nodup) :
    Spec h p (adj.map Tree.id) (joinAdj E p adj) (joinObj E h p adj).1 (joinObj E h p adj).2 := by
  match adj, hadj, hnd with
  | [], _, _ => exact attachChain p [] [] w hs hp List.nodup_nil (by simp) List.nodup_nil (by simp)
  | [t], hadj, _ =>
    have ht := hadj t List.mem_cons_self
    have c := addChain (r := t.id) p [] w hs ht.1 List.nodup_nil (by simp) (by simp)
    refine c.congr (fun x => by simp) ?_
    show (absT h h.size t.id).addPixel p = t.addPixel p
    rw [← ht.2]
  | a :: b :: l, hadj, hnd =>
    rw [joinAdj_multi]
    show Spec h p _ _ (joinObjMK h p ((a :: b :: l).filter (insig E p))
      ((a :: b :: l).filter (fun t => !insig E p t))).1 (joinObjMK h p ((a :: b :: l).filter (insig E p))
      ((a :: b :: l).filter (fun t => !insig E p t))).2
    generalize a :: b :: l = adj at hadj hnd ⊢
    have c := joinObjMK_spec p (adj.filter (insig E p)) (adj.filter (fun t => !insig E p t)) w hs hp
      (fun t ht => by
        obtain ⟨h1, h2⟩ := List.mem_filter.1 ht
        refine ⟨(hadj t h1).1, (hadj t h1).2, ?_⟩
        have hk := insig_leaf h2
        rw [(hadj t h1).2, size_eq, absT_kids_nil] at hk
        exact hk)
      (fun t ht => hadj t (List.mem_filter.1 ht).1)
      (((List.filter_sublist (l := adj)).map Tree.id).nodup hnd)
      (((List.filter_sublist (l := adj)).map Tree.id).nodup hnd)
      (fun x hx hx' => by
        obtain ⟨t, ht, rfl⟩ := List.mem_map.1 hx
        obtain ⟨u, hu, e⟩ := List.mem_map.1 hx'
        obtain ⟨h1, h2⟩ := List.mem_filter.1 ht
        obtain ⟨h3, h4⟩ := List.mem_filter.1 hu
        have : u = t := by rw [(hadj u h3).2, (hadj t h1).2, e]
        subst this
        simp [h2] at h4)
    refine c.congr (fun x => ?_) rfl
    simp only [List.mem_append, List.mem_map, List.mem_filter]
    constructor
    · rintro (⟨t, ⟨ht, _⟩, rfl⟩ | ⟨t, ⟨ht, _⟩, rfl⟩) <;> exact ⟨t, ht, rfl⟩
    · rintro ⟨t, ht, rfl⟩
      by_cases hi : insig E p t = true
      · exact .inl ⟨t, ⟨ht, hi⟩, rfl⟩
      · exact .inr ⟨t, ⟨ht, by simp [hi]⟩, rfl⟩


/-! ## one iteration of the loop -/

/-- the invariant of the loop on objects: the heap is well-formed, the cached ancestors are sound, and the
    carried root list enumerates the parentless alive objects without repetition -/
structure Inv (s : OState) : Prop where
  wf : WF s.h
  anc : AncSound s.h
  nodup : s.roots.Nodup
  roots : ∀ r, r ∈ s.roots ↔ r ∈ rootsOf s.h

theorem mem_adjOf {E : Env} {h : Heap} {roots : List Nat} {p : Nat} {t : Tree} :
    t ∈ adjOf E h roots p ↔ ∃ r ∈ roots, t = absT h h.size r ∧ touches E p (absT h h.size r) = true := by
  unfold adjOf absF
  rw [mem_sortById, List.mem_filter, List.mem_map]
  constructor
  · rintro ⟨⟨r, hr, rfl⟩, ht⟩; exact ⟨r, hr, rfl, ht⟩
  · rintro ⟨r, hr, rfl, ht⟩; exact ⟨⟨r, hr, rfl⟩, ht⟩

theorem mem_adjOf_ids {E : Env} {h : Heap} {roots : List Nat} {p x : Nat} :
    x ∈ (adjOf E h roots p).map Tree.id ↔ x ∈ roots ∧ touches E p (absT h h.size x) = true := by
  rw [List.mem_map]
  constructor
  · rintro ⟨t, ht, rfl⟩
    obtain ⟨r, hr, rfl, htt⟩ := mem_adjOf.1 ht
    rw [absT_id]; exact ⟨hr, htt⟩
  · rintro ⟨hx, ht⟩
    exact ⟨_, mem_adjOf.2 ⟨x, hx, rfl, ht⟩, absT_id _ _ _⟩

theorem adjOf_ids_nodup {E : Env} {h : Heap} {roots : List Nat} {p : Nat} (hnd : roots.Nodup) :
    ((adjOf E h roots p).map Tree.id).Nodup := by
  unfold adjOf
  refine ((sortById_perm _).map Tree.id).nodup_iff.2 ?_
  refine ((List.filter_sublist (l := absF h h.size roots)).map Tree.id).nodup ?_
  unfold absF
  rw [map_id_absT]
  exact hnd

/-- the object that receives the pixel -/
def recvO (E : Env) (s : OState) (p : Nat) : Nat := (joinObj E s.h p (adjOf E s.h s.roots p)).2

theorem stepO_roots (E : Env) (s : OState) (p : Nat) :
    (stepO E s p).roots = s.roots.filter (fun i => !touches E p (absT s.h s.h.size i)) ++ [recvO E s p] := rfl

/-- the specification of one iteration, for the adjacent roots the functional model computes -/
theorem stepO_spec (E : Env) (s : OState) (p : Nat) (hi : Inv s) (hp : s.h.get p = none) :
    Spec s.h p ((adjOf E s.h s.roots p).map Tree.id) (joinAdj E p (adjOf E s.h s.roots p))
      (stepO E s p).h (recvO E s p) :=
  joinObj_spec E p (adjOf E s.h s.roots p) hi.wf hi.anc hp
    (fun t ht => by
      obtain ⟨r, hr, rfl, _⟩ := mem_adjOf.1 ht
      rw [absT_id]; exact ⟨(hi.roots r).1 hr, rfl⟩)
    (adjOf_ids_nodup hi.nodup)

/-- MAIN 1.  One iteration of the pixel loop on OBJECTS (`newLeafP` / `addPixelP` / `mergeP` / `attachP`
    as `compute` applies them), seen through the abstraction, is exactly `step` of the functional model:
    same trees, same order of the root list. -/
theorem stepO_refines (E : Env) (s : OState) (p : Nat) (hi : Inv s) (hp : s.h.get p = none) :
    absF (stepO E s p).h (stepO E s p).h.size (stepO E s p).roots =
      step E (absF s.h s.h.size s.roots) p := by
  have c := stepO_spec E s p hi hp
  rw [stepO_roots]
  unfold step
  unfold absF
  rw [List.map_append, List.map_cons, List.map_nil, c.recv]
  congr 1
  rw [List.filter_map, ← absF]
  apply List.map_congr_left
  intro x hx
  obtain ⟨hx1, hx2⟩ := List.mem_filter.1 hx
  refine c.frame x (mem_rootsOf.1 ((hi.roots x).1 hx1)).1 fun hxa => ?_
  have := (mem_adjOf_ids.1 hxa).2
  simp [this] at hx2

/-- 2.  One iteration preserves the invariant (`P17.WF`, `P37.AncSound`, the root list), and the only
    identifier that may be new is `p` -/
theorem stepO_inv (E : Env) (s : OState) (p : Nat) (hi : Inv s) (hp : s.h.get p = none) :
    Inv (stepO E s p) ∧ ∀ x, ((stepO E s p).h.get x).isSome → x = p ∨ (s.h.get x).isSome := by
  have c := stepO_spec E s p hi hp
  have hr := stepO_roots E s p
  have hpr : p ∉ s.roots := fun h => by
    obtain ⟨o, hg⟩ := hi.wf.alive_get p (mem_rootsOf.1 ((hi.roots p).1 h)).1
    rw [hp] at hg; cases hg
  have hun : ∀ x, x ∈ s.roots.filter (fun i => !touches E p (absT s.h s.h.size i)) ↔
      x ∈ rootsOf s.h ∧ x ∉ (adjOf E s.h s.roots p).map Tree.id := by
    intro x
    rw [List.mem_filter, mem_adjOf_ids, hi.roots x]
    constructor
    · rintro ⟨h1, h2⟩; exact ⟨h1, fun h => by simp [h.2] at h2⟩
    · rintro ⟨h1, h2⟩; exact ⟨h1, by
        cases ht : touches E p (absT s.h s.h.size x) with
        | false => rfl
        | true => exact absurd ⟨h1, ht⟩ h2⟩
  refine ⟨⟨c.wf, c.anc, ?_, ?_⟩, c.dom⟩
  · rw [hr]
    refine List.nodup_append.2 ⟨(List.filter_sublist (l := s.roots)).nodup hi.nodup, by simp, ?_⟩
    intro a ha b hb e
    rw [List.mem_singleton] at hb
    have h1 := (hun a).1 ha
    rw [e, hb] at h1
    rcases c.rid with e' | e'
    · exact hpr (e' ▸ (hi.roots _).2 h1.1)
    · exact h1.2 e'
  · intro x
    rw [c.roots x, hr, List.mem_append, List.mem_singleton, hun x]
    exact or_comm


/-! ## the bare-heap formulation: roots taken from `rootsOf` -/

theorem filter_absF_ids_nodup {E : Env} {h : Heap} {roots : List Nat} {p : Nat} (hnd : roots.Nodup) :
    ((((absF h h.size roots).filter (touches E p))).map Tree.id).Nodup := by
  refine ((List.filter_sublist (l := absF h h.size roots)).map Tree.id).nodup ?_
  unfold absF
  rw [map_id_absT]
  exact hnd

/-- the adjacent roots do not depend on the order in which the roots are listed -/
theorem adjOf_congr {E : Env} {h : Heap} {p : Nat} {l1 l2 : List Nat} (h1 : l1.Nodup) (h2 : l2.Nodup)
    (hm : ∀ x, x ∈ l1 ↔ x ∈ l2) : adjOf E h l1 p = adjOf E h l2 p := by
  refine P36.sorted_ext (P36.sortById_strict _ (filter_absF_ids_nodup h1))
    (P36.sortById_strict _ (filter_absF_ids_nodup h2)) fun t => ?_
  show t ∈ adjOf E h l1 p ↔ t ∈ adjOf E h l2 p
  rw [mem_adjOf, mem_adjOf]
  constructor
  · rintro ⟨r, hr, h3⟩; exact ⟨r, (hm r).1 hr, h3⟩
  · rintro ⟨r, hr, h3⟩; exact ⟨r, (hm r).2 hr, h3⟩

theorem rootsOf_nodup {h : Heap} (w : WF h) : (rootsOf h).Nodup := by
  unfold rootsOf
  exact (List.filter_sublist (l := h.alive)).nodup w.alive_nodup

/-- `stepObj` (roots from `rootsOf`) is the heap component of `stepO` (roots carried) -/
theorem stepObj_eq (E : Env) (s : OState) (p : Nat) (hi : Inv s) : stepObj E s.h p = (stepO E s p).h := by
  unfold stepObj
  rw [adjOf_congr (rootsOf_nodup hi.wf) hi.nodup (fun x => (hi.roots x).symm)]
  rfl

theorem inv_rootsOf {h : Heap} (w : WF h) (hs : AncSound h) : Inv { h := h, roots := rootsOf h } :=
  ⟨w, hs, rootsOf_nodup w, fun _ => Iff.rfl⟩

/-- MAIN 1 on the bare heap: with `roots := rootsOf h` and
    `rootsNew := (the untouched ones of roots) ++ [receiving object]`, as in `step` -/
theorem stepObj_refines (E : Env) (h : Heap) (p : Nat) (w : WF h) (hs : AncSound h) (hp : h.get p = none) :
    absF (stepObj E h p) (stepObj E h p).size
        ((rootsOf h).filter (fun i => !touches E p (absT h h.size i)) ++
          [recvO E { h := h, roots := rootsOf h } p]) =
      step E (absF h h.size (rootsOf h)) p ∧
    ∀ x, x ∈ (rootsOf h).filter (fun i => !touches E p (absT h h.size i)) ++
          [recvO E { h := h, roots := rootsOf h } p] ↔ x ∈ rootsOf (stepObj E h p) := by
  have hi := inv_rootsOf w hs
  have e := stepObj_eq E _ p hi
  have r := stepO_refines E _ p hi hp
  rw [stepO_roots, ← e] at r
  refine ⟨r, fun x => ?_⟩
  have := (stepO_inv E _ p hi hp).1.roots x
  rw [stepO_roots, ← e] at this
  exact this

/-- 2 on the bare heap -/
theorem stepObj_inv (E : Env) (h : Heap) (p : Nat) (w : WF h) (hs : AncSound h) (hp : h.get p = none) :
    WF (stepObj E h p) ∧ AncSound (stepObj E h p) := by
  have hi := inv_rootsOf w hs
  rw [stepObj_eq E _ p hi]
  exact ⟨(stepO_inv E _ p hi hp).1.wf, (stepO_inv E _ p hi hp).1.anc⟩

/-! ## the cached `ancestor` queries of an iteration -/

/-- the calls `structures[a].ancestor` (dendrogram.py:245); each fills the `_ancestor` cache of `a` -/
def queryAll (h : Heap) (qs : List Nat) : Heap := (qs.map GOp.qAnc).foldl stepG h

theorem vw_ancestor (h : Heap) (fuel i x : Nat) : vw (h.ancestor fuel i).1 x = vw h x := by
  unfold Heap.ancestor
  cases hgi : h.get i with
  | none => rfl
  | some io =>
    simp only []
    cases hp : io.parent with
    | none => rfl
    | some q =>
      simp only []
      cases hw : h.walkAnc fuel (io.anc.getD q) with
      | none => rfl
      | some r =>
        simp only []
        rw [vw_update h i (fun o => { o with anc := some r }) (fun _ => rfl) (fun _ => rfl) id (fun _ => rfl)]
        split
        · rename_i hx; subst hx; cases vw h x <;> rfl
        · rfl

structure QuerySpec (h h' : Heap) : Prop where
  wf : WF h'
  anc : AncSound h'
  same : SameLinks h h'
  view : ∀ x, vw h' x = vw h x

theorem queryAll_spec (qs : List Nat) {h : Heap} (w : WF h) (hs : AncSound h) (hq : ∀ i ∈ qs, i ∈ h.alive) :
    QuerySpec h (queryAll h qs) := by
  induction qs generalizing h with
  | nil => exact ⟨w, hs, .refl h, fun _ => rfl⟩
  | cons i qs ih =>
    obtain ⟨_, _, w1, hs1, s1⟩ := ancestor_grow h i w hs (hq i List.mem_cons_self)
    have c := ih w1 hs1 (fun j hj => by rw [s1.alive]; exact hq j (List.mem_cons_of_mem _ hj))
    exact ⟨c.wf, c.anc, s1.trans c.same, fun x => (c.view x).trans (vw_ancestor h h.size i x)⟩

theorem legalGrow_queries (qs : List Nat) {h : Heap} (w : WF h) (hs : AncSound h)
    (hq : ∀ i ∈ qs, i ∈ h.alive) : LegalGrow h (qs.map GOp.qAnc) := by
  induction qs generalizing h with
  | nil => trivial
  | cons i qs ih =>
    obtain ⟨_, _, w1, hs1, s1⟩ := ancestor_grow h i w hs (hq i List.mem_cons_self)
    exact ⟨hq i List.mem_cons_self,
      ih (h := (h.ancestor h.size i).1) w1 hs1
        (fun j hj => by rw [s1.alive]; exact hq j (List.mem_cons_of_mem _ hj))⟩

theorem rootsOf_same {h h' : Heap} (s : SameLinks h h') : rootsOf h' = rootsOf h := by
  unfold rootsOf
  rw [s.alive]
  apply List.filter_congr
  intro x _
  rw [parent_same s]

/-- the queries are invisible to the abstraction and keep the invariant -/
theorem query_inv {s : OState} (qs : List Nat) (hi : Inv s) (hq : ∀ i ∈ qs, i ∈ s.h.alive) :
    Inv { s with h := queryAll s.h qs } ∧
    absF (queryAll s.h qs) (queryAll s.h qs).size s.roots = absF s.h s.h.size s.roots ∧
    ∀ x, ((queryAll s.h qs).get x).isSome = (s.h.get x).isSome := by
  have c := queryAll_spec qs hi.wf hi.anc hq
  have hro : ∀ r, r ∈ s.roots ↔ r ∈ rootsOf (queryAll s.h qs) := fun r => by
    rw [rootsOf_same c.same]; exact hi.roots r
  refine ⟨⟨c.wf, c.anc, hi.nodup, hro⟩, ?_, fun x => by rw [← isSome_vw, ← isSome_vw, c.view x]⟩
  rw [c.same.size]
  unfold absF
  apply List.map_congr_left
  intro x _
  exact absT_congr c.view _ x


/-! ## the whole loop, with the `ancestor` queries of every iteration -/

/-- one iteration as the code runs it: first the cached `ancestor` queries `qp.1` (any alive objects - in
    the code: the labels of the neighbours), then the object operations for pixel `qp.2` -/
def stepOQ (E : Env) (s : OState) (qp : List Nat × Nat) : OState :=
  stepO E { s with h := queryAll s.h qp.1 } qp.2

def runOQ (E : Env) (steps : List (List Nat × Nat)) : OState := steps.foldl (stepOQ E) {}

/-- every queried object is alive at the moment of its query -/
def LegalOQ (E : Env) : OState → List (List Nat × Nat) → Prop
  | _, [] => True
  | s, qp :: rest => (∀ i ∈ qp.1, i ∈ s.h.alive) ∧ LegalOQ E (stepOQ E s qp) rest

/-- for every query of the history: (answer of the cached `ancestor`, `specRoot` from the live links) -/
def traceOQ (E : Env) : OState → List (List Nat × Nat) → List (Option Nat × Option Nat)
  | _, [] => []
  | s, qp :: rest => runGrow s.h (qp.1.map GOp.qAnc) ++ traceOQ E (stepOQ E s qp) rest

theorem stepOQ_nil (E : Env) (s : OState) (p : Nat) : stepOQ E s ([], p) = stepO E s p := rfl

theorem empty_inv : Inv ({} : OState) :=
  ⟨empty_wf, empty_ancSound, List.nodup_nil, fun r => by simp [rootsOf]⟩

/-- the loop from any state satisfying the invariant, all object identifiers among `pre`, the pixels still
    to come distinct and not in `pre` -/
theorem foldl_stepOQ_spec (E : Env) (steps : List (List Nat × Nat)) (s : OState) (pre : List Nat)
    (hi : Inv s) (hd : ∀ x, (s.h.get x).isSome → x ∈ pre)
    (hnd : (pre ++ steps.map (·.2)).Nodup) (hl : LegalOQ E s steps) :
    Inv (steps.foldl (stepOQ E) s) ∧
    (∀ x, ((steps.foldl (stepOQ E) s).h.get x).isSome → x ∈ pre ++ steps.map (·.2)) ∧
    absF (steps.foldl (stepOQ E) s).h (steps.foldl (stepOQ E) s).h.size (steps.foldl (stepOQ E) s).roots =
      (steps.map (·.2)).foldl (step E) (absF s.h s.h.size s.roots) ∧
    ∀ pr ∈ traceOQ E s steps, pr.1 = pr.2 ∧ ∃ r, pr.1 = some r := by
  induction steps generalizing s pre with
  | nil => exact ⟨hi, by simpa using hd, rfl, fun pr hpr => by simp [traceOQ] at hpr⟩
  | cons qp rest ih =>
    obtain ⟨hq, hl'⟩ := hl
    obtain ⟨hi1, hF1, hd1⟩ := query_inv qp.1 hi hq
    have hfresh : (queryAll s.h qp.1).get qp.2 = none := by
      cases hg : (queryAll s.h qp.1).get qp.2 with
      | none => rfl
      | some o =>
        have h1 : ((queryAll s.h qp.1).get qp.2).isSome = true := by rw [hg]; rfl
        rw [hd1] at h1
        have h2 := hd _ h1
        have h3 := List.nodup_append.1 hnd
        exact absurd rfl (h3.2.2 _ h2 _ (by simp))
    obtain ⟨hi2, hd2⟩ := stepO_inv E _ qp.2 hi1 hfresh
    have hF2 := stepO_refines E _ qp.2 hi1 hfresh
    have hnd' : ((pre ++ [qp.2]) ++ rest.map (·.2)).Nodup := by
      simpa [List.append_assoc] using hnd
    obtain ⟨r1, r2, r3, r4⟩ := ih (stepOQ E s qp) (pre ++ [qp.2]) hi2
      (fun x hx => by
        rcases hd2 x hx with e | e
        · simp [e]
        · have : (s.h.get x).isSome = true := by rw [← hd1]; exact e
          exact List.mem_append_left _ (hd x this))
      hnd' hl'
    refine ⟨r1, ?_, ?_, ?_⟩
    · intro x hx
      have := r2 x hx
      simpa [List.append_assoc] using this
    · simp only [List.foldl_cons, List.map_cons]
      rw [r3]
      congr 1
      exact hF2.trans (congrArg (fun F => step E F qp.2) hF1)
    · intro pr hpr
      simp only [traceOQ, List.mem_append] at hpr
      rcases hpr with hpr | hpr
      · rw [runGrow_eq_trace, List.mem_map] at hpr
        obtain ⟨t, ht, rfl⟩ := hpr
        obtain ⟨h1, r, _, h2, _⟩ := grow_trace_sound s.h _ hi.wf hi.anc
          (legalGrow_queries qp.1 hi.wf hi.anc hq) t ht
        exact ⟨h1, r, h2⟩
      · exact r4 pr hpr

/-- 3 (with queries).  Along the real object history of `compute` - in every iteration first any cached
    `ancestor` queries on alive objects, then `newLeafP` / `addPixelP` / `mergeP` / `attachP` as the case
    analysis dictates - for a duplicate-free processing order:  the invariant (`P17.WF`, `P37.AncSound`,
    root list) holds at the end, every object identifier is a processed pixel, the abstracted forest is
    `run E order`, and EVERY cached `ancestor` answer equals `specRoot` from the live links at that moment -/
theorem runOQ_spec (E : Env) (steps : List (List Nat × Nat)) (hnd : (steps.map (·.2)).Nodup)
    (hl : LegalOQ E {} steps) :
    Inv (runOQ E steps) ∧
    (∀ x, ((runOQ E steps).h.get x).isSome → x ∈ steps.map (·.2)) ∧
    absF (runOQ E steps).h (runOQ E steps).h.size (runOQ E steps).roots = run E (steps.map (·.2)) ∧
    ∀ pr ∈ traceOQ E {} steps, pr.1 = pr.2 ∧ ∃ r, pr.1 = some r := by
  have := foldl_stepOQ_spec E steps {} [] empty_inv (fun x hx => by simp [Heap.get] at hx)
    (by simpa using hnd) hl
  simpa [runOQ, run, absF] using this

theorem runO_eq_runOQ (E : Env) (order : List Nat) : runO E order = runOQ E (order.map fun p => ([], p)) := by
  unfold runO runOQ
  rw [List.foldl_map]
  rfl

theorem legalOQ_noQueries (E : Env) (s : OState) (order : List Nat) :
    LegalOQ E s (order.map fun p => ([], p)) := by
  induction order generalizing s with
  | nil => trivial
  | cons p ps ih => exact ⟨fun i hi => (by cases hi), ih _⟩

/-- 3.  The loop on objects refines `run`: for a duplicate-free processing order (the pixels are the fresh
    identifiers), the abstraction of the object heap, with the carried root list, is `run E order`;
    `P17.WF` and `P37.AncSound` hold; the object identifiers are processed pixels -/
theorem runO_spec (E : Env) (order : List Nat) (hnd : order.Nodup) :
    Inv (runO E order) ∧
    (∀ x, ((runO E order).h.get x).isSome → x ∈ order) ∧
    absF (runO E order).h (runO E order).h.size (runO E order).roots = run E order := by
  have hm : (order.map fun p => (([] : List Nat), p)).map (·.2) = order := by
    rw [List.map_map]; exact List.map_id' order
  obtain ⟨h1, h2, h3, _⟩ := runOQ_spec E (order.map fun p => ([], p)) (by rw [hm]; exact hnd)
    (legalOQ_noQueries E {} order)
  rw [hm] at h2 h3
  rw [runO_eq_runOQ]
  exact ⟨h1, h2, h3⟩

/-- ... and this holds THROUGHOUT: after every prefix of the processing order -/
theorem runO_prefix_spec (E : Env) (order pre : List Nat) (hnd : order.Nodup) (hpre : pre <+: order) :
    WF (runO E pre).h ∧ AncSound (runO E pre).h ∧
    absF (runO E pre).h (runO E pre).h.size (runO E pre).roots = run E pre := by
  obtain ⟨h1, _, h3⟩ := runO_spec E pre (hpre.sublist.nodup hnd)
  exact ⟨h1.wf, h1.anc, h3⟩

/-- the bare-heap loop (`stepObj`, roots from `rootsOf`) computes the same heap -/
theorem runObj_eq (E : Env) (order : List Nat) (hnd : order.Nodup) : runObj E order = (runO E order).h := by
  suffices hs : ∀ (s : OState) (pre : List Nat), Inv s → (∀ x, (s.h.get x).isSome → x ∈ pre) →
      (pre ++ order).Nodup → order.foldl (stepObj E) s.h = (order.foldl (stepO E) s).h from
    hs {} [] empty_inv (fun x hx => by simp [Heap.get] at hx) (by simpa using hnd)
  induction order with
  | nil => intro s pre _ _ _; rfl
  | cons p ps ih =>
    intro s pre hi hd hnd'
    have hfresh : s.h.get p = none := by
      cases hg : s.h.get p with
      | none => rfl
      | some o =>
        have h2 := hd p (by rw [hg]; rfl)
        exact absurd rfl ((List.nodup_append.1 hnd').2.2 _ h2 _ (by simp))
    obtain ⟨hi2, hd2⟩ := stepO_inv E s p hi hfresh
    simp only [List.foldl_cons]
    rw [stepObj_eq E s p hi]
    exact ih (List.nodup_cons.1 hnd).2 (stepO E s p) (pre ++ [p]) hi2
      (fun x hx => by
        rcases hd2 x hx with e | e
        · simp [e]
        · exact List.mem_append_left _ (hd x e))
      (by simpa [List.append_assoc] using hnd')

/-- 3 on the bare heap: `absF (runObj E order) … = run E order`, `WF`, `AncSound`; the root list is the
    carried one, a duplicate-free enumeration of `rootsOf (runObj E order)` -/
theorem runObj_refines (E : Env) (order : List Nat) (hnd : order.Nodup) :
    WF (runObj E order) ∧ AncSound (runObj E order) ∧
    absF (runObj E order) (runObj E order).size (runO E order).roots = run E order ∧
    (runO E order).roots.Nodup ∧ ∀ r, r ∈ (runO E order).roots ↔ r ∈ rootsOf (runObj E order) := by
  obtain ⟨h1, _, h3⟩ := runO_spec E order hnd
  rw [runObj_eq E order hnd]
  exact ⟨h1.wf, h1.anc, h3, h1.nodup, h1.roots⟩

/-- the cache theorem at every step of the real object history: after any prefix of the processing order,
    the cached `Structure.ancestor` of any alive object answers `specRoot` from the live links, and the
    answer is an alive parentless object -/
theorem runObj_ancestor_sound (E : Env) (order pre : List Nat) (hnd : order.Nodup) (hpre : pre <+: order)
    (i : Nat) (hi : i ∈ (runObj E pre).alive) :
    ((runObj E pre).ancestor (runObj E pre).size i).2 = (runObj E pre).specRoot (runObj E pre).size i ∧
    IsRootOf (runObj E pre) ((runObj E pre).ancestor (runObj E pre).size i).2 := by
  obtain ⟨w, hs, _⟩ := runObj_refines E pre (hpre.sublist.nodup hnd)
  obtain ⟨h1, h2, _⟩ := ancestor_grow (runObj E pre) i w hs hi
  exact ⟨h1, h2⟩


/-! ## non-vacuity: concrete instances, evaluated -/

instance decLegalOQ (E : Env) : (s : OState) → (steps : List (List Nat × Nat)) → Decidable (LegalOQ E s steps)
  | _, [] => isTrue trivial
  | s, qp :: rest =>
    have := decLegalOQ E (stepOQ E s qp) rest
    inferInstanceAs (Decidable ((∀ i ∈ qp.1, i ∈ s.h.alive) ∧ LegalOQ E (stepOQ E s qp) rest))

/-- the row `3 1 2 1 3` of `P36.rowEnv` (cell 5 is the padding cell), order `[4, 0, 2, 3, 1]`:
    three new leaves; pixel 3 meets the leaves 2 (merged: 2 - 1 < 2) and 4 (kept) - "one kept";
    pixel 1 meets the leaves 0 and 4, both kept - "several kept", a new branch `1` -/
example : (runObj P36.rowEnv P36.rowOrder).objs.map (fun o => (o.id, o.parent, o.kids, o.own)) =
      [(1, none, [0, 4], [1]), (2, none, [], [2]), (0, some 1, [], [0]), (4, some 1, [], [4, 3, 2])] ∧
    (runObj P36.rowEnv P36.rowOrder).alive = [1, 0, 4] ∧ (runO P36.rowEnv P36.rowOrder).roots = [1] := by
  decide

example : absF (runObj P36.rowEnv P36.rowOrder) (runObj P36.rowEnv P36.rowOrder).size
    (runO P36.rowEnv P36.rowOrder).roots = run P36.rowEnv P36.rowOrder := by rfl

example : absF (runObj P36.rowEnv P36.rowOrder) (runObj P36.rowEnv P36.rowOrder).size
    (runO P36.rowEnv P36.rowOrder).roots = [node 1 [1] [node 0 [0] [], node 4 [4, 3, 2] []]] := by rfl

/-- why the root order is carried: with `rootsOf` (order of the `alive` list) the forest is a permutation
    of `run`, not equal to it - already after the two leaves `4`, `0` -/
example : (absF (runObj P36.rowEnv [4, 0]) (runObj P36.rowEnv [4, 0]).size
      (rootsOf (runObj P36.rowEnv [4, 0]))).map Tree.id = [0, 4] ∧
    (run P36.rowEnv [4, 0]).map Tree.id = [4, 0] ∧ (runO P36.rowEnv [4, 0]).roots = [4, 0] := by decide

/-- every intermediate state, step by step (root order included) -/
example : ∀ k ∈ List.range 6,
    (absF (runO P36.rowEnv (P36.rowOrder.take k)).h (runO P36.rowEnv (P36.rowOrder.take k)).h.size
      (runO P36.rowEnv (P36.rowOrder.take k)).roots).map (fun t => (t.id, t.own, t.kids.map Tree.id)) =
    (run P36.rowEnv (P36.rowOrder.take k)).map (fun t => (t.id, t.own, t.kids.map Tree.id)) := by decide

/-- the general theorems apply to the instance -/
example : WF (runObj P36.rowEnv P36.rowOrder) ∧ AncSound (runObj P36.rowEnv P36.rowOrder) ∧
    absF (runObj P36.rowEnv P36.rowOrder) (runObj P36.rowEnv P36.rowOrder).size
      (runO P36.rowEnv P36.rowOrder).roots = run P36.rowEnv P36.rowOrder :=
  let t := runObj_refines P36.rowEnv P36.rowOrder (by decide)
  ⟨t.1, t.2.1, t.2.2.1⟩

/-- the same history with the `ancestor` queries the code makes (labels of the assigned neighbours), and
    one more pixel `7` (not adjacent to anything) before which `0, 4, 1, 0` are queried: the cached answers
    follow the new branch `1` -/
def rowSteps : List (List Nat × Nat) :=
  [([], 4), ([], 0), ([], 2), ([2, 4], 3), ([0, 4], 1), ([0, 4, 1, 0], 7)]

example : LegalOQ P36.rowEnv {} rowSteps := by decide

example : traceOQ P36.rowEnv {} rowSteps =
    [(some 2, some 2), (some 4, some 4), (some 0, some 0), (some 4, some 4),
     (some 1, some 1), (some 1, some 1), (some 1, some 1), (some 1, some 1)] := by decide

example : ((runOQ P36.rowEnv rowSteps).h.get 0).bind (·.anc) = some 1 := by decide

example : ∀ pr ∈ traceOQ P36.rowEnv {} rowSteps, pr.1 = pr.2 ∧ ∃ r, pr.1 = some r :=
  (runOQ_spec P36.rowEnv rowSteps (by decide) (by decide)).2.2.2

/-- a second row, `2 2 1 2 0`, order `[0, 1, 3, 2, 4]`: new leaf; "one adjacent structure" (pixel 1 joins 0);
    new leaf 3; pixel 2 meets the leaves 0 and 3, both merged - "none kept": the last one (`merge.pop()`, 3)
    receives the pixel and absorbs 0; pixel 4 joins 3 -/
def row2Env : Env where
  val := fun i => [2, 2, 1, 2, 0].getD i 0
  nbrs := fun i => [[5, 1], [0, 2], [1, 3], [2, 4], [3, 5]].getD i []
  indep := fun t _ v => decide (2 ≤ t.vmax (fun i => [2, 2, 1, 2, 0].getD i 0) - v)
  indepOrphan := fun _ => true

example : absF (runObj row2Env [0, 1, 3, 2, 4]) (runObj row2Env [0, 1, 3, 2, 4]).size
    (runO row2Env [0, 1, 3, 2, 4]).roots = run row2Env [0, 1, 3, 2, 4] := by rfl

example : run row2Env [0, 1, 3, 2, 4] = [node 3 [3, 2, 0, 1, 4] []] ∧
    (runObj row2Env [0, 1, 3, 2, 4]).alive = [3] := ⟨rfl, by decide⟩

/-! ## sharpness: the pixel must be a fresh identifier

If a pixel is processed twice (`argsort` never does that), two objects carry the same identifier, `Heap.get` /
`Heap.update` address both, and the object history no longer refines `run` (`P36.dupEnv`: pixel 6 is
adjacent to pixel 5, all values equal). -/

example : (absF (runO P36.dupEnv [5, 5, 6]).h (runO P36.dupEnv [5, 5, 6]).h.size
      (runO P36.dupEnv [5, 5, 6]).roots).map Tree.own = [[5, 6, 5, 6]] ∧
    (run P36.dupEnv [5, 5, 6]).map Tree.own = [[5, 6, 5]] ∧
    ¬ (runO P36.dupEnv [5, 5]).h.alive.Nodup := by decide

end P42
