import ADModel
/-! helper lemmas on trees, pixel lists, sorting by id — core Lean only -/
open Tree

theorem pixelsL_eq (ts : List Tree) : pixelsL ts = ts.flatMap pixels := by
  induction ts with
  | nil => simp [pixelsL]
  | cons t ts ih => simp [pixelsL, ih]

theorem pixels_eq (t : Tree) : t.pixels = t.own ++ pixelsL t.kids := by
  cases t; simp [pixels, Tree.own, Tree.kids]

theorem mem_pixelsL {x : Nat} {ts : List Tree} : x ∈ pixelsL ts ↔ ∃ t ∈ ts, x ∈ t.pixels := by
  rw [pixelsL_eq]; simp [List.mem_flatMap]

theorem pixelsL_append (a b : List Tree) : pixelsL (a ++ b) = pixelsL a ++ pixelsL b := by
  simp [pixelsL_eq]

theorem pixelsL_perm {a b : List Tree} (h : a.Perm b) : (pixelsL a).Perm (pixelsL b) := by
  rw [pixelsL_eq, pixelsL_eq]; exact h.flatMap_right _

theorem preL_append (a b : List Tree) : preL (a ++ b) = preL a ++ preL b := by
  induction a with
  | nil => simp [preL]
  | cons t ts ih => simp [preL, ih]

theorem sizeL_append (a b : List Tree) : sizeL (a ++ b) = sizeL a + sizeL b := by
  induction a with
  | nil => simp [sizeL]
  | cons t ts ih => simp [sizeL, ih]; omega

theorem pre_eq (t : Tree) : pre t = t :: preL t.kids := by
  cases t; simp [pre, Tree.kids]

theorem filter_partition_perm {α} (l : List α) (f : α → Bool) :
    l.Perm (l.filter f ++ l.filter (fun x => !f x)) := by
  induction l with
  | nil => simp
  | cons a l ih =>
    by_cases h : f a <;> simp [h]
    · exact ih
    · exact (ih.cons a).trans (List.perm_middle.symm)

theorem insertById_perm (t : Tree) (l : List Tree) : (insertById t l).Perm (t :: l) := by
  induction l with
  | nil => simp [insertById]
  | cons u us ih =>
    simp only [insertById]; split
    · exact List.Perm.refl _
    · exact (ih.cons u).trans (List.Perm.swap t u us)

theorem sortById_perm (l : List Tree) : (sortById l).Perm l := by
  induction l with
  | nil => simp [sortById]
  | cons t ts ih => exact (insertById_perm t _).trans (ih.cons t)

theorem mem_sortById {t : Tree} {l : List Tree} : t ∈ sortById l ↔ t ∈ l := (sortById_perm l).mem_iff

theorem pixels_addPixel (t : Tree) (p : Nat) : (t.addPixel p).pixels.Perm (p :: t.pixels) := by
  cases t with | node i o ks =>
  simp only [addPixel, pixels, Tree.own, Tree.kids, Tree.id, List.append_assoc]
  exact (List.perm_append_comm (l₁ := o) (l₂ := [p] ++ pixelsL ks)).trans
    (by simpa using (List.perm_append_comm (l₁ := pixelsL ks) (l₂ := o)).cons p)

theorem pixels_absorb_leaf (t m : Tree) (hm : m.isLeaf) : (t.absorb m).pixels.Perm (t.pixels ++ m.pixels) := by
  cases t with | node i o ks =>
  cases m with | node j o' ks' =>
  simp [isLeaf, Tree.kids] at hm
  subst hm
  simp only [absorb, pixels, pixelsL, Tree.own, Tree.kids, Tree.id, List.append_nil, List.append_assoc]
  exact List.Perm.append_left o List.perm_append_comm

theorem foldl_absorb_pixels (ms : List Tree) (hms : ∀ m ∈ ms, m.isLeaf) (t : Tree) :
    (ms.foldl Tree.absorb t).pixels.Perm (t.pixels ++ pixelsL ms) := by
  induction ms generalizing t with
  | nil => simp [pixelsL]
  | cons m ms ih =>
    simp only [List.foldl_cons, pixelsL]
    have h1 := ih (fun x hx => hms x (List.mem_cons_of_mem _ hx)) (t.absorb m)
    have h2 := pixels_absorb_leaf t m (hms m (List.mem_cons_self))
    exact h1.trans (by simpa [List.append_assoc] using h2.append_right (pixelsL ms))

theorem kids_addPixel (t : Tree) (p : Nat) : (t.addPixel p).kids = t.kids := by
  cases t; simp [addPixel, Tree.kids]
theorem id_addPixel (t : Tree) (p : Nat) : (t.addPixel p).id = t.id := by
  cases t; simp [addPixel, Tree.id]
theorem kids_absorb (t m : Tree) : (t.absorb m).kids = t.kids := by
  cases t; simp [absorb, Tree.kids]
theorem id_absorb (t m : Tree) : (t.absorb m).id = t.id := by
  cases t; simp [absorb, Tree.id]
theorem kids_foldl_absorb (ms : List Tree) (t : Tree) : (ms.foldl Tree.absorb t).kids = t.kids := by
  induction ms generalizing t with
  | nil => rfl
  | cons m ms ih => simp [List.foldl_cons, ih, kids_absorb]
theorem id_foldl_absorb (ms : List Tree) (t : Tree) : (ms.foldl Tree.absorb t).id = t.id := by
  induction ms generalizing t with
  | nil => rfl
  | cons m ms ih => simp [List.foldl_cons, ih, id_absorb]
