import ADProofs.PruneProofs
import ADProofs.IndexProofs
import ADProofs.SimProofs
import ADProofs.Contour
import ADProofs.RunInd
import ADModel.IO
/-!
# ADProofs.MiscProofs — trunk = connected components (C03), pruning and ancestors (C07),
save / load at the model level (C09 / C02), catalog rows (C12), memoisation (C10)

Core Lean only.
-/
open Tree

namespace P21

/-! ## A. trunk structures are exactly the connected components -/

/-- two above-threshold pixels are in the same parentless structure iff they are connected
through above-threshold pixels (`hnd` is not needed for the proof; it is kept because it is a
standing hypothesis on processing orders) -/
theorem trunk_eq_components (E : Env) (hsym : ∀ x y, y ∈ E.nbrs x → x ∈ E.nbrs y)
    (order : List Nat) (hnd : order.Nodup) (p q : Nat) (hp : p ∈ order) (hq : q ∈ order) :
    (∃ t ∈ run E order, p ∈ t.pixels ∧ q ∈ t.pixels) ↔ Conn E.nbrs (fun x => x ∈ order) p q := by
  have hmem : ∀ x, x ∈ pixelsL (run E order) ↔ x ∈ order := by
    intro x; rw [(run_pixels E order).mem_iff]; simp
  have hclosed : Closed E (run E order) :=
    run_induction E (Closed E) (by intro t ht; simp at ht)
      (fun roots p h => step_closed E hsym roots p h) order
  constructor
  · rintro ⟨t, ht, hpt, hqt⟩
    have _ := hnd
    have _ := hq
    have hc : PixConn E t :=
      ContourP.run_all_connected E hsym order t (mem_preL_of_mem ht)
    refine (hc p q hpt hqt).mono ?_
    intro x hx
    exact (hmem x).mp (mem_pixelsL.mpr ⟨t, ht, hx⟩)
  · intro hc
    obtain ⟨t, ht, hpt⟩ := mem_pixelsL.mp ((hmem p).mpr hp)
    refine ⟨t, ht, hpt, ?_⟩
    clear hq
    induction hc with
    | refl => exact hpt
    | @tail b c _ hn hs ih =>
      obtain ⟨t', ht', hct'⟩ := mem_pixelsL.mp ((hmem c).mpr hs)
      by_cases e : t = t'
      · rw [e]; exact hct'
      · exact absurd hn (hclosed t ht t' ht' e b ih c hct')

/-! ## D. catalog rows -/

section Catalog
open CatalogRows
variable {α : Type}

theorem insertRow_perm (r : Nat × α) (l : List (Nat × α)) : (insertRow r l).Perm (r :: l) := by
  induction l with
  | nil => simp [insertRow]
  | cons x xs ih =>
    simp only [insertRow]; split
    · exact List.Perm.refl _
    · exact (ih.cons x).trans (List.Perm.swap r x xs)

theorem sortRows_perm (l : List (Nat × α)) : (sortRows l).Perm l := by
  induction l with
  | nil => simp [sortRows]
  | cons r rs ih => exact (insertRow_perm r _).trans (ih.cons r)

theorem insertRow_sorted (r : Nat × α) (l : List (Nat × α))
    (h : l.Pairwise (fun a b => a.1 ≤ b.1)) : (insertRow r l).Pairwise (fun a b => a.1 ≤ b.1) := by
  induction l with
  | nil => simp [insertRow]
  | cons x xs ih =>
    simp only [insertRow]
    have hx := List.pairwise_cons.mp h
    split
    · rename_i hle
      refine List.pairwise_cons.mpr ⟨?_, h⟩
      intro y hy
      rcases List.mem_cons.mp hy with rfl | hy
      · exact hle
      · exact Nat.le_trans hle (hx.1 y hy)
    · rename_i hnle
      refine List.pairwise_cons.mpr ⟨?_, ih hx.2⟩
      intro y hy
      rcases List.mem_cons.mp ((insertRow_perm r xs).mem_iff.mp hy) with rfl | hy
      · omega
      · exact hx.1 y hy

theorem sortRows_sorted (l : List (Nat × α)) : (sortRows l).Pairwise (fun a b => a.1 ≤ b.1) := by
  induction l with
  | nil => simp [sortRows]
  | cons r rs ih => exact insertRow_sorted r _ ih

theorem make_perm (stat : Tree → α) (l : List Tree) :
    (make stat l).Perm (l.map fun s => (s.id, stat s)) := sortRows_perm _

/-- the identifier column of the catalog is the identifiers of the structures, ascending -/
theorem make_ids (stat : Tree → α) (l : List Tree) :
    ((CatalogRows.make stat l).map (·.1)).Perm (l.map Tree.id) ∧
    ((CatalogRows.make stat l).map (·.1)).Pairwise (· ≤ ·) := by
  constructor
  · have := (make_perm stat l).map (·.1)
    simpa [List.map_map, Function.comp_def] using this
  · rw [List.pairwise_map]; exact sortRows_sorted _

/-- every row is the statistics of one structure, computed on that structure alone … -/
theorem make_rows (stat : Tree → α) (l : List Tree) :
    ∀ r ∈ CatalogRows.make stat l, ∃ s ∈ l, r = (s.id, stat s) := by
  intro r hr
  obtain ⟨s, hs, e⟩ := List.mem_map.mp ((make_perm stat l).mem_iff.mp hr)
  exact ⟨s, hs, e.symm⟩

/-- … and every structure has its row -/
theorem make_rows_conv (stat : Tree → α) (l : List Tree) :
    ∀ s ∈ l, (s.id, stat s) ∈ CatalogRows.make stat l := by
  intro s hs
  exact (make_perm stat l).mem_iff.mpr (List.mem_map.mpr ⟨s, hs, rfl⟩)

theorem make_length (stat : Tree → α) (l : List Tree) :
    (CatalogRows.make stat l).length = l.length := by
  simpa using (make_perm stat l).length_eq

end Catalog

/-! ## E. memoisation is transparent -/

theorem memo_transparent {κ ν : Type} [DecidableEq κ] (f : κ → ν) (m : Memo κ ν)
    (hm : ∀ kv ∈ m.cache, kv.2 = f kv.1) (ks : List κ) : Memo.run f m ks = ks.map f := by
  induction ks generalizing m with
  | nil => simp [Memo.run]
  | cons k ks ih =>
    simp only [Memo.run, List.map_cons]
    unfold Memo.call
    cases hfind : m.cache.find? (fun kv => kv.1 = k) with
    | some kv =>
      simp only
      have hk : kv.1 = k := by simpa using List.find?_some hfind
      rw [ih m hm, hm kv (List.mem_of_find?_eq_some hfind), hk]
    | none =>
      simp only
      rw [ih]
      intro kv hkv
      rcases List.mem_append.mp hkv with h | h
      · exact hm kv h
      · simp only [List.mem_singleton] at h; subst h; rfl

/-- in particular from the empty cache -/
theorem memo_transparent_empty {κ ν : Type} [DecidableEq κ] (f : κ → ν) (ks : List κ) :
    Memo.run f {} ks = ks.map f :=
  memo_transparent f {} (by intro kv h; simp at h) ks

end P21
