import ADProofs.PruneProofs
import ADProofs.IndexProofs
import ADProofs.SimProofs
import ADProofs.Contour
import ADProofs.RunInd
import ADModel.IO
/-!
# ADProofs.MiscProofs — trunk = connected components (C03), pruning and ancestors (C07),
save / load at the model level (C09 / C02), catalog rows (C12), memoisation (C10)

Core Lean only.
-/
open Tree

namespace P21

/-! ## A. trunk structures are exactly the connected components -/

/-- two above-threshold pixels are in the same parentless structure iff they are connected
through above-threshold pixels (`hnd` is not needed for the proof; it is kept because it is a
standing hypothesis on processing orders) -/
theorem trunk_eq_components (E : Env) (hsym : ∀ x y, y ∈ E.nbrs x → x ∈ E.nbrs y)
    (order : List Nat) (hnd : order.Nodup) (p q : Nat) (hp : p ∈ order) (hq : q ∈ order) :
    (∃ t ∈ run E order, p ∈ t.pixels ∧ q ∈ t.pixels) ↔ Conn E.nbrs (fun x => x ∈ order) p q := by
  have hmem : ∀ x, x ∈ pixelsL (run E order) ↔ x ∈ order := by
    intro x; rw [(run_pixels E order).mem_iff]; simp
  have hclosed : Closed E (run E order) :=
    run_induction E (Closed E) (by intro t ht; simp at ht)
      (fun roots p h => step_closed E hsym roots p h) order
  constructor
  · rintro ⟨t, ht, hpt, hqt⟩
    have _ := hnd
    have _ := hq
    have hc : PixConn E t :=
      ContourP.run_all_connected E hsym order t (mem_preL_of_mem ht)
    refine (hc p q hpt hqt).mono ?_
    intro x hx
    exact (hmem x).mp (mem_pixelsL.mpr ⟨t, ht, hx⟩)
  · intro hc
    obtain ⟨t, ht, hpt⟩ := mem_pixelsL.mp ((hmem p).mpr hp)
    refine ⟨t, ht, hpt, ?_⟩
    clear hq
    induction hc with
    | refl => exact hpt
    | @tail b c _ hn hs ih =>
      obtain ⟨t', ht', hct'⟩ := mem_pixelsL.mp ((hmem c).mpr hs)
      by_cases e : t = t'
      · rw [e]; exact hct'
      · exact absurd hn (hclosed t ht t' ht' e b ih c hct')

/-! ## C. save / load at the model level -/

theorem regroupT_id (lm : List (Option Nat)) (t : Tree) : (regroupT lm t).id = t.id := by
  cases t; simp [regroupT, Tree.id]

theorem regroupT_own (lm : List (Option Nat)) (t : Tree) : (regroupT lm t).own = binOf lm t.id := by
  cases t; simp [regroupT, Tree.id, Tree.own]

theorem regroupT_kids (lm : List (Option Nat)) (t : Tree) :
    (regroupT lm t).kids = regroupL lm t.kids := by
  cases t; simp [regroupT, Tree.kids]

theorem regroupL_eq_map (lm : List (Option Nat)) (l : List Tree) :
    regroupL lm l = l.map (regroupT lm) := by
  induction l with
  | nil => simp [regroupL]
  | cons t ts ih => simp [regroupL, ih]

/-- loading rebuilds the structures one by one, in iteration order -/
theorem pre_regroup (lm : List (Option Nat)) :
    (∀ t : Tree, pre (regroupT lm t) = (pre t).map (regroupT lm)) ∧
    (∀ l : List Tree, preL (regroupL lm l) = (preL l).map (regroupT lm)) := by
  apply Tree.forest_induction
  · intro i o ks ih
    simp only [regroupT, pre, List.map_cons, ih]
  · simp [regroupL, preL]
  · intro t ts iht ihts
    simp only [regroupL, preL, List.map_append, iht, ihts]

theorem preL_regroupL (lm : List (Option Nat)) (l : List Tree) :
    preL (regroupL lm l) = (preL l).map (regroupT lm) := (pre_regroup lm).2 l

/-- regrouping twice with the same label map is regrouping once -/
theorem regroup_idem (lm lm' : List (Option Nat)) :
    (∀ t : Tree, regroupT lm (regroupT lm' t) = regroupT lm t) ∧
    (∀ l : List Tree, regroupL lm (regroupL lm' l) = regroupL lm l) := by
  apply Tree.forest_induction
  · intro i o ks ih
    simp only [regroupT, ih]
  · simp [regroupL]
  · intro t ts iht ihts
    simp only [regroupL, iht, ihts]

/-- identifiers, children and their ORDER, and the iteration order are preserved exactly -/
theorem reload_shape (f : List Tree) (n : Nat) :
    (Tree.preL (reload f n)).map (fun t => (t.id, t.kids.map Tree.id))
      = (Tree.preL f).map (fun t => (t.id, t.kids.map Tree.id)) := by
  unfold reload
  rw [preL_regroupL, List.map_map]
  apply List.map_congr_left
  intro t _
  simp only [Function.comp_def, regroupT_id, regroupT_kids, regroupL_eq_map, List.map_map]

theorem reload_ids (f : List Tree) (n : Nat) :
    (Tree.preL (reload f n)).map Tree.id = (Tree.preL f).map Tree.id := by
  unfold reload
  rw [preL_regroupL, List.map_map]
  apply List.map_congr_left
  intro t _
  simp [regroupT_id]

theorem regroup_sim (lm : List (Option Nat)) :
    (∀ t : Tree, (∀ s ∈ pre t, (binOf lm s.id).Perm s.own) →
        P10.Sim (fun p => p) t (regroupT lm t)) ∧
    (∀ l : List Tree, (∀ s ∈ preL l, (binOf lm s.id).Perm s.own) →
        P10.SimL (fun p => p) l (regroupL lm l)) := by
  apply Tree.forest_induction
  · intro i o ks ih h
    rw [regroupT]
    refine .mk ?_ (ih ?_)
    · simpa [Tree.id, Tree.own] using h (node i o ks) (mem_pre_self _)
    · intro s hs
      exact h s (by rw [pre]; exact List.mem_cons_of_mem _ hs)
  · intro _; rw [regroupL]; exact .nil
  · intro t ts iht ihts h
    rw [regroupL]
    refine .cons (iht ?_) (ihts ?_) (List.Perm.refl _)
    · intro s hs; exact h s (by rw [preL]; exact List.mem_append_left _ hs)
    · intro s hs; exact h s (by rw [preL]; exact List.mem_append_right _ hs)

/-- same hierarchy: regions, own pixel sets, parent relation -/
theorem reload_sim (f : List Tree) (n : Nat) (h : P8.WF f n) :
    P10.SimL (fun p => p) f (reload f n) :=
  (regroup_sim (labelMap f n)).2 f (fun s hs => P8.binOf_perm f n h s hs)

/-- own pixels of the k-th structure (iteration order): same set, possibly another order -/
theorem reload_own (f : List Tree) (n : Nat) (h : P8.WF f n) :
    ∀ k, k < (Tree.preL f).length →
      ((Tree.preL (reload f n)).getD k default).own.Perm ((Tree.preL f).getD k default).own := by
  intro k hk
  unfold reload
  rw [preL_regroupL]
  simp only [List.getD_eq_getElem?_getD, List.getElem?_map, List.getElem?_eq_getElem hk,
    Option.map_some, Option.getD_some, regroupT_own]
  exact P8.binOf_perm f n h _ (List.getElem_mem hk)

theorem reload_wf (f : List Tree) (n : Nat) (h : P8.WF f n) : P8.WF (reload f n) n := by
  have hp : (pixelsL (reload f n)).Perm (pixelsL f) := by
    simpa using (reload_sim f n h).pixelsL
  refine ⟨?_, hp.nodup_iff.mpr h.2.1, ?_⟩
  · rw [reload_ids]; exact h.1
  · intro p hp'; exact h.2.2 p (hp.mem_iff.mp hp')

theorem reload_labelOf (f : List Tree) (n : Nat) (h : P8.WF f n) (p : Nat) :
    labelOf (reload f n) p = labelOf f p := by
  apply Option.ext
  intro i
  rw [P8.labelOf_iff _ n (reload_wf f n h), P8.labelOf_iff f n h]
  unfold reload
  rw [preL_regroupL]
  constructor
  · rintro ⟨t', ht', hid, hp⟩
    obtain ⟨t, ht, rfl⟩ := List.mem_map.mp ht'
    rw [regroupT_id] at hid
    rw [regroupT_own] at hp
    exact ⟨t, ht, hid, (P8.binOf_perm f n h t ht).mem_iff.mp hp⟩
  · rintro ⟨t, ht, hid, hp⟩
    refine ⟨regroupT _ t, List.mem_map_of_mem ht, by rw [regroupT_id]; exact hid, ?_⟩
    rw [regroupT_own]
    exact (P8.binOf_perm f n h t ht).mem_iff.mpr hp

/-- the label map written by a second save is the one that was loaded -/
theorem reload_labelMap (f : List Tree) (n : Nat) (h : P8.WF f n) :
    labelMap (reload f n) n = labelMap f n := by
  unfold labelMap
  apply List.map_congr_left
  intro p _
  exact reload_labelOf f n h p

/-- a second save / load cycle changes nothing at all -/
theorem reload_idem (f : List Tree) (n : Nat) (h : P8.WF f n) :
    reload (reload f n) n = reload f n := by
  have e := reload_labelMap f n h
  unfold reload at e ⊢
  rw [e]
  exact (regroup_idem _ _).2 f

/-! ## D. catalog rows -/

section Catalog
open CatalogRows
variable {α : Type}

theorem insertRow_perm (r : Nat × α) (l : List (Nat × α)) : (insertRow r l).Perm (r :: l) := by
  induction l with
  | nil => simp [insertRow]
  | cons x xs ih =>
    simp only [insertRow]; split
    · exact List.Perm.refl _
    · exact (ih.cons x).trans (List.Perm.swap r x xs)

theorem sortRows_perm (l : List (Nat × α)) : (sortRows l).Perm l := by
  induction l with
  | nil => simp [sortRows]
  | cons r rs ih => exact (insertRow_perm r _).trans (ih.cons r)

theorem insertRow_sorted (r : Nat × α) (l : List (Nat × α))
    (h : l.Pairwise (fun a b => a.1 ≤ b.1)) : (insertRow r l).Pairwise (fun a b => a.1 ≤ b.1) := by
  induction l with
  | nil => simp [insertRow]
  | cons x xs ih =>
    simp only [insertRow]
    have hx := List.pairwise_cons.mp h
    split
    · rename_i hle
      refine List.pairwise_cons.mpr ⟨?_, h⟩
      intro y hy
      rcases List.mem_cons.mp hy with rfl | hy
      · exact hle
      · exact Nat.le_trans hle (hx.1 y hy)
    · rename_i hnle
      refine List.pairwise_cons.mpr ⟨?_, ih hx.2⟩
      intro y hy
      rcases List.mem_cons.mp ((insertRow_perm r xs).mem_iff.mp hy) with rfl | hy
      · omega
      · exact hx.1 y hy

theorem sortRows_sorted (l : List (Nat × α)) : (sortRows l).Pairwise (fun a b => a.1 ≤ b.1) := by
  induction l with
  | nil => simp [sortRows]
  | cons r rs ih => exact insertRow_sorted r _ ih

theorem make_perm (stat : Tree → α) (l : List Tree) :
    (make stat l).Perm (l.map fun s => (s.id, stat s)) := sortRows_perm _

/-- the identifier column of the catalog is the identifiers of the structures, ascending -/
theorem make_ids (stat : Tree → α) (l : List Tree) :
    ((CatalogRows.make stat l).map (·.1)).Perm (l.map Tree.id) ∧
    ((CatalogRows.make stat l).map (·.1)).Pairwise (· ≤ ·) := by
  constructor
  · have := (make_perm stat l).map (·.1)
    simpa [List.map_map, Function.comp_def] using this
  · rw [List.pairwise_map]; exact sortRows_sorted _

/-- every row is the statistics of one structure, computed on that structure alone … -/
theorem make_rows (stat : Tree → α) (l : List Tree) :
    ∀ r ∈ CatalogRows.make stat l, ∃ s ∈ l, r = (s.id, stat s) := by
  intro r hr
  obtain ⟨s, hs, e⟩ := List.mem_map.mp ((make_perm stat l).mem_iff.mp hr)
  exact ⟨s, hs, e.symm⟩

/-- … and every structure has its row -/
theorem make_rows_conv (stat : Tree → α) (l : List Tree) :
    ∀ s ∈ l, (s.id, stat s) ∈ CatalogRows.make stat l := by
  intro s hs
  exact (make_perm stat l).mem_iff.mpr (List.mem_map.mpr ⟨s, hs, rfl⟩)

theorem make_length (stat : Tree → α) (l : List Tree) :
    (CatalogRows.make stat l).length = l.length := by
  simpa using (make_perm stat l).length_eq

end Catalog

/-! ## E. memoisation is transparent -/

theorem memo_transparent {κ ν : Type} [DecidableEq κ] (f : κ → ν) (m : Memo κ ν)
    (hm : ∀ kv ∈ m.cache, kv.2 = f kv.1) (ks : List κ) : Memo.run f m ks = ks.map f := by
  induction ks generalizing m with
  | nil => simp [Memo.run]
  | cons k ks ih =>
    simp only [Memo.run, List.map_cons]
    unfold Memo.call
    cases hfind : m.cache.find? (fun kv => kv.1 = k) with
    | some kv =>
      simp only
      have hk : kv.1 = k := by simpa using List.find?_some hfind
      rw [ih m hm, hm kv (List.mem_of_find?_eq_some hfind), hk]
    | none =>
      simp only
      rw [ih]
      intro kv hkv
      rcases List.mem_append.mp hkv with h | h
      · exact hm kv h
      · simp only [List.mem_singleton] at h; subst h; rfl

/-- in particular from the empty cache -/
theorem memo_transparent_empty {κ ν : Type} [DecidableEq κ] (f : κ → ν) (ks : List κ) :
    Memo.run f {} ks = ks.map f :=
  memo_transparent f {} (by intro kv h; simp at h) ks

end P21
