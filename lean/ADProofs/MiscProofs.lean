import ADProofs.PruneProofs
import ADProofs.IndexProofs
import ADProofs.SimProofs
import ADProofs.Contour
import ADProofs.RunInd
import ADModel.IO
/-!
# ADProofs.MiscProofs — trunk = connected components (C03), pruning and ancestors (C07),
save / load at the model level (C09 / C02), catalog rows (C12), memoisation (C10)

Core Lean only.
-/
open Tree

namespace P21

/-! ## A. trunk structures are exactly the connected components -/

/-- two above-threshold pixels are in the same parentless structure iff they are connected
through above-threshold pixels (`hnd` is not needed for the proof; it is kept because it is a
standing hypothesis on processing orders) -/
theorem trunk_eq_components (E : Env) (hsym : ∀ x y, y ∈ E.nbrs x → x ∈ E.nbrs y)
    (order : List Nat) (hnd : order.Nodup) (p q : Nat) (hp : p ∈ order) (hq : q ∈ order) :
    (∃ t ∈ run E order, p ∈ t.pixels ∧ q ∈ t.pixels) ↔ Conn E.nbrs (fun x => x ∈ order) p q := by
  have hmem : ∀ x, x ∈ pixelsL (run E order) ↔ x ∈ order := by
    intro x; rw [(run_pixels E order).mem_iff]; simp
  have hclosed : Closed E (run E order) :=
    run_induction E (Closed E) (by intro t ht; simp at ht)
      (fun roots p h => step_closed E hsym roots p h) order
  constructor
  · rintro ⟨t, ht, hpt, hqt⟩
    have _ := hnd
    have _ := hq
    have hc : PixConn E t :=
      ContourP.run_all_connected E hsym order t (mem_preL_of_mem ht)
    refine (hc p q hpt hqt).mono ?_
    intro x hx
    exact (hmem x).mp (mem_pixelsL.mpr ⟨t, ht, hx⟩)
  · intro hc
    obtain ⟨t, ht, hpt⟩ := mem_pixelsL.mp ((hmem p).mpr hp)
    refine ⟨t, ht, hpt, ?_⟩
    clear hq
    induction hc with
    | refl => exact hpt
    | @tail b c _ hn hs ih =>
      obtain ⟨t', ht', hct'⟩ := mem_pixelsL.mp ((hmem c).mpr hs)
      by_cases e : t = t'
      · rw [e]; exact hct'
      · exact absurd hn (hclosed t ht t' ht' e b ih c hct')

/-! ## C. save / load at the model level -/

theorem regroupT_id (lm : List (Option Nat)) (t : Tree) : (regroupT lm t).id = t.id := by
  cases t; simp [regroupT, Tree.id]

theorem regroupT_own (lm : List (Option Nat)) (t : Tree) : (regroupT lm t).own = binOf lm t.id := by
  cases t; simp [regroupT, Tree.id, Tree.own]

theorem regroupT_kids (lm : List (Option Nat)) (t : Tree) :
    (regroupT lm t).kids = regroupL lm t.kids := by
  cases t; simp [regroupT, Tree.kids]

theorem regroupL_eq_map (lm : List (Option Nat)) (l : List Tree) :
    regroupL lm l = l.map (regroupT lm) := by
  induction l with
  | nil => simp [regroupL]
  | cons t ts ih => simp [regroupL, ih]

/-- loading rebuilds the structures one by one, in iteration order -/
theorem pre_regroup (lm : List (Option Nat)) :
    (∀ t : Tree, pre (regroupT lm t) = (pre t).map (regroupT lm)) ∧
    (∀ l : List Tree, preL (regroupL lm l) = (preL l).map (regroupT lm)) := by
  apply Tree.forest_induction
  · intro i o ks ih
    simp only [regroupT, pre, List.map_cons, ih]
  · simp [regroupL, preL]
  · intro t ts iht ihts
    simp only [regroupL, preL, List.map_append, iht, ihts]

theorem preL_regroupL (lm : List (Option Nat)) (l : List Tree) :
    preL (regroupL lm l) = (preL l).map (regroupT lm) := (pre_regroup lm).2 l

/-- regrouping twice with the same label map is regrouping once -/
theorem regroup_idem (lm lm' : List (Option Nat)) :
    (∀ t : Tree, regroupT lm (regroupT lm' t) = regroupT lm t) ∧
    (∀ l : List Tree, regroupL lm (regroupL lm' l) = regroupL lm l) := by
  apply Tree.forest_induction
  · intro i o ks ih
    simp only [regroupT, ih]
  · simp [regroupL]
  · intro t ts iht ihts
    simp only [regroupL, iht, ihts]

/-- identifiers, children and their ORDER, and the iteration order are preserved exactly -/
theorem reload_shape (f : List Tree) (n : Nat) :
    (Tree.preL (reload f n)).map (fun t => (t.id, t.kids.map Tree.id))
      = (Tree.preL f).map (fun t => (t.id, t.kids.map Tree.id)) := by
  unfold reload
  rw [preL_regroupL, List.map_map]
  apply List.map_congr_left
  intro t _
  simp only [Function.comp_def, regroupT_id, regroupT_kids, regroupL_eq_map, List.map_map]

theorem reload_ids (f : List Tree) (n : Nat) :
    (Tree.preL (reload f n)).map Tree.id = (Tree.preL f).map Tree.id := by
  unfold reload
  rw [preL_regroupL, List.map_map]
  apply List.map_congr_left
  intro t _
  simp [regroupT_id]

theorem regroup_sim (lm : List (Option Nat)) :
    (∀ t : Tree, (∀ s ∈ pre t, (binOf lm s.id).Perm s.own) →
        P10.Sim (fun p => p) t (regroupT lm t)) ∧
    (∀ l : List Tree, (∀ s ∈ preL l, (binOf lm s.id).Perm s.own) →
        P10.SimL (fun p => p) l (regroupL lm l)) := by
  apply Tree.forest_induction
  · intro i o ks ih h
    rw [regroupT]
    refine .mk ?_ (ih ?_)
    · simpa [Tree.id, Tree.own] using h (node i o ks) (mem_pre_self _)
    · intro s hs
      exact h s (by rw [pre]; exact List.mem_cons_of_mem _ hs)
  · intro _; rw [regroupL]; exact .nil
  · intro t ts iht ihts h
    rw [regroupL]
    refine .cons (iht ?_) (ihts ?_) (List.Perm.refl _)
    · intro s hs; exact h s (by rw [preL]; exact List.mem_append_left _ hs)
    · intro s hs; exact h s (by rw [preL]; exact List.mem_append_right _ hs)

/-- same hierarchy: regions, own pixel sets, parent relation -/
theorem reload_sim (f : List Tree) (n : Nat) (h : P8.WF f n) :
    P10.SimL (fun p => p) f (reload f n) :=
  (regroup_sim (labelMap f n)).2 f (fun s hs => P8.binOf_perm f n h s hs)

/-- own pixels of the k-th structure (iteration order): same set, possibly another order -/
theorem reload_own (f : List Tree) (n : Nat) (h : P8.WF f n) :
    ∀ k, k < (Tree.preL f).length →
      ((Tree.preL (reload f n)).getD k default).own.Perm ((Tree.preL f).getD k default).own := by
  intro k hk
  unfold reload
  rw [preL_regroupL]
  simp only [List.getD_eq_getElem?_getD, List.getElem?_map, List.getElem?_eq_getElem hk,
    Option.map_some, Option.getD_some, regroupT_own]
  exact P8.binOf_perm f n h _ (List.getElem_mem hk)

theorem reload_wf (f : List Tree) (n : Nat) (h : P8.WF f n) : P8.WF (reload f n) n := by
  have hp : (pixelsL (reload f n)).Perm (pixelsL f) := by
    simpa using (reload_sim f n h).pixelsL
  refine ⟨?_, hp.nodup_iff.mpr h.2.1, ?_⟩
  · rw [reload_ids]; exact h.1
  · intro p hp'; exact h.2.2 p (hp.mem_iff.mp hp')

theorem reload_labelOf (f : List Tree) (n : Nat) (h : P8.WF f n) (p : Nat) :
    labelOf (reload f n) p = labelOf f p := by
  apply Option.ext
  intro i
  rw [P8.labelOf_iff _ n (reload_wf f n h), P8.labelOf_iff f n h]
  unfold reload
  rw [preL_regroupL]
  constructor
  · rintro ⟨t', ht', hid, hp⟩
    obtain ⟨t, ht, rfl⟩ := List.mem_map.mp ht'
    rw [regroupT_id] at hid
    rw [regroupT_own] at hp
    exact ⟨t, ht, hid, (P8.binOf_perm f n h t ht).mem_iff.mp hp⟩
  · rintro ⟨t, ht, hid, hp⟩
    refine ⟨regroupT _ t, List.mem_map_of_mem ht, by rw [regroupT_id]; exact hid, ?_⟩
    rw [regroupT_own]
    exact (P8.binOf_perm f n h t ht).mem_iff.mpr hp

/-- the label map written by a second save is the one that was loaded -/
theorem reload_labelMap (f : List Tree) (n : Nat) (h : P8.WF f n) :
    labelMap (reload f n) n = labelMap f n := by
  unfold labelMap
  apply List.map_congr_left
  intro p _
  exact reload_labelOf f n h p

/-- a second save / load cycle changes nothing at all -/
theorem reload_idem (f : List Tree) (n : Nat) (h : P8.WF f n) :
    reload (reload f n) n = reload f n := by
  have e := reload_labelMap f n h
  unfold reload at e ⊢
  rw [e]
  exact (regroup_idem _ _).2 f

/-! ## D. catalog rows -/

section Catalog
open CatalogRows
variable {α : Type}

theorem insertRow_perm (r : Nat × α) (l : List (Nat × α)) : (insertRow r l).Perm (r :: l) := by
  induction l with
  | nil => simp [insertRow]
  | cons x xs ih =>
    simp only [insertRow]; split
    · exact List.Perm.refl _
    · exact (ih.cons x).trans (List.Perm.swap r x xs)

theorem sortRows_perm (l : List (Nat × α)) : (sortRows l).Perm l := by
  induction l with
  | nil => simp [sortRows]
  | cons r rs ih => exact (insertRow_perm r _).trans (ih.cons r)

theorem insertRow_sorted (r : Nat × α) (l : List (Nat × α))
    (h : l.Pairwise (fun a b => a.1 ≤ b.1)) : (insertRow r l).Pairwise (fun a b => a.1 ≤ b.1) := by
  induction l with
  | nil => simp [insertRow]
  | cons x xs ih =>
    simp only [insertRow]
    have hx := List.pairwise_cons.mp h
    split
    · rename_i hle
      refine List.pairwise_cons.mpr ⟨?_, h⟩
      intro y hy
      rcases List.mem_cons.mp hy with rfl | hy
      · exact hle
      · exact Nat.le_trans hle (hx.1 y hy)
    · rename_i hnle
      refine List.pairwise_cons.mpr ⟨?_, ih hx.2⟩
      intro y hy
      rcases List.mem_cons.mp ((insertRow_perm r xs).mem_iff.mp hy) with rfl | hy
      · omega
      · exact hx.1 y hy

theorem sortRows_sorted (l : List (Nat × α)) : (sortRows l).Pairwise (fun a b => a.1 ≤ b.1) := by
  induction l with
  | nil => simp [sortRows]
  | cons r rs ih => exact insertRow_sorted r _ ih

theorem make_perm (stat : Tree → α) (l : List Tree) :
    (make stat l).Perm (l.map fun s => (s.id, stat s)) := sortRows_perm _

/-- the identifier column of the catalog is the identifiers of the structures, ascending -/
theorem make_ids (stat : Tree → α) (l : List Tree) :
    ((CatalogRows.make stat l).map (·.1)).Perm (l.map Tree.id) ∧
    ((CatalogRows.make stat l).map (·.1)).Pairwise (· ≤ ·) := by
  constructor
  · have := (make_perm stat l).map (·.1)
    simpa [List.map_map, Function.comp_def] using this
  · rw [List.pairwise_map]; exact sortRows_sorted _

/-- every row is the statistics of one structure, computed on that structure alone … -/
theorem make_rows (stat : Tree → α) (l : List Tree) :
    ∀ r ∈ CatalogRows.make stat l, ∃ s ∈ l, r = (s.id, stat s) := by
  intro r hr
  obtain ⟨s, hs, e⟩ := List.mem_map.mp ((make_perm stat l).mem_iff.mp hr)
  exact ⟨s, hs, e.symm⟩

/-- … and every structure has its row -/
theorem make_rows_conv (stat : Tree → α) (l : List Tree) :
    ∀ s ∈ l, (s.id, stat s) ∈ CatalogRows.make stat l := by
  intro s hs
  exact (make_perm stat l).mem_iff.mpr (List.mem_map.mpr ⟨s, hs, rfl⟩)

theorem make_length (stat : Tree → α) (l : List Tree) :
    (CatalogRows.make stat l).length = l.length := by
  simpa using (make_perm stat l).length_eq

end Catalog

/-! ## E. memoisation is transparent -/

theorem memo_transparent {κ ν : Type} [DecidableEq κ] (f : κ → ν) (m : Memo κ ν)
    (hm : ∀ kv ∈ m.cache, kv.2 = f kv.1) (ks : List κ) : Memo.run f m ks = ks.map f := by
  induction ks generalizing m with
  | nil => simp [Memo.run]
  | cons k ks ih =>
    simp only [Memo.run, List.map_cons]
    unfold Memo.call
    cases hfind : m.cache.find? (fun kv => kv.1 = k) with
    | some kv =>
      simp only
      have hk : kv.1 = k := by simpa using List.find?_some hfind
      rw [ih m hm, hm kv (List.mem_of_find?_eq_some hfind), hk]
    | none =>
      simp only
      rw [ih]
      intro kv hkv
      rcases List.mem_append.mp hkv with h | h
      · exact hm kv h
      · simp only [List.mem_singleton] at h; subst h; rfl

/-- in particular from the empty cache -/
theorem memo_transparent_empty {κ ν : Type} [DecidableEq κ] (f : κ → ν) (ks : List κ) :
    Memo.run f {} ks = ks.map f :=
  memo_transparent f {} (by intro kv h; simp at h) ks

/-! ## B. pruning: ancestor chains and own pixels

`ancestors f i` is the list of identifiers of the proper ancestors of the structure `i`, nearest
first.  The proofs go through the *table* of a forest (`tabL`): the prefix-order list of all pairs
(identifier, chain); with distinct identifiers `ancestors` is a lookup in it, and membership in
the table does not depend on the order of children, which a prune step changes. -/

mutual
def ancT (i : Nat) (acc : List Nat) : Tree → Option (List Nat)
  | .node j _ ks => if j = i then some acc else ancL i (j :: acc) ks
def ancL (i : Nat) (acc : List Nat) : List Tree → Option (List Nat)
  | [] => none
  | t :: ts => (ancT i acc t).orElse fun _ => ancL i acc ts
end
def ancestors (f : List Tree) (i : Nat) : List Nat := (ancL i [] f).getD []

mutual
def tabT (acc : List Nat) : Tree → List (Nat × List Nat)
  | .node j _ ks => (j, acc) :: tabL (j :: acc) ks
def tabL (acc : List Nat) : List Tree → List (Nat × List Nat)
  | [] => []
  | t :: ts => tabT acc t ++ tabL acc ts
end

theorem anc_eq_find (i : Nat) :
    (∀ t : Tree, ∀ acc, ancT i acc t = ((tabT acc t).find? (fun e => e.1 == i)).map (·.2)) ∧
    (∀ l : List Tree, ∀ acc, ancL i acc l = ((tabL acc l).find? (fun e => e.1 == i)).map (·.2)) := by
  apply Tree.forest_induction
  · intro j o ks ih acc
    rw [ancT, tabT, List.find?_cons]
    by_cases h : j = i
    · simp [h]
    · have hb : (j == i) = false := by simpa using h
      simp [h, hb, ih]
  · intro acc; simp [ancL, tabL]
  · intro t ts iht ihts acc
    rw [ancL, tabL, List.find?_append, iht, ihts]
    cases ((tabT acc t).find? (fun e => e.1 == i)) <;> simp

theorem tab_keys :
    (∀ t : Tree, ∀ acc, (tabT acc t).map (·.1) = (pre t).map Tree.id) ∧
    (∀ l : List Tree, ∀ acc, (tabL acc l).map (·.1) = (preL l).map Tree.id) := by
  apply Tree.forest_induction
  · intro j o ks ih acc
    simp [tabT, pre, ih, Tree.id]
  · intro acc; simp [tabL, preL]
  · intro t ts iht ihts acc
    simp [tabL, preL, iht, ihts]

theorem find_key {β : Type} {l : List (Nat × β)} (h : (l.map (·.1)).Nodup) (i : Nat) (r : β) :
    (l.find? (fun e => e.1 == i)).map (·.2) = some r ↔ (i, r) ∈ l := by
  induction l with
  | nil => simp
  | cons e l ih =>
    rw [List.map_cons, List.nodup_cons] at h
    rw [List.find?_cons]
    by_cases he : e.1 = i
    · simp only [he, beq_self_eq_true, Option.map_some, Option.some.injEq, List.mem_cons]
      constructor
      · intro e2; left; rw [← e2, ← he]
      · rintro (e2 | e2)
        · rw [← e2]
        · exact absurd (List.mem_map.mpr ⟨_, e2, rfl⟩) (he ▸ h.1)
    · have : (e.1 == i) = false := by simpa using he
      simp only [this, List.mem_cons]
      rw [ih h.2]
      constructor
      · exact Or.inr
      · rintro (e2 | e2)
        · exact absurd (by rw [← e2]) he
        · exact e2

theorem ancL_iff {l : List Tree} (h : IdsNodup l) (i : Nat) (acc r : List Nat) :
    ancL i acc l = some r ↔ (i, r) ∈ tabL acc l := by
  rw [(anc_eq_find i).2 l acc]
  exact find_key (by rw [(tab_keys).2 l acc]; exact h) i r

theorem ancestors_eq {f : List Tree} (h : IdsNodup f) {i : Nat} {r : List Nat}
    (hm : (i, r) ∈ tabL [] f) : ancestors f i = r := by
  unfold ancestors; rw [(ancL_iff h i [] r).mpr hm]; rfl

theorem tab_has {f : List Tree} {s : Tree} (hs : s ∈ preL f) (acc : List Nat) :
    ∃ r, (s.id, r) ∈ tabL acc f := by
  have : s.id ∈ (tabL acc f).map (·.1) := by
    rw [(tab_keys).2 f acc]; exact List.mem_map_of_mem hs
  obtain ⟨e, he, h1⟩ := List.mem_map.mp this
  exact ⟨e.2, by rw [← h1]; exact he⟩

theorem tab_key_mem {f : List Tree} {acc : List Nat} {i : Nat} {r : List Nat}
    (h : (i, r) ∈ tabL acc f) : i ∈ (preL f).map Tree.id := by
  rw [← (tab_keys).2 f acc]; exact List.mem_map.mpr ⟨_, h, rfl⟩

theorem tabL_append (acc : List Nat) (a b : List Tree) :
    tabL acc (a ++ b) = tabL acc a ++ tabL acc b := by
  induction a with
  | nil => simp [tabL]
  | cons t ts ih => simp [tabL, ih]

theorem tabT_eq (acc : List Nat) (t : Tree) : tabT acc t = (t.id, acc) :: tabL (t.id :: acc) t.kids := by
  cases t; simp [tabT, Tree.id, Tree.kids]

theorem tabL_cons (acc : List Nat) (t : Tree) (ts : List Tree) :
    tabL acc (t :: ts) = tabT acc t ++ tabL acc ts := by simp [tabL]

/-- shifting the accumulator -/
theorem tab_shift :
    (∀ t : Tree, ∀ acc i r, (i, r) ∈ tabT acc t ↔ ∃ c, (i, c) ∈ tabT [] t ∧ r = c ++ acc) ∧
    (∀ l : List Tree, ∀ acc i r, (i, r) ∈ tabL acc l ↔ ∃ c, (i, c) ∈ tabL [] l ∧ r = c ++ acc) := by
  apply Tree.forest_induction
  · intro j o ks ih acc i r
    simp only [tabT, List.mem_cons, Prod.mk.injEq]
    rw [ih (j :: acc)]
    constructor
    · rintro (⟨rfl, rfl⟩ | ⟨c, hc, rfl⟩)
      · exact ⟨[], Or.inl ⟨rfl, rfl⟩, rfl⟩
      · exact ⟨c ++ [j], Or.inr ((ih [j] i _).mpr ⟨c, hc, rfl⟩), by simp⟩
    · rintro ⟨c, (⟨rfl, rfl⟩ | hc), rfl⟩
      · exact Or.inl ⟨rfl, rfl⟩
      · obtain ⟨c', hc', rfl⟩ := (ih [j] i c).mp hc
        exact Or.inr ⟨c', hc', by simp⟩
  · intro acc i r; simp [tabL]
  · intro t ts iht ihts acc i r
    simp only [tabL, List.mem_append]
    rw [iht acc, ihts acc]
    constructor
    · rintro (⟨c, hc, rfl⟩ | ⟨c, hc, rfl⟩)
      · exact ⟨c, Or.inl hc, rfl⟩
      · exact ⟨c, Or.inr hc, rfl⟩
    · rintro ⟨c, (hc | hc), rfl⟩
      · exact Or.inl ⟨c, hc, rfl⟩
      · exact Or.inr ⟨c, hc, rfl⟩

/-- the entries of a chain are identifiers of the forest (or of the accumulator) -/
theorem tab_content :
    (∀ t : Tree, ∀ acc i r, (i, r) ∈ tabT acc t → ∀ a ∈ r, a ∈ acc ∨ a ∈ (pre t).map Tree.id) ∧
    (∀ l : List Tree, ∀ acc i r, (i, r) ∈ tabL acc l → ∀ a ∈ r, a ∈ acc ∨ a ∈ (preL l).map Tree.id) := by
  apply Tree.forest_induction
  · intro j o ks ih acc i r h a ha
    simp only [tabT, List.mem_cons, Prod.mk.injEq] at h
    rcases h with ⟨_, rfl⟩ | h
    · exact Or.inl ha
    · rcases ih (j :: acc) i r h a ha with h' | h'
      · rcases List.mem_cons.mp h' with rfl | h'
        · right; simp [pre, Tree.id]
        · exact Or.inl h'
      · right; simp only [pre, List.map_cons, List.mem_cons]; exact Or.inr h'
  · intro acc i r h; simp [tabL] at h
  · intro t ts iht ihts acc i r h a ha
    simp only [tabL, List.mem_append] at h
    simp only [preL, List.map_append, List.mem_append]
    rcases h with h | h
    · rcases iht acc i r h a ha with h' | h'
      · exact Or.inl h'
      · exact Or.inr (Or.inl h')
    · rcases ihts acc i r h a ha with h' | h'
      · exact Or.inl h'
      · exact Or.inr (Or.inr h')

/-! ### one prune step and the ancestor chains -/

theorem filter_tab_self {S : Nat → Bool} {l : List Tree} {acc : List Nat} {x : Nat} {r : List Nat}
    (h : (x, r) ∈ tabL acc l) (hacc : ∀ a ∈ acc, S a = true)
    (hl : ∀ y ∈ (preL l).map Tree.id, S y = true) : r.filter S = r := by
  rw [List.filter_eq_self]
  intro a ha
  rcases (tab_content).2 l acc x r h a ha with h' | h'
  · exact hacc a h'
  · exact hl a h'

/-- a dissolved structure `m` between `i` and the children `ks` -/
theorem tab_skip {S : Nat → Bool} {ks : List Tree} {acc : List Nat} {i m z : Nat} {r' : List Nat}
    (h : (z, r') ∈ tabL (i :: acc) ks) (hm : S m = false) (hi : S i = true)
    (hacc : ∀ a ∈ acc, S a = true) (hl : ∀ y ∈ (preL ks).map Tree.id, S y = true) :
    ∃ r, (z, r) ∈ tabL (m :: i :: acc) ks ∧ r' = r.filter S := by
  obtain ⟨c, hc, rfl⟩ := (tab_shift).2 ks (i :: acc) z r' |>.mp h
  refine ⟨c ++ m :: i :: acc, ((tab_shift).2 ks _ z _).mpr ⟨c, hc, rfl⟩, ?_⟩
  have h1 : c.filter S = c := filter_tab_self hc (by simp) hl
  have h2 : acc.filter S = acc := List.filter_eq_self.mpr hacc
  simp [List.filter_append, h1, h2, hm, hi]

/-- what a prune step does to the chains of the structures of `t'` -/
def AncStep (t t' : Tree) : Prop :=
  ∀ (S : Nat → Bool) (acc : List Nat), (∀ a ∈ acc, S a = true) →
    (∀ x ∈ (pre t').map Tree.id, S x = true) →
    (∀ x ∈ (pre t).map Tree.id, x ∉ (pre t').map Tree.id → S x = false) →
    ∀ x r', (x, r') ∈ tabT acc t' → ∃ r, (x, r) ∈ tabT acc t ∧ r' = r.filter S

theorem ancStepL (a b : List Tree) (k k' : Tree) (hk : AncStep k k')
    (hnd : IdsNodup (a ++ k :: b)) (S : Nat → Bool) (acc : List Nat)
    (hacc : ∀ a ∈ acc, S a = true)
    (h1 : ∀ x ∈ (preL (a ++ k' :: b)).map Tree.id, S x = true)
    (h0 : ∀ x ∈ (preL (a ++ k :: b)).map Tree.id, x ∉ (preL (a ++ k' :: b)).map Tree.id → S x = false)
    (x : Nat) (r' : List Nat) (h : (x, r') ∈ tabL acc (a ++ k' :: b)) :
    ∃ r, (x, r) ∈ tabL acc (a ++ k :: b) ∧ r' = r.filter S := by
  simp only [preL_append, PruneP.preL_cons, List.map_append, List.mem_append] at h1 h0
  unfold IdsNodup at hnd
  simp only [preL_append, PruneP.preL_cons, List.map_append] at hnd
  have hnd1 := List.nodup_append.mp hnd
  have hnd2 := List.nodup_append.mp hnd1.2.1
  simp only [tabL_append, tabL_cons, List.mem_append] at h ⊢
  rcases h with h | h | h
  · exact ⟨r', Or.inl h, (filter_tab_self h hacc (fun y hy => h1 y (Or.inl hy))).symm⟩
  · obtain ⟨r, hr, e⟩ := hk S acc hacc (fun y hy => h1 y (Or.inr (Or.inl hy))) (by
      intro y hy hy'
      apply h0 y (Or.inr (Or.inl hy))
      rintro (h' | h' | h')
      · exact hnd1.2.2 y h' y (List.mem_append_left _ hy) rfl
      · exact hy' h'
      · exact hnd2.2.2 y hy y h' rfl) x r' h
    exact ⟨r, Or.inr (Or.inl hr), e⟩
  · exact ⟨r', Or.inr (Or.inr h), (filter_tab_self h hacc (fun y hy => h1 y (Or.inr (Or.inr hy)))).symm⟩

theorem pstep_ids_sub {t t' : Tree} (h : PStep t t') :
    ∀ x ∈ (pre t').map Tree.id, x ∈ (pre t).map Tree.id := by
  intro x hx
  obtain ⟨s', hs', rfl⟩ := List.mem_map.mp hx
  obtain ⟨s, hs, e, _⟩ := h.reg s' hs'
  exact List.mem_map.mpr ⟨s, hs, e⟩

theorem pruneIn_ancStep (ic : Tree → Tree → Bool) (t t' : Tree) (h : pruneIn ic t = some t')
    (hids : IdsNodup [t]) : AncStep t t' := by
  revert hids
  refine pruneIn_ind ic (fun t t' => IdsNodup [t] → AncStep t t') ?_ ?_ t t' h
  · intro P k hk hleaf hids S acc hacc h1 h0 z r' hz
    rcases pruneAt_cases P k hk hids with ⟨i, o, a, b, rfl, _, e⟩ | ⟨i, o, x, y, rfl, e⟩
    · rw [e] at hz h1 h0
      rw [hleaf, List.append_nil] at hz h1 h0
      simp only [tabT, List.mem_cons, Prod.mk.injEq] at hz ⊢
      simp only [pre, List.map_cons, List.mem_cons, PruneP.id_node] at h1
      rcases hz with ⟨rfl, rfl⟩ | hz
      · exact ⟨r', Or.inl ⟨rfl, rfl⟩, (List.filter_eq_self.mpr hacc).symm⟩
      · refine ⟨r', Or.inr ?_, ?_⟩
        · simp only [tabL_append, tabL_cons, List.mem_append] at hz ⊢
          rcases hz with hz | hz
          · exact Or.inl hz
          · exact Or.inr (Or.inr hz)
        · refine (filter_tab_self hz ?_ (fun y hy => h1 y (Or.inr hy))).symm
          intro a' ha'
          rcases List.mem_cons.mp ha' with rfl | ha'
          · exact h1 _ (Or.inl rfl)
          · exact hacc a' ha'
    · rw [e] at hz h1 h0
      unfold IdsNodup at hids
      simp only [pre, preL, pre_eq x, pre_eq y, List.map_cons, List.map_append,
        List.append_nil, PruneP.id_node, List.cons_append, preL_append] at hids h0 h1
      have hids2 := hids
      simp only [List.nodup_cons, List.nodup_append, List.mem_cons, List.mem_append, not_or] at hids2
      simp only [tabT, tabL, tabT_eq _ x, tabT_eq _ y, List.mem_cons, Prod.mk.injEq, tabL_append,
        List.mem_append, List.append_nil, List.cons_append] at hz ⊢
      have hi : S i = true := h1 i (by simp)
      have hacc' : ∀ a ∈ acc, S a = true := hacc
      rcases hz with ⟨rfl, rfl⟩ | hz | hz
      · exact ⟨r', Or.inl ⟨rfl, rfl⟩, (List.filter_eq_self.mpr hacc).symm⟩
      · have hx : S x.id = false := by
          apply h0 x.id (by simp)
          intro hmem
          simp only [List.mem_cons, List.mem_append] at hmem
          grind
        obtain ⟨r, hr, e⟩ := tab_skip hz hx hi hacc' (fun y hy => h1 y (by simp [hy]))
        exact ⟨r, Or.inr (Or.inr (Or.inl hr)), e⟩
      · have hy : S y.id = false := by
          apply h0 y.id (by simp)
          intro hmem
          simp only [List.mem_cons, List.mem_append] at hmem
          grind
        obtain ⟨r, hr, e⟩ := tab_skip hz hy hi hacc' (fun y hy => h1 y (by simp [hy]))
        exact ⟨r, Or.inr (Or.inr (Or.inr (Or.inr hr))), e⟩
  · intro i o a k k' b hp ih hids S acc hacc h1 h0 z r' hz
    have hk := ih (idsNodup_kid hids)
    have hsub := pstep_ids_sub (pruneIn_pstep ic k k' hp (idsNodup_kid hids))
    have hnd : IdsNodup (a ++ k :: b) := by
      unfold IdsNodup at hids ⊢
      rw [PruneP.preL_singleton, pre] at hids
      exact (List.nodup_cons.mp hids).2
    have hi : i ∉ (preL (a ++ k :: b)).map Tree.id := by
      unfold IdsNodup at hids
      rw [PruneP.preL_singleton, pre] at hids
      exact (List.nodup_cons.mp hids).1
    simp only [pre, List.map_cons, List.mem_cons, PruneP.id_node] at h1 h0
    simp only [tabT, List.mem_cons, Prod.mk.injEq] at hz ⊢
    rcases hz with ⟨rfl, rfl⟩ | hz
    · exact ⟨r', Or.inl ⟨rfl, rfl⟩, (List.filter_eq_self.mpr hacc).symm⟩
    · obtain ⟨r, hr, e⟩ := ancStepL a b k k' hk hnd S (i :: acc)
        (by
          intro a' ha'
          rcases List.mem_cons.mp ha' with rfl | ha'
          · exact h1 _ (Or.inl rfl)
          · exact hacc a' ha')
        (fun y hy => h1 y (Or.inr hy))
        (by
          intro y hy hy'
          apply h0 y (Or.inr hy)
          rintro (rfl | h')
          · exact hi hy
          · exact hy' h') z r' hz
      exact ⟨r, Or.inr hr, e⟩

/-- **one prune step removes identifiers from every ancestor chain and changes nothing else**:
the parent of a surviving structure is its nearest surviving former ancestor. -/
theorem pruneForest_ancestors (ic : Tree → Tree → Bool) (f f' : List Tree)
    (h : pruneForest ic [] f = some f') (hids : IdsNodup f) :
    ∀ s' ∈ Tree.preL f', ancestors f' s'.id
      = (ancestors f s'.id).filter (fun a => a ∈ (Tree.preL f').map Tree.id) := by
  intro s' hs'
  have hids' := pruneForest_idsNodup ic f f' h hids
  obtain ⟨r', hr'⟩ := tab_has hs' []
  obtain ⟨a, t, t', b, rfl, rfl, hp⟩ := pruneForest_some ic f [] f' h
  simp only [List.nil_append] at *
  have hk := pruneIn_ancStep ic t t' hp (idsNodup_sub hids)
  have hsub := pstep_ids_sub (pruneIn_pstep ic t t' hp (idsNodup_sub hids))
  obtain ⟨r, hr, e⟩ := ancStepL a b t t' hk hids
    (fun x => decide (x ∈ (Tree.preL (a ++ t' :: b)).map Tree.id)) [] (by simp)
    (by intro x hx; simpa using hx) (by intro x _ hx; simpa using hx) s'.id r' hr'
  rw [ancestors_eq hids' hr', ancestors_eq hids hr, e]

theorem ancestors_sub {f : List Tree} (i : Nat) :
    ∀ a ∈ ancestors f i, a ∈ (preL f).map Tree.id := by
  intro a ha
  unfold ancestors at ha
  cases h : ancL i [] f with
  | none => rw [h] at ha; simp at ha
  | some r =>
    rw [h] at ha
    rw [(anc_eq_find i).2 f []] at h
    obtain ⟨e, he, rfl⟩ := Option.map_eq_some_iff.mp h
    have hm := List.mem_of_find?_eq_some he
    rcases (tab_content).2 f [] e.1 e.2 hm a (by simpa using ha) with h' | h'
    · simp at h'
    · exact h'

theorem pruneLoop_ids_sub (ic : Tree → Tree → Bool) (n : Nat) (f : List Tree) (hids : IdsNodup f) :
    ∀ x ∈ (preL (pruneLoop ic n f)).map Tree.id, x ∈ (preL f).map Tree.id := by
  intro x hx
  obtain ⟨s', hs', rfl⟩ := List.mem_map.mp hx
  obtain ⟨s, hs, e, _⟩ := pruneLoop_regions ic n f hids s' hs'
  exact List.mem_map.mpr ⟨s, hs, e⟩

/-- **after pruning, the parent of every surviving structure is its nearest surviving former
ancestor** (the whole chain of ancestors is the former chain with the removed ones left out) -/
theorem pruneLoop_ancestors (ic : Tree → Tree → Bool) (n : Nat) (f : List Tree) (hids : IdsNodup f) :
    ∀ s' ∈ Tree.preL (pruneLoop ic n f), ancestors (pruneLoop ic n f) s'.id
      = (ancestors f s'.id).filter (fun a => a ∈ (Tree.preL (pruneLoop ic n f)).map Tree.id) := by
  have hrefl : ∀ s' ∈ Tree.preL f, ancestors f s'.id
      = (ancestors f s'.id).filter (fun a => a ∈ (Tree.preL f).map Tree.id) := by
    intro s' _
    symm
    rw [List.filter_eq_self]
    intro a ha
    simpa using ancestors_sub _ a ha
  induction n generalizing f with
  | zero => exact hrefl
  | succ n ih =>
    rw [pruneLoop]
    cases hp : pruneForest ic [] f with
    | none => exact hrefl
    | some f' =>
      have hids' := pruneForest_idsNodup ic f f' hp hids
      intro s'' hs''
      simp only
      rw [ih f' hids' (fun s' _ => by
        symm; rw [List.filter_eq_self]; intro a ha; simpa using ancestors_sub _ a ha) s'' hs'']
      obtain ⟨s', hs', e, _⟩ := pruneLoop_regions ic n f' hids' s'' hs''
      have := pruneForest_ancestors ic f f' hp hids s' hs'
      rw [e] at this
      rw [this, List.filter_filter]
      apply List.filter_congr
      intro a _
      have hsub := pruneLoop_ids_sub ic n f' hids' a
      by_cases ha : a ∈ (preL (pruneLoop ic n f')).map Tree.id
      · simp [ha, hsub ha]
      · simp [ha]

/-! ### own pixels: one step -/

/-- one prune step on a prefix listing: the structures `rem` (children of `P`) disappear, their
own pixels go to `P`, nothing else changes -/
def Step1 (L L' : List Tree) : Prop :=
  ∃ P ∈ L, ∃ rem : List Tree, (∀ r ∈ rem, r ∈ P.kids) ∧
    (L'.map Tree.id ++ rem.map Tree.id).Perm (L.map Tree.id) ∧ P.id ∈ L'.map Tree.id ∧
    ∀ s' ∈ L', ∃ s ∈ L, s.id = s'.id ∧
      s'.own = s.own ++ (if s.id = P.id then rem.flatMap Tree.own else [])

theorem step1_frame (A B L L' : List Tree) (h : Step1 L L')
    (hnd : ((A ++ L ++ B).map Tree.id).Nodup) : Step1 (A ++ L ++ B) (A ++ L' ++ B) := by
  obtain ⟨P, hP, rem, hrem, hperm, hPid, hown⟩ := h
  refine ⟨P, by simp [hP], rem, hrem, ?_, by simp [hPid], ?_⟩
  · rw [List.perm_iff_count] at hperm ⊢
    intro x
    have := hperm x
    simp only [List.map_append, List.count_append] at this ⊢
    omega
  · simp only [List.map_append] at hnd
    have h1 := List.nodup_append.mp hnd
    have h2 := List.nodup_append.mp h1.1
    intro s' hs'
    simp only [List.mem_append] at hs' ⊢
    rcases hs' with (hs' | hs') | hs'
    · refine ⟨s', Or.inl (Or.inl hs'), rfl, ?_⟩
      have : s'.id ≠ P.id := h2.2.2 _ (List.mem_map_of_mem hs') _ (List.mem_map_of_mem hP)
      simp [this]
    · obtain ⟨s, hs, e, ho⟩ := hown s' hs'
      exact ⟨s, Or.inl (Or.inr hs), e, ho⟩
    · refine ⟨s', Or.inr hs', rfl, ?_⟩
      have : s'.id ≠ P.id := fun e =>
        h1.2.2 _ (List.mem_append_right _ (List.mem_map_of_mem hP)) _ (List.mem_map_of_mem hs') e.symm
      simp [this]

theorem step1_cons (t t' : Tree) (L L' : List Tree) (h : Step1 L L') (hid : t'.id = t.id)
    (hown : t'.own = t.own) (hnd : t.id ∉ L.map Tree.id) : Step1 (t :: L) (t' :: L') := by
  obtain ⟨P, hP, rem, hrem, hperm, hPid, hown'⟩ := h
  refine ⟨P, List.mem_cons_of_mem _ hP, rem, hrem, ?_, ?_, ?_⟩
  · simp only [List.map_cons, List.cons_append, hid]; exact hperm.cons _
  · simp [hPid]
  · intro s' hs'
    rcases List.mem_cons.mp hs' with rfl | hs'
    · refine ⟨t, List.mem_cons_self, hid.symm, ?_⟩
      have : t.id ≠ P.id := fun e => hnd (e ▸ List.mem_map_of_mem hP)
      simp [this, hown]
    · obtain ⟨s, hs, e, ho⟩ := hown' s' hs'
      exact ⟨s, List.mem_cons_of_mem _ hs, e, ho⟩

theorem pruneIn_step1 (ic : Tree → Tree → Bool) (t t' : Tree) (h : pruneIn ic t = some t')
    (hids : IdsNodup [t]) : Step1 (pre t) (pre t') := by
  revert hids
  refine pruneIn_ind ic (fun t t' => IdsNodup [t] → Step1 (pre t) (pre t')) ?_ ?_ t t' h
  · intro P k hk hleaf hids
    unfold IdsNodup at hids
    rw [PruneP.preL_singleton] at hids
    rcases pruneAt_cases P k hk (by unfold IdsNodup; rw [PruneP.preL_singleton]; exact hids)
      with ⟨i, o, a, b, rfl, _, e⟩ | ⟨i, o, x, y, rfl, e⟩
    · rw [e, hleaf, List.append_nil]
      refine ⟨_, PruneP.self_mem_pre _, [k], by simp, ?_, by simp [pre], ?_⟩
      · simp only [pre, preL_append, pre_eq k, hleaf, preL]
        rw [List.perm_iff_count]; intro z
        simp only [List.map_append, List.map_cons, List.map_nil, List.count_append, List.count_cons,
          List.count_nil, List.cons_append, PruneP.id_node]
        omega
      · simp only [pre, preL_append, PruneP.preL_cons, List.map_cons, List.map_append,
          PruneP.id_node, List.nodup_cons, List.mem_append, List.mem_map, not_or] at hids
        intro s' hs'
        simp only [pre, List.mem_cons, preL_append, List.mem_append] at hs'
        rcases hs' with rfl | hs' | hs'
        · exact ⟨_, PruneP.self_mem_pre _, rfl, by simp⟩
        · refine ⟨s', ?_, rfl, ?_⟩
          · simp only [pre, List.mem_cons, preL_append, List.mem_append]
            exact Or.inr (Or.inl hs')
          · have : s'.id ≠ i := fun e => hids.1.1 ⟨s', hs', e⟩
            simp [this]
        · refine ⟨s', ?_, rfl, ?_⟩
          · simp only [pre, List.mem_cons, preL_append, List.mem_append, PruneP.preL_cons]
            exact Or.inr (Or.inr (Or.inr hs'))
          · have : s'.id ≠ i := fun e => hids.1.2.2 ⟨s', hs', e⟩
            simp [this]
    · rw [e]
      refine ⟨_, PruneP.self_mem_pre _, [x, y], by simp, ?_, by simp [pre], ?_⟩
      · simp only [pre, preL, preL_append, pre_eq x, pre_eq y]
        rw [List.perm_iff_count]; intro z
        simp only [List.map_append, List.map_cons, List.map_nil, List.count_append, List.count_cons,
          List.count_nil, List.cons_append, List.append_nil, PruneP.id_node]
        omega
      · simp only [pre, preL, pre_eq x, pre_eq y, List.map_cons, List.map_append, List.append_nil,
          PruneP.id_node, List.nodup_cons, List.mem_append, List.mem_cons, List.mem_map, not_or,
          List.cons_append] at hids
        intro s' hs'
        simp only [pre, List.mem_cons, preL_append, List.mem_append] at hs'
        rcases hs' with rfl | hs' | hs'
        · exact ⟨_, PruneP.self_mem_pre _, rfl, by simp⟩
        · refine ⟨s', ?_, rfl, ?_⟩
          · simp only [pre, preL, pre_eq x, List.mem_cons, List.mem_append, List.cons_append]
            exact Or.inr (Or.inr (Or.inl hs'))
          · have : s'.id ≠ i := fun e => hids.1.2.1 ⟨s', hs', e⟩
            simp [this]
        · refine ⟨s', ?_, rfl, ?_⟩
          · simp only [pre, preL, pre_eq x, pre_eq y, List.mem_cons, List.mem_append,
              List.cons_append, List.append_nil]
            exact Or.inr (Or.inr (Or.inr (Or.inr hs')))
          · have : s'.id ≠ i := fun e => hids.1.2.2.2 ⟨s', hs', e⟩
            simp [this]
  · intro i o a k k' b hp ih hids
    have hk := ih (idsNodup_kid hids)
    unfold IdsNodup at hids
    rw [PruneP.preL_singleton, pre] at hids
    have hnd := List.nodup_cons.mp hids
    simp only [pre, preL_append, PruneP.preL_cons, PruneP.id_node] at hnd ⊢
    refine step1_cons _ _ _ _ ?_ rfl rfl hnd.1
    have := step1_frame (preL a) (preL b) _ _ hk (by simpa [List.append_assoc] using hnd.2)
    simpa [List.append_assoc] using this

theorem pruneForest_step1 (ic : Tree → Tree → Bool) (f f' : List Tree)
    (h : pruneForest ic [] f = some f') (hids : IdsNodup f) : Step1 (preL f) (preL f') := by
  obtain ⟨a, t, t', b, rfl, rfl, hp⟩ := pruneForest_some ic f [] f' h
  have hk := pruneIn_step1 ic t t' hp (idsNodup_sub hids)
  unfold IdsNodup at hids
  simp only [List.nil_append, preL_append, PruneP.preL_cons] at hids ⊢
  have := step1_frame (preL a) (preL b) _ _ hk (by simpa [List.append_assoc] using hids)
  simpa [List.append_assoc] using this

/-! ### structure of the chains -/

/-- every chain is the accumulator, or starts with a structure whose chain is the rest -/
theorem tab_closure :
    (∀ t : Tree, ∀ acc i r, (i, r) ∈ tabT acc t →
        r = acc ∨ ∃ j r0, r = j :: r0 ∧ (j, r0) ∈ tabT acc t) ∧
    (∀ l : List Tree, ∀ acc i r, (i, r) ∈ tabL acc l →
        r = acc ∨ ∃ j r0, r = j :: r0 ∧ (j, r0) ∈ tabL acc l) := by
  apply Tree.forest_induction
  · intro j o ks ih acc i r h
    simp only [tabT, List.mem_cons, Prod.mk.injEq] at h ⊢
    rcases h with ⟨_, rfl⟩ | h
    · exact Or.inl rfl
    · rcases ih (j :: acc) i r h with rfl | ⟨j', r0, rfl, h'⟩
      · exact Or.inr ⟨j, acc, rfl, Or.inl ⟨rfl, rfl⟩⟩
      · exact Or.inr ⟨j', r0, rfl, Or.inr h'⟩
  · intro acc i r h; simp [tabL] at h
  · intro t ts iht ihts acc i r h
    simp only [tabL, List.mem_append] at h ⊢
    rcases h with h | h
    · rcases iht acc i r h with rfl | ⟨j', r0, rfl, h'⟩
      · exact Or.inl rfl
      · exact Or.inr ⟨j', r0, rfl, Or.inl h'⟩
    · rcases ihts acc i r h with rfl | ⟨j', r0, rfl, h'⟩
      · exact Or.inl rfl
      · exact Or.inr ⟨j', r0, rfl, Or.inr h'⟩

/-- the chain of an ancestor is the rest of the chain -/
theorem tab_suffix (l : List Tree) (pre : List Nat) :
    ∀ (i j : Nat) (rest : List Nat), (i, pre ++ j :: rest) ∈ tabL [] l → (j, rest) ∈ tabL [] l := by
  induction pre with
  | nil =>
    intro i j rest h
    rcases (tab_closure).2 l [] i _ h with h' | ⟨j', r0, e, h'⟩
    · simp at h'
    · simp only [List.nil_append, List.cons.injEq] at e
      rw [e.1, e.2]; exact h'
  | cons p pre ih =>
    intro i j rest h
    rcases (tab_closure).2 l [] i _ h with h' | ⟨j', r0, e, h'⟩
    · simp at h'
    · simp only [List.cons_append, List.cons.injEq] at e
      rw [← e.2] at h'
      exact ih j' j rest h'

/-- the chain of a child is its parent followed by the parent's chain -/
theorem tab_kid :
    (∀ t : Tree, ∀ acc (P c : Tree), P ∈ pre t → c ∈ P.kids →
        ∃ r, (P.id, r) ∈ tabT acc t ∧ (c.id, P.id :: r) ∈ tabT acc t) ∧
    (∀ l : List Tree, ∀ acc (P c : Tree), P ∈ preL l → c ∈ P.kids →
        ∃ r, (P.id, r) ∈ tabL acc l ∧ (c.id, P.id :: r) ∈ tabL acc l) := by
  apply Tree.forest_induction
  · intro j o ks ih acc P c hP hc
    simp only [pre, List.mem_cons] at hP
    simp only [tabT, List.mem_cons, Prod.mk.injEq]
    rcases hP with rfl | hP
    · refine ⟨acc, Or.inl ⟨rfl, rfl⟩, Or.inr ?_⟩
      simp only [PruneP.kids_node] at hc
      obtain ⟨a, b, rfl⟩ := List.append_of_mem hc
      simp [tabL_append, tabL_cons, tabT_eq _ c, PruneP.id_node]
    · obtain ⟨r, h1, h2⟩ := ih (j :: acc) P c hP hc
      exact ⟨r, Or.inr h1, Or.inr h2⟩
  · intro acc P c hP; simp [preL] at hP
  · intro t ts iht ihts acc P c hP hc
    simp only [preL, List.mem_append] at hP
    simp only [tabL, List.mem_append]
    rcases hP with hP | hP
    · obtain ⟨r, h1, h2⟩ := iht acc P c hP hc
      exact ⟨r, Or.inl h1, Or.inl h2⟩
    · obtain ⟨r, h1, h2⟩ := ihts acc P c hP hc
      exact ⟨r, Or.inr h1, Or.inr h2⟩

theorem ancestors_kid {f : List Tree} (hids : IdsNodup f) {P c : Tree} (hP : P ∈ preL f)
    (hc : c ∈ P.kids) : ancestors f c.id = P.id :: ancestors f P.id := by
  obtain ⟨r, h1, h2⟩ := (tab_kid).2 f [] P c hP hc
  rw [ancestors_eq hids h1, ancestors_eq hids h2]

/-! ### the structure that receives the pixels -/

/-- nearest surviving ancestor-or-self (`S` : survivors) -/
def home (S : Nat → Bool) (f : List Tree) (j : Nat) : Option Nat := (j :: ancestors f j).find? S

theorem find_filter_of_imp {S S' : Nat → Bool} (h : ∀ a, S a = true → S' a = true) (l : List Nat) :
    (l.filter S').find? S = l.find? S := by
  induction l with
  | nil => rfl
  | cons a l ih =>
    rw [List.filter_cons]
    by_cases h1 : S' a = true
    · simp only [h1, if_true, List.find?_cons, ih]
    · have h2 : S a = false := by
        cases hS : S a with
        | false => rfl
        | true => exact absurd (h a hS) h1
      have h1' : S' a = false := by simpa using h1
      simp [h1', h2, ih]

theorem find_append_of_none {S : Nat → Bool} {p : List Nat} (h : ∀ a ∈ p, S a = false) (l : List Nat) :
    (p ++ l).find? S = l.find? S := by
  induction p with
  | nil => rfl
  | cons a p ih =>
    rw [List.cons_append, List.find?_cons, h a List.mem_cons_self]
    exact ih (fun b hb => h b (List.mem_cons_of_mem _ hb))

/-- `home` through an intermediate forest -/
theorem home_comp {S' S'' : Nat → Bool} {f f' : List Tree} (hids : IdsNodup f)
    (himp : ∀ a, S'' a = true → S' a = true)
    (hanc : ∀ j, S' j = true → ancestors f' j = (ancestors f j).filter S')
    {i : Nat} (hi : i ∈ (preL f).map Tree.id) :
    home S'' f i = (home S' f i).bind (home S'' f') := by
  obtain ⟨s, hs, rfl⟩ := List.mem_map.mp hi
  obtain ⟨c, hc⟩ := tab_has hs []
  have hci : ancestors f s.id = c := ancestors_eq hids hc
  unfold home
  rw [hci]
  cases hf : (s.id :: c).find? S' with
  | none =>
    rw [List.find?_eq_none] at hf
    simp only [Option.bind_none, List.find?_eq_none]
    intro a ha hSa
    exact hf a ha (himp a hSa)
  | some j =>
    obtain ⟨hSj, p, rest, e, hp⟩ := List.find?_eq_some_iff_append.mp hf
    have hrest : ancestors f j = rest := by
      cases p with
      | nil =>
        simp only [List.nil_append, List.cons.injEq] at e
        rw [← e.1, hci, e.2]
      | cons q p =>
        simp only [List.cons_append, List.cons.injEq] at e
        rw [e.2] at hc
        exact ancestors_eq hids (tab_suffix f p s.id j rest hc)
    simp only [Option.bind_some]
    rw [hanc j hSj, hrest, e]
    have h1 : (j :: rest.filter S') = (j :: rest).filter S' := by
      rw [List.filter_cons]; simp [hSj]
    rw [h1, find_filter_of_imp himp, find_append_of_none]
    intro a ha
    cases hS : S'' a with
    | false => rfl
    | true => have := hp a ha; simp [himp a hS] at this

/-! ### generic list lemmas -/

theorem filter_or_perm {α : Type} (p q : α → Bool) (l : List α)
    (h : ∀ x ∈ l, ¬ (p x = true ∧ q x = true)) :
    (l.filter (fun x => p x || q x)).Perm (l.filter p ++ l.filter q) := by
  induction l with
  | nil => simp
  | cons a l ih =>
    have ih' := ih (fun x hx => h x (List.mem_cons_of_mem _ hx))
    have ha := h a List.mem_cons_self
    cases hp : p a <;> cases hq : q a
    · simpa [List.filter_cons, hp, hq] using ih'
    · simp only [List.filter_cons, hp, hq, Bool.or_true, if_true, Bool.false_eq_true, if_false]
      exact (ih'.cons a).trans List.perm_middle.symm
    · simpa [List.filter_cons, hp, hq] using ih'
    · exact absurd ⟨hp, hq⟩ ha

theorem filter_id_eq {L : List Tree} (hnd : (L.map Tree.id).Nodup) {s : Tree} (hs : s ∈ L) :
    L.filter (fun r => r.id == s.id) = [s] := by
  induction L with
  | nil => simp at hs
  | cons a L ih =>
    rw [List.map_cons, List.nodup_cons] at hnd
    rcases List.mem_cons.mp hs with rfl | hs'
    · rw [List.filter_cons]
      simp only [beq_self_eq_true, if_true, List.cons.injEq, true_and, List.filter_eq_nil_iff,
        beq_iff_eq]
      intro r hr e
      exact hnd.1 (e ▸ List.mem_map_of_mem hr)
    · have : (a.id == s.id) = false := by
        simp only [beq_eq_false_iff_ne, ne_eq]
        intro e
        exact hnd.1 (e ▸ List.mem_map_of_mem hs')
      rw [List.filter_cons, this]
      simpa using ih hnd.2 hs'

theorem nodup_of_map {α β : Type} (f : α → β) {l : List α} (h : (l.map f).Nodup) : l.Nodup := by
  unfold List.Nodup at *
  rw [List.pairwise_map] at h
  exact h.imp (fun hne e => hne (by rw [e]))

theorem filter_mem_perm {L rem : List Tree} (hnd : (L.map Tree.id).Nodup)
    (hsub : ∀ r ∈ rem, r ∈ L) (hrem : (rem.map Tree.id).Nodup) :
    (L.filter (fun r => decide (r.id ∈ rem.map Tree.id))).Perm rem := by
  refine (List.perm_ext_iff_of_nodup ((nodup_of_map _ hnd).filter _)
    (nodup_of_map _ hrem)).mpr ?_
  intro r
  simp only [List.mem_filter, decide_eq_true_eq, List.mem_map]
  constructor
  · rintro ⟨hr, q, hq, e⟩
    rw [← P8.eq_of_id_eq hnd (hsub q hq) hr e]; exact hq
  · intro hr
    exact ⟨hsub r hr, r, hr, rfl⟩

/-- regrouping a double sum: if every `r' ∈ L'` collects the own pixels of the `r ∈ L` with
`h r = r'.id`, then the `r'` selected by `Q` collect those of the `r` with `Q (h r)` -/
theorem regroup_sum (L : List Tree) (h : Tree → Option Nat) (Q : Nat → Bool) :
    ∀ (L' : List Tree), (L'.map Tree.id).Nodup →
      (∀ r' ∈ L', r'.own.Perm ((L.filter (fun r => h r == some r'.id)).flatMap Tree.own)) →
      ((L'.filter (fun r' => Q r'.id)).flatMap Tree.own).Perm
        ((L.filter (fun r => (h r).any (fun j => decide (j ∈ L'.map Tree.id) && Q j))).flatMap
          Tree.own) := by
  intro L'
  induction L' with
  | nil => intro _ _; simp
  | cons r' L' ih =>
    intro hnd hown
    rw [List.map_cons, List.nodup_cons] at hnd
    have ih' := ih hnd.2 (fun x hx => hown x (List.mem_cons_of_mem _ hx))
    have hsplit : L.filter (fun r => (h r).any (fun j => decide (j ∈ (r' :: L').map Tree.id) && Q j))
        = L.filter (fun r => (h r == some r'.id && Q r'.id)
            || (h r).any (fun j => decide (j ∈ L'.map Tree.id) && Q j)) := by
      apply List.filter_congr
      intro r _
      cases hr : h r with
      | none => simp
      | some j =>
        simp only [Option.any_some, List.map_cons, List.mem_cons, Bool.decide_or]
        by_cases e : j = r'.id
        · subst e; simp [hnd.1]
        · simp [e]
    rw [hsplit]
    refine List.Perm.trans ?_ ((filter_or_perm _ _ L ?_).flatMap_right _).symm
    · rw [List.flatMap_append, List.filter_cons]
      cases hQ : Q r'.id with
      | true =>
        simp only [if_true, List.flatMap_cons, Bool.and_true]
        exact List.Perm.append (hown r' List.mem_cons_self) ih'
      | false =>
        have : L.filter (fun _ => false) = [] := by
          rw [List.filter_eq_nil_iff]; simp
        simpa [this] using ih'
    · intro r _ ⟨h1, h2⟩
      simp only [Bool.and_eq_true, beq_iff_eq] at h1
      rw [h1.1] at h2
      simp only [Option.any_some, Bool.and_eq_true, decide_eq_true_eq] at h2
      exact hnd.1 h2.1

/-! ### own pixels after pruning -/

/-- every structure of `F` owns the own pixels of the structures of `f` whose `home` it is -/
def OwnT (S : Nat → Bool) (f F : List Tree) : Prop :=
  ∀ s' ∈ preL F, s'.own.Perm
    (((preL f).filter (fun r => home S f r.id == some s'.id)).flatMap Tree.own)

theorem home_self {S : Nat → Bool} {f : List Tree} {j : Nat} (h : S j = true) :
    home S f j = some j := by
  unfold home; rw [List.find?_cons, h]

theorem ownT_refl {S : Nat → Bool} {f : List Tree} (hids : IdsNodup f)
    (hS : ∀ x ∈ (preL f).map Tree.id, S x = true) : OwnT S f f := by
  intro s hs
  have : (preL f).filter (fun r => home S f r.id == some s.id) = [s] := by
    rw [← filter_id_eq hids hs]
    apply List.filter_congr
    intro r hr
    rw [home_self (hS _ (List.mem_map_of_mem hr))]
    simp
  rw [this]; simp

theorem ownT_step (ic : Tree → Tree → Bool) (f f' : List Tree)
    (h : pruneForest ic [] f = some f') (hids : IdsNodup f) :
    OwnT (fun a => decide (a ∈ (preL f').map Tree.id)) f f' := by
  obtain ⟨P, hP, rem, hrem, hperm, hPid, hown⟩ := pruneForest_step1 ic f f' h hids
  have hnd' : ((preL f').map Tree.id ++ rem.map Tree.id).Nodup := hperm.nodup_iff.mpr hids
  have hnd'' := List.nodup_append.mp hnd'
  intro s' hs'
  obtain ⟨s, hs, e, ho⟩ := hown s' hs'
  have hkey : ∀ r ∈ preL f,
      (home (fun a => decide (a ∈ (preL f').map Tree.id)) f r.id == some s'.id)
        = ((r.id == s.id) || (decide (r.id ∈ rem.map Tree.id) && (P.id == s.id))) := by
    intro r hr
    by_cases hr' : r.id ∈ (preL f').map Tree.id
    · rw [home_self (by simpa using hr')]
      have : r.id ∉ rem.map Tree.id := fun h2 => hnd''.2.2 _ hr' _ h2 rfl
      simp [this, e]
    · have hrem' : r.id ∈ rem.map Tree.id := by
        have := hperm.mem_iff.mpr (List.mem_map_of_mem (f := Tree.id) hr)
        rcases List.mem_append.mp this with h2 | h2
        · exact absurd h2 hr'
        · exact h2
      obtain ⟨q, hq, hqe⟩ := List.mem_map.mp hrem'
      have hanc := ancestors_kid hids hP (hrem q hq)
      rw [hqe] at hanc
      have hne : r.id ≠ s'.id := by
        intro e2; apply hr'; rw [e2]; exact List.mem_map_of_mem hs'
      unfold home
      rw [hanc, List.find?_cons, List.find?_cons]
      simp [hr', hPid, hrem', hne, e]
  rw [List.filter_congr hkey]
  refine List.Perm.trans ?_ ((filter_or_perm _ _ _ ?_).flatMap_right _).symm
  · rw [List.flatMap_append, filter_id_eq hids hs, ho]
    simp only [List.flatMap_cons, List.flatMap_nil, List.append_nil]
    refine List.Perm.append_left _ ?_
    by_cases hPs : s.id = P.id
    · have hsub : ∀ r ∈ rem, r ∈ preL f := fun r hr =>
        P8.pre_subset_preL hP r (PruneP.kid_mem_pre (hrem r hr))
      have := filter_mem_perm hids hsub hnd''.2.1
      simp only [hPs, if_true, beq_self_eq_true, Bool.and_true]
      exact (this.flatMap_right _).symm
    · have hne : (P.id == s.id) = false := by
        simp only [beq_eq_false_iff_ne, ne_eq]; exact fun e2 => hPs e2.symm
      have : (preL f).filter (fun _ => false) = [] := by
        rw [List.filter_eq_nil_iff]; simp
      simp [hPs, hne, this]
  · intro r _ ⟨h1, h2⟩
    simp only [beq_iff_eq, Bool.and_eq_true, decide_eq_true_eq] at h1 h2
    exact hnd''.2.2 _ (by rw [h1, e]; exact List.mem_map_of_mem hs') _ h2.1 rfl

theorem ownT_comp {S' S'' : Nat → Bool} {f f' F : List Tree} (hids : IdsNodup f)
    (hids' : IdsNodup f')
    (himp : ∀ a, S'' a = true → S' a = true)
    (hS' : ∀ a, S' a = true → a ∈ (preL f').map Tree.id)
    (hanc : ∀ j, S' j = true → ancestors f' j = (ancestors f j).filter S')
    (h1 : OwnT S' f f') (h2 : OwnT S'' f' F) : OwnT S'' f F := by
  intro s'' hs''
  refine (h2 s'' hs'').trans ?_
  have := regroup_sum (preL f) (fun r => home S' f r.id) (fun j => home S'' f' j == some s''.id)
    (preL f') hids' h1
  refine this.trans ?_
  have hcongr : ∀ r ∈ preL f,
      ((home S' f r.id).any (fun j => decide (j ∈ (preL f').map Tree.id)
          && (home S'' f' j == some s''.id)))
        = (home S'' f r.id == some s''.id) := by
    intro r hr
    rw [home_comp hids himp hanc (List.mem_map_of_mem hr)]
    cases hh : home S' f r.id with
    | none => simp
    | some j =>
      have hj : S' j = true := by
        unfold home at hh; simpa using List.find?_some hh
      have hm := hS' j hj
      simp only [Option.bind_some, Option.any_some, hm, decide_true, Bool.true_and]
  rw [List.filter_congr hcongr]

theorem pruneLoop_ownT (ic : Tree → Tree → Bool) (n : Nat) (f : List Tree) (hids : IdsNodup f) :
    OwnT (fun a => decide (a ∈ (preL (pruneLoop ic n f)).map Tree.id)) f (pruneLoop ic n f) := by
  induction n generalizing f with
  | zero => exact ownT_refl hids (by intro x hx; simpa [pruneLoop] using hx)
  | succ n ih =>
    rw [pruneLoop]
    cases hp : pruneForest ic [] f with
    | none => exact ownT_refl hids (by intro x hx; simpa using hx)
    | some f' =>
      have hids' := pruneForest_idsNodup ic f f' hp hids
      simp only
      refine ownT_comp (S' := fun a => decide (a ∈ (preL f').map Tree.id)) hids hids' ?_ ?_ ?_
        (ownT_step ic f f' hp hids) (ih f' hids')
      · intro a ha
        simp only [decide_eq_true_eq] at ha ⊢
        exact pruneLoop_ids_sub ic n f' hids' a ha
      · intro a ha; simpa using ha
      · intro j hj
        simp only [decide_eq_true_eq] at hj
        obtain ⟨s', hs', rfl⟩ := List.mem_map.mp hj
        exact pruneForest_ancestors ic f f' hp hids s' hs'

/-- **pixels of removed structures pass to the nearest surviving former ancestor**: the own pixels
of a surviving structure are its former own pixels plus the own pixels of exactly those removed
structures whose nearest surviving former ancestor it is. -/
theorem pruneLoop_own_transfer (ic : Tree → Tree → Bool) (n : Nat) (f : List Tree)
    (hids : IdsNodup f) :
    ∀ s' ∈ Tree.preL (pruneLoop ic n f), ∃ s ∈ Tree.preL f, s.id = s'.id ∧
      s'.own.Perm (s.own ++ ((Tree.preL f).filter (fun r =>
        r.id ∉ (Tree.preL (pruneLoop ic n f)).map Tree.id ∧
        (ancestors f r.id).find? (fun a => a ∈ (Tree.preL (pruneLoop ic n f)).map Tree.id)
          = some s.id)).flatMap Tree.own) := by
  intro s' hs'
  obtain ⟨s, hs, e, _⟩ := pruneLoop_regions ic n f hids s' hs'
  refine ⟨s, hs, e, ?_⟩
  refine (pruneLoop_ownT ic n f hids s' hs').trans ?_
  generalize hF : pruneLoop ic n f = F at hs' ⊢
  have hkey : ∀ r ∈ preL f,
      (home (fun a => decide (a ∈ (preL F).map Tree.id)) f r.id == some s'.id)
        = ((r.id == s.id) || decide (r.id ∉ (preL F).map Tree.id ∧
            (ancestors f r.id).find? (fun a => decide (a ∈ (preL F).map Tree.id)) = some s.id)) := by
    intro r _
    by_cases hr' : r.id ∈ (preL F).map Tree.id
    · rw [home_self (by simpa using hr')]
      simp [hr', e]
    · have hne : r.id ≠ s'.id := by
        intro e2; apply hr'; rw [e2]; exact List.mem_map_of_mem hs'
      unfold home
      rw [List.find?_cons]
      have hb : (r.id == s'.id) = false := by simpa using hne
      have h1 : decide (r.id ∈ (preL F).map Tree.id) = false := by simpa using hr'
      simp only [h1, e, hb, Bool.false_or]
      by_cases hx : (ancestors f r.id).find? (fun a => decide (a ∈ (preL F).map Tree.id))
          = some s'.id
      · simp only [hx, beq_self_eq_true, hr', not_false_eq_true, and_self, decide_true]
      · have : ((ancestors f r.id).find? (fun a => decide (a ∈ (preL F).map Tree.id))
            == some s'.id) = false := by simpa using hx
        simp only [this, hx, and_false, decide_false]
  rw [List.filter_congr hkey]
  refine ((filter_or_perm _ _ _ ?_).flatMap_right _).trans ?_
  · intro r _ ⟨h1, h2⟩
    simp only [beq_iff_eq, decide_eq_true_eq] at h1 h2
    apply h2.1; rw [h1, e]; exact List.mem_map_of_mem hs'
  · rw [List.flatMap_append, filter_id_eq hids hs]
    simp

end P21
