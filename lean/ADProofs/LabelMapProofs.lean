import ADModel.LabelMap
import ADProofs.Partition
import ADProofs.Forest
import ADProofs.Contour
import ADProofs.IndexProofs
import ADProofs.PruneProofs
/-!
# ADProofs.LabelMapProofs — the label-map loop refines the functional pixel loop (P36)

`ADModel.LabelMap.runL` finds the structures adjacent to a pixel the way the implementation does:
labels of the neighbours read from `index_map`, each replaced by its ancestor, duplicates removed,
sorted by identifier; and it maintains `index_map` imperatively (`index_map[coord] = idx`,
`_fill_footprint` for merged leaves).  `ADModel.Compute.run` finds them by pixel membership.

For every `E : Env` and every `order` without repetition (`argsort` yields each kept pixel once;
the hypothesis cannot be dropped, see the last section):

* `runL_lmap`, `runL_lmap_run`   : the label map is `labelOf` of the forest (invariant);
* `runL_roots`                   : `(runL E order).roots = run E order` (refinement);
* `adjacentL_eq`, `adjacentL_run`: labels → roots, dedup, sort  =  `sortById (roots.filter touches)`;
* `runL_labels_resolve`          : `structures[a]` never fails;
* `runL_lmap_unprocessed`, `adjacentL_drop_none`, `adjacentL_dropCells`, `runL_dropCells`,
  `run_dropCells`                : the padding trick — never-processed cells carry `none` and contribute
  nothing;
* `joinAdj_merge_spec`, `stepL_lmap`, `stepL_good` : one iteration.

Core Lean only.
-/
open Tree

namespace P36

/-! ## lists sorted by identifier -/

theorem sorted_ext {l1 l2 : List Tree} (h1 : l1.Pairwise (fun a b => a.id < b.id))
    (h2 : l2.Pairwise (fun a b => a.id < b.id)) (h : ∀ x, x ∈ l1 ↔ x ∈ l2) : l1 = l2 := by
  induction l1 generalizing l2 with
  | nil =>
    symm; apply List.eq_nil_iff_forall_not_mem.mpr
    intro x hx; simpa using (h x).mpr hx
  | cons a l1 ih =>
    match l2, h2, h with
    | [], _, h => simpa using (h a).mp (by simp)
    | b :: l2, h2, h =>
      have h1' := List.pairwise_cons.mp h1
      have h2' := List.pairwise_cons.mp h2
      have hab : a = b := by
        by_cases hab : a = b
        · exact hab
        · exfalso
          have ha : a ∈ l2 := by
            rcases List.mem_cons.mp ((h a).mp (by simp)) with e | e
            · exact absurd e hab
            · exact e
          have hb : b ∈ l1 := by
            rcases List.mem_cons.mp ((h b).mpr (by simp)) with e | e
            · exact absurd e.symm hab
            · exact e
          have e1 := h1'.1 b hb
          have e2 := h2'.1 a ha
          omega
      subst hab
      congr 1
      apply ih h1'.2 h2'.2
      intro x
      constructor
      · intro hx
        rcases List.mem_cons.mp ((h x).mp (List.mem_cons_of_mem _ hx)) with e | e
        · subst e; have := h1'.1 x hx; omega
        · exact e
      · intro hx
        rcases List.mem_cons.mp ((h x).mpr (List.mem_cons_of_mem _ hx)) with e | e
        · subst e; have := h2'.1 x hx; omega
        · exact e

theorem sortById_strict (l : List Tree) (h : (l.map Tree.id).Nodup) :
    (sortById l).Pairwise (fun a b => a.id < b.id) := by
  have hs : (sortById l).Pairwise (fun a b => a.id ≤ b.id) := PruneP.sortById_sorted l
  have hn : ((sortById l).map Tree.id).Nodup := ((sortById_perm l).map Tree.id).nodup_iff.mpr h
  have hn' : (sortById l).Pairwise (fun a b => a.id ≠ b.id) := by
    simpa [List.Nodup, List.pairwise_map] using hn
  exact (hs.and hn').imp (fun h => by omega)

/-! ## forests with distinct identifiers -/

def IdsNodup (f : List Tree) : Prop := ((preL f).map Tree.id).Nodup

theorem roots_sublist_preL (f : List Tree) : f.Sublist (preL f) := by
  induction f with
  | nil => simp [preL]
  | cons t ts ih =>
    simp only [preL]; rw [pre_eq, List.cons_append]
    exact (ih.trans (List.sublist_append_right _ _)).cons_cons t

theorem ids_nodup_of_sublist {f l : List Tree} (hid : IdsNodup f) (h : l.Sublist f) :
    (l.map Tree.id).Nodup :=
  ((h.trans (roots_sublist_preL f)).map Tree.id).nodup hid

theorem root_id_inj {f : List Tree} (hid : IdsNodup f) {t u : Tree} (ht : t ∈ f) (hu : u ∈ f)
    (e : t.id = u.id) : t = u :=
  P8.eq_of_id_eq hid (mem_preL_of_mem ht) (mem_preL_of_mem hu) e

/-! ## `set(...)` -/

theorem dedupById_ids_nodup (l : List Tree) : ((dedupById l).map Tree.id).Nodup := by
  induction l with
  | nil => simp [dedupById]
  | cons t ts ih =>
    simp only [dedupById, List.map_cons, List.nodup_cons]
    refine ⟨?_, ((List.filter_sublist (l := dedupById ts)).map Tree.id).nodup ih⟩
    intro hm
    obtain ⟨u, hu, e⟩ := List.mem_map.mp hm
    have := (List.mem_filter.mp hu).2
    simp [e] at this

theorem mem_dedupById_of {l : List Tree} {t : Tree} (h : t ∈ dedupById l) : t ∈ l := by
  induction l with
  | nil => simp [dedupById] at h
  | cons a ts ih =>
    simp only [dedupById, List.mem_cons, List.mem_filter] at h
    rcases h with h | h
    · exact h ▸ List.mem_cons_self
    · exact List.mem_cons_of_mem _ (ih h.1)

theorem mem_dedupById {l : List Tree} (hinj : ∀ a ∈ l, ∀ b ∈ l, a.id = b.id → a = b) (t : Tree) :
    t ∈ dedupById l ↔ t ∈ l := by
  refine ⟨mem_dedupById_of, ?_⟩
  induction l with
  | nil => simp
  | cons a ts ih =>
    intro h
    simp only [dedupById, List.mem_cons, List.mem_filter]
    rcases List.mem_cons.mp h with e | h'
    · exact Or.inl e
    · by_cases hid : t.id = a.id
      · exact Or.inl (hinj t h a List.mem_cons_self hid)
      · refine Or.inr ⟨ih (fun x hx y hy => hinj x (List.mem_cons_of_mem _ hx) y (List.mem_cons_of_mem _ hy)) h', ?_⟩
        simpa using hid

/-! ## `structures[l].ancestor` -/

theorem hasId_iff {l : Nat} {t : Tree} : hasId l t = true ↔ ∃ s ∈ pre t, s.id = l := by
  simp [hasId, List.any_eq_true]

theorem rootOfLabel_some {f : List Tree} {l : Nat} {t : Tree} (h : rootOfLabel f l = some t) :
    t ∈ f ∧ ∃ s ∈ pre t, s.id = l :=
  ⟨List.mem_of_find?_eq_some h, hasId_iff.mp (List.find?_some h)⟩

/-- with distinct identifiers, the ancestor of a structure is the root whose subtree lists it -/
theorem rootOfLabel_eq {f : List Tree} (hid : IdsNodup f) {t s : Tree} (ht : t ∈ f) (hs : s ∈ pre t) :
    rootOfLabel f s.id = some t := by
  induction f with
  | nil => simp at ht
  | cons u rest ih =>
    unfold IdsNodup at hid
    simp only [preL, List.map_append] at hid
    have hd := List.nodup_append.mp hid
    unfold rootOfLabel
    rw [List.find?_cons]
    rcases List.mem_cons.mp ht with e | ht'
    · subst e
      have : hasId s.id t = true := hasId_iff.mpr ⟨s, hs, rfl⟩
      simp [this]
    · cases hu : hasId s.id u with
      | true =>
        exfalso
        obtain ⟨s', hs', e⟩ := hasId_iff.mp hu
        exact hd.2.2 s'.id (List.mem_map_of_mem hs') s.id
          (List.mem_map_of_mem (mem_preL.mpr ⟨t, ht', hs⟩)) e
      | false => exact ih hd.2.1 ht'

/-! ## owners -/

theorem mem_pixels_iff {t : Tree} {q : Nat} : q ∈ t.pixels ↔ ∃ s ∈ pre t, q ∈ s.own := by
  rw [(P8.pixels_eq_own).1 t]; exact P8.mem_flatMap_own

theorem labelOf_some_iff {f : List Tree} (hpx : (pixelsL f).Nodup) {q i : Nat} :
    labelOf f q = some i ↔ ∃ s ∈ preL f, s.id = i ∧ q ∈ s.own := by
  have hown : ((preL f).flatMap Tree.own).Nodup := by rw [← (P8.pixels_eq_own).2 f]; exact hpx
  unfold labelOf nodes
  constructor
  · intro hl
    rcases hf : (preL f).find? (fun t => t.own.contains q) with _ | t
    · rw [hf] at hl; simp at hl
    · rw [hf] at hl
      refine ⟨t, List.mem_of_find?_eq_some hf, by simpa using hl, ?_⟩
      simpa using List.find?_some hf
  · rintro ⟨t, ht, hid, hp⟩
    rw [P8.find_owner _ hown t ht q hp]; simp [hid]

/-- a label read from a correct label map resolves to the root whose pixels contain the cell -/
theorem label_root_iff {f : List Tree} (hid : IdsNodup f) (hpx : (pixelsL f).Nodup) (q : Nat) (x : Tree) :
    (∃ l, labelOf f q = some l ∧ rootOfLabel f l = some x) ↔ (x ∈ f ∧ q ∈ x.pixels) := by
  constructor
  · rintro ⟨l, hl, hr⟩
    obtain ⟨s, hs, e, hq⟩ := (labelOf_some_iff hpx).mp hl
    obtain ⟨u, hu, hsu⟩ := mem_preL.mp hs
    have := rootOfLabel_eq hid hu hsu
    rw [e, hr] at this
    have hxu : x = u := by simpa using this
    subst hxu
    exact ⟨hu, mem_pixels_iff.mpr ⟨s, hsu, hq⟩⟩
  · rintro ⟨hx, hq⟩
    obtain ⟨s, hs, hqs⟩ := mem_pixels_iff.mp hq
    exact ⟨s.id, (labelOf_some_iff hpx).mpr ⟨s, mem_preL.mpr ⟨x, hx, hs⟩, rfl, hqs⟩,
      rootOfLabel_eq hid hx hs⟩

/-! ## labels → roots, duplicates removed, sorted  =  the roots that `touches` finds -/

/-- the standing facts about the running state: distinct identifiers, every pixel owned once,
and the label map names the owner -/
structure Good (s : LState) : Prop where
  ids : IdsNodup s.roots
  pix : (pixelsL s.roots).Nodup
  lab : ∀ q, s.lmap q = labelOf s.roots q

theorem mem_adjacent_raw (E : Env) (s : LState) (p : Nat) (x : Tree) :
    x ∈ (labelsAt E s.lmap p).filterMap (rootOfLabel s.roots) ↔
      ∃ q ∈ E.nbrs p, ∃ l, s.lmap q = some l ∧ rootOfLabel s.roots l = some x := by
  simp only [labelsAt, List.mem_filterMap]
  constructor
  · rintro ⟨l, ⟨q, hq, hl⟩, hr⟩; exact ⟨q, hq, l, hl, hr⟩
  · rintro ⟨q, hq, l, hl, hr⟩; exact ⟨l, ⟨q, hq, hl⟩, hr⟩

/-- **the adjacent structures.**  Reading the labels of the neighbours from the label map, replacing
each by its ancestor, removing duplicates and sorting by identifier yields exactly the roots one of
whose pixels is a neighbour, in the same order. -/
theorem adjacentL_eq (E : Env) (s : LState) (p : Nat) (h : Good s) :
    adjacentL E s p = sortById (s.roots.filter (touches E p)) := by
  unfold adjacentL
  have hraw : ∀ x, x ∈ (labelsAt E s.lmap p).filterMap (rootOfLabel s.roots) ↔
      (x ∈ s.roots ∧ touches E p x = true) := by
    intro x
    rw [mem_adjacent_raw, touches_iff]
    constructor
    · rintro ⟨q, hq, l, hl, hr⟩
      rw [h.lab] at hl
      have := (label_root_iff h.ids h.pix q x).mp ⟨l, hl, hr⟩
      exact ⟨this.1, q, this.2, hq⟩
    · rintro ⟨hx, q, hqx, hq⟩
      obtain ⟨l, hl, hr⟩ := (label_root_iff h.ids h.pix q x).mpr ⟨hx, hqx⟩
      exact ⟨q, hq, l, by rw [h.lab]; exact hl, hr⟩
  apply sorted_ext
  · exact sortById_strict _ (dedupById_ids_nodup _)
  · exact sortById_strict _ (ids_nodup_of_sublist h.ids List.filter_sublist)
  · intro x
    rw [mem_sortById, mem_sortById, mem_dedupById, hraw, List.mem_filter]
    intro a ha b hb e
    exact root_id_inj h.ids ((hraw a).mp ha).1 ((hraw b).mp hb).1 e

/-- `structures[a]` never raises `KeyError`: every label in the map is the identifier of a structure -/
theorem labels_resolve (s : LState) (h : Good s) (q l : Nat) (hl : s.lmap q = some l) :
    ∃ t ∈ s.roots, rootOfLabel s.roots l = some t ∧ q ∈ t.pixels := by
  rw [h.lab] at hl
  obtain ⟨x, hx, e, hq⟩ := (labelOf_some_iff h.pix).mp hl
  obtain ⟨u, hu, hxu⟩ := mem_preL.mp hx
  exact ⟨u, hu, e ▸ rootOfLabel_eq h.ids hu hxu, mem_pixels_iff.mpr ⟨x, hxu, hq⟩⟩

/-! ## the receiving structure and the merged leaves -/

/-- What `joinAdj` does with each adjacent root, in terms of `mergedOf`: the receiving structure
`r` owns `p`; every merged leaf is an adjacent leaf whose own pixels went to `r`; every adjacent
root becomes a child of `r`, or is `r` before it received the pixel (same identifier and children,
own pixels kept), or is merged. -/
theorem joinAdj_merge_spec (E : Env) (p : Nat) (adj : List Tree) :
    p ∈ (joinAdj E p adj).own ∧
    (∀ m ∈ mergedOf E p adj, m ∈ adj ∧ m.kids = [] ∧ ∀ q ∈ m.own, q ∈ (joinAdj E p adj).own) ∧
    (∀ u ∈ adj, u ∈ (joinAdj E p adj).kids ∨
      (u.id = (joinAdj E p adj).id ∧ u.kids = (joinAdj E p adj).kids ∧
        ∀ q ∈ u.own, q ∈ (joinAdj E p adj).own) ∨
      u ∈ mergedOf E p adj) := by
  refine ⟨(joinAdj_shape E p adj).1, ?_⟩
  match adj with
  | [] => simp [mergedOf]
  | [t] =>
    have hm : mergedOf E p [t] = [] := rfl
    have hj : joinAdj E p [t] = t.addPixel p := rfl
    rw [hm, hj]
    refine ⟨by simp, ?_⟩
    intro u hu
    have : u = t := by simpa using hu
    subst this
    refine Or.inr (Or.inl ⟨(id_addPixel u p).symm, (kids_addPixel u p).symm, ?_⟩)
    intro q hq; rw [own_addPixel]; exact List.mem_append_left _ hq
  | a :: b :: rest =>
    generalize hA : (a :: b :: rest) = A
    have hleaf : ∀ m ∈ A.filter (insig E p), m ∈ A ∧ m.kids = [] := by
      intro m hm
      have := List.mem_filter.mp hm
      exact ⟨this.1, ((insig_iff E p m).mp this.2).1⟩
    have hsplit : ∀ u ∈ A, u ∈ A.filter (insig E p) ∨ u ∈ A.filter (fun t => !insig E p t) := by
      intro u hu
      cases hi : insig E p u with
      | true => exact Or.inl (List.mem_filter.mpr ⟨hu, hi⟩)
      | false => exact Or.inr (List.mem_filter.mpr ⟨hu, by simp [hi]⟩)
    rcases hk : A.filter (fun t => !insig E p t) with _ | ⟨k1, _ | ⟨k2, ks⟩⟩
    · -- nobody kept: the last insignificant leaf receives the pixel
      have hmA := filter_insig_eq_self_of_keep_nil (E := E) (p := p) A hk
      have hm : mergedOf E p A = (A.filter (insig E p)).dropLast := by
        subst hA; unfold mergedOf; simp only; rw [hk]
      subst hA
      obtain ⟨last, others, hAeq, hj⟩ := joinAdj_many_none_kept a b rest hk
      rw [hm, hmA, hj, hAeq, List.dropLast_concat]
      rw [hmA, hAeq] at hleaf
      refine ⟨?_, ?_⟩
      · intro m hm'
        refine ⟨List.mem_append_left _ hm', (hleaf m (List.mem_append_left _ hm')).2, ?_⟩
        intro q hq
        exact (ContourP.mem_own_foldl_absorb _ _ _).mpr (Or.inr ⟨m, hm', hq⟩)
      · intro u hu
        rcases List.mem_append.mp hu with hu | hu
        · exact Or.inr (Or.inr hu)
        · have : u = last := by simpa using hu
          subst this
          refine Or.inr (Or.inl ⟨?_, ?_, ?_⟩)
          · rw [id_foldl_absorb, id_addPixel]
          · rw [kids_foldl_absorb, kids_addPixel]
          · intro q hq
            exact (ContourP.mem_own_foldl_absorb _ _ _).mpr
              (Or.inl (by rw [own_addPixel]; exact List.mem_append_left _ hq))
    · -- one kept: it receives the pixel and the insignificant leaves
      have hm : mergedOf E p A = A.filter (insig E p) := by
        subst hA; unfold mergedOf; simp only; rw [hk]
      have hj : joinAdj E p A = (A.filter (insig E p)).foldl Tree.absorb (k1.addPixel p) := by
        subst hA; exact joinAdj_many_one_kept a b rest k1 hk
      rw [hm, hj]
      refine ⟨?_, ?_⟩
      · intro m hm'
        refine ⟨(hleaf m hm').1, (hleaf m hm').2, ?_⟩
        intro q hq
        exact (ContourP.mem_own_foldl_absorb _ _ _).mpr (Or.inr ⟨m, hm', hq⟩)
      · intro u hu
        rcases hsplit u hu with h | h
        · exact Or.inr (Or.inr h)
        · rw [hk] at h
          have : u = k1 := by simpa using h
          subst this
          refine Or.inr (Or.inl ⟨?_, ?_, ?_⟩)
          · rw [id_foldl_absorb, id_addPixel]
          · rw [kids_foldl_absorb, kids_addPixel]
          · intro q hq
            exact (ContourP.mem_own_foldl_absorb _ _ _).mpr
              (Or.inl (by rw [own_addPixel]; exact List.mem_append_left _ hq))
    · -- several kept: a new branch
      have hm : mergedOf E p A = A.filter (insig E p) := by
        subst hA; unfold mergedOf; simp only; rw [hk]
      have hj : joinAdj E p A =
          (A.filter (insig E p)).foldl Tree.absorb (Tree.node p [p] (k1 :: k2 :: ks)) := by
        subst hA; exact joinAdj_many_branch a b rest k1 k2 ks hk
      rw [hm, hj]
      refine ⟨?_, ?_⟩
      · intro m hm'
        refine ⟨(hleaf m hm').1, (hleaf m hm').2, ?_⟩
        intro q hq
        exact (ContourP.mem_own_foldl_absorb _ _ _).mpr (Or.inr ⟨m, hm', hq⟩)
      · intro u hu
        rcases hsplit u hu with h | h
        · exact Or.inr (Or.inr h)
        · left
          rw [hk] at h
          rw [kids_foldl_absorb]
          exact h

/-! ## the label map after one iteration -/

theorem foldl_fill (ms : List Tree) (idx : Nat) (lm : Nat → Option Nat) (q : Nat) :
    (ms.foldl (fun lm m => fillFootprint lm m idx) lm) q =
      if ms.any (fun m => m.own.contains q) then some idx else lm q := by
  induction ms generalizing lm with
  | nil => simp
  | cons m ms ih =>
    rw [List.foldl_cons, ih, List.any_cons]
    simp only [fillFootprint]
    cases ms.any (fun m => m.own.contains q) <;> cases m.own.contains q <;> simp

/-- the label map written by one iteration: the processed pixel and the own pixels of the merged
leaves get the identifier of the receiving structure; nothing else changes -/
theorem stepL_lmap (E : Env) (s : LState) (p q : Nat) :
    (stepL E s p).lmap q =
      if q = p ∨ ∃ m ∈ mergedOf E p (adjacentL E s p), q ∈ m.own
      then some (joinAdj E p (adjacentL E s p)).id else s.lmap q := by
  simp only [stepL]
  rw [foldl_fill]
  by_cases h2 : ∃ m ∈ mergedOf E p (adjacentL E s p), q ∈ m.own
  · have : (mergedOf E p (adjacentL E s p)).any (fun m => m.own.contains q) = true := by
      simpa [List.any_eq_true] using h2
    rw [this]; simp [h2]
  · have : (mergedOf E p (adjacentL E s p)).any (fun m => m.own.contains q) = false := by
      rw [Bool.eq_false_iff]; intro hc
      exact h2 (by simpa [List.any_eq_true] using hc)
    simp only [this, h2, or_false, setLabel]
    rfl

/-! ## one iteration refines `step` and keeps the label map correct -/

theorem stepL_roots (E : Env) (s : LState) (p : Nat) (h : Good s) :
    (stepL E s p).roots = step E s.roots p := by
  simp only [stepL, step]
  rw [adjacentL_eq E s p h]
  congr 1
  apply List.filter_congr
  intro t ht
  congr 1
  rw [Bool.eq_iff_iff, List.any_eq_true]
  constructor
  · rintro ⟨a, ha, e⟩
    have ha' := ContourP.mem_adjOf.mp ha
    have : a = t := root_id_inj h.ids ha'.1 ht (by simpa using e)
    exact this ▸ ha'.2
  · intro htt
    exact ⟨t, ContourP.mem_adjOf.mpr ⟨ht, htt⟩, by simp⟩

theorem step_good_pix (E : Env) (roots : List Tree) (p : Nat) (hpx : (pixelsL roots).Nodup)
    (hp : p ∉ pixelsL roots) : (pixelsL (step E roots p)).Nodup :=
  (step_pixels E roots p).nodup_iff.mpr (List.nodup_cons.mpr ⟨hp, hpx⟩)

theorem stepL_lab (E : Env) (s : LState) (p : Nat) (h : Good s) (hp1 : p ∉ pixelsL s.roots)
    (hp2 : ∀ t ∈ preL s.roots, t.id ≠ p) (q : Nat) :
    (stepL E s p).lmap q = labelOf (step E s.roots p) q := by
  have hpx' := step_good_pix E s.roots p h.pix hp1
  rw [stepL_lmap, adjacentL_eq E s p h]
  generalize hA : sortById (s.roots.filter (touches E p)) = A
  obtain ⟨hJ1, hJ2, hJ3⟩ := joinAdj_merge_spec E p A
  have hstep : step E s.roots p = s.roots.filter (fun t => !touches E p t) ++ [joinAdj E p A] := by
    rw [← hA]; rfl
  generalize hr : joinAdj E p A = r at *
  have hr_root : r ∈ step E s.roots p := by rw [hstep]; simp
  have hr_mem : r ∈ preL (step E s.roots p) := mem_preL_of_mem hr_root
  have hkids : ∀ x ∈ preL r.kids, x ∈ preL (step E s.roots p) := fun x hx =>
    mem_preL.mpr ⟨r, hr_root, ContourP.mem_pre.mpr (Or.inr hx)⟩
  by_cases hq : q = p ∨ ∃ m ∈ mergedOf E p A, q ∈ m.own
  · rw [if_pos hq]
    symm
    refine (labelOf_some_iff hpx').mpr ⟨r, hr_mem, rfl, ?_⟩
    rcases hq with rfl | ⟨m, hm, hqm⟩
    · exact hJ1
    · exact (hJ2 m hm).2.2 q hqm
  · rw [if_neg hq, h.lab]
    cases hl : labelOf s.roots q with
    | none =>
      symm
      rw [P8.labelOf_none_iff] at hl ⊢
      intro hc
      rcases List.mem_cons.mp ((step_pixels E s.roots p).mem_iff.mp hc) with e | e
      · exact hq (Or.inl e)
      · exact hl e
    | some i =>
      symm
      obtain ⟨x, hx, hxi, hqx⟩ := (labelOf_some_iff h.pix).mp hl
      apply (labelOf_some_iff hpx').mpr
      obtain ⟨u, hu, hxu⟩ := mem_preL.mp hx
      cases ht : touches E p u with
      | false =>
        refine ⟨x, mem_preL.mpr ⟨u, ?_, hxu⟩, hxi, hqx⟩
        rw [hstep]
        exact List.mem_append_left _ (List.mem_filter.mpr ⟨hu, by simp [ht]⟩)
      | true =>
        have huA : u ∈ A := by rw [← hA]; exact ContourP.mem_adjOf.mpr ⟨hu, ht⟩
        rcases hJ3 u huA with hk | ⟨hid, hk, hown⟩ | hm
        · exact ⟨x, hkids x (mem_preL.mpr ⟨u, hk, hxu⟩), hxi, hqx⟩
        · rcases ContourP.mem_pre.mp hxu with rfl | hxk
          · exact ⟨r, hr_mem, by rw [← hid]; exact hxi, hown q hqx⟩
          · exact ⟨x, hkids x (hk ▸ hxk), hxi, hqx⟩
        · exfalso
          have hleaf := (hJ2 u hm).2.1
          rcases ContourP.mem_pre.mp hxu with rfl | hxk
          · exact hq (Or.inr ⟨x, hm, hqx⟩)
          · rw [hleaf] at hxk; simp [preL] at hxk

/-- one iteration on a good state: same forest as `step`, and the state stays good -/
theorem stepL_good (E : Env) (s : LState) (p : Nat) (h : Good s) (hp1 : p ∉ pixelsL s.roots)
    (hp2 : ∀ t ∈ preL s.roots, t.id ≠ p) :
    (stepL E s p).roots = step E s.roots p ∧ Good (stepL E s p) := by
  have hr := stepL_roots E s p h
  refine ⟨hr, ?_, ?_, ?_⟩
  · rw [hr]; exact step_ids_nodup E s.roots p h.ids hp2
  · rw [hr]; exact step_good_pix E s.roots p h.pix hp1
  · intro q; rw [hr]; exact stepL_lab E s p h hp1 hp2 q

/-! ## the whole loop -/

theorem runL_snoc (E : Env) (pre : List Nat) (p : Nat) :
    runL E (pre ++ [p]) = stepL E (runL E pre) p := by
  simp [runL, List.foldl_append]

theorem run_snoc (E : Env) (pre : List Nat) (p : Nat) : run E (pre ++ [p]) = step E (run E pre) p := by
  simp [run, List.foldl_append]

theorem init_good : Good LState.init :=
  ⟨by simp [IdsNodup, LState.init, preL], by simp [LState.init, pixelsL],
   by intro q; simp [LState.init, labelOf, preL]⟩

/-- induction over the processed prefix (`order = pre ++ suf`) -/
theorem runL_spec_aux (E : Env) (suf pre : List Nat) (hnd : (pre ++ suf).Nodup)
    (h : (runL E pre).roots = run E pre ∧ Good (runL E pre)) :
    (runL E (pre ++ suf)).roots = run E (pre ++ suf) ∧ Good (runL E (pre ++ suf)) := by
  induction suf generalizing pre with
  | nil => simpa using h
  | cons p ps ih =>
    have hnd' : ((pre ++ [p]) ++ ps).Nodup := by simpa using hnd
    have hpre : (pre ++ [p]).Nodup := (List.nodup_append.mp hnd').1
    have hp : p ∉ pre := (ContourP.nodup_snoc hpre).2
    have := ih (pre ++ [p]) hnd' (by
      rw [runL_snoc, run_snoc, ← h.1]
      apply stepL_good E _ p h.2
      · rw [h.1, (run_pixels E pre).mem_iff]; simpa using hp
      · intro t ht e
        rw [h.1] at ht
        exact hp (e ▸ run_ids_subset E pre t ht))
    simpa using this

/-- combined statement: the loop with the label map computes the forest of `run`, and its state is
good (distinct identifiers, disjoint pixels, label map = `labelOf`) -/
theorem runL_spec (E : Env) (order : List Nat) (hnd : order.Nodup) :
    (runL E order).roots = run E order ∧ Good (runL E order) := by
  have := runL_spec_aux E order [] (by simpa using hnd) ⟨rfl, init_good⟩
  simpa using this

/-- **1. invariant.**  After processing `order` (each pixel at most once) the imperatively
maintained label map names, for every cell `q`, exactly the structure whose own list contains `q`;
it is `none` (`-1`) for a cell that was never processed. -/
theorem runL_lmap (E : Env) (order : List Nat) (hnd : order.Nodup) (q : Nat) :
    (runL E order).lmap q = labelOf (runL E order).roots q :=
  (runL_spec E order hnd).2.lab q

/-- the same, against the functional model -/
theorem runL_lmap_run (E : Env) (order : List Nat) (hnd : order.Nodup) (q : Nat) :
    (runL E order).lmap q = labelOf (run E order) q := by
  rw [runL_lmap E order hnd, (runL_spec E order hnd).1]

/-- **2. refinement.**  The loop that finds adjacent structures through the label map computes the
same forest as the functional model that finds them by pixel membership. -/
theorem runL_roots (E : Env) (order : List Nat) (hnd : order.Nodup) :
    (runL E order).roots = run E order :=
  (runL_spec E order hnd).1

/-- in particular, at every iteration the adjacent structures found through the label map are the
roots that `touches` finds, in the same order -/
theorem adjacentL_run (E : Env) (pre : List Nat) (hnd : pre.Nodup) (p : Nat) :
    adjacentL E (runL E pre) p = sortById ((run E pre).filter (touches E p)) := by
  rw [adjacentL_eq E _ p (runL_spec E pre hnd).2, runL_roots E pre hnd]

/-- every label ever read resolves (`structures[a]` does not raise) -/
theorem runL_labels_resolve (E : Env) (order : List Nat) (hnd : order.Nodup) (q l : Nat)
    (hl : (runL E order).lmap q = some l) :
    ∃ t ∈ (runL E order).roots, rootOfLabel (runL E order).roots l = some t ∧ q ∈ t.pixels :=
  labels_resolve _ (runL_spec E order hnd).2 q l hl

/-! ## 3. the padding cells -/

/-- a cell that was never processed carries `none` (`-1`) -/
theorem runL_lmap_unprocessed (E : Env) (order : List Nat) (hnd : order.Nodup) (q : Nat)
    (hq : q ∉ order) : (runL E order).lmap q = none := by
  rw [runL_lmap_run E order hnd, P8.labelOf_none_iff, (run_pixels E order).mem_iff]
  simpa using hq

/-- and a processed cell does not -/
theorem runL_lmap_processed (E : Env) (order : List Nat) (hnd : order.Nodup) (q : Nat)
    (hq : q ∈ order) : ((runL E order).lmap q).isSome = true := by
  cases hl : (runL E order).lmap q with
  | some l => rfl
  | none =>
    rw [runL_lmap_run E order hnd, P8.labelOf_none_iff, (run_pixels E order).mem_iff] at hl
    exact absurd (by simpa using hq) hl

theorem filterMap_filter_of_none {α β : Type} (g : α → Option β) (f : α → Bool) (l : List α)
    (h : ∀ x ∈ l, f x = false → g x = none) : (l.filter f).filterMap g = l.filterMap g := by
  induction l with
  | nil => rfl
  | cons a l ih =>
    have ih' := ih (fun x hx => h x (List.mem_cons_of_mem _ hx))
    cases hf : f a with
    | true => simp only [List.filter_cons, hf, if_true, List.filterMap_cons, ih']
    | false =>
      have := h a List.mem_cons_self hf
      simp only [List.filter_cons, hf, List.filterMap_cons, this]
      simpa using ih'

/-- a neighbour whose label is `none` contributes nothing to the adjacent structures: the list
computed from all neighbours is the list computed from the neighbours without it -/
theorem adjacentL_drop_none (E : Env) (s : LState) (p : Nat) (a b : List Nat) (c : Nat)
    (hn : E.nbrs p = a ++ c :: b) (hc : s.lmap c = none) :
    adjacentL E s p =
      sortById (dedupById (((a ++ b).filterMap s.lmap).filterMap (rootOfLabel s.roots))) := by
  unfold adjacentL labelsAt
  rw [hn]
  simp [List.filterMap_append, hc]

/-- the adjacency with the cells `pad` removed from every neighbour list -/
def dropCells (E : Env) (pad : Nat → Bool) : Env :=
  { E with nbrs := fun x => (E.nbrs x).filter (fun q => !pad q) }

/-- **padding trick, one iteration**: cells labelled `none` may be removed from the neighbour lists -/
theorem adjacentL_dropCells (E : Env) (pad : Nat → Bool) (s : LState) (p : Nat)
    (hpad : ∀ q, pad q = true → s.lmap q = none) :
    adjacentL (dropCells E pad) s p = adjacentL E s p := by
  unfold adjacentL labelsAt dropCells
  simp only
  rw [filterMap_filter_of_none]
  intro x _ hx
  exact hpad x (by simpa using hx)

theorem stepL_dropCells (E : Env) (pad : Nat → Bool) (s : LState) (p : Nat)
    (hpad : ∀ q, pad q = true → s.lmap q = none) :
    stepL (dropCells E pad) s p = stepL E s p := by
  simp only [stepL]
  rw [adjacentL_dropCells E pad s p hpad]
  rfl

/-- **3. padding trick, whole loop.**  If the cells in `pad` (border / out-of-range cells that the
neighbour function may return) are never processed, the loop behaves as if the neighbour function
did not return them: same forest, same label map. -/
theorem runL_dropCells (E : Env) (pad : Nat → Bool) (order : List Nat) (hnd : order.Nodup)
    (hpad : ∀ q, pad q = true → q ∉ order) :
    runL (dropCells E pad) order = runL E order := by
  suffices h : ∀ suf pre, (pre ++ suf).Nodup → (∀ q, pad q = true → q ∉ pre ++ suf) →
      runL (dropCells E pad) pre = runL E pre →
      runL (dropCells E pad) (pre ++ suf) = runL E (pre ++ suf) by
    simpa using h order [] (by simpa using hnd) (by simpa using hpad) rfl
  intro suf
  induction suf with
  | nil => intro pre _ _ h; simpa using h
  | cons p ps ih =>
    intro pre hnd hpad h
    have hnd' : ((pre ++ [p]) ++ ps).Nodup := by simpa using hnd
    have hpre : pre.Nodup := (List.nodup_append.mp hnd).1
    have := ih (pre ++ [p]) hnd' (by simpa using hpad) (by
      rw [runL_snoc, runL_snoc, h]
      apply stepL_dropCells
      intro q hq
      apply runL_lmap_unprocessed E pre hpre
      intro hc
      exact hpad q hq (List.mem_append_left _ hc))
    simpa using this

/-- consequently the functional model does not see them either -/
theorem run_dropCells (E : Env) (pad : Nat → Bool) (order : List Nat) (hnd : order.Nodup)
    (hpad : ∀ q, pad q = true → q ∉ order) :
    run (dropCells E pad) order = run E order := by
  rw [← runL_roots _ order hnd, ← runL_roots _ order hnd, runL_dropCells E pad order hnd hpad]

/-! ## a concrete instance

A row of five pixels with values `3 1 2 1 3`; cell `5` is the padding cell that the neighbour
function returns at both ends.  A leaf is independent when it rises at least 2 above the merging
value.  Pixels are processed in the order `4 0 2 3 1`: leaves at 4, 0 and 2; pixel 3 meets the
leaves 2 and 4, the former is insignificant and is merged (its pixel is relabelled 2 ↦ 4 by
`_fill_footprint`); pixel 1 meets the leaves 0 and 4, both independent, and creates a branch. -/

def rowVal : Nat → Int := fun i => [3, 1, 2, 1, 3].getD i 0

def rowEnv : Env where
  val := rowVal
  nbrs := fun i => [[5, 1], [0, 2], [1, 3], [2, 4], [3, 5]].getD i []
  indep := fun t _ v => decide (2 ≤ t.vmax rowVal - v)
  indepOrphan := fun _ => true

def rowOrder : List Nat := [4, 0, 2, 3, 1]

example : (runL rowEnv rowOrder).roots = run rowEnv rowOrder := by rfl

example : (runL rowEnv rowOrder).roots =
    [node 1 [1] [node 0 [0] [], node 4 [4, 3, 2] []]] := by rfl

example : (List.range 6).map (runL rowEnv rowOrder).lmap =
    [some 0, some 1, some 4, some 4, some 4, none] := by decide

example : (List.range 6).map (runL rowEnv rowOrder).lmap =
    (List.range 6).map (labelOf (run rowEnv rowOrder)) := by decide

/-- the intermediate state before pixel 3: leaf 2 still carries its own label -/
example : (List.range 6).map (runL rowEnv [4, 0, 2]).lmap =
    [some 0, none, some 2, none, some 4, none] := by decide

example : (adjacentL rowEnv (runL rowEnv [4, 0, 2]) 3).map Tree.id = [2, 4] := by decide

/-- the general theorems apply to the instance -/
example : (runL rowEnv rowOrder).roots = run rowEnv rowOrder := runL_roots rowEnv rowOrder (by decide)

/-! ## the hypothesis `order.Nodup` cannot be dropped

If a pixel is processed twice (which `argsort` never does), two structures get the same identifier;
the label then resolves to one of them only, whereas pixel membership finds both. -/

def dupEnv : Env where
  val := fun _ => 0
  nbrs := fun i => if i = 6 then [5] else []
  indep := fun _ _ _ => true
  indepOrphan := fun _ => true

example : (runL dupEnv [5, 5, 6]).roots = [node 5 [5, 6] []] := by rfl
example : run dupEnv [5, 5, 6] = [node 5 [5, 6, 5] []] := by rfl

end P36
