import ADModel.CachePix

/-!
# CachePixProofs (P33, property C14): the pixel-count and peak caches never give a stale answer

Model: `ADModel/CachePix.lean` (heap of objects with `_npix_total`, `_peak`, `_peak_subtree` caches).

* `SameLinks h h'` : same alive keys, same identifier list (hence same `size`), same
  parent / children / own pixels of every object; the specifications `specCount`, `specPeak`,
  `specPeakSub` depend on these only (`specCount_same`, …).
* `WF h` : identifiers of `h.objs` pairwise distinct; alive keys duplicate-free and present; parent /
  children links of alive objects mutually consistent and inside the alive set; children lists
  duplicate-free; acyclicity witnessed by a rank `rk` with `rk parent < rk child` and
  `rk i < h.size` (`RankOK`) — so the subtree below `i` has depth `< h.size - rk i` and every fuel
  `n` with `h.size ≤ n + rk i` gives the same value (`specCount_stable`, `specPeakSub_stable`).
* `Sound h` : every cached value of an alive object is what the links and own lists say, and
  `_peak` set implies `_peak_subtree` set (`CacheOK`).
* `specCount_fuel`, `specPeakSub_fuel` : fuel independence.
* `getNpix_sound`, `fillPeaks_correct`, `getPeak_sound` : the cached queries.
* `mergeWithParent_wf`, `prune_sound`, `prune_resets_all` : pruning.
* `history_sound` : MAIN theorem, for every legal history.
* `merge_keeps_count`, `merge_keeps_count_sound` : the merge alone keeps the count caches sound.
* `hEx` : non-vacuity example.
-/

namespace P33
open PHeap

/-! ## `get` through the heap operations -/

theorem find_map_id (g : PObj → PObj) (hg : ∀ o, (g o).id = o.id) (l : List PObj) (i : Nat) :
    (l.map g).find? (fun o => o.id == i) = (l.find? (fun o => o.id == i)).map g := by
  induction l with
  | nil => rfl
  | cons a l ih =>
    simp only [List.map_cons, List.find?_cons, hg]
    cases h : a.id == i <;> simp [ih]

theorem get_id {h : PHeap} {i : Nat} {o : PObj} (hget : h.get i = some o) : o.id = i := by
  have := List.find?_some hget
  simpa using this

theorem get_mem {h : PHeap} {i : Nat} {o : PObj} (hget : h.get i = some o) : o ∈ h.objs :=
  List.mem_of_find?_eq_some hget

theorem get_update (h : PHeap) (i : Nat) (f : PObj → PObj) (hf : ∀ o, (f o).id = o.id) (j : Nat) :
    (h.update i f).get j = if j = i then (h.get i).map f else h.get j := by
  unfold PHeap.update PHeap.get
  simp only
  rw [find_map_id]
  · split
    · subst j
      cases hg : h.objs.find? (fun o => o.id == i) with
      | none => rfl
      | some o =>
        have : o.id = i := by simpa using List.find?_some hg
        simp [this]
    · rename_i hji
      cases hg : h.objs.find? (fun o => o.id == j) with
      | none => rfl
      | some o =>
        have : o.id = j := by simpa using List.find?_some hg
        simp [this, hji]
  · intro o; split <;> simp [hf]

@[simp] theorem update_alive (h : PHeap) (i : Nat) (f : PObj → PObj) : (h.update i f).alive = h.alive := rfl

theorem map_ids (g : PObj → PObj) (hg : ∀ o, (g o).id = o.id) (l : List PObj) :
    (l.map g).map (·.id) = l.map (·.id) := by
  rw [List.map_map]; exact List.map_congr_left (fun o _ => hg o)

theorem update_ids (h : PHeap) (i : Nat) (f : PObj → PObj) (hf : ∀ o, (f o).id = o.id) :
    (h.update i f).objs.map (·.id) = h.objs.map (·.id) := by
  unfold PHeap.update
  exact map_ids _ (by intro o; split <;> simp [hf]) _

@[simp] theorem update_size (h : PHeap) (i : Nat) (f : PObj → PObj) : (h.update i f).size = h.size := by
  simp [PHeap.update, PHeap.size]

theorem filterMap_congr' {α β} {f g : α → Option β} {l : List α} (h : ∀ x ∈ l, f x = g x) :
    l.filterMap f = l.filterMap g := by
  induction l with
  | nil => rfl
  | cons a l ih =>
    simp only [List.filterMap_cons, h a List.mem_cons_self]
    rw [ih (fun x hx => h x (List.mem_cons_of_mem _ hx))]

theorem size_eq (h : PHeap) : h.size = h.objs.length + 1 := rfl

/-! ## same links -/

/-- `h'` has the same live links (alive keys, identifiers, parent / children / own pixels of every
    object) as `h`. -/
structure SameLinks (h h' : PHeap) : Prop where
  alive : h'.alive = h.alive
  ids : h'.objs.map (·.id) = h.objs.map (·.id)
  links : ∀ i, (h'.get i).map (fun o => (o.parent, o.kids, o.own)) =
    (h.get i).map (fun o => (o.parent, o.kids, o.own))

theorem SameLinks.refl (h : PHeap) : SameLinks h h := ⟨rfl, rfl, fun _ => rfl⟩

theorem SameLinks.symm {h h' : PHeap} (s : SameLinks h h') : SameLinks h' h :=
  ⟨s.alive.symm, s.ids.symm, fun i => (s.links i).symm⟩

theorem SameLinks.trans {h h' h'' : PHeap} (s : SameLinks h h') (t : SameLinks h' h'') : SameLinks h h'' :=
  ⟨t.alive.trans s.alive, t.ids.trans s.ids, fun i => (t.links i).trans (s.links i)⟩

theorem SameLinks.size {h h' : PHeap} (s : SameLinks h h') : h'.size = h.size := by
  have := congrArg List.length s.ids
  simp only [List.length_map] at this
  simp [PHeap.size, this]

theorem SameLinks.get_some {h h' : PHeap} (s : SameLinks h h') {i : Nat} {o : PObj} (hg : h.get i = some o) :
    ∃ o', h'.get i = some o' ∧ o'.parent = o.parent ∧ o'.kids = o.kids ∧ o'.own = o.own := by
  have := s.links i
  rw [hg] at this
  cases hg' : h'.get i with
  | none => simp [hg'] at this
  | some o' =>
    simp [hg'] at this
    exact ⟨o', rfl, this.1, this.2.1, this.2.2⟩

theorem SameLinks.get_none {h h' : PHeap} (s : SameLinks h h') {i : Nat} (hg : h.get i = none) :
    h'.get i = none := by
  have := s.links i
  rw [hg] at this
  cases hg' : h'.get i with
  | none => rfl
  | some o' => simp [hg'] at this

theorem sameLinks_update (h : PHeap) (i : Nat) (f : PObj → PObj) (hid : ∀ o, (f o).id = o.id)
    (hp : ∀ o, (f o).parent = o.parent) (hk : ∀ o, (f o).kids = o.kids) (ho : ∀ o, (f o).own = o.own) :
    SameLinks h (h.update i f) := by
  refine ⟨rfl, update_ids h i f hid, fun j => ?_⟩
  rw [get_update h i f hid]
  split
  · subst j; cases h.get i <;> simp [hp, hk, ho]
  · rfl

theorem specCount_same {h h' : PHeap} (s : SameLinks h h') (n i : Nat) :
    h'.specCount n i = h.specCount n i := by
  induction n generalizing i with
  | zero => rfl
  | succ n ih =>
    unfold PHeap.specCount
    cases hg : h.get i with
    | none => rw [s.get_none hg]
    | some o =>
      obtain ⟨o', hg', _, hk, ho⟩ := s.get_some hg
      rw [hg']; simp only [hk, ho]
      have : List.map (h'.specCount n) o.kids = List.map (h.specCount n) o.kids :=
        List.map_congr_left (fun c _ => ih c)
      rw [this]

theorem specPeak_same {h h' : PHeap} (s : SameLinks h h') (i : Nat) :
    h'.specPeak i = h.specPeak i := by
  unfold PHeap.specPeak
  cases hg : h.get i with
  | none => rw [s.get_none hg]
  | some o =>
    obtain ⟨o', hg', _, _, ho⟩ := s.get_some hg
    rw [hg']; simp [ho]

theorem specPeakSub_same {h h' : PHeap} (s : SameLinks h h') (n i : Nat) :
    h'.specPeakSub n i = h.specPeakSub n i := by
  induction n generalizing i with
  | zero => rfl
  | succ n ih =>
    unfold PHeap.specPeakSub
    cases hg : h.get i with
    | none => rw [s.get_none hg]
    | some o =>
      obtain ⟨o', hg', _, hk, ho⟩ := s.get_some hg
      rw [hg']; simp only [hk, ho]
      have : List.filterMap (h'.specPeakSub n) o.kids = List.filterMap (h.specPeakSub n) o.kids :=
        filterMap_congr' (fun c _ => ih c)
      rw [this]

/-! ## the invariants -/

/-- `rk` decreases along parent links and is bounded by the heap size: acyclicity witness -/
def RankOK (h : PHeap) (rk : Nat → Nat) : Prop :=
  ∀ i ∈ h.alive, ∀ o, h.get i = some o → rk i < h.size ∧ ∀ p, o.parent = some p → rk p < rk i

/-- well-formedness of the object graph.  `rank` : the forest is acyclic and of depth `< h.size`
    (a rank that strictly increases from parent to child and stays below `h.size`). -/
structure WF (h : PHeap) : Prop where
  ids_nodup : (h.objs.map (·.id)).Nodup
  alive_nodup : h.alive.Nodup
  alive_get : ∀ i ∈ h.alive, ∃ o, h.get i = some o
  parent_ok : ∀ i ∈ h.alive, ∀ o, h.get i = some o → ∀ p, o.parent = some p →
    p ∈ h.alive ∧ ∃ po, h.get p = some po ∧ i ∈ po.kids
  kids_ok : ∀ i ∈ h.alive, ∀ o, h.get i = some o → ∀ c ∈ o.kids,
    c ∈ h.alive ∧ ∃ co, h.get c = some co ∧ co.parent = some i
  kids_nodup : ∀ i ∈ h.alive, ∀ o, h.get i = some o → o.kids.Nodup
  rank : ∃ rk, RankOK h rk

/-- the caches of one object agree with the links and own lists of `h` -/
structure CacheOK (h : PHeap) (o : PObj) : Prop where
  npix : ∀ n, o.npixTot = some n → n = h.specCount h.size o.id
  peak : ∀ p, o.peak = some p → some p = h.specPeak o.id
  peakSub : ∀ q, o.peakSub = some q → some q = h.specPeakSub h.size o.id
  couple : o.peak.isSome → o.peakSub.isSome

/-- every alive object's caches are sound -/
def Sound (h : PHeap) : Prop := ∀ i ∈ h.alive, ∀ o, h.get i = some o → CacheOK h o

theorem sound_of_empty {h : PHeap}
    (he : ∀ o ∈ h.objs, o.npixTot = none ∧ o.peak = none ∧ o.peakSub = none) : Sound h := by
  intro i _ o hg
  obtain ⟨h1, h2, h3⟩ := he o (get_mem hg)
  exact ⟨by simp [h1], by simp [h2], by simp [h3], by simp [h2]⟩

theorem RankOK.same {h h' : PHeap} (s : SameLinks h h') {rk} (r : RankOK h rk) : RankOK h' rk := by
  intro i hi o' hg'
  rw [s.alive] at hi
  obtain ⟨o, hg, hp, _⟩ := s.symm.get_some hg'
  have := r i hi o hg
  rw [s.size]
  exact ⟨this.1, fun p hpp => this.2 p (by rw [hp]; exact hpp)⟩

theorem WF.same {h h' : PHeap} (s : SameLinks h h') (w : WF h) : WF h' := by
  have ss := s.symm
  refine ⟨by rw [s.ids]; exact w.ids_nodup, by rw [s.alive]; exact w.alive_nodup, ?_, ?_, ?_, ?_, ?_⟩
  · intro i hi
    rw [s.alive] at hi
    obtain ⟨o, hg⟩ := w.alive_get i hi
    obtain ⟨o', hg', _⟩ := s.get_some hg
    exact ⟨o', hg'⟩
  · intro i hi o' hg' p hp
    rw [s.alive] at hi ⊢
    obtain ⟨o, hg, hpo, _⟩ := ss.get_some hg'
    obtain ⟨hpa, po, hgp, hik⟩ := w.parent_ok i hi o hg p (by rw [hpo]; exact hp)
    obtain ⟨po', hgp', _, hk, _⟩ := s.get_some hgp
    exact ⟨hpa, po', hgp', by rw [hk]; exact hik⟩
  · intro i hi o' hg' c hc
    rw [s.alive] at hi ⊢
    obtain ⟨o, hg, _, hko, _⟩ := ss.get_some hg'
    obtain ⟨hca, co, hgc, hcp⟩ := w.kids_ok i hi o hg c (by rw [hko]; exact hc)
    obtain ⟨co', hgc', hp, _⟩ := s.get_some hgc
    exact ⟨hca, co', hgc', by rw [hp]; exact hcp⟩
  · intro i hi o' hg'
    rw [s.alive] at hi
    obtain ⟨o, hg, _, hko, _⟩ := ss.get_some hg'
    rw [← hko]; exact w.kids_nodup i hi o hg
  · obtain ⟨rk, hr⟩ := w.rank
    exact ⟨rk, hr.same s⟩

theorem CacheOK.same {h h' : PHeap} (s : SameLinks h h') {o : PObj} (c : CacheOK h o) : CacheOK h' o := by
  refine ⟨?_, ?_, ?_, c.couple⟩
  · intro n hn; rw [s.size, specCount_same s]; exact c.npix n hn
  · intro p hp; rw [specPeak_same s]; exact c.peak p hp
  · intro q hq; rw [s.size, specPeakSub_same s]; exact c.peakSub q hq

theorem Sound.same_get {h h' : PHeap} (s : SameLinks h h') (hs : Sound h)
    (hc : ∀ j ∈ h.alive, ∀ o', h'.get j = some o' → h.get j ≠ some o' → CacheOK h o') : Sound h' := by
  intro j hj o' hg'
  rw [s.alive] at hj
  apply CacheOK.same s
  by_cases e : h.get j = some o'
  · exact hs j hj o' e
  · exact hc j hj o' hg' e

/-! ## fuel independence -/

theorem specCount_stable {h : PHeap} (w : WF h) {rk} (hr : RankOK h rk) (n m i : Nat) (hi : i ∈ h.alive)
    (hn : h.size ≤ n + rk i) (hm : h.size ≤ m + rk i) : h.specCount n i = h.specCount m i := by
  induction n generalizing m i with
  | zero =>
    obtain ⟨o, hg⟩ := w.alive_get i hi
    have := (hr i hi o hg).1; omega
  | succ n ih =>
    obtain ⟨o, hg⟩ := w.alive_get i hi
    have h1 := (hr i hi o hg).1
    cases m with
    | zero => omega
    | succ m =>
      unfold PHeap.specCount
      simp only [hg]
      have : List.map (h.specCount n) o.kids = List.map (h.specCount m) o.kids := by
        apply List.map_congr_left
        intro c hc
        obtain ⟨hca, co, hgc, hcp⟩ := w.kids_ok i hi o hg c hc
        have := (hr c hca co hgc).2 i hcp
        exact ih m c hca (by omega) (by omega)
      rw [this]

theorem specPeakSub_stable {h : PHeap} (w : WF h) {rk} (hr : RankOK h rk) (n m i : Nat) (hi : i ∈ h.alive)
    (hn : h.size ≤ n + rk i) (hm : h.size ≤ m + rk i) : h.specPeakSub n i = h.specPeakSub m i := by
  induction n generalizing m i with
  | zero =>
    obtain ⟨o, hg⟩ := w.alive_get i hi
    have := (hr i hi o hg).1; omega
  | succ n ih =>
    obtain ⟨o, hg⟩ := w.alive_get i hi
    have h1 := (hr i hi o hg).1
    cases m with
    | zero => omega
    | succ m =>
      unfold PHeap.specPeakSub
      simp only [hg]
      have : List.filterMap (h.specPeakSub n) o.kids = List.filterMap (h.specPeakSub m) o.kids := by
        apply filterMap_congr'
        intro c hc
        obtain ⟨hca, co, hgc, hcp⟩ := w.kids_ok i hi o hg c hc
        have := (hr c hca co hgc).2 i hcp
        exact ih m c hca (by omega) (by omega)
      rw [this]

/-- fuel independence of the pixel count: any fuel `≥ h.size` gives the value at `h.size` -/
theorem specCount_fuel (h : PHeap) (hwf : WF h) (i : Nat) (hi : i ∈ h.alive) (f : Nat) (hf : h.size ≤ f) :
    h.specCount f i = h.specCount h.size i := by
  obtain ⟨rk, hr⟩ := hwf.rank
  exact specCount_stable hwf hr _ _ i hi (by omega) (by omega)

/-- fuel independence of the subtree peak -/
theorem specPeakSub_fuel (h : PHeap) (hwf : WF h) (i : Nat) (hi : i ∈ h.alive) (f : Nat) (hf : h.size ≤ f) :
    h.specPeakSub f i = h.specPeakSub h.size i := by
  obtain ⟨rk, hr⟩ := hwf.rank
  exact specPeakSub_stable hwf hr _ _ i hi (by omega) (by omega)

/-- `max(children's subtree peaks …)` then `max(that, own peak)` -/
def combine (ownPk kidPk : Option (Nat × Int)) : Option (Nat × Int) :=
  match kidPk with
  | none => ownPk
  | some c =>
    match ownPk with
    | none => some c
    | some p => some (maxFirst c p)

theorem combine_isSome {p : Nat × Int} (k : Option (Nat × Int)) : (combine (some p) k).isSome := by
  cases k <;> rfl

/-- the defining equation of `specCount` at full fuel, children at full fuel too -/
theorem specCount_unfold {h : PHeap} (w : WF h) {i : Nat} {o : PObj} (hi : i ∈ h.alive) (hg : h.get i = some o) :
    h.specCount h.size i = o.own.length + (o.kids.map (h.specCount h.size)).sum := by
  obtain ⟨rk, hr⟩ := w.rank
  have h1 := (hr i hi o hg).1
  conv => lhs; rw [size_eq]; unfold PHeap.specCount
  simp only [hg]
  have : List.map (h.specCount h.objs.length) o.kids = List.map (h.specCount h.size) o.kids := by
    apply List.map_congr_left
    intro c hc
    obtain ⟨hca, co, hgc, hcp⟩ := w.kids_ok i hi o hg c hc
    have := (hr c hca co hgc).2 i hcp
    exact specCount_stable w hr _ _ c hca (by rw [size_eq] at h1 ⊢; omega) (by omega)
  rw [this]

/-- the defining equation of `specPeakSub` at full fuel, children at full fuel too -/
theorem specPeakSub_unfold {h : PHeap} (w : WF h) {i : Nat} {o : PObj} (hi : i ∈ h.alive)
    (hg : h.get i = some o) :
    h.specPeakSub h.size i = combine (firstMax o.own) (firstMax (o.kids.filterMap (h.specPeakSub h.size))) := by
  obtain ⟨rk, hr⟩ := w.rank
  have h1 := (hr i hi o hg).1
  conv => lhs; rw [size_eq]; unfold PHeap.specPeakSub
  simp only [hg]
  have : List.filterMap (h.specPeakSub h.objs.length) o.kids = List.filterMap (h.specPeakSub h.size) o.kids := by
    apply filterMap_congr'
    intro c hc
    obtain ⟨hca, co, hgc, hcp⟩ := w.kids_ok i hi o hg c hc
    have := (hr c hca co hgc).2 i hcp
    exact specPeakSub_stable w hr _ _ c hca (by rw [size_eq] at h1 ⊢; omega) (by omega)
  rw [this]
  rfl

theorem specPeak_get {h : PHeap} {i : Nat} {o : PObj} (hg : h.get i = some o) :
    h.specPeak i = firstMax o.own := by
  simp [PHeap.specPeak, hg]

/-- "links unchanged", in the form used by the statements -/
def LinksUnchanged (h h' : PHeap) : Prop :=
  (∀ j, (h'.get j).map (fun o => (o.parent, o.kids, o.own)) =
      (h.get j).map (fun o => (o.parent, o.kids, o.own))) ∧ h'.alive = h.alive

theorem SameLinks.unchanged {h h' : PHeap} (s : SameLinks h h') : LinksUnchanged h h' := ⟨s.links, s.alive⟩

/-! ## `get_npix` -/

theorem getNpix_sound (h : PHeap) (hwf : WF h) (hs : Sound h) (i : Nat) (hi : i ∈ h.alive) :
    let r := h.getNpix h.size i
    r.2 = some (h.specCount h.size i) ∧ WF r.1 ∧ Sound r.1 ∧
      ((∀ j, (r.1.get j).map (fun o => (o.parent, o.kids, o.own)) =
          (h.get j).map (fun o => (o.parent, o.kids, o.own))) ∧ r.1.alive = h.alive) := by
  intro r
  suffices hsuff : r.2 = some (h.specCount h.size i) ∧ Sound r.1 ∧ SameLinks h r.1 from
    ⟨hsuff.1, hwf.same hsuff.2.2, hsuff.2.1, hsuff.2.2.unchanged⟩
  obtain ⟨o, hg⟩ := hwf.alive_get i hi
  have hoid := get_id hg
  have hc := hs i hi o hg
  show (h.getNpix h.size i).2 = _ ∧ Sound (h.getNpix h.size i).1 ∧ SameLinks h (h.getNpix h.size i).1
  unfold PHeap.getNpix
  simp only [hg]
  cases hn : o.npixTot with
  | some n => exact ⟨by rw [hc.npix n hn, hoid], hs, .refl h⟩
  | none =>
    simp only []
    have s := sameLinks_update h i (fun o => { o with npixTot := some (h.specCount h.size i) })
      (fun _ => rfl) (fun _ => rfl) (fun _ => rfl) (fun _ => rfl)
    refine ⟨trivial, ?_, s⟩
    refine Sound.same_get s hs ?_
    intro j hj o' hg' hne
    rw [get_update h i (fun o => { o with npixTot := some (h.specCount h.size i) }) (fun _ => rfl)] at hg'
    split at hg'
    · subst j
      simp only [hg, Option.map_some, Option.some.injEq] at hg'
      subst hg'
      exact ⟨fun n hn' => by simp at hn'; subst hn'; rw [hoid], hc.peak, hc.peakSub, hc.couple⟩
    · exact absurd hg' hne

/-! ## `get_peak` : the fill loop -/

/-- `d` is in the subtree of `i` : `i` itself or a descendant through the children lists -/
inductive Desc (h : PHeap) : Nat → Nat → Prop
  | refl (i : Nat) : Desc h i i
  | kid {i : Nat} {o : PObj} {c d : Nat} : h.get i = some o → c ∈ o.kids → Desc h c d → Desc h i d

theorem Desc.cases_kid {h : PHeap} {i d : Nat} {o : PObj} (hg : h.get i = some o) (t : Desc h i d)
    (hne : d ≠ i) : ∃ c ∈ o.kids, Desc h c d := by
  cases t with
  | refl => exact absurd rfl hne
  | kid hg' hc t' =>
    rw [hg] at hg'; cases hg'
    exact ⟨_, hc, t'⟩

/-- the object `d` of `h'` carries the specified peaks of `h0` -/
def Filled (h0 h' : PHeap) (d : Nat) : Prop :=
  ∃ o', h'.get d = some o' ∧ o'.peak = h0.specPeak d ∧ o'.peakSub = h0.specPeakSub h0.size d

theorem Filled.congr {h0 h' h'' : PHeap} {d : Nat} (e : h''.get d = h'.get d) (f : Filled h0 h' d) :
    Filled h0 h'' d := by
  obtain ⟨o', h1, h2⟩ := f
  exact ⟨o', by rw [e]; exact h1, h2⟩

/-- result of a fill pass from `h` to `h'` over the set `S` (links as in `h0`) -/
structure FillRes (h0 h h' : PHeap) (S : Nat → Prop) : Prop where
  same : SameLinks h0 h'
  npix : ∀ d, (h'.get d).map (·.npixTot) = (h.get d).map (·.npixTot)
  inn : ∀ d, S d → Filled h0 h' d
  out : ∀ d, ¬ S d → h'.get d = h.get d

theorem fold_fill {h0 : PHeap} {fuel : Nat} (ks : List Nat)
    (hrec : ∀ c ∈ ks, ∀ h, SameLinks h0 h → FillRes h0 h (fillPeaks h fuel c) (Desc h0 c))
    (h : PHeap) (s : SameLinks h0 h) :
    FillRes h0 h (ks.foldl (fun acc c => fillPeaks acc fuel c) h) (fun d => ∃ c ∈ ks, Desc h0 c d) := by
  induction ks generalizing h with
  | nil => exact ⟨s, fun _ => rfl, fun d hd => by simp at hd, fun _ _ => rfl⟩
  | cons c ks ih =>
    simp only [List.foldl_cons]
    have r1 := hrec c List.mem_cons_self h s
    have r2 := ih (fun c' hc' => hrec c' (List.mem_cons_of_mem _ hc')) (fillPeaks h fuel c) r1.same
    refine ⟨r2.same, fun d => (r2.npix d).trans (r1.npix d), ?_, ?_⟩
    · intro d hd
      by_cases hk : ∃ c' ∈ ks, Desc h0 c' d
      · exact r2.inn d hk
      · obtain ⟨c', hc', t⟩ := hd
        rcases List.mem_cons.1 hc' with rfl | hc'
        · exact (r1.inn d t).congr (r2.out d hk)
        · exact absurd ⟨c', hc', t⟩ hk
    · intro d hd
      have h1 : ¬ ∃ c' ∈ ks, Desc h0 c' d := fun ⟨c', hc', t⟩ => hd ⟨c', List.mem_cons_of_mem _ hc', t⟩
      have h2 : ¬ Desc h0 c d := fun t => hd ⟨c, List.mem_cons_self, t⟩
      rw [r2.out d h1, r1.out d h2]

theorem fillOne_eq {h : PHeap} {i : Nat} {o : PObj} (hg : h.get i = some o) :
    h.fillOne i = h.update i (fun o' => { o' with
      peak := firstMax o.own,
      peakSub := combine (firstMax o.own)
        (firstMax (o.kids.filterMap fun c => (h.get c).bind (·.peakSub))) }) := by
  unfold PHeap.fillOne
  simp only [hg]
  rfl

theorem fillPeaks_spec {h0 : PHeap} (w : WF h0) {rk} (hr : RankOK h0 rk) (fuel : Nat) :
    ∀ (h : PHeap) (i : Nat), SameLinks h0 h → i ∈ h0.alive → h0.size ≤ fuel + rk i →
      FillRes h0 h (fillPeaks h fuel i) (Desc h0 i) := by
  induction fuel with
  | zero =>
    intro h i _ hi hf
    obtain ⟨o, hg⟩ := w.alive_get i hi
    have := (hr i hi o hg).1; omega
  | succ fuel ih =>
    intro h i s hi hf
    obtain ⟨o0, hg0⟩ := w.alive_get i hi
    obtain ⟨o, hg, hpo, hko, hoo⟩ := s.get_some hg0
    unfold PHeap.fillPeaks
    simp only [hg]
    have r1 := fold_fill (h0 := h0) (fuel := fuel) o.kids
      (by
        intro c hck h' s'
        rw [hko] at hck
        obtain ⟨hca, co, hgc, hcp⟩ := w.kids_ok i hi o0 hg0 c hck
        have := (hr c hca co hgc).2 i hcp
        exact ih h' c s' hca (by omega))
      h s
    generalize o.kids.foldl (fun acc c => fillPeaks acc fuel c) h = h1 at r1
    obtain ⟨o1, hg1, _, hk1, ho1⟩ := r1.same.get_some hg0
    rw [fillOne_eq hg1]
    have gu := get_update h1 i (fun o' => { o' with
      peak := firstMax o1.own,
      peakSub := combine (firstMax o1.own)
        (firstMax (o1.kids.filterMap fun c => (h1.get c).bind (·.peakSub))) }) (fun _ => rfl)
    refine ⟨r1.same.trans (sameLinks_update h1 i _ (fun _ => rfl) (fun _ => rfl) (fun _ => rfl) (fun _ => rfl)),
      ?_, ?_, ?_⟩
    · intro d
      rw [gu d, ← r1.npix d]
      split
      · subst d; rw [hg1]; rfl
      · rfl
    · intro d hd
      by_cases hdi : d = i
      · subst d
        refine ⟨_, by rw [gu i, if_pos rfl, hg1]; rfl, ?_, ?_⟩
        · simp only [ho1]; exact (specPeak_get hg0).symm
        · simp only [ho1, hk1]
          rw [specPeakSub_unfold w hi hg0]
          congr 2
          apply filterMap_congr'
          intro c hc
          obtain ⟨oc, hgc, _, hps⟩ := r1.inn c ⟨c, by rw [hko]; exact hc, Desc.refl c⟩
          rw [hgc]; exact hps
      · have : Filled h0 h1 d := by
          obtain ⟨c, hc, t⟩ := Desc.cases_kid hg0 hd hdi
          exact r1.inn d ⟨c, by rw [hko]; exact hc, t⟩
        exact this.congr (by rw [gu d, if_neg hdi])
    · intro d hd
      have hdi : d ≠ i := fun e => hd (by rw [e]; exact Desc.refl i)
      rw [gu d, if_neg hdi]
      apply r1.out d
      rintro ⟨c, hc, t⟩
      exact hd (Desc.kid hg0 (by rw [← hko]; exact hc) t)

/-- after `fillPeaks h h.size i` every object of the subtree of `i` carries its specified `_peak`
    and `_peak_subtree`, the objects outside the subtree are unchanged, the links are unchanged
    (and `_npix_total` is not touched). -/
theorem fillPeaks_correct (h : PHeap) (hwf : WF h) (i : Nat) (hi : i ∈ h.alive) :
    let h' := h.fillPeaks h.size i
    (∀ d, Desc h i d → ∃ o', h'.get d = some o' ∧ o'.peak = h.specPeak d ∧
        o'.peakSub = h.specPeakSub h.size d) ∧
    (∀ d, ¬ Desc h i d → h'.get d = h.get d) ∧
    (∀ d, (h'.get d).map (·.npixTot) = (h.get d).map (·.npixTot)) ∧
    ((∀ j, (h'.get j).map (fun o => (o.parent, o.kids, o.own)) =
        (h.get j).map (fun o => (o.parent, o.kids, o.own))) ∧ h'.alive = h.alive) := by
  obtain ⟨rk, hr⟩ := hwf.rank
  have r := fillPeaks_spec hwf hr h.size h i (.refl h) hi (by omega)
  exact ⟨r.inn, r.out, r.npix, r.same.unchanged⟩

/-- the same with the specification evaluated on the heap after the fill -/
theorem fillPeaks_correct' (h : PHeap) (hwf : WF h) (i : Nat) (hi : i ∈ h.alive) :
    let h' := h.fillPeaks h.size i
    ∀ d, Desc h i d → ∃ o', h'.get d = some o' ∧ o'.peak = h'.specPeak d ∧
        o'.peakSub = h'.specPeakSub h'.size d := by
  obtain ⟨rk, hr⟩ := hwf.rank
  have r := fillPeaks_spec hwf hr h.size h i (.refl h) hi (by omega)
  intro h' d hd
  obtain ⟨o', h1, h2, h3⟩ := r.inn d hd
  exact ⟨o', h1, by rw [specPeak_same r.same]; exact h2, by rw [r.same.size, specPeakSub_same r.same]; exact h3⟩

theorem specPeakSub_isSome_of_peak {h : PHeap} (w : WF h) {i : Nat} (hi : i ∈ h.alive)
    (hp : (h.specPeak i).isSome) : (h.specPeakSub h.size i).isSome := by
  obtain ⟨o, hg⟩ := w.alive_get i hi
  rw [specPeak_get hg] at hp
  rw [specPeakSub_unfold w hi hg]
  obtain ⟨p, hp'⟩ := Option.isSome_iff_exists.1 hp
  rw [hp']; exact combine_isSome _

theorem getPeak_sound (h : PHeap) (hwf : WF h) (hs : Sound h) (i : Nat) (hi : i ∈ h.alive) (sub : Bool) :
    let r := h.getPeak h.size i sub
    r.2 = (if sub then h.specPeakSub h.size i else h.specPeak i) ∧ WF r.1 ∧ Sound r.1 ∧
      ((∀ j, (r.1.get j).map (fun o => (o.parent, o.kids, o.own)) =
          (h.get j).map (fun o => (o.parent, o.kids, o.own))) ∧ r.1.alive = h.alive) := by
  intro r
  suffices hsuff : r.2 = (if sub then h.specPeakSub h.size i else h.specPeak i) ∧ Sound r.1 ∧
      SameLinks h r.1 from ⟨hsuff.1, hwf.same hsuff.2.2, hsuff.2.1, hsuff.2.2.unchanged⟩
  obtain ⟨o, hg⟩ := hwf.alive_get i hi
  have hoid := get_id hg
  have hc := hs i hi o hg
  show (h.getPeak h.size i sub).2 = _ ∧ Sound (h.getPeak h.size i sub).1 ∧ SameLinks h (h.getPeak h.size i sub).1
  unfold PHeap.getPeak
  simp only [hg]
  cases hp : o.peak with
  | some p =>
    simp only [Option.isNone_some, Bool.false_eq_true, if_false, hg, Option.bind_some]
    refine ⟨?_, hs, .refl h⟩
    cases sub with
    | false => simp only [Bool.false_eq_true, if_false]; rw [hp, hc.peak p hp, hoid]
    | true =>
      simp only [if_true]
      obtain ⟨q, hq⟩ := Option.isSome_iff_exists.1 (hc.couple (by simp [hp]))
      rw [hq, hc.peakSub q hq, hoid]
  | none =>
    simp only [Option.isNone_none, if_true]
    obtain ⟨rk, hr⟩ := hwf.rank
    have fr := fillPeaks_spec hwf hr h.size h i (.refl h) hi (by omega)
    refine ⟨?_, ?_, fr.same⟩
    · obtain ⟨o', h1, h2, h3⟩ := fr.inn i (Desc.refl i)
      rw [h1]
      cases sub <;> simp [h2, h3]
    · refine Sound.same_get fr.same hs ?_
      intro j hj o' hg' hne
      by_cases hd : Desc h i j
      · obtain ⟨o'', h1, h2, h3⟩ := fr.inn j hd
        rw [hg'] at h1; cases h1
        have hid' := get_id hg'
        obtain ⟨oj, hgj⟩ := hwf.alive_get j hj
        have hnp := fr.npix j
        rw [hg', hgj] at hnp
        simp only [Option.map_some, Option.some.injEq] at hnp
        refine ⟨?_, ?_, ?_, ?_⟩
        · intro n hn
          rw [hid', ← get_id hgj]
          exact (hs j hj oj hgj).npix n (by rw [← hnp]; exact hn)
        · intro p hp'; rw [hid', ← h2, hp']
        · intro q hq; rw [hid', ← h3, hq]
        · intro hps
          rw [h3]; rw [h2] at hps
          exact specPeakSub_isSome_of_peak hwf hj hps
      · exact absurd (by rw [← fr.out j hd]; exact hg') hne

/-! ## pruning -/

theorem get_foldl_setParent (p : Nat) (ks : List Nat) (h : PHeap) (x : Nat) :
    (ks.foldl (fun acc c => acc.update c (fun co => { co with parent := some p })) h).get x =
      if x ∈ ks then (h.get x).map (fun co => { co with parent := some p }) else h.get x := by
  induction ks generalizing h with
  | nil => simp
  | cons c ks ih =>
    simp only [List.foldl_cons, ih, List.mem_cons]
    rw [get_update h c (fun co => { co with parent := some p }) (fun _ => rfl)]
    by_cases hxc : x = c
    · subst hxc
      simp only [if_true, true_or]
      split
      · cases h.get x <;> rfl
      · rfl
    · simp [hxc]

theorem foldl_setParent_alive (p : Nat) (ks : List Nat) (h : PHeap) :
    (ks.foldl (fun acc c => acc.update c (fun co => { co with parent := some p })) h).alive = h.alive := by
  induction ks generalizing h with
  | nil => rfl
  | cons c ks ih => simp only [List.foldl_cons, ih, update_alive]

theorem foldl_setParent_ids (p : Nat) (ks : List Nat) (h : PHeap) :
    (ks.foldl (fun acc c => acc.update c (fun co => { co with parent := some p })) h).objs.map (·.id) =
      h.objs.map (·.id) := by
  induction ks generalizing h with
  | nil => rfl
  | cons c ks ih =>
    simp only [List.foldl_cons, ih]
    exact update_ids h c (fun co => { co with parent := some p }) (fun _ => rfl)

/-- what `mergeWithParent m` does to the object with identifier `x` (`mo` = the merged object,
    `p` = its parent) -/
def mergeF (m p : Nat) (mo : PObj) (x : Nat) (o : PObj) : PObj :=
  let o1 := if x = p then
      { resetCache { o with own := o.own ++ mo.own } with kids := o.kids.erase m ++ mo.kids }
    else o
  if x ∈ mo.kids then { o1 with parent := some p } else o1

theorem mergeF_parent (m p : Nat) (mo : PObj) (x : Nat) (o : PObj) :
    (mergeF m p mo x o).parent = if x ∈ mo.kids then some p else o.parent := by
  unfold mergeF resetCache; split <;> split <;> rfl

theorem mergeF_kids (m p : Nat) (mo : PObj) (x : Nat) (o : PObj) :
    (mergeF m p mo x o).kids = if x = p then o.kids.erase m ++ mo.kids else o.kids := by
  unfold mergeF resetCache; split <;> split <;> rfl

theorem mergeF_own (m p : Nat) (mo : PObj) (x : Nat) (o : PObj) :
    (mergeF m p mo x o).own = if x = p then o.own ++ mo.own else o.own := by
  unfold mergeF resetCache; split <;> split <;> rfl

theorem mergeF_npix (m p : Nat) (mo : PObj) (x : Nat) (o : PObj) :
    (mergeF m p mo x o).npixTot = if x = p then none else o.npixTot := by
  unfold mergeF resetCache; split <;> split <;> rfl

theorem merge_get {h : PHeap} {m p : Nat} {mo : PObj} (hgm : h.get m = some mo) (hmp : mo.parent = some p)
    (x : Nat) : (h.mergeWithParent m).get x = (h.get x).map (mergeF m p mo x) := by
  unfold PHeap.mergeWithParent
  simp only [hgm, hmp]
  show PHeap.get (List.foldl _ _ mo.kids) x = _
  rw [get_foldl_setParent]
  have e1 := fun y => get_update h p (fun po => resetCache { po with own := po.own ++ mo.own }) (fun _ => rfl) y
  have e2 := fun y => get_update (h.update p (fun po => resetCache { po with own := po.own ++ mo.own })) p
    (fun po => { po with kids := po.kids.erase m ++ mo.kids }) (fun _ => rfl) y
  simp only [e2, e1]
  unfold mergeF
  by_cases hxp : x = p
  · subst hxp
    cases h.get x with
    | none => simp
    | some o => by_cases hk : x ∈ mo.kids <;> simp [hk, resetCache]
  · cases h.get x with
    | none => simp [hxp]
    | some o => by_cases hk : x ∈ mo.kids <;> simp [hk, hxp]

theorem merge_alive {h : PHeap} {m p : Nat} {mo : PObj} (hgm : h.get m = some mo) (hmp : mo.parent = some p) :
    (h.mergeWithParent m).alive = h.alive.erase m := by
  unfold PHeap.mergeWithParent
  simp only [hgm, hmp]
  rw [foldl_setParent_alive]; rfl

theorem merge_ids (h : PHeap) (m : Nat) : (h.mergeWithParent m).objs.map (·.id) = h.objs.map (·.id) := by
  unfold PHeap.mergeWithParent
  cases hgm : h.get m with
  | none => rfl
  | some mo =>
    simp only []
    cases hmp : mo.parent with
    | none => rfl
    | some p =>
      simp only []
      show (PHeap.objs (List.foldl _ _ mo.kids)).map (·.id) = _
      rw [foldl_setParent_ids]
      refine (update_ids _ p _ ?_).trans (update_ids _ p _ ?_) <;> intro o <;> rfl

theorem merge_size (h : PHeap) (m : Nat) : (h.mergeWithParent m).size = h.size := by
  have := congrArg List.length (merge_ids h m)
  simp only [List.length_map] at this
  simp [PHeap.size, this]

/-- the data of a legal merge: `m` alive with object `mo`, parent `p` alive with object `po` -/
theorem legal_data {h : PHeap} (hwf : WF h) {m : Nat} (hm : m ∈ h.alive)
    (hp : (h.get m).bind (·.parent) ≠ none) :
    ∃ mo p po, h.get m = some mo ∧ mo.parent = some p ∧ p ∈ h.alive ∧ h.get p = some po ∧ m ∈ po.kids := by
  obtain ⟨mo, hgm⟩ := hwf.alive_get m hm
  rw [hgm] at hp
  obtain ⟨p, hmp⟩ := Option.ne_none_iff_exists'.mp hp
  simp only [Option.bind_some] at hmp
  obtain ⟨hpa, po, hgp, hmk⟩ := hwf.parent_ok m hm mo hgm p hmp
  exact ⟨mo, p, po, hgm, hmp, hpa, hgp, hmk⟩

theorem mergeWithParent_wf (h : PHeap) (m : Nat) (hwf : WF h) (hm : m ∈ h.alive)
    (hp : (h.get m).bind (·.parent) ≠ none) : WF (h.mergeWithParent m) := by
  obtain ⟨mo, p, po, hgm, hmp, hpa, hgp, hmk⟩ := legal_data hwf hm hp
  obtain ⟨rk, hr⟩ := hwf.rank
  have hrm := (hr m hm mo hgm).2 p hmp
  have hmp_ne : p ≠ m := by intro e; rw [e] at hrm; omega
  -- facts about the children of `m`
  have hkid : ∀ c ∈ mo.kids, c ∈ h.alive ∧ c ≠ m ∧ rk m < rk c ∧ ∃ co, h.get c = some co ∧ co.parent = some m := by
    intro c hc
    obtain ⟨hca, co, hgc, hcp⟩ := hwf.kids_ok m hm mo hgm c hc
    have := (hr c hca co hgc).2 m hcp
    exact ⟨hca, by intro e; rw [e] at this; omega, this, co, hgc, hcp⟩
  have hal : ∀ x, x ∈ (h.mergeWithParent m).alive ↔ x ≠ m ∧ x ∈ h.alive := by
    intro x; rw [merge_alive hgm hmp]; exact hwf.alive_nodup.mem_erase_iff
  have view : ∀ x ∈ (h.mergeWithParent m).alive, ∀ o', (h.mergeWithParent m).get x = some o' →
      x ∈ h.alive ∧ x ≠ m ∧ ∃ o, h.get x = some o ∧
        o'.parent = (if x ∈ mo.kids then some p else o.parent) ∧
        o'.kids = (if x = p then o.kids.erase m ++ mo.kids else o.kids) := by
    intro x hx o' hg'
    have hx' := (hal x).1 hx
    obtain ⟨o, hg⟩ := hwf.alive_get x hx'.2
    rw [merge_get hgm hmp, hg] at hg'
    simp only [Option.map_some, Option.some.injEq] at hg'
    subst hg'
    exact ⟨hx'.2, hx'.1, o, hg, mergeF_parent .., mergeF_kids ..⟩
  have view2 : ∀ x ∈ h.alive, x ≠ m → ∀ o, h.get x = some o →
      x ∈ (h.mergeWithParent m).alive ∧ ∃ o', (h.mergeWithParent m).get x = some o' ∧
        o'.parent = (if x ∈ mo.kids then some p else o.parent) ∧
        o'.kids = (if x = p then o.kids.erase m ++ mo.kids else o.kids) := by
    intro x hx hxm o hg
    refine ⟨(hal x).2 ⟨hxm, hx⟩, mergeF m p mo x o, ?_, mergeF_parent .., mergeF_kids ..⟩
    rw [merge_get hgm hmp, hg]; rfl
  refine ⟨?_, ?_, ?_, ?_, ?_, ?_, ⟨rk, ?_⟩⟩
  · rw [merge_ids]; exact hwf.ids_nodup
  · rw [merge_alive hgm hmp]; exact hwf.alive_nodup.erase m
  · intro x hx
    have hx' := (hal x).1 hx
    obtain ⟨o, hg⟩ := hwf.alive_get x hx'.2
    exact ⟨_, (view2 x hx'.2 hx'.1 o hg).2.choose_spec.1⟩
  · -- parent_ok
    intro x hx o' hg' q hq
    obtain ⟨hxa, hxm, o, hg, hpar, _⟩ := view x hx o' hg'
    rw [hq] at hpar
    by_cases hxk : x ∈ mo.kids
    · rw [if_pos hxk] at hpar
      rw [Option.some.inj hpar]
      obtain ⟨h1, po', h2, _, h3⟩ := view2 p hpa hmp_ne po hgp
      refine ⟨h1, po', h2, ?_⟩
      rw [h3, if_pos rfl]
      exact List.mem_append.2 (.inr hxk)
    · rw [if_neg hxk] at hpar
      obtain ⟨hqa, qo, hgq, hxq⟩ := hwf.parent_ok x hxa o hg q hpar.symm
      have hqm : q ≠ m := by
        intro e; subst e; rw [hgm] at hgq; cases hgq; exact hxk hxq
      obtain ⟨h1, qo', h2, _, h3⟩ := view2 q hqa hqm qo hgq
      refine ⟨h1, qo', h2, ?_⟩
      rw [h3]
      split
      · exact List.mem_append.2 (.inl ((List.mem_erase_of_ne hxm).2 hxq))
      · exact hxq
  · -- kids_ok
    intro x hx o' hg' c hc
    obtain ⟨hxa, hxm, o, hg, _, hkids⟩ := view x hx o' hg'
    rw [hkids] at hc
    by_cases hxp : x = p
    · subst hxp
      rw [hgp] at hg; cases hg
      rw [if_pos rfl] at hc
      rcases List.mem_append.1 hc with hc | hc
      · have hc' := (hwf.kids_nodup x hxa po hgp).mem_erase_iff.1 hc
        obtain ⟨hca, co, hgc, hcp⟩ := hwf.kids_ok x hxa po hgp c hc'.2
        obtain ⟨h1, co', h2, h3, _⟩ := view2 c hca hc'.1 co hgc
        refine ⟨h1, co', h2, ?_⟩
        rw [h3]; split
        · rfl
        · exact hcp
      · obtain ⟨hca, hcm, _, co, hgc, hcp⟩ := hkid c hc
        obtain ⟨h1, co', h2, h3, _⟩ := view2 c hca hcm co hgc
        refine ⟨h1, co', h2, ?_⟩
        rw [h3, if_pos hc]
    · rw [if_neg hxp] at hc
      obtain ⟨hca, co, hgc, hcp⟩ := hwf.kids_ok x hxa o hg c hc
      have hcm : c ≠ m := by
        intro e; subst e; rw [hgm] at hgc; cases hgc
        rw [hmp] at hcp; cases hcp; exact hxp rfl
      obtain ⟨h1, co', h2, h3, _⟩ := view2 c hca hcm co hgc
      refine ⟨h1, co', h2, ?_⟩
      rw [h3]; split
      · rename_i hck
        obtain ⟨_, _, _, co2, hgc2, hcp2⟩ := hkid c hck
        rw [hgc] at hgc2; cases hgc2
        rw [hcp] at hcp2; cases hcp2
        exact absurd rfl hxm
      · exact hcp
  · -- kids_nodup
    intro x hx o' hg'
    obtain ⟨hxa, hxm, o, hg, _, hkids⟩ := view x hx o' hg'
    rw [hkids]
    have hnd := hwf.kids_nodup x hxa o hg
    split
    · rename_i hxp
      subst hxp
      rw [hgp] at hg; cases hg
      refine List.nodup_append.2 ⟨hnd.erase m, hwf.kids_nodup m hm mo hgm, ?_⟩
      intro a ha b hb hab
      subst hab
      have ha' := (hnd.mem_erase_iff.1 ha).2
      obtain ⟨_, co, hgc, hcp⟩ := hwf.kids_ok x hxa po hgp a ha'
      obtain ⟨_, _, _, co2, hgc2, hcp2⟩ := hkid a hb
      rw [hgc] at hgc2; cases hgc2
      rw [hcp] at hcp2; cases hcp2
      exact hmp_ne rfl
    · exact hnd
  · -- rank
    intro x hx o' hg'
    obtain ⟨hxa, hxm, o, hg, hpar, _⟩ := view x hx o' hg'
    have hrx := hr x hxa o hg
    rw [merge_size]
    refine ⟨hrx.1, ?_⟩
    intro q hq
    rw [hq] at hpar
    by_cases hxk : x ∈ mo.kids
    · rw [if_pos hxk] at hpar
      have := (hkid x hxk).2.2.1
      rw [Option.some.inj hpar]
      omega
    · rw [if_neg hxk] at hpar
      exact hrx.2 q hpar.symm

/-- every merge of the list addresses an alive object with a parent, at its turn (under `WF` the
    parent is then alive too: `legal_data`) -/
def Legal : PHeap → List Nat → Prop
  | _, [] => True
  | h, m :: ms => m ∈ h.alive ∧ (h.get m).bind (·.parent) ≠ none ∧ Legal (h.mergeWithParent m) ms

theorem foldl_merge_wf {h : PHeap} {ms : List Nat} (hwf : WF h) (hl : Legal h ms) :
    WF (ms.foldl PHeap.mergeWithParent h) := by
  induction ms generalizing h with
  | nil => exact hwf
  | cons m ms ih => exact ih (mergeWithParent_wf _ _ hwf hl.1 hl.2.1) hl.2.2

/-- what `finishPrune` does to an object -/
def finishF (h : PHeap) (o : PObj) : PObj := if h.alive.contains o.id then resetCache o else o

theorem finishF_id (h : PHeap) (o : PObj) : (finishF h o).id = o.id := by
  unfold finishF resetCache; split <;> rfl

theorem finishPrune_get (h : PHeap) (x : Nat) : h.finishPrune.get x = (h.get x).map (finishF h) := by
  unfold PHeap.finishPrune PHeap.get
  exact find_map_id (finishF h) (finishF_id h) h.objs x

theorem finishPrune_same (h : PHeap) : SameLinks h h.finishPrune := by
  refine ⟨rfl, map_ids (finishF h) (finishF_id h) h.objs, fun x => ?_⟩
  rw [finishPrune_get]
  cases h.get x with
  | none => rfl
  | some o =>
    simp only [Option.map_some, Option.some.injEq]
    unfold finishF resetCache; split <;> rfl

theorem finishPrune_resets_all (g : PHeap) :
    ∀ o ∈ g.finishPrune.objs, o.id ∈ g.finishPrune.alive →
      o.npixTot = none ∧ o.peak = none ∧ o.peakSub = none := by
  intro o ho ha
  have hobjs : g.finishPrune.objs = g.objs.map (finishF g) := rfl
  have halive : g.finishPrune.alive = g.alive := rfl
  rw [hobjs] at ho
  rw [halive] at ha
  obtain ⟨o0, _, rfl⟩ := List.mem_map.mp ho
  rw [finishF_id] at ha
  have hc : g.alive.contains o0.id = true := List.contains_iff_mem.2 ha
  unfold finishF
  rw [if_pos hc]
  exact ⟨rfl, rfl, rfl⟩

/-- after `prune` (any merge list) every surviving object has all three caches cleared -/
theorem prune_resets_all (h : PHeap) (ms : List Nat) :
    ∀ o ∈ (h.prune ms).objs, o.id ∈ (h.prune ms).alive →
      o.npixTot = none ∧ o.peak = none ∧ o.peakSub = none :=
  finishPrune_resets_all _

theorem finishPrune_sound (h : PHeap) : Sound h.finishPrune := by
  intro x hx o' hg'
  obtain ⟨h1, h2, h3⟩ := finishPrune_resets_all h o' (get_mem hg') (by rw [get_id hg']; exact hx)
  exact ⟨by simp [h1], by simp [h2], by simp [h3], by simp [h2]⟩

theorem prune_sound (h : PHeap) (hwf : WF h) (ms : List Nat) (hl : Legal h ms) :
    WF (h.prune ms) ∧ Sound (h.prune ms) :=
  ⟨(foldl_merge_wf hwf hl).same (finishPrune_same _), finishPrune_sound _⟩

/-! ## histories -/

/-- an operation is legal on `h`: queries address alive objects, prunes are legal merge lists -/
def LegalOp (h : PHeap) : POp → Prop
  | .npix i => i ∈ h.alive
  | .peak i _ => i ∈ h.alive
  | .prune ms => Legal h ms

/-- every operation of the history is legal at its turn (recursion along `PHeap.step`) -/
def LegalOps : PHeap → List POp → Prop
  | _, [] => True
  | h, op :: ops => LegalOp h op ∧ LegalOps (h.step op).1 ops

/-- run a history, collecting (answer, specification answer on the heap just before the op) -/
def run : PHeap → List POp → List (PAns × PAns)
  | _, [] => []
  | h, op :: ops => ((h.step op).2, h.specAns op) :: run (h.step op).1 ops

theorem step_sound (h : PHeap) (op : POp) (hwf : WF h) (hs : Sound h) (hl : LegalOp h op) :
    (h.step op).2 = h.specAns op ∧ WF (h.step op).1 ∧ Sound (h.step op).1 := by
  cases op with
  | npix i =>
    obtain ⟨o, hg⟩ := hwf.alive_get i hl
    obtain ⟨h1, h2, h3, _⟩ := getNpix_sound h hwf hs i hl
    exact ⟨by simp [PHeap.step, PHeap.specAns, hg, h1], h2, h3⟩
  | peak i sub =>
    obtain ⟨h1, h2, h3, _⟩ := getPeak_sound h hwf hs i hl sub
    exact ⟨by simp [PHeap.step, PHeap.specAns, h1], h2, h3⟩
  | prune ms =>
    obtain ⟨h2, h3⟩ := prune_sound h hwf ms hl
    exact ⟨rfl, h2, h3⟩

/-- MAIN: along every legal history from a well-formed heap with sound caches, every answer equals
    the answer computed from the live links and own lists at that moment. -/
theorem history_sound (h : PHeap) (ops : List POp) (hwf : WF h) (hs : Sound h) (hleg : LegalOps h ops) :
    ∀ pr ∈ run h ops, pr.1 = pr.2 := by
  induction ops generalizing h with
  | nil => intro pr hpr; simp [run] at hpr
  | cons op ops ih =>
    obtain ⟨h1, h2, h3⟩ := step_sound h op hwf hs hleg.1
    intro pr hpr
    simp only [run, List.mem_cons] at hpr
    rcases hpr with rfl | hpr
    · exact h1
    · exact ih _ h2 h3 hleg.2 pr hpr

/-- the invariants also hold at the end of the history -/
theorem history_invariant (h : PHeap) (ops : List POp) (hwf : WF h) (hs : Sound h) (hleg : LegalOps h ops) :
    WF (ops.foldl (fun a op => (a.step op).1) h) ∧ Sound (ops.foldl (fun a op => (a.step op).1) h) := by
  induction ops generalizing h with
  | nil => exact ⟨hwf, hs⟩
  | cons op ops ih =>
    obtain ⟨_, h2, h3⟩ := step_sound h op hwf hs hleg.1
    exact ih _ h2 h3 hleg.2

/-! ## the merge alone keeps the pixel counts -/

theorem specCount_succ {h : PHeap} {i : Nat} {o : PObj} (hg : h.get i = some o) (n : Nat) :
    h.specCount (n + 1) i = o.own.length + (o.kids.map (h.specCount n)).sum := by
  simp [PHeap.specCount, hg]

theorem sum_map_erase (f : Nat → Nat) (l : List Nat) (m : Nat) (hm : m ∈ l) :
    (l.map f).sum = f m + ((l.erase m).map f).sum := by
  induction l with
  | nil => simp at hm
  | cons a l ih =>
    by_cases e : a = m
    · subst e; simp
    · have hm' : m ∈ l := by
        rcases List.mem_cons.1 hm with h1 | h1
        · exact absurd h1.symm e
        · exact h1
      rw [List.erase_cons_tail (by simpa using e)]
      simp only [List.map_cons, List.sum_cons, ih hm']
      omega

theorem merge_count_fuel {h : PHeap} (hwf : WF h) {rk} (hr : RankOK h rk) {m p : Nat} {mo po : PObj}
    (hm : m ∈ h.alive) (hgm : h.get m = some mo) (hmp : mo.parent = some p) (hpa : p ∈ h.alive)
    (hgp : h.get p = some po) (hmk : m ∈ po.kids) :
    ∀ n j, j ∈ h.alive → j ≠ m → h.size ≤ n + rk j →
      (h.mergeWithParent m).specCount n j = h.specCount n j := by
  have hrm := (hr m hm mo hgm).2 p hmp
  have hrm1 := (hr m hm mo hgm).1
  have hkid : ∀ c ∈ mo.kids, c ∈ h.alive ∧ c ≠ m ∧ rk m < rk c := by
    intro c hc
    obtain ⟨hca, co, hgc, hcp⟩ := hwf.kids_ok m hm mo hgm c hc
    have := (hr c hca co hgc).2 m hcp
    exact ⟨hca, by intro e; rw [e] at this; omega, this⟩
  intro n
  induction n with
  | zero =>
    intro j hj _ hf
    obtain ⟨o, hg⟩ := hwf.alive_get j hj
    have := (hr j hj o hg).1; omega
  | succ n ih =>
    intro j hj hjm hf
    obtain ⟨o, hg⟩ := hwf.alive_get j hj
    have hg' : (h.mergeWithParent m).get j = some (mergeF m p mo j o) := by
      rw [merge_get hgm hmp, hg]; rfl
    rw [specCount_succ hg', specCount_succ hg, mergeF_own, mergeF_kids]
    by_cases hjp : j = p
    · subst hjp
      rw [hgp] at hg; cases hg
      rw [if_pos rfl, if_pos rfl, List.length_append, List.map_append, List.sum_append]
      have e1 : List.map ((h.mergeWithParent m).specCount n) (po.kids.erase m) =
          List.map (h.specCount n) (po.kids.erase m) := by
        apply List.map_congr_left
        intro c hc
        have hc' := (hwf.kids_nodup j hj po hgp).mem_erase_iff.1 hc
        obtain ⟨hca, co, hgc, hcp⟩ := hwf.kids_ok j hj po hgp c hc'.2
        have := (hr c hca co hgc).2 j hcp
        exact ih c hca hc'.1 (by omega)
      have e2 : List.map ((h.mergeWithParent m).specCount n) mo.kids = List.map (h.specCount n) mo.kids := by
        apply List.map_congr_left
        intro c hc
        obtain ⟨hca, hcm, hrc⟩ := hkid c hc
        exact ih c hca hcm (by omega)
      rw [e1, e2, sum_map_erase (h.specCount n) po.kids m hmk]
      cases n with
      | zero => omega
      | succ n' =>
        rw [specCount_succ hgm]
        have e3 : List.map (h.specCount (n' + 1)) mo.kids = List.map (h.specCount n') mo.kids := by
          apply List.map_congr_left
          intro c hc
          obtain ⟨hca, hcm, hrc⟩ := hkid c hc
          exact specCount_stable hwf hr _ _ c hca (by omega) (by omega)
        rw [e3]
        omega
    · rw [if_neg hjp, if_neg hjp]
      have e1 : List.map ((h.mergeWithParent m).specCount n) o.kids = List.map (h.specCount n) o.kids := by
        apply List.map_congr_left
        intro c hc
        obtain ⟨hca, co, hgc, hcp⟩ := hwf.kids_ok j hj o hg c hc
        have := (hr c hca co hgc).2 j hcp
        have hcm : c ≠ m := by
          intro e; subst e; rw [hgm] at hgc; cases hgc
          rw [hmp] at hcp; cases hcp; exact hjp rfl
        exact ih c hca hcm (by omega)
      rw [e1]

/-- the merge alone (without the final reset) does not change the subtree pixel count of any
    surviving object — neither of the parent `p` of `m` (its own list grew by `m`'s own list and
    `m` disappeared from below) nor of any other alive object. -/
theorem merge_keeps_count (h : PHeap) (hwf : WF h) (m : Nat) (hm : m ∈ h.alive)
    (hp : (h.get m).bind (·.parent) ≠ none) :
    ∀ j ∈ (h.mergeWithParent m).alive,
      (h.mergeWithParent m).specCount (h.mergeWithParent m).size j = h.specCount h.size j := by
  obtain ⟨mo, p, po, hgm, hmp, hpa, hgp, hmk⟩ := legal_data hwf hm hp
  obtain ⟨rk, hr⟩ := hwf.rank
  intro j hj
  rw [merge_alive hgm hmp] at hj
  have hj' := hwf.alive_nodup.mem_erase_iff.1 hj
  rw [merge_size]
  exact merge_count_fuel hwf hr hm hgm hmp hpa hgp hmk h.size j hj'.2 hj'.1 (by omega)

/-- consequently the `_npix_total` caches that are sound before a legal merge are sound after it,
    even without the reset of `finishPrune` (the parent's cache is reset by `_merge` itself). -/
theorem merge_keeps_count_sound (h : PHeap) (hwf : WF h) (m : Nat) (hm : m ∈ h.alive)
    (hp : (h.get m).bind (·.parent) ≠ none)
    (hs : ∀ j ∈ h.alive, ∀ o, h.get j = some o → ∀ n, o.npixTot = some n → n = h.specCount h.size j) :
    ∀ j ∈ (h.mergeWithParent m).alive, ∀ o', (h.mergeWithParent m).get j = some o' →
      ∀ n, o'.npixTot = some n → n = (h.mergeWithParent m).specCount (h.mergeWithParent m).size j := by
  intro j hj o' hg' n hn
  rw [merge_keeps_count h hwf m hm hp j hj]
  obtain ⟨mo, p, po, hgm, hmp, hpa, hgp, hmk⟩ := legal_data hwf hm hp
  rw [merge_alive hgm hmp] at hj
  have hj' := hwf.alive_nodup.mem_erase_iff.1 hj
  obtain ⟨o, hg⟩ := hwf.alive_get j hj'.2
  rw [merge_get hgm hmp, hg] at hg'
  simp only [Option.map_some, Option.some.injEq] at hg'
  subst hg'
  rw [mergeF_npix] at hn
  split at hn
  · cases hn
  · exact hs j hj'.2 o hg n hn

/-! ## non-vacuity -/

/-- a branch `0` with two leaves `1`, `2`; the two leaves tie at value 5, the branch's own pixels tie
    at value 3 -/
def hEx : PHeap :=
  { objs := [ { id := 0, kids := [1, 2], own := [(10, 3), (11, 3)] },
              { id := 1, parent := some 0, own := [(20, 5), (21, 5)] },
              { id := 2, parent := some 0, own := [(30, 5), (31, 2)] } ],
    alive := [0, 1, 2] }

def opsEx : List POp := [.peak 0 true, .npix 0, .prune [1], .peak 0 true, .npix 0]

/-- a rank for `hEx` (the level) -/
def rkEx : Nat → Nat
  | 0 => 0 | _ => 1

theorem hEx_wf : WF hEx := by
  have k : ∀ i ∈ hEx.alive, (hEx.get i).isSome = true := by decide
  refine ⟨by decide, by decide, fun i hi => Option.isSome_iff_exists.1 (k i hi), by decide, by decide,
    by decide, ⟨rkEx, ?_⟩⟩
  unfold RankOK; decide

theorem hEx_sound : Sound hEx := sound_of_empty (by decide)

theorem hEx_legal : LegalOps hEx opsEx := by
  have mem : ∀ {h : PHeap} {i : Nat}, i ∈ h.alive → i ∈ h.alive := id
  refine ⟨mem (by decide), mem (by decide), ?_, mem (by decide), mem (by decide), trivial⟩
  exact ⟨by decide, by decide, trivial⟩

/-- the answers of the example history, next to the specification answers.  Before the prune the
    subtree peak of the branch is the FIRST pixel of the FIRST leaf (the leaves tie at 5; 6 pixels).
    After pruning leaf `1` its pixels belong to the branch (own peak `(20, 5)`), the remaining leaf
    `2` has peak `(30, 5)`, and the child's peak wins the tie against the own peak: `(30, 5)`;
    still 6 pixels. -/
example : run hEx opsEx =
    [(.p (some (20, 5)), .p (some (20, 5))), (.n (some 6), .n (some 6)), (.unit, .unit),
     (.p (some (30, 5)), .p (some (30, 5))), (.n (some 6), .n (some 6))] := by decide

example : ∀ pr ∈ run hEx opsEx, pr.1 = pr.2 := by decide

/-- the example is an instance of `history_sound` -/
example : ∀ pr ∈ run hEx opsEx, pr.1 = pr.2 := history_sound hEx opsEx hEx_wf hEx_sound hEx_legal

end P33
