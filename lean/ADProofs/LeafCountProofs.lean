import ADProofs.MaximaProofs
import ADProofs.SimProofs
/-!
# The number of leaves does not depend on the admissible processing order (C16 / C17, ties clause)

Setting (as in `ADProofs/MaximaProofs.lean`): symmetric adjacency, no pruning
(`E.indep … = true`), pixels processed in non-increasing order of value, ties in ANY order.
Two admissible orders of the same pixel set may give different forests (a pixel tied with the
meeting value may end up in a leaf or in the branch), but

* `samePlateau_congr`, `regMax_congr` — plateaus / regional maxima only depend on the SET of
  processed pixels;
* `leaf_has_peak` — every leaf of a run owns a pixel carrying its peak value;
* `leaf_count_order_independent` — MAIN: both runs have the same number of leaves (both are in
  bijection with the regional-maximum plateaus, `P20`);
* `leaf_count_transform` — hence the number of leaves is invariant under the transformations of
  C16 / C17 (renaming `σ` with corresponding adjacency, order-preserving value map), whatever
  admissible order the transformed run uses for its ties.

Core Lean only.
-/
open Tree

namespace P34

/-! ## 1. plateaus and regional maxima depend on the pixel set only -/

theorem samePlateau_congr {E : Env} {o₁ o₂ : List Nat} (h : ∀ x, x ∈ o₁ ↔ x ∈ o₂) (p q : Nat) :
    P20.SamePlateau E o₁ p q ↔ P20.SamePlateau E o₂ p q := by
  constructor
  · intro hc; exact hc.mono (fun x hx => ⟨(h x).mp hx.1, hx.2⟩)
  · intro hc; exact hc.mono (fun x hx => ⟨(h x).mpr hx.1, hx.2⟩)

theorem regMax_congr {E : Env} {o₁ o₂ : List Nat} (h : ∀ x, x ∈ o₁ ↔ x ∈ o₂) (p : Nat) :
    P20.RegMax E o₁ p ↔ P20.RegMax E o₂ p := by
  constructor
  · rintro ⟨hp, hR⟩
    exact ⟨(h p).mp hp, fun q hq r hr hro =>
      hR q ((samePlateau_congr h p q).mpr hq) r hr ((h r).mpr hro)⟩
  · rintro ⟨hp, hR⟩
    exact ⟨(h p).mpr hp, fun q hq r hr hro =>
      hR q ((samePlateau_congr h p q).mp hq) r hr ((h r).mp hro)⟩

/-! ## 2. leaves and their peaks -/

/-- the leaves of a forest, prefix order -/
def leavesOf (f : List Tree) : List Tree := (Tree.preL f).filter Tree.isLeaf

theorem isLeaf_iff (t : Tree) : t.isLeaf = true ↔ t.kids = [] := by
  simp [Tree.isLeaf, List.isEmpty_iff]

theorem mem_leavesOf {f : List Tree} {t : Tree} :
    t ∈ leavesOf f ↔ t ∈ Tree.preL f ∧ t.kids = [] := by
  unfold leavesOf; rw [List.mem_filter, isLeaf_iff]

/-- every leaf of a run owns a pixel that carries its peak value -/
theorem leaf_has_peak (E : Env) (order : List Nat) :
    ∀ t ∈ leavesOf (run E order), ∃ p ∈ t.own, E.val p = t.vmax E.val := by
  intro t ht
  obtain ⟨a, ha, hv⟩ :=
    ContourP.vmax_attained E.val t (run_own_nonempty E order t (mem_leavesOf.mp ht).1)
  exact ⟨a, ha, hv.symm⟩

/-- the list of leaves of a run has no duplicates (identifiers are unique) -/
theorem leavesOf_run_nodup (E : Env) (order : List Nat) (hnd : order.Nodup) :
    (leavesOf (run E order)).Nodup := by
  have h : (Tree.preL (run E order)).Nodup := by
    have h0 := run_ids_nodup E order hnd
    unfold List.Nodup at h0 ⊢
    rw [List.pairwise_map] at h0
    exact h0.imp (fun {a b} hne e => hne (by rw [e]))
  exact h.filter _

/-! ## counting -/

/-- a relation that is total on a duplicate-free list `l₁`, with partners in `l₂`, and injective -/
theorem length_le_of_rel {α β : Type} (R : α → β → Prop) :
    ∀ (l₁ : List α) (l₂ : List β), l₁.Nodup → (∀ a ∈ l₁, ∃ b ∈ l₂, R a b) →
      (∀ a ∈ l₁, ∀ a' ∈ l₁, ∀ b ∈ l₂, R a b → R a' b → a = a') → l₁.length ≤ l₂.length := by
  intro l₁
  induction l₁ with
  | nil => intro l₂ _ _ _; simp
  | cons a l₁ ih =>
    intro l₂ hnd htot hinj
    obtain ⟨hna, hnd'⟩ := List.nodup_cons.mp hnd
    obtain ⟨b, hb, hab⟩ := htot a (by simp)
    obtain ⟨s, t, rfl⟩ := List.append_of_mem hb
    have hsub : ∀ c, c ∈ s ++ t → c ∈ s ++ b :: t := by
      intro c hc
      rcases List.mem_append.mp hc with h | h
      · exact List.mem_append_left _ h
      · exact List.mem_append_right _ (List.mem_cons_of_mem _ h)
    have h := ih (s ++ t) hnd'
      (by
        intro a' ha'
        obtain ⟨b', hb', hab'⟩ := htot a' (List.mem_cons_of_mem _ ha')
        refine ⟨b', ?_, hab'⟩
        rcases List.mem_append.mp hb' with h | h
        · exact List.mem_append_left _ h
        · rcases List.mem_cons.mp h with rfl | h
          · exact absurd (hinj a (by simp) a' (List.mem_cons_of_mem _ ha') b' hb hab hab')
              (fun e => hna (e ▸ ha'))
          · exact List.mem_append_right _ h)
      (fun x hx y hy c hc =>
        hinj x (List.mem_cons_of_mem _ hx) y (List.mem_cons_of_mem _ hy) c (hsub c hc))
    simp only [List.length_append, List.length_cons] at h ⊢
    omega

/-! ## 3. MAIN -/

/-- one direction of the main theorem: leaf of run 1 ↦ the leaf of run 2 that owns one of its peak
pixels as a peak pixel; total (`leaf_peak_regmax`, `regmax_has_leaf`) and injective
(`leaf_peak_one_plateau` in run 2, `leaves_distinct_maxima` in run 1) -/
theorem leaf_count_le (E : Env) (hsym : ∀ x y, y ∈ E.nbrs x → x ∈ E.nbrs y)
    (hno : ∀ t p v, E.indep t p v = true) (o₁ o₂ : List Nat) (hmem : ∀ x, x ∈ o₁ ↔ x ∈ o₂)
    (hnd₁ : o₁.Nodup) (hnd₂ : o₂.Nodup)
    (hs₁ : o₁.Pairwise (fun a b => E.val b ≤ E.val a))
    (hs₂ : o₂.Pairwise (fun a b => E.val b ≤ E.val a)) :
    (leavesOf (run E o₁)).length ≤ (leavesOf (run E o₂)).length := by
  apply length_le_of_rel (fun t₁ t₂ : Tree =>
    ∃ p, p ∈ t₁.own ∧ E.val p = t₁.vmax E.val ∧ p ∈ t₂.own ∧ E.val p = t₂.vmax E.val)
  · exact leavesOf_run_nodup E o₁ hnd₁
  · intro t₁ ht₁
    obtain ⟨hpre, hl⟩ := mem_leavesOf.mp ht₁
    obtain ⟨p, hp, hv⟩ := leaf_has_peak E o₁ t₁ ht₁
    have hR := P20.leaf_peak_regmax E hsym o₁ hnd₁ hs₁ hno t₁ hpre hl p hp hv
    obtain ⟨t₂, ht₂, hl₂, hp₂, hv₂⟩ :=
      P20.regmax_has_leaf E hsym o₂ hnd₂ hs₂ hno p ((regMax_congr hmem p).mp hR)
    exact ⟨t₂, mem_leavesOf.mpr ⟨ht₂, hl₂⟩, p, hp, hv, hp₂, hv₂⟩
  · rintro a ha a' ha' b hb ⟨p, hpa, hva, hpb, hvb⟩ ⟨q, hqa', hva', hqb, hvb'⟩
    obtain ⟨hpre, hl⟩ := mem_leavesOf.mp ha
    obtain ⟨hpre', hl'⟩ := mem_leavesOf.mp ha'
    obtain ⟨hpreb, hlb⟩ := mem_leavesOf.mp hb
    have hsp₂ : P20.SamePlateau E o₂ p q :=
      P20.leaf_peak_one_plateau E hsym o₂ hnd₂ hs₂ hno b hpreb hlb p hpb q hqb hvb hvb'
    have hsp₁ : P20.SamePlateau E o₁ p q := (samePlateau_congr hmem p q).mpr hsp₂
    by_cases hab : a = a'
    · exact hab
    · exact absurd hsp₁ (P20.leaves_distinct_maxima E hsym o₁ hnd₁ hs₁ hno a hpre a' hpre' hl hl'
        hab p hpa q hqa' hva hva')

/-- **MAIN.** Without pruning, two admissible processing orders of the same pixels (ties in any
order) give the same number of leaves. -/
theorem leaf_count_order_independent (E : Env) (hsym : ∀ x y, y ∈ E.nbrs x → x ∈ E.nbrs y)
    (hno : ∀ t p v, E.indep t p v = true) (o₁ o₂ : List Nat) (hperm : o₁.Perm o₂)
    (hnd : o₁.Nodup)
    (hs₁ : o₁.Pairwise (fun a b => E.val b ≤ E.val a))
    (hs₂ : o₂.Pairwise (fun a b => E.val b ≤ E.val a)) :
    (leavesOf (run E o₁)).length = (leavesOf (run E o₂)).length := by
  have hnd₂ : o₂.Nodup := hperm.nodup_iff.mp hnd
  have hmem : ∀ x, x ∈ o₁ ↔ x ∈ o₂ := fun x => hperm.mem_iff
  exact Nat.le_antisymm
    (leaf_count_le E hsym hno o₁ o₂ hmem hnd hnd₂ hs₁ hs₂)
    (leaf_count_le E hsym hno o₂ o₁ (fun x => (hmem x).symm) hnd₂ hnd hs₂ hs₁)

/-! ## 4. the transformations of C16 / C17 -/

/-- **COROLLARY.** `E'` is `E` with pixels renamed by `σ` (adjacency corresponds on the processed
pixels) and values mapped in an order-preserving way; `order'` is ANY admissible order of the
renamed pixels (ties of the transformed image may be broken differently).  Without pruning both
runs have the same number of leaves. -/
theorem leaf_count_transform (E E' : Env) (σ : Nat → Nat) (order order' : List Nat)
    (hsym' : ∀ x y, y ∈ E'.nbrs x → x ∈ E'.nbrs y)
    (hno : ∀ t p v, E.indep t p v = true) (hno' : ∀ t p v, E'.indep t p v = true)
    (hadj : ∀ p ∈ order, ∀ q ∈ order, (q ∈ E.nbrs p ↔ σ q ∈ E'.nbrs (σ p)))
    (hmono : ∀ p ∈ order, ∀ q ∈ order, (E.val p ≤ E.val q ↔ E'.val (σ p) ≤ E'.val (σ q)))
    (hperm' : order'.Perm (order.map σ)) (hnd' : order'.Nodup)
    (hs' : order'.Pairwise (fun a b => E'.val b ≤ E'.val a))
    (hs : order.Pairwise (fun a b => E.val b ≤ E.val a)) :
    (leavesOf (run E order)).length = (leavesOf (run E' order')).length := by
  have hsim : P10.SimL σ (run E order) (run E' (order.map σ)) :=
    P10.run_sim_of_hyp ⟨hadj, hmono, fun t t' _ _ _ _ p _ => by rw [hno, hno']⟩
  have hsσ : (order.map σ).Pairwise (fun a b => E'.val b ≤ E'.val a) := by
    rw [List.pairwise_map]
    exact hs.imp_of_mem (fun {a b} ha hb h => (hmono b hb a ha).mp h)
  have h1 : (leavesOf (run E order)).length = (leavesOf (run E' (order.map σ))).length :=
    (P10.sim_counts hsim).2
  have h2 := leaf_count_order_independent E' hsym' hno' order' (order.map σ) hperm' hnd' hs' hsσ
  exact h1.trans h2.symm

/-! ## 5. non-vacuity -/

section Witness

private def wNbrs (p : Nat) : List Nat :=
  (if p + 1 < 5 then [p + 1] else []) ++ (if 0 < p ∧ p < 5 then [p - 1] else [])
private def wVal (p : Nat) : Int := [1, 3, 3, 1, 2].getD p 0
private def wE : Env := ⟨wVal, wNbrs, fun _ _ _ => true, fun _ => true⟩

/-- own lists of all structures, prefix order (`Tree` has no decidable equality) -/
private def owns (f : List Tree) : List (List Nat) := (Tree.preL f).map Tree.own

-- values `1 3 3 1 2`: pixels 1, 2 form a plateau of two equal maxima, pixels 0, 3 tie at the
-- meeting value.  Both orders are admissible orders of the same pixels …
example : [1, 2, 4, 0, 3].Perm [2, 1, 4, 3, 0] ∧ [1, 2, 4, 0, 3].Nodup ∧
    [1, 2, 4, 0, 3].Pairwise (fun a b => wE.val b ≤ wE.val a) ∧
    [2, 1, 4, 3, 0].Pairwise (fun a b => wE.val b ≤ wE.val a) := by decide
-- … adjacency is symmetric (on the pixels that have neighbours at all) …
example : ∀ x < 6, ∀ y ∈ wE.nbrs x, x ∈ wE.nbrs y := by decide
-- … the forests differ (pixel 0 is owned by the leaf in run 1, by the branch in run 2) …
example : owns (run wE [1, 2, 4, 0, 3]) = [[3], [1, 2, 0], [4]] ∧
    owns (run wE [2, 1, 4, 3, 0]) = [[3, 0], [2, 1], [4]] := by decide
-- … and the number of leaves is the same.
example : (leavesOf (run wE [1, 2, 4, 0, 3])).length = 2 ∧
    (leavesOf (run wE [2, 1, 4, 3, 0])).length = 2 := by decide

end Witness

end P34
