import ADModel
/-!
# P14 — dendrogram equality (C20) and file-format identification (C09)

Part A: `Dendrogram.__eq__` as modelled in `ADModel.Eq` (`DView.eqD` = as implemented,
`DView.eqSpec` = the property, `DView.eqIntended` = with `other.index_map`).
 * A1/A2: reflexivity and symmetry of `eqSpec`, `eqD`;
 * A3: `eqSpec_iff`, `eqD_iff` spell the operators out;
 * A4: `canon_eq_iff_same_partition` — `canon l = canon m` iff the two label maps label the same
   pixels and group them identically (`SamePartition`); also `canon_same_partition`,
   `canon_idempotent`;
 * A5: the implemented operator ignores `other`'s label map (`eq_ignores_other`), the
   first-occurrence fingerprint is weaker than the partition, `eqSpec → eqD`, `eqSpec → eqIntended`.

Part B: `ADModel.Identify` — FITS / HDF5 extensions and signatures are disjoint, so at most one
handler recognises a file and handler order is irrelevant.

Core Lean only (no Mathlib: its global `Tree` clashes with `ADModel.Basic`).
-/

namespace P14
open DView Identify

/-! ## A1–A3 -/

theorem compat_refl (x : Int) : compat x x = true := by simp [compat]
theorem compat_symm (x y : Int) : compat x y = compat y x := by
  simp only [compat]
  rw [Bool.eq_iff_iff]; simp only [Bool.or_eq_true, beq_iff_eq]
  constructor <;> (intro h; rcases h with (h | h) | h <;> simp [h])

theorem compat_iff (x y : Int) : compat x y = true ↔ (x = 0 ∨ y = 0 ∨ x = y) := by
  simp [compat, or_assoc]

theorem sameData_refl (a : DView) : sameData a a = true := by simp [sameData]
theorem sameParams_refl (a : DView) : sameParams a a = true := by simp [sameParams, compat_refl]

theorem sameData_symm (a b : DView) : sameData a b = sameData b a := by
  simp only [sameData]; rw [Bool.eq_iff_iff]; simp only [Bool.and_eq_true, beq_iff_eq]
  constructor <;> (rintro ⟨h1, h2⟩; exact ⟨h1.symm, h2.symm⟩)

theorem sameParams_symm (a b : DView) : sameParams a b = sameParams b a := by
  simp only [sameParams, compat_symm a.mind, compat_symm a.minn]
  rw [Bool.eq_iff_iff]; simp only [Bool.and_eq_true, beq_iff_eq]
  constructor <;> (rintro ⟨⟨h1, h2⟩, h3⟩; exact ⟨⟨h1.symm, h2⟩, h3⟩)

theorem eqSpec_refl (a : DView) : DView.eqSpec a a = true := by
  simp [eqSpec, sameData_refl, sameParams_refl]
theorem eqD_refl (a : DView) : DView.eqD a a = true := by
  simp [eqD, sameData_refl, sameParams_refl]

theorem eqSpec_symm (a b : DView) : DView.eqSpec a b = DView.eqSpec b a := by
  simp only [eqSpec, sameData_symm a b, sameParams_symm a b]
  congr 1
  rw [Bool.eq_iff_iff]; simp only [beq_iff_eq]; exact eq_comm
theorem eqD_symm (a b : DView) : DView.eqD a b = DView.eqD b a := by
  simp [eqD, sameData_symm a b, sameParams_symm a b]

theorem eqSpec_iff (a b : DView) : DView.eqSpec a b = true ↔
    a.shape = b.shape ∧ a.data = b.data ∧ a.minv.1 * (b.minv.2 : Int) = b.minv.1 * (a.minv.2 : Int) ∧
    (a.mind = 0 ∨ b.mind = 0 ∨ a.mind = b.mind) ∧ (a.minn = 0 ∨ b.minn = 0 ∨ a.minn = b.minn) ∧
    DView.canon a.lmap = DView.canon b.lmap := by
  simp only [eqSpec, sameData, sameParams, Bool.and_eq_true, beq_iff_eq, compat_iff, and_assoc]

theorem eqD_iff (a b : DView) : DView.eqD a b = true ↔
    a.shape = b.shape ∧ a.data = b.data ∧ a.minv.1 * (b.minv.2 : Int) = b.minv.1 * (a.minv.2 : Int) ∧
    (a.mind = 0 ∨ b.mind = 0 ∨ a.mind = b.mind) ∧ (a.minn = 0 ∨ b.minn = 0 ∨ a.minn = b.minn) := by
  simp only [eqD, sameData, sameParams, Bool.and_eq_true, beq_iff_eq, compat_iff, and_assoc, and_true]

theorem eqSpec_implies_eqD (a b : DView) : DView.eqSpec a b = true → DView.eqD a b = true := by
  rw [eqSpec_iff, eqD_iff]
  rintro ⟨h1, h2, h3, h4, h5, _⟩; exact ⟨h1, h2, h3, h4, h5⟩


/-! ## A4 — `canon` characterises the partition -/

/-- the two label maps label the same pixels (`none` = unlabelled) and group them identically -/
def SamePartition (l m : List (Option Nat)) : Prop :=
  l.length = m.length ∧ ∀ i j, i < l.length → j < l.length →
    ((l.getD i none = none ↔ m.getD i none = none) ∧
     ((l.getD i none = l.getD j none) ↔ (m.getD i none = m.getD j none)))

theorem SamePartition.refl (l) : SamePartition l l := ⟨rfl, fun _ _ _ _ => ⟨Iff.rfl, Iff.rfl⟩⟩
theorem SamePartition.symm {l m} (h : SamePartition l m) : SamePartition m l :=
  ⟨h.1.symm, fun i j hi hj => ⟨(h.2 i j (h.1 ▸ hi) (h.1 ▸ hj)).1.symm, (h.2 i j (h.1 ▸ hi) (h.1 ▸ hj)).2.symm⟩⟩
theorem SamePartition.trans {l m n} (h : SamePartition l m) (h' : SamePartition m n) : SamePartition l n :=
  ⟨h.1.trans h'.1, fun i j hi hj =>
    ⟨(h.2 i j hi hj).1.trans (h'.2 i j (h.1 ▸ hi) (h.1 ▸ hj)).1,
     (h.2 i j hi hj).2.trans (h'.2 i j (h.1 ▸ hi) (h.1 ▸ hj)).2⟩⟩

/-- membership in a prefix, in `getD` form -/
theorem contains_take_iff (l : List (Option Nat)) (i : Nat) (hi : i < l.length) (x : Option Nat) :
    (l.take i).contains x = true ↔ ∃ j, j < i ∧ l.getD j none = x := by
  rw [List.contains_iff_mem, List.mem_take_iff_getElem]
  constructor
  · rintro ⟨j, hj, e⟩
    have hj' : j < i ∧ j < l.length := by omega
    refine ⟨j, hj'.1, ?_⟩
    rw [List.getD_eq_getElem?_getD, List.getElem?_eq_getElem hj'.2]; exact e
  · rintro ⟨j, hj, e⟩
    have hj' : j < l.length := by omega
    refine ⟨j, by omega, ?_⟩
    rw [List.getD_eq_getElem?_getD, List.getElem?_eq_getElem hj'] at e; exact e

theorem firstOcc_congr {l m} (h : SamePartition l m) : firstOcc l = firstOcc m := by
  unfold firstOcc
  rw [← h.1]
  apply List.filter_congr
  intro i hi
  have hi : i < l.length := by simpa using hi
  have hi' : i < m.length := h.1 ▸ hi
  congr 1
  rw [Bool.eq_iff_iff, contains_take_iff l i hi, contains_take_iff m i hi']
  constructor
  · rintro ⟨j, hj, e⟩; exact ⟨j, hj, ((h.2 j i (by omega) hi).2).1 e⟩
  · rintro ⟨j, hj, e⟩; exact ⟨j, hj, ((h.2 j i (by omega) hi).2).2 e⟩

/-- labelled first-occurrence positions -/
def firsts (l : List (Option Nat)) : List Nat := (firstOcc l).filter fun i => (l.getD i none).isSome
def keys (l : List (Option Nat)) : List (Option Nat) := (firsts l).map fun i => l.getD i none
def ren (l : List (Option Nat)) : Option Nat → Option Nat
  | none => none
  | some v => some ((keys l).idxOf (some v))

theorem canon_eq (l) : canon l = l.map (ren l) := by
  unfold canon; apply List.map_congr_left; intro x _; cases x <;> rfl

theorem firsts_lt {l i} (h : i ∈ firsts l) : i < l.length := by
  simp only [firsts, firstOcc, List.mem_filter, List.mem_range] at h; exact h.1.1

theorem firsts_congr {l m} (h : SamePartition l m) : firsts l = firsts m := by
  unfold firsts
  rw [← firstOcc_congr h]
  apply List.filter_congr
  intro i hi
  have hi : i < l.length := by
    simp only [firstOcc, List.mem_filter, List.mem_range] at hi; exact hi.1
  have := (h.2 i i hi hi).1
  cases e1 : l.getD i none <;> cases e2 : m.getD i none <;> simp_all

theorem idxOf_congr (l m : List (Option Nat)) (a b : Option Nat) (P : List Nat)
    (h : ∀ p ∈ P, (l.getD p none = a ↔ m.getD p none = b)) :
    (P.map fun i => l.getD i none).idxOf a = (P.map fun i => m.getD i none).idxOf b := by
  induction P with
  | nil => rfl
  | cons p P ih =>
    simp only [List.map_cons, List.idxOf_cons]
    have h1 := h p (List.mem_cons_self)
    have h2 := ih (fun q hq => h q (List.mem_cons_of_mem _ hq))
    rw [h2]
    have : (l.getD p none == a) = (m.getD p none == b) := by
      rw [Bool.eq_iff_iff]; simp only [beq_iff_eq]; exact h1
    rw [this]

theorem getD_canon (l : List (Option Nat)) (i : Nat) : (canon l).getD i none = ren l (l.getD i none) := by
  rw [canon_eq]
  simp only [List.getD_eq_getElem?_getD, List.getElem?_map]
  cases l[i]? <;> rfl

theorem canon_congr {l m} (h : SamePartition l m) : canon l = canon m := by
  apply List.ext_getElem?
  intro i
  by_cases hi : i < l.length
  · have hi' : i < m.length := h.1 ▸ hi
    have hc := getD_canon l i
    have hc' := getD_canon m i
    have hl : (canon l).length = l.length := by simp [canon]
    have hm : (canon m).length = m.length := by simp [canon]
    rw [List.getD_eq_getElem?_getD, List.getElem?_eq_getElem (by omega)] at hc hc'
    rw [List.getElem?_eq_getElem (by omega), List.getElem?_eq_getElem (by omega)]
    simp only [Option.getD_some] at hc hc'
    rw [hc, hc']
    have hn := (h.2 i i hi hi).1
    cases e1 : l.getD i none with
    | none => rw [hn.1 e1]; rfl
    | some v =>
      cases e2 : m.getD i none with
      | none => rw [hn.2 e2] at e1; cases e1
      | some w =>
        simp only [ren, keys]
        rw [← firsts_congr h]
        congr 2
        apply idxOf_congr
        intro p hp
        rw [← e1, ← e2]
        exact (h.2 p i (firsts_lt hp) hi).2
  · have hl : (canon l).length = l.length := by simp [canon]
    have hm : (canon m).length = m.length := by simp [canon]
    rw [List.getElem?_eq_none (by omega), List.getElem?_eq_none (by have := h.1; omega)]


theorem first_occ_exists (l : List (Option Nat)) : ∀ i, i < l.length →
    ∃ p, p ≤ i ∧ l.getD p none = l.getD i none ∧ ∀ j, j < p → l.getD j none ≠ l.getD i none := by
  intro i
  induction i using Nat.strongRecOn with
  | _ i ih =>
    intro hi
    by_cases hex : ∃ j, j < i ∧ l.getD j none = l.getD i none
    · obtain ⟨j, hj, e⟩ := hex
      obtain ⟨p, hp, e', hmin⟩ := ih j hj (by omega)
      exact ⟨p, by omega, e'.trans e, fun j' hj' => e ▸ hmin j' hj'⟩
    · exact ⟨i, Nat.le_refl _, rfl, fun j hj e => hex ⟨j, hj, e⟩⟩

theorem mem_keys {l : List (Option Nat)} {i v} (hi : i < l.length) (e : l.getD i none = some v) :
    some v ∈ keys l := by
  obtain ⟨p, hp, e', hmin⟩ := first_occ_exists l i hi
  have hpl : p < l.length := by omega
  simp only [keys, List.mem_map]
  refine ⟨p, ?_, e'.trans e⟩
  simp only [firsts, firstOcc, List.mem_filter, List.mem_range]
  refine ⟨⟨hpl, ?_⟩, by rw [e', e]; rfl⟩
  cases hc : (l.take p).contains (l.getD p none) with
  | false => rfl
  | true =>
    obtain ⟨j, hj, ej⟩ := (contains_take_iff l p hpl _).1 hc
    exact absurd (ej.trans e') (hmin j hj)

theorem ren_inj {l : List (Option Nat)} {v w} (hv : some v ∈ keys l)
    (h : ren l (some v) = ren l (some w)) : v = w := by
  simp only [ren, Option.some.injEq] at h
  have h1 : (keys l).idxOf (some v) < (keys l).length := List.idxOf_lt_length_iff.2 hv
  have h2 : (keys l).idxOf (some w) < (keys l).length := h ▸ h1
  have g1 := List.getElem_idxOf h1
  have g2 := List.getElem_idxOf h2
  simp only [h] at g1
  rw [g2] at g1
  exact (Option.some.inj g1).symm

theorem canon_same_partition (l : List (Option Nat)) : SamePartition l (canon l) := by
  refine ⟨by simp [canon], fun i j hi hj => ?_⟩
  rw [getD_canon, getD_canon]
  constructor
  · cases e : l.getD i none <;> simp [ren]
  · constructor
    · intro h; rw [h]
    · intro h
      cases e1 : l.getD i none with
      | none =>
        cases e2 : l.getD j none with
        | none => rfl
        | some w => rw [e1, e2] at h; simp [ren] at h
      | some v =>
        cases e2 : l.getD j none with
        | none => rw [e1, e2] at h; simp [ren] at h
        | some w =>
          rw [e1, e2] at h
          rw [ren_inj (mem_keys hi e1) h]

/-- main theorem of part A: equal canonical forms ⇔ same partition (identifiers are naming only) -/
theorem canon_eq_iff_same_partition (l m : List (Option Nat)) :
    DView.canon l = DView.canon m ↔ SamePartition l m := by
  constructor
  · intro h
    have h1 := canon_same_partition l
    rw [h] at h1
    exact h1.trans (canon_same_partition m).symm
  · exact canon_congr

theorem canon_idempotent (l : List (Option Nat)) : canon (canon l) = canon l :=
  canon_congr (canon_same_partition l).symm

theorem canon_eq_firstOcc_eq {l m : List (Option Nat)} (h : canon l = canon m) :
    firstOcc l = firstOcc m :=
  firstOcc_congr ((canon_eq_iff_same_partition l m).1 h)


/-! ## A5 — witnesses and implications -/

theorem eq_ignores_other : ∃ a b : DView, DView.eqD a b = true ∧ DView.canon a.lmap ≠ DView.canon b.lmap :=
  ⟨⟨[2], [some 1, some 2], (0, 1), 0, 0, [some 0, some 0]⟩,
   ⟨[2], [some 1, some 2], (0, 1), 0, 0, [some 0, some 1]⟩, by decide⟩

theorem fingerprint_weaker_than_partition : ∃ l m : List (Option Nat),
    DView.firstOcc l = DView.firstOcc m ∧ DView.canon l ≠ DView.canon m :=
  ⟨[some 0, some 1, some 0], [some 0, some 1, some 1], by decide⟩


/-- `eqSpec` implies what the code would compute with `other.index_map` in the second
    fingerprint: equal canonical forms have equal first-occurrence fingerprints. -/
theorem eqSpec_implies_eqIntended (a b : DView) :
    DView.eqSpec a b = true → DView.eqIntended a b = true := by
  intro h
  have hc : canon a.lmap = canon b.lmap := ((eqSpec_iff a b).1 h).2.2.2.2.2
  have hd := eqSpec_implies_eqD a b h
  simp only [eqD, eqIntended, Bool.and_eq_true, beq_iff_eq] at hd ⊢
  exact ⟨hd.1, canon_eq_firstOcc_eq hc⟩

/-! ## B — identification -/

theorem endsWith_append {s suf : List Char} (h : endsWith s suf = true) :
    s = s.take (s.length - suf.length) ++ suf := by
  simp only [endsWith, Bool.and_eq_true, beq_iff_eq] at h
  have := List.take_append_drop (s.length - suf.length) s
  rw [h.2] at this; exact this.symm

theorem endsWith_last {s suf : List Char} (h : endsWith s suf = true) (c : Char)
    (hc : suf.getLast? = some c) : s.getLast? = some c := by
  rw [endsWith_append h, List.getLast?_append, hc]; rfl

theorem fits_last {s : List Char} (h : fitsExts.any (endsWith s) = true) :
    s.getLast? = some 's' ∨ s.getLast? = some 'z' ∨ s.getLast? = some 't' := by
  simp only [fitsExts, List.any_cons, List.any_nil, Bool.or_false, Bool.or_eq_true] at h
  rcases h with h | h | h | h
  · exact Or.inl (endsWith_last h 's' (by decide))
  · exact Or.inr (Or.inl (endsWith_last h 'z' (by decide)))
  · exact Or.inr (Or.inr (endsWith_last h 't' (by decide)))
  · exact Or.inr (Or.inl (endsWith_last h 'z' (by decide)))

theorem hdf5_last {s : List Char} (h : hdf5Exts.any (endsWith s) = true) :
    s.getLast? = some '5' := by
  simp only [hdf5Exts, List.any_cons, List.any_nil, Bool.or_false, Bool.or_eq_true] at h
  rcases h with h | h
  · exact endsWith_last h '5' (by decide)
  · exact endsWith_last h '5' (by decide)

/-- no name ends with both a FITS and an HDF5 extension (last character s/t/z vs 5) -/
theorem fits_hdf5_ext_disjoint (s : List Char) :
    ¬ (Identify.fitsExts.any (Identify.endsWith s) = true ∧ Identify.hdf5Exts.any (Identify.endsWith s) = true) := by
  rintro ⟨h1, h2⟩
  have h5 := hdf5_last h2
  rcases fits_last h1 with h | h | h <;> (rw [h5] at h; revert h; decide)

/-- first byte 0x53 vs 0x89 -/
theorem sig_disjoint (h : List Nat) : ¬ (h.take 30 = Identify.fitsSig ∧ h.take 8 = Identify.hdf5Sig) := by
  rintro ⟨h1, h2⟩
  cases h with
  | nil => simp [hdf5Sig] at h2
  | cons x t =>
    simp only [List.take_succ_cons, fitsSig, hdf5Sig, List.cons_append, List.cons.injEq] at h1 h2
    omega

theorem identify_unique (name : List Char) (read : Bool) (head : Option (List Nat)) :
    ¬ (Identify.isFits name read head = true ∧ Identify.isHdf5 name read head = true) := by
  rintro ⟨h1, h2⟩
  cases read <;> cases head <;> simp only [isFits, isHdf5, beq_iff_eq] at h1 h2
  · exact fits_hdf5_ext_disjoint _ ⟨h1, h2⟩
  · exact fits_hdf5_ext_disjoint _ ⟨h1, h2⟩
  · exact fits_hdf5_ext_disjoint _ ⟨h1, h2⟩
  · exact sig_disjoint _ ⟨h1, h2⟩

theorem identify_cases (name : List Char) (read : Bool) (head : Option (List Nat)) :
    (identify name read head = some .fits ↔ isFits name read head = true) ∧
    (identify name read head = some .hdf5 ↔ isHdf5 name read head = true) ∧
    (identify name read head = none ↔ (isFits name read head = false ∧ isHdf5 name read head = false)) := by
  have hu := identify_unique name read head
  unfold identify
  cases hf : isFits name read head <;> cases hh : isHdf5 name read head <;> simp_all

theorem identify_write_iff (name : List Char) :
    (Identify.identify name false none = some .fits ↔ Identify.fitsExts.any (Identify.endsWith (Identify.lower name)) = true) ∧
    (Identify.identify name false none = some .hdf5 ↔ Identify.hdf5Exts.any (Identify.endsWith (Identify.lower name)) = true) ∧
    (Identify.identify name false none = none ↔ (Identify.fitsExts.any (Identify.endsWith (Identify.lower name)) = false ∧ Identify.hdf5Exts.any (Identify.endsWith (Identify.lower name)) = false)) := by
  have h := identify_cases name false none
  simpa only [isFits, isHdf5] using h

theorem identify_read_by_signature (name : List Char) (h : List Nat) :
    (Identify.identify name true (some h) = some .fits ↔ h.take 30 = Identify.fitsSig) ∧
    (Identify.identify name true (some h) = some .hdf5 ↔ h.take 8 = Identify.hdf5Sig) := by
  have h' := identify_cases name true (some h)
  simp only [isFits, isHdf5, beq_iff_eq] at h'
  exact ⟨h'.1, h'.2.1⟩

theorem choose_explicit (f : Fmt) (name : List Char) (read : Bool) (head : Option (List Nat)) :
    Identify.choose (some f) name read head = some f := rfl

theorem lower_case_insensitive :
    Identify.identify "X.FITS".toList false none = some .fits ∧
    Identify.identify ".H5".toList false none = some .hdf5 ∧
    Identify.identify "a.Fit.Gz".toList false none = some .fits := by decide


end P14
