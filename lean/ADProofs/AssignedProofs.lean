import ADProofs.Forest
/-!
# ADProofs.AssignedProofs — which pixels are assigned after `Dendrogram.compute` (C01), and the
fixed-width arithmetic behind the default threshold (C01) and the significance test (C15)

* `pixels_mapIds`, `pixelsL_relabel`, `relabel_shape` : re-labelling changes identifiers only
* `makeTrunk_split`       : `_make_trunk` partitions the parentless structures into kept / dropped
* `dropped_is_whole_leaf` : what is dropped is a whole parentless leaf failing the value-less criteria
* `compute_assigned_iff`, `compute_pixels_nodup` : a pixel is assigned iff it was processed and does
  not lie in a dropped leaf; every assigned pixel is assigned once
* `wrap_id`, `defaultMinNew_lt`, `defaultMinOld_*`, `signifOld_*`, `signifNew_width_free`

Core Lean only.
-/
open Tree

namespace P9

/-! ## 1. re-labelling changes identifiers only -/

theorem own_mapIds (g : Nat → Nat) (t : Tree) : (mapIds g t).own = t.own := by
  cases t; simp [mapIds, Tree.own]

theorem id_mapIds (g : Nat → Nat) (t : Tree) : (mapIds g t).id = g t.id := by
  cases t; simp [mapIds, Tree.id]

theorem kids_mapIds (g : Nat → Nat) (t : Tree) : (mapIds g t).kids = mapIdsL g t.kids := by
  cases t; simp [mapIds, Tree.kids]

theorem mapIdsL_eq_map (g : Nat → Nat) (f : List Tree) : mapIdsL g f = f.map (mapIds g) := by
  induction f with
  | nil => simp [mapIdsL]
  | cons t ts ih => simp [mapIdsL, ih]

theorem length_mapIdsL (g : Nat → Nat) (f : List Tree) : (mapIdsL g f).length = f.length := by
  rw [mapIdsL_eq_map]; simp

theorem kids_length_mapIds (g : Nat → Nat) (t : Tree) :
    (mapIds g t).kids.length = t.kids.length := by
  rw [kids_mapIds, length_mapIdsL]

theorem pixels_mapIds (g : Nat → Nat) :
    (∀ t, (mapIds g t).pixels = t.pixels) ∧ (∀ f, Tree.pixelsL (mapIdsL g f) = Tree.pixelsL f) := by
  apply Tree.forest_induction
  · intro i o ks ih; simp only [mapIds, pixels]; rw [ih]
  · simp [mapIdsL]
  · intro t ts iht ihts; simp only [mapIdsL, pixelsL]; rw [iht, ihts]

theorem pixelsL_relabel (f : List Tree) : Tree.pixelsL (relabel f) = Tree.pixelsL f :=
  (pixels_mapIds (finalId f)).2 f

/-- the prefix listing of a re-labelled forest is the re-labelled prefix listing -/
theorem pre_mapIds (g : Nat → Nat) :
    (∀ t, pre (mapIds g t) = (pre t).map (mapIds g)) ∧
    (∀ f, preL (mapIdsL g f) = (preL f).map (mapIds g)) := by
  apply Tree.forest_induction
  · intro i o ks ih; simp only [mapIds, pre, List.map_cons]; rw [ih]
  · simp [mapIdsL, preL]
  · intro t ts iht ihts; simp only [mapIdsL, preL, List.map_append]; rw [iht, ihts]

theorem shape_mapIds (g : Nat → Nat) (f : List Tree) :
    (Tree.preL (mapIdsL g f)).map (fun t => (t.own, t.kids.length)) =
      (Tree.preL f).map (fun t => (t.own, t.kids.length)) := by
  rw [(pre_mapIds g).2 f, List.map_map]
  apply List.map_congr_left
  intro t _
  simp [own_mapIds, kids_length_mapIds]

/-- re-labelling changes identifiers only: own pixels and number of children of every structure,
in prefix order, are unchanged -/
theorem relabel_shape (f : List Tree) :
    (Tree.preL (relabel f)).map (fun t => (t.own, t.kids.length)) =
      (Tree.preL f).map (fun t => (t.own, t.kids.length)) :=
  shape_mapIds (finalId f) f

/-! ## 2. `_make_trunk` -/

theorem filter_not_append_filter_perm {α} (l : List α) (q : α → Bool) :
    (l.filter (fun x => !q x) ++ l.filter q).Perm l :=
  List.perm_append_comm.trans (filter_partition_perm l q).symm

theorem makeTrunk_split (E : Env) (roots : List Tree) :
    (makeTrunk E roots ++ droppedOrphans E roots).Perm roots := by
  unfold makeTrunk droppedOrphans
  exact (filter_not_append_filter_perm (sortById roots)
    (fun t => t.isLeaf && !E.indepOrphan t)).trans (sortById_perm roots)

theorem dropped_mem_iff (E : Env) (roots : List Tree) (t : Tree) :
    t ∈ droppedOrphans E roots ↔ t ∈ roots ∧ t.kids = [] ∧ E.indepOrphan t = false := by
  unfold droppedOrphans
  rw [List.mem_filter, mem_sortById]
  simp [isLeaf, List.isEmpty_iff]

theorem makeTrunk_mem_iff (E : Env) (roots : List Tree) (t : Tree) :
    t ∈ makeTrunk E roots ↔ t ∈ roots ∧ ¬ (t.kids = [] ∧ E.indepOrphan t = false) := by
  unfold makeTrunk
  rw [List.mem_filter, mem_sortById]
  by_cases h : t.kids = [] <;> simp [isLeaf, h]

/-- whatever `_make_trunk` drops is a whole parentless structure without children that fails the
value-less criteria -/
theorem dropped_is_whole_leaf (E : Env) (order : List Nat) :
    ∀ t ∈ droppedOrphans E (run E order),
      t ∈ run E order ∧ t.kids = [] ∧ E.indepOrphan t = false :=
  fun t ht => (dropped_mem_iff E _ t).mp ht

/-! ## 3. assigned pixels -/

/-- pixels of the trunk together with the pixels of the dropped leaves are the processed pixels -/
theorem trunk_dropped_pixels (E : Env) (order : List Nat) :
    (Tree.pixelsL (makeTrunk E (run E order)) ++
      Tree.pixelsL (droppedOrphans E (run E order))).Perm order := by
  rw [← pixelsL_append]
  exact ((pixelsL_perm (makeTrunk_split E (run E order))).trans (run_pixels E order)).trans
    (List.reverse_perm order)

theorem compute_pixels (E : Env) (order : List Nat) :
    Tree.pixelsL (compute E order) = Tree.pixelsL (makeTrunk E (run E order)) :=
  pixelsL_relabel _

/-- MAIN (C01): a pixel is assigned after `compute` iff it was processed and does not lie in a
parentless leaf dropped by `_make_trunk`. -/
theorem compute_assigned_iff (E : Env) (order : List Nat) (hnd : order.Nodup) (p : Nat) :
    p ∈ Tree.pixelsL (compute E order) ↔
      (p ∈ order ∧ ¬ ∃ t ∈ droppedOrphans E (run E order), p ∈ t.pixels) := by
  rw [compute_pixels, ← mem_pixelsL]
  have hperm := trunk_dropped_pixels E order
  have hnd' := hperm.nodup_iff.mpr hnd
  constructor
  · intro hp
    refine ⟨hperm.subset (List.mem_append_left _ hp), fun hd => ?_⟩
    exact (List.nodup_append.mp hnd').2.2 p hp p hd rfl
  · rintro ⟨hp, hd⟩
    rcases List.mem_append.mp (hperm.symm.subset hp) with h | h
    · exact h
    · exact absurd h hd

/-- every assigned pixel is assigned exactly once -/
theorem compute_pixels_nodup (E : Env) (order : List Nat) (hnd : order.Nodup) :
    (Tree.pixelsL (compute E order)).Nodup := by
  rw [compute_pixels]
  have hnd' := (trunk_dropped_pixels E order).nodup_iff.mpr hnd
  exact (List.nodup_append.mp hnd').1

/-! ## 4. fixed-width arithmetic -/

theorem two_pow_split (bits : Nat) (hb : 0 < bits) :
    (2 : Int) ^ bits = 2 * 2 ^ (bits - 1) ∧ (0 : Int) < 2 ^ (bits - 1) := by
  obtain ⟨k, rfl⟩ : ∃ k, bits = k + 1 := ⟨bits - 1, by omega⟩
  refine ⟨?_, Int.pow_pos (by decide)⟩
  simp only [Nat.add_sub_cancel, Int.pow_succ]
  omega

/-- `wrap` as a function of the half range `M = 2^(bits-1)`, signed case -/
theorem wrap_signed_eq (bits : Nat) (x : Int) (hb : 0 < bits) :
    wrap bits true x =
      if x % (2 * 2 ^ (bits - 1)) ≥ 2 ^ (bits - 1) then x % (2 * 2 ^ (bits - 1)) - 2 * 2 ^ (bits - 1)
      else x % (2 * 2 ^ (bits - 1)) := by
  obtain ⟨h2, hpos⟩ := two_pow_split bits hb
  unfold wrap
  simp only [Bool.true_and, h2]
  have : (2 * (2 : Int) ^ (bits - 1)) / 2 = 2 ^ (bits - 1) := by omega
  rw [this]
  simp

theorem wrap_unsigned_eq (bits : Nat) (x : Int) : wrap bits false x = x % 2 ^ bits := by
  simp [wrap]

/-- signed wrap of a value in `[-M, M)` and of the value just below -/
theorem wrap_signed_cases (M x : Int) (hM : 0 < M) :
    (-M ≤ x → x < M →
      (if x % (2 * M) ≥ M then x % (2 * M) - 2 * M else x % (2 * M)) = x) ∧
    (x = -M - 1 →
      (if x % (2 * M) ≥ M then x % (2 * M) - 2 * M else x % (2 * M)) = M - 1) := by
  constructor
  · intro h1 h2
    by_cases hx : 0 ≤ x
    · have : x % (2 * M) = x := Int.emod_eq_of_lt hx (by omega)
      rw [this]; simp; omega
    · have : x % (2 * M) = x + 2 * M := by
        rw [← Int.add_emod_right x (2 * M)]
        exact Int.emod_eq_of_lt (by omega) (by omega)
      rw [this]; simp; omega
  · intro hx
    have : x % (2 * M) = M - 1 := by
      rw [← Int.add_emod_right x (2 * M)]
      have : x + 2 * M = M - 1 := by omega
      rw [this]
      exact Int.emod_eq_of_lt (by omega) (by omega)
    rw [this]; simp; omega

/-- a representable value is left alone by the register -/
theorem wrap_id (bits : Nat) (signed : Bool) (x : Int) (hb : 0 < bits)
    (h : inRange bits signed x = true) : wrap bits signed x = x := by
  cases signed with
  | false =>
    simp [inRange] at h
    rw [wrap_unsigned_eq]
    exact Int.emod_eq_of_lt h.1 h.2
  | true =>
    simp [inRange] at h
    rw [wrap_signed_eq bits x hb]
    exact (wrap_signed_cases (2 ^ (bits - 1)) x (two_pow_split bits hb).2).1 h.1 h.2

theorem defaultMinNew_lt (m : Int) : defaultMinNew m < m := by
  unfold defaultMinNew; omega

/-- witness: uint8 minimum 0 ↦ 255 -/
theorem defaultMinOld_wraps_uint8 : ¬ (defaultMinOld 8 false 0 < 0) := by decide

/-- witness: int8 minimum -128 ↦ 127 -/
theorem defaultMinOld_wraps_int8 : ¬ (defaultMinOld 8 true (-128) < -128) := by decide

/-- The old default threshold was below the minimum exactly when `min - 1` was representable, i.e.
it was wrong exactly at the minimum of the dtype. -/
theorem defaultMinOld_ok_iff (bits : Nat) (signed : Bool) (m : Int) (hb : 0 < bits)
    (hm : inRange bits signed m = true) :
    defaultMinOld bits signed m < m ↔ inRange bits signed (m - 1) = true := by
  constructor
  · intro hlt
    unfold defaultMinOld at hlt
    cases signed with
    | false =>
      simp [inRange] at hm ⊢
      refine ⟨?_, by omega⟩
      by_cases h0 : m = 0
      · exfalso
        subst h0
        rw [wrap_unsigned_eq] at hlt
        have : (0 : Int) ≤ (0 - 1) % 2 ^ bits :=
          Int.emod_nonneg _ (Int.ne_of_gt (Int.pow_pos (by decide)))
        omega
      · omega
    | true =>
      simp [inRange] at hm ⊢
      refine ⟨?_, by omega⟩
      by_cases h0 : m = -2 ^ (bits - 1)
      · exfalso
        rw [wrap_signed_eq bits _ hb,
          (wrap_signed_cases (2 ^ (bits - 1)) (m - 1) (two_pow_split bits hb).2).2 (by omega)] at hlt
        have := (two_pow_split bits hb).2
        omega
      · omega
  · intro h
    unfold defaultMinOld
    rw [wrap_id bits signed (m - 1) hb h]
    omega

/-- witness of the old defect: `100 - (-120) = 220` wraps to `-36` in int8 -/
theorem signifOld_wraps_int8 : signifOld 8 true 100 (-120) 150 ≠ signifNew 100 (-120) 150 := by
  decide

/-- the old significance test was right whenever the difference was representable -/
theorem signifOld_eq_of_inRange (bits : Nat) (signed : Bool) (vmax v d : Int) (hb : 0 < bits)
    (h : inRange bits signed (vmax - v) = true) :
    signifOld bits signed vmax v d = signifNew vmax v d := by
  unfold signifOld signifNew
  rw [wrap_id bits signed (vmax - v) hb h]

/-- the repaired significance test does not depend on any width -/
theorem signifNew_width_free (vmax v d : Int) : signifNew vmax v d = true ↔ d ≤ vmax - v := by
  simp [signifNew]

end P9
