import ADProofs.RunInd
/-!
# Contour semantics of the pixel loop (C03 for every structure, C05)

* `run_all_connected` — every structure (with its substructures) is connected;
* `run_frozen_contour` — every processed pixel adjacent from outside to a structure that has a
  parent is no brighter than every pixel of that structure;
* `run_parent_is_brightest_outside` — the creating pixel of a branch touches each child from
  outside and is no brighter than the child's pixels;
* `run_kids_significant`, `run_leaf_kids_significant` — C05: children passed the significance
  test at the creating pixel of their parent;
* `run_branch_own_le_sub` — without pruning no own pixel of a branch is brighter than a pixel of
  its substructures;
* `makeTrunk_leaves_pass`, `makeTrunk_dropped` — `_make_trunk` keeps exactly the roots that are
  branches or independent leaves.

Core Lean only.
-/
open Tree

namespace ContourP

/-! ## listings -/

theorem mem_preL {x : Tree} {l : List Tree} : x ∈ preL l ↔ ∃ t ∈ l, x ∈ pre t := by
  induction l with
  | nil => simp [preL]
  | cons t ts ih => simp [preL, ih]

theorem mem_pre {x t : Tree} : x ∈ pre t ↔ x = t ∨ x ∈ preL t.kids := by
  rw [pre_eq]; simp

theorem self_mem_pre (t : Tree) : t ∈ pre t := mem_pre.mpr (Or.inl rfl)

theorem root_mem_preL {t : Tree} {l : List Tree} (h : t ∈ l) : t ∈ preL l :=
  mem_preL.mpr ⟨t, h, self_mem_pre t⟩

theorem kids_pre_mem_preL {x t : Tree} {l : List Tree} (h : t ∈ l) (hx : x ∈ preL t.kids) :
    x ∈ preL l :=
  mem_preL.mpr ⟨t, h, mem_pre.mpr (Or.inr hx)⟩

mutual
/-- the pixels of a substructure are pixels of the structure -/
theorem pixels_sub_pre : ∀ (t s : Tree), s ∈ pre t → ∀ x ∈ s.pixels, x ∈ t.pixels
  | node i o ks, s, h, x, hx => by
    simp only [pre, List.mem_cons] at h
    rcases h with rfl | h
    · exact hx
    · simp only [pixels, List.mem_append]; exact Or.inr (pixels_sub_preL ks s h x hx)
theorem pixels_sub_preL : ∀ (ts : List Tree) (s : Tree), s ∈ preL ts → ∀ x ∈ s.pixels, x ∈ pixelsL ts
  | [], s, h, x, hx => by simp [preL] at h
  | t :: ts, s, h, x, hx => by
    simp only [preL, List.mem_append] at h
    simp only [pixelsL, List.mem_append]
    rcases h with h | h
    · exact Or.inl (pixels_sub_pre t s h x hx)
    · exact Or.inr (pixels_sub_preL ts s h x hx)
end

theorem kids_pixels_sub (t : Tree) {x : Nat} (h : x ∈ pixelsL t.kids) : x ∈ t.pixels := by
  rw [pixels_eq]; exact List.mem_append.mpr (Or.inr h)

theorem own_pixels_sub (t : Tree) {x : Nat} (h : x ∈ t.own) : x ∈ t.pixels := by
  rw [pixels_eq]; exact List.mem_append.mpr (Or.inl h)

/-! ## own pixels under `addPixel` / `absorb` -/

theorem own_addPixel (t : Tree) (p : Nat) : (t.addPixel p).own = t.own ++ [p] := by
  cases t; simp [addPixel, Tree.own]

theorem own_absorb (t m : Tree) : (t.absorb m).own = t.own ++ m.own := by
  cases t; simp [absorb, Tree.own]

theorem mem_own_foldl_absorb (ms : List Tree) (t : Tree) (a : Nat) :
    a ∈ (ms.foldl Tree.absorb t).own ↔ a ∈ t.own ∨ ∃ m ∈ ms, a ∈ m.own := by
  induction ms generalizing t with
  | nil => simp
  | cons m ms ih =>
    simp only [List.foldl_cons, ih, own_absorb, List.mem_append, List.mem_cons, exists_eq_or_imp,
      or_assoc]

/-! ## `maxL` / `vmax` -/

theorem foldl_max_ge_init (xs : List Int) (x : Int) : x ≤ xs.foldl max x := by
  induction xs generalizing x with
  | nil => simp
  | cons y ys ih => simp only [List.foldl_cons]; exact Int.le_trans (Int.le_max_left x y) (ih _)

theorem foldl_max_ge_mem (xs : List Int) (x : Int) : ∀ y ∈ xs, y ≤ xs.foldl max x := by
  induction xs generalizing x with
  | nil => intro y hy; simp at hy
  | cons z zs ih =>
    intro y hy
    simp only [List.foldl_cons]
    rcases List.mem_cons.mp hy with rfl | hy
    · exact Int.le_trans (Int.le_max_right x y) (foldl_max_ge_init zs _)
    · exact ih _ y hy

theorem foldl_max_mem (xs : List Int) (x : Int) : xs.foldl max x = x ∨ xs.foldl max x ∈ xs := by
  induction xs generalizing x with
  | nil => simp
  | cons z zs ih =>
    simp only [List.foldl_cons, List.mem_cons]
    rcases ih (max x z) with h | h
    · rw [h]
      rcases Int.le_total x z with hxz | hxz
      · right; left; exact Int.max_eq_right hxz
      · left; exact Int.max_eq_left hxz
    · right; right; exact h

/-- `maxL` bounds every element -/
theorem le_maxL (d : Int) (l : List Int) : ∀ y ∈ l, y ≤ maxL d l := by
  cases l with
  | nil => intro y hy; simp at hy
  | cons x xs =>
    intro y hy
    simp only [maxL]
    rcases List.mem_cons.mp hy with rfl | hy
    · exact foldl_max_ge_init xs _
    · exact foldl_max_ge_mem xs x y hy

/-- `maxL` of a non-empty list is attained -/
theorem maxL_mem (d : Int) (l : List Int) (h : l ≠ []) : maxL d l ∈ l := by
  cases l with
  | nil => exact absurd rfl h
  | cons x xs =>
    simp only [maxL, List.mem_cons]
    exact foldl_max_mem xs x

/-- `vmax` is at least the value of every own pixel -/
theorem le_vmax (val : Nat → Int) (t : Tree) : ∀ a ∈ t.own, val a ≤ t.vmax val := by
  intro a ha
  exact le_maxL 0 _ _ (List.mem_map.mpr ⟨a, ha, rfl⟩)

/-- `vmax` is attained on a structure with own pixels -/
theorem vmax_attained (val : Nat → Int) (t : Tree) (h : t.own ≠ []) : ∃ a ∈ t.own, t.vmax val = val a := by
  have := maxL_mem 0 (t.own.map val) (by simpa using h)
  obtain ⟨a, ha, hv⟩ := List.mem_map.mp this
  exact ⟨a, ha, hv.symm⟩

/-! ## shape of the structure that receives the pixel -/

/-- Either the receiving structure is one of the adjacent roots with more own pixels (same
identifier, same children), or it is new: created by `p`, its children are exactly the adjacent
roots that passed the significance test.  In both cases the own pixels added are `p` and own
pixels of absorbed (insignificant) adjacent roots. -/
theorem joinAdj_shape (E : Env) (p : Nat) (adj : List Tree) :
    (∃ t ∈ adj, (joinAdj E p adj).id = t.id ∧ (joinAdj E p adj).kids = t.kids ∧
        ∀ a ∈ (joinAdj E p adj).own, a ∈ t.own ∨ a = p ∨ ∃ m ∈ adj, insig E p m = true ∧ a ∈ m.own) ∨
    ((joinAdj E p adj).id = p ∧ (joinAdj E p adj).kids = adj.filter (fun t => !insig E p t) ∧
        ∀ a ∈ (joinAdj E p adj).own, a = p ∨ ∃ m ∈ adj, insig E p m = true ∧ a ∈ m.own) := by
  unfold joinAdj
  match adj with
  | [] => right; simp [Tree.id, Tree.kids, Tree.own]
  | [t] =>
    left
    refine ⟨t, by simp, id_addPixel t p, kids_addPixel t p, ?_⟩
    intro a ha
    rw [own_addPixel] at ha
    rcases List.mem_append.mp ha with h | h
    · exact Or.inl h
    · exact Or.inr (Or.inl (by simpa using h))
  | a :: b :: adj' =>
    simp only
    generalize hA : (a :: b :: adj') = A
    have hmA : ∀ m ∈ A.filter (insig E p), m ∈ A ∧ insig E p m = true := by
      intro m hm; exact List.mem_filter.mp hm
    have hkA : ∀ m ∈ A.filter (fun t => !insig E p t), m ∈ A := by
      intro m hm; exact (List.mem_filter.mp hm).1
    generalize hmrg : A.filter (insig E p) = mrg at *
    generalize hkeep : A.filter (fun t => !insig E p t) = keep at *
    match keep, hkeep with
    | [], hkeep =>
      rcases hr : mrg.reverse with _ | ⟨bt, others⟩
      · right; simp [Tree.id, Tree.kids, Tree.own]
      · simp only
        have hm' : mrg = others.reverse ++ [bt] := by
          have := congrArg List.reverse hr; simpa using this
        left
        refine ⟨bt, (hmA bt (by rw [hm']; simp)).1, ?_, ?_, ?_⟩
        · rw [id_foldl_absorb, id_addPixel]
        · rw [kids_foldl_absorb, kids_addPixel]
        · intro x hx
          rw [mem_own_foldl_absorb, own_addPixel] at hx
          rcases hx with hx | ⟨m, hm, hx⟩
          · rcases List.mem_append.mp hx with h | h
            · exact Or.inl h
            · exact Or.inr (Or.inl (by simpa using h))
          · have := hmA m (by rw [hm']; exact List.mem_append.mpr (Or.inl hm))
            exact Or.inr (Or.inr ⟨m, this.1, this.2, hx⟩)
    | [t], _ =>
      simp only
      left
      refine ⟨t, hkA t (by simp), ?_, ?_, ?_⟩
      · rw [id_foldl_absorb, id_addPixel]
      · rw [kids_foldl_absorb, kids_addPixel]
      · intro x hx
        rw [mem_own_foldl_absorb, own_addPixel] at hx
        rcases hx with hx | ⟨m, hm, hx⟩
        · rcases List.mem_append.mp hx with h | h
          · exact Or.inl h
          · exact Or.inr (Or.inl (by simpa using h))
        · have := hmA m hm
          exact Or.inr (Or.inr ⟨m, this.1, this.2, hx⟩)
    | k1 :: k2 :: ks, _ =>
      simp only
      right
      refine ⟨?_, ?_, ?_⟩
      · rw [id_foldl_absorb]; rfl
      · rw [kids_foldl_absorb]; rfl
      · intro x hx
        rw [mem_own_foldl_absorb] at hx
        rcases hx with hx | ⟨m, hm, hx⟩
        · left; simpa [Tree.own] using hx
        · have := hmA m hm
          exact Or.inr ⟨m, this.1, this.2, hx⟩

/-- what a node that is not simply an old node looks like after `step E roots p` -/
def NewNode (E : Env) (roots : List Tree) (p : Nat) (P : Tree) : Prop :=
  (∃ t ∈ roots, touches E p t = true ∧ P.id = t.id ∧ P.kids = t.kids ∧
      ∀ a ∈ P.own, a ∈ t.own ∨ a = p ∨ ∃ m ∈ roots, insig E p m = true ∧ a ∈ m.own) ∨
  (P.id = p ∧ (∀ L ∈ P.kids, L ∈ roots ∧ touches E p L = true ∧ insig E p L = false) ∧
      ∀ a ∈ P.own, a = p ∨ ∃ m ∈ roots, insig E p m = true ∧ a ∈ m.own)

theorem mem_adjOf {E : Env} {roots : List Tree} {p : Nat} {t : Tree} :
    t ∈ sortById (roots.filter (touches E p)) ↔ t ∈ roots ∧ touches E p t = true := by
  rw [mem_sortById, List.mem_filter]

theorem joinAdj_newNode (E : Env) (roots : List Tree) (p : Nat) :
    NewNode E roots p (joinAdj E p (sortById (roots.filter (touches E p)))) := by
  rcases joinAdj_shape E p (sortById (roots.filter (touches E p))) with
    ⟨t, ht, hid, hk, ho⟩ | ⟨hid, hk, ho⟩
  · left
    have ht' := mem_adjOf.mp ht
    refine ⟨t, ht'.1, ht'.2, hid, hk, ?_⟩
    intro a ha
    rcases ho a ha with h | h | ⟨m, hm, hi, hx⟩
    · exact Or.inl h
    · exact Or.inr (Or.inl h)
    · exact Or.inr (Or.inr ⟨m, (mem_adjOf.mp hm).1, hi, hx⟩)
  · right
    refine ⟨hid, ?_, ?_⟩
    · intro L hL
      rw [hk] at hL
      have h := List.mem_filter.mp hL
      have h1 := mem_adjOf.mp h.1
      exact ⟨h1.1, h1.2, by simpa using h.2⟩
    · intro a ha
      rcases ho a ha with h | ⟨m, hm, hi, hx⟩
      · exact Or.inl h
      · exact Or.inr ⟨m, (mem_adjOf.mp hm).1, hi, hx⟩

/-- roots after a step: an old root, or the receiving structure -/
theorem step_root_cases (E : Env) (roots : List Tree) (p : Nat) (r : Tree) (hr : r ∈ step E roots p) :
    r ∈ roots ∨ (r = joinAdj E p (sortById (roots.filter (touches E p))) ∧ NewNode E roots p r) := by
  unfold step at hr
  rcases List.mem_append.mp hr with h | h
  · exact Or.inl (List.mem_filter.mp h).1
  · simp only [List.mem_singleton] at h
    subst h
    exact Or.inr ⟨rfl, joinAdj_newNode E roots p⟩

/-- proper substructures of a new node are old nodes -/
theorem newNode_kids_old {E : Env} {roots : List Tree} {p : Nat} {P : Tree} (h : NewNode E roots p P) :
    ∀ x ∈ preL P.kids, x ∈ preL roots := by
  intro x hx
  rcases h with ⟨t, ht, _, _, hk, _⟩ | ⟨_, hk, _⟩
  · rw [hk] at hx; exact kids_pre_mem_preL ht hx
  · obtain ⟨L, hL, hxL⟩ := mem_preL.mp hx
    exact mem_preL.mpr ⟨L, (hk L hL).1, hxL⟩

/-- structures after a step: an old structure, or the receiving structure -/
theorem step_node_cases (E : Env) (roots : List Tree) (p : Nat) (P : Tree)
    (hP : P ∈ preL (step E roots p)) :
    P ∈ preL roots ∨ (P = joinAdj E p (sortById (roots.filter (touches E p))) ∧ NewNode E roots p P) := by
  obtain ⟨r, hr, hPr⟩ := mem_preL.mp hP
  rcases step_root_cases E roots p r hr with h | ⟨he, hn⟩
  · exact Or.inl (mem_preL.mpr ⟨r, h, hPr⟩)
  · rcases mem_pre.mp hPr with rfl | hk
    · exact Or.inr ⟨he, hn⟩
    · exact Or.inl (newNode_kids_old hn P hk)

/-! ## 1. every structure is connected -/

theorem step_all_conn (E : Env) (hsym : ∀ x y, y ∈ E.nbrs x → x ∈ E.nbrs y) (roots : List Tree) (p : Nat)
    (h : ∀ t ∈ preL roots, PixConn E t) : ∀ t ∈ preL (step E roots p), PixConn E t := by
  intro t ht
  rcases step_node_cases E roots p t ht with ht | ⟨rfl, _⟩
  · exact h t ht
  · apply joinAdj_conn E hsym
    · intro u hu; exact h u (root_mem_preL (mem_adjOf.mp hu).1)
    · intro u hu; exact (mem_adjOf.mp hu).2

/-- **C03 (every structure is connected).** After processing any sequence of pixels with any
criteria, every structure — parentless or not — together with its substructures is connected
under the adjacency. -/
theorem run_all_connected (E : Env) (hsym : ∀ x y, y ∈ E.nbrs x → x ∈ E.nbrs y) (order : List Nat) :
    ∀ t ∈ Tree.preL (run E order), PixConn E t :=
  run_induction E (fun roots => ∀ t ∈ preL roots, PixConn E t) (by simp [preL])
    (fun roots p h => step_all_conn E hsym roots p h) order

/-! ## processed pixels = pixels of the current roots -/

theorem step_mem_pixels (E : Env) (roots : List Tree) (p : Nat) (pre : List Nat)
    (h : ∀ x, x ∈ pixelsL roots ↔ x ∈ pre) :
    ∀ x, x ∈ pixelsL (step E roots p) ↔ x ∈ pre ++ [p] := by
  intro x
  rw [(step_pixels E roots p).mem_iff, List.mem_cons, h x, List.mem_append, List.mem_singleton]
  exact Or.comm

theorem sorted_snoc {val : Nat → Int} {pre : List Nat} {p : Nat}
    (h : (pre ++ [p]).Pairwise (fun a b => val b ≤ val a)) :
    pre.Pairwise (fun a b => val b ≤ val a) ∧ ∀ x ∈ pre, val p ≤ val x := by
  rw [List.pairwise_append] at h
  exact ⟨h.1, fun x hx => h.2.2 x hx p (by simp)⟩

theorem nodup_snoc {pre : List Nat} {p : Nat} (h : (pre ++ [p]).Nodup) : pre.Nodup ∧ p ∉ pre := by
  rw [List.nodup_append] at h
  exact ⟨h.1, fun hp => h.2.2 p hp p (by simp) rfl⟩

/-! ## 2. frozen contour -/

/-- the contour statement relative to a processed prefix -/
def ContourInv (E : Env) (pre : List Nat) (roots : List Tree) : Prop :=
  ∀ r ∈ roots, ∀ s ∈ preL r.kids, ∀ a ∈ s.pixels, ∀ b ∈ E.nbrs a, b ∈ pre → b ∉ s.pixels →
    ∀ x ∈ s.pixels, E.val b ≤ E.val x

theorem step_contour (E : Env) (roots : List Tree) (p : Nat) (pre : List Nat)
    (hpix : ∀ x, x ∈ pixelsL roots ↔ x ∈ pre) (hclosed : Closed E roots)
    (hle : ∀ x ∈ pre, E.val p ≤ E.val x)
    (h : ContourInv E pre roots) : ContourInv E (pre ++ [p]) (step E roots p) := by
  -- pixels of any old structure have been processed
  have hproc : ∀ s ∈ preL roots, ∀ x ∈ s.pixels, x ∈ pre := by
    intro s hs x hx; exact (hpix x).mp (pixels_sub_preL roots s hs x hx)
  -- the statement for an old non-root structure, relative to the longer prefix
  have hold : ∀ r ∈ roots, ∀ s ∈ preL r.kids, ∀ a ∈ s.pixels, ∀ b ∈ E.nbrs a, b ∈ pre ++ [p] →
      b ∉ s.pixels → ∀ x ∈ s.pixels, E.val b ≤ E.val x := by
    intro r hr s hs a ha b hb hbp hbs x hx
    rcases List.mem_append.mp hbp with hbp | hbp
    · exact h r hr s hs a ha b hb hbp hbs x hx
    · simp only [List.mem_singleton] at hbp; subst hbp
      exact hle x (hproc s (kids_pre_mem_preL hr hs) x hx)
  intro r hr s hs a ha b hb hbp hbs x hx
  rcases step_root_cases E roots p r hr with hr | ⟨_, hn⟩
  · exact hold r hr s hs a ha b hb hbp hbs x hx
  · rcases hn with ⟨t, ht, _, _, hk, _⟩ | ⟨_, hk, _⟩
    · rw [hk] at hs
      exact hold t ht s hs a ha b hb hbp hbs x hx
    · obtain ⟨L, hL, hsL⟩ := mem_preL.mp hs
      have hLr := (hk L hL).1
      rcases mem_pre.mp hsL with rfl | hsk
      · -- `s` is a whole root that receives its parent now
        rcases List.mem_append.mp hbp with hbp | hbp
        · exfalso
          obtain ⟨u, hu, hbu⟩ := mem_pixelsL.mp ((hpix b).mpr hbp)
          have hne : s ≠ u := by intro e; subst e; exact hbs hbu
          exact hclosed s hLr u hu hne a ha b hbu hb
        · simp only [List.mem_singleton] at hbp; subst hbp
          exact hle x (hproc s (root_mem_preL hLr) x hx)
      · exact hold L hLr s hsk a ha b hb hbp hbs x hx

/-- **C03 (frozen contour).** For every structure `s` that has a parent: every processed pixel
adjacent to the region of `s` from outside is no brighter than every pixel of the region. -/
theorem run_frozen_contour (E : Env) (hsym : ∀ x y, y ∈ E.nbrs x → x ∈ E.nbrs y) (order : List Nat)
    (hnd : order.Nodup) (hsorted : order.Pairwise (fun a b => E.val b ≤ E.val a)) :
    ∀ r ∈ run E order, ∀ s ∈ Tree.preL r.kids,
      ∀ a ∈ s.pixels, ∀ b ∈ E.nbrs a, b ∈ order → b ∉ s.pixels → ∀ x ∈ s.pixels, E.val b ≤ E.val x := by
  have _ := hnd
  have key := run_induction_prefix E
    (fun pre roots => (∀ x, x ∈ pixelsL roots ↔ x ∈ pre) ∧ Closed E roots ∧
      (pre.Pairwise (fun a b => E.val b ≤ E.val a) → ContourInv E pre roots))
    ⟨by simp [pixelsL], by intro t ht; simp at ht, by intro _ r hr; simp at hr⟩
    (by
      intro pre roots p ⟨hpix, hcl, hc⟩
      refine ⟨step_mem_pixels E roots p pre hpix, step_closed E hsym roots p hcl, ?_⟩
      intro hs
      have hs' := sorted_snoc hs
      exact step_contour E roots p pre hpix hcl hs'.2 (hc hs'.1))
    order
  exact key.2.2 hsorted

/-! ## 3. the creating pixel of the parent -/

def ParentInv (E : Env) (pre : List Nat) (roots : List Tree) : Prop :=
  ∀ P ∈ preL roots, ∀ L ∈ P.kids,
    (∃ a ∈ L.pixels, P.id ∈ E.nbrs a ∨ a ∈ E.nbrs P.id) ∧ P.id ∉ L.pixels ∧ P.id ∈ pre ∧
    (∀ x ∈ L.pixels, E.val P.id ≤ E.val x)

theorem step_parent (E : Env) (roots : List Tree) (p : Nat) (pre : List Nat)
    (hpix : ∀ x, x ∈ pixelsL roots ↔ x ∈ pre) (hp : p ∉ pre)
    (hle : ∀ x ∈ pre, E.val p ≤ E.val x)
    (h : ParentInv E pre roots) : ParentInv E (pre ++ [p]) (step E roots p) := by
  have hold : ∀ P ∈ preL roots, ∀ L ∈ P.kids,
      (∃ a ∈ L.pixels, P.id ∈ E.nbrs a ∨ a ∈ E.nbrs P.id) ∧ P.id ∉ L.pixels ∧ P.id ∈ pre ++ [p] ∧
      (∀ x ∈ L.pixels, E.val P.id ≤ E.val x) := by
    intro P hP L hL
    obtain ⟨h1, h2, h3, h4⟩ := h P hP L hL
    exact ⟨h1, h2, List.mem_append.mpr (Or.inl h3), h4⟩
  intro P hP L hL
  rcases step_node_cases E roots p P hP with hP | ⟨_, hn⟩
  · exact hold P hP L hL
  · rcases hn with ⟨t, ht, _, hid, hk, _⟩ | ⟨hid, hk, _⟩
    · rw [hk] at hL; rw [hid]
      have := hold t (root_mem_preL ht) L hL
      exact this
    · obtain ⟨hLr, hLt, _⟩ := hk L hL
      have hLpre : ∀ x ∈ L.pixels, x ∈ pre := fun x hx => (hpix x).mp (mem_pixelsL.mpr ⟨L, hLr, hx⟩)
      rw [hid]
      obtain ⟨q, hq1, hq2⟩ := (touches_iff E p L).mp hLt
      refine ⟨⟨q, hq1, Or.inr hq2⟩, ?_, by simp, ?_⟩
      · intro hpL; exact hp (hLpre p hpL)
      · intro x hx; exact hle x (hLpre x hx)

/-- **C03 (the parent's creating pixel).** The identifier of a branch is its creating pixel; it is
processed, adjacent to each child's region, outside that region and no brighter than any of the
child's pixels.  With `run_frozen_contour` it is the brightest outside neighbour of the child.
(Symmetry of the adjacency is not needed for this statement.) -/
theorem run_parent_is_brightest_outside (E : Env) (hsym : ∀ x y, y ∈ E.nbrs x → x ∈ E.nbrs y)
    (order : List Nat) (hnd : order.Nodup) (hsorted : order.Pairwise (fun a b => E.val b ≤ E.val a)) :
    ∀ P ∈ Tree.preL (run E order), ∀ L ∈ P.kids,
      (∃ a ∈ L.pixels, P.id ∈ E.nbrs a ∨ a ∈ E.nbrs P.id) ∧ P.id ∉ L.pixels ∧ P.id ∈ order ∧
      (∀ x ∈ L.pixels, E.val P.id ≤ E.val x) := by
  have _ := hsym
  have key := run_induction_prefix E
    (fun pre roots => (∀ x, x ∈ pixelsL roots ↔ x ∈ pre) ∧
      (pre.Nodup → pre.Pairwise (fun a b => E.val b ≤ E.val a) → ParentInv E pre roots))
    ⟨by simp [pixelsL], by intro _ _ P hP; simp [preL] at hP⟩
    (by
      intro pre roots p ⟨hpix, hc⟩
      refine ⟨step_mem_pixels E roots p pre hpix, ?_⟩
      intro hn hs
      have hs' := sorted_snoc hs
      have hn' := nodup_snoc hn
      exact step_parent E roots p pre hpix hn'.2 hs'.2 (hc hn'.1 hs'.1))
    order
  exact key.2 hnd hsorted

/-! ## 4. C05: children passed the significance test -/

theorem step_kids_significant (E : Env) (roots : List Tree) (p : Nat)
    (h : ∀ P ∈ preL roots, ∀ L ∈ P.kids, insig E P.id L = false) :
    ∀ P ∈ preL (step E roots p), ∀ L ∈ P.kids, insig E P.id L = false := by
  intro P hP L hL
  rcases step_node_cases E roots p P hP with hP | ⟨_, hn⟩
  · exact h P hP L hL
  · rcases hn with ⟨t, ht, _, hid, hk, _⟩ | ⟨hid, hk, _⟩
    · rw [hk] at hL; rw [hid]
      exact h t (root_mem_preL ht) L hL
    · rw [hid]; exact (hk L hL).2.2

/-- **C05.** Every child of every branch passed the significance test at the creating pixel of
its parent (children are frozen once they have a parent, so the test was made on exactly this
tree). -/
theorem run_kids_significant (E : Env) (order : List Nat) :
    ∀ P ∈ Tree.preL (run E order), ∀ L ∈ P.kids, insig E P.id L = false :=
  run_induction E (fun roots => ∀ P ∈ preL roots, ∀ L ∈ P.kids, insig E P.id L = false)
    (by intro P hP; simp [preL] at hP)
    (fun roots p h => step_kids_significant E roots p h) order

/-- **C05, unfolded.** A leaf that is a child of a branch is not a plateau at the level of the
creating pixel of its parent, and satisfied the merge-time criteria there. -/
theorem run_leaf_kids_significant (E : Env) (order : List Nat) :
    ∀ P ∈ Tree.preL (run E order), ∀ L ∈ P.kids, L.kids = [] →
      L.vmax E.val ≠ E.val P.id ∧ E.indep L P.id (E.val P.id) = true := by
  intro P hP L hL hleaf
  have h := run_kids_significant E order P hP L hL
  simp only [insig, isLeaf, hleaf, List.isEmpty_nil, Bool.true_and, Bool.or_eq_false_iff,
    beq_eq_false_iff_ne, Bool.not_eq_false'] at h
  exact h

/-! ## 5. no pruning: own pixels of a branch are below its substructures -/

theorem step_own_le_sub (E : Env) (hnoprune : ∀ t p v, E.indep t p v = true)
    (roots : List Tree) (p : Nat) (pre : List Nat)
    (hpix : ∀ x, x ∈ pixelsL roots ↔ x ∈ pre)
    (hle : ∀ x ∈ pre, E.val p ≤ E.val x)
    (h : ∀ t ∈ preL roots, ∀ a ∈ t.own, ∀ b ∈ pixelsL t.kids, E.val a ≤ E.val b) :
    ∀ t ∈ preL (step E roots p), ∀ a ∈ t.own, ∀ b ∈ pixelsL t.kids, E.val a ≤ E.val b := by
  -- own pixels of an absorbed root are at the level of `p`
  have habs : ∀ m, insig E p m = true → ∀ a ∈ m.own, E.val a ≤ E.val p := by
    intro m hm a ha
    have hv : m.vmax E.val = E.val p := by
      simp only [insig, hnoprune, Bool.not_true, Bool.or_false, Bool.and_eq_true, beq_iff_eq] at hm
      exact hm.2
    exact hv ▸ le_vmax E.val m a ha
  intro P hP a ha b hb
  rcases step_node_cases E roots p P hP with hP | ⟨_, hn⟩
  · exact h P hP a ha b hb
  · rcases hn with ⟨t, ht, _, _, hk, ho⟩ | ⟨_, hk, ho⟩
    · rw [hk] at hb
      have hbpre : b ∈ pre := (hpix b).mp (mem_pixelsL.mpr ⟨t, ht, kids_pixels_sub t hb⟩)
      rcases ho a ha with h1 | rfl | ⟨m, _, hi, hx⟩
      · exact h t (root_mem_preL ht) a h1 b hb
      · exact hle b hbpre
      · exact Int.le_trans (habs m hi a hx) (hle b hbpre)
    · obtain ⟨L, hL, hbL⟩ := mem_pixelsL.mp hb
      have hbpre : b ∈ pre := (hpix b).mp (mem_pixelsL.mpr ⟨L, (hk L hL).1, hbL⟩)
      rcases ho a ha with rfl | ⟨m, _, hi, hx⟩
      · exact hle b hbpre
      · exact Int.le_trans (habs m hi a hx) (hle b hbpre)

/-- **No pruning ⇒ branches lie below their substructures.** If the criteria accept everything,
no own pixel of a structure is brighter than any pixel of its substructures (the leaves absorbed
at a meeting point are plateaus at the level of the joining pixel). -/
theorem run_branch_own_le_sub (E : Env) (order : List Nat) (hnd : order.Nodup)
    (hsorted : order.Pairwise (fun a b => E.val b ≤ E.val a))
    (hnoprune : ∀ t p v, E.indep t p v = true) :
    ∀ t ∈ Tree.preL (run E order), ∀ a ∈ t.own, ∀ b ∈ Tree.pixelsL t.kids, E.val a ≤ E.val b := by
  have _ := hnd
  have key := run_induction_prefix E
    (fun pre roots => (∀ x, x ∈ pixelsL roots ↔ x ∈ pre) ∧
      (pre.Pairwise (fun a b => E.val b ≤ E.val a) →
        ∀ t ∈ preL roots, ∀ a ∈ t.own, ∀ b ∈ pixelsL t.kids, E.val a ≤ E.val b))
    ⟨by simp [pixelsL], by intro _ t ht; simp [preL] at ht⟩
    (by
      intro pre roots p ⟨hpix, hc⟩
      refine ⟨step_mem_pixels E roots p pre hpix, ?_⟩
      intro hs
      have hs' := sorted_snoc hs
      exact step_own_le_sub E hnoprune roots p pre hpix hs'.2 (hc hs'.1))
    order
  exact key.2 hsorted

/-! ## 6. `_make_trunk` -/

theorem mem_makeTrunk {E : Env} {roots : List Tree} {t : Tree} :
    t ∈ makeTrunk E roots ↔ t ∈ roots ∧ (t.isLeaf && !E.indepOrphan t) = false := by
  unfold makeTrunk
  rw [List.mem_filter, mem_sortById]
  cases (t.isLeaf && !E.indepOrphan t) <;> simp

/-- every leaf kept by `_make_trunk` satisfies the value-less criteria -/
theorem makeTrunk_leaves_pass (E : Env) (roots : List Tree) :
    ∀ t ∈ makeTrunk E roots, t.kids = [] → E.indepOrphan t = true := by
  intro t ht hk
  have h := (mem_makeTrunk.mp ht).2
  simpa [isLeaf, hk] using h

/-- `_make_trunk` drops only parentless leaves that fail the value-less criteria -/
theorem makeTrunk_dropped (E : Env) (roots : List Tree) :
    ∀ t ∈ roots, t ∉ makeTrunk E roots → (t.kids = [] ∧ E.indepOrphan t = false) := by
  intro t ht hn
  have h : ¬ (t.isLeaf && !E.indepOrphan t) = false := fun h => hn (mem_makeTrunk.mpr ⟨ht, h⟩)
  simpa [isLeaf] using h

end ContourP
