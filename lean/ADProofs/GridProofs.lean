import ADModel

/-!
# ADProofs.GridProofs — the grid adjacency (`Grid.nbrs`) is symmetric

* `ravel` / `unravel` are mutually inverse on the grid (`ravel_unravel`, `unravel_ravel`,
  `unravel_inRange`, `ravel_lt`);
* one axis: `axisNbrs_mem`, `axisNbrs_symm`;
* coordinates: `nbrsC_mem`, `nbrsC_symm`;
* flat indices: `grid_nbrs_symm`;
* a cyclic shift along a periodic axis is an automorphism of the adjacency: `shift_adj`.
-/

/-- coordinates `c` are in range for `shape` -/
def InRange (shape c : List Nat) : Prop :=
  c.length = shape.length ∧ ∀ i, i < shape.length → c.getD i 0 < shape.getD i 0

namespace GridProofs

/-! ## products -/

theorem foldl_mul (l : List Nat) (a : Nat) :
    l.foldl (· * ·) a = a * l.foldl (· * ·) 1 := by
  induction l generalizing a with
  | nil => simp
  | cons x xs ih =>
    simp only [List.foldl_cons]
    rw [ih (a * x), ih (1 * x), Nat.one_mul, Nat.mul_assoc]

theorem size_nil : Grid.size [] = 1 := rfl

theorem size_cons (n : Nat) (rest : List Nat) :
    Grid.size (n :: rest) = n * Grid.size rest := by
  unfold Grid.size
  simp only [List.foldl_cons]
  rw [foldl_mul, Nat.one_mul]

theorem unravel_cons (n : Nat) (rest : List Nat) (p : Nat) :
    Grid.unravel (n :: rest) p
      = (p / Grid.size rest) :: Grid.unravel rest (p % Grid.size rest) := rfl

theorem ravel_cons (n : Nat) (rest : List Nat) (x : Nat) (cs : List Nat) :
    Grid.ravel (n :: rest) (x :: cs) = x * Grid.size rest + Grid.ravel rest cs := rfl

/-! ## `InRange` -/

theorem inRange_nil_left {c : List Nat} : InRange [] c ↔ c = [] := by
  unfold InRange
  constructor
  · rintro ⟨h, -⟩
    exact List.eq_nil_of_length_eq_zero h
  · rintro rfl
    exact ⟨rfl, fun i hi => absurd hi (Nat.not_lt_zero _)⟩

theorem inRange_cons {n x : Nat} {s c : List Nat} :
    InRange (n :: s) (x :: c) ↔ x < n ∧ InRange s c := by
  unfold InRange
  constructor
  · rintro ⟨hl, h⟩
    refine ⟨?_, ?_, ?_⟩
    · simpa using h 0 (by simp)
    · simpa using hl
    · intro i hi
      simpa using h (i + 1) (by simpa using hi)
  · rintro ⟨hx, hl, h⟩
    refine ⟨by simpa using hl, ?_⟩
    intro i hi
    cases i with
    | zero => simpa using hx
    | succ i => simpa using h i (by simpa using hi)

theorem not_inRange_cons_nil {n : Nat} {s : List Nat} : ¬ InRange (n :: s) [] := by
  rintro ⟨h, -⟩
  simp at h

theorem InRange.length_eq {shape c : List Nat} (h : InRange shape c) :
    c.length = shape.length := h.1

end GridProofs

open GridProofs

/-! ## 1. ravel / unravel -/

theorem unravel_inRange (shape : List Nat) (p : Nat) (hp : p < Grid.size shape) :
    InRange shape (Grid.unravel shape p) := by
  induction shape generalizing p with
  | nil => exact inRange_nil_left.mpr rfl
  | cons n rest ih =>
    rw [size_cons] at hp
    rw [unravel_cons, inRange_cons]
    have hS : 0 < Grid.size rest := by
      rcases Nat.eq_zero_or_pos (Grid.size rest) with h | h
      · rw [h, Nat.mul_zero] at hp; exact absurd hp (Nat.not_lt_zero _)
      · exact h
    refine ⟨?_, ih _ (Nat.mod_lt _ hS)⟩
    rw [Nat.div_lt_iff_lt_mul hS]
    exact hp

theorem ravel_unravel (shape : List Nat) (p : Nat) (hp : p < Grid.size shape) :
    Grid.ravel shape (Grid.unravel shape p) = p := by
  induction shape generalizing p with
  | nil =>
    rw [size_nil] at hp
    show 0 = p
    omega
  | cons n rest ih =>
    rw [size_cons] at hp
    have hS : 0 < Grid.size rest := by
      rcases Nat.eq_zero_or_pos (Grid.size rest) with h | h
      · rw [h, Nat.mul_zero] at hp; exact absurd hp (Nat.not_lt_zero _)
      · exact h
    rw [unravel_cons, ravel_cons, ih _ (Nat.mod_lt _ hS)]
    exact Nat.div_add_mod' p (Grid.size rest)

theorem ravel_lt (shape c : List Nat) (h : InRange shape c) :
    Grid.ravel shape c < Grid.size shape := by
  induction shape generalizing c with
  | nil =>
    rw [inRange_nil_left.mp h, size_nil]
    exact Nat.zero_lt_one
  | cons n rest ih =>
    cases c with
    | nil => exact absurd h not_inRange_cons_nil
    | cons x cs =>
      obtain ⟨hx, hcs⟩ := inRange_cons.mp h
      have hr := ih cs hcs
      rw [ravel_cons, size_cons]
      have h1 : (x + 1) * Grid.size rest ≤ n * Grid.size rest :=
        Nat.mul_le_mul_right _ hx
      rw [Nat.add_mul, Nat.one_mul] at h1
      omega

theorem unravel_ravel (shape c : List Nat) (h : InRange shape c) :
    Grid.unravel shape (Grid.ravel shape c) = c := by
  induction shape generalizing c with
  | nil => rw [inRange_nil_left.mp h]; rfl
  | cons n rest ih =>
    cases c with
    | nil => exact absurd h not_inRange_cons_nil
    | cons x cs =>
      obtain ⟨hx, hcs⟩ := inRange_cons.mp h
      have hr := ravel_lt rest cs hcs
      have hS : 0 < Grid.size rest := by omega
      rw [ravel_cons, unravel_cons]
      have hdiv : (x * Grid.size rest + Grid.ravel rest cs) / Grid.size rest = x := by
        rw [Nat.mul_comm, Nat.mul_add_div hS, Nat.div_eq_of_lt hr, Nat.add_zero]
      have hmod : (x * Grid.size rest + Grid.ravel rest cs) % Grid.size rest
          = Grid.ravel rest cs := by
        rw [Nat.mul_comm, Nat.mul_add_mod, Nat.mod_eq_of_lt hr]
      rw [hdiv, hmod, ih cs hcs]

/-! ## 2. one axis -/

theorem axisNbrs_mem (n : Nat) (per : Bool) (c d : Nat) (hc : c < n) :
    d ∈ Grid.axisNbrs n per c ↔
      d < n ∧ ((d = c + 1) ∨ (c = d + 1) ∨ (per = true ∧ c + 1 = n ∧ d = 0)
        ∨ (per = true ∧ c = 0 ∧ d + 1 = n)) := by
  unfold Grid.axisNbrs
  cases per <;> simp only [List.mem_append] <;>
    by_cases h1 : c + 1 < n <;> by_cases h2 : 0 < c <;> simp [h1, h2] <;> omega

theorem axisNbrs_symm (n : Nat) (per : Bool) (c d : Nat) (hc : c < n)
    (hd : d ∈ Grid.axisNbrs n per c) : d < n ∧ c ∈ Grid.axisNbrs n per d := by
  rw [axisNbrs_mem n per c d hc] at hd
  obtain ⟨hdn, h⟩ := hd
  refine ⟨hdn, ?_⟩
  rw [axisNbrs_mem n per d c hdn]
  refine ⟨hc, ?_⟩
  rcases h with h | h | ⟨hp, h, h'⟩ | ⟨hp, h, h'⟩
  · exact Or.inr (Or.inl h)
  · exact Or.inl h
  · exact Or.inr (Or.inr (Or.inr ⟨hp, h', h.symm ▸ rfl⟩))
  · exact Or.inr (Or.inr (Or.inl ⟨hp, h', h⟩))

/-! ## 3. coordinates -/

namespace GridProofs

theorem nbrsC_mem_raw (shape periodic c d : List Nat) :
    d ∈ Grid.nbrsC shape periodic c ↔
      ∃ a, a < shape.length ∧ ∃ v,
        v ∈ Grid.axisNbrs (shape.getD a 0) (periodic.contains a) (c.getD a 0) ∧ c.set a v = d := by
  unfold Grid.nbrsC Grid.setAt
  simp only [List.mem_flatMap, List.mem_range, List.mem_map]

theorem getD_set_self (c : List Nat) (a v : Nat) (ha : a < c.length) :
    (c.set a v).getD a 0 = v := by
  simp [List.getD_eq_getElem?_getD, ha]

theorem getD_set_ne (c : List Nat) (a i v : Nat) (h : a ≠ i) :
    (c.set a v).getD i 0 = c.getD i 0 := by
  simp [List.getD_eq_getElem?_getD, List.getElem?_set_ne h]

theorem set_getD_self (c : List Nat) (a : Nat) : c.set a (c.getD a 0) = c := by
  apply List.ext_getElem?
  intro i
  by_cases h : a = i
  · subst h
    by_cases ha : a < c.length
    · simp [List.getD_eq_getElem?_getD, List.getElem?_eq_getElem ha]
    · have : c.length ≤ a := Nat.le_of_not_lt ha
      simp [this]
  · rw [List.getElem?_set_ne h]

theorem inRange_set {shape c : List Nat} {a v : Nat} (hc : InRange shape c)
    (hv : v < shape.getD a 0) : InRange shape (c.set a v) := by
  refine ⟨by rw [List.length_set]; exact hc.1, ?_⟩
  intro i hi
  by_cases h : a = i
  · subst h
    rw [getD_set_self c a v (by rw [hc.1]; exact hi)]
    exact hv
  · rw [getD_set_ne c a i v h]
    exact hc.2 i hi

end GridProofs

theorem nbrsC_symm (shape periodic c d : List Nat) (hc : InRange shape c)
    (hd : d ∈ Grid.nbrsC shape periodic c) :
    InRange shape d ∧ c ∈ Grid.nbrsC shape periodic d := by
  rw [nbrsC_mem_raw] at hd
  obtain ⟨a, ha, v, hv, rfl⟩ := hd
  have hac : a < c.length := by rw [hc.1]; exact ha
  obtain ⟨hvn, hsym⟩ := axisNbrs_symm _ _ _ _ (hc.2 a ha) hv
  refine ⟨inRange_set hc hvn, ?_⟩
  rw [nbrsC_mem_raw]
  refine ⟨a, ha, c.getD a 0, ?_, ?_⟩
  · rw [getD_set_self c a v hac]
    exact hsym
  · rw [List.set_set, set_getD_self]

/-! ## 4. flat indices -/

theorem grid_nbrs_symm (shape periodic : List Nat) (p q : Nat) (hp : p < Grid.size shape)
    (hq : q ∈ Grid.nbrs shape periodic p) :
    q < Grid.size shape ∧ p ∈ Grid.nbrs shape periodic q := by
  unfold Grid.nbrs at hq ⊢
  rw [List.mem_map] at hq
  obtain ⟨d, hd, rfl⟩ := hq
  obtain ⟨hdr, hcd⟩ := nbrsC_symm shape periodic _ d (unravel_inRange shape p hp) hd
  refine ⟨ravel_lt shape d hdr, ?_⟩
  rw [unravel_ravel shape d hdr, List.mem_map]
  exact ⟨_, hcd, ravel_unravel shape p hp⟩

/-! ## 5. characterisation in coordinates -/

theorem nbrsC_mem (shape periodic c d : List Nat) (hc : InRange shape c) :
    d ∈ Grid.nbrsC shape periodic c ↔
      ∃ a, a < shape.length ∧ d = c.set a (d.getD a 0) ∧
        d.getD a 0 ∈ Grid.axisNbrs (shape.getD a 0) (periodic.contains a) (c.getD a 0) := by
  rw [nbrsC_mem_raw]
  constructor
  · rintro ⟨a, ha, v, hv, rfl⟩
    have hac : a < c.length := by rw [hc.1]; exact ha
    refine ⟨a, ha, ?_, ?_⟩
    · rw [getD_set_self c a v hac]
    · rw [getD_set_self c a v hac]; exact hv
  · rintro ⟨a, ha, hd, hv⟩
    exact ⟨a, ha, d.getD a 0, hv, hd.symm⟩

/-! ## 6. cyclic shift along a periodic axis -/

/-- shift coordinate `a` cyclically by `k` -/
def shiftC (shape : List Nat) (a k : Nat) (c : List Nat) : List Nat :=
  c.set a ((c.getD a 0 + k) % shape.getD a 0)

namespace GridProofs

theorem add_mod_ite (n x k : Nat) (hx : x < n) (hk : k < n) :
    (x + k) % n = if x + k < n then x + k else x + k - n := by
  split
  · next h => exact Nat.mod_eq_of_lt h
  · next h =>
    rw [Nat.mod_eq_sub_mod (Nat.le_of_not_lt h)]
    exact Nat.mod_eq_of_lt (by omega)

theorem add_mod_reduce (n x k : Nat) (hx : x < n) : (x + k) % n = (x + k % n) % n := by
  rw [Nat.add_mod, Nat.mod_eq_of_lt hx]

theorem shift_inj (n k x y : Nat) (hx : x < n) (hy : y < n) :
    (x + k) % n = (y + k) % n ↔ x = y := by
  rw [add_mod_reduce n x k hx, add_mod_reduce n y k hy]
  have hk : k % n < n := Nat.mod_lt _ (by omega)
  generalize k % n = k' at hk
  rw [add_mod_ite n x k' hx hk, add_mod_ite n y k' hy hk]
  split <;> split <;> omega

theorem axis_shift (n k x y : Nat) (hx : x < n) (hy : y < n) :
    y ∈ Grid.axisNbrs n true x ↔ (y + k) % n ∈ Grid.axisNbrs n true ((x + k) % n) := by
  have hn : 0 < n := by omega
  rw [axisNbrs_mem n true x y hx, axisNbrs_mem n true _ _ (Nat.mod_lt _ hn)]
  have hy' : (y + k) % n < n := Nat.mod_lt _ hn
  rw [add_mod_reduce n x k hx, add_mod_reduce n y k hy] at *
  have hk : k % n < n := Nat.mod_lt _ hn
  generalize k % n = k' at *
  rw [add_mod_ite n x k' hx hk, add_mod_ite n y k' hy hk] at *
  simp only [true_and]
  split <;> split <;> omega

theorem ext_getD {l₁ l₂ : List Nat} (hl : l₁.length = l₂.length)
    (h : ∀ i, l₁.getD i 0 = l₂.getD i 0) : l₁ = l₂ := by
  apply List.ext_getElem hl
  intro i h1 h2
  simpa [List.getD_eq_getElem?_getD, h1, h2] using h i

/-- pointwise form of `nbrsC_mem` -/
theorem nbrsC_mem_pointwise (shape periodic c d : List Nat) (hc : InRange shape c)
    (hd : InRange shape d) :
    d ∈ Grid.nbrsC shape periodic c ↔
      ∃ b, b < shape.length ∧ (∀ i, i ≠ b → d.getD i 0 = c.getD i 0) ∧
        d.getD b 0 ∈ Grid.axisNbrs (shape.getD b 0) (periodic.contains b) (c.getD b 0) := by
  rw [nbrsC_mem shape periodic c d hc]
  refine exists_congr fun b => and_congr_right fun hb => and_congr_left' ?_
  have hbc : b < c.length := by rw [hc.1]; exact hb
  constructor
  · intro h i hi
    rw [h, getD_set_ne c b i _ (Ne.symm hi)]
  · intro h
    apply ext_getD
    · rw [List.length_set, hd.1, hc.1]
    · intro i
      by_cases hi : b = i
      · subst hi
        rw [getD_set_self c b _ hbc]
      · rw [getD_set_ne c b i _ hi]
        exact h i (Ne.symm hi)

theorem shiftC_of_le (shape : List Nat) (a k : Nat) (c : List Nat) (hc : InRange shape c)
    (ha : shape.length ≤ a) : shiftC shape a k c = c := by
  unfold shiftC
  exact List.set_eq_of_length_le (by rw [hc.1]; exact ha)

theorem shiftC_getD_self (shape : List Nat) (a k : Nat) (c : List Nat) (hc : InRange shape c)
    (ha : a < shape.length) :
    (shiftC shape a k c).getD a 0 = (c.getD a 0 + k) % shape.getD a 0 :=
  getD_set_self c a _ (by rw [hc.1]; exact ha)

theorem shiftC_getD_ne (shape : List Nat) (a k i : Nat) (c : List Nat) (h : a ≠ i) :
    (shiftC shape a k c).getD i 0 = c.getD i 0 :=
  getD_set_ne c a i _ h

theorem shiftC_inRange (shape : List Nat) (a k : Nat) (c : List Nat) (hc : InRange shape c) :
    InRange shape (shiftC shape a k c) := by
  by_cases ha : a < shape.length
  · exact inRange_set hc (Nat.mod_lt _ (by have := hc.2 a ha; omega))
  · rw [shiftC_of_le shape a k c hc (Nat.le_of_not_lt ha)]
    exact hc

end GridProofs

theorem shift_adj (shape periodic : List Nat) (a k : Nat) (ha : periodic.contains a = true)
    (c d : List Nat) (hc : InRange shape c) (hd : InRange shape d) :
    d ∈ Grid.nbrsC shape periodic c ↔
      shiftC shape a k d ∈ Grid.nbrsC shape periodic (shiftC shape a k c) := by
  by_cases hal : a < shape.length
  · have hca := hc.2 a hal
    have hda := hd.2 a hal
    rw [nbrsC_mem_pointwise shape periodic c d hc hd,
      nbrsC_mem_pointwise shape periodic _ _ (shiftC_inRange shape a k c hc)
        (shiftC_inRange shape a k d hd)]
    refine exists_congr fun b => and_congr_right fun hb => and_congr ?_ ?_
    · refine forall_congr' fun i => imp_congr_right fun _ => ?_
      by_cases hi : a = i
      · subst hi
        rw [shiftC_getD_self shape a k c hc hal, shiftC_getD_self shape a k d hd hal]
        exact (shift_inj _ k _ _ hda hca).symm
      · rw [shiftC_getD_ne shape a k i c hi, shiftC_getD_ne shape a k i d hi]
    · by_cases hi : a = b
      · subst hi
        rw [shiftC_getD_self shape a k c hc hal, shiftC_getD_self shape a k d hd hal, ha]
        exact axis_shift _ k _ _ hca hda
      · rw [shiftC_getD_ne shape a k b c hi, shiftC_getD_ne shape a k b d hi]
  · have hle := Nat.le_of_not_lt hal
    rw [shiftC_of_le shape a k c hc hle, shiftC_of_le shape a k d hd hle]
