import ADProofs.ConnInv
/-! induction principles over the pixel loop -/
open Tree

/-- an invariant of `step` holds after the whole loop -/
theorem run_induction (E : Env) (P : List Tree → Prop) (h0 : P [])
    (hstep : ∀ roots p, P roots → P (step E roots p)) (order : List Nat) : P (run E order) := by
  unfold run
  suffices h : ∀ roots, P roots → P (order.foldl (step E) roots) from h [] h0
  induction order with
  | nil => intro r hr; exact hr
  | cons p ps ih => intro r hr; exact ih _ (hstep r p hr)

/-- invariant indexed by the processed prefix: `P pre roots` for `order = pre ++ suf` -/
theorem run_induction_prefix (E : Env) (P : List Nat → List Tree → Prop) (h0 : P [] [])
    (hstep : ∀ pre roots p, P pre roots → P (pre ++ [p]) (step E roots p)) (order : List Nat) :
    P order (run E order) := by
  unfold run
  suffices h : ∀ pre roots, P pre roots → P (pre ++ order) (order.foldl (step E) roots) by
    simpa using h [] [] h0
  induction order with
  | nil => intro pre r hr; simpa using hr
  | cons p ps ih =>
    intro pre r hr
    have := ih (pre ++ [p]) _ (hstep pre r p hr)
    simpa [List.append_assoc] using this

theorem run_append (E : Env) (a b : List Nat) : run E (a ++ b) = b.foldl (step E) (run E a) := by
  simp [run, List.foldl_append]
