import ADModel.Cache
import ADProofs.CacheProofs
/-!
# ADProofs.CacheNpixProofs — two more facts about the cache machine (property C14)

* `descendants_count` : on a well-formed heap the level-by-level enumeration
  `specDesc h.size [i]` of an alive `i` lists alive identifiers only, each exactly once (and not
  `i` itself) — so pixel counts / peak searches that iterate over `descendants` visit every
  descendant once.
* `prune_resets_all` : after `prune` every surviving object has all four caches cleared, except
  for the `_level = 0` seeded on the parentless survivors (the trunk).

All declarations live in namespace `P29c`.
-/

namespace P29c
open Heap

/-! ## C2 : `prune` resets every surviving object's caches -/

/-- what `finishPrune` leaves on an alive object -/
theorem finishF_alive (g : Heap) (o : Obj) (ha : o.id ∈ g.alive) :
    (P17.finishF g o).desc = none ∧ (P17.finishF g o).nw = none ∧ (P17.finishF g o).anc = none ∧
      ((P17.finishF g o).lvl = none ∨
        ((P17.finishF g o).parent = none ∧ (P17.finishF g o).lvl = some 0)) := by
  have hc : g.alive.contains o.id = true := List.contains_iff_mem.2 ha
  unfold P17.finishF
  rw [if_pos hc]
  dsimp only
  split
  · next hp => exact ⟨rfl, rfl, rfl, Or.inr ⟨Option.isNone_iff_eq_none.mp hp, rfl⟩⟩
  · exact ⟨rfl, rfl, rfl, Or.inl rfl⟩

theorem finishPrune_resets_all (g : Heap) :
    ∀ o ∈ g.finishPrune.objs, o.id ∈ g.finishPrune.alive →
      o.desc = none ∧ o.nw = none ∧ o.anc = none ∧
        (o.lvl = none ∨ (o.parent = none ∧ o.lvl = some 0)) := by
  intro o ho ha
  have hobjs : g.finishPrune.objs = g.objs.map (P17.finishF g) := rfl
  have halive : g.finishPrune.alive = g.alive := rfl
  rw [hobjs] at ho
  rw [halive] at ha
  obtain ⟨o0, _, rfl⟩ := List.mem_map.mp ho
  rw [P17.finishF_id] at ha
  exact finishF_alive g o0 ha

/-- C2: after `prune` (any merge list, no hypothesis on the heap) every surviving object has
    `_descendants`, `_newick`, `_ancestor` cleared, and `_level` either cleared or — for the
    parentless survivors, i.e. the new trunk — equal to `0`. -/
theorem prune_resets_all (h : Heap) (ms : List Nat) :
    ∀ o ∈ (h.prune ms).objs, o.id ∈ (h.prune ms).alive →
      o.desc = none ∧ o.nw = none ∧ o.anc = none ∧
        (o.lvl = none ∨ (o.parent = none ∧ o.lvl = some 0)) :=
  finishPrune_resets_all _

/-! ## C1 : the level-by-level enumeration lists each descendant once -/

/-- the children list looked up by `specDesc` -/
def kidsOf (h : Heap) (i : Nat) : List Nat := ((h.get i).map (·.kids)).getD []

theorem specDesc_succ (h : Heap) (n : Nat) (fr : List Nat) :
    h.specDesc (n + 1) fr =
      if (fr.flatMap (kidsOf h)).isEmpty then []
      else fr.flatMap (kidsOf h) ++ h.specDesc n (fr.flatMap (kidsOf h)) := rfl

/-- a child listed by an alive parent: alive, with that parent, one level deeper -/
theorem kid_facts {h : Heap} (w : P17.WF h) {f c d : Nat} (hf : f ∈ h.alive)
    (hc : c ∈ kidsOf h f) (hd : h.specLevel h.size f = some d) :
    c ∈ h.alive ∧ (∃ co, h.get c = some co ∧ co.parent = some f) ∧
      h.specLevel h.size c = some (d + 1) := by
  obtain ⟨o, hg⟩ := w.alive_get f hf
  have hc' : c ∈ o.kids := by simpa [kidsOf, hg] using hc
  obtain ⟨hca, co, hgc, hcp⟩ := w.kids_ok f hf o hg c hc'
  exact ⟨hca, ⟨co, hgc, hcp⟩, P17.specLevel_step w hca hgc hcp hd⟩

theorem kidsOf_nodup {h : Heap} (w : P17.WF h) {f : Nat} (hf : f ∈ h.alive) :
    (kidsOf h f).Nodup := by
  obtain ⟨o, hg⟩ := w.alive_get f hf
  have := w.kids_nodup f hf o hg
  simpa [kidsOf, hg] using this

/-- the children of a duplicate-free alive frontier are duplicate-free -/
theorem children_nodup {h : Heap} (w : P17.WF h) (fr : List Nat) (ha : ∀ x ∈ fr, x ∈ h.alive)
    (hn : fr.Nodup) : (fr.flatMap (kidsOf h)).Nodup := by
  induction fr with
  | nil => simp
  | cons f fr ih =>
    have hfa : f ∈ h.alive := ha f (by simp)
    have hn' := List.nodup_cons.mp hn
    rw [List.flatMap_cons, List.nodup_append]
    refine ⟨kidsOf_nodup w hfa, ih (fun x hx => ha x (by simp [hx])) hn'.2, ?_⟩
    intro a ha1 b hb hab
    subst hab
    obtain ⟨g, hg, hag⟩ := List.mem_flatMap.mp hb
    have hga : g ∈ h.alive := ha g (by simp [hg])
    obtain ⟨lf, hlf⟩ : ∃ l, h.specLevel h.size f = some l := by
      obtain ⟨rk, hr⟩ := w.rank
      obtain ⟨o, ho⟩ := w.alive_get f hfa
      exact P17.specLevel_isSome w hr h.size f hfa (hr f hfa o ho).1
    obtain ⟨lg, hlg⟩ : ∃ l, h.specLevel h.size g = some l := by
      obtain ⟨rk, hr⟩ := w.rank
      obtain ⟨o, ho⟩ := w.alive_get g hga
      exact P17.specLevel_isSome w hr h.size g hga (hr g hga o ho).1
    obtain ⟨_, ⟨co1, hg1, hp1⟩, _⟩ := kid_facts w hfa ha1 hlf
    obtain ⟨_, ⟨co2, hg2, hp2⟩, _⟩ := kid_facts w hga hag hlg
    rw [hg1] at hg2
    cases hg2
    rw [hp1] at hp2
    cases hp2
    exact hn'.1 hg

/-- the invariant of the level-by-level loop: from a duplicate-free alive frontier whose members
    all sit at level `d`, everything enumerated is alive, strictly deeper than `d`, and listed
    once -/
theorem specDesc_inv {h : Heap} (w : P17.WF h) (n : Nat) (fr : List Nat) (d : Nat)
    (ha : ∀ x ∈ fr, x ∈ h.alive) (hn : fr.Nodup)
    (hl : ∀ x ∈ fr, h.specLevel h.size x = some d) :
    (∀ x ∈ h.specDesc n fr, x ∈ h.alive ∧ ∃ l, d < l ∧ h.specLevel h.size x = some l) ∧
      (h.specDesc n fr).Nodup := by
  induction n generalizing fr d with
  | zero => simp [Heap.specDesc]
  | succ n ih =>
    rw [specDesc_succ]
    split
    · simp
    · have hch : ∀ c ∈ fr.flatMap (kidsOf h),
          c ∈ h.alive ∧ h.specLevel h.size c = some (d + 1) := by
        intro c hc
        obtain ⟨f, hf, hcf⟩ := List.mem_flatMap.mp hc
        have := kid_facts w (ha f hf) hcf (hl f hf)
        exact ⟨this.1, this.2.2⟩
      have hcn := children_nodup w fr ha hn
      obtain ⟨ih1, ih2⟩ := ih (fr.flatMap (kidsOf h)) (d + 1) (fun c hc => (hch c hc).1) hcn
        (fun c hc => (hch c hc).2)
      refine ⟨?_, ?_⟩
      · intro x hx
        rcases List.mem_append.mp hx with hx | hx
        · exact ⟨(hch x hx).1, d + 1, by omega, (hch x hx).2⟩
        · obtain ⟨hxa, l, hdl, hxl⟩ := ih1 x hx
          exact ⟨hxa, l, by omega, hxl⟩
      · rw [List.nodup_append]
        refine ⟨hcn, ih2, ?_⟩
        intro a ha1 b hb hab
        subst hab
        obtain ⟨_, l, hdl, hxl⟩ := ih1 a hb
        have := (hch a ha1).2
        rw [this] at hxl
        cases hxl
        omega

/-- C1: on a well-formed heap, every identifier in the descendants enumeration of an alive `i`
    is alive and occurs exactly once. -/
theorem descendants_count (h : Heap) (hwf : P17.WF h) (i : Nat) (hi : i ∈ h.alive) :
    (∀ x ∈ h.specDesc h.size [i], x ∈ h.alive) ∧ (h.specDesc h.size [i]).Nodup := by
  obtain ⟨rk, hr⟩ := hwf.rank
  obtain ⟨o, ho⟩ := hwf.alive_get i hi
  obtain ⟨d, hd⟩ := P17.specLevel_isSome hwf hr h.size i hi (hr i hi o ho).1
  have := specDesc_inv hwf h.size [i] d (by simpa using hi) (by simp) (by simpa using hd)
  exact ⟨fun x hx => (this.1 x hx).1, this.2⟩

/-- a structure is not among its own descendants -/
theorem not_mem_descendants (h : Heap) (hwf : P17.WF h) (i : Nat) (hi : i ∈ h.alive) :
    i ∉ h.specDesc h.size [i] := by
  obtain ⟨rk, hr⟩ := hwf.rank
  obtain ⟨o, ho⟩ := hwf.alive_get i hi
  obtain ⟨d, hd⟩ := P17.specLevel_isSome hwf hr h.size i hi (hr i hi o ho).1
  have := specDesc_inv hwf h.size [i] d (by simpa using hi) (by simp) (by simpa using hd)
  intro hmem
  obtain ⟨_, l, hdl, hl⟩ := this.1 i hmem
  rw [hd] at hl
  cases hl
  omega

/-- the same for the cached query: on a well-formed heap with sound caches, the list returned by
    `Structure.descendants` has alive, pairwise distinct entries -/
theorem descendants_query_count (h : Heap) (hwf : P17.WF h) (hs : P17.Sound h) (i : Nat)
    (hi : i ∈ h.alive) :
    ∃ d, (h.descendants h.size i).2 = some d ∧ (∀ x ∈ d, x ∈ h.alive) ∧ d.Nodup ∧ i ∉ d :=
  ⟨_, (P17.descendants_sound h i hwf hs hi).1, (descendants_count h hwf i hi).1,
    (descendants_count h hwf i hi).2, not_mem_descendants h hwf i hi⟩

end P29c
