import ADProofs.Forest
/-!
# ADProofs.IndexProofs — accessors agree with the data and the label map (C06), label-map
correctness (C01)

* `pixelsL_perm_own`                 : the pixels of a forest are the own lists of its nodes, concatenated
* `labelOf_iff`, `labelOf_none_iff`  : the label map names exactly the unique owner of a pixel
* `binOf_perm`                       : the pixels carrying label `t.id` are `t`'s own pixels
* `tiSubCt_eq`                       : `idx_sub_ct` is the pixel count of the subtree
* `tiIndices_own`, `tiIndices_sub`   : both modes of `TreeIndex.indices`
* `vmax_addPixel`, … , `vmin_spec`   : incremental min / max = derived min / max
* `peakOwn_spec`, `peakSub_spec`     : `get_peak` in both modes

Core Lean only.
-/
open Tree

namespace P8

/-- standing hypotheses for a forest over `n` pixels -/
def WF (f : List Tree) (n : Nat) : Prop :=
  ((Tree.preL f).map Tree.id).Nodup ∧ (Tree.pixelsL f).Nodup ∧ (∀ p ∈ Tree.pixelsL f, p < n)

def AllOwnNonempty (t : Tree) : Prop := ∀ s ∈ Tree.pre t, s.own ≠ []

/-! ## pixels = own lists of the nodes in prefix order -/

theorem pixels_eq_own :
    (∀ t : Tree, t.pixels = (Tree.pre t).flatMap Tree.own) ∧
    (∀ f : List Tree, Tree.pixelsL f = (Tree.preL f).flatMap Tree.own) := by
  apply Tree.forest_induction
  · intro i o ks ih
    simp only [pixels, pre, List.flatMap_cons, Tree.own]; rw [ih]
  · simp [pixelsL, preL]
  · intro t ts iht ihts
    simp only [pixelsL, preL, List.flatMap_append]; rw [iht, ihts]

theorem pixelsL_perm_own (f : List Tree) :
    (Tree.pixelsL f).Perm ((Tree.preL f).flatMap Tree.own) := by
  rw [(pixels_eq_own).2 f]

/-! ## generalities on lists of nodes with disjoint own lists -/

theorem own_sublist_flatMap {L : List Tree} {t : Tree} (ht : t ∈ L) :
    t.own.Sublist (L.flatMap Tree.own) := by
  induction L with
  | nil => simp at ht
  | cons a L ih =>
    rw [List.flatMap_cons]
    rcases List.mem_cons.mp ht with rfl | ht
    · exact List.sublist_append_left _ _
    · exact (ih ht).trans (List.sublist_append_right _ _)

theorem mem_flatMap_own {L : List Tree} {p : Nat} :
    p ∈ L.flatMap Tree.own ↔ ∃ t ∈ L, p ∈ t.own := by
  simp [List.mem_flatMap]

/-- the first node owning `p` is the only one -/
theorem find_owner (L : List Tree) (h : (L.flatMap Tree.own).Nodup) (t : Tree) (ht : t ∈ L)
    (p : Nat) (hp : p ∈ t.own) : L.find? (fun t => t.own.contains p) = some t := by
  induction L with
  | nil => simp at ht
  | cons a L ih =>
    rw [List.flatMap_cons] at h
    have hd := List.nodup_append.mp h
    rcases List.mem_cons.mp ht with rfl | ht
    · simp [hp]
    · have hpa : p ∉ a.own := by
        intro hpa
        exact hd.2.2 p hpa p (mem_flatMap_own.mpr ⟨t, ht, hp⟩) rfl
      simp only [List.find?_cons, List.contains_eq_mem, hpa, decide_false]
      simpa using ih hd.2.1 ht

theorem eq_of_id_eq {L : List Tree} (h : (L.map Tree.id).Nodup) {t s : Tree} (ht : t ∈ L)
    (hs : s ∈ L) (e : t.id = s.id) : t = s := by
  induction L with
  | nil => simp at ht
  | cons a L ih =>
    rw [List.map_cons, List.nodup_cons] at h
    rcases List.mem_cons.mp ht with e1 | ht' <;> rcases List.mem_cons.mp hs with e2 | hs'
    · rw [e1, e2]
    · subst e1; exact absurd (e ▸ List.mem_map_of_mem hs') h.1
    · subst e2; exact absurd (e ▸ List.mem_map_of_mem ht') h.1
    · exact ih h.2 ht' hs'

/-! ## 1. the label map -/

theorem WF.own_nodup {f : List Tree} {n : Nat} (h : WF f n) :
    ((Tree.preL f).flatMap Tree.own).Nodup := by
  rw [← (pixels_eq_own).2 f]; exact h.2.1

theorem labelOf_iff (f : List Tree) (n : Nat) (h : WF f n) (p i : Nat) :
    labelOf f p = some i ↔ ∃ t ∈ Tree.preL f, t.id = i ∧ p ∈ t.own := by
  unfold labelOf nodes
  constructor
  · intro hl
    rcases hf : (Tree.preL f).find? (fun t => t.own.contains p) with _ | t
    · rw [hf] at hl; simp at hl
    · rw [hf] at hl
      refine ⟨t, List.mem_of_find?_eq_some hf, by simpa using hl, ?_⟩
      simpa using List.find?_some hf
  · rintro ⟨t, ht, hid, hp⟩
    rw [find_owner _ h.own_nodup t ht p hp]; simp [hid]

theorem labelOf_none_iff (f : List Tree) (p : Nat) :
    labelOf f p = none ↔ p ∉ Tree.pixelsL f := by
  unfold labelOf nodes
  rw [(pixels_eq_own).2 f, mem_flatMap_own]
  simp [List.find?_eq_none]

/-! ## 2. bins of the label map -/

theorem labelMap_length (f : List Tree) (n : Nat) : (labelMap f n).length = n := by
  simp [labelMap]

theorem labelMap_getD (f : List Tree) (n p : Nat) (hp : p < n) :
    (labelMap f n).getD p none = labelOf f p := by
  simp [labelMap, List.getD_eq_getElem?_getD, hp]

theorem binOf_labelMap (f : List Tree) (n i : Nat) :
    binOf (labelMap f n) i = (List.range n).filter (fun p => labelOf f p == some i) := by
  unfold binOf
  rw [labelMap_length]
  apply List.filter_congr
  intro p hp
  rw [labelMap_getD f n p (List.mem_range.mp hp)]

theorem binOf_perm (f : List Tree) (n : Nat) (h : WF f n) (t : Tree) (ht : t ∈ Tree.preL f) :
    (binOf (labelMap f n) t.id).Perm t.own := by
  rw [binOf_labelMap]
  have hown : t.own.Nodup := (own_sublist_flatMap ht).nodup h.own_nodup
  refine (List.perm_ext_iff_of_nodup (List.nodup_range.filter _) hown).mpr ?_
  intro p
  simp only [List.mem_filter, List.mem_range, beq_iff_eq]
  rw [labelOf_iff f n h]
  constructor
  · rintro ⟨_, s, hs, hid, hp⟩
    rw [← eq_of_id_eq h.1 hs ht hid]; exact hp
  · intro hp
    refine ⟨h.2.2 p ?_, t, ht, rfl, hp⟩
    rw [(pixels_eq_own).2 f]; exact mem_flatMap_own.mpr ⟨t, ht, hp⟩

/-! ## 3. subtree counts -/

theorem tiSubCt_eq_length (lm : List (Option Nat)) :
    (∀ t : Tree, tiSubCt lm t = ((Tree.pre t).flatMap (fun s => binOf lm s.id)).length) ∧
    (∀ f : List Tree, tiSubCtL lm f = ((Tree.preL f).flatMap (fun s => binOf lm s.id)).length) := by
  apply Tree.forest_induction
  · intro i o ks ih
    simp only [tiSubCt, pre, List.flatMap_cons, List.length_append]; rw [ih]; rfl
  · simp [tiSubCtL, preL]
  · intro t ts iht ihts
    simp only [tiSubCtL, preL, List.flatMap_append, List.length_append]; rw [iht, ihts]

theorem flatMap_perm_pointwise {α β} (L : List α) (g k : α → List β)
    (h : ∀ a ∈ L, (g a).Perm (k a)) : (L.flatMap g).Perm (L.flatMap k) := by
  induction L with
  | nil => simp
  | cons a L ih =>
    simp only [List.flatMap_cons]
    exact (h a (by simp)).append (ih (fun b hb => h b (List.mem_cons_of_mem _ hb)))

theorem pre_subset_preL {f : List Tree} {t : Tree} (ht : t ∈ Tree.preL f) :
    ∀ s ∈ Tree.pre t, s ∈ Tree.preL f := by
  obtain ⟨l1, l3, e⟩ := pre_block.2 f t ht
  intro s hs; rw [e]; simp [hs]

/-- the bins of a subtree, concatenated in prefix order, are the pixels of the subtree -/
theorem bins_pre_perm (f : List Tree) (n : Nat) (h : WF f n) (t : Tree) (ht : t ∈ Tree.preL f) :
    ((Tree.pre t).flatMap (fun s => binOf (labelMap f n) s.id)).Perm t.pixels := by
  rw [(pixels_eq_own).1 t]
  exact flatMap_perm_pointwise _ _ _ (fun s hs => binOf_perm f n h s (pre_subset_preL ht s hs))

theorem tiSubCt_eq (f : List Tree) (n : Nat) (h : WF f n) (t : Tree) (ht : t ∈ Tree.preL f) :
    tiSubCt (labelMap f n) t = t.pixels.length := by
  rw [(tiSubCt_eq_length _).1 t]; exact (bins_pre_perm f n h t ht).length_eq

/-! ## 4. `TreeIndex.indices` -/

theorem foldl_add_map_length {α β} (L : List α) (g : α → List β) (a : Nat) :
    (L.map (fun t => (g t).length)).foldl (· + ·) a = a + (L.flatMap g).length := by
  induction L generalizing a with
  | nil => simp
  | cons x L ih => simp only [List.map_cons, List.foldl_cons, List.flatMap_cons, List.length_append]; rw [ih]; omega

/-- the offset of `t` is the total size of the bins before it; the index array from there on starts
with the bins of the subtree of `t` -/
theorem tiIndex_split (lm : List (Option Nat)) (f : List Tree) (hid : ((Tree.preL f).map Tree.id).Nodup)
    (t : Tree) (ht : t ∈ Tree.preL f) :
    ∃ rest, (tiIndex lm f).drop (tiOffset lm f t.id) =
      (Tree.pre t).flatMap (fun s => binOf lm s.id) ++ rest := by
  obtain ⟨l1, l3, e⟩ := pre_block.2 f t ht
  have hne : ∀ s ∈ l1, (s.id != t.id) = true := by
    intro s hs
    rw [e, pre_eq t] at hid
    simp only [List.map_append, List.map_cons, List.append_assoc] at hid
    have := (List.nodup_append.mp hid).2.2 s.id (List.mem_map_of_mem hs) t.id (by simp)
    simpa using this
  have htw : (Tree.preL f).takeWhile (fun s => s.id != t.id) = l1 := by
    rw [e, List.append_assoc, List.takeWhile_append_of_pos hne, pre_eq t]
    simp
  refine ⟨l3.flatMap (fun s => binOf lm s.id), ?_⟩
  unfold tiOffset tiIndex nodes
  rw [htw, foldl_add_map_length l1 (fun s => binOf lm s.id) 0, e]
  simp only [List.flatMap_append, List.append_assoc, Nat.zero_add]
  exact List.drop_left

theorem tiIndices_own (f : List Tree) (n : Nat) (h : WF f n) (t : Tree) (ht : t ∈ Tree.preL f) :
    (tiIndices (labelMap f n) f t false).Perm t.own := by
  obtain ⟨rest, e⟩ := tiIndex_split (labelMap f n) f h.1 t ht
  unfold tiIndices
  simp only [Bool.false_eq_true, if_false]
  rw [e, pre_eq t, List.flatMap_cons, List.append_assoc, List.take_left]
  exact binOf_perm f n h t ht

theorem tiIndices_sub (f : List Tree) (n : Nat) (h : WF f n) (t : Tree) (ht : t ∈ Tree.preL f) :
    (tiIndices (labelMap f n) f t true).Perm t.pixels := by
  obtain ⟨rest, e⟩ := tiIndex_split (labelMap f n) f h.1 t ht
  unfold tiIndices
  simp only [if_true]
  rw [e, (tiSubCt_eq_length _).1 t, List.take_left]
  exact bins_pre_perm f n h t ht

/-! ## 5. incremental min / max = derived min / max -/

theorem foldl_max_assoc (ys : List Int) (a y : Int) :
    ys.foldl max (max a y) = max a (ys.foldl max y) := by
  induction ys generalizing a y with
  | nil => rfl
  | cons z zs ih => simp only [List.foldl_cons]; rw [Int.max_assoc, ih]

theorem foldl_min_assoc (ys : List Int) (a y : Int) :
    ys.foldl min (min a y) = min a (ys.foldl min y) := by
  induction ys generalizing a y with
  | nil => rfl
  | cons z zs ih => simp only [List.foldl_cons]; rw [Int.min_assoc, ih]

theorem maxL_append (d : Int) (a b : List Int) (ha : a ≠ []) (hb : b ≠ []) :
    maxL d (a ++ b) = max (maxL d a) (maxL d b) := by
  match a, ha, b, hb with
  | x :: xs, _, y :: ys, _ =>
    simp only [maxL, List.cons_append, List.foldl_append, List.foldl_cons]
    exact foldl_max_assoc ys _ y

theorem minL_append (d : Int) (a b : List Int) (ha : a ≠ []) (hb : b ≠ []) :
    minL d (a ++ b) = min (minL d a) (minL d b) := by
  match a, ha, b, hb with
  | x :: xs, _, y :: ys, _ =>
    simp only [minL, List.cons_append, List.foldl_append, List.foldl_cons]
    exact foldl_min_assoc ys _ y

theorem vmax_absorb (val : Nat → Int) (t m : Tree) (ht : t.own ≠ []) (hm : m.own ≠ []) :
    (t.absorb m).vmax val = max (t.vmax val) (m.vmax val) := by
  unfold Tree.vmax
  rw [own_absorb, List.map_append, maxL_append _ _ _ (by simpa using ht) (by simpa using hm)]

theorem vmin_absorb (val : Nat → Int) (t m : Tree) (ht : t.own ≠ []) (hm : m.own ≠ []) :
    (t.absorb m).vmin val = min (t.vmin val) (m.vmin val) := by
  unfold Tree.vmin
  rw [own_absorb, List.map_append, minL_append _ _ _ (by simpa using ht) (by simpa using hm)]

theorem vmax_addPixel (val : Nat → Int) (t : Tree) (p : Nat) (h : t.own ≠ []) :
    (t.addPixel p).vmax val = max (t.vmax val) (val p) := by
  unfold Tree.vmax
  rw [own_addPixel, List.map_append, maxL_append _ _ _ (by simpa using h) (by simp)]
  simp [maxL]

theorem vmin_addPixel (val : Nat → Int) (t : Tree) (p : Nat) (h : t.own ≠ []) :
    (t.addPixel p).vmin val = min (t.vmin val) (val p) := by
  unfold Tree.vmin
  rw [own_addPixel, List.map_append, minL_append _ _ _ (by simpa using h) (by simp)]
  simp [minL]

theorem foldl_max_spec (xs : List Int) (x : Int) :
    (x ≤ xs.foldl max x ∧ ∀ y ∈ xs, y ≤ xs.foldl max x) ∧
      (xs.foldl max x = x ∨ xs.foldl max x ∈ xs) := by
  induction xs generalizing x with
  | nil => simp
  | cons z zs ih =>
    simp only [List.foldl_cons, List.mem_cons]
    obtain ⟨⟨h1, h2⟩, h3⟩ := ih (max x z)
    refine ⟨⟨by omega, ?_⟩, ?_⟩
    · rintro y (rfl | hy)
      · omega
      · exact h2 y hy
    · rcases h3 with h3 | h3
      · rw [h3]; rcases Int.le_total x z with hxz | hxz
        · right; left; exact Int.max_eq_right hxz
        · left; exact Int.max_eq_left hxz
      · right; right; exact h3

theorem foldl_min_spec (xs : List Int) (x : Int) :
    (xs.foldl min x ≤ x ∧ ∀ y ∈ xs, xs.foldl min x ≤ y) ∧
      (xs.foldl min x = x ∨ xs.foldl min x ∈ xs) := by
  induction xs generalizing x with
  | nil => simp
  | cons z zs ih =>
    simp only [List.foldl_cons, List.mem_cons]
    obtain ⟨⟨h1, h2⟩, h3⟩ := ih (min x z)
    refine ⟨⟨by omega, ?_⟩, ?_⟩
    · rintro y (rfl | hy)
      · omega
      · exact h2 y hy
    · rcases h3 with h3 | h3
      · rw [h3]; rcases Int.le_total x z with hxz | hxz
        · left; exact Int.min_eq_left hxz
        · right; left; exact Int.min_eq_right hxz
      · right; right; exact h3

theorem maxL_spec (d : Int) (l : List Int) (h : l ≠ []) :
    (∀ y ∈ l, y ≤ maxL d l) ∧ maxL d l ∈ l := by
  match l, h with
  | x :: xs, _ =>
    obtain ⟨⟨h1, h2⟩, h3⟩ := foldl_max_spec xs x
    simp only [maxL, List.mem_cons]
    refine ⟨?_, h3⟩
    rintro y (rfl | hy)
    · exact h1
    · exact h2 y hy

theorem minL_spec (d : Int) (l : List Int) (h : l ≠ []) :
    (∀ y ∈ l, minL d l ≤ y) ∧ minL d l ∈ l := by
  match l, h with
  | x :: xs, _ =>
    obtain ⟨⟨h1, h2⟩, h3⟩ := foldl_min_spec xs x
    simp only [minL, List.mem_cons]
    refine ⟨?_, h3⟩
    rintro y (rfl | hy)
    · exact h1
    · exact h2 y hy

theorem vmax_spec (val : Nat → Int) (t : Tree) (h : t.own ≠ []) :
    (∀ p ∈ t.own, val p ≤ t.vmax val) ∧ (∃ p ∈ t.own, val p = t.vmax val) := by
  obtain ⟨h1, h2⟩ := maxL_spec 0 (t.own.map val) (by simpa using h)
  refine ⟨fun p hp => h1 _ (List.mem_map_of_mem hp), ?_⟩
  obtain ⟨p, hp, e⟩ := List.mem_map.mp h2
  exact ⟨p, hp, e⟩

theorem vmin_spec (val : Nat → Int) (t : Tree) (h : t.own ≠ []) :
    (∀ p ∈ t.own, t.vmin val ≤ val p) ∧ (∃ p ∈ t.own, val p = t.vmin val) := by
  obtain ⟨h1, h2⟩ := minL_spec 0 (t.own.map val) (by simpa using h)
  refine ⟨fun p hp => h1 _ (List.mem_map_of_mem hp), ?_⟩
  obtain ⟨p, hp, e⟩ := List.mem_map.mp h2
  exact ⟨p, hp, e⟩

/-! ## 6. peaks -/

theorem peakOwn_spec (val : Nat → Int) (own : List Nat) (h : own ≠ []) :
    (peakOwn val own).1 ∈ own ∧ val (peakOwn val own).1 = (peakOwn val own).2 ∧
      ∀ p ∈ own, val p ≤ (peakOwn val own).2 := by
  obtain ⟨h1, h2⟩ := maxL_spec 0 (own.map val) (by simpa using h)
  obtain ⟨q, hq, e⟩ := List.mem_map.mp h2
  simp only [peakOwn]
  rcases hf : own.find? (fun p => val p == maxL 0 (own.map val)) with _ | r
  · have := List.find?_eq_none.mp hf q hq
    simp [e] at this
  · simp only [Option.getD_some]
    refine ⟨List.mem_of_find?_eq_some hf, by simpa using List.find?_some hf, ?_⟩
    exact fun p hp => h1 _ (List.mem_map_of_mem hp)

theorem foldl_firstMax_spec {α} (key : α → Int) (xs : List α) (x : α) :
    let r := xs.foldl (fun b y => if key y > key b then y else b) x
    (r = x ∨ r ∈ xs) ∧ key x ≤ key r ∧ ∀ y ∈ xs, key y ≤ key r := by
  induction xs generalizing x with
  | nil => simp
  | cons z zs ih =>
    simp only [List.foldl_cons, List.mem_cons]
    obtain ⟨h1, h2, h3⟩ := ih (if key z > key x then z else x)
    by_cases hc : key z > key x
    · simp only [hc, if_true] at h1 h2 h3 ⊢
      refine ⟨?_, by omega, ?_⟩
      · rcases h1 with h1 | h1
        · right; left; exact h1
        · right; right; exact h1
      · rintro y (rfl | hy)
        · exact h2
        · exact h3 y hy
    · simp only [hc, if_false] at h1 h2 h3 ⊢
      refine ⟨?_, h2, ?_⟩
      · rcases h1 with h1 | h1
        · left; exact h1
        · right; right; exact h1
      · rintro y (rfl | hy)
        · omega
        · exact h3 y hy

theorem firstMaxBy_spec {α} (key : α → Int) (l : List α) (c : α) (h : firstMaxBy key l = some c) :
    c ∈ l ∧ ∀ y ∈ l, key y ≤ key c := by
  match l, h with
  | x :: xs, h =>
    simp only [firstMaxBy, Option.some.injEq] at h
    obtain ⟨h1, h2, h3⟩ := foldl_firstMax_spec key xs x
    simp only [h] at h1 h2 h3
    refine ⟨?_, ?_⟩
    · rcases h1 with h1 | h1
      · simp [h1]
      · exact List.mem_cons_of_mem _ h1
    · intro y hy
      rcases List.mem_cons.mp hy with rfl | hy
      · exact h2
      · exact h3 y hy

theorem peakSubL_eq_map (val : Nat → Int) (ks : List Tree) :
    peakSubL val ks = ks.map (peakSub val) := by
  induction ks with
  | nil => simp [peakSubL]
  | cons k ks ih => simp [peakSubL, ih]

theorem peakSub_spec_aux (val : Nat → Int) :
    (∀ t : Tree, AllOwnNonempty t →
      (peakSub val t).1 ∈ t.pixels ∧ val (peakSub val t).1 = (peakSub val t).2 ∧
        ∀ p ∈ t.pixels, val p ≤ (peakSub val t).2) ∧
    (∀ ks : List Tree, (∀ k ∈ ks, AllOwnNonempty k) → ∀ k ∈ ks,
      (peakSub val k).1 ∈ k.pixels ∧ val (peakSub val k).1 = (peakSub val k).2 ∧
        ∀ p ∈ k.pixels, val p ≤ (peakSub val k).2) := by
  apply Tree.forest_induction
  · intro i o ks ih hne
    have ho : o ≠ [] := hne (node i o ks) (by simp [pre])
    have hks : ∀ k ∈ ks, AllOwnNonempty k := by
      intro k hk s hs
      apply hne s
      simp only [pre]
      exact List.mem_cons_of_mem _ (mem_preL.mpr ⟨k, hk, hs⟩)
    have ih := ih hks
    obtain ⟨o1, o2, o3⟩ := peakOwn_spec val o ho
    simp only [peakSub, pixels]
    rcases hf : firstMaxBy (fun (pr : Nat × Int) => pr.2) (peakSubL val ks) with _ | c
    · have : ks = [] := by
        cases ks with
        | nil => rfl
        | cons k ks => simp [peakSubL, firstMaxBy] at hf
      subst this
      simp only [pixelsL, List.append_nil]
      exact ⟨o1, o2, o3⟩
    · obtain ⟨c1, c2⟩ := firstMaxBy_spec _ _ _ hf
      rw [peakSubL_eq_map] at c1 c2
      obtain ⟨k, hk, rfl⟩ := List.mem_map.mp c1
      obtain ⟨k1, k2, k3⟩ := ih k hk
      have hall : ∀ p ∈ pixelsL ks, val p ≤ (peakSub val k).2 := by
        intro p hp
        obtain ⟨k', hk', hp'⟩ := mem_pixelsL.mp hp
        exact Int.le_trans ((ih k' hk').2.2 p hp') (c2 _ (List.mem_map_of_mem hk'))
      simp only
      split
      · rename_i hgt
        refine ⟨List.mem_append_left _ o1, o2, ?_⟩
        intro p hp
        rcases List.mem_append.mp hp with hp | hp
        · exact o3 p hp
        · have := hall p hp; omega
      · rename_i hgt
        refine ⟨List.mem_append_right _ (mem_pixelsL.mpr ⟨k, hk, k1⟩), k2, ?_⟩
        intro p hp
        rcases List.mem_append.mp hp with hp | hp
        · have := o3 p hp; omega
        · exact hall p hp
  · intro _ k hk; simp at hk
  · intro t ts iht ihts hne k hk
    rcases List.mem_cons.mp hk with rfl | hk
    · exact iht (hne _ (by simp))
    · exact ihts (fun k hk => hne k (List.mem_cons_of_mem _ hk)) k hk

theorem peakSub_spec (val : Nat → Int) (t : Tree) (h : AllOwnNonempty t) :
    (peakSub val t).1 ∈ t.pixels ∧ val (peakSub val t).1 = (peakSub val t).2 ∧
      ∀ p ∈ t.pixels, val p ≤ (peakSub val t).2 :=
  (peakSub_spec_aux val).1 t h

end P8
