import ADProofs.Forest
import ADProofs.Contour
/-!
# ADProofs.SimProofs — equivariance of the pixel loop (C16, C17)

Two environments `E`, `E'` and a renaming `σ` of pixels.  Run 1 processes `order` in `E`, run 2
processes `order.map σ` in `E'`.  If adjacency among ordered pixels corresponds, the value map is
order preserving and the significance decisions on corresponding leaves agree, the two forests
are *similar*: same regions and same parent relation, up to identifiers and list orders
(`Sim`, `SimL`).

* `Sim`, `SimL`              : similarity of trees / forests (identifiers and list orders ignored)
* `simL_iff`                 : `SimL σ l l' ↔ ∃ m, F2 (Sim σ) l m ∧ m.Perm l'`
* `touches_sim`, `vmax_test_sim`, `insig_sim`, `joinAdj_sim`, `step_sim` : one step
* `run_sim`                  : MAIN
* `sim_regions`, `sim_parent`, `sim_parent_conv`, `sim_counts` : what similarity means
* `hindep_builtin_affine`, `hindep_builtin_rename` : the hypothesis on significance decisions
  holds for the built-in criteria under `v ↦ a*v+b` (`a > 0`) resp. under pure renaming.

Core Lean only.
-/
open Tree

namespace P10

/-! ## similarity -/

mutual
/-- `Sim σ t t'`: `t'` is `t` with pixels renamed by `σ`, up to identifiers, the order of own
pixels and the order of children. -/
inductive Sim (σ : Nat → Nat) : Tree → Tree → Prop
  | mk {i i' o o' ks ks'} : o'.Perm (o.map σ) → SimL σ ks ks' → Sim σ (.node i o ks) (.node i' o' ks')
/-- forests similar up to reordering -/
inductive SimL (σ : Nat → Nat) : List Tree → List Tree → Prop
  | nil : SimL σ [] []
  | cons {t t' ts ts' ts''} : Sim σ t t' → SimL σ ts ts' → ts''.Perm (t' :: ts') → SimL σ (t :: ts) ts''
end

/-! ## lists related element-wise up to a permutation -/

/-- element-wise relation of two lists (`List.Forall₂` of Batteries/Mathlib) -/
inductive F2 {α β : Type} (R : α → β → Prop) : List α → List β → Prop
  | nil : F2 R [] []
  | cons {a b l₁ l₂} : R a b → F2 R l₁ l₂ → F2 R (a :: l₁) (b :: l₂)

/-- `PR R l l'`: `l'` is a permutation of a list related to `l` element by element -/
def PR {α β : Type} (R : α → β → Prop) (l : List α) (l' : List β) : Prop :=
  ∃ m, F2 R l m ∧ m.Perm l'

section PR
variable {α β : Type} {R : α → β → Prop}

theorem forall₂_length {l : List α} {m : List β} (h : F2 R l m) : l.length = m.length := by
  induction h with
  | nil => rfl
  | cons _ _ ih => simp [ih]

theorem forall₂_append {a b : List α} {a' b' : List β} (h1 : F2 R a a')
    (h2 : F2 R b b') : F2 R (a ++ b) (a' ++ b') := by
  induction h1 with
  | nil => exact h2
  | cons h _ ih => exact .cons h ih

theorem forall₂_filter {f : α → Bool} {g : β → Bool} {l : List α} {m : List β}
    (h : F2 R l m) (hfg : ∀ x ∈ l, ∀ y, R x y → f x = g y) :
    F2 R (l.filter f) (m.filter g) := by
  induction h with
  | nil => exact .nil
  | @cons x y xs ys hxy _ ih =>
    have e := hfg x (by simp) y hxy
    have ih' := ih (fun x hx y hy => hfg x (List.mem_cons_of_mem _ hx) y hy)
    cases hg : g y with
    | true => rw [List.filter_cons_of_pos (by simp [e, hg]), List.filter_cons_of_pos (by simp [hg])]; exact .cons hxy ih'
    | false => rw [List.filter_cons_of_neg (by simp [e, hg]), List.filter_cons_of_neg (by simp [hg])]; exact ih'

theorem forall₂_mem_left {l : List α} {m : List β} (h : F2 R l m) :
    ∀ x ∈ l, ∃ y ∈ m, R x y := by
  induction h with
  | nil => intro x hx; simp at hx
  | cons hxy _ ih =>
    intro x hx
    rcases List.mem_cons.mp hx with rfl | hx
    · exact ⟨_, by simp, hxy⟩
    · obtain ⟨y, hy, hr⟩ := ih x hx; exact ⟨y, List.mem_cons_of_mem _ hy, hr⟩

theorem forall₂_mem_right {l : List α} {m : List β} (h : F2 R l m) :
    ∀ y ∈ m, ∃ x ∈ l, R x y := by
  induction h with
  | nil => intro x hx; simp at hx
  | cons hxy _ ih =>
    intro y hy
    rcases List.mem_cons.mp hy with rfl | hy
    · exact ⟨_, by simp, hxy⟩
    · obtain ⟨x, hx, hr⟩ := ih y hy; exact ⟨x, List.mem_cons_of_mem _ hx, hr⟩

/-- a permutation on the left of `Forall₂` can be moved to the right -/
theorem perm_forall₂ {l l2 : List α} (hp : l.Perm l2) :
    ∀ {m : List β}, F2 R l m → ∃ m2, F2 R l2 m2 ∧ m.Perm m2 := by
  induction hp with
  | nil => intro m h; exact ⟨m, h, List.Perm.refl _⟩
  | cons x _ ih =>
    intro m h
    cases h with
    | cons hxy hrest =>
      obtain ⟨m2, h2, hp2⟩ := ih hrest
      exact ⟨_ :: m2, .cons hxy h2, hp2.cons _⟩
  | swap x y l =>
    intro m h
    cases h with
    | cons hy h' =>
      cases h' with
      | cons hx hrest => exact ⟨_, .cons hx (.cons hy hrest), List.Perm.swap _ _ _⟩
  | trans _ _ ih1 ih2 =>
    intro m h
    obtain ⟨m2, h2, hp2⟩ := ih1 h
    obtain ⟨m3, h3, hp3⟩ := ih2 h2
    exact ⟨m3, h3, hp2.trans hp3⟩

theorem PR.nil : PR R [] [] := ⟨[], .nil, List.Perm.refl _⟩

theorem PR.length_eq {l : List α} {l' : List β} (h : PR R l l') : l.length = l'.length := by
  obtain ⟨m, h1, h2⟩ := h
  rw [forall₂_length h1, h2.length_eq]

theorem PR.perm_right {l : List α} {l' l'' : List β} (h : PR R l l') (hp : l'.Perm l'') : PR R l l'' := by
  obtain ⟨m, h1, h2⟩ := h
  exact ⟨m, h1, h2.trans hp⟩

theorem PR.perm_left {l l2 : List α} {l' : List β} (h : PR R l l') (hp : l.Perm l2) : PR R l2 l' := by
  obtain ⟨m, h1, h2⟩ := h
  obtain ⟨m2, h3, h4⟩ := perm_forall₂ hp h1
  exact ⟨m2, h3, h4.symm.trans h2⟩

theorem PR.append {a b : List α} {a' b' : List β} (h1 : PR R a a') (h2 : PR R b b') :
    PR R (a ++ b) (a' ++ b') := by
  obtain ⟨m1, f1, p1⟩ := h1
  obtain ⟨m2, f2, p2⟩ := h2
  exact ⟨m1 ++ m2, forall₂_append f1 f2, p1.append p2⟩

theorem PR.single {x : α} {y : β} (h : R x y) : PR R [x] [y] := ⟨[y], .cons h .nil, List.Perm.refl _⟩

theorem PR.filter {f : α → Bool} {g : β → Bool} {l : List α} {l' : List β} (h : PR R l l')
    (hfg : ∀ x ∈ l, ∀ y, R x y → f x = g y) : PR R (l.filter f) (l'.filter g) := by
  obtain ⟨m, h1, h2⟩ := h
  exact ⟨m.filter g, forall₂_filter h1 hfg, h2.filter g⟩

theorem PR.mem_left {l : List α} {l' : List β} (h : PR R l l') : ∀ x ∈ l, ∃ y ∈ l', R x y := by
  obtain ⟨m, h1, h2⟩ := h
  intro x hx
  obtain ⟨y, hy, hr⟩ := forall₂_mem_left h1 x hx
  exact ⟨y, h2.subset hy, hr⟩

theorem PR.mem_right {l : List α} {l' : List β} (h : PR R l l') : ∀ y ∈ l', ∃ x ∈ l, R x y := by
  obtain ⟨m, h1, h2⟩ := h
  intro y hy
  exact forall₂_mem_right h1 y (h2.symm.subset hy)

theorem PR.nil_left {l' : List β} (h : PR R [] l') : l' = [] := by
  have := h.length_eq; simpa using this.symm

theorem PR.single_left {x : α} {l' : List β} (h : PR R [x] l') : ∃ y, l' = [y] ∧ R x y := by
  obtain ⟨m, h1, h2⟩ := h
  cases h1 with
  | cons hxy hrest =>
    cases hrest
    exact ⟨_, (List.singleton_perm.mp h2).symm ▸ rfl, hxy⟩

end PR

/-! ## `SimL` is `PR (Sim σ)` -/

section SimBasics
variable {σ : Nat → Nat}

theorem simL_iff {l l' : List Tree} : SimL σ l l' ↔ PR (Sim σ) l l' := by
  constructor
  · intro h
    induction l generalizing l' with
    | nil => cases h; exact PR.nil
    | cons t ts ih =>
      cases h with
      | cons h1 h2 h3 =>
        obtain ⟨m, f, pm⟩ := ih h2
        exact ⟨_ :: m, .cons h1 f, (pm.cons _).trans h3.symm⟩
  · rintro ⟨m, f, pm⟩
    induction f generalizing l' with
    | nil => rw [List.nil_perm.mp pm]; exact .nil
    | cons h _ ih => exact .cons h (ih (List.Perm.refl _)) pm.symm

theorem SimL.perm_right {l l' l'' : List Tree} (h : SimL σ l l') (hp : l'.Perm l'') : SimL σ l l'' :=
  simL_iff.mpr ((simL_iff.mp h).perm_right hp)

theorem SimL.perm_left {l l2 l' : List Tree} (h : SimL σ l l') (hp : l.Perm l2) : SimL σ l2 l' :=
  simL_iff.mpr ((simL_iff.mp h).perm_left hp)

theorem SimL.append {a b a' b' : List Tree} (h1 : SimL σ a a') (h2 : SimL σ b b') :
    SimL σ (a ++ b) (a' ++ b') :=
  simL_iff.mpr ((simL_iff.mp h1).append (simL_iff.mp h2))

theorem SimL.single {t t' : Tree} (h : Sim σ t t') : SimL σ [t] [t'] := simL_iff.mpr (PR.single h)

theorem SimL.filter {f g : Tree → Bool} {l l' : List Tree} (h : SimL σ l l')
    (hfg : ∀ x ∈ l, ∀ y, Sim σ x y → f x = g y) : SimL σ (l.filter f) (l'.filter g) :=
  simL_iff.mpr ((simL_iff.mp h).filter hfg)

theorem SimL.length_eq {l l' : List Tree} (h : SimL σ l l') : l.length = l'.length :=
  (simL_iff.mp h).length_eq

theorem SimL.mem_left {l l' : List Tree} (h : SimL σ l l') : ∀ x ∈ l, ∃ y ∈ l', Sim σ x y :=
  (simL_iff.mp h).mem_left

theorem SimL.mem_right {l l' : List Tree} (h : SimL σ l l') : ∀ y ∈ l', ∃ x ∈ l, Sim σ x y :=
  (simL_iff.mp h).mem_right

theorem SimL.nil_left {l' : List Tree} (h : SimL σ [] l') : l' = [] := (simL_iff.mp h).nil_left

theorem SimL.single_left {t : Tree} {l' : List Tree} (h : SimL σ [t] l') : ∃ t', l' = [t'] ∧ Sim σ t t' :=
  (simL_iff.mp h).single_left

theorem SimL.nil_iff {l l' : List Tree} (h : SimL σ l l') : l = [] ↔ l' = [] := by
  have := h.length_eq
  rw [← List.length_eq_zero_iff, ← List.length_eq_zero_iff, this]

theorem Sim.own {t t' : Tree} (h : Sim σ t t') : t'.own.Perm (t.own.map σ) := by
  cases h with | mk h1 _ => exact h1

theorem Sim.kids {t t' : Tree} (h : Sim σ t t') : SimL σ t.kids t'.kids := by
  cases h with | mk _ h2 => exact h2

theorem Sim.of {t t' : Tree} (h1 : t'.own.Perm (t.own.map σ)) (h2 : SimL σ t.kids t'.kids) : Sim σ t t' := by
  cases t; cases t'; exact .mk h1 h2

theorem Sim.isLeaf {t t' : Tree} (h : Sim σ t t') : t.isLeaf = t'.isLeaf := by
  have := h.kids.nil_iff
  rw [Bool.eq_iff_iff]
  simpa only [Tree.isLeaf, List.isEmpty_iff] using this

theorem Sim.own_ne_nil {t t' : Tree} (h : Sim σ t t') (hne : t.own ≠ []) : t'.own ≠ [] := by
  intro e
  have := h.own.length_eq
  rw [e] at this
  simp at this
  exact hne (List.length_eq_zero_iff.mp this.symm)

/-- regions correspond -/
theorem sim_pixels :
    (∀ t t' : Tree, Sim σ t t' → t'.pixels.Perm (t.pixels.map σ)) ∧
    (∀ l l' : List Tree, SimL σ l l' → (pixelsL l').Perm ((pixelsL l).map σ)) := by
  apply Tree.forest_induction
  · intro i o ks ih t' h
    cases h with
    | mk h1 h2 =>
      simp only [pixels, List.map_append]
      exact h1.append (ih _ h2)
  · intro l' h; cases h; simp [pixelsL]
  · intro t ts iht ihts l' h
    cases h with
    | cons h1 h2 h3 =>
      refine (pixelsL_perm h3).trans ?_
      simp only [pixelsL, List.map_append]
      exact (iht _ h1).append (ihts _ h2)

theorem Sim.pixels {t t' : Tree} (h : Sim σ t t') : t'.pixels.Perm (t.pixels.map σ) := sim_pixels.1 t t' h

theorem SimL.pixelsL {l l' : List Tree} (h : SimL σ l l') : (pixelsL l').Perm ((pixelsL l).map σ) :=
  sim_pixels.2 l l' h

/-- own pixels of a list of structures -/
def ownL (l : List Tree) : List Nat := l.flatMap Tree.own

theorem ownL_perm {a b : List Tree} (h : a.Perm b) : (ownL a).Perm (ownL b) := h.flatMap_right _

theorem SimL.ownL {l l' : List Tree} (h : SimL σ l l') : (ownL l').Perm ((ownL l).map σ) := by
  obtain ⟨m, f, pm⟩ := simL_iff.mp h
  refine (ownL_perm pm.symm).trans ?_
  clear pm h
  induction f with
  | nil => simp [P10.ownL]
  | cons h _ ih =>
    simp only [P10.ownL, List.flatMap_cons, List.map_append] at ih ⊢
    exact h.own.append ih

end SimBasics

/-! ## hypotheses relating the two runs -/

/-- What relates run 1 (`E`, `order`) and run 2 (`E'`, `order.map σ`); everything is restricted to
the pixels of `order`.  `indep` is only required for leaves that own at least one pixel (every
structure of a run does): for an empty own list `vmax` is the default `0` in both runs and an
affine value map would not commute with it. -/
structure Hyp (E E' : Env) (σ : Nat → Nat) (order : List Nat) : Prop where
  adj : ∀ p ∈ order, ∀ q ∈ order, (q ∈ E.nbrs p ↔ σ q ∈ E'.nbrs (σ p))
  mono : ∀ p ∈ order, ∀ q ∈ order, (E.val p ≤ E.val q ↔ E'.val (σ p) ≤ E'.val (σ q))
  indep : ∀ t t', Sim σ t t' → t.kids = [] → t.own ≠ [] → (∀ x ∈ t.pixels, x ∈ order) →
    ∀ p ∈ order, E.indep t p (E.val p) = E'.indep t' (σ p) (E'.val (σ p))

section Step
variable {E E' : Env} {σ : Nat → Nat} {order : List Nat}

/-- adjacency of the new pixel to a root corresponds -/
theorem touches_sim (H : Hyp E E' σ order) {t t' : Tree} (h : Sim σ t t')
    (hpix : ∀ x ∈ t.pixels, x ∈ order) {p : Nat} (hp : p ∈ order) :
    touches E p t = touches E' (σ p) t' := by
  rw [Bool.eq_iff_iff, touches_iff, touches_iff]
  constructor
  · rintro ⟨q, hq, hn⟩
    exact ⟨σ q, h.pixels.symm.subset (List.mem_map_of_mem hq), (H.adj p hp q (hpix q hq)).mp hn⟩
  · rintro ⟨q', hq', hn⟩
    obtain ⟨q, hq, rfl⟩ := List.mem_map.mp (h.pixels.subset hq')
    exact ⟨q, hq, (H.adj p hp q (hpix q hq)).mpr hn⟩

/-- the peak is attained at corresponding pixels (only the value maps matter) -/
theorem vmax_sim_val {val val' : Nat → Int} {σ : Nat → Nat} {order : List Nat}
    (hmono : ∀ p ∈ order, ∀ q ∈ order, (val p ≤ val q ↔ val' (σ p) ≤ val' (σ q)))
    {t t' : Tree} (h : Sim σ t t') (hne : t.own ≠ []) (hown : ∀ x ∈ t.own, x ∈ order) :
    ∃ a ∈ t.own, t.vmax val = val a ∧ t'.vmax val' = val' (σ a) := by
  obtain ⟨a, ha, hv⟩ := ContourP.vmax_attained val t hne
  refine ⟨a, ha, hv, ?_⟩
  obtain ⟨a', ha', hv'⟩ := ContourP.vmax_attained val' t' (h.own_ne_nil hne)
  obtain ⟨c, hc, rfl⟩ := List.mem_map.mp (h.own.subset ha')
  have h1 : val c ≤ val a := hv ▸ ContourP.le_vmax val t c hc
  have h2 : val' (σ c) ≤ val' (σ a) := (hmono c (hown c hc) a (hown a ha)).mp h1
  have h3 : val' (σ a) ≤ t'.vmax val' :=
    ContourP.le_vmax val' t' (σ a) (h.own.symm.subset (List.mem_map_of_mem ha))
  omega

/-- the peak is attained at corresponding pixels -/
theorem vmax_sim (H : Hyp E E' σ order) {t t' : Tree} (h : Sim σ t t') (hne : t.own ≠ [])
    (hown : ∀ x ∈ t.own, x ∈ order) :
    ∃ a ∈ t.own, t.vmax E.val = E.val a ∧ t'.vmax E'.val = E'.val (σ a) :=
  vmax_sim_val H.mono h hne hown

/-- the test `vmax == value` corresponds -/
theorem vmax_test_sim (H : Hyp E E' σ order) {t t' : Tree} (h : Sim σ t t') (hne : t.own ≠ [])
    (hown : ∀ x ∈ t.own, x ∈ order) {p : Nat} (hp : p ∈ order) :
    (t.vmax E.val == E.val p) = (t'.vmax E'.val == E'.val (σ p)) := by
  obtain ⟨a, ha, hv, hv'⟩ := vmax_sim H h hne hown
  have m1 := H.mono a (hown a ha) p hp
  have m2 := H.mono p hp a (hown a ha)
  rw [hv, hv', Bool.eq_iff_iff, beq_iff_eq, beq_iff_eq]
  constructor <;> intro e <;> omega

/-- the `merge` test corresponds -/
theorem insig_sim (H : Hyp E E' σ order) {t t' : Tree} (h : Sim σ t t') (hne : t.own ≠ [])
    (hpix : ∀ x ∈ t.pixels, x ∈ order) {p : Nat} (hp : p ∈ order) :
    insig E p t = insig E' (σ p) t' := by
  unfold insig
  rw [← h.isLeaf]
  cases hl : t.isLeaf with
  | false => rfl
  | true =>
    have hk : t.kids = [] := by simpa [Tree.isLeaf, List.isEmpty_iff] using hl
    rw [vmax_test_sim H h hne (fun x hx => hpix x (ContourP.own_pixels_sub t hx)) hp,
      H.indep t t' h hk hne hpix p hp]

end Step

/-! ## the receiving structure, uniformly -/

theorem own_foldl_absorb (ms : List Tree) (t : Tree) :
    (ms.foldl Tree.absorb t).own = t.own ++ ownL ms := by
  induction ms generalizing t with
  | nil => simp [ownL]
  | cons m ms ih =>
    simp only [List.foldl_cons, ih, ContourP.own_absorb, ownL, List.flatMap_cons, List.append_assoc]

theorem ownL_partition (A : List Tree) (f : Tree → Bool) :
    (ownL A).Perm (ownL (A.filter f) ++ ownL (A.filter (fun t => !f t))) := by
  have := ownL_perm (filter_partition_perm A f)
  simpa [ownL, List.flatMap_append] using this

/-- Own pixels and children of the structure receiving `p`, in terms of the adjacent roots that
are kept (`keep`) and merged (`mrg`): with at most one kept root the result owns `p` and all own
pixels of the adjacent roots and has the children of the kept root (none if there is none);
with two or more it owns `p` and the own pixels of the merged leaves, and its children are the
kept roots.  Which root survives, and in which order lists are concatenated, is not visible here. -/
theorem joinAdj_spec (E : Env) (p : Nat) (A : List Tree) :
    ((A.filter (fun t => !insig E p t)).length ≤ 1 →
      (joinAdj E p A).own.Perm (p :: ownL A) ∧
      (joinAdj E p A).kids = (A.filter (fun t => !insig E p t)).flatMap Tree.kids) ∧
    (2 ≤ (A.filter (fun t => !insig E p t)).length →
      (joinAdj E p A).own.Perm (p :: ownL (A.filter (insig E p))) ∧
      (joinAdj E p A).kids = A.filter (fun t => !insig E p t)) := by
  match A with
  | [] => simp [joinAdj, ownL, Tree.own, Tree.kids]
  | [t] =>
    have hown : (t.addPixel p).own.Perm (p :: ownL [t]) := by
      rw [ContourP.own_addPixel]; simp [ownL]
    cases hi : insig E p t with
    | true =>
      have hk : t.kids = [] := ((insig_iff E p t).mp hi).1
      simp [joinAdj, hi, hown, kids_addPixel, hk]
    | false => simp [joinAdj, hi, hown, kids_addPixel]
  | a :: b :: rest =>
    have hpart := ownL_partition (a :: b :: rest) (insig E p)
    have hml : ∀ m ∈ (a :: b :: rest).filter (insig E p), m.kids = [] := by
      intro m hm; exact ((insig_iff E p m).mp (List.mem_filter.mp hm).2).1
    rcases hkeep : (a :: b :: rest).filter (fun t => !insig E p t) with _ | ⟨k1, _ | ⟨k2, ks⟩⟩
    · -- nothing kept
      obtain ⟨last, others, hA, hj⟩ := joinAdj_many_none_kept a b rest hkeep
      have hm := filter_insig_eq_self_of_keep_nil (E := E) (p := p) _ hkeep
      rw [hj]
      refine ⟨fun _ => ⟨?_, ?_⟩, fun h => by simp at h⟩
      · rw [own_foldl_absorb, ContourP.own_addPixel, hA]
        have : (ownL (others ++ [last])).Perm (ownL others ++ last.own) := by
          simp [ownL, List.flatMap_append]
        refine List.Perm.trans ?_ (this.symm.cons p)
        simp only [List.append_assoc]
        refine (List.perm_append_comm (l₁ := last.own)).trans ?_
        simp only [List.cons_append, List.nil_append]
        exact List.Perm.refl _
      · rw [kids_foldl_absorb, kids_addPixel]
        have : last ∈ (a :: b :: rest).filter (insig E p) := by rw [hm, hA]; simp
        simpa using hml last this
    · -- one kept
      have hj := joinAdj_many_one_kept a b rest k1 hkeep
      rw [hj]
      rw [hkeep] at hpart
      refine ⟨fun _ => ⟨?_, ?_⟩, fun h => by simp at h⟩
      · rw [own_foldl_absorb, ContourP.own_addPixel]
        refine List.Perm.trans ?_ (hpart.symm.cons p)
        have : ownL [k1] = k1.own := by simp [ownL]
        rw [this]
        simp only [List.append_assoc]
        refine (List.perm_append_comm (l₁ := k1.own)).trans ?_
        simp only [List.cons_append, List.nil_append]
        exact List.Perm.refl _
      · rw [kids_foldl_absorb, kids_addPixel]; simp
    · -- a new branch
      have hj := joinAdj_many_branch a b rest k1 k2 ks hkeep
      rw [hj]
      refine ⟨fun h => by simp at h, fun _ => ⟨?_, ?_⟩⟩
      · rw [own_foldl_absorb]; simp [Tree.own]
      · rw [kids_foldl_absorb]; simp [Tree.kids]

/-! ## one step and the whole loop -/

section Run
variable {E E' : Env} {σ : Nat → Nat} {order : List Nat}

/-- the receiving structures are similar when the adjacent roots are and the `merge` test
corresponds on them — whatever their order in the two lists, hence whichever leaf survives -/
theorem joinAdj_sim {A A' : List Tree} {p : Nat} (hA : SimL σ A A')
    (hins : ∀ t ∈ A, ∀ t', Sim σ t t' → insig E p t = insig E' (σ p) t') :
    Sim σ (joinAdj E p A) (joinAdj E' (σ p) A') := by
  have hm : SimL σ (A.filter (insig E p)) (A'.filter (insig E' (σ p))) := hA.filter hins
  have hk : SimL σ (A.filter (fun t => !insig E p t)) (A'.filter (fun t => !insig E' (σ p) t)) :=
    hA.filter (fun t ht t' h => by rw [hins t ht t' h])
  have hlen := hk.length_eq
  obtain ⟨s1, s2⟩ := joinAdj_spec E p A
  obtain ⟨s1', s2'⟩ := joinAdj_spec E' (σ p) A'
  by_cases hc : (A.filter (fun t => !insig E p t)).length ≤ 1
  · obtain ⟨o1, k1⟩ := s1 hc
    obtain ⟨o1', k1'⟩ := s1' (hlen ▸ hc)
    apply Sim.of
    · refine o1'.trans (List.Perm.trans ?_ (o1.map σ).symm)
      simp only [List.map_cons]
      exact hA.ownL.cons _
    · rw [k1, k1']
      generalize A.filter (fun t => !insig E p t) = K at hk hc
      generalize A'.filter (fun t => !insig E' (σ p) t) = K' at hk
      match K, hc, hk with
      | [], _, hk => rw [hk.nil_left]; exact .nil
      | [t], _, hk =>
        obtain ⟨t', rfl, ht⟩ := hk.single_left
        simpa using ht.kids
  · have hc2 : 2 ≤ (A.filter (fun t => !insig E p t)).length := by omega
    obtain ⟨o2, k2⟩ := s2 hc2
    obtain ⟨o2', k2'⟩ := s2' (hlen ▸ hc2)
    apply Sim.of
    · refine o2'.trans (List.Perm.trans ?_ (o2.map σ).symm)
      simp only [List.map_cons]
      exact hm.ownL.cons _
    · rw [k2, k2']; exact hk

/-- **one step.**  (`p` need not be fresh.) -/
theorem step_sim (H : Hyp E E' σ order) {roots roots' : List Tree} (hs : SimL σ roots roots')
    (hpix : ∀ x ∈ pixelsL roots, x ∈ order) (hne : ∀ t ∈ roots, t.own ≠ []) {p : Nat}
    (hp : p ∈ order) : SimL σ (step E roots p) (step E' roots' (σ p)) := by
  have hpt : ∀ t ∈ roots, ∀ x ∈ t.pixels, x ∈ order :=
    fun t ht x hx => hpix x (mem_pixelsL.mpr ⟨t, ht, hx⟩)
  have ht : ∀ t ∈ roots, ∀ t', Sim σ t t' → touches E p t = touches E' (σ p) t' :=
    fun t ht t' h => touches_sim H h (hpt t ht) hp
  unfold step
  apply SimL.append
  · exact hs.filter (fun t h t' h' => by rw [ht t h t' h'])
  · apply SimL.single
    apply joinAdj_sim
    · exact ((hs.filter ht).perm_left (sortById_perm _).symm).perm_right (sortById_perm _).symm
    · intro t htA t' h
      have := (List.mem_filter.mp (mem_sortById.mp htA)).1
      exact insig_sim H h (hne t this) (hpt t this) hp

theorem step_own_ne_nil (E : Env) (roots : List Tree) (p : Nat) (hne : ∀ t ∈ roots, t.own ≠ []) :
    ∀ t ∈ step E roots p, t.own ≠ [] := by
  intro t ht
  unfold step at ht
  rcases List.mem_append.mp ht with ht | ht
  · exact hne t (List.mem_filter.mp ht).1
  · rw [List.mem_singleton] at ht; subst ht
    exact List.ne_nil_of_mem (joinAdj_shape E p _).1

theorem foldl_sim (H : Hyp E E' σ order) (ps : List Nat) :
    ∀ (roots roots' : List Tree), (∀ p ∈ ps, p ∈ order) → SimL σ roots roots' →
      (∀ x ∈ pixelsL roots, x ∈ order) → (∀ t ∈ roots, t.own ≠ []) →
      SimL σ (ps.foldl (step E) roots) ((ps.map σ).foldl (step E') roots') := by
  induction ps with
  | nil => intro roots roots' _ hs _ _; exact hs
  | cons p ps ih =>
    intro roots roots' hps hs hpix hne
    simp only [List.foldl_cons, List.map_cons]
    have hp : p ∈ order := hps p (by simp)
    apply ih
    · intro q hq; exact hps q (List.mem_cons_of_mem _ hq)
    · exact step_sim H hs hpix hne hp
    · intro x hx
      rcases List.mem_cons.mp ((step_pixels E roots p).subset hx) with rfl | hx
      · exact hp
      · exact hpix x hx
    · exact step_own_ne_nil E roots p hne

theorem run_sim_of_hyp (H : Hyp E E' σ order) : SimL σ (run E order) (run E' (order.map σ)) := by
  unfold run
  exact foldl_sim H order [] [] (fun _ h => h) .nil (by simp [pixelsL]) (by simp)

end Run

/-- **MAIN (C16/C17).**  The run of `E'` on the renamed order is similar to the run of `E` on
`order`: same regions, same parent relation, up to `σ`.

`hnd` and `hinj` are not needed (they are kept for reference: they hold in every instance and
make `σ` a bijection between the two pixel sets).  `hindep` is only required for leaves owning
at least one pixel, which makes the theorem stronger than with the hypothesis for all leaves
(needed for affine value maps, see `hindep_builtin_affine`). -/
theorem run_sim (E E' : Env) (σ : Nat → Nat) (order : List Nat)
    (_hnd : order.Nodup)
    (_hinj : ∀ a ∈ order, ∀ b ∈ order, σ a = σ b → a = b)
    (hadj : ∀ p ∈ order, ∀ q ∈ order, (q ∈ E.nbrs p ↔ σ q ∈ E'.nbrs (σ p)))
    (hmono : ∀ p ∈ order, ∀ q ∈ order, (E.val p ≤ E.val q ↔ E'.val (σ p) ≤ E'.val (σ q)))
    (hindep : ∀ t t', Sim σ t t' → t.kids = [] → t.own ≠ [] → (∀ x ∈ t.pixels, x ∈ order) →
      ∀ p ∈ order, E.indep t p (E.val p) = E'.indep t' (σ p) (E'.val (σ p))) :
    SimL σ (run E order) (run E' (order.map σ)) :=
  run_sim_of_hyp ⟨hadj, hmono, hindep⟩

/-- `run_sim` after every prefix of the order -/
theorem run_sim_prefix (E E' : Env) (σ : Nat → Nat) (order pre suf : List Nat) (ho : order = pre ++ suf)
    (hadj : ∀ p ∈ order, ∀ q ∈ order, (q ∈ E.nbrs p ↔ σ q ∈ E'.nbrs (σ p)))
    (hmono : ∀ p ∈ order, ∀ q ∈ order, (E.val p ≤ E.val q ↔ E'.val (σ p) ≤ E'.val (σ q)))
    (hindep : ∀ t t', Sim σ t t' → t.kids = [] → t.own ≠ [] → (∀ x ∈ t.pixels, x ∈ order) →
      ∀ p ∈ order, E.indep t p (E.val p) = E'.indep t' (σ p) (E'.val (σ p))) :
    SimL σ (run E pre) (run E' (pre.map σ)) := by
  have hsub : ∀ x ∈ pre, x ∈ order := fun x hx => by rw [ho]; exact List.mem_append_left _ hx
  exact run_sim_of_hyp (order := pre)
    ⟨fun p hp q hq => hadj p (hsub p hp) q (hsub q hq),
     fun p hp q hq => hmono p (hsub p hp) q (hsub q hq),
     fun t t' h hk hne hpix p hp => hindep t t' h hk hne (fun x hx => hsub x (hpix x hx)) p (hsub p hp)⟩

/-! ## what similarity means: regions, parent relation, counts -/

section Corollaries
variable {σ : Nat → Nat}

/-- every structure of one forest has a similar structure in the other -/
theorem sim_nodes_aux :
    (∀ t t' : Tree, Sim σ t t' →
      (∀ x ∈ pre t, ∃ x' ∈ pre t', Sim σ x x') ∧ (∀ x' ∈ pre t', ∃ x ∈ pre t, Sim σ x x')) ∧
    (∀ l l' : List Tree, SimL σ l l' →
      (∀ x ∈ preL l, ∃ x' ∈ preL l', Sim σ x x') ∧ (∀ x' ∈ preL l', ∃ x ∈ preL l, Sim σ x x')) := by
  apply Tree.forest_induction
  · intro i o ks ih t' h
    cases h with
    | @mk _ i' _ o' _ ks' h1 h2 =>
      obtain ⟨ih1, ih2⟩ := ih ks' h2
      simp only [pre, List.mem_cons]
      constructor
      · rintro x (rfl | hx)
        · exact ⟨_, Or.inl rfl, .mk h1 h2⟩
        · obtain ⟨x', hx', hs⟩ := ih1 x hx; exact ⟨x', Or.inr hx', hs⟩
      · rintro x' (rfl | hx')
        · exact ⟨_, Or.inl rfl, .mk h1 h2⟩
        · obtain ⟨x, hx, hs⟩ := ih2 x' hx'; exact ⟨x, Or.inr hx, hs⟩
  · intro l' h; cases h; simp [preL]
  · intro t ts iht ihts l' h
    cases h with
    | @cons _ t' _ ts' _ h1 h2 h3 =>
      obtain ⟨a1, a2⟩ := iht t' h1
      obtain ⟨b1, b2⟩ := ihts ts' h2
      have hp : (preL l').Perm (pre t' ++ preL ts') := by simpa [preL] using preL_perm h3
      simp only [preL, List.mem_append]
      constructor
      · rintro x (hx | hx)
        · obtain ⟨x', hx', hs⟩ := a1 x hx
          exact ⟨x', hp.symm.subset (List.mem_append_left _ hx'), hs⟩
        · obtain ⟨x', hx', hs⟩ := b1 x hx
          exact ⟨x', hp.symm.subset (List.mem_append_right _ hx'), hs⟩
      · intro x' hx'
        rcases List.mem_append.mp (hp.subset hx') with hx' | hx'
        · obtain ⟨x, hx, hs⟩ := a2 x' hx'; exact ⟨x, Or.inl hx, hs⟩
        · obtain ⟨x, hx, hs⟩ := b2 x' hx'; exact ⟨x, Or.inr hx, hs⟩

/-- every structure of one forest has a similar structure in the other (both directions) -/
theorem sim_nodes {f f' : List Tree} (h : SimL σ f f') :
    (∀ t ∈ Tree.preL f, ∃ t' ∈ Tree.preL f', Sim σ t t') ∧
    (∀ t' ∈ Tree.preL f', ∃ t ∈ Tree.preL f, Sim σ t t') := sim_nodes_aux.2 f f' h

/-- **regions correspond**: the regions (pixels with substructures) of the structures of the two
forests are the same sets up to `σ`. -/
theorem sim_regions {f f' : List Tree} (h : SimL σ f f') :
    (∀ t ∈ Tree.preL f, ∃ t' ∈ Tree.preL f', t'.pixels.Perm (t.pixels.map σ)) ∧
    (∀ t' ∈ Tree.preL f', ∃ t ∈ Tree.preL f, t'.pixels.Perm (t.pixels.map σ)) := by
  obtain ⟨h1, h2⟩ := sim_nodes h
  constructor
  · intro t ht; obtain ⟨t', ht', hs⟩ := h1 t ht; exact ⟨t', ht', hs.pixels⟩
  · intro t' ht'; obtain ⟨t, ht, hs⟩ := h2 t' ht'; exact ⟨t, ht, hs.pixels⟩

/-- own pixels correspond as well (so do the labels of pixels, up to naming) -/
theorem sim_own {f f' : List Tree} (h : SimL σ f f') :
    (∀ t ∈ Tree.preL f, ∃ t' ∈ Tree.preL f', t'.pixels.Perm (t.pixels.map σ) ∧ t'.own.Perm (t.own.map σ)) ∧
    (∀ t' ∈ Tree.preL f', ∃ t ∈ Tree.preL f, t'.pixels.Perm (t.pixels.map σ) ∧ t'.own.Perm (t.own.map σ)) := by
  obtain ⟨h1, h2⟩ := sim_nodes h
  constructor
  · intro t ht; obtain ⟨t', ht', hs⟩ := h1 t ht; exact ⟨t', ht', hs.pixels, hs.own⟩
  · intro t' ht'; obtain ⟨t, ht, hs⟩ := h2 t' ht'; exact ⟨t, ht, hs.pixels, hs.own⟩

/-- **the parent relation corresponds** (run 1 → run 2) -/
theorem sim_parent {f f' : List Tree} (h : SimL σ f f') :
    ∀ P ∈ Tree.preL f, ∀ c ∈ P.kids, ∃ P' ∈ Tree.preL f', ∃ c' ∈ P'.kids,
      P'.pixels.Perm (P.pixels.map σ) ∧ c'.pixels.Perm (c.pixels.map σ) := by
  intro P hP c hc
  obtain ⟨P', hP', hs⟩ := (sim_nodes h).1 P hP
  obtain ⟨c', hc', hsc⟩ := hs.kids.mem_left c hc
  exact ⟨P', hP', c', hc', hs.pixels, hsc.pixels⟩

/-- **the parent relation corresponds** (run 2 → run 1) -/
theorem sim_parent_conv {f f' : List Tree} (h : SimL σ f f') :
    ∀ P' ∈ Tree.preL f', ∀ c' ∈ P'.kids, ∃ P ∈ Tree.preL f, ∃ c ∈ P.kids,
      P'.pixels.Perm (P.pixels.map σ) ∧ c'.pixels.Perm (c.pixels.map σ) := by
  intro P' hP' c' hc'
  obtain ⟨P, hP, hs⟩ := (sim_nodes h).2 P' hP'
  obtain ⟨c, hc, hsc⟩ := hs.kids.mem_right c' hc'
  exact ⟨P, hP, c, hc, hs.pixels, hsc.pixels⟩

/-- roots correspond to roots -/
theorem sim_roots {f f' : List Tree} (h : SimL σ f f') :
    (∀ t ∈ f, ∃ t' ∈ f', t'.pixels.Perm (t.pixels.map σ)) ∧
    (∀ t' ∈ f', ∃ t ∈ f, t'.pixels.Perm (t.pixels.map σ)) := by
  constructor
  · intro t ht; obtain ⟨t', ht', hs⟩ := h.mem_left t ht; exact ⟨t', ht', hs.pixels⟩
  · intro t' ht'; obtain ⟨t, ht, hs⟩ := h.mem_right t' ht'; exact ⟨t, ht, hs.pixels⟩

theorem sim_counts_aux :
    (∀ t t' : Tree, Sim σ t t' → (pre t).length = (pre t').length ∧
      ((pre t).filter Tree.isLeaf).length = ((pre t').filter Tree.isLeaf).length) ∧
    (∀ l l' : List Tree, SimL σ l l' → (preL l).length = (preL l').length ∧
      ((preL l).filter Tree.isLeaf).length = ((preL l').filter Tree.isLeaf).length) := by
  apply Tree.forest_induction
  · intro i o ks ih t' h
    have hl := h.isLeaf
    cases h with
    | @mk _ i' _ o' _ ks' h1 h2 =>
      obtain ⟨ih1, ih2⟩ := ih ks' h2
      simp only [pre, List.length_cons, ih1, List.filter_cons, hl, true_and]
      split <;> simp [ih2]
  · intro l' h; cases h; simp [preL]
  · intro t ts iht ihts l' h
    cases h with
    | @cons _ t' _ ts' _ h1 h2 h3 =>
      obtain ⟨a1, a2⟩ := iht t' h1
      obtain ⟨b1, b2⟩ := ihts ts' h2
      have hp : (preL l').Perm (pre t' ++ preL ts') := by simpa [preL] using preL_perm h3
      constructor
      · rw [hp.length_eq]; simp [preL, a1, b1]
      · rw [(hp.filter _).length_eq]; simp [preL, a2, b2]

/-- **same number of structures and of leaves** -/
theorem sim_counts {f f' : List Tree} (h : SimL σ f f') :
    (Tree.preL f).length = (Tree.preL f').length ∧
    ((Tree.preL f).filter Tree.isLeaf).length = ((Tree.preL f').filter Tree.isLeaf).length :=
  sim_counts_aux.2 f f' h

end Corollaries

/-! ## the built-in criteria satisfy the hypothesis on significance decisions -/

section Builtin

/-- the criterion of run 2 under `v ↦ a*v+b` and renaming `σ`: `min_delta` scales by `a`,
`min_npix` is kept, `min_peak` is mapped like a value, seeds are renamed (`min_sum` is not
expressible: the sum is mapped to `a*s + b*npix`; it is excluded by hypothesis) -/
def critAffine (σ : Nat → Nat) (a b : Int) : Crit → Crit
  | .minDelta d => .minDelta (a * d)
  | .minNpix n => .minNpix n
  | .minPeak x => .minPeak (a * x + b)
  | .minSum s => .minSum s
  | .seeds ps => .seeds (ps.map σ)

/-- the criterion of run 2 under a pure renaming: only seeds change -/
def critRename (σ : Nat → Nat) : Crit → Crit
  | .seeds ps => .seeds (ps.map σ)
  | c => c

/-- the seed pixels a criterion mentions -/
def seedsOf : Crit → List Nat
  | .seeds ps => ps
  | _ => []

theorem all_congr_mem {α : Type} {l : List α} {f g : α → Bool} (h : ∀ c ∈ l, f c = g c) :
    l.all f = l.all g := by
  induction l with
  | nil => rfl
  | cons c cs ih =>
    simp only [List.all_cons]
    rw [h c (by simp), ih (fun c hc => h c (List.mem_cons_of_mem _ hc))]

theorem foldl_add_perm {l1 l2 : List Int} (h : l1.Perm l2) :
    ∀ init : Int, l1.foldl (· + ·) init = l2.foldl (· + ·) init := by
  induction h with
  | nil => intro _; rfl
  | cons x _ ih => intro init; simp only [List.foldl_cons]; exact ih _
  | swap x y l =>
    intro init
    simp only [List.foldl_cons]
    rw [Int.add_right_comm]
  | trans _ _ ih1 ih2 => intro init; rw [ih1, ih2]

variable {σ : Nat → Nat} {order : List Nat} {val val' : Nat → Int}

theorem seeds_sim {t t' : Tree} (h : Sim σ t t') (hpix : ∀ x ∈ t.pixels, x ∈ order) (ps : List Nat)
    (hseed : ∀ s ∈ ps, ∀ x ∈ order, σ x = σ s → x = s) :
    t.pixels.any (fun p => ps.contains p) = t'.pixels.any (fun p => (ps.map σ).contains p) := by
  rw [Bool.eq_iff_iff, List.any_eq_true, List.any_eq_true]
  simp only [List.contains_iff_mem]
  constructor
  · rintro ⟨x, hx, hxs⟩
    exact ⟨σ x, h.pixels.symm.subset (List.mem_map_of_mem hx), List.mem_map_of_mem hxs⟩
  · rintro ⟨y, hy, hys⟩
    obtain ⟨x, hx, rfl⟩ := List.mem_map.mp (h.pixels.subset hy)
    obtain ⟨s, hs, e⟩ := List.mem_map.mp hys
    have : x = s := hseed s hs x (hpix x hx) e.symm
    exact ⟨x, hx, this ▸ hs⟩

/-- the peak of a similar structure under an affine value map -/
theorem vmax_affine {a b : Int} (ha : 0 < a) (hval : ∀ p ∈ order, val' (σ p) = a * val p + b)
    {t t' : Tree} (h : Sim σ t t') (hne : t.own ≠ []) (hown : ∀ x ∈ t.own, x ∈ order) :
    t'.vmax val' = a * t.vmax val + b := by
  have hmono : ∀ p ∈ order, ∀ q ∈ order, (val p ≤ val q ↔ val' (σ p) ≤ val' (σ q)) := by
    intro p hp q hq
    rw [hval p hp, hval q hq]
    have := Int.mul_le_mul_left (b := val p) (c := val q) ha
    omega
  obtain ⟨x, hx, h1, h2⟩ := vmax_sim_val hmono h hne hown
  rw [h1, h2, hval x (hown x hx)]

/-- one criterion, affine value map -/
theorem atMerge_affine {a b : Int} (ha : 0 < a) (hval : ∀ p ∈ order, val' (σ p) = a * val p + b)
    {t t' : Tree} (h : Sim σ t t') (hne : t.own ≠ []) (hpix : ∀ x ∈ t.pixels, x ∈ order)
    {p : Nat} (hp : p ∈ order) (c : Crit) (hns : ∀ s, c ≠ Crit.minSum s)
    (hseed : ∀ s ∈ seedsOf c, ∀ x ∈ order, σ x = σ s → x = s) :
    c.atMerge val t (val p) = (critAffine σ a b c).atMerge val' t' (val' (σ p)) := by
  have hv := vmax_affine ha hval h hne (fun x hx => hpix x (ContourP.own_pixels_sub t hx))
  cases c with
  | minDelta d =>
    simp only [critAffine, Crit.atMerge, hv, hval p hp, decide_eq_decide]
    have : a * t.vmax val + b - (a * val p + b) = a * (t.vmax val - val p) := by
      rw [Int.mul_sub]; omega
    rw [this, Int.mul_le_mul_left ha]
  | minNpix n =>
    simp only [critAffine, Crit.atMerge, decide_eq_decide]
    rw [h.pixels.length_eq, List.length_map]
  | minPeak x =>
    simp only [critAffine, Crit.atMerge, hv, decide_eq_decide]
    have := Int.mul_le_mul_left (b := x) (c := t.vmax val) ha
    omega
  | minSum s => exact absurd rfl (hns s)
  | seeds ps => exact seeds_sim h hpix ps hseed

/-- **built-in criteria, affine value map** `v ↦ a*v+b`, `a > 0`, with renaming `σ`: the
environments built from `cs` and from `cs.map (critAffine σ a b)` take the same significance
decisions on similar leaves — the hypothesis `hindep` of `run_sim`.  `min_sum` is excluded; seeds
must not be identified with ordered pixels by `σ` (e.g. `σ` injective on the array).

The premise `t.own ≠ []` cannot be dropped: for `t = t' = node 0 [] []` (similar for every `σ`),
`val = fun _ => 0`, `val' = fun _ => 5` (`a = 1`, `b = 5`) and `min_delta = 0` the peak defaults to
`0` in both environments and the decisions are `0 ≤ 0 - 0` (true) and `0 ≤ 0 - 5` (false). -/
theorem hindep_builtin_affine (val val' : Nat → Int) (nbrs nbrs' : Nat → List Nat) (σ : Nat → Nat)
    (order : List Nat) (a b : Int) (ha : 0 < a)
    (hval : ∀ p ∈ order, val' (σ p) = a * val p + b)
    (cs : List Crit) (hns : ∀ c ∈ cs, ∀ s, c ≠ Crit.minSum s)
    (hseed : ∀ c ∈ cs, ∀ s ∈ seedsOf c, ∀ x ∈ order, σ x = σ s → x = s) :
    ∀ t t', Sim σ t t' → t.kids = [] → t.own ≠ [] → (∀ x ∈ t.pixels, x ∈ order) → ∀ p ∈ order,
      (envOf val nbrs cs).indep t p ((envOf val nbrs cs).val p) =
      (envOf val' nbrs' (cs.map (critAffine σ a b))).indep t' (σ p)
        ((envOf val' nbrs' (cs.map (critAffine σ a b))).val (σ p)) := by
  intro t t' h _ hne hpix p hp
  simp only [envOf, allMerge, List.all_map]
  apply all_congr_mem
  intro c hc
  exact atMerge_affine ha hval h hne hpix hp c (hns c hc) (hseed c hc)

/-- the concrete instance `min_delta = d`, `min_npix = n` against `min_delta = a*d`, `min_npix = n` -/
theorem hindep_builtin_affine_delta_npix (val val' : Nat → Int) (nbrs nbrs' : Nat → List Nat)
    (σ : Nat → Nat) (order : List Nat) (a b : Int) (ha : 0 < a)
    (hval : ∀ p ∈ order, val' (σ p) = a * val p + b) (d : Int) (n : Nat) :
    ∀ t t', Sim σ t t' → t.kids = [] → t.own ≠ [] → (∀ x ∈ t.pixels, x ∈ order) → ∀ p ∈ order,
      (envOf val nbrs [Crit.minDelta d, Crit.minNpix n]).indep t p (val p) =
      (envOf val' nbrs' [Crit.minDelta (a * d), Crit.minNpix n]).indep t' (σ p) (val' (σ p)) :=
  hindep_builtin_affine val val' nbrs nbrs' σ order a b ha hval [Crit.minDelta d, Crit.minNpix n]
    (by intro c hc s; simp at hc; rcases hc with rfl | rfl <;> simp)
    (by intro c hc s hs; simp at hc; rcases hc with rfl | rfl <;> simp [seedsOf] at hs)

theorem sumVals_sim (hval : ∀ p ∈ order, val' (σ p) = val p) {t t' : Tree} (h : Sim σ t t')
    (hpix : ∀ x ∈ t.pixels, x ∈ order) : sumVals val' t'.pixels = sumVals val t.pixels := by
  unfold sumVals
  rw [foldl_add_perm (h.pixels.map val') 0, List.map_map]
  congr 1
  apply List.map_congr_left
  intro x hx
  exact hval x (hpix x hx)

/-- **built-in criteria, pure renaming** (`a = 1`, `b = 0`: axis permutations, flips, shifts,
padding): all five criteria, seeds renamed. -/
theorem hindep_builtin_rename (val val' : Nat → Int) (nbrs nbrs' : Nat → List Nat) (σ : Nat → Nat)
    (order : List Nat) (hval : ∀ p ∈ order, val' (σ p) = val p)
    (cs : List Crit)
    (hseed : ∀ c ∈ cs, ∀ s ∈ seedsOf c, ∀ x ∈ order, σ x = σ s → x = s) :
    ∀ t t', Sim σ t t' → t.kids = [] → t.own ≠ [] → (∀ x ∈ t.pixels, x ∈ order) → ∀ p ∈ order,
      (envOf val nbrs cs).indep t p ((envOf val nbrs cs).val p) =
      (envOf val' nbrs' (cs.map (critRename σ))).indep t' (σ p)
        ((envOf val' nbrs' (cs.map (critRename σ))).val (σ p)) := by
  intro t t' h _ hne hpix p hp
  simp only [envOf, allMerge, List.all_map]
  apply all_congr_mem
  intro c hc
  have hval' : ∀ p ∈ order, val' (σ p) = 1 * val p + 0 := by
    intro p hp; rw [hval p hp]; omega
  by_cases hs : ∃ s, c = Crit.minSum s
  · obtain ⟨s, rfl⟩ := hs
    simp only [Function.comp, critRename, Crit.atMerge, sumVals_sim hval h hpix]
  · have := atMerge_affine (a := 1) (b := 0) (by omega) hval' h hne hpix hp c
      (fun s e => hs ⟨s, e⟩) (hseed c hc)
    rw [this]
    cases c <;> simp [critAffine, critRename]

/-- `run_sim` instantiated with the built-in criteria under `v ↦ a*v+b`, `a > 0`, and renaming -/
theorem run_sim_builtin_affine (val val' : Nat → Int) (nbrs nbrs' : Nat → List Nat) (σ : Nat → Nat)
    (order : List Nat) (a b : Int) (ha : 0 < a)
    (hval : ∀ p ∈ order, val' (σ p) = a * val p + b)
    (hadj : ∀ p ∈ order, ∀ q ∈ order, (q ∈ nbrs p ↔ σ q ∈ nbrs' (σ p)))
    (cs : List Crit) (hns : ∀ c ∈ cs, ∀ s, c ≠ Crit.minSum s)
    (hseed : ∀ c ∈ cs, ∀ s ∈ seedsOf c, ∀ x ∈ order, σ x = σ s → x = s) :
    SimL σ (run (envOf val nbrs cs) order)
      (run (envOf val' nbrs' (cs.map (critAffine σ a b))) (order.map σ)) := by
  apply run_sim_of_hyp
  refine ⟨hadj, ?_, hindep_builtin_affine val val' nbrs nbrs' σ order a b ha hval cs hns hseed⟩
  intro p hp q hq
  show val p ≤ val q ↔ val' (σ p) ≤ val' (σ q)
  rw [hval p hp, hval q hq]
  have := Int.mul_le_mul_left (b := val p) (c := val q) ha
  omega

/-- `run_sim` instantiated with the built-in criteria under a pure renaming -/
theorem run_sim_builtin_rename (val val' : Nat → Int) (nbrs nbrs' : Nat → List Nat) (σ : Nat → Nat)
    (order : List Nat) (hval : ∀ p ∈ order, val' (σ p) = val p)
    (hadj : ∀ p ∈ order, ∀ q ∈ order, (q ∈ nbrs p ↔ σ q ∈ nbrs' (σ p)))
    (cs : List Crit)
    (hseed : ∀ c ∈ cs, ∀ s ∈ seedsOf c, ∀ x ∈ order, σ x = σ s → x = s) :
    SimL σ (run (envOf val nbrs cs) order)
      (run (envOf val' nbrs' (cs.map (critRename σ))) (order.map σ)) := by
  apply run_sim_of_hyp
  refine ⟨hadj, ?_, hindep_builtin_rename val val' nbrs nbrs' σ order hval cs hseed⟩
  intro p hp q hq
  show val p ≤ val q ↔ val' (σ p) ≤ val' (σ q)
  rw [hval p hp, hval q hq]

end Builtin

/-! ## witness: a flipped, rescaled 1-D array with a tie

values `3 1 3 1 2`, flipped (`σ p = 4 - p`) and mapped by `v ↦ 2*v+7`; `min_delta` 1 resp. 2.
Run 1 gives `3:[3]( 1:[1]( 0:[0], 2:[2] ), 4:[4] )`, run 2 gives `1:[1]( 0:[0], 3:[3]( 2:[2], 4:[4] ) )`:
identifiers and child order differ, the hierarchy is the same up to the flip. -/
section Witness

private def wNbrs (p : Nat) : List Nat :=
  (if p + 1 < 5 then [p + 1] else []) ++ (if 0 < p ∧ p < 5 then [p - 1] else [])
private def wVal (p : Nat) : Int := [3, 1, 3, 1, 2].getD p 0

example : SimL (fun p => 4 - p)
    (run (envOf wVal wNbrs [Crit.minDelta 1]) [0, 2, 4, 1, 3])
    (run (envOf (fun p => 2 * wVal (4 - p) + 7) wNbrs [Crit.minDelta (2 * 1)]) [4, 2, 0, 3, 1]) :=
  run_sim_builtin_affine wVal (fun p => 2 * wVal (4 - p) + 7) wNbrs wNbrs (fun p => 4 - p)
    [0, 2, 4, 1, 3] 2 7 (by decide) (by decide) (by decide) [Crit.minDelta 1]
    (by intro c hc s; simp at hc; subst hc; simp)
    (by intro c hc s hs; simp at hc; subst hc; simp [seedsOf] at hs)

end Witness

end P10
