import ADProofs.MiscProofs
/-!
# ADProofs.TieProofs — ties: the assigned pixels do not depend on the admissible processing order
(for monotone criteria)   (C16 / C17, ties clause)

With equal values the forest `run E order` depends on the order among equal values, and
`makeTrunk` drops a parentless structure iff it is a leaf failing the value-less criteria.  For
criteria that can only turn true as a region grows (`MonoCrit`: everything except `min_sum` with
negative values) a parentless structure survives iff the criteria hold on its *region*
(`regionOK`), which depends on the pixel set only.  Since the regions of the parentless structures
are the connected components of the processed set (`P21.trunk_eq_components`), the set of assigned
pixels is the same for every processing order of the same pixels.

* `regionOK_perm`, `regionOK_mono`, `merge_indep_regionOK`
* `run_branch_regionOK`   : every branch satisfies the criteria on its region
* `root_survives_iff`     : a parentless structure survives iff its region satisfies the criteria
* `assigned_order_independent`, `trunk_regions_order_independent`
* examples: ties giving different forests with the same assigned set; `min_sum` with negative
  values gives different assigned sets.

Remark: sortedness of the orders is not needed for any of the statements (the primed versions
`run_branch_regionOK'`, … are stated without it); the requested statements keep the hypotheses.

Core Lean only.
-/
open Tree

namespace P32

/-- the criteria evaluated on a region (a pixel list) as a parentless leaf -/
def regionOK (val : Nat → Int) (cs : List Crit) (ps : List Nat) : Bool :=
  allOrphan val cs (Tree.node 0 ps [])

/-- criteria that can only turn true when pixels are added to a region whose values are given by
`val` on `S` -/
def MonoCrit (val : Nat → Int) (S : Nat → Prop) : Crit → Prop
  | .minSum _ => ∀ x, S x → 0 ≤ val x
  | _ => True

/-! ## ingredients of the criteria on a region -/

theorem pixels_leaf (i : Nat) (ps : List Nat) : (Tree.node i ps []).pixels = ps := by
  simp [pixels, pixelsL]

theorem vmax_leaf (val : Nat → Int) (i : Nat) (ps : List Nat) :
    (Tree.node i ps []).vmax val = maxL 0 (ps.map val) := rfl

theorem vmin_leaf (val : Nat → Int) (i : Nat) (ps : List Nat) :
    (Tree.node i ps []).vmin val = minL 0 (ps.map val) := rfl

theorem sumVals_eq (val : Nat → Int) (ps : List Nat) : sumVals val ps = (ps.map val).sum := by
  unfold sumVals; rw [List.sum_eq_foldl]

theorem sumVals_perm (val : Nat → Int) {ps qs : List Nat} (h : ps.Perm qs) :
    sumVals val ps = sumVals val qs := by
  rw [sumVals_eq, sumVals_eq]
  induction h with
  | nil => rfl
  | cons x _ ih => simp [ih]
  | swap x y l => simp; omega
  | trans _ _ ih1 ih2 => exact ih1.trans ih2

theorem sumVals_append (val : Nat → Int) (ps qs : List Nat) :
    sumVals val (ps ++ qs) = sumVals val ps + sumVals val qs := by
  simp [sumVals_eq]

theorem sumVals_nonneg (val : Nat → Int) (ps : List Nat) (h : ∀ x ∈ ps, 0 ≤ val x) :
    0 ≤ sumVals val ps := by
  rw [sumVals_eq]
  induction ps with
  | nil => simp
  | cons a l ih =>
    simp only [List.map_cons, List.sum_cons]
    have h1 := h a (by simp)
    have h2 := ih (fun x hx => h x (List.mem_cons_of_mem _ hx))
    omega

theorem maxL_perm {a b : List Int} (h : a.Perm b) : maxL 0 a = maxL 0 b := by
  by_cases ha : a = []
  · subst ha; rw [h.nil_eq]
  · have hb : b ≠ [] := fun e => ha (by subst e; exact h.eq_nil)
    obtain ⟨a1, a2⟩ := P8.maxL_spec 0 a ha
    obtain ⟨b1, b2⟩ := P8.maxL_spec 0 b hb
    have := a1 _ (h.mem_iff.mpr b2)
    have := b1 _ (h.mem_iff.mp a2)
    omega

theorem minL_perm {a b : List Int} (h : a.Perm b) : minL 0 a = minL 0 b := by
  by_cases ha : a = []
  · subst ha; rw [h.nil_eq]
  · have hb : b ≠ [] := fun e => ha (by subst e; exact h.eq_nil)
    obtain ⟨a1, a2⟩ := P8.minL_spec 0 a ha
    obtain ⟨b1, b2⟩ := P8.minL_spec 0 b hb
    have := a1 _ (h.mem_iff.mpr b2)
    have := b1 _ (h.mem_iff.mp a2)
    omega

theorem maxL_mono {a b : List Int} (ha : a ≠ []) (h : ∀ x ∈ a, x ∈ b) : maxL 0 a ≤ maxL 0 b := by
  have hb : b ≠ [] := by
    intro e; subst e
    cases a with
    | nil => exact ha rfl
    | cons x _ => simpa using h x (by simp)
  exact (P8.maxL_spec 0 b hb).1 _ (h _ (P8.maxL_spec 0 a ha).2)

theorem minL_anti {a b : List Int} (ha : a ≠ []) (h : ∀ x ∈ a, x ∈ b) : minL 0 b ≤ minL 0 a := by
  have hb : b ≠ [] := by
    intro e; subst e
    cases a with
    | nil => exact ha rfl
    | cons x _ => simpa using h x (by simp)
  exact (P8.minL_spec 0 b hb).1 _ (h _ (P8.minL_spec 0 a ha).2)

/-- one criterion on a region, spelled out -/
theorem orphan_region (val : Nat → Int) (c : Crit) (ps : List Nat) :
    c.orphan val (Tree.node 0 ps []) =
      match c with
      | .minDelta d => decide (d ≤ maxL 0 (ps.map val) - minL 0 (ps.map val))
      | .minNpix n  => decide (n ≤ ps.length)
      | .minPeak x  => decide (x ≤ maxL 0 (ps.map val))
      | .minSum s   => decide (s ≤ sumVals val ps)
      | .seeds sd   => ps.any (fun p => sd.contains p) := by
  cases c <;> simp only [Crit.orphan, pixels_leaf, vmax_leaf, vmin_leaf] <;> rfl

/-! ## 1. permutation invariance -/

theorem orphan_region_perm (val : Nat → Int) (c : Crit) {ps qs : List Nat} (h : ps.Perm qs) :
    c.orphan val (Tree.node 0 ps []) = c.orphan val (Tree.node 0 qs []) := by
  rw [orphan_region, orphan_region]
  cases c <;> simp only
  · rw [maxL_perm (h.map val), minL_perm (h.map val)]
  · rw [h.length_eq]
  · rw [maxL_perm (h.map val)]
  · rw [sumVals_perm val h]
  · exact h.any_eq

theorem regionOK_perm (val : Nat → Int) (cs : List Crit) {ps qs : List Nat} (h : ps.Perm qs) :
    regionOK val cs ps = regionOK val cs qs := by
  unfold regionOK allOrphan
  exact List.all_congr rfl (fun c => orphan_region_perm val c h)

/-! ## 2. monotonicity -/

theorem orphan_region_append (val : Nat → Int) (S : Nat → Prop) (c : Crit) (hm : MonoCrit val S c)
    (ps rs : List Nat) (hS : ∀ x ∈ rs, S x) (hne : ps ≠ [])
    (h : c.orphan val (Tree.node 0 ps []) = true) : c.orphan val (Tree.node 0 (ps ++ rs) []) = true := by
  rw [orphan_region] at h ⊢
  have hne' : ps.map val ≠ [] := by simpa using hne
  have hsub : ∀ x ∈ ps.map val, x ∈ (ps ++ rs).map val := by
    intro x hx; rw [List.map_append]; exact List.mem_append_left _ hx
  have hmax := maxL_mono hne' hsub
  have hmin := minL_anti hne' hsub
  cases c with
  | minDelta d => simp only [decide_eq_true_eq] at h ⊢; omega
  | minNpix n => simp only [decide_eq_true_eq, List.length_append] at h ⊢; omega
  | minPeak x => simp only [decide_eq_true_eq] at h ⊢; omega
  | minSum s =>
    simp only [decide_eq_true_eq] at h ⊢
    rw [sumVals_append]
    have := sumVals_nonneg val rs (fun x hx => hm x (hS x hx))
    omega
  | seeds sd => simp only [List.any_append, Bool.or_eq_true] at h ⊢; exact Or.inl h

/-- growing a non-empty region keeps monotone criteria true -/
theorem regionOK_append (val : Nat → Int) (cs : List Crit) (S : Nat → Prop)
    (hm : ∀ c ∈ cs, MonoCrit val S c) (ps rs : List Nat) (hS : ∀ x ∈ rs, S x) (hne : ps ≠ [])
    (h : regionOK val cs ps = true) : regionOK val cs (ps ++ rs) = true := by
  unfold regionOK allOrphan at h ⊢
  rw [List.all_eq_true] at h ⊢
  intro c hc
  exact orphan_region_append val S c (hm c hc) ps rs hS hne (h c hc)

/-- growing a region up to a permutation -/
theorem regionOK_grow (val : Nat → Int) (cs : List Crit) (S : Nat → Prop)
    (hm : ∀ c ∈ cs, MonoCrit val S c) {ps rs qs : List Nat} (hperm : qs.Perm (ps ++ rs))
    (hS : ∀ x ∈ rs, S x) (hne : ps ≠ [])
    (h : regionOK val cs ps = true) : regionOK val cs qs = true := by
  rw [regionOK_perm val cs hperm]
  exact regionOK_append val cs S hm ps rs hS hne h

theorem regionOK_mono (val : Nat → Int) (cs : List Crit) (S : Nat → Prop)
    (hm : ∀ c ∈ cs, MonoCrit val S c) {ps qs : List Nat} (hsub : ps.Sublist qs)
    (hS : ∀ x ∈ qs, S x) (hne : ps ≠ []) :
    regionOK val cs ps = true → regionOK val cs qs = true := by
  intro h
  obtain ⟨rs, hrs⟩ := hsub.exists_perm_append
  exact regionOK_grow val cs S hm hrs
    (fun x hx => hS x (hrs.mem_iff.mpr (List.mem_append_right _ hx))) hne h

theorem exists_perm_append_of_subset {ps qs : List Nat} (hnd : ps.Nodup) (hsub : ∀ x ∈ ps, x ∈ qs) :
    ∃ rs, qs.Perm (ps ++ rs) := by
  induction ps generalizing qs with
  | nil => exact ⟨qs, by simp⟩
  | cons a l ih =>
    have ha : a ∈ qs := hsub a (by simp)
    have hnd' := List.nodup_cons.mp hnd
    obtain ⟨rs, hrs⟩ := ih (qs := qs.erase a) hnd'.2 (by
      intro x hx
      have hne : x ≠ a := fun e => hnd'.1 (e ▸ hx)
      exact (List.mem_erase_of_ne hne).mpr (hsub x (List.mem_cons_of_mem _ hx)))
    exact ⟨rs, (List.perm_cons_erase ha).trans (hrs.cons a)⟩

/-- the same for a duplicate-free sub-*set* -/
theorem regionOK_mono_subset (val : Nat → Int) (cs : List Crit) (S : Nat → Prop)
    (hm : ∀ c ∈ cs, MonoCrit val S c) {ps qs : List Nat} (hnd : ps.Nodup) (hsub : ∀ x ∈ ps, x ∈ qs)
    (hS : ∀ x ∈ qs, S x) (hne : ps ≠ []) :
    regionOK val cs ps = true → regionOK val cs qs = true := by
  intro h
  obtain ⟨rs, hrs⟩ := exists_perm_append_of_subset hnd hsub
  exact regionOK_grow val cs S hm hrs
    (fun x hx => hS x (hrs.mem_iff.mpr (List.mem_append_right _ hx))) hne h

/-! ## 3. a leaf kept at a meeting pixel: the region with the meeting pixel satisfies the criteria -/

theorem merge_indep_regionOK (val : Nat → Int) (cs : List Crit) (S : Nat → Prop)
    (hm : ∀ c ∈ cs, MonoCrit val S c) (t : Tree) (p : Nat) (hleaf : t.kids = []) (hown : t.own ≠ [])
    (hSp : S p) (h : allMerge val cs t p (val p) = true) :
    regionOK val cs (p :: t.pixels) = true := by
  obtain ⟨i, o, ks⟩ := t
  simp only [Tree.kids] at hleaf; subst hleaf
  simp only [Tree.own] at hown
  unfold regionOK allOrphan
  unfold allMerge at h
  rw [List.all_eq_true] at h ⊢
  intro c hc
  have h1 := h c hc
  rw [orphan_region, pixels_leaf]
  have hne' : o.map val ≠ [] := by simpa using hown
  have hsub : ∀ x ∈ o.map val, x ∈ (p :: o).map val := by
    intro x hx; rw [List.map_cons]; exact List.mem_cons_of_mem _ hx
  have hmax := maxL_mono hne' hsub
  have hmin : minL 0 ((p :: o).map val) ≤ val p :=
    (P8.minL_spec 0 ((p :: o).map val) (by simp)).1 _ (by simp)
  have hmc := hm c hc
  cases c with
  | minDelta d =>
    simp only [Crit.atMerge, vmax_leaf] at h1
    replace h1 := of_decide_eq_true h1
    apply decide_eq_true; omega
  | minNpix n =>
    simp only [Crit.atMerge, pixels_leaf] at h1
    replace h1 := of_decide_eq_true h1
    apply decide_eq_true; simp only [List.length_cons]; omega
  | minPeak x =>
    simp only [Crit.atMerge, vmax_leaf] at h1
    replace h1 := of_decide_eq_true h1
    apply decide_eq_true; omega
  | minSum s =>
    simp only [Crit.atMerge, pixels_leaf] at h1
    replace h1 := of_decide_eq_true h1
    apply decide_eq_true
    have e : sumVals val (p :: o) = val p + sumVals val o := by simp [sumVals_eq]
    have := hmc p hSp
    omega
  | seeds sd =>
    simp only [Crit.atMerge, pixels_leaf, List.any_cons, Bool.or_eq_true] at h1 ⊢
    exact Or.inr h1

/-! ## 4. every branch satisfies the criteria on its region -/

/-- the receiving structure holds the pixels of each adjacent root, the new pixel, and a rest -/
theorem joinAdj_pixels_split (E : Env) (p : Nat) (adj : List Tree) (u : Tree) (hu : u ∈ adj) :
    ∃ rs, (joinAdj E p adj).pixels.Perm (u.pixels ++ (p :: rs)) := by
  obtain ⟨a, b, rfl⟩ := List.append_of_mem hu
  refine ⟨pixelsL a ++ pixelsL b, (joinAdj_pixels E p _).trans ?_⟩
  rw [pixelsL_append]
  simp only [pixelsL]
  refine List.Perm.trans ?_ List.perm_middle.symm
  refine List.Perm.cons p ?_
  rw [← List.append_assoc, ← List.append_assoc]
  exact List.Perm.append_right _ List.perm_append_comm

theorem pixels_ne_nil_of_touches {E : Env} {p : Nat} {t : Tree} (h : touches E p t = true) :
    t.pixels ≠ [] := by
  obtain ⟨q, hq, _⟩ := (touches_iff E p t).mp h
  exact List.ne_nil_of_mem hq

theorem step_branch_regionOK (val : Nat → Int) (nbrs : Nat → List Nat) (cs : List Crit)
    (S : Nat → Prop) (hm : ∀ c ∈ cs, MonoCrit val S c) (roots : List Tree) (p : Nat) (pre : List Nat)
    (hpix : ∀ x, x ∈ pixelsL roots ↔ x ∈ pre) (hS : ∀ x ∈ pre ++ [p], S x)
    (h : ∀ t ∈ preL roots, t.kids ≠ [] → regionOK val cs t.pixels = true) :
    ∀ t ∈ preL (step (envOf val nbrs cs) roots p), t.kids ≠ [] → regionOK val cs t.pixels = true := by
  intro P hP hk
  rcases ContourP.step_node_cases _ roots p P hP with hP' | ⟨hPe, hn⟩
  · exact h P hP' hk
  · have hPS : ∀ x ∈ P.pixels, S x := by
      intro x hx
      have h1 := ContourP.pixels_sub_preL _ P hP x hx
      exact hS x ((ContourP.step_mem_pixels _ roots p pre hpix x).mp h1)
    have hSp : S p := hS p (by simp)
    -- growing from an adjacent root `u` whose region (possibly with `p`) satisfies the criteria
    have grow : ∀ u ∈ roots, touches (envOf val nbrs cs) p u = true →
        (regionOK val cs u.pixels = true ∨ regionOK val cs (p :: u.pixels) = true) →
        regionOK val cs P.pixels = true := by
      intro u hu htu hok
      obtain ⟨rs, hrs⟩ := joinAdj_pixels_split (envOf val nbrs cs) p _ u (ContourP.mem_adjOf.mpr ⟨hu, htu⟩)
      rw [← hPe] at hrs
      have hrsS : ∀ x ∈ p :: rs, S x := fun x hx => hPS x (hrs.mem_iff.mpr (List.mem_append_right _ hx))
      rcases hok with hok | hok
      · exact regionOK_grow val cs S hm hrs hrsS (pixels_ne_nil_of_touches htu) hok
      · refine regionOK_grow val cs S hm (ps := p :: u.pixels) (rs := rs) ?_
          (fun x hx => hrsS x (List.mem_cons_of_mem _ hx)) (by simp) hok
        exact hrs.trans List.perm_middle
    rcases hn with ⟨t, ht, htouch, _, hkids, _⟩ | ⟨_, hkL, _⟩
    · exact grow t ht htouch (Or.inl (h t (ContourP.root_mem_preL ht) (hkids ▸ hk)))
    · obtain ⟨L, hL⟩ := List.exists_mem_of_ne_nil _ hk
      obtain ⟨hLr, hLt, hLi⟩ := hkL L hL
      by_cases hleaf : L.kids = []
      · refine grow L hLr hLt (Or.inr ?_)
        have hpx : L.pixels = L.own := by rw [pixels_eq, hleaf]; simp [pixelsL]
        have hown : L.own ≠ [] := hpx ▸ pixels_ne_nil_of_touches hLt
        have hind : allMerge val cs L p (val p) = true := by
          simp only [insig, isLeaf, hleaf, List.isEmpty_nil, Bool.true_and, Bool.or_eq_false_iff,
            Bool.not_eq_false'] at hLi
          exact hLi.2
        exact merge_indep_regionOK val cs S hm L p hleaf hown hSp hind
      · exact grow L hLr hLt (Or.inl (h L (ContourP.root_mem_preL hLr) hleaf))

/-- general form of `run_branch_regionOK`: any order, any `S` containing the processed pixels -/
theorem run_branch_regionOK' (val : Nat → Int) (nbrs : Nat → List Nat) (cs : List Crit)
    (order : List Nat) (S : Nat → Prop) (hSo : ∀ x ∈ order, S x) (hm : ∀ c ∈ cs, MonoCrit val S c) :
    ∀ t ∈ preL (run (envOf val nbrs cs) order), t.kids ≠ [] → regionOK val cs t.pixels = true := by
  have key := run_induction_prefix (envOf val nbrs cs)
    (fun pre roots => (∀ x, x ∈ pixelsL roots ↔ x ∈ pre) ∧
      ((∀ x ∈ pre, S x) → ∀ t ∈ preL roots, t.kids ≠ [] → regionOK val cs t.pixels = true))
    ⟨by simp [pixelsL], by intro _ t ht; simp [preL] at ht⟩
    (by
      intro pre roots p ⟨hpix, hc⟩
      refine ⟨ContourP.step_mem_pixels _ roots p pre hpix, ?_⟩
      intro hS
      exact step_branch_regionOK val nbrs cs S hm roots p pre hpix hS
        (hc (fun x hx => hS x (List.mem_append_left _ hx))))
    order
  exact key.2 hSo

/-- **Main invariant.** Along a run with monotone criteria every branch satisfies the value-less
criteria on its region. -/
theorem run_branch_regionOK (val : Nat → Int) (nbrs : Nat → List Nat) (cs : List Crit)
    (order : List Nat) (hnd : order.Nodup) (hsorted : order.Pairwise (fun a b => val b ≤ val a))
    (hm : ∀ c ∈ cs, MonoCrit val (fun x => x ∈ order) c) :
    ∀ t ∈ preL (run (envOf val nbrs cs) order), t.kids ≠ [] → regionOK val cs t.pixels = true := by
  have _ := hnd
  have _ := hsorted
  exact run_branch_regionOK' val nbrs cs order (fun x => x ∈ order) (fun _ hx => hx) hm

/-! ## 5. which parentless structures survive `_make_trunk` -/

theorem orphan_leaf (val : Nat → Int) (c : Crit) (i : Nat) (o : List Nat) :
    c.orphan val (Tree.node i o []) = c.orphan val (Tree.node 0 o []) := by
  cases c <;> simp only [Crit.orphan, pixels_leaf, vmax_leaf, vmin_leaf] <;> rfl

/-- on a leaf the value-less criteria read the region only -/
theorem allOrphan_leaf (val : Nat → Int) (cs : List Crit) (t : Tree) (hleaf : t.kids = []) :
    allOrphan val cs t = regionOK val cs t.pixels := by
  obtain ⟨i, o, ks⟩ := t
  simp only [Tree.kids] at hleaf; subst hleaf
  rw [pixels_leaf]
  unfold regionOK allOrphan
  exact List.all_congr rfl (fun c => orphan_leaf val c i o)

theorem root_survives_iff' (val : Nat → Int) (nbrs : Nat → List Nat) (cs : List Crit)
    (order : List Nat) (S : Nat → Prop) (hSo : ∀ x ∈ order, S x) (hm : ∀ c ∈ cs, MonoCrit val S c) :
    ∀ t ∈ run (envOf val nbrs cs) order,
      (t ∈ makeTrunk (envOf val nbrs cs) (run (envOf val nbrs cs) order) ↔
        regionOK val cs t.pixels = true) := by
  intro t ht
  rw [ContourP.mem_makeTrunk]
  by_cases hleaf : t.kids = []
  · have e : (envOf val nbrs cs).indepOrphan t = regionOK val cs t.pixels := allOrphan_leaf val cs t hleaf
    rw [e]
    simp [isLeaf, hleaf, ht]
  · have hok := run_branch_regionOK' val nbrs cs order S hSo hm t (ContourP.root_mem_preL ht) hleaf
    simp [isLeaf, hleaf, ht, hok]

/-- **A parentless structure survives `_make_trunk` iff the criteria hold on its region.** -/
theorem root_survives_iff (val : Nat → Int) (nbrs : Nat → List Nat) (cs : List Crit)
    (order : List Nat) (hnd : order.Nodup) (hsorted : order.Pairwise (fun a b => val b ≤ val a))
    (hm : ∀ c ∈ cs, MonoCrit val (fun x => x ∈ order) c) :
    ∀ t ∈ run (envOf val nbrs cs) order,
      (t ∈ makeTrunk (envOf val nbrs cs) (run (envOf val nbrs cs) order) ↔
        regionOK val cs t.pixels = true) := by
  have _ := hnd
  have _ := hsorted
  exact root_survives_iff' val nbrs cs order (fun x => x ∈ order) (fun _ hx => hx) hm

/-! ## 6. the regions of the parentless structures do not depend on the order -/

theorem root_pixels_nodup {l : List Tree} (h : (pixelsL l).Nodup) {t : Tree} (ht : t ∈ l) :
    t.pixels.Nodup := by
  obtain ⟨a, b, rfl⟩ := List.append_of_mem ht
  rw [pixelsL_append] at h
  simp only [pixelsL] at h
  exact (List.nodup_append.mp (List.nodup_append.mp h).2.1).1

/-- a pixel lies in at most one root -/
theorem root_unique {l : List Tree} (h : (pixelsL l).Nodup) {t t' : Tree} (ht : t ∈ l) (ht' : t' ∈ l)
    {p : Nat} (hp : p ∈ t.pixels) (hp' : p ∈ t'.pixels) : t = t' := by
  induction l with
  | nil => simp at ht
  | cons u us ih =>
    simp only [pixelsL] at h
    have hd := List.nodup_append.mp h
    rcases List.mem_cons.mp ht with e | h1 <;> rcases List.mem_cons.mp ht' with e' | h1'
    · rw [e, e']
    · subst e; exact absurd rfl (hd.2.2 p hp p (mem_pixelsL.mpr ⟨t', h1', hp'⟩))
    · subst e'; exact absurd rfl (hd.2.2 p hp' p (mem_pixelsL.mpr ⟨t, h1, hp⟩))
    · exact ih hd.2.1 h1 h1'

theorem run_pixels_nodup (E : Env) (order : List Nat) (hnd : order.Nodup) :
    (pixelsL (run E order)).Nodup :=
  ((run_pixels E order).trans (List.reverse_perm order)).nodup_iff.mpr hnd

theorem run_mem_pixels (E : Env) (order : List Nat) (x : Nat) :
    x ∈ pixelsL (run E order) ↔ x ∈ order := by
  rw [(run_pixels E order).mem_iff]; simp

/-- the roots containing `p` in two runs over the same pixels: inclusion of regions -/
theorem same_root_sub (E : Env) (hsym : ∀ x y, y ∈ E.nbrs x → x ∈ E.nbrs y) (oA oB : List Nat)
    (hperm : oA.Perm oB) (hnd : oA.Nodup) {tA tB : Tree} (hA : tA ∈ run E oA) (hB : tB ∈ run E oB)
    {p : Nat} (hpA : p ∈ tA.pixels) (hpB : p ∈ tB.pixels) : ∀ x ∈ tA.pixels, x ∈ tB.pixels := by
  intro x hx
  have hndB : oB.Nodup := hperm.nodup_iff.mp hnd
  have hpo : p ∈ oA := (run_mem_pixels E oA p).mp (mem_pixelsL.mpr ⟨tA, hA, hpA⟩)
  have hxo : x ∈ oA := (run_mem_pixels E oA x).mp (mem_pixelsL.mpr ⟨tA, hA, hx⟩)
  have hc := (P21.trunk_eq_components E hsym oA hnd p x hpo hxo).mp ⟨tA, hA, hpA, hx⟩
  have hc' : Conn E.nbrs (fun y => y ∈ oB) p x := hc.mono (fun y hy => hperm.mem_iff.mp hy)
  obtain ⟨t, ht, hpt, hxt⟩ := (P21.trunk_eq_components E hsym oB hndB p x
    (hperm.mem_iff.mp hpo) (hperm.mem_iff.mp hxo)).mpr hc'
  have e : t = tB := root_unique (run_pixels_nodup E oB hndB) ht hB hpt hpB
  exact e ▸ hxt

/-- the root containing `p` in one run has the same region as the root containing `p` in any
other run over the same pixels (any criteria) -/
theorem root_transfer (E : Env) (hsym : ∀ x y, y ∈ E.nbrs x → x ∈ E.nbrs y) (o₁ o₂ : List Nat)
    (hperm : o₁.Perm o₂) (hnd : o₁.Nodup) {t₁ : Tree} (h₁ : t₁ ∈ run E o₁) {p : Nat}
    (hp : p ∈ t₁.pixels) : ∃ t₂ ∈ run E o₂, p ∈ t₂.pixels ∧ t₁.pixels.Perm t₂.pixels := by
  have hnd₂ : o₂.Nodup := hperm.nodup_iff.mp hnd
  have hpo : p ∈ o₁ := (run_mem_pixels E o₁ p).mp (mem_pixelsL.mpr ⟨t₁, h₁, hp⟩)
  obtain ⟨t₂, h₂, hp₂⟩ := mem_pixelsL.mp ((run_mem_pixels E o₂ p).mpr (hperm.mem_iff.mp hpo))
  refine ⟨t₂, h₂, hp₂, ?_⟩
  rw [List.perm_ext_iff_of_nodup (root_pixels_nodup (run_pixels_nodup E o₁ hnd) h₁)
    (root_pixels_nodup (run_pixels_nodup E o₂ hnd₂) h₂)]
  intro x
  exact ⟨same_root_sub E hsym o₁ o₂ hperm hnd h₁ h₂ hp hp₂ x,
    same_root_sub E hsym o₂ o₁ hperm.symm hnd₂ h₂ h₁ hp₂ hp x⟩

/-- a surviving root of run 1 has a surviving counterpart with the same region in run 2 -/
theorem trunk_transfer (val : Nat → Int) (nbrs : Nat → List Nat) (cs : List Crit) (o₁ o₂ : List Nat)
    (hsym : ∀ x y, y ∈ nbrs x → x ∈ nbrs y) (hperm : o₁.Perm o₂) (hnd : o₁.Nodup)
    (S : Nat → Prop) (hSo : ∀ x ∈ o₁, S x) (hm : ∀ c ∈ cs, MonoCrit val S c)
    {t₁ : Tree} (h₁ : t₁ ∈ makeTrunk (envOf val nbrs cs) (run (envOf val nbrs cs) o₁))
    {p : Nat} (hp : p ∈ t₁.pixels) :
    ∃ t₂ ∈ makeTrunk (envOf val nbrs cs) (run (envOf val nbrs cs) o₂),
      p ∈ t₂.pixels ∧ t₁.pixels.Perm t₂.pixels := by
  have hr₁ : t₁ ∈ run (envOf val nbrs cs) o₁ := (ContourP.mem_makeTrunk.mp h₁).1
  have hok₁ := (root_survives_iff' val nbrs cs o₁ S hSo hm t₁ hr₁).mp h₁
  obtain ⟨t₂, hr₂, hp₂, hpp⟩ := root_transfer (envOf val nbrs cs) hsym o₁ o₂ hperm hnd hr₁ hp
  have hSo₂ : ∀ x ∈ o₂, S x := fun x hx => hSo x (hperm.mem_iff.mpr hx)
  refine ⟨t₂, ?_, hp₂, hpp⟩
  rw [root_survives_iff' val nbrs cs o₂ S hSo₂ hm t₂ hr₂, ← regionOK_perm val cs hpp]
  exact hok₁

/-- general form of `assigned_order_independent`: no sortedness needed -/
theorem assigned_order_independent' (val : Nat → Int) (nbrs : Nat → List Nat) (cs : List Crit)
    (o₁ o₂ : List Nat) (hsym : ∀ x y, y ∈ nbrs x → x ∈ nbrs y) (hperm : o₁.Perm o₂) (hnd : o₁.Nodup)
    (hm : ∀ c ∈ cs, MonoCrit val (fun x => x ∈ o₁) c) :
    ∀ p, p ∈ pixelsL (makeTrunk (envOf val nbrs cs) (run (envOf val nbrs cs) o₁)) ↔
      p ∈ pixelsL (makeTrunk (envOf val nbrs cs) (run (envOf val nbrs cs) o₂)) := by
  intro p
  constructor
  · intro h
    obtain ⟨t₁, h₁, hp⟩ := mem_pixelsL.mp h
    obtain ⟨t₂, h₂, hp₂, _⟩ := trunk_transfer val nbrs cs o₁ o₂ hsym hperm hnd (fun x => x ∈ o₁)
      (fun _ hx => hx) hm h₁ hp
    exact mem_pixelsL.mpr ⟨t₂, h₂, hp₂⟩
  · intro h
    obtain ⟨t₂, h₂, hp⟩ := mem_pixelsL.mp h
    obtain ⟨t₁, h₁, hp₁, _⟩ := trunk_transfer val nbrs cs o₂ o₁ hsym hperm.symm
      (hperm.nodup_iff.mp hnd) (fun x => x ∈ o₁) (fun _ hx => hperm.mem_iff.mpr hx) hm h₂ hp
    exact mem_pixelsL.mpr ⟨t₁, h₁, hp₁⟩

/-- **Main theorem (C16 / C17, ties clause).** With monotone criteria the set of pixels assigned by
`compute` is the same for any two admissible processing orders of the same pixels. -/
theorem assigned_order_independent (val : Nat → Int) (nbrs : Nat → List Nat) (cs : List Crit)
    (o₁ o₂ : List Nat) (hsym : ∀ x y, y ∈ nbrs x → x ∈ nbrs y) (hperm : o₁.Perm o₂) (hnd : o₁.Nodup)
    (hs₁ : o₁.Pairwise (fun a b => val b ≤ val a)) (hs₂ : o₂.Pairwise (fun a b => val b ≤ val a))
    (hm : ∀ c ∈ cs, MonoCrit val (fun x => x ∈ o₁) c) :
    ∀ p, p ∈ pixelsL (makeTrunk (envOf val nbrs cs) (run (envOf val nbrs cs) o₁)) ↔
      p ∈ pixelsL (makeTrunk (envOf val nbrs cs) (run (envOf val nbrs cs) o₂)) := by
  have _ := hs₁
  have _ := hs₂
  exact assigned_order_independent' val nbrs cs o₁ o₂ hsym hperm hnd hm

/-! ## 7. the regions of the trunk -/

theorem trunk_regions_order_independent' (val : Nat → Int) (nbrs : Nat → List Nat) (cs : List Crit)
    (o₁ o₂ : List Nat) (hsym : ∀ x y, y ∈ nbrs x → x ∈ nbrs y) (hperm : o₁.Perm o₂) (hnd : o₁.Nodup)
    (hm : ∀ c ∈ cs, MonoCrit val (fun x => x ∈ o₁) c) :
    ∀ t₁ ∈ makeTrunk (envOf val nbrs cs) (run (envOf val nbrs cs) o₁),
      ∃ t₂ ∈ makeTrunk (envOf val nbrs cs) (run (envOf val nbrs cs) o₂), t₁.pixels.Perm t₂.pixels := by
  intro t₁ h₁
  have hr₁ : t₁ ∈ run (envOf val nbrs cs) o₁ := (ContourP.mem_makeTrunk.mp h₁).1
  have hown := run_own_nonempty (envOf val nbrs cs) o₁ t₁ (ContourP.root_mem_preL hr₁)
  obtain ⟨p, hp⟩ := List.exists_mem_of_ne_nil _ hown
  obtain ⟨t₂, h₂, _, hpp⟩ := trunk_transfer val nbrs cs o₁ o₂ hsym hperm hnd (fun x => x ∈ o₁)
    (fun _ hx => hx) hm h₁ (ContourP.own_pixels_sub t₁ hp)
  exact ⟨t₂, h₂, hpp⟩

/-- **Region version.** Every trunk structure of one run has a trunk structure with the same
region in the other run. -/
theorem trunk_regions_order_independent (val : Nat → Int) (nbrs : Nat → List Nat) (cs : List Crit)
    (o₁ o₂ : List Nat) (hsym : ∀ x y, y ∈ nbrs x → x ∈ nbrs y) (hperm : o₁.Perm o₂) (hnd : o₁.Nodup)
    (hs₁ : o₁.Pairwise (fun a b => val b ≤ val a)) (hs₂ : o₂.Pairwise (fun a b => val b ≤ val a))
    (hm : ∀ c ∈ cs, MonoCrit val (fun x => x ∈ o₁) c) :
    ∀ t₁ ∈ makeTrunk (envOf val nbrs cs) (run (envOf val nbrs cs) o₁),
      ∃ t₂ ∈ makeTrunk (envOf val nbrs cs) (run (envOf val nbrs cs) o₂), t₁.pixels.Perm t₂.pixels := by
  have _ := hs₁
  have _ := hs₂
  exact trunk_regions_order_independent' val nbrs cs o₁ o₂ hsym hperm hnd hm

/-! ## 8. non-vacuity and sharpness -/

namespace Ex

/-- a row of 5 pixels -/
def row5 (p : Nat) : List Nat :=
  (List.range 5).filter (fun q => decide (p < 5 ∧ (q + 1 = p ∨ p + 1 = q)))
/-- a periodic row of 5 pixels -/
def ring5 (p : Nat) : List Nat := if p < 5 then [(p + 4) % 5, (p + 1) % 5] else []

theorem row5_symm : ∀ x y, y ∈ row5 x → x ∈ row5 y := by
  intro x y h
  simp only [row5, List.mem_filter, List.mem_range, decide_eq_true_eq] at h ⊢
  omega

theorem ring5_symm : ∀ x y, y ∈ ring5 x → x ∈ ring5 y := by
  intro x y h
  unfold ring5 at h ⊢
  by_cases hx : x < 5
  · simp only [hx, if_true, List.mem_cons, List.not_mem_nil, or_false] at h
    have hy : y < 5 := by omega
    simp only [hy, if_true, List.mem_cons, List.not_mem_nil, or_false]
    omega
  · simp [hx] at h

/-- a plateau `1 1 1` between two peaks, `min_npix = 2` -/
def vA (p : Nat) : Int := [2, 1, 1, 1, 2].getD p 0
def EA : Env := envOf vA row5 [Crit.minNpix 2]
def oA₁ : List Nat := [0, 4, 1, 2, 3]
def oA₂ : List Nat := [0, 4, 1, 3, 2]

/-- both orders are admissible -/
example : sortedDesc vA oA₁ = true ∧ sortedDesc vA oA₂ = true := by decide
/-- they give different forests: a single leaf, and a branch with two leaves -/
example : (preL (run EA oA₁)).length = 1 ∧ (preL (run EA oA₂)).length = 3 := by decide
/-- … but the same assigned pixels (evaluated) -/
example : ∀ p, p < 5 → (p ∈ pixelsL (makeTrunk EA (run EA oA₁)) ↔
    p ∈ pixelsL (makeTrunk EA (run EA oA₂))) := by decide
/-- … and the main theorem applies: all its hypotheses hold here -/
example : ∀ p, p ∈ pixelsL (makeTrunk EA (run EA oA₁)) ↔ p ∈ pixelsL (makeTrunk EA (run EA oA₂)) :=
  assigned_order_independent vA row5 [Crit.minNpix 2] oA₁ oA₂ row5_symm (by decide) (by decide)
    (by decide) (by decide) (by intro c hc; simp at hc; subst hc; trivial)

/-- sharpness: `min_sum = -2` with negative values on a periodic row -/
def vB (p : Nat) : Int := [-3, -2, -3, -2, -3].getD p 0
def EB : Env := envOf vB ring5 [Crit.minSum (-2)]
def oB₁ : List Nat := [1, 3, 2, 0, 4]
def oB₂ : List Nat := [1, 3, 0, 2, 4]

/-- both orders are admissible, they are permutations of each other without repetition -/
example : sortedDesc vB oB₁ = true ∧ sortedDesc vB oB₂ = true ∧ oB₁.Perm oB₂ ∧ oB₁.Nodup := by decide
example : oB₁.Pairwise (fun a b => vB b ≤ vB a) ∧ oB₂.Pairwise (fun a b => vB b ≤ vB a) := by decide
/-- the first order assigns every pixel, the second none: without `MonoCrit` the assigned set
depends on the order among equal values -/
example : pixelsL (makeTrunk EB (run EB oB₁)) = [2, 0, 4, 1, 3] ∧
    pixelsL (makeTrunk EB (run EB oB₂)) = [] := by decide
example : pixelsL (makeTrunk EB (run EB oB₁)) ≠ pixelsL (makeTrunk EB (run EB oB₂)) := by decide
example : ¬ ∀ p, p ∈ pixelsL (makeTrunk EB (run EB oB₁)) ↔ p ∈ pixelsL (makeTrunk EB (run EB oB₂)) := by
  intro h; exact absurd ((h 0).mp (by decide)) (by decide)
/-- the hypothesis that fails -/
example : ¬ MonoCrit vB (fun x => x ∈ oB₁) (Crit.minSum (-2)) := by
  intro h; exact absurd (h 0 (by decide)) (by decide)

end Ex

end P32
