import ADProofs.Partition
import ADProofs.Conn
/-! C03 one-step lemmas: roots stay internally connected and mutually non-adjacent -/
open Tree

def PixConn (E : Env) (t : Tree) : Prop := ConnSet E.nbrs (fun x => x ∈ t.pixels)

theorem touches_iff (E : Env) (p : Nat) (t : Tree) : touches E p t = true ↔ ∃ q, q ∈ t.pixels ∧ q ∈ E.nbrs p := by
  simp [touches, List.any_eq_true]; constructor
  · rintro ⟨q, h1, h2⟩; exact ⟨q, h2, h1⟩
  · rintro ⟨q, h1, h2⟩; exact ⟨q, h2, h1⟩

theorem joinAdj_conn (E : Env) (hsym : ∀ x y, y ∈ E.nbrs x → x ∈ E.nbrs y) (p : Nat) (adj : List Tree)
    (hconn : ∀ t ∈ adj, PixConn E t) (htouch : ∀ t ∈ adj, touches E p t = true) :
    PixConn E (joinAdj E p adj) := by
  have hstar := star_join E.nbrs hsym p (adj.map (fun t x => x ∈ t.pixels))
    (by
      intro P hP; simp only [List.mem_map] at hP
      obtain ⟨t, ht, rfl⟩ := hP; exact hconn t ht)
    (by
      intro P hP; simp only [List.mem_map] at hP
      obtain ⟨t, ht, rfl⟩ := hP
      exact (touches_iff E p t).mp (htouch t ht))
  refine connSet_congr ?_ hstar
  intro x
  have hperm := joinAdj_pixels E p adj
  rw [hperm.mem_iff]
  simp only [List.mem_cons, mem_pixelsL, List.mem_map]
  constructor
  · rintro (h | ⟨P, ⟨t, ht, rfl⟩, hx⟩)
    · exact Or.inl h
    · exact Or.inr ⟨t, ht, hx⟩
  · rintro (h | ⟨t, ht, hx⟩)
    · exact Or.inl h
    · exact Or.inr ⟨_, ⟨t, ht, rfl⟩, hx⟩

theorem step_roots_conn (E : Env) (hsym : ∀ x y, y ∈ E.nbrs x → x ∈ E.nbrs y) (roots : List Tree) (p : Nat)
    (h : ∀ t ∈ roots, PixConn E t) : ∀ t ∈ step E roots p, PixConn E t := by
  intro t ht
  unfold step at ht
  rcases List.mem_append.mp ht with ht | ht
  · exact h t (List.mem_filter.mp ht).1
  · simp only [List.mem_singleton] at ht; subst ht
    apply joinAdj_conn E hsym
    · intro t ht; exact h t (List.mem_filter.mp ((sortById_perm _).mem_iff.mp ht)).1
    · intro t ht; exact (List.mem_filter.mp ((sortById_perm _).mem_iff.mp ht)).2

/-- no adjacency between pixels of distinct roots -/
def Closed (E : Env) (roots : List Tree) : Prop :=
  ∀ t ∈ roots, ∀ t' ∈ roots, t ≠ t' → ∀ a ∈ t.pixels, ∀ b ∈ t'.pixels, b ∉ E.nbrs a

theorem step_closed (E : Env) (hsym : ∀ x y, y ∈ E.nbrs x → x ∈ E.nbrs y) (roots : List Tree) (p : Nat)
    (h : Closed E roots) : Closed E (step E roots p) := by
  have key : ∀ t ∈ roots.filter (fun t => !touches E p t), ∀ a ∈ t.pixels,
      ∀ b ∈ (joinAdj E p (sortById (roots.filter (touches E p)))).pixels, b ∉ E.nbrs a ∧ a ∉ E.nbrs b := by
    intro t ht a ha b hb
    have htr := List.mem_filter.mp ht
    have hnt : touches E p t = false := by simpa using htr.2
    rw [(joinAdj_pixels E p _).mem_iff] at hb
    rcases List.mem_cons.mp hb with rfl | hb
    · have hno : ¬ ∃ q, q ∈ t.pixels ∧ q ∈ E.nbrs b := by
        intro hq; have := (touches_iff E b t).mpr hq; simp [hnt] at this
      exact ⟨fun hba => hno ⟨a, ha, hsym _ _ hba⟩, fun hab => hno ⟨a, ha, hab⟩⟩
    · obtain ⟨u, hu, hbu⟩ := mem_pixelsL.mp hb
      have hu' := List.mem_filter.mp ((sortById_perm _).mem_iff.mp hu)
      have hne : t ≠ u := by intro e; subst e; simp [hnt] at hu'
      exact ⟨h t htr.1 u hu'.1 hne a ha b hbu, h u hu'.1 t htr.1 (Ne.symm hne) b hbu a ha⟩
  intro t ht t' ht' hne a ha b hb
  unfold step at ht ht'
  rcases List.mem_append.mp ht with ht | ht <;> rcases List.mem_append.mp ht' with ht' | ht'
  · exact h t (List.mem_filter.mp ht).1 t' (List.mem_filter.mp ht').1 hne a ha b hb
  · simp only [List.mem_singleton] at ht'; subst ht'
    exact (key t ht a ha b hb).1
  · simp only [List.mem_singleton] at ht; subst ht
    exact (key t' ht' b hb a ha).2
  · simp only [List.mem_singleton] at ht ht'; exact absurd (ht.trans ht'.symm) hne
