import ADModel.PruneOrig
import ADProofs.IndexProofs
import ADProofs.PruneComputeProofs
/-!
# ADProofs.PruneOrigProofs — pruning with the ORIGINAL-MERGE-LEVEL rule equals computing with the
stricter parameters, for `min_delta` and `min_npix` together (property C08 for the corrected
post-hoc rule `allChildOrig`)

Setting: thresholds `d0 ≤ d1`, `n0 ≤ n1`, an order of distinct pixels sorted by non-increasing
value (ties allowed), any adjacency.  This generalises `P18.prune_eq_compute_npix`; the method is the
same (declarative collapse, nested finishing, confluence of the pruning scan), with one new
ingredient: the test that decides whether a (collapsed) child is absorbed depends on a *level*.

* `failsAt lv`, `bdAt lv`            : "fewer than `n` pixels, or no pixel reaches `lv + d`"; a leaf
  that fails at level `lv`
* `collapse L`                       : declarative pruning; the child `c` of node `i` is tested at
  level `L i c.id`.  Two instances: `LS` (level = value of the parent's identifier — what the run
  does, identifiers being creating pixels) and `LP lev` (level looked up by the child's identifier —
  what `prune` with `allChildOrig` does, also after adoption by a grandparent)
* `collapse_nested`                  : collapsing a finished node = finishing the collapsed children
  with the combined test (`P18.collapse_finishG` with levels)
* `insig_rel`, `joinAdj_rel`, `step_rel`, `run_collapse` : the run-level simulation — the strict run's
  roots are the `LS`-collapsed roots of the loose run
* `lookup_orig`, `run_head_id`, `lookup_loose` : the key lemma `lookupLevel tbl c.id = some (val P.id)`
  for every parent/child pair of the loose trunk; `childOrig_eq_merge` (post-hoc test with the
  original level = merge-time test at the creating pixel of the original parent)
* `pruneIn_collapse`, `pruneLoop_collapse`, `collapse_fix_aux`, `pruneLoop_eq_collapse` : the pruning
  loop computes the `LP`-collapse of the loose trunk
* `pruneOrig_eq_compute`             : MAIN (the full target; the hypothesis `0 ≤ d0` of the task is not needed)

Core Lean only.
-/
open Tree

namespace P28

open P10 (Sim SimL PR F2 ownL)
open P18 (Sm SmL finishG XG YG)

/-! ## generalities -/

theorem pr_mono {α β : Type} {R S : α → β → Prop} {l : List α} {l' : List β} (h : PR R l l')
    (hrs : ∀ x y, R x y → S x y) : PR S l l' := by
  obtain ⟨m, f, pm⟩ := h
  refine ⟨m, ?_, pm⟩
  clear pm
  induction f with
  | nil => exact .nil
  | cons hxy _ ih => exact .cons (hrs _ _ hxy) ih

theorem f2_pr {α β : Type} {R : α → β → Prop} {l : List α} {l' : List β} (h : F2 R l l') :
    PR R l l' := ⟨l', h, List.Perm.refl _⟩

/-- `finishG_sim` for a relation finer than similarity (used with "similar and same identifier") -/
theorem finishG_simR {R : Tree → Tree → Prop} (hR : ∀ c c', R c c' → Sm c c')
    {bad bad' : Tree → Bool} {i i' : Nat} {o o' : List Nat} {cs cs' : List Tree}
    (ho : o'.Perm o) (hcs : PR R cs cs')
    (hb : ∀ c ∈ cs, ∀ c', R c c' → bad c = bad' c') :
    Sm (finishG bad i o cs) (finishG bad' i' o' cs') := by
  have hm : SmL (cs.filter bad) (cs'.filter bad') :=
    P10.simL_iff.mpr (pr_mono (hcs.filter hb) hR)
  have hk : SmL (cs.filter (fun c => !bad c)) (cs'.filter (fun c => !bad' c)) :=
    P10.simL_iff.mpr (pr_mono (hcs.filter (fun c hc c' h => by rw [hb c hc c' h])) hR)
  have hlen := hk.length_eq
  unfold finishG XG YG
  rw [← hlen]
  by_cases hc : (cs.filter (fun c => !bad c)).length ≤ 1
  · simp only [hc, if_true]
    apply P18.Sm.of'
    · simp only [PruneP.own_node]
      exact ho.append ((P18.SmL.ownL' hm).append (P18.SmL.ownL' hk))
    · simp only [PruneP.kids_node]
      exact P18.flatMap_kids_le_one_sim hk hc
  · simp only [hc, if_false]
    apply P18.Sm.of'
    · simp only [PruneP.own_node]
      exact ho.append ((P18.SmL.ownL' hm).append (List.Perm.refl _))
    · simp only [PruneP.kids_node]
      exact hk

/-- changing the order of the own pixels (and the identifier) of a finished node -/
theorem finishG_own (b : Tree → Bool) (i i' : Nat) {o o' : List Nat} (cs : List Tree)
    (ho : o'.Perm o) : Sm (finishG b i o cs) (finishG b i' o' cs) := by
  unfold finishG
  exact P18.Sm.of' (ho.append (List.Perm.refl _)) (P18.SmL.refl _)

theorem smL_map {f : Tree → Tree} {l : List Tree} (h : ∀ k ∈ l, Sm k (f k)) : SmL l (l.map f) := by
  induction l with
  | nil => exact .nil
  | cons k ks ih =>
    exact .cons (h k (by simp)) (ih (fun x hx => h x (List.mem_cons_of_mem _ hx))) (List.Perm.refl _)

theorem leaf_eq {t : Tree} (h : t.kids = []) : t = node t.id t.own [] := by
  cases t with | node i o ks =>
  simp only [PruneP.kids_node] at h
  subst h; rfl

/-! ## the level-dependent test -/

section Test
variable (val : Nat → Int) (d : Int) (n : Nat)

/-- the region of `t` fails at level `lv`: fewer than `n` pixels, or no pixel reaches `lv + d` -/
def failsAt (lv : Int) (t : Tree) : Bool :=
  decide (t.pixels.length < n) || t.pixels.all (fun x => decide (val x - lv < d))

/-- a leaf failing at level `lv` -/
def bdAt (lv : Int) (t : Tree) : Bool := t.isLeaf && failsAt val d n lv t

theorem all_perm {l l' : List Nat} (h : l.Perm l') (f : Nat → Bool) : l.all f = l'.all f := by
  rw [Bool.eq_iff_iff, List.all_eq_true, List.all_eq_true]
  exact ⟨fun hh x hx => hh x (h.symm.subset hx), fun hh x hx => hh x (h.subset hx)⟩

theorem failsAt_perm {lv : Int} {c c' : Tree} (h : c'.pixels.Perm c.pixels) :
    failsAt val d n lv c = failsAt val d n lv c' := by
  simp only [failsAt, h.length_eq, all_perm h]

theorem failsAt_sim {lv : Int} {c c' : Tree} (h : Sm c c') :
    failsAt val d n lv c = failsAt val d n lv c' := failsAt_perm val d n (P18.Sm.pixels' h)

theorem bdAt_sim {lv : Int} {c c' : Tree} (h : Sm c c') : bdAt val d n lv c = bdAt val d n lv c' := by
  simp only [bdAt, failsAt_sim val d n h, P18.Sm.isLeaf' h]

theorem bdAt_leaf {lv : Int} {c : Tree} (h : bdAt val d n lv c = true) : c.kids = [] := by
  simp only [bdAt, Bool.and_eq_true] at h
  exact (PruneP.isLeaf_iff c).mp h.1

/-- on a leaf with own pixels the region test is the test on `vmax` and the pixel count -/
theorem leaf_test {lv : Int} {t : Tree} (hk : t.kids = []) (hne : t.own ≠ []) :
    (decide (d ≤ t.vmax val - lv) && (decide (n ≤ t.pixels.length) && true)) =
      !failsAt val d n lv t := by
  have hp : t.pixels = t.own := by rw [pixels_eq, hk]; simp [pixelsL]
  obtain ⟨a, ha, hv⟩ := ContourP.vmax_attained val t hne
  have hall : t.pixels.all (fun x => decide (val x - lv < d)) = decide (t.vmax val - lv < d) := by
    rw [Bool.eq_iff_iff, List.all_eq_true, hp]
    simp only [decide_eq_true_eq]
    constructor
    · intro h; have := h a ha; omega
    · intro h x hx; have := ContourP.le_vmax val t x hx; omega
  simp only [failsAt, hall, Bool.and_true]
  by_cases h1 : d ≤ t.vmax val - lv <;> by_cases h2 : n ≤ t.pixels.length <;> simp [h1, h2] <;> omega

theorem failsAt_mono {d' : Int} {n' : Nat} (hd : d ≤ d') (hn : n ≤ n') {lv : Int} {t : Tree}
    (h : failsAt val d n lv t = true) : failsAt val d' n' lv t = true := by
  simp only [failsAt, Bool.or_eq_true, decide_eq_true_eq, List.all_eq_true] at h ⊢
  rcases h with h | h
  · left; omega
  · right; intro x hx; have := h x hx; omega

end Test

/-! ## the declarative collapse with levels -/

section Collapse
variable (val : Nat → Int) (d : Int) (n : Nat)

/-- badness of a (collapsed) child `c` of the node `i`, levels given by `L parent child` -/
abbrev bdL (L : Nat → Nat → Int) (i : Nat) (c : Tree) : Bool := bdAt val d n (L i c.id) c

mutual
/-- bottom-up: collapse the children, absorb those that have become failing leaves (each at its
own level), dissolve a single remaining child -/
def collapse (L : Nat → Nat → Int) : Tree → Tree
  | node i o ks => finishG (bdL val d n L i) i o (collapseL L ks)
def collapseL (L : Nat → Nat → Int) : List Tree → List Tree
  | [] => []
  | t :: ts => collapse L t :: collapseL L ts
end

variable (L : Nat → Nat → Int)

theorem collapseL_eq_map (l : List Tree) : collapseL val d n L l = l.map (collapse val d n L) := by
  induction l with
  | nil => rfl
  | cons t ts ih => simp [collapseL, ih]

theorem collapse_node (i : Nat) (o : List Nat) (ks : List Tree) :
    collapse val d n L (node i o ks) =
      finishG (bdL val d n L i) i o (ks.map (collapse val d n L)) := by
  simp [collapse, collapseL_eq_map]

theorem collapse_eq (t : Tree) :
    collapse val d n L t =
      finishG (bdL val d n L t.id) t.id t.own (t.kids.map (collapse val d n L)) := by
  cases t with | node i o ks => simp [collapse_node]

theorem collapse_id (t : Tree) : (collapse val d n L t).id = t.id := by
  rw [collapse_eq]; rfl

theorem collapse_leaf {t : Tree} (h : t.kids = []) : collapse val d n L t = t := by
  rw [collapse_eq, h, List.map_nil, P18.finishG_nil]
  exact (leaf_eq h).symm

theorem collapse_pixels_aux :
    (∀ t : Tree, (collapse val d n L t).pixels.Perm t.pixels) ∧
    (∀ l : List Tree, (pixelsL (l.map (collapse val d n L))).Perm (pixelsL l)) := by
  apply Tree.forest_induction
  · intro i o ks ih
    rw [collapse_node]
    refine (P18.finishG_pixels _ _ _ _ (fun c _ h => bdAt_leaf val d n h)).trans ?_
    simp only [pixels]
    exact List.Perm.append_left o ih
  · simp [pixelsL]
  · intro t ts h1 h2
    simp only [List.map_cons, pixelsL]
    exact h1.append h2

theorem collapse_pixels (t : Tree) : (collapse val d n L t).pixels.Perm t.pixels :=
  (collapse_pixels_aux val d n L).1 t

theorem ownL_map_collapse_leaves {l : List Tree} (h : ∀ t ∈ l, t.kids = []) :
    l.map (collapse val d n L) = l := by
  induction l with
  | nil => rfl
  | cons t ts ih =>
    rw [List.map_cons, ih (fun x hx => h x (List.mem_cons_of_mem _ hx)),
      collapse_leaf val d n L (h t (by simp))]

/-- the collapse only reads `L` at the parent/child identifier pairs of the tree -/
theorem collapse_congr_aux (L' : Nat → Nat → Int) :
    (∀ t : Tree, (∀ P ∈ pre t, ∀ k ∈ P.kids, L P.id k.id = L' P.id k.id) →
      collapse val d n L t = collapse val d n L' t) ∧
    (∀ l : List Tree, ∀ t ∈ l, (∀ P ∈ pre t, ∀ k ∈ P.kids, L P.id k.id = L' P.id k.id) →
      collapse val d n L t = collapse val d n L' t) := by
  apply Tree.forest_induction
  · intro i o ks ih h
    rw [collapse_node, collapse_node]
    have hmap : ks.map (collapse val d n L) = ks.map (collapse val d n L') := by
      apply List.map_congr_left
      intro k hk
      exact ih k hk (fun P hP c hc => h P (PruneP.mem_pre.2 (Or.inr (PruneP.mem_preL.2 ⟨k, hk, hP⟩))) c hc)
    rw [hmap]
    apply P18.finishG_congr
    intro c hc
    obtain ⟨k, hk, rfl⟩ := List.mem_map.mp hc
    have := h (node i o ks) (PruneP.self_mem_pre _) k hk
    simp only [PruneP.id_node] at this
    simp only [bdL, collapse_id, this]
  · intro t ht; cases ht
  · intro t ts h1 h2 k hk
    rcases List.mem_cons.mp hk with rfl | hk
    · exact h1
    · exact h2 k hk

theorem collapse_congr (L' : Nat → Nat → Int) (t : Tree)
    (h : ∀ P ∈ pre t, ∀ k ∈ P.kids, L P.id k.id = L' P.id k.id) :
    collapse val d n L t = collapse val d n L' t := (collapse_congr_aux val d n L L').1 t h

/-- changing the order of the own pixels of the top node -/
theorem collapse_own_perm (i : Nat) {o o' : List Nat} (ks : List Tree) (ho : o'.Perm o) :
    Sm (collapse val d n L (node i o ks)) (collapse val d n L (node i o' ks)) := by
  rw [collapse_node, collapse_node]
  exact finishG_own _ i i _ ho

/-- **nested finishing.**  `N` is the node `i` finished with the test `b0` (which only holds for
leaves), except that its identifier `j` may be that of the single remaining child.  Collapsing `N`
is finishing the collapsed children with a test `b1` that, on a collapsed child, says "`b0` held
or the collapsed child is bad at its level below `i`". -/
theorem collapse_nested (b0 b1 : Tree → Bool) (i j : Nat) (o oN : List Nat) (A : List Tree)
    (hoN : oN.Perm (o ++ XG b0 A))
    (hb0 : ∀ t ∈ A, b0 t = true → t.kids = [])
    (hb1l : ∀ c, b1 c = true → c.kids = [])
    (hb1 : ∀ t ∈ A, b1 (collapse val d n L t) = (b0 t || bdL val d n L i (collapse val d n L t)))
    (hj1 : ∀ k, A.filter (fun c => !b0 c) = [k] → ∀ c, L j c = L k.id c)
    (hj2 : 2 ≤ (A.filter (fun c => !b0 c)).length → ∀ c, L j c = L i c) :
    Sm (collapse val d n L (node j oN (YG b0 A)))
      (finishG b1 i o (A.map (collapse val d n L))) := by
  have hm0 : ∀ t ∈ A.filter b0, t ∈ A ∧ b0 t = true := fun t ht => List.mem_filter.mp ht
  have hk0 : ∀ t ∈ A.filter (fun c => !b0 c), t ∈ A ∧ b0 t = false := by
    intro t ht
    have := List.mem_filter.mp ht
    exact ⟨this.1, by simpa using this.2⟩
  have hperm : (A.map (collapse val d n L)).Perm
      ((A.filter b0).map (collapse val d n L) ++
        (A.filter (fun c => !b0 c)).map (collapse val d n L)) := by
    simpa using (filter_partition_perm A b0).map (collapse val d n L)
  unfold XG at hoN
  unfold YG
  generalize A.filter b0 = m0 at *
  generalize A.filter (fun c => !b0 c) = k0 at *
  -- the right-hand side: absorb the `b0`-bad leaves first
  have hR : Sm (finishG b1 i (o ++ ownL m0) (k0.map (collapse val d n L)))
      (finishG b1 i o (A.map (collapse val d n L))) := by
    have hbad : ∀ c ∈ m0.map (collapse val d n L), b1 c = true := by
      intro c hc
      obtain ⟨t, ht, rfl⟩ := List.mem_map.mp hc
      rw [hb1 t (hm0 t ht).1, (hm0 t ht).2]; rfl
    have hown : m0.map (collapse val d n L) = m0 :=
      ownL_map_collapse_leaves val d n L (fun t ht => hb0 t (hm0 t ht).1 (hm0 t ht).2)
    have h1 := P18.finishG_absorb b1 i o _ (k0.map (collapse val d n L)) hbad
    rw [hown] at h1
    rw [h1]
    rw [hown] at hperm
    exact (P18.finishG_perm b1 i o hperm).symm
  refine P18.Sm.trans ?_ hR
  rw [collapse_node]
  by_cases hc : k0.length ≤ 1
  · simp only [hc, if_true] at hoN ⊢
    match k0, hc, hk0, hj1 with
    | [], _, _, _ =>
      simp only [List.flatMap_nil, List.map_nil, P18.finishG_nil]
      exact P18.Sm.of' (by simpa [P18.ownL_nil] using hoN.symm) (P18.SmL.refl _)
    | [k], _, hk0, hj1 =>
      have hs : b1 (collapse val d n L k) = true → (collapse val d n L k).kids = [] := hb1l _
      simp only [List.map_cons, List.map_nil]
      rw [P18.finishG_single b1 i _ _ hs, collapse_eq val d n L k]
      simp only [List.flatMap_cons, List.flatMap_nil, List.append_nil, P18.ownL_cons, P18.ownL_nil] at hoN ⊢
      have hbb : bdL val d n L j = bdL val d n L k.id := by
        funext c; simp only [bdL, hj1 k rfl]
      rw [hbb]
      unfold finishG
      apply P18.Sm.of'
      · simp only [PruneP.own_node]
        have := hoN.symm.append_right
          (XG (bdL val d n L k.id) (k.kids.map (collapse val d n L)))
        simpa [List.append_assoc] using this
      · simp only [PruneP.kids_node]; exact P18.SmL.refl _
  · simp only [hc, if_false, List.append_nil] at hoN ⊢
    have hbb : bdL val d n L j = bdL val d n L i := by
      funext c; simp only [bdL, hj2 (by omega)]
    rw [hbb, P18.finishG_congr (b := bdL val d n L i) (b' := b1)]
    · exact finishG_own b1 j i _ hoN.symm
    · intro c hcm
      obtain ⟨t, ht, rfl⟩ := List.mem_map.mp hcm
      rw [hb1 t (hk0 t ht).1, (hk0 t ht).2, Bool.false_or]

end Collapse

/-! ## the receiving structure of one step, with its identifier -/

theorem joinAdj_id (E : Env) (p : Nat) (A : List Tree) :
    (∀ k, A.filter (fun t => !insig E p t) = [k] → (joinAdj E p A).id = k.id) ∧
    (2 ≤ (A.filter (fun t => !insig E p t)).length → (joinAdj E p A).id = p) := by
  match A with
  | [] => simp [joinAdj]
  | [t] =>
    constructor
    · intro k hk
      have hm : k ∈ [t].filter (fun t => !insig E p t) := by rw [hk]; simp
      have : k = t := by simpa using (List.mem_filter.mp hm).1
      subst this
      simp [joinAdj, id_addPixel]
    · intro h
      have := List.length_filter_le (fun t => !insig E p t) [t]
      simp only [List.length_cons, List.length_nil] at this
      omega
  | a :: b :: rest =>
    constructor
    · intro k hk
      rw [joinAdj_many_one_kept a b rest k hk, id_foldl_absorb, id_addPixel]
    · intro h
      rcases hkeep : (a :: b :: rest).filter (fun t => !insig E p t) with _ | ⟨k1, _ | ⟨k2, ks⟩⟩
      · rw [hkeep] at h; simp at h
      · rw [hkeep] at h; simp at h
      · rw [joinAdj_many_branch a b rest k1 k2 ks hkeep, id_foldl_absorb]; rfl

/-! ## the run side: the strict run is the collapse of the loose run -/

/-- levels of the run: the children of the node created by pixel `i` were tested at `val i` -/
abbrev LS (val : Nat → Int) : Nat → Nat → Int := fun i _ => val i

/-- the criteria list `[min_delta = d, min_npix = n]` -/
abbrev crits (d : Int) (n : Nat) : List Crit := [Crit.minDelta d, Crit.minNpix n]

section RunSide
variable (val : Nat → Int) (nbrs : Nat → List Nat)

/-- collapsing the receiving structure of a step = finishing the collapsed adjacent roots with the
combined test -/
theorem collapse_joinAdj (d : Int) (n : Nat) (E : Env) (b1 : Tree → Bool) (p : Nat) (A : List Tree)
    (hb1l : ∀ c, b1 c = true → c.kids = [])
    (hb1 : ∀ t ∈ A, b1 (collapse val d n (LS val) t) =
      (insig E p t || bdAt val d n (val p) (collapse val d n (LS val) t))) :
    Sm (collapse val d n (LS val) (joinAdj E p A))
      (finishG b1 p [p] (A.map (collapse val d n (LS val)))) := by
  obtain ⟨s1, s2⟩ := P10.joinAdj_spec E p A
  obtain ⟨i1, i2⟩ := joinAdj_id E p A
  have hpart := P10.ownL_partition A (insig E p)
  cases hJ : joinAdj E p A with | node j oN K =>
  rw [hJ] at s1 s2 i1 i2
  simp only [PruneP.id_node, PruneP.own_node, PruneP.kids_node] at s1 s2 i1 i2
  have hK : K = YG (insig E p) A ∧ oN.Perm ([p] ++ XG (insig E p) A) := by
    unfold YG XG
    by_cases hc : (A.filter (fun t => !insig E p t)).length ≤ 1
    · obtain ⟨o1, k1⟩ := s1 hc
      simp only [hc, if_true]
      exact ⟨k1, o1.trans (hpart.cons p)⟩
    · obtain ⟨o2, k2⟩ := s2 (by omega)
      simp only [hc, if_false, List.append_nil]
      exact ⟨k2, o2⟩
  rw [hK.1]
  exact collapse_nested val d n (LS val) (insig E p) b1 p j [p] oN A hK.2
    (fun t _ h => ((insig_iff E p t).mp h).1) hb1l hb1
    (fun k hk c => by simp only [LS, i1 k hk]) (fun h c => by simp only [LS, i2 h])

/-- the merge test of `compute` on a leaf -/
theorem insig_leaf_eq (d : Int) (n : Nat) (p : Nat) {t : Tree} (hk : t.kids = []) (hne : t.own ≠ []) :
    insig (envOf val nbrs (crits d n)) p t = (t.vmax val == val p || failsAt val d n (val p) t) := by
  simp only [insig, envOf, allMerge, crits, List.all_cons, List.all_nil, Crit.atMerge,
    leaf_test val d n hk hne, (PruneP.isLeaf_iff t).mpr hk, Bool.true_and, Bool.not_not]

theorem insig_branch (E : Env) (p : Nat) {t : Tree} (hk : t.kids ≠ []) : insig E p t = false := by
  cases h : insig E p t with
  | false => rfl
  | true => exact absurd ((insig_iff E p t).mp h).1 hk

theorem bdAt_branch (d : Int) (n : Nat) (lv : Int) {t : Tree} (hk : t.kids ≠ []) :
    bdAt val d n lv t = false := by
  cases h : bdAt val d n lv t with
  | false => rfl
  | true => exact absurd (bdAt_leaf val d n h) hk

theorem bdAt_of_leaf (d : Int) (n : Nat) (lv : Int) {t : Tree} (hk : t.kids = []) :
    bdAt val d n lv t = failsAt val d n lv t := by
  simp only [bdAt, (PruneP.isLeaf_iff t).mpr hk, Bool.true_and]

variable (d0 d1 : Int) (n0 n1 : Nat)

/-- **the strict test on the collapsed root** is "the loose test, or the collapsed root is bad at
the level of the joining pixel". -/
theorem insig_rel (hd : d0 ≤ d1) (hn : n0 ≤ n1) (p : Nat) (t0 t1 : Tree) (hne : t0.own ≠ [])
    (hbr : t0.kids ≠ [] → ∃ x ∈ t0.pixels, val p < val x)
    (hs : Sm (collapse val d1 n1 (LS val) t0) t1) :
    insig (envOf val nbrs (crits d1 n1)) p t1 =
      (insig (envOf val nbrs (crits d0 n0)) p t0 ||
        bdAt val d1 n1 (val p) (collapse val d1 n1 (LS val) t0)) := by
  have hpix : t1.pixels.Perm t0.pixels :=
    (P18.Sm.pixels' hs).trans (collapse_pixels val d1 n1 (LS val) t0)
  rw [bdAt_sim val d1 n1 hs]
  by_cases hk1 : t1.kids = []
  · have hp1 : t1.pixels = t1.own := by rw [pixels_eq, hk1]; simp [pixelsL]
    have hne1 : t1.own ≠ [] := by
      intro e
      rw [hp1, e] at hpix
      exact P18.own_ne_pixels_ne hne (List.nil_perm.mp hpix)
    rw [insig_leaf_eq val nbrs d1 n1 p hk1 hne1, bdAt_of_leaf val d1 n1 _ hk1]
    by_cases hk0 : t0.kids = []
    · rw [collapse_leaf val d1 n1 (LS val) hk0] at hs
      have hv : t1.vmax val = t0.vmax val := P18.vmax_perm val (P18.Sm.own' hs) hne
      rw [insig_leaf_eq val nbrs d0 n0 p hk0 hne, hv]
      have hmono : failsAt val d0 n0 (val p) t0 = true → failsAt val d1 n1 (val p) t1 = true := by
        intro h
        rw [← failsAt_sim val d1 n1 hs]
        exact failsAt_mono val d0 n0 hd hn h
      cases h1 : failsAt val d0 n0 (val p) t0 <;> cases h2 : failsAt val d1 n1 (val p) t1 <;>
        simp_all
    · rw [insig_branch _ p hk0, Bool.false_or]
      obtain ⟨x, hx, hlt⟩ := hbr hk0
      have hx1 : x ∈ t1.own := by rw [← hp1]; exact hpix.symm.subset hx
      have := ContourP.le_vmax val t1 x hx1
      have hv : (t1.vmax val == val p) = false := by
        simp only [beq_eq_false_iff_ne, ne_eq]; omega
      rw [hv, Bool.false_or]
  · have hk0 : t0.kids ≠ [] := by
      intro hk0
      rw [collapse_leaf val d1 n1 (LS val) hk0] at hs
      exact hk1 ((P18.Sm.kids_nil hs).mp hk0)
    rw [insig_branch _ p hk1, insig_branch _ p hk0, bdAt_branch val d1 n1 _ hk1]
    rfl

/-- the simulation relation on roots: the strict root is the collapsed loose root -/
abbrev RC (t0 t1 : Tree) : Prop := Sm (collapse val d1 n1 (LS val) t0) t1

theorem rc_iff {l l' : List Tree} :
    PR (RC val d1 n1) l l' ↔ SmL (l.map (collapse val d1 n1 (LS val))) l' := by
  show _ ↔ SimL (fun p => p) _ _
  rw [P10.simL_iff]; exact P18.pr_map (S := Sm) (collapse val d1 n1 (LS val))

theorem joinAdj_rel {A0 A1 : List Tree} {p : Nat}
    (hA : PR (RC val d1 n1) A0 A1)
    (hins : ∀ t0 ∈ A0, ∀ t1, RC val d1 n1 t0 t1 →
      insig (envOf val nbrs (crits d1 n1)) p t1 =
        (insig (envOf val nbrs (crits d0 n0)) p t0 ||
          bdAt val d1 n1 (val p) (collapse val d1 n1 (LS val) t0))) :
    RC val d1 n1 (joinAdj (envOf val nbrs (crits d0 n0)) p A0)
      (joinAdj (envOf val nbrs (crits d1 n1)) p A1) := by
  generalize envOf val nbrs (crits d0 n0) = E0 at *
  generalize envOf val nbrs (crits d1 n1) = E1 at *
  have h2 : Sm (collapse val d1 n1 (LS val) (joinAdj E0 p A0))
      (finishG (insig E1 p) p [p] (A0.map (collapse val d1 n1 (LS val)))) :=
    collapse_joinAdj val d1 n1 E0 (insig E1 p) p A0
      (fun c h => ((insig_iff E1 p c).mp h).1)
      (fun t ht => hins t ht _ (P18.Sm.refl _))
  have h3 : Sm (finishG (insig E1 p) p [p] (A0.map (collapse val d1 n1 (LS val))))
      (finishG (insig E1 p) p [p] A1) := by
    apply P18.finishG_sim (List.Perm.refl _) ((rc_iff val d1 n1).mp hA)
    intro c hc c' hcc
    obtain ⟨t0, ht0, rfl⟩ := List.mem_map.mp hc
    rw [hins t0 ht0 c' hcc, hins t0 ht0 _ (P18.Sm.refl _)]
  exact (h2.trans h3).trans (P18.joinAdj_finishG E1 p A1).symm

theorem touches_rel {E0 E1 : Env} (hnb : E0.nbrs = E1.nbrs) {p : Nat} {t0 t1 : Tree}
    (h : RC val d1 n1 t0 t1) : touches E0 p t0 = touches E1 p t1 := by
  have hpix : t1.pixels.Perm t0.pixels :=
    (P18.Sm.pixels' h).trans (collapse_pixels val d1 n1 (LS val) t0)
  rw [Bool.eq_iff_iff, touches_iff, touches_iff, hnb]
  constructor
  · rintro ⟨q, hq, hn⟩; exact ⟨q, hpix.symm.subset hq, hn⟩
  · rintro ⟨q, hq, hn⟩; exact ⟨q, hpix.subset hq, hn⟩

theorem step_rel (hd : d0 ≤ d1) (hn : n0 ≤ n1) {pre : List Nat} {roots0 roots1 : List Tree} {p : Nat}
    (hL : P18.LInv val pre roots0) (hle : ∀ x ∈ pre, val p ≤ val x)
    (hR : PR (RC val d1 n1) roots0 roots1) :
    PR (RC val d1 n1) (step (envOf val nbrs (crits d0 n0)) roots0 p)
      (step (envOf val nbrs (crits d1 n1)) roots1 p) := by
  have ht : ∀ t0 ∈ roots0, ∀ t1, RC val d1 n1 t0 t1 →
      touches (envOf val nbrs (crits d0 n0)) p t0 = touches (envOf val nbrs (crits d1 n1)) p t1 :=
    fun t0 _ t1 h => touches_rel val d1 n1 rfl h
  unfold step
  apply P10.PR.append
  · exact hR.filter (fun t0 h0 t1 h => by rw [ht t0 h0 t1 h])
  · apply P10.PR.single
    apply joinAdj_rel
    · exact ((hR.filter ht).perm_left (sortById_perm _).symm).perm_right (sortById_perm _).symm
    · intro t0 ht0 t1 h
      have hr : t0 ∈ roots0 := (List.mem_filter.mp (mem_sortById.mp ht0)).1
      apply insig_rel val nbrs d0 d1 n0 n1 hd hn p t0 t1 (hL.ne t0 hr) _ h
      intro hk
      obtain ⟨x, hx, y, hy, hlt⟩ := hL.br t0 hr hk
      have := hle y hy
      exact ⟨x, hx, by omega⟩

theorem foldl_rel (hd : d0 ≤ d1) (hn : n0 ≤ n1) (ps : List Nat) :
    ∀ (pre : List Nat) (roots0 roots1 : List Tree), P18.LInv val pre roots0 →
      PR (RC val d1 n1) roots0 roots1 → (pre ++ ps).Pairwise (fun a b => val b ≤ val a) →
      PR (RC val d1 n1) (ps.foldl (step (envOf val nbrs (crits d0 n0))) roots0)
        (ps.foldl (step (envOf val nbrs (crits d1 n1))) roots1) := by
  induction ps with
  | nil => intro _ _ _ _ hR _; exact hR
  | cons p ps ih =>
    intro pre roots0 roots1 hL hR hs
    simp only [List.foldl_cons]
    have hle : ∀ x ∈ pre, val p ≤ val x := by
      intro x hx
      exact (List.pairwise_append.mp hs).2.2 x hx p (by simp)
    apply ih (pre ++ [p])
    · exact P18.step_LInv (envOf val nbrs (crits d0 n0)) pre roots0 p hL hle
    · exact step_rel val nbrs d0 d1 n0 n1 hd hn hL hle hR
    · simpa [List.append_assoc] using hs

/-- **the run-level simulation**: after the whole loop the strict run's roots are the collapsed
roots of the loose run (combined test "`min_npix` fails or peak − original level < `d1`"). -/
theorem run_collapse (hd : d0 ≤ d1) (hn : n0 ≤ n1) (order : List Nat)
    (hsorted : order.Pairwise (fun a b => val b ≤ val a)) :
    SmL ((run (envOf val nbrs (crits d0 n0)) order).map (collapse val d1 n1 (LS val)))
      (run (envOf val nbrs (crits d1 n1)) order) := by
  apply (rc_iff val d1 n1).mp
  unfold run
  exact foldl_rel val nbrs d0 d1 n0 n1 hd hn order [] [] [] (P18.LInv.nil val) P10.PR.nil
    (by simpa using hsorted)

end RunSide

/-! ## the table of original levels -/

theorem lookup_append (a b : List (Nat × Int)) (i : Nat) :
    lookupLevel (a ++ b) i = (lookupLevel a i).or (lookupLevel b i) := by
  unfold lookupLevel
  rw [List.find?_append]
  cases List.find? (fun kv => kv.1 == i) a <;> simp

theorem lookup_none {tbl : List (Nat × Int)} {i : Nat} (h : ∀ kv ∈ tbl, kv.1 ≠ i) :
    lookupLevel tbl i = none := by
  unfold lookupLevel
  rw [List.find?_eq_none.mpr]
  · rfl
  · intro kv hkv; simpa using h kv hkv

theorem lookup_map_const (v : Int) (rest : List (Nat × Int)) {ks : List Tree} {k : Tree} (hk : k ∈ ks) :
    lookupLevel (ks.map (fun c => (c.id, v)) ++ rest) k.id = some v := by
  induction ks with
  | nil => cases hk
  | cons c cs ih =>
    by_cases hc : c.id = k.id
    · simp [lookupLevel, hc]
    · rcases List.mem_cons.mp hk with rfl | hk'
      · exact absurd rfl hc
      · have := ih hk'
        simp only [lookupLevel, List.map_cons, List.cons_append] at this ⊢
        rw [List.find?_cons_of_neg (by simpa using hc)]
        exact this

theorem origLevelsT_node (val : Nat → Int) (i : Nat) (o : List Nat) (ks : List Tree) :
    origLevelsT val (node i o ks) =
      ks.map (fun c => (c.id, val (o.headD 0))) ++ origLevelsL val ks := by
  simp [origLevelsT]

theorem origLevelsL_cons (val : Nat → Int) (t : Tree) (ts : List Tree) :
    origLevelsL val (t :: ts) = origLevelsT val t ++ origLevelsL val ts := by
  simp [origLevelsL]

theorem kid_mem_preL {l : List Tree} {P k : Tree} (hP : P ∈ preL l) (hk : k ∈ P.kids) : k ∈ preL l :=
  P8.pre_subset_preL hP k (PruneP.kid_mem_pre hk)

theorem kid_mem_preL_kids {t P k : Tree} (hP : P ∈ pre t) (hk : k ∈ P.kids) : k ∈ preL t.kids := by
  rcases PruneP.mem_pre.1 hP with rfl | hP
  · exact mem_preL_of_mem hk
  · exact kid_mem_preL hP hk

/-- the keys of the table are identifiers of proper substructures -/
theorem keys_aux (val : Nat → Int) :
    (∀ t : Tree, ∀ kv ∈ origLevelsT val t, kv.1 ∈ (preL t.kids).map Tree.id) ∧
    (∀ l : List Tree, ∀ kv ∈ origLevelsL val l, kv.1 ∈ (preL l).map Tree.id) := by
  apply Tree.forest_induction
  · intro i o ks ih kv hkv
    rw [origLevelsT_node] at hkv
    simp only [PruneP.kids_node]
    rcases List.mem_append.mp hkv with h | h
    · obtain ⟨c, hc, rfl⟩ := List.mem_map.mp h
      exact List.mem_map_of_mem (mem_preL_of_mem hc)
    · exact ih kv h
  · intro kv hkv; simp [origLevelsL] at hkv
  · intro t ts h1 h2 kv hkv
    rw [origLevelsL_cons] at hkv
    rw [PruneP.preL_cons, List.map_append]
    rcases List.mem_append.mp hkv with h | h
    · obtain ⟨s, hs, e⟩ := List.mem_map.mp (h1 kv h)
      exact List.mem_append_left _ (List.mem_map.mpr ⟨s, PruneP.mem_pre.2 (Or.inr hs), e⟩)
    · exact List.mem_append_right _ (h2 kv h)

/-- with distinct identifiers, a child is not a root -/
theorem child_id_ne_root (l : List Tree) (hnd : ((preL l).map Tree.id).Nodup) :
    ∀ P ∈ preL l, ∀ k ∈ P.kids, ∀ r ∈ l, k.id ≠ r.id := by
  induction l with
  | nil => intro P hP; simp [preL] at hP
  | cons t ts ih =>
    rw [PruneP.preL_cons, List.map_append] at hnd
    obtain ⟨n1, n2, n3⟩ := List.nodup_append.1 hnd
    intro P hP k hk r hr
    rw [PruneP.preL_cons] at hP
    rcases List.mem_append.mp hP with hP1 | hP2
    · have hkk : k ∈ preL t.kids := kid_mem_preL_kids hP1 hk
      rcases List.mem_cons.mp hr with rfl | hr
      · rw [pre_eq, List.map_cons] at n1
        intro e
        exact (List.nodup_cons.1 n1).1 (e ▸ List.mem_map_of_mem hkk)
      · exact n3 k.id (List.mem_map_of_mem (PruneP.mem_pre.2 (Or.inr hkk))) r.id
          (List.mem_map_of_mem (mem_preL_of_mem hr))
    · have hkk : k ∈ preL ts := kid_mem_preL hP2 hk
      rcases List.mem_cons.mp hr with rfl | hr
      · intro e
        exact n3 r.id (List.mem_map_of_mem (PruneP.self_mem_pre r)) k.id
          (List.mem_map_of_mem hkk) e.symm
      · exact ih n2 P hP2 k hk r hr

theorem lookup_aux (val : Nat → Int) :
    (∀ t : Tree, ((pre t).map Tree.id).Nodup → ∀ P ∈ pre t, ∀ k ∈ P.kids,
      lookupLevel (origLevelsT val t) k.id = some (val (P.own.headD 0))) ∧
    (∀ l : List Tree, ((preL l).map Tree.id).Nodup → ∀ P ∈ preL l, ∀ k ∈ P.kids,
      lookupLevel (origLevelsL val l) k.id = some (val (P.own.headD 0))) := by
  apply Tree.forest_induction
  · intro i o ks ih hnd P hP k hk
    rw [origLevelsT_node]
    rw [pre, List.map_cons] at hnd
    have hnd' := (List.nodup_cons.1 hnd).2
    rcases PruneP.mem_pre.1 hP with rfl | hP
    · exact lookup_map_const _ _ hk
    · rw [lookup_append, lookup_none, Option.none_or]
      · exact ih hnd' P hP k hk
      · intro kv hkv
        obtain ⟨c, hc, rfl⟩ := List.mem_map.mp hkv
        exact fun e => child_id_ne_root ks hnd' P hP k hk c hc e.symm
  · intro _ P hP; simp [preL] at hP
  · intro t ts h1 h2 hnd P hP k hk
    rw [origLevelsL_cons, lookup_append]
    rw [PruneP.preL_cons, List.map_append] at hnd
    obtain ⟨n1, n2, n3⟩ := List.nodup_append.1 hnd
    rw [PruneP.preL_cons] at hP
    rcases List.mem_append.mp hP with hP | hP
    · rw [h1 n1 P hP k hk]; rfl
    · rw [lookup_none, Option.none_or]
      · exact h2 n2 P hP k hk
      · intro kv hkv e
        obtain ⟨s, hs, e'⟩ := List.mem_map.mp ((keys_aux val).1 t kv hkv)
        exact n3 kv.1 (List.mem_map.mpr ⟨s, PruneP.mem_pre.2 (Or.inr hs), e'⟩) k.id
          (List.mem_map_of_mem (kid_mem_preL hP hk)) e

/-- **the table finds the creating pixel of the parent**, in any forest with distinct identifiers -/
theorem lookup_orig (val : Nat → Int) (f : List Tree) (hids : IdsNodup f) :
    ∀ P ∈ preL f, ∀ k ∈ P.kids,
      lookupLevel (origLevelsL val f) k.id = some (val (P.own.headD 0)) :=
  (lookup_aux val).2 f hids

/-! ## in a run, every structure's first own pixel is its identifier -/

/-- the own list starts with the identifier (the creating pixel) -/
def HeadId (t : Tree) : Prop := ∃ rest, t.own = t.id :: rest

theorem headId_absorb_add (ms : List Tree) (t : Tree) (p : Nat) (h : HeadId t) :
    HeadId (ms.foldl Tree.absorb (t.addPixel p)) := by
  obtain ⟨rest, e⟩ := h
  refine ⟨rest ++ [p] ++ ownL ms, ?_⟩
  rw [P10.own_foldl_absorb, id_foldl_absorb, id_addPixel, ContourP.own_addPixel, e]
  simp

theorem joinAdj_headId (E : Env) (p : Nat) (A : List Tree) (h : ∀ t ∈ A, HeadId t) :
    HeadId (joinAdj E p A) := by
  match A, h with
  | [], _ => exact ⟨[], rfl⟩
  | [t], h =>
    have := headId_absorb_add [] t p (h t (by simp))
    simpa [joinAdj] using this
  | a :: b :: rest, h =>
    rcases hkeep : (a :: b :: rest).filter (fun t => !insig E p t) with _ | ⟨k1, _ | ⟨k2, ks⟩⟩
    · obtain ⟨last, others, hA, hj⟩ := joinAdj_many_none_kept a b rest hkeep
      rw [hj]
      exact headId_absorb_add _ _ _ (h last (by rw [hA]; simp))
    · rw [joinAdj_many_one_kept a b rest k1 hkeep]
      have hk : k1 ∈ (a :: b :: rest).filter (fun t => !insig E p t) := by rw [hkeep]; simp
      exact headId_absorb_add _ _ _ (h k1 (List.mem_filter.mp hk).1)
    · rw [joinAdj_many_branch a b rest k1 k2 ks hkeep]
      refine ⟨ownL ((a :: b :: rest).filter (insig E p)), ?_⟩
      rw [P10.own_foldl_absorb, id_foldl_absorb]
      rfl

theorem run_head_id (E : Env) (order : List Nat) : ∀ t ∈ preL (run E order), HeadId t :=
  run_induction E (fun roots => ∀ t ∈ preL roots, HeadId t) (by simp [preL])
    (by
      intro roots p h x hx
      rcases mem_preL_step E roots p x hx with hx | rfl
      · exact h x hx
      · apply joinAdj_headId
        intro t ht
        exact h t (mem_preL_of_mem (List.mem_filter.mp (mem_sortById.mp ht)).1))
    order

theorem loose_idsNodup (E : Env) (order : List Nat) (hnd : order.Nodup) :
    IdsNodup (makeTrunk E (run E order)) := by
  have h := run_ids_nodup E order hnd
  unfold IdsNodup
  have h1 : (preL (makeTrunk E (run E order))).Sublist (preL (sortById (run E order))) :=
    preL_sublist List.filter_sublist
  have h2 := ((preL_perm (sortById_perm (run E order))).map Tree.id).nodup_iff.mpr h
  exact (h1.map Tree.id).nodup h2

/-- **key lemma**: in the trunk of a run (identifiers = creating pixels, no relabelling) the table
of original levels maps every child to the value of the creating pixel of its parent -/
theorem lookup_loose (val : Nat → Int) (E : Env) (order : List Nat) (hnd : order.Nodup) :
    ∀ P ∈ preL (makeTrunk E (run E order)), ∀ k ∈ P.kids,
      lookupLevel (origLevelsL val (makeTrunk E (run E order))) k.id = some (val P.id) := by
  intro P hP k hk
  rw [lookup_orig val _ (loose_idsNodup E order hnd) P hP k hk]
  obtain ⟨rest, e⟩ := run_head_id E order P (makeTrunk_nodes_subset E _ P hP)
  rw [e]; rfl

/-! ## the pruning side: levels looked up by identifier -/

/-- level of a structure, by identifier (the default is never used: every child has an entry) -/
def levOf (tbl : List (Nat × Int)) (i : Nat) : Int := (lookupLevel tbl i).getD 0

/-- levels of `prune` with `allChildOrig`: looked up by the child's identifier, whoever the
current parent is -/
abbrev LP (tbl : List (Nat × Int)) : Nat → Nat → Int := fun _ j => levOf tbl j

/-- every identifier of a child satisfies `S` -/
def ChildIn (S : Nat → Prop) (t : Tree) : Prop := ∀ P ∈ pre t, ∀ k ∈ P.kids, S k.id

theorem childIn_sub {S : Nat → Prop} {t u : Tree} (h : ChildIn S t) (hu : u ∈ pre t) : ChildIn S u := by
  intro P hP k hk
  have : P ∈ preL [t] := P8.pre_subset_preL (f := [t]) (by simpa [PruneP.preL_singleton] using hu) P hP
  rw [PruneP.preL_singleton] at this
  exact h P this k hk

/-- a node whose children are children or grandchildren of `P` -/
theorem childIn_regroup {S : Nat → Prop} {P : Tree} (i : Nat) (o : List Nat) (K : List Tree)
    (hK : ∀ u ∈ K, u ∈ P.kids ∨ ∃ m ∈ P.kids, u ∈ m.kids) (h : ChildIn S P) :
    ChildIn S (node i o K) := by
  have hin : ∀ u ∈ K, u ∈ preL P.kids ∧ S u.id := by
    intro u hu
    rcases hK u hu with hu | ⟨m, hm, hu⟩
    · exact ⟨mem_preL_of_mem hu, h P (PruneP.self_mem_pre P) u hu⟩
    · exact ⟨kid_mem_preL (mem_preL_of_mem hm) hu, h m (PruneP.kid_mem_pre hm) u hu⟩
  intro Q hQ c hc
  rcases PruneP.mem_pre.1 hQ with rfl | hQ
  · exact (hin c hc).2
  · simp only [PruneP.kids_node] at hQ
    obtain ⟨u, hu, hQu⟩ := PruneP.mem_preL.1 hQ
    have : Q ∈ preL P.kids := P8.pre_subset_preL (hin u hu).1 Q hQu
    exact h Q (PruneP.mem_pre.2 (Or.inr this)) c hc

theorem pruneIn_childIn (S : Nat → Prop) (ic : Tree → Tree → Bool) (t t' : Tree)
    (h : pruneIn ic t = some t') (hids : IdsNodup [t]) (hS : ChildIn S t) : ChildIn S t' := by
  revert hids hS
  refine pruneIn_ind ic (fun t t' => IdsNodup [t] → ChildIn S t → ChildIn S t') ?_ ?_ t t' h
  · intro P k hk _ hids hS
    rcases pruneAt_cases P k hk hids with ⟨i, o, a, b, rfl, _, e⟩ | ⟨i, o, x, y, rfl, e⟩
    · rw [e]
      apply childIn_regroup i _ _ _ hS
      intro u hu
      simp only [PruneP.kids_node]
      rcases List.mem_append.mp hu with hu | hu
      · left
        rcases List.mem_append.mp hu with hu | hu
        · exact List.mem_append_left _ hu
        · exact List.mem_append_right _ (List.mem_cons_of_mem _ hu)
      · right; exact ⟨k, by simp, hu⟩
    · rw [e]
      apply childIn_regroup i _ _ _ hS
      intro u hu
      simp only [PruneP.kids_node]
      right
      rcases List.mem_append.mp hu with hu | hu
      · exact ⟨x, by simp, hu⟩
      · exact ⟨y, by simp, hu⟩
  · intro i o a k k' b hp ih hids hS
    have hk' : ChildIn S k' :=
      ih (idsNodup_kid hids) (childIn_sub hS (PruneP.kid_mem_pre (by simp)))
    have hid := pruneIn_id ic k k' hp
    intro Q hQ c hc
    rcases PruneP.mem_pre.1 hQ with rfl | hQ
    · simp only [PruneP.kids_node] at hc
      rcases List.mem_append.mp hc with hc | hc
      · exact hS _ (PruneP.self_mem_pre _) c (by simp [hc])
      · rcases List.mem_cons.mp hc with rfl | hc
        · rw [hid]; exact hS _ (PruneP.self_mem_pre _) k (by simp)
        · exact hS _ (PruneP.self_mem_pre _) c (by simp [hc])
    · simp only [PruneP.kids_node] at hQ
      obtain ⟨u, hu, hQu⟩ := PruneP.mem_preL.1 hQ
      rcases List.mem_append.mp hu with hu | hu
      · exact hS Q (PruneP.mem_pre.2 (Or.inr (PruneP.mem_preL.2 ⟨u, by simp [hu], hQu⟩))) c hc
      · rcases List.mem_cons.mp hu with rfl | hu
        · exact hk' Q hQu c hc
        · exact hS Q (PruneP.mem_pre.2 (Or.inr (PruneP.mem_preL.2 ⟨u, by simp [hu], hQu⟩))) c hc

theorem pruneForest_childIn (S : Nat → Prop) (ic : Tree → Tree → Bool) (f f' : List Tree)
    (h : pruneForest ic [] f = some f') (hids : IdsNodup f) (hS : ∀ t ∈ f, ChildIn S t) :
    ∀ t ∈ f', ChildIn S t := by
  obtain ⟨a, t, t', b, rfl, rfl, hp⟩ := pruneForest_some ic f [] f' h
  have := pruneIn_childIn S ic t t' hp (idsNodup_sub hids) (hS t (by simp))
  intro u hu
  simp only [List.nil_append] at hu
  rcases List.mem_append.mp hu with hu | hu
  · exact hS u (by simp [hu])
  · rcases List.mem_cons.mp hu with rfl | hu
    · exact this
    · exact hS u (by simp [hu])

section PruneSide
variable (val : Nat → Int) (tbl : List (Nat × Int)) (d : Int) (n : Nat)

/-- "has an entry in the table" -/
abbrev HasLev (i : Nat) : Prop := ∃ lv, lookupLevel tbl i = some lv

/-- for a leaf with own pixels and an entry, the post-hoc test with the original level is the
region test at that level -/
theorem ic_orig_eq {P k : Tree} (hl : k.kids = []) (hne : k.own ≠ []) (hlev : HasLev tbl k.id) :
    allChildOrig val tbl (crits d n) P k = !bdAt val d n (levOf tbl k.id) k := by
  obtain ⟨lv, hlv⟩ := hlev
  have hL : levOf tbl k.id = lv := by simp [levOf, hlv]
  rw [bdAt_of_leaf val d n _ hl, hL, ← leaf_test val d n hl hne]
  simp only [allChildOrig, crits, List.all_cons, List.all_nil, Crit.childOrig, hlv, Crit.child]

/-- merging a bad leaf into a parent with other than two children -/
theorem collapse_pruneAt_one (i : Nat) (o : List Nat) (a b : List Tree) (k : Tree)
    (hl : k.kids = []) (hf : bdAt val d n (levOf tbl k.id) k = true) :
    Sm (collapse val d n (LP tbl) (node i (o ++ k.own) (a ++ b)))
      (collapse val d n (LP tbl) (node i o (a ++ k :: b))) := by
  rw [collapse_node, collapse_node]
  have hb : ∀ c ∈ [k], bdL val d n (LP tbl) i c = true := by
    intro c hc
    simp only [List.mem_singleton] at hc
    subst hc
    exact hf
  have hown : ownL [k] = k.own := by simp [ownL]
  have h1 := P18.finishG_absorb (bdL val d n (LP tbl) i) i o [k]
    ((a ++ b).map (collapse val d n (LP tbl))) hb
  rw [hown] at h1
  rw [h1]
  apply P18.finishG_perm
  simp only [List.map_append, List.map_cons, List.singleton_append,
    collapse_leaf val d n (LP tbl) hl]
  exact List.perm_middle.symm

/-- merging both children of a two-child parent, one of which is a bad leaf -/
theorem collapse_pruneAt_two (i : Nat) (o : List Nat) (x y k : Tree)
    (hk : k ∈ [x, y]) (hf : bdAt val d n (levOf tbl k.id) k = true) :
    Sm (collapse val d n (LP tbl) (node i (o ++ x.own ++ y.own) (x.kids ++ y.kids)))
      (collapse val d n (LP tbl) (node i o [x, y])) := by
  have hform : x.kids ++ y.kids = YG (bdL val d n (LP tbl) i) [x, y] ∧
      (o ++ x.own ++ y.own).Perm (o ++ XG (bdL val d n (LP tbl) i) [x, y]) := by
    cases hx : bdL val d n (LP tbl) i x <;> cases hy : bdL val d n (LP tbl) i y
    · exfalso
      simp only [List.mem_cons, List.not_mem_nil, or_false] at hk
      rcases hk with rfl | rfl
      · exact Bool.noConfusion (hf.symm.trans hx)
      · exact Bool.noConfusion (hf.symm.trans hy)
    · have hyk := bdAt_leaf val d n hy
      constructor
      · simp [YG, hx, hy, hyk]
      · simp only [XG, hx, hy, ownL, List.filter_cons, List.filter_nil]
        simp
        rw [List.perm_iff_count]; intro z
        simp only [List.count_append]; omega
    · have hxk := bdAt_leaf val d n hx
      constructor
      · simp [YG, hx, hy, hxk]
      · simp only [XG, hx, hy, ownL, List.filter_cons, List.filter_nil]
        simp
    · have hxk := bdAt_leaf val d n hx
      have hyk := bdAt_leaf val d n hy
      constructor
      · simp [YG, hx, hy, hxk, hyk]
      · simp only [XG, hx, hy, ownL, List.filter_cons, List.filter_nil]
        simp
  rw [hform.1, collapse_node val d n (LP tbl) i o [x, y]]
  apply collapse_nested val d n (LP tbl) (bdL val d n (LP tbl) i) (bdL val d n (LP tbl) i) i i o _
    [x, y] hform.2
  · intro t _ h; exact bdAt_leaf val d n h
  · intro c h; exact bdAt_leaf val d n h
  · intro t _
    cases h : bdL val d n (LP tbl) i t with
    | false => rfl
    | true =>
      rw [collapse_leaf val d n (LP tbl) (bdAt_leaf val d n h), h]; rfl
  · intro _ _ _; rfl
  · intro _ _; rfl

theorem pruneIn_collapse (t t' : Tree)
    (h : pruneIn (allChildOrig val tbl (crits d n)) t = some t')
    (hids : IdsNodup [t]) (hpix : ∀ s ∈ pre t, s.pixels ≠ []) (hlev : ChildIn (HasLev tbl) t) :
    Sm (collapse val d n (LP tbl) t') (collapse val d n (LP tbl) t) := by
  revert hids hpix hlev
  refine P18.pruneIn_ind' _ (fun t t' => IdsNodup [t] → (∀ s ∈ pre t, s.pixels ≠ []) →
    ChildIn (HasLev tbl) t →
    Sm (collapse val d n (LP tbl) t') (collapse val d n (LP tbl) t)) ?_ ?_ t t' h
  · intro P k hk hl hic hids hpix hlev
    have hne : k.own ≠ [] := by
      have := hpix k (PruneP.kid_mem_pre hk)
      rw [pixels_eq, hl] at this
      simpa [pixelsL] using this
    have hf : bdAt val d n (levOf tbl k.id) k = true := by
      have := ic_orig_eq val tbl d n (P := P) hl hne (hlev P (PruneP.self_mem_pre P) k hk)
      rw [hic] at this
      simpa using this.symm
    rcases pruneAt_cases P k hk hids with ⟨i, o, a, b, rfl, _, e⟩ | ⟨i, o, x, y, rfl, e⟩
    · rw [e, hl, List.append_nil]
      exact collapse_pruneAt_one val tbl d n i o a b k hl hf
    · rw [e]
      exact collapse_pruneAt_two val tbl d n i o x y k (by simpa using hk) hf
  · intro i o a k k' b hp ih hids hpix hlev
    have hk := ih (idsNodup_kid hids) (fun s hs => hpix s (PruneP.mem_pre.2 (Or.inr
      (PruneP.mem_preL.2 ⟨k, by simp, hs⟩)))) (childIn_sub hlev (PruneP.kid_mem_pre (by simp)))
    have hid := pruneIn_id _ k k' hp
    rw [collapse_node, collapse_node]
    apply finishG_simR (R := fun c c' => Sm c c' ∧ c.id = c'.id) (fun _ _ h => h.1)
      (List.Perm.refl _)
    · apply f2_pr
      simp only [List.map_append, List.map_cons]
      apply P10.forall₂_append
      · exact P18.f2_refl _ (fun c _ => ⟨P18.Sm.refl c, rfl⟩)
      · refine .cons ⟨hk, ?_⟩ (P18.f2_refl _ (fun c _ => ⟨P18.Sm.refl c, rfl⟩))
        rw [collapse_id, collapse_id, hid]
    · intro c _ c' hcc
      simp only [bdL, hcc.2]
      exact bdAt_sim val d n hcc.1

theorem pruneForest_collapse (f f' : List Tree)
    (h : pruneForest (allChildOrig val tbl (crits d n)) [] f = some f')
    (hids : IdsNodup f) (hpix : ∀ s ∈ preL f, s.pixels ≠ [])
    (hlev : ∀ t ∈ f, ChildIn (HasLev tbl) t) :
    SmL (f'.map (collapse val d n (LP tbl))) (f.map (collapse val d n (LP tbl))) := by
  obtain ⟨a, t, t', b, rfl, rfl, hp⟩ := pruneForest_some _ f [] f' h
  have := pruneIn_collapse val tbl d n t t' hp (idsNodup_sub hids)
    (fun s hs => hpix s (PruneP.mem_preL.2 ⟨t, by simp, hs⟩)) (hlev t (by simp))
  simp only [List.nil_append, List.map_append, List.map_cons]
  exact P10.SimL.append (P18.SmL.refl _) (.cons this (P18.SmL.refl _) (List.Perm.refl _))

theorem pruneLoop_collapse (k : Nat) :
    ∀ f : List Tree, IdsNodup f → (∀ s ∈ preL f, s.pixels ≠ []) →
      (∀ t ∈ f, ChildIn (HasLev tbl) t) →
      SmL ((pruneLoop (allChildOrig val tbl (crits d n)) k f).map (collapse val d n (LP tbl)))
        (f.map (collapse val d n (LP tbl))) := by
  induction k with
  | zero => intro f _ _ _; exact P18.SmL.refl _
  | succ k ih =>
    intro f hids hpix hlev
    rw [pruneLoop]
    cases hp : pruneForest (allChildOrig val tbl (crits d n)) [] f with
    | none => exact P18.SmL.refl _
    | some f' =>
      have hpix' : ∀ s ∈ preL f', s.pixels ≠ [] := by
        intro s' hs' e
        obtain ⟨s, hs, _, pm⟩ := pruneForest_regions _ f f' hp hids s' hs'
        rw [e] at pm
        exact hpix s hs (List.nil_perm.mp pm)
      exact (ih f' (pruneForest_idsNodup _ f f' hp hids) hpix'
        (pruneForest_childIn _ _ f f' hp hids hlev)).trans
        (pruneForest_collapse val tbl d n f f' hp hids hpix hlev)

theorem pruneLoop_childIn (S : Nat → Prop) (ic : Tree → Tree → Bool) (k : Nat) :
    ∀ f : List Tree, IdsNodup f → (∀ t ∈ f, ChildIn S t) → ∀ t ∈ pruneLoop ic k f, ChildIn S t := by
  induction k with
  | zero => intro f _ h; exact h
  | succ k ih =>
    intro f hids hS
    rw [pruneLoop]
    cases hp : pruneForest ic [] f with
    | none => exact hS
    | some f' =>
      exact ih f' (pruneForest_idsNodup _ f f' hp hids) (pruneForest_childIn S ic f f' hp hids hS)

/-! ## a fixpoint of the scan with the arity discipline is its own collapse -/

/-- "no leaf with a parent is bad" below `t` -/
def NoBad (t : Tree) : Prop :=
  ∀ P ∈ pre t, ∀ k ∈ P.kids, k.kids = [] → bdAt val d n (levOf tbl k.id) k = false

theorem noBad_kid {t k : Tree} (h : NoBad val tbl d n t) (hk : k ∈ t.kids) : NoBad val tbl d n k :=
  fun P hP => h P (PruneP.mem_pre.2 (Or.inr (PruneP.mem_preL.2 ⟨k, hk, hP⟩)))

theorem collapse_fix_aux :
    (∀ t : Tree, NoBad val tbl d n t → (∀ P ∈ pre t, PArity P) →
      Sm t (collapse val d n (LP tbl) t)) ∧
    (∀ l : List Tree, ∀ k ∈ l, NoBad val tbl d n k → (∀ P ∈ pre k, PArity P) →
      Sm k (collapse val d n (LP tbl) k)) := by
  apply Tree.forest_induction
  · intro i o ks ih hnf har
    have hk1 : ∀ k ∈ ks, Sm k (collapse val d n (LP tbl) k) := fun k hk =>
      ih k hk (noBad_kid val tbl d n hnf hk)
        (fun P hP => har P (PruneP.mem_pre.2 (Or.inr (PruneP.mem_preL.2 ⟨k, hk, hP⟩))))
    have hks : SmL ks (ks.map (collapse val d n (LP tbl))) := smL_map hk1
    rw [collapse_node]
    have hgood : ∀ c ∈ ks.map (collapse val d n (LP tbl)), bdL val d n (LP tbl) i c = false := by
      intro c hc
      obtain ⟨k, hk, rfl⟩ := List.mem_map.mp hc
      by_cases hl : k.kids = []
      · rw [collapse_leaf val d n (LP tbl) hl]
        exact hnf _ (PruneP.self_mem_pre _) k hk hl
      · apply bdAt_branch
        intro e
        exact hl ((P18.Sm.kids_nil (hk1 k hk)).mpr e)
    have h1 : (ks.map (collapse val d n (LP tbl))).filter (bdL val d n (LP tbl) i) = [] := by
      apply List.filter_eq_nil_iff.mpr; intro c hc; simp [hgood c hc]
    have h2 : (ks.map (collapse val d n (LP tbl))).filter (fun c => !bdL val d n (LP tbl) i c) =
        ks.map (collapse val d n (LP tbl)) := by
      apply List.filter_eq_self.mpr; intro c hc; simp [hgood c hc]
    have hA := har _ (PruneP.self_mem_pre _)
    unfold PArity at hA
    simp only [PruneP.kids_node] at hA
    rcases hA with hA | hA
    · subst hA
      rw [List.map_nil, P18.finishG_nil]; exact P18.Sm.refl _
    · have hlen : ¬ (ks.map (collapse val d n (LP tbl))).length ≤ 1 := by simp; omega
      apply P18.Sm.of'
      · have hlen' : ¬ ks.length ≤ 1 := by omega
        simp [finishG, XG, h1, h2, hlen', ownL]
      · simp only [finishG, YG, h2, hlen, if_false, PruneP.kids_node]; exact hks
  · intro k hk; cases hk
  · intro t ts h1 h2 k hk
    rcases List.mem_cons.mp hk with rfl | hk
    · exact h1
    · exact h2 k hk

end PruneSide

/-! ## the trunk step -/

section Trunk
variable (val : Nat → Int)

/-- the `_make_trunk` filter with `min_delta = d`, `min_npix = n` -/
abbrev keepT (d : Int) (n : Nat) (t : Tree) : Bool := !(t.isLeaf && !allOrphan val (crits d n) t)

theorem vmin_perm {t t' : Tree} (h : t'.own.Perm t.own) (hne : t.own ≠ []) :
    t'.vmin val = t.vmin val := by
  have hne' : t'.own ≠ [] := by
    intro e; rw [e] at h; exact hne (List.nil_perm.mp h)
  obtain ⟨h1, a, ha, hv⟩ := P8.vmin_spec val t hne
  obtain ⟨h1', a', ha', hv'⟩ := P8.vmin_spec val t' hne'
  have := h1 a' (h.subset ha')
  have := h1' a (h.symm.subset ha)
  omega

theorem orphan_sim (d : Int) (n : Nat) {t t' : Tree} (h : Sm t t') (hne : t.own ≠ []) :
    allOrphan val (crits d n) t = allOrphan val (crits d n) t' := by
  simp only [allOrphan, crits, List.all_cons, List.all_nil, Crit.orphan,
    P18.vmax_perm val (P18.Sm.own' h) hne, vmin_perm val (P18.Sm.own' h) hne,
    (P18.Sm.pixels' h).length_eq]

theorem keepT_sim (d : Int) (n : Nat) {t t' : Tree} (h : Sm t t') (hpix : t.pixels ≠ []) :
    keepT val d n t = keepT val d n t' := by
  unfold keepT
  rw [← P18.Sm.isLeaf' h]
  cases hl : t.isLeaf with
  | false => rfl
  | true =>
    have hk : t.kids = [] := (PruneP.isLeaf_iff t).mp hl
    have hne : t.own ≠ [] := by
      rw [pixels_eq, hk] at hpix; simpa [pixelsL] using hpix
    rw [orphan_sim val d n h hne]

theorem keepT_mono {d0 d1 : Int} {n0 n1 : Nat} (hd : d0 ≤ d1) (hn : n0 ≤ n1) {t : Tree}
    (h : keepT val d1 n1 t = true) : keepT val d0 n0 t = true := by
  unfold keepT at *
  cases hl : t.isLeaf with
  | false => rfl
  | true =>
    simp only [hl, Bool.true_and, Bool.not_not, allOrphan, crits, List.all_cons, List.all_nil,
      Crit.orphan, Bool.and_true, Bool.and_eq_true, decide_eq_true_eq] at h ⊢
    omega

end Trunk

/-! ## the main theorem -/

section Main
variable (val : Nat → Int) (nbrs : Nat → List Nat) (order : List Nat) (d0 d1 : Int) (n0 n1 : Nat)

/-- the post-hoc criteria with the original merge level are, on every parent/child pair of the
loose trunk, the merge-time criteria at the creating pixel of the parent -/
theorem childOrig_eq_merge (E : Env) (hnd : order.Nodup) (d : Int) (n : Nat) :
    ∀ P ∈ preL (makeTrunk E (run E order)), ∀ c ∈ P.kids,
      allChildOrig val (origLevelsL val (makeTrunk E (run E order))) [Crit.minDelta d, Crit.minNpix n]
        P c = allMerge val [Crit.minDelta d, Crit.minNpix n] c P.id (val P.id) := by
  intro P hP c hc
  simp only [allChildOrig, allMerge, List.all_cons, List.all_nil, Crit.childOrig,
    lookup_loose val E order hnd P hP c hc, Crit.child, Crit.atMerge]

/-- the pruning loop with the original-level rule, applied to the loose trunk, computes the
collapse of the loose trunk at the levels of the run -/
theorem pruneLoop_eq_collapse (hnd : order.Nodup) :
    SmL (pruneLoop
        (allChildOrig val
          (origLevelsL val (makeTrunk (envOf val nbrs (crits d0 n0)) (run (envOf val nbrs (crits d0 n0)) order)))
          (crits d1 n1))
        (sizeL (makeTrunk (envOf val nbrs (crits d0 n0)) (run (envOf val nbrs (crits d0 n0)) order)))
        (makeTrunk (envOf val nbrs (crits d0 n0)) (run (envOf val nbrs (crits d0 n0)) order)))
      ((makeTrunk (envOf val nbrs (crits d0 n0)) (run (envOf val nbrs (crits d0 n0)) order)).map
        (collapse val d1 n1 (LS val))) := by
  generalize hE0 : envOf val nbrs (crits d0 n0) = E0
  have hkey := lookup_loose val E0 order hnd
  have hids : IdsNodup (makeTrunk E0 (run E0 order)) := loose_idsNodup E0 order hnd
  have hsub : ∀ s ∈ preL (makeTrunk E0 (run E0 order)), s ∈ preL (run E0 order) :=
    makeTrunk_nodes_subset E0 _
  have har : ∀ s ∈ preL (makeTrunk E0 (run E0 order)), PArity s :=
    fun s hs => compute_arity_pre E0 order s hs
  have hpix : ∀ s ∈ preL (makeTrunk E0 (run E0 order)), s.pixels ≠ [] :=
    fun s hs => P18.own_ne_pixels_ne (run_own_nonempty E0 order s (hsub s hs))
  generalize makeTrunk E0 (run E0 order) = loose at *
  generalize htbl : origLevelsL val loose = tbl at *
  have hlev : ∀ t ∈ loose, ChildIn (HasLev tbl) t := by
    intro t ht P hP k hk
    exact ⟨_, hkey P (PruneP.mem_preL.2 ⟨t, ht, hP⟩) k hk⟩
  -- the collapse at looked-up levels is the collapse at the levels of the run
  have hbridge : loose.map (collapse val d1 n1 (LP tbl)) = loose.map (collapse val d1 n1 (LS val)) := by
    apply List.map_congr_left
    intro t ht
    apply collapse_congr
    intro P hP k hk
    simp only [LP, LS, levOf, hkey P (PruneP.mem_preL.2 ⟨t, ht, hP⟩) k hk, Option.getD_some]
  rw [← hbridge]
  have hloop := pruneLoop_collapse val tbl d1 n1 (sizeL loose) loose hids hpix hlev
  have hfix := pruneLoop_fixpoint (allChildOrig val tbl (crits d1 n1)) loose hids
  rw [pruneForest_none_iff] at hfix
  have harL := pruneLoop_arity (allChildOrig val tbl (crits d1 n1)) (sizeL loose) loose hids har
  have hpixL := P18.pruneLoop_pixels_ne (allChildOrig val tbl (crits d1 n1)) (sizeL loose) loose
    hids hpix
  have hlevL := pruneLoop_childIn (HasLev tbl) (allChildOrig val tbl (crits d1 n1)) (sizeL loose)
    loose hids hlev
  generalize pruneLoop (allChildOrig val tbl (crits d1 n1)) (sizeL loose) loose = R at *
  refine P18.SmL.trans (smL_map ?_) hloop
  intro t ht
  apply (collapse_fix_aux val tbl d1 n1).1 t
  · intro P hP k hk hl
    have hPL : P ∈ preL R := PruneP.mem_preL.2 ⟨t, ht, hP⟩
    have hne : k.own ≠ [] := by
      have := hpixL k (kid_mem_preL hPL hk)
      rw [pixels_eq, hl] at this
      simpa [pixelsL] using this
    have h1 := ic_orig_eq val tbl d1 n1 (P := P) hl hne (hlevL t ht P hP k hk)
    rw [hfix P hPL k hk hl] at h1
    simpa using h1.symm
  · intro P hP
    exact harL P (PruneP.mem_preL.2 ⟨t, ht, hP⟩)

/-- **C08 for `min_delta` and `min_npix` together, with the original-merge-level rule.**  Computing
with `min_delta = d0`, `min_npix = n0` (identifiers = creating pixels) and pruning afterwards with
`d1 ≥ d0`, `n1 ≥ n0`, where the post-hoc `min_delta` test of a leaf measures its peak from the
value of the pixel that first gave it a parent, yields the same hierarchy — same regions, same own
pixels, same parent relation; identifiers, child order and own-pixel order may differ — as
computing with `d1`, `n1` directly.  The order must list distinct pixels by non-increasing value
(ties in any order); nothing is assumed about the adjacency or the sign of `d0`. -/
theorem pruneOrig_eq_compute (hnd : order.Nodup)
    (hsorted : order.Pairwise (fun a b => val b ≤ val a)) (hd : d0 ≤ d1) (hn : n0 ≤ n1) :
    P10.SimL (fun p => p)
      (prune
        (allChildOrig val
          (origLevelsL val
            (makeTrunk (envOf val nbrs [Crit.minDelta d0, Crit.minNpix n0])
              (run (envOf val nbrs [Crit.minDelta d0, Crit.minNpix n0]) order)))
          [Crit.minDelta d1, Crit.minNpix n1])
        (allOrphan val [Crit.minDelta d1, Crit.minNpix n1])
        (makeTrunk (envOf val nbrs [Crit.minDelta d0, Crit.minNpix n0])
          (run (envOf val nbrs [Crit.minDelta d0, Crit.minNpix n0]) order)))
      (makeTrunk (envOf val nbrs [Crit.minDelta d1, Crit.minNpix n1])
        (run (envOf val nbrs [Crit.minDelta d1, Crit.minNpix n1]) order)) := by
  have hA := pruneLoop_eq_collapse val nbrs order d0 d1 n0 n1 hnd
  have hB := run_collapse val nbrs d0 d1 n0 n1 hd hn order hsorted
  have hidsL := loose_idsNodup (envOf val nbrs (crits d0 n0)) order hnd
  have hpixL : ∀ s ∈ preL (makeTrunk (envOf val nbrs (crits d0 n0))
      (run (envOf val nbrs (crits d0 n0)) order)), s.pixels ≠ [] :=
    fun s hs => P18.own_ne_pixels_ne (run_own_nonempty _ order s (makeTrunk_nodes_subset _ _ s hs))
  have hpixR := P18.pruneLoop_pixels_ne
    (allChildOrig val (origLevelsL val (makeTrunk (envOf val nbrs (crits d0 n0))
      (run (envOf val nbrs (crits d0 n0)) order))) (crits d1 n1))
    (sizeL (makeTrunk (envOf val nbrs (crits d0 n0)) (run (envOf val nbrs (crits d0 n0)) order)))
    _ hidsL hpixL
  have hne0 : ∀ t ∈ run (envOf val nbrs (crits d0 n0)) order, t.own ≠ [] :=
    fun t ht => run_own_nonempty _ order t (mem_preL_of_mem ht)
  have hio : (envOf val nbrs (crits d0 n0)).indepOrphan = allOrphan val (crits d0 n0) := rfl
  show SmL (prune (allChildOrig val (origLevelsL val (makeTrunk (envOf val nbrs (crits d0 n0))
      (run (envOf val nbrs (crits d0 n0)) order))) (crits d1 n1)) (allOrphan val (crits d1 n1))
      (makeTrunk (envOf val nbrs (crits d0 n0)) (run (envOf val nbrs (crits d0 n0)) order)))
    (makeTrunk (envOf val nbrs (crits d1 n1)) (run (envOf val nbrs (crits d1 n1)) order))
  unfold prune makeTrunkP
  generalize envOf val nbrs (crits d0 n0) = E0 at *
  generalize run E0 order = roots0 at *
  generalize run (envOf val nbrs (crits d1 n1)) order = roots1 at *
  generalize pruneLoop (allChildOrig val (origLevelsL val (makeTrunk E0 roots0)) (crits d1 n1))
    (sizeL (makeTrunk E0 roots0)) (makeTrunk E0 roots0) = R at *
  -- pixels of the collapsed roots are non-empty
  have hpixC : ∀ c ∈ roots0.map (collapse val d1 n1 (LS val)), c.pixels ≠ [] := by
    intro c hc e
    obtain ⟨t, ht, rfl⟩ := List.mem_map.mp hc
    have := collapse_pixels val d1 n1 (LS val) t
    rw [e] at this
    exact P18.own_ne_pixels_ne (hne0 t ht) (List.nil_perm.mp this)
  -- 1. drop the sort on the pruned side
  have s1 : SmL ((sortById R).filter (keepT val d1 n1)) (R.filter (keepT val d1 n1)) :=
    P18.SmL.of_perm ((sortById_perm R).filter _)
  -- 2. pass to the collapse of the loose trunk
  have s2 : SmL (R.filter (keepT val d1 n1))
      (((makeTrunk E0 roots0).map (collapse val d1 n1 (LS val))).filter (keepT val d1 n1)) := by
    apply P10.SimL.filter hA
    intro x hx y hxy
    exact keepT_sim val d1 n1 hxy (hpixR x (mem_preL_of_mem hx))
  -- 3. the loose trunk step is subsumed by the strict one
  have s3 : SmL (((makeTrunk E0 roots0).map (collapse val d1 n1 (LS val))).filter (keepT val d1 n1))
      ((roots0.map (collapse val d1 n1 (LS val))).filter (keepT val d1 n1)) := by
    have hperm : ((makeTrunk E0 roots0).map (collapse val d1 n1 (LS val))).Perm
        ((roots0.filter (fun t => !(t.isLeaf && !E0.indepOrphan t))).map
          (collapse val d1 n1 (LS val))) := by
      unfold makeTrunk
      exact ((sortById_perm roots0).filter _).map _
    refine (P18.SmL.of_perm (hperm.filter _)).trans ?_
    rw [List.filter_map, List.filter_map, List.filter_filter]
    have : roots0.filter (fun a => (keepT val d1 n1 ∘ collapse val d1 n1 (LS val)) a &&
          !(a.isLeaf && !E0.indepOrphan a))
        = roots0.filter (keepT val d1 n1 ∘ collapse val d1 n1 (LS val)) := by
      apply List.filter_congr
      intro t _
      simp only [Function.comp]
      cases hl : t.isLeaf with
      | false => simp
      | true =>
        have hk : t.kids = [] := (PruneP.isLeaf_iff t).mp hl
        rw [collapse_leaf val d1 n1 (LS val) hk, hio]
        cases h1 : keepT val d1 n1 t with
        | false => rfl
        | true =>
          have h0 := keepT_mono val hd hn h1
          unfold keepT at h0
          rw [hl] at h0
          rw [h0]; rfl
    rw [this]
    exact P18.SmL.refl _
  -- 4. pass to the strict run
  have s4 : SmL ((roots0.map (collapse val d1 n1 (LS val))).filter (keepT val d1 n1))
      (roots1.filter (keepT val d1 n1)) := by
    apply P10.SimL.filter hB
    intro x hx y hxy
    exact keepT_sim val d1 n1 hxy (hpixC x hx)
  -- 5. put the sort back
  have s5 : SmL (roots1.filter (keepT val d1 n1)) ((sortById roots1).filter (keepT val d1 n1)) :=
    P18.SmL.of_perm ((sortById_perm roots1).filter _).symm
  exact (((s1.trans s2).trans s3).trans s4).trans s5

end Main

end P28
