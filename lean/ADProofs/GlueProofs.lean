import ADProofs.AssignedProofs
import ADProofs.MiscProofs
/-!
# ADProofs.GlueProofs — glue lemmas (P30)

The invariants proved for the pixel loop (`run`) hold for the dendrogram that `compute` returns
(after `_make_trunk` and re-labelling), are preserved by `prune`, and by a save / load cycle
(`reload`).  Hence the accessor theorems (which assume `P8.WF`) and the identifier theorem (which
assumes `GoodForest`) apply to every computed, pruned and re-loaded dendrogram.

* `makeTrunk_good`        : `GoodForest (makeTrunk E (run E order))`
* `compute_ids`, `compute_idsNodup` : final identifiers are exactly `0 … N-1`
* `compute_wf`            : `P8.WF (compute E order) n`
* `compute_arity`, `compute_own_nonempty`, `compute_all_connected`
* `prune_wf`, `prune_idsNodup`, `prune_arity`, `prune_own_nonempty`
* `Reach`, `reach_wf`     : every dendrogram obtained by `compute`, then any sequence of prunes and
  save / load cycles, is well formed

Core Lean only.
-/
open Tree

namespace P30

/-! ## generalities -/

theorem pixelsL_sublist {a b : List Tree} (h : a.Sublist b) : (pixelsL a).Sublist (pixelsL b) := by
  induction h with
  | slnil => simp
  | cons t _ ih => simp only [pixelsL]; exact ih.trans (List.sublist_append_right _ _)
  | cons_cons t _ ih => simp only [pixelsL]; exact List.Sublist.append_left ih _

/-! ### a trunk step: filter of the root list sorted by identifier -/

theorem trunk_ids_nodup (q : Tree → Bool) (f : List Tree) (h : ((preL f).map Tree.id).Nodup) :
    ((preL ((sortById f).filter q)).map Tree.id).Nodup := by
  have h1 : ((preL (sortById f)).map Tree.id).Nodup :=
    (((preL_perm (sortById_perm f)).map Tree.id).nodup_iff).mpr h
  exact ((preL_sublist List.filter_sublist).map Tree.id).nodup h1

theorem trunk_pixels_nodup (q : Tree → Bool) (f : List Tree) (h : (pixelsL f).Nodup) :
    (pixelsL ((sortById f).filter q)).Nodup := by
  have h1 : (pixelsL (sortById f)).Nodup := (pixelsL_perm (sortById_perm f)).nodup_iff.mpr h
  exact (pixelsL_sublist List.filter_sublist).nodup h1

theorem trunk_nodes_subset (q : Tree → Bool) (f : List Tree) :
    ∀ t ∈ preL ((sortById f).filter q), t ∈ preL f := by
  intro t ht
  exact (preL_perm (sortById_perm f)).subset ((preL_sublist List.filter_sublist).subset ht)

theorem trunk_pixels_subset (q : Tree → Bool) (f : List Tree) :
    ∀ p ∈ pixelsL ((sortById f).filter q), p ∈ pixelsL f := by
  intro p hp
  exact (pixelsL_perm (sortById_perm f)).subset ((pixelsL_sublist List.filter_sublist).subset hp)

/-! ### re-labelling -/

theorem length_preL_mapIdsL (g : Nat → Nat) (f : List Tree) :
    (preL (mapIdsL g f)).length = (preL f).length := by
  rw [(P9.pre_mapIds g).2 f, List.length_map]

theorem mem_preL_mapIdsL {g : Nat → Nat} {f : List Tree} {t : Tree} (h : t ∈ preL (mapIdsL g f)) :
    ∃ s ∈ preL f, t = mapIds g s := by
  rw [(P9.pre_mapIds g).2 f] at h
  obtain ⟨s, hs, e⟩ := List.mem_map.mp h
  exact ⟨s, hs, e.symm⟩

theorem mem_preL_compute {E : Env} {order : List Nat} {t : Tree}
    (h : t ∈ preL (compute E order)) :
    ∃ s ∈ preL (makeTrunk E (run E order)),
      t = mapIds (finalId (makeTrunk E (run E order))) s :=
  mem_preL_mapIdsL h

/-! ## 1. the trunk of the pixel loop is a good forest -/

theorem makeTrunk_good (E : Env) (order : List Nat) (hnd : order.Nodup) :
    GoodForest (makeTrunk E (run E order)) := by
  refine ⟨?_, ?_, ?_⟩
  · exact trunk_ids_nodup _ _ (run_ids_nodup E order hnd)
  · intro t ht
    exact run_own_nonempty E order t (makeTrunk_nodes_subset E _ t ht)
  · have h : (pixelsL (run E order)).Nodup :=
      (run_pixels E order).nodup_iff.mpr ((List.reverse_perm order).nodup_iff.mpr hnd)
    exact trunk_pixels_nodup _ _ h

/-! ## 2. final identifiers -/

/-- the identifiers of the returned dendrogram are exactly `0 … N-1`, each once -/
theorem compute_ids (E : Env) (order : List Nat) (hnd : order.Nodup) :
    ((Tree.preL (compute E order)).map Tree.id).Perm
      (List.range (Tree.preL (compute E order)).length) := by
  have h := relabel_ids_perm _ (makeTrunk_good E order hnd)
  have hl : (preL (compute E order)).length = (preL (makeTrunk E (run E order))).length :=
    length_preL_mapIdsL _ _
  rw [hl]
  exact h

theorem compute_idsNodup (E : Env) (order : List Nat) (hnd : order.Nodup) :
    IdsNodup (compute E order) := by
  unfold IdsNodup
  exact (compute_ids E order hnd).nodup_iff.mpr List.nodup_range

/-! ## 3. well-formedness of the returned dendrogram -/

theorem compute_wf (E : Env) (order : List Nat) (hnd : order.Nodup) (n : Nat)
    (hn : ∀ p ∈ order, p < n) : P8.WF (compute E order) n :=
  ⟨compute_idsNodup E order hnd, P9.compute_pixels_nodup E order hnd,
   fun p hp => hn p ((P9.compute_assigned_iff E order hnd p).mp hp).1⟩

/-! ## 4. arity and non-empty structures -/

theorem compute_arity (E : Env) (order : List Nat) :
    ∀ t ∈ Tree.preL (compute E order), PArity t := by
  intro t ht
  obtain ⟨s, hs, rfl⟩ := mem_preL_compute ht
  have ha := compute_arity_pre E order s hs
  unfold PArity
  unfold Arity at ha
  rw [P9.kids_mapIds]
  rcases ha with h | h
  · left; rw [h]; simp [mapIdsL]
  · right; rw [P9.length_mapIdsL]; exact h

theorem compute_own_nonempty (E : Env) (order : List Nat) :
    ∀ t ∈ Tree.preL (compute E order), t.own ≠ [] := by
  intro t ht
  obtain ⟨s, hs, rfl⟩ := mem_preL_compute ht
  rw [P9.own_mapIds]
  exact run_own_nonempty E order s (makeTrunk_nodes_subset E _ s hs)

/-! ## 5. connectivity -/

theorem compute_all_connected (E : Env) (hsym : ∀ x y, y ∈ E.nbrs x → x ∈ E.nbrs y)
    (order : List Nat) : ∀ t ∈ Tree.preL (compute E order), PixConn E t := by
  intro t ht
  obtain ⟨s, hs, rfl⟩ := mem_preL_compute ht
  unfold PixConn
  rw [(P9.pixels_mapIds _).1 s]
  exact ContourP.run_all_connected E hsym order s (makeTrunk_nodes_subset E _ s hs)

/-! ## 6. pruning -/

theorem prune_idsNodup (ic : Tree → Tree → Bool) (io : Tree → Bool) (f : List Tree)
    (h : IdsNodup f) : IdsNodup (prune ic io f) :=
  trunk_ids_nodup _ _ (pruneLoop_idsNodup ic _ f h)

theorem prune_wf (ic : Tree → Tree → Bool) (io : Tree → Bool) (f : List Tree) (n : Nat)
    (h : P8.WF f n) : P8.WF (prune ic io f) n := by
  have hp := pruneLoop_pixels ic (sizeL f) f h.1
  refine ⟨prune_idsNodup ic io f h.1, ?_, ?_⟩
  · exact trunk_pixels_nodup _ _ (hp.nodup_iff.mpr h.2.1)
  · intro p hp'
    exact h.2.2 p (hp.subset (trunk_pixels_subset _ _ p hp'))

theorem prune_arity (ic : Tree → Tree → Bool) (io : Tree → Bool) (f : List Tree)
    (hids : IdsNodup f) (ha : ∀ s ∈ Tree.preL f, PArity s) :
    ∀ s ∈ Tree.preL (prune ic io f), PArity s :=
  fun s hs => pruneLoop_arity ic _ f hids ha s (trunk_nodes_subset _ _ s hs)

/-! ### non-empty structures through the pruning loop -/

theorem pruneAt_own (P k : Tree) (hk : k ∈ P.kids) (hl : k.kids = []) (hids : IdsNodup [P])
    (ha : ∀ s ∈ pre P, s.own ≠ []) : ∀ s ∈ pre (pruneAt P k), s.own ≠ [] := by
  intro s hs
  rcases PruneP.mem_pre.1 hs with rfl | hs
  · rcases pruneAt_cases P k hk hids with ⟨i, o, a, b, rfl, _, e⟩ | ⟨i, o, x, y, rfl, e⟩
    · have h0 := ha _ (PruneP.self_mem_pre _)
      rw [e]
      simp only [PruneP.own_node] at h0 ⊢
      intro h
      exact h0 (List.append_eq_nil_iff.mp h).1
    · have h0 := ha _ (PruneP.self_mem_pre _)
      rw [e]
      simp only [PruneP.own_node] at h0 ⊢
      intro h
      exact h0 (List.append_eq_nil_iff.mp (List.append_eq_nil_iff.mp h).1).1
  · rcases pruneAt_cases P k hk hids with ⟨i, o, a, b, rfl, _, e⟩ | ⟨i, o, x, y, rfl, e⟩
    · rw [e] at hs
      apply ha s
      refine PruneP.mem_pre.2 (Or.inr ?_)
      simp only [PruneP.kids_node, preL_append, List.mem_append, hl, preL] at hs ⊢
      rcases hs with (h | h) | h
      · exact Or.inl h
      · exact Or.inr (Or.inr h)
      · cases h
    · rw [e] at hs
      apply ha s
      refine PruneP.mem_pre.2 (Or.inr ?_)
      simp only [PruneP.kids_node, preL_append, PruneP.preL_cons, List.mem_append, preL,
        List.append_nil] at hs ⊢
      rcases hs with h | h
      · exact Or.inl (PruneP.mem_pre.2 (Or.inr h))
      · exact Or.inr (PruneP.mem_pre.2 (Or.inr h))

theorem pruneIn_own (ic : Tree → Tree → Bool) (t t' : Tree) (h : pruneIn ic t = some t')
    (hids : IdsNodup [t]) (ha : ∀ s ∈ pre t, s.own ≠ []) : ∀ s ∈ pre t', s.own ≠ [] := by
  revert hids ha
  refine pruneIn_ind ic
    (fun t t' => IdsNodup [t] → (∀ s ∈ pre t, s.own ≠ []) → ∀ s ∈ pre t', s.own ≠ []) ?_ ?_ t t' h
  · intro P k hk hl hids ha
    exact pruneAt_own P k hk hl hids ha
  · intro i o a k k' b _ ih hids ha s hs
    have hk' := ih (idsNodup_kid hids) (fun s hs => ha s (PruneP.mem_pre.2 (Or.inr (by
      simp only [PruneP.kids_node, preL_append, PruneP.preL_cons, List.mem_append]
      exact Or.inr (Or.inl hs)))))
    rcases PruneP.mem_pre.1 hs with rfl | hs
    · exact ha (node i o (a ++ k :: b)) (PruneP.self_mem_pre _)
    · simp only [PruneP.kids_node, preL_append, PruneP.preL_cons, List.mem_append] at hs
      rcases hs with h' | h' | h'
      · exact ha s (PruneP.mem_pre.2 (Or.inr (by
          simp only [PruneP.kids_node, preL_append, PruneP.preL_cons, List.mem_append]
          exact Or.inl h')))
      · exact hk' s h'
      · exact ha s (PruneP.mem_pre.2 (Or.inr (by
          simp only [PruneP.kids_node, preL_append, PruneP.preL_cons, List.mem_append]
          exact Or.inr (Or.inr h'))))

theorem pruneForest_own (ic : Tree → Tree → Bool) (f f' : List Tree)
    (h : pruneForest ic [] f = some f') (hids : IdsNodup f) (ha : ∀ s ∈ Tree.preL f, s.own ≠ []) :
    ∀ s ∈ Tree.preL f', s.own ≠ [] := by
  obtain ⟨a, t, t', b, rfl, rfl, hp⟩ := pruneForest_some ic f [] f' h
  have hk := pruneIn_own ic t t' hp (idsNodup_sub hids) (fun s hs => ha s (by
    simp only [preL_append, PruneP.preL_cons, List.mem_append]; exact Or.inr (Or.inl hs)))
  intro s hs
  simp only [List.nil_append, preL_append, PruneP.preL_cons, List.mem_append] at hs
  rcases hs with h' | h' | h'
  · exact ha s (by simp only [preL_append, PruneP.preL_cons, List.mem_append]; exact Or.inl h')
  · exact hk s h'
  · exact ha s (by
      simp only [preL_append, PruneP.preL_cons, List.mem_append]; exact Or.inr (Or.inr h'))

theorem pruneLoop_own (ic : Tree → Tree → Bool) (n : Nat) (f : List Tree) (hids : IdsNodup f)
    (ha : ∀ s ∈ Tree.preL f, s.own ≠ []) : ∀ s ∈ Tree.preL (pruneLoop ic n f), s.own ≠ [] := by
  induction n generalizing f with
  | zero => exact ha
  | succ n ih =>
    rw [pruneLoop]
    cases hp : pruneForest ic [] f with
    | none => exact ha
    | some f' =>
      exact ih f' (pruneForest_idsNodup ic f f' hp hids) (pruneForest_own ic f f' hp hids ha)

theorem prune_own_nonempty (ic : Tree → Tree → Bool) (io : Tree → Bool) (f : List Tree)
    (hids : IdsNodup f) (h : ∀ s ∈ Tree.preL f, s.own ≠ []) :
    ∀ s ∈ Tree.preL (prune ic io f), s.own ≠ [] :=
  fun s hs => pruneLoop_own ic _ f hids h s (trunk_nodes_subset _ _ s hs)

/-! ## save / load -/

theorem mem_preL_reload {f : List Tree} {n : Nat} {t : Tree} (h : t ∈ preL (reload f n)) :
    ∃ s ∈ preL f, t = regroupT (labelMap f n) s := by
  unfold reload at h
  rw [P21.preL_regroupL] at h
  obtain ⟨s, hs, e⟩ := List.mem_map.mp h
  exact ⟨s, hs, e.symm⟩

theorem reload_idsNodup (f : List Tree) (n : Nat) (h : IdsNodup f) : IdsNodup (reload f n) := by
  unfold IdsNodup at *
  rw [P21.reload_ids]; exact h

theorem reload_arity (f : List Tree) (n : Nat) (ha : ∀ s ∈ Tree.preL f, PArity s) :
    ∀ s ∈ Tree.preL (reload f n), PArity s := by
  intro t ht
  obtain ⟨s, hs, rfl⟩ := mem_preL_reload ht
  have h := ha s hs
  unfold PArity at *
  rw [P21.regroupT_kids, P21.regroupL_eq_map]
  rcases h with h | h
  · left; rw [h]; rfl
  · right; rw [List.length_map]; exact h

theorem reload_own_nonempty (f : List Tree) (n : Nat) (hwf : P8.WF f n)
    (h : ∀ s ∈ Tree.preL f, s.own ≠ []) : ∀ s ∈ Tree.preL (reload f n), s.own ≠ [] := by
  intro t ht
  obtain ⟨s, hs, rfl⟩ := mem_preL_reload ht
  rw [P21.regroupT_own]
  intro e
  have hp := P8.binOf_perm f n hwf s hs
  rw [e] at hp
  exact h s hs hp.nil_eq.symm

/-! ## 7. histories -/

/-- the dendrograms obtainable from `compute E order` by any sequence of `prune` calls (arbitrary
criteria) and save / load cycles over an array of `n` pixels -/
inductive Reach (E : Env) (order : List Nat) (n : Nat) : List Tree → Prop
  | base : Reach E order n (_root_.compute E order)
  | pruneStep (ic : Tree → Tree → Bool) (io : Tree → Bool) (f : List Tree) :
      Reach E order n f → Reach E order n (_root_.prune ic io f)
  | reloadStep (f : List Tree) : Reach E order n f → Reach E order n (_root_.reload f n)

/-- every dendrogram obtained by `compute`, then any sequence of prunes and save / load cycles, is
a well-formed forest with distinct identifiers, branches with ≥ 2 children and non-empty
structures (so all accessor theorems apply to it) -/
theorem reach_wf (E : Env) (order : List Nat) (hnd : order.Nodup) (n : Nat)
    (hn : ∀ p ∈ order, p < n) :
    ∀ f, Reach E order n f →
      P8.WF f n ∧ IdsNodup f ∧ (∀ s ∈ Tree.preL f, PArity s) ∧ (∀ s ∈ Tree.preL f, s.own ≠ []) := by
  intro f hf
  induction hf with
  | base =>
    exact ⟨compute_wf E order hnd n hn, compute_idsNodup E order hnd, compute_arity E order,
      compute_own_nonempty E order⟩
  | pruneStep ic io f _ ih =>
    obtain ⟨hwf, hids, har, hown⟩ := ih
    exact ⟨prune_wf ic io f n hwf, prune_idsNodup ic io f hids, prune_arity ic io f hids har,
      prune_own_nonempty ic io f hids hown⟩
  | reloadStep f _ ih =>
    obtain ⟨hwf, hids, har, hown⟩ := ih
    exact ⟨P21.reload_wf f n hwf, reload_idsNodup f n hids, reload_arity f n har,
      reload_own_nonempty f n hwf hown⟩

end P30
