import ADModel.LabelMap
import ADProofs.LabelMapProofs
import ADProofs.AssignedProofs
import ADProofs.GlueProofs
/-!
# ADProofs.FinalLabelProofs — the label map after `_make_trunk` and the re-numbering (P40)

`ADModel.LabelMap.runL` models `index_map` during the pixel loop.  After the loop
`Dendrogram.compute` (dendrogram.py:331-345) still writes to it:

* (a) `_make_trunk` : every parentless leaf that fails the value-less criteria is removed and
  `leaf._fill_footprint(index_map, -1)` resets its pixels                      → `clearFootprint`
  (the literal recursion of `Structure._fill_footprint`, which gives the children `level + 1`, is
  `fillRec`; the two agree on leaves, and only leaves are ever dropped: `fillRec_leaf`,
  `finalLmapRec_eq`);
* (b) `for idx, s in enumerate(sorted(self, key=smallest_index)): s.idx = idx;
  s._fill_footprint(index_map, idx, recursive=False)`                          → `fillOwn`, `fillEnum`
* (c) the padded border is cut off: the border cells are never processed, they carry `none`
  before and after (`finalLmap_unprocessed`), so cutting them off is a restriction of the domain.

`finalLmap E order` is the label map after (a) and (b).

For every `E : Env` and every `order` without repetition:

* `finalLmap_eq`        : `finalLmap E order q = labelOf (compute E order) q`  (MAIN)
* `finalLmap_none_iff`  : `none` exactly for unprocessed pixels and pixels of dropped parentless leaves
* `finalLmap_some_iff`  : `some i` exactly when the structure with final identifier `i` owns the pixel
* `finalLmap_lt`        : labels are `< number of structures`
* `finalLmap_surj`      : every identifier `< number of structures` labels some pixel
* `finalId_inj`, `finalLmap_separates` : distinct structures get distinct labels
* `finalLmapRec_eq`     : the literal `_fill_footprint` recursion gives the same map

Core Lean only.
-/
open Tree

/-! ## definitions (executable) -/

/-- `t._fill_footprint(index_map, -1)` as it is *used* : every pixel of `t` (with substructures) is
reset to `none` (`-1`).  `_make_trunk` applies it to leaves only. -/
def clearFootprint (lmap : Nat → Option Nat) (t : Tree) : Nat → Option Nat :=
  fun q => if t.pixels.contains q then none else lmap q

/-- `t._fill_footprint(index_map, idx, recursive=False)` : `index_map[t.indices(subtree=False)] = idx` -/
def fillOwn (lmap : Nat → Option Nat) (t : Tree) (idx : Nat) : Nat → Option Nat :=
  fun q => if t.own.contains q then some idx else lmap q

/-- `for idx, s in enumerate(S, start): s._fill_footprint(index_map, idx, recursive=False)` -/
def fillEnum (lmap : Nat → Option Nat) : List Tree → Nat → (Nat → Option Nat)
  | [], _ => lmap
  | s :: rest, idx => fillEnum (fillOwn lmap s idx) rest (idx + 1)

/-- the label map when `Dendrogram.compute` returns (before the border is cut off): the map of the
pixel loop, the dropped parentless leaves cleared, then every surviving structure's own pixels set
to its position in `sorted(self, key=smallest_index)` -/
def finalLmap (E : Env) (order : List Nat) : Nat → Option Nat :=
  let s := runL E order
  fillEnum ((droppedOrphans E s.roots).foldl clearFootprint s.lmap)
    (sortBySmallest (nodes (makeTrunk E s.roots))) 0

/-- a level written into `index_map` : negative = unassigned -/
def encLevel (l : Int) : Option Nat := if l < 0 then none else some l.toNat

mutual
/-- `Structure._fill_footprint(array, level)` literally (`recursive=True`): the children first, with
`level + 1`, then the own pixels -/
def fillRec (lmap : Nat → Option Nat) : Tree → Int → (Nat → Option Nat)
  | node _ o ks, level => fun q => if o.contains q then encLevel level else fillRecL lmap ks (level + 1) q
def fillRecL (lmap : Nat → Option Nat) : List Tree → Int → (Nat → Option Nat)
  | [], _ => lmap
  | t :: ts, level => fillRecL (fillRec lmap t level) ts level
end

/-- `finalLmap` with the literal `_fill_footprint(index_map, -1)` in `_make_trunk` -/
def finalLmapRec (E : Env) (order : List Nat) : Nat → Option Nat :=
  let s := runL E order
  fillEnum ((droppedOrphans E s.roots).foldl (fun lm t => fillRec lm t (-1)) s.lmap)
    (sortBySmallest (nodes (makeTrunk E s.roots))) 0

namespace P40

/-! ## (a) clearing -/

theorem foldl_clear (D : List Tree) (lm : Nat → Option Nat) (q : Nat) :
    (D.foldl clearFootprint lm) q =
      if D.any (fun d => d.pixels.contains q) then none else lm q := by
  induction D generalizing lm with
  | nil => simp
  | cons d D ih =>
    rw [List.foldl_cons, ih, List.any_cons]
    simp only [clearFootprint]
    cases D.any (fun d => d.pixels.contains q) <;> cases d.pixels.contains q <;> simp

theorem foldl_clear_of_mem (D : List Tree) (lm : Nat → Option Nat) (q : Nat)
    (h : ∃ d ∈ D, q ∈ d.pixels) : (D.foldl clearFootprint lm) q = none := by
  have : D.any (fun d => d.pixels.contains q) = true := by
    simpa [List.any_eq_true] using h
  rw [foldl_clear, this]
  rfl

theorem foldl_clear_of_not_mem (D : List Tree) (lm : Nat → Option Nat) (q : Nat)
    (h : ¬ ∃ d ∈ D, q ∈ d.pixels) : (D.foldl clearFootprint lm) q = lm q := by
  have : D.any (fun d => d.pixels.contains q) = false := by
    rw [Bool.eq_false_iff]; intro hc
    exact h (by simpa [List.any_eq_true] using hc)
  rw [foldl_clear, this]
  rfl

/-- on a leaf the literal recursion with level `-1` is `clearFootprint` -/
theorem fillRec_leaf (lm : Nat → Option Nat) (t : Tree) (h : t.kids = []) :
    fillRec lm t (-1) = clearFootprint lm t := by
  cases t with
  | node i o ks =>
    have : ks = [] := h
    subst this
    funext q
    simp [fillRec, fillRecL, clearFootprint, pixels, pixelsL, encLevel]

theorem foldl_fillRec_leaves (D : List Tree) (hD : ∀ d ∈ D, d.kids = []) (lm : Nat → Option Nat) :
    D.foldl (fun lm t => fillRec lm t (-1)) lm = D.foldl clearFootprint lm := by
  induction D generalizing lm with
  | nil => rfl
  | cons d D ih =>
    rw [List.foldl_cons, List.foldl_cons, fillRec_leaf lm d (hD d List.mem_cons_self)]
    exact ih (fun x hx => hD x (List.mem_cons_of_mem _ hx)) _

/-- the recursion of `_fill_footprint` is *not* "everything to `-1`" on a branch: the children get
`level + 1 = 0`.  Harmless, because `_make_trunk` only drops leaves. -/
example : (List.range 3).map (fillRec (fun _ => some 7) (node 0 [0] [node 1 [1] [], node 2 [2] []]) (-1)) =
    [none, some 0, some 0] := by decide

/-- **the literal `_fill_footprint(index_map, -1)` gives the same final map** (no hypothesis on
`order` needed: whatever `_make_trunk` drops has no children) -/
theorem finalLmapRec_eq (E : Env) (order : List Nat) : finalLmapRec E order = finalLmap E order := by
  unfold finalLmapRec finalLmap
  simp only
  rw [foldl_fillRec_leaves]
  intro d hd
  exact ((P9.dropped_mem_iff E _ d).mp hd).2.1

/-! ## (b) re-numbering -/

theorem fillEnum_of_not_mem (S : List Tree) (lm : Nat → Option Nat) (k q : Nat)
    (h : ∀ s ∈ S, q ∉ s.own) : fillEnum lm S k q = lm q := by
  induction S generalizing lm k with
  | nil => rfl
  | cons a S ih =>
    simp only [fillEnum]
    rw [ih _ _ (fun s hs => h s (List.mem_cons_of_mem _ hs))]
    have := h a List.mem_cons_self
    simp [fillOwn, this]

/-- in a list of structures with distinct identifiers and pairwise disjoint own lists, the loop
writes, at a pixel owned by `s`, the position of `s` -/
theorem fillEnum_of_mem (S : List Tree) (hid : (S.map Tree.id).Nodup)
    (hown : (S.flatMap Tree.own).Nodup) (lm : Nat → Option Nat) (k q : Nat) (s : Tree) (hs : s ∈ S)
    (hq : q ∈ s.own) : fillEnum lm S k q = some (k + findIdx (fun u => u.id == s.id) S) := by
  induction S generalizing lm k with
  | nil => simp at hs
  | cons a S ih =>
    rw [List.map_cons, List.nodup_cons] at hid
    rw [List.flatMap_cons] at hown
    have hd := List.nodup_append.mp hown
    simp only [fillEnum]
    rcases List.mem_cons.mp hs with e | hs'
    · subst e
      rw [fillEnum_of_not_mem]
      · simp [fillOwn, hq, findIdx]
      · intro u hu hqu
        exact hd.2.2 q hq q (P8.mem_flatMap_own.mpr ⟨u, hu, hqu⟩) rfl
    · have hne : a.id ≠ s.id := fun e => hid.1 (e ▸ List.mem_map_of_mem hs')
      rw [ih hid.2 hd.2.1 _ _ hs']
      simp only [findIdx, beq_iff_eq, hne, if_false]
      congr 1
      omega

/-! ## re-labelling and `labelOf` -/

/-- `mapIds` changes identifiers only, so the owner of a pixel is the same structure -/
theorem labelOf_mapIdsL (g : Nat → Nat) (f : List Tree) (q : Nat) :
    labelOf (mapIdsL g f) q = (labelOf f q).map g := by
  unfold labelOf nodes
  rw [(P9.pre_mapIds g).2 f, List.find?_map]
  have : ((fun t : Tree => t.own.contains q) ∘ mapIds g) = (fun t : Tree => t.own.contains q) := by
    funext t; simp [P9.own_mapIds]
  rw [this]
  cases (preL f).find? (fun t => t.own.contains q) with
  | none => rfl
  | some t => simp [P9.id_mapIds]

theorem labelOf_relabel (f : List Tree) (q : Nat) :
    labelOf (relabel f) q = (labelOf f q).map (finalId f) :=
  labelOf_mapIdsL _ f q

/-- `finalId` is injective on the identifiers of a forest with distinct identifiers -/
theorem finalId_inj (f : List Tree) (hid : ((preL f).map Tree.id).Nodup) {s t : Tree}
    (hs : s ∈ preL f) (ht : t ∈ preL f) (e : finalId f s.id = finalId f t.id) : s = t := by
  have hS := sortBySmallest_perm (preL f)
  have hnd : ((sortBySmallest (preL f)).map Tree.id).Nodup := (hS.map Tree.id).nodup_iff.mpr hid
  have key : ∀ (S : List Tree), (S.map Tree.id).Nodup → ∀ a ∈ S, ∀ b ∈ S,
      findIdx (fun u => u.id == a.id) S = findIdx (fun u => u.id == b.id) S → a = b := by
    intro S
    induction S with
    | nil => intro _ a ha; simp at ha
    | cons c S ih =>
      intro h a ha b hb e
      rw [List.map_cons, List.nodup_cons] at h
      rcases List.mem_cons.mp ha with ea | ha' <;> rcases List.mem_cons.mp hb with eb | hb'
      · rw [ea, eb]
      · have hne : c.id ≠ b.id := fun e' => h.1 (e' ▸ List.mem_map_of_mem hb')
        rw [ea] at e
        simp [findIdx, hne] at e
      · have hne : c.id ≠ a.id := fun e' => h.1 (e' ▸ List.mem_map_of_mem ha')
        rw [eb] at e
        simp [findIdx, hne] at e
      · have hna : c.id ≠ a.id := fun e' => h.1 (e' ▸ List.mem_map_of_mem ha')
        have hnb : c.id ≠ b.id := fun e' => h.1 (e' ▸ List.mem_map_of_mem hb')
        simp only [findIdx, beq_iff_eq, hna, hnb, if_false] at e
        exact ih h.2 a ha' b hb' (by omega)
  exact key _ hnd s (hS.mem_iff.mpr hs) t (hS.mem_iff.mpr ht) e

/-! ## the final label map -/

/-- the statement for an arbitrary good state of the loop -/
theorem final_of_good (E : Env) (s : LState) (h : P36.Good s) (q : Nat) :
    fillEnum ((droppedOrphans E s.roots).foldl clearFootprint s.lmap)
        (sortBySmallest (nodes (makeTrunk E s.roots))) 0 q =
      labelOf (relabel (makeTrunk E s.roots)) q := by
  rw [labelOf_relabel]
  have hidT : ((preL (makeTrunk E s.roots)).map Tree.id).Nodup := P30.trunk_ids_nodup _ _ h.ids
  have hpxT : (pixelsL (makeTrunk E s.roots)).Nodup := P30.trunk_pixels_nodup _ _ h.pix
  have hS := sortBySmallest_perm (preL (makeTrunk E s.roots))
  by_cases hq : q ∈ pixelsL (makeTrunk E s.roots)
  · -- owned by a surviving structure: its position in the sorted list
    rw [(P8.pixels_eq_own).2, P8.mem_flatMap_own] at hq
    obtain ⟨t, ht, hqt⟩ := hq
    have hl : labelOf (makeTrunk E s.roots) q = some t.id :=
      (P36.labelOf_some_iff hpxT).mpr ⟨t, ht, rfl, hqt⟩
    rw [hl]
    have hidS : ((sortBySmallest (preL (makeTrunk E s.roots))).map Tree.id).Nodup :=
      (hS.map Tree.id).nodup_iff.mpr hidT
    have hownS : ((sortBySmallest (preL (makeTrunk E s.roots))).flatMap Tree.own).Nodup := by
      refine (hS.flatMap_right Tree.own).nodup_iff.mpr ?_
      rw [← (P8.pixels_eq_own).2]; exact hpxT
    rw [fillEnum_of_mem _ hidS hownS _ 0 q t (hS.mem_iff.mpr ht) hqt]
    simp [finalId]
  · -- not owned by a surviving structure: cleared or never labelled
    have hl : labelOf (makeTrunk E s.roots) q = none := (P8.labelOf_none_iff _ q).mpr hq
    rw [hl, fillEnum_of_not_mem]
    · simp only [Option.map_none]
      by_cases hd : ∃ d ∈ droppedOrphans E s.roots, q ∈ d.pixels
      · exact foldl_clear_of_mem _ _ q hd
      · rw [foldl_clear_of_not_mem _ _ q hd, h.lab, P8.labelOf_none_iff]
        intro hc
        have := (pixelsL_perm (P9.makeTrunk_split E s.roots)).symm.subset hc
        rw [pixelsL_append] at this
        rcases List.mem_append.mp this with h1 | h1
        · exact hq h1
        · exact hd (mem_pixelsL.mp h1)
    · intro u hu hqu
      apply hq
      rw [(P8.pixels_eq_own).2, P8.mem_flatMap_own]
      exact ⟨u, hS.mem_iff.mp hu, hqu⟩

/-- **MAIN.**  When `Dendrogram.compute` returns, the label map (`index_map`) names, for every
cell `q`, the final identifier of the structure whose own list contains `q`; it is `none` (`-1`)
for every other cell. -/
theorem finalLmap_eq (E : Env) (order : List Nat) (hnd : order.Nodup) (q : Nat) :
    finalLmap E order q = labelOf (compute E order) q := by
  have hg := P36.runL_spec E order hnd
  unfold finalLmap compute
  rw [← hg.1]
  exact final_of_good E (runL E order) hg.2 q

/-- the label map is `none` exactly at unprocessed cells and at the pixels of parentless leaves
dropped by `_make_trunk` -/
theorem finalLmap_none_iff (E : Env) (order : List Nat) (hnd : order.Nodup) (q : Nat) :
    finalLmap E order q = none ↔
      (q ∉ order ∨ ∃ t ∈ droppedOrphans E (run E order), q ∈ t.pixels) := by
  rw [finalLmap_eq E order hnd, P8.labelOf_none_iff, P9.compute_assigned_iff E order hnd]
  constructor
  · intro h
    by_cases h1 : q ∈ order
    · by_cases h2 : ∃ t ∈ droppedOrphans E (run E order), q ∈ t.pixels
      · exact Or.inr h2
      · exact absurd ⟨h1, h2⟩ h
    · exact Or.inl h1
  · rintro (h | h) ⟨h1, h2⟩
    · exact h h1
    · exact h2 h

/-- (c) the padding cells (never processed) carry `none`; cutting the border off loses nothing -/
theorem finalLmap_unprocessed (E : Env) (order : List Nat) (hnd : order.Nodup) (q : Nat)
    (hq : q ∉ order) : finalLmap E order q = none :=
  (finalLmap_none_iff E order hnd q).mpr (Or.inl hq)

/-- `some i` exactly when the structure with final identifier `i` owns the cell -/
theorem finalLmap_some_iff (E : Env) (order : List Nat) (hnd : order.Nodup) (q i : Nat) :
    finalLmap E order q = some i ↔ ∃ s ∈ preL (compute E order), s.id = i ∧ q ∈ s.own := by
  rw [finalLmap_eq E order hnd]
  exact P36.labelOf_some_iff (P9.compute_pixels_nodup E order hnd)

/-- every label is smaller than the number of structures -/
theorem finalLmap_lt (E : Env) (order : List Nat) (hnd : order.Nodup) (q i : Nat)
    (h : finalLmap E order q = some i) : i < (preL (compute E order)).length := by
  obtain ⟨s, hs, e, _⟩ := (finalLmap_some_iff E order hnd q i).mp h
  have := (P30.compute_ids E order hnd).subset (List.mem_map_of_mem (f := Tree.id) hs)
  rw [e] at this
  exact List.mem_range.mp this

/-- and every number below the number of structures labels some cell -/
theorem finalLmap_surj (E : Env) (order : List Nat) (hnd : order.Nodup) (i : Nat)
    (hi : i < (preL (compute E order)).length) : ∃ q, finalLmap E order q = some i := by
  have := (P30.compute_ids E order hnd).symm.subset (List.mem_range.mpr hi)
  obtain ⟨s, hs, e⟩ := List.mem_map.mp this
  have hne := P30.compute_own_nonempty E order s hs
  obtain ⟨q, hq⟩ := List.exists_mem_of_ne_nil _ hne
  exact ⟨q, (finalLmap_some_iff E order hnd q i).mpr ⟨s, hs, e, hq⟩⟩

/-- cells owned by different surviving structures carry different labels -/
theorem finalLmap_separates (E : Env) (order : List Nat) (hnd : order.Nodup) (s t : Tree)
    (hs : s ∈ preL (compute E order)) (ht : t ∈ preL (compute E order)) (q r : Nat)
    (hq : q ∈ s.own) (hr : r ∈ t.own) (e : finalLmap E order q = finalLmap E order r) : s = t := by
  have h1 := (finalLmap_some_iff E order hnd q s.id).mpr ⟨s, hs, rfl, hq⟩
  have h2 := (finalLmap_some_iff E order hnd r t.id).mpr ⟨t, ht, rfl, hr⟩
  rw [e, h2] at h1
  exact (P8.eq_of_id_eq (P30.compute_idsNodup E order hnd) hs ht (by simpa using h1.symm))

/-! ## a concrete instance

The row `3 1 2 1 3` of `P36.rowEnv` (cell 5 is the padding cell) with an extra isolated cell 6 of
value 0, processed last.  A parentless leaf is kept only if it has at least two pixels, so the leaf
`{6}` is dropped by `_make_trunk` and its label is reset.  The three surviving structures are
re-numbered by smallest own pixel: leaf `{0}` ↦ 0, branch `{1}` ↦ 1, leaf `{4,3,2}` ↦ 2. -/

def rowEnv' : Env := { P36.rowEnv with indepOrphan := fun t => decide (2 ≤ t.own.length) }

def rowOrder' : List Nat := [4, 0, 2, 3, 1, 6]

example : (runL rowEnv' rowOrder').roots =
    [node 1 [1] [node 0 [0] [], node 4 [4, 3, 2] []], node 6 [6] []] := by rfl

example : droppedOrphans rowEnv' (runL rowEnv' rowOrder').roots = [node 6 [6] []] := by rfl

example : compute rowEnv' rowOrder' = [node 1 [1] [node 0 [0] [], node 2 [4, 3, 2] []]] := by rfl

/-- the label map at the end of the loop … -/
example : (List.range 7).map (runL rowEnv' rowOrder').lmap =
    [some 0, some 1, some 4, some 4, some 4, none, some 6] := by decide

/-- … and when `compute` returns -/
example : (List.range 7).map (finalLmap rowEnv' rowOrder') =
    [some 0, some 1, some 2, some 2, some 2, none, none] := by decide

example : (List.range 7).map (finalLmap rowEnv' rowOrder') =
    (List.range 7).map (labelOf (compute rowEnv' rowOrder')) := by decide

example : (List.range 7).map (finalLmapRec rowEnv' rowOrder') =
    (List.range 7).map (finalLmap rowEnv' rowOrder') := by decide

/-- with the criteria of `P36.rowEnv` nothing is dropped -/
example : (List.range 6).map (finalLmap P36.rowEnv P36.rowOrder) =
    [some 0, some 1, some 2, some 2, some 2, none] := by decide

/-- the general theorem applies to the instance -/
example (q : Nat) : finalLmap rowEnv' rowOrder' q = labelOf (compute rowEnv' rowOrder') q :=
  finalLmap_eq rowEnv' rowOrder' (by decide) q

end P40
